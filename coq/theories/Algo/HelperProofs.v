(* Proofs about the model of prune_tree / get_subtree (Algo/Helper.v) against Spec/PC14.v. *)
From BT Require Import Base.Prelude Base.Str Base.Rose Base.StrSep Algo.Helper Spec.PC14.

(* ============================================================================================
   1. Generic list facts
   ============================================================================================ *)

Lemma forallb_map {A B} (f : B -> bool) (g : A -> B) l :
  forallb f (map g l) = forallb (fun x => f (g x)) l.
Proof. induction l as [|x l IH]; cbn; [reflexivity|]. rewrite IH. reflexivity. Qed.

Lemma filter_map_comm {A B} (P : B -> bool) (f : A -> B) l :
  filter P (map f l) = map f (filter (fun x => P (f x)) l).
Proof.
  induction l as [|x l IH]; cbn; [reflexivity|]. destruct (P (f x)); cbn; rewrite IH; reflexivity.
Qed.

Lemma filter_filter {A} (P Q : A -> bool) l :
  filter Q (filter P l) = filter (fun x => P x && Q x) l.
Proof.
  induction l as [|x l IH]; cbn; [reflexivity|].
  destruct (P x); cbn; [destruct (Q x); cbn; rewrite IH; reflexivity|exact IH].
Qed.

Lemma filter_ext_in' {A} (P Q : A -> bool) l :
  (forall x, In x l -> P x = Q x) -> filter P l = filter Q l.
Proof.
  induction l as [|x l IH]; intros H; cbn; [reflexivity|].
  rewrite (H x (or_introl eq_refl)). rewrite IH; [reflexivity|].
  intros y Hy. apply H. right. exact Hy.
Qed.

Lemma filter_all {A} (P : A -> bool) l : (forall x, In x l -> P x = true) -> filter P l = l.
Proof.
  induction l as [|x l IH]; intros H; cbn; [reflexivity|].
  rewrite (H x (or_introl eq_refl)). f_equal. apply IH. intros y Hy. apply H. right. exact Hy.
Qed.

Lemma filter_none {A} (P : A -> bool) l : (forall x, In x l -> P x = false) -> filter P l = [].
Proof.
  induction l as [|x l IH]; intros H; cbn; [reflexivity|].
  rewrite (H x (or_introl eq_refl)). apply IH. intros y Hy. apply H. right. exact Hy.
Qed.

Lemma filter_concat {A} (P : A -> bool) ll : filter P (concat ll) = concat (map (filter P) ll).
Proof.
  induction ll as [|l ll IH]; cbn; [reflexivity|]. rewrite filter_app, IH. reflexivity.
Qed.

Lemma map_concat {A B} (f : A -> B) ll : map f (concat ll) = concat (map (map f) ll).
Proof. induction ll as [|l ll IH]; cbn; [reflexivity|]. rewrite map_app, IH. reflexivity. Qed.

Lemma map_mapi_from {A B C} (g : B -> C) (f : nat -> A -> B) i l :
  map g (mapi_from f i l) = mapi_from (fun j x => g (f j x)) i l.
Proof. revert i; induction l as [|x l IH]; intros i; cbn; [reflexivity|]. rewrite IH. reflexivity. Qed.

Lemma mapi_from_ext {A B} (f g : nat -> A -> B) i l :
  (forall j x, In x l -> f j x = g j x) -> mapi_from f i l = mapi_from g i l.
Proof.
  revert i; induction l as [|x l IH]; intros i H; cbn; [reflexivity|].
  rewrite (H i x (or_introl eq_refl)). f_equal. apply IH. intros j y Hy. apply H. right. exact Hy.
Qed.

Lemma mapi_from_const {A B} (f : A -> B) i l : mapi_from (fun _ x => f x) i l = map f l.
Proof. revert i; induction l as [|x l IH]; intros i; cbn; [reflexivity|]. rewrite IH. reflexivity. Qed.

(* ============================================================================================
   2. Positions: prefix order
   ============================================================================================ *)

Lemma pos_eqb_eq p q : pos_eqb p q = true <-> p = q.
Proof.
  unfold pos_eqb. revert q; induction p as [|i p IH]; intros [|j q]; cbn; split; intros H;
    try reflexivity; try discriminate.
  - apply andb_true_iff in H as [H1 H2]. apply Nat.eqb_eq in H1. apply IH in H2. subst. reflexivity.
  - inversion H; subst. rewrite Nat.eqb_refl. cbn. apply IH. reflexivity.
Qed.

Lemma pos_eqb_refl p : pos_eqb p p = true.
Proof. apply pos_eqb_eq. reflexivity. Qed.

Lemma mem_pos_In p l : mem_pos p l = true <-> In p l.
Proof.
  unfold mem_pos. rewrite existsb_exists. split.
  - intros [x [Hx He]]. apply pos_eqb_eq in He. subst. exact Hx.
  - intros H. exists p. split; [exact H|apply pos_eqb_refl].
Qed.

Lemma mem_pos_false p l : mem_pos p l = false <-> ~ In p l.
Proof.
  split.
  - intros H HI. apply mem_pos_In in HI. congruence.
  - intros H. destruct (mem_pos p l) eqn:E; [apply mem_pos_In in E; contradiction|reflexivity].
Qed.

Definition prefix (p q : pos) : Prop := exists r, q = p ++ r.

Lemma prefixb_prefix p q : prefixb p q = true <-> prefix p q.
Proof.
  revert q; induction p as [|i p IH]; intros q; cbn.
  - split; [intros _; exists q; reflexivity|reflexivity].
  - destruct q as [|j q].
    + split; [discriminate|]. intros [r Hr]. discriminate.
    + rewrite andb_true_iff, Nat.eqb_eq, IH. split.
      * intros [-> [r ->]]. exists r. reflexivity.
      * intros [r Hr]. inversion Hr; subst. split; [reflexivity|exists r; reflexivity].
Qed.

Lemma prefix_refl p : prefix p p.
Proof. exists []. symmetry. apply app_nil_r. Qed.

Lemma prefix_nil p : prefix [] p.
Proof. exists p. reflexivity. Qed.

Lemma prefix_trans p q r : prefix p q -> prefix q r -> prefix p r.
Proof. intros [a ->] [b ->]. exists (a ++ b). symmetry. apply app_assoc. Qed.

Lemma prefix_antisym p q : prefix p q -> prefix q p -> p = q.
Proof.
  intros [a Ha] [b Hb]. subst q. rewrite <- app_assoc in Hb.
  rewrite <- (app_nil_r p) in Hb at 1. apply app_inv_head in Hb.
  symmetry in Hb. apply app_eq_nil in Hb as [-> _]. symmetry. apply app_nil_r.
Qed.

Lemma prefix_cons i p q : prefix (i :: p) (i :: q) <-> prefix p q.
Proof.
  split; intros [r Hr].
  - inversion Hr. exists r. reflexivity.
  - exists r. subst. reflexivity.
Qed.

Lemma prefix_cons_inv i p q : prefix (i :: p) q -> exists q', q = i :: q' /\ prefix p q'.
Proof. intros [r ->]. exists (p ++ r). split; [reflexivity|exists r; reflexivity]. Qed.

Lemma prefix_comparable y q p : prefix y p -> prefix q p -> prefix y q \/ prefix q y.
Proof.
  revert q p; induction y as [|i y IH]; intros q p Hy Hq.
  - left. apply prefix_nil.
  - destruct q as [|j q]; [right; apply prefix_nil|].
    apply prefix_cons_inv in Hy as [p1 [-> Hy]]. apply prefix_cons_inv in Hq as [p2 [E Hq]].
    inversion E; subst. destruct (IH q p2 Hy Hq) as [H|H]; [left|right]; apply prefix_cons; exact H.
Qed.

Lemma prefix_snoc y p i : prefix y (p ++ [i]) -> prefix y p \/ y = p ++ [i].
Proof.
  intros [r Hr]. destruct r as [|x r] using rev_ind.
  - right. rewrite app_nil_r in Hr. symmetry. exact Hr.
  - left. rewrite app_assoc in Hr. apply app_inj_tail in Hr as [Hr _]. exists r. exact Hr.
Qed.

Lemma prefix_app_l p r : prefix p (p ++ r).
Proof. exists r. reflexivity. Qed.

(* ancestors *)
Lemma In_proper_prefixes x q : In x (proper_prefixes q) <-> prefix x q /\ x <> q.
Proof.
  revert x; induction q as [|i q IH]; intros x; cbn.
  - split; [contradiction|]. intros [[r Hr] Hn]. symmetry in Hr. apply app_eq_nil in Hr as [-> _].
    contradiction.
  - split.
    + intros [<-|H]; [split; [apply prefix_nil|discriminate]|].
      apply in_map_iff in H as [x' [<- Hx]]. apply IH in Hx as [Hp Hn]. split.
      * apply prefix_cons. exact Hp.
      * intros E. inversion E. contradiction.
    + intros [Hp Hn]. destruct x as [|j x]; [left; reflexivity|right].
      apply prefix_cons_inv in Hp as [q' [E Hp]]. inversion E; subst.
      apply in_map_iff. exists x. split; [reflexivity|]. apply IH. split; [exact Hp|].
      intros ->. apply Hn. reflexivity.
Qed.

Lemma In_ancestors x N : In x (ancestors_to_prune N) <-> exists q, In q N /\ prefix x q /\ x <> q.
Proof.
  unfold ancestors_to_prune. rewrite in_flat_map. split.
  - intros [q [Hq Hx]]. exists q. split; [exact Hq|]. apply In_proper_prefixes. exact Hx.
  - intros [q [Hq Hx]]. exists q. split; [exact Hq|]. apply In_proper_prefixes. exact Hx.
Qed.

(* all non-empty prefixes of a position, shortest first *)
Fixpoint nonempty_prefixes (p : pos) : list pos :=
  match p with [] => [] | i :: r => [i] :: map (cons i) (nonempty_prefixes r) end.

(* the node at p is still attached to the root: no node on the route was cut loose *)
Definition survive (alive : pos -> bool) (p : pos) : bool := forallb alive (nonempty_prefixes p).

Lemma survive_cons alive i p :
  survive alive (i :: p) = alive [i] && survive (fun r => alive (i :: r)) p.
Proof. unfold survive. cbn [nonempty_prefixes forallb]. rewrite forallb_map. reflexivity. Qed.

Lemma In_nonempty_prefixes y p : In y (nonempty_prefixes p) <-> y <> [] /\ prefix y p.
Proof.
  revert y; induction p as [|i p IH]; intros y; cbn.
  - split; [contradiction|]. intros [Hn [r Hr]]. symmetry in Hr. apply app_eq_nil in Hr as [-> _].
    contradiction.
  - split.
    + intros [<-|H].
      * split; [discriminate|]. exists p. reflexivity.
      * apply in_map_iff in H as [y' [<- Hy]]. apply IH in Hy as [_ Hp]. split; [discriminate|].
        apply prefix_cons. exact Hp.
    + intros [Hn Hp]. destruct y as [|j y]; [contradiction|].
      apply prefix_cons_inv in Hp as [q' [E Hp]]. inversion E; subst.
      destruct y as [|k y]; [left; reflexivity|right].
      apply in_map_iff. exists (k :: y). split; [reflexivity|]. apply IH. split; [discriminate|exact Hp].
Qed.

Lemma survive_spec alive p :
  survive alive p = true <-> forall y, y <> [] -> prefix y p -> alive y = true.
Proof.
  unfold survive. rewrite forallb_forall. split.
  - intros H y Hn Hp. apply H. apply In_nonempty_prefixes. split; assumption.
  - intros H y Hy. apply In_nonempty_prefixes in Hy as [Hn Hp]. apply H; assumption.
Qed.

(* ============================================================================================
   3. The detach rule keeps exactly the routes to the targets and (unless exact) what is below
      them — on positions, for non-nested targets
   ============================================================================================ *)

Definition walk_set (N : list pos) (exact : bool) : list pos :=
  if exact then ancestors_to_prune N ++ N else ancestors_to_prune N.

Lemma In_walk x N exact :
  In x (walk_set N exact) <-> In x (ancestors_to_prune N) \/ (exact = true /\ In x N).
Proof.
  unfold walk_set. destruct exact.
  - rewrite in_app_iff. split; intros [H|H]; auto. destruct H as [_ H]. auto.
  - split; [auto|]. intros [H|[H _]]; [exact H|discriminate].
Qed.

Lemma detached_nonempty N exact c :
  c <> [] ->
  detached N exact c =
  mem_pos (removelast c) (walk_set N exact) && negb (mem_pos c (walk_set N exact)) && negb (mem_pos c N).
Proof. destruct c as [|i c]; [contradiction|reflexivity]. Qed.

Lemma not_detached N exact c :
  c <> [] ->
  (detached N exact c = false <->
   ~ In (removelast c) (walk_set N exact) \/ In c (walk_set N exact) \/ In c N).
Proof.
  intros Hc. rewrite (detached_nonempty N exact c Hc).
  rewrite !andb_false_iff, !negb_false_iff, mem_pos_false, !mem_pos_In. tauto.
Qed.

Definition non_nested (N : list pos) : Prop :=
  forall q1 q2, In q1 N -> In q2 N -> prefix q1 q2 -> q1 = q2.

Lemma nested_false N : nested N = false <-> non_nested N.
Proof.
  unfold nested, non_nested. split.
  - intros H q1 q2 H1 H2 Hp.
    destruct (pos_eqb q1 q2) eqn:E; [apply pos_eqb_eq; exact E|exfalso].
    assert (Ht : existsb (fun a => existsb (fun b => prefixb a b && negb (pos_eqb a b)) N) N = true).
    { apply existsb_exists. exists q1. split; [exact H1|]. apply existsb_exists. exists q2.
      split; [exact H2|]. rewrite E. apply prefixb_prefix in Hp. rewrite Hp. reflexivity. }
    congruence.
  - intros H. destruct (existsb _ N) eqn:E; [exfalso|reflexivity].
    apply existsb_exists in E as [q1 [H1 E]]. apply existsb_exists in E as [q2 [H2 E]].
    apply andb_true_iff in E as [Hp Hn]. apply prefixb_prefix in Hp.
    rewrite (H q1 q2 H1 H2 Hp), pos_eqb_refl in Hn. discriminate.
Qed.

Lemma on_route_spec N p : on_route N p = true <-> exists q, In q N /\ prefix p q.
Proof.
  unfold on_route. rewrite existsb_exists. split; intros [q [H1 H2]]; exists q; split; try exact H1;
    apply prefixb_prefix; exact H2.
Qed.

Lemma below_target_spec N p : below_target N p = true <-> exists q, In q N /\ prefix q p.
Proof.
  unfold below_target. rewrite existsb_exists. split; intros [q [H1 H2]]; exists q; split; try exact H1;
    apply prefixb_prefix; exact H2.
Qed.

Lemma keep_spec N exact p :
  keep N exact p = true <->
  (exists q, In q N /\ prefix p q) \/ (exact = false /\ exists q, In q N /\ prefix q p).
Proof.
  unfold keep. rewrite orb_true_iff, andb_true_iff, negb_true_iff, on_route_spec, below_target_spec.
  tauto.
Qed.

Lemma removelast_snoc (p : pos) i : removelast (p ++ [i]) = p.
Proof. apply removelast_last. Qed.

Lemma proper_prefix_removelast q y : prefix q y -> q <> y -> prefix q (removelast y).
Proof.
  intros Hp Hn. destruct y as [|a y] using rev_ind.
  - destruct Hp as [r Hr]. symmetry in Hr. apply app_eq_nil in Hr as [-> _]. contradiction.
  - rewrite removelast_snoc. apply prefix_snoc in Hp as [H|H]; [exact H|contradiction].
Qed.

Lemma removelast_prefix (y : pos) : prefix (removelast y) y.
Proof.
  destruct y as [|a y] using rev_ind; [apply prefix_refl|]. rewrite removelast_snoc. apply prefix_app_l.
Qed.

(* a node on a route to a target is in one of the two sets *)
Lemma on_route_in_sets N exact y q : In q N -> prefix y q -> In y (walk_set N exact) \/ In y N.
Proof.
  intros Hq Hp. destruct (pos_eqb y q) eqn:E.
  - apply pos_eqb_eq in E. subst. right. exact Hq.
  - left. apply In_walk. left. apply In_ancestors. exists q. split; [exact Hq|]. split; [exact Hp|].
    intros ->. rewrite pos_eqb_refl in E. discriminate.
Qed.

Lemma keep_survive N exact p :
  non_nested N -> keep N exact p = true -> survive (fun c => negb (detached N exact c)) p = true.
Proof.
  intros HN Hk. apply survive_spec. intros y Hy Hyp. apply negb_true_iff.
  apply (not_detached N exact y Hy).
  apply keep_spec in Hk as [[q [Hq Hpq]]|[He [q [Hq Hqp]]]].
  - right. apply (on_route_in_sets N exact y q Hq). apply (prefix_trans _ _ _ Hyp Hpq).
  - destruct (prefix_comparable y q p Hyp Hqp) as [H|H].
    + right. apply (on_route_in_sets N exact y q Hq H).
    + destruct (pos_eqb q y) eqn:E.
      * apply pos_eqb_eq in E. subst. right. right. exact Hq.
      * left. intros Hin. apply In_walk in Hin as [Hin|[Hex _]]; [|congruence].
        apply In_ancestors in Hin as [q' [Hq' [Hp' Hn']]].
        assert (Hqr : prefix q (removelast y)).
        { apply proper_prefix_removelast; [exact H|]. intros ->. rewrite pos_eqb_refl in E. discriminate. }
        assert (Eq : q = q') by (apply (HN q q' Hq Hq'); apply (prefix_trans _ _ _ Hqr Hp')).
        subst q'. apply Hn'. apply prefix_antisym; assumption.
Qed.

Lemma survive_snoc alive p i : survive alive (p ++ [i]) = true -> survive alive p = true /\ alive (p ++ [i]) = true.
Proof.
  intros H. split.
  - apply survive_spec. intros y Hy Hp. apply (proj1 (survive_spec alive (p ++ [i])) H y Hy).
    apply (prefix_trans _ _ _ Hp). apply prefix_app_l.
  - apply (proj1 (survive_spec alive (p ++ [i])) H).
    + intros E. apply app_eq_nil in E as [_ E]. discriminate.
    + apply prefix_refl.
Qed.

Lemma survive_keep N exact p :
  N <> [] -> survive (fun c => negb (detached N exact c)) p = true -> keep N exact p = true.
Proof.
  intros HN. induction p as [|i p IH] using rev_ind; intros Hs.
  - apply keep_spec. left. destruct N as [|q N]; [contradiction|]. exists q. split; [left; reflexivity|].
    apply prefix_nil.
  - apply survive_snoc in Hs as [Hs Ha]. specialize (IH Hs). apply negb_true_iff in Ha.
    assert (Hne : p ++ [i] <> []) by (intros E; apply app_eq_nil in E as [_ E]; discriminate).
    apply (not_detached N exact _ Hne) in Ha. rewrite removelast_snoc in Ha.
    assert (Hsets : In (p ++ [i]) (walk_set N exact) \/ In (p ++ [i]) N -> keep N exact (p ++ [i]) = true).
    { intros [Hin|Hin]; apply keep_spec; left.
      - apply In_walk in Hin as [Hin|[_ Hin]].
        + apply In_ancestors in Hin as [q [Hq [Hp _]]]. exists q. split; assumption.
        + exists (p ++ [i]). split; [exact Hin|apply prefix_refl].
      - exists (p ++ [i]). split; [exact Hin|apply prefix_refl]. }
    apply keep_spec in IH as [[q [Hq Hpq]]|[He [q [Hq Hqp]]]].
    + destruct (pos_eqb p q) eqn:E.
      * apply pos_eqb_eq in E. subst q. destruct exact eqn:Eex.
        -- destruct Ha as [Ha|Ha]; [|apply Hsets; exact Ha]. exfalso. apply Ha.
           apply In_walk. right. split; [reflexivity|exact Hq].
        -- apply keep_spec. right. split; [reflexivity|]. exists p. split; [exact Hq|apply prefix_app_l].
      * destruct Ha as [Ha|Ha]; [|apply Hsets; exact Ha]. exfalso. apply Ha.
        apply In_walk. left. apply In_ancestors. exists q. split; [exact Hq|]. split; [exact Hpq|].
        intros ->. rewrite pos_eqb_refl in E. discriminate.
    + apply keep_spec. right. split; [exact He|]. exists q. split; [exact Hq|].
      apply (prefix_trans _ _ _ Hqp). apply prefix_app_l.
Qed.

Lemma survive_eq_keep N exact p :
  N <> [] -> non_nested N -> survive (fun c => negb (detached N exact c)) p = keep N exact p.
Proof.
  intros H1 H2. apply Bool.eq_iff_eq_true. split.
  - apply survive_keep. exact H1.
  - apply keep_survive. exact H2.
Qed.

(* ============================================================================================
   4. Trees: labels of a tree, selecting nodes by position, cutting subtrees loose
   ============================================================================================ *)

Definition lbl_up (l : lbl) : lbl := match l with (d, n, a) => (S d, n, a) end.
Definition lbl_depth (l : lbl) : nat := match l with (d, _, _) => d end.

(* the labels of the nodes whose position satisfies P, in pre-order *)
Definition sel (P : pos -> bool) (t : tree) : list lbl :=
  map lbl_of (filter (fun ps => P (fst ps)) (pre_pos t)).

Lemma lbl_of_shift i (ps : pos * tree) : lbl_of (i :: fst ps, snd ps) = lbl_up (lbl_of ps).
Proof. destruct ps as [p s]. reflexivity. Qed.

Lemma sel_unfold P g n a ks :
  sel P (T g n a ks) =
  (if P [] then [(1, n, a)] else []) ++
  concat (mapi_from (fun i k => map lbl_up (sel (fun p => P (i :: p)) k)) 0 ks).
Proof.
  unfold sel. cbn [pre_pos filter fst].
  assert (E : map lbl_of
                (filter (fun ps => P (fst ps))
                   (concat (mapi_from (fun i k => map (fun ps => (i :: fst ps, snd ps)) (pre_pos k)) 0 ks))) =
              concat (mapi_from (fun i k =>
                        map lbl_up (map lbl_of (filter (fun ps => P (i :: fst ps)) (pre_pos k)))) 0 ks)).
  { rewrite filter_concat, map_mapi_from, map_concat, map_mapi_from. f_equal.
    apply mapi_from_ext. intros j x _. rewrite filter_map_comm, !map_map. cbn [fst].
    apply map_ext. intros ps. apply lbl_of_shift. }
  destruct (P []); cbn [map app]; rewrite E; reflexivity.
Qed.

Lemma sel_ext P Q t : (forall p, P p = Q p) -> sel P t = sel Q t.
Proof. intros H. unfold sel. f_equal. apply filter_ext_in'. intros ps _. apply H. Qed.

Lemma sel_false t : sel (fun _ => false) t = [].
Proof. unfold sel. rewrite filter_none; [reflexivity|]. intros; reflexivity. Qed.

Lemma obs_tree_sel t : obs_tree t = sel (fun _ => true) t.
Proof. unfold obs_tree, sel. rewrite filter_all; [reflexivity|]. intros; reflexivity. Qed.

Lemma obs_tree_unfold g n a ks :
  obs_tree (T g n a ks) = (1, n, a) :: flat_map (fun k => map lbl_up (obs_tree k)) ks.
Proof.
  rewrite obs_tree_sel, sel_unfold. cbn [app]. f_equal.
  rewrite flat_map_concat_map. f_equal. rewrite <- (mapi_from_const (fun k => map lbl_up (obs_tree k)) 0 ks).
  apply mapi_from_ext. intros j x _. rewrite obs_tree_sel. reflexivity.
Qed.

Lemma filter_tree_kids (alive : pos -> bool) (ks : list tree) : forall i,
  Forall (fun k => forall al, obs_tree (filter_tree al k) = sel (survive al) k) ks ->
  flat_map (fun k => map lbl_up (obs_tree k))
    (opt_list (mapi_from (fun i k => if alive [i] then Some (filter_tree (fun p => alive (i :: p)) k) else None) i ks)) =
  concat (mapi_from (fun i k => map lbl_up (sel (fun p => survive alive (i :: p)) k)) i ks).
Proof.
  induction ks as [|k ks IHk]; intros i HF; [reflexivity|].
  inversion HF as [|? ? Hk Hks]; subst. cbn [mapi_from concat].
  destruct (alive [i]) eqn:E; cbn [opt_list flat_map].
  - rewrite (IHk (S i) Hks). f_equal. rewrite Hk. f_equal. apply sel_ext. intros p.
    rewrite survive_cons, E. reflexivity.
  - rewrite (IHk (S i) Hks).
    rewrite (sel_ext (fun p => survive alive (i :: p)) (fun _ => false)), sel_false; [reflexivity|].
    intros p. rewrite survive_cons, E. reflexivity.
Qed.

(* cutting loose every subtree whose root is not alive leaves exactly the surviving nodes, with
   their depth, name and attributes, in the original order *)
Lemma filter_tree_obs t : forall alive, obs_tree (filter_tree alive t) = sel (survive alive) t.
Proof.
  induction t as [g n a ks IH] using tree_ind'. intros alive.
  cbn [filter_tree]. rewrite obs_tree_unfold, sel_unfold. cbn [survive nonempty_prefixes forallb app].
  f_equal. apply filter_tree_kids. exact IH.
Qed.

Theorem prune_paths_kept N exact t :
  N <> [] -> nested N = false ->
  obs_tree (prune_paths N exact t) = sel (keep N exact) t.
Proof.
  intros H1 H2. unfold prune_paths. rewrite filter_tree_obs. apply sel_ext. intros p.
  apply survive_eq_keep; [exact H1|]. apply nested_false. exact H2.
Qed.

(* ============================================================================================
   5. The depth cut
   ============================================================================================ *)

(* the tree without everything deeper than k levels below the root *)
Fixpoint cut (k : nat) (t : tree) {struct t} : tree :=
  match t with
  | T g n a ks => match k with 0 => T g n a [] | S k' => T g n a (map (cut k') ks) end
  end.

Definition del_fold (ps : list pos) (t : tree) : tree :=
  fold_left (fun acc p => del_children_at p acc) ps t.

Lemma upd_nth_app {A} (f : A -> A) done c r :
  upd_nth (length done) f (done ++ c :: r) = done ++ f c :: r.
Proof. induction done as [|x done IH]; cbn; [reflexivity|]. rewrite IH. reflexivity. Qed.

Lemma del_fold_child ps : forall g n a done c r,
  del_fold (map (cons (length done)) ps) (T g n a (done ++ c :: r)) =
  T g n a (done ++ del_fold ps c :: r).
Proof.
  induction ps as [|p ps IH]; intros g n a done c r; [reflexivity|].
  unfold del_fold in *. cbn [map fold_left del_children_at]. rewrite upd_nth_app. apply IH.
Qed.

Lemma del_fold_app ps qs t : del_fold (ps ++ qs) t = del_fold qs (del_fold ps t).
Proof. unfold del_fold. apply fold_left_app. Qed.

Lemma del_fold_level k :
  (forall c, del_fold (level_pos k c) c = cut k c) ->
  forall ks g n a done,
    del_fold (concat (mapi_from (fun i c => map (cons i) (level_pos k c)) (length done) ks))
             (T g n a (done ++ ks)) =
    T g n a (done ++ map (cut k) ks).
Proof.
  intros Hk. induction ks as [|c r IH]; intros g n a done; [reflexivity|].
  cbn [mapi_from concat map]. rewrite del_fold_app, del_fold_child, Hk.
  replace (done ++ cut k c :: r) with ((done ++ [cut k c]) ++ r) by (rewrite <- app_assoc; reflexivity).
  replace (S (length done)) with (length (done ++ [cut k c])) by (rewrite app_length; cbn; lia).
  rewrite IH. rewrite <- app_assoc. reflexivity.
Qed.

(* deleting the children of every node of level k (in the order of the level group) = cut *)
Lemma del_level_cut k : forall t, del_fold (level_pos k t) t = cut k t.
Proof.
  induction k as [|k IH]; intros [g n a ks].
  - reflexivity.
  - cbn [level_pos tkids cut]. apply (del_fold_level k IH ks g n a []).
Qed.

Lemma obs_depth_pos t l : In l (obs_tree t) -> 1 <= lbl_depth l.
Proof.
  unfold obs_tree. intros H. apply in_map_iff in H as [ps [<- _]]. unfold lbl_of. cbn. lia.
Qed.

Lemma lbl_depth_up l : lbl_depth (lbl_up l) = S (lbl_depth l).
Proof. destruct l as [[d n] a]. reflexivity. Qed.

Lemma cut_obs t : forall k,
  obs_tree (cut k t) = filter (fun l => Nat.leb (lbl_depth l) (S k)) (obs_tree t).
Proof.
  induction t as [g n a ks IH] using tree_ind'. intros k. rewrite (obs_tree_unfold g n a ks).
  cbn [filter lbl_depth Nat.leb]. destruct k as [|k]; cbn [cut].
  - rewrite obs_tree_unfold. cbn [flat_map]. apply (f_equal (cons (1, n, a))). symmetry. apply filter_none.
    intros l Hl. apply in_flat_map in Hl as [c [_ Hl]]. apply in_map_iff in Hl as [l' [<- Hl']].
    apply obs_depth_pos in Hl'. rewrite lbl_depth_up. apply Nat.leb_gt. lia.
  - rewrite obs_tree_unfold. apply (f_equal (cons (1, n, a))).
    induction ks as [|c r IHr]; [reflexivity|]. inversion IH as [|? ? Hc Hr]; subst.
    cbn [map flat_map]. rewrite filter_app, <- (IHr Hr). f_equal.
    rewrite Hc, filter_map_comm. f_equal. apply filter_ext_in'. intros l _.
    rewrite lbl_depth_up. reflexivity.
Qed.

Theorem depth_cut_obs d t :
  obs_tree (depth_cut d t) = filter (fun l => within_depth d (lbl_depth l)) (obs_tree t).
Proof.
  destruct d as [|k]; cbn [depth_cut].
  - symmetry. apply filter_all. intros; reflexivity.
  - change (obs_tree (del_fold (level_pos k t) t) =
            filter (fun l => within_depth (S k) (lbl_depth l)) (obs_tree t)).
    rewrite del_level_cut, cut_obs. reflexivity.
Qed.

Lemma filter_sel Q P t :
  filter (fun l => Q (lbl_depth l)) (sel P t) =
  map lbl_of (filter (fun ps => P (fst ps) && Q (S (length (fst ps)))) (pre_pos t)).
Proof.
  unfold sel. rewrite filter_map_comm, filter_filter. reflexivity.
Qed.

Theorem prune_then_cut_obs N exact d t :
  N <> [] -> nested N = false ->
  obs_tree (depth_cut d (prune_paths N exact t)) = expected_prune t true N exact d.
Proof.
  intros H1 H2. rewrite depth_cut_obs, (prune_paths_kept N exact t H1 H2), filter_sel. reflexivity.
Qed.

Theorem cut_only_obs N exact d t :
  obs_tree (depth_cut d t) = expected_prune t false N exact d.
Proof. rewrite depth_cut_obs, obs_tree_sel, filter_sel. reflexivity. Qed.

(* ============================================================================================
   6. copy_tree changes nothing that is observed or searched
   ============================================================================================ *)

Definition cp (ps : pos * tree) : pos * tree := (fst ps, copy_tree (snd ps)).

Lemma mapi_from_map {A B C} (f : nat -> B -> C) (g : A -> B) i l :
  mapi_from f i (map g l) = mapi_from (fun j x => f j (g x)) i l.
Proof. revert i; induction l as [|x l IH]; intros i; cbn; [reflexivity|]. rewrite IH. reflexivity. Qed.

Lemma Forall_In {A} (P : A -> Prop) l x : Forall P l -> In x l -> P x.
Proof. intros H. apply Forall_forall. exact H. Qed.

Lemma pre_pos_copy t : pre_pos (copy_tree t) = map cp (pre_pos t).
Proof.
  induction t as [g n a ks IH] using tree_ind'.
  cbn [copy_tree pre_pos map]. f_equal. rewrite mapi_from_map, map_concat, map_mapi_from. f_equal.
  apply mapi_from_ext. intros j x Hx. rewrite (Forall_In _ _ _ IH Hx), !map_map. reflexivity.
Qed.

Lemma sel_copy P t : sel P (copy_tree t) = sel P t.
Proof.
  unfold sel. rewrite pre_pos_copy, filter_map_comm, map_map. cbn [cp fst].
  apply map_ext. intros [p [g n a ks]]. reflexivity.
Qed.

Lemma obs_tree_copy t : obs_tree (copy_tree t) = obs_tree t.
Proof. rewrite !obs_tree_sel. apply sel_copy. Qed.

Lemma positions_copy t : map fst (pre_pos (copy_tree t)) = map fst (pre_pos t).
Proof. rewrite pre_pos_copy, map_map. reflexivity. Qed.

Lemma nth_error_map' {A B} (f : A -> B) l i : nth_error (map f l) i = option_map f (nth_error l i).
Proof. revert i; induction l as [|x l IH]; intros [|i]; cbn; try reflexivity. apply IH. Qed.

Lemma tname_copy t : tname (copy_tree t) = tname t.
Proof. destruct t; reflexivity. Qed.
Lemma tkids_copy t : tkids (copy_tree t) = map copy_tree (tkids t).
Proof. destruct t; reflexivity. Qed.

Lemma names_along_copy p : forall t, names_along (copy_tree t) p = names_along t p.
Proof.
  induction p as [|i p IH]; intros t.
  - destruct t; reflexivity.
  - cbn [names_along]. rewrite tname_copy, tkids_copy, nth_error_map'.
    destruct (nth_error (tkids t) i) as [k|]; cbn [option_map]; [rewrite IH|]; reflexivity.
Qed.

Lemma subtree_at_copy p : forall t, subtree_at (copy_tree t) p = option_map copy_tree (subtree_at t p).
Proof.
  induction p as [|i p IH]; intros t; [reflexivity|].
  cbn [subtree_at]. rewrite tkids_copy, nth_error_map'.
  destruct (nth_error (tkids t) i) as [k|]; cbn [option_map]; [apply IH|reflexivity].
Qed.

(* Rose.positions is the list of positions of pre_pos *)
Lemma positions_pre_pos t : positions t = map fst (pre_pos t).
Proof.
  induction t as [g n a ks IH] using tree_ind'.
  cbn [positions pre_pos map fst]. apply (f_equal (cons [])).
  generalize 0. induction ks as [|k r IHr]; intros i; [reflexivity|].
  inversion IH as [|? ? Hk Hr]; subst.
  cbn [mapi_from concat]. rewrite map_app, (IHr Hr (S i)), Hk, !map_map. reflexivity.
Qed.

Lemma route_names p : forall t, route t p = names_along t p.
Proof.
  induction p as [|i p IH]; intros t; [reflexivity|].
  cbn [route names_along]. destruct (nth_error (tkids t) i); [rewrite IH|]; reflexivity.
Qed.

(* ============================================================================================
   7. Strings: trailing part, stripping a one-character separator
   ============================================================================================ *)

Lemma is_suffix_of_spec a b : is_suffix_of a b = true <-> exists r, b = r ++ a.
Proof.
  induction b as [|x b IH]; cbn [is_suffix_of]; rewrite orb_true_iff, str_eqb_eq.
  - split.
    + intros [->|H]; [exists []; reflexivity|discriminate].
    + intros [r Hr]. left. symmetry in Hr. apply app_eq_nil in Hr as [_ ->]. reflexivity.
  - rewrite IH. split.
    + intros [->|[r ->]]; [exists []; reflexivity|exists (x :: r); reflexivity].
    + intros [[|y r] Hr]; [left; symmetry; exact Hr|right]. inversion Hr. exists r. reflexivity.
Qed.

Lemma endswith_spec b a : endswith b a = true <-> exists r, b = r ++ a.
Proof.
  unfold endswith. split.
  - intros H. apply startswith_prefix in H as [r Hr]. exists (rev r).
    rewrite <- (rev_involutive b), Hr, rev_app_distr, rev_involutive. reflexivity.
  - intros [r ->]. rewrite rev_app_distr. apply startswith_app.
Qed.

Lemma is_suffix_endswith a b : is_suffix_of a b = endswith b a.
Proof.
  apply Bool.eq_iff_eq_true. rewrite is_suffix_of_spec, endswith_spec. reflexivity.
Qed.

Lemma drop_leading_single c fuel : forall s, length s <= fuel -> drop_leading fuel s [c] = lstrip s [c].
Proof.
  induction fuel as [|f IH]; intros s Hl.
  - destruct s; [reflexivity|cbn in Hl; lia].
  - destruct s as [|x s]; [reflexivity|].
    cbn [drop_leading is_nil startswith lstrip memN existsb length skipn].
    rewrite andb_true_r, orb_false_r, (N.eqb_sym x c).
    destruct (N.eqb c x); [|reflexivity]. apply IH. cbn in Hl. lia.
Qed.

Lemma strip_trailing_single s c : strip_trailing s [c] = rstrip s [c].
Proof.
  unfold strip_trailing, rstrip. cbn [rev app]. f_equal. apply drop_leading_single.
  rewrite rev_length. lia.
Qed.

(* the spec's notion of "the path addresses the node" coincides with what find_path tests, when the
   tree separator is a single character *)
Lemma find_paths_addressed c t s : find_paths_pos [c] (copy_tree t) s = addressed [c] t s.
Proof.
  unfold find_paths_pos, addressed. rewrite positions_pre_pos, positions_copy.
  apply filter_ext_in'. intros p _. unfold node_path_name, spec_path_name.
  rewrite names_along_copy, route_names, strip_trailing_single, is_suffix_endswith. reflexivity.
Qed.

(* ============================================================================================
   8. locate: all paths found <-> every path addresses exactly one node
   ============================================================================================ *)

Definition hits_of (c : N) (sep : str) (t : tree) (paths : list str) : list (list pos) :=
  map (fun s => addressed [c] t (replace s sep [c])) paths.

Lemma locate_missing c sep t paths :
  existsb is_nil (hits_of c sep t paths) = true ->
  exists e, locate [c] sep (copy_tree t) paths = Raise e.
Proof.
  induction paths as [|s paths IH]; cbn [hits_of map existsb locate]; [discriminate|].
  unfold find_path. rewrite find_paths_addressed.
  destruct (addressed [c] t (replace s sep [c])) as [|p [|p' l]]; cbn [is_nil orb]; intros H.
  - exists NotFoundError. reflexivity.
  - destruct (IH H) as [e He]. exists e. rewrite He. reflexivity.
  - exists SearchError. reflexivity.
Qed.

Lemma locate_found c sep t paths :
  singletons (hits_of c sep t paths) = true ->
  locate [c] sep (copy_tree t) paths = Ret (concat (hits_of c sep t paths)).
Proof.
  induction paths as [|s paths IH]; cbn [hits_of map singletons forallb locate concat]; [reflexivity|].
  unfold find_path. rewrite find_paths_addressed.
  destruct (addressed [c] t (replace s sep [c])) as [|p [|p' l]]; cbn [andb]; intros H; try discriminate.
  fold (hits_of c sep t paths). rewrite (IH H). reflexivity.
Qed.

Lemma singletons_nonempty {A} (ll : list (list A)) : singletons ll = true -> ll <> [] -> concat ll <> [].
Proof.
  destruct ll as [|[|x [|y l]] ll]; cbn; intros H Hn; try discriminate; try contradiction.
Qed.

(* ============================================================================================
   9. The subtree at a position
   ============================================================================================ *)

Lemma concat_mapi_after {A B} (G : nat -> A -> list B) i : forall ks j0,
  i < j0 -> (forall j x, j <> i -> G j x = []) -> concat (mapi_from G j0 ks) = [].
Proof.
  induction ks as [|x r IH]; intros j0 Hlt HG; [reflexivity|].
  cbn [mapi_from concat]. rewrite (HG j0 x) by lia. rewrite IH; [reflexivity|lia|exact HG].
Qed.

Lemma concat_mapi_only {A B} (G : nat -> A -> list B) i : forall ks j0 k,
  j0 <= i -> nth_error ks (i - j0) = Some k -> (forall j x, j <> i -> G j x = []) ->
  concat (mapi_from G j0 ks) = G i k.
Proof.
  induction ks as [|x r IH]; intros j0 k Hle Hn HG.
  - destruct (i - j0); discriminate.
  - cbn [mapi_from concat]. destruct (Nat.eq_dec j0 i) as [->|Hne].
    + rewrite Nat.sub_diag in Hn. cbn in Hn. inversion Hn; subst.
      rewrite (concat_mapi_after G i r (S i)); [apply app_nil_r|lia|exact HG].
    + rewrite (HG j0 x Hne). cbn [app]. apply IH; [lia| |exact HG].
      replace (i - j0) with (S (i - S j0)) in Hn by lia. exact Hn.
Qed.

Lemma expected_subtree_spec q : forall t s d,
  subtree_at t q = Some s ->
  expected_subtree t q d = filter (fun l => within_depth d (lbl_depth l)) (obs_tree s).
Proof.
  induction q as [|i q IH]; intros t s d H.
  - cbn in H. inversion H; subst. rewrite obs_tree_sel, filter_sel. unfold expected_subtree.
    cbn [prefixb length]. rewrite (filter_ext_in' _ (fun ps : pos * tree => true && within_depth d (S (length (fst ps))))).
    + apply map_ext. intros [p x]. unfold lbl_of. cbn [fst snd]. rewrite Nat.sub_0_r. reflexivity.
    + intros [p x] _. cbn [fst]. rewrite Nat.sub_0_r. reflexivity.
  - destruct t as [g n a ks]. cbn [subtree_at tkids] in H.
    destruct (nth_error ks i) as [k|] eqn:Ek; [|discriminate].
    rewrite <- (IH k s d H). unfold expected_subtree. cbn [pre_pos filter fst prefixb andb].
    rewrite filter_concat, map_mapi_from, map_concat, map_mapi_from.
    rewrite (concat_mapi_only _ i ks 0 k); [| lia | rewrite Nat.sub_0_r; exact Ek |].
    + rewrite filter_map_comm, map_map. cbn [fst snd].
      rewrite (filter_ext_in' _ (fun ps : pos * tree => prefixb q (fst ps) && within_depth d (S (length (fst ps)) - length q))).
      * apply map_ext. intros [p x]. reflexivity.
      * intros [p x] _. cbn [fst prefixb length]. rewrite Nat.eqb_refl. reflexivity.
    + intros j x Hj. rewrite filter_map_comm. rewrite filter_none; [reflexivity|].
      intros [p y] _. cbn [fst prefixb]. apply Nat.eqb_neq in Hj. rewrite Nat.eqb_sym, Hj. reflexivity.
Qed.

Lemma In_kids_pos i q ks : forall j0,
  In (i :: q) (map fst (concat (mapi_from (fun j k => map (fun ps => (j :: fst ps, snd ps)) (pre_pos k)) j0 ks))) ->
  exists k, j0 <= i /\ nth_error ks (i - j0) = Some k /\ In q (map fst (pre_pos k)).
Proof.
  induction ks as [|x r IH]; intros j0 H; [contradiction|].
  cbn [mapi_from concat] in H. rewrite map_app, in_app_iff in H. destruct H as [H|H].
  - rewrite map_map in H. cbn [fst] in H. apply in_map_iff in H as [ps [E Hps]]. inversion E; subst.
    exists x. split; [lia|]. rewrite Nat.sub_diag. split; [reflexivity|]. apply in_map. exact Hps.
  - destruct (IH (S j0) H) as [k [Hle [Hn Hin]]]. exists k. split; [lia|]. split; [|exact Hin].
    replace (i - j0) with (S (i - S j0)) by lia. exact Hn.
Qed.

Lemma positions_valid q : forall t, In q (map fst (pre_pos t)) -> exists s, subtree_at t q = Some s.
Proof.
  induction q as [|i q IH]; intros t H.
  - exists t. reflexivity.
  - destruct t as [g n a ks]. cbn [pre_pos map fst] in H. destruct H as [H|H]; [discriminate|].
    apply In_kids_pos in H as [k [_ [Hn Hin]]]. rewrite Nat.sub_0_r in Hn.
    cbn [subtree_at tkids]. rewrite Hn. apply IH. exact Hin.
Qed.

Lemma addressed_valid tsep t s q : In q (addressed tsep t s) -> exists x, subtree_at t q = Some x.
Proof. unfold addressed. intros H. apply filter_In in H as [H _]. apply positions_valid. exact H. Qed.

(* ============================================================================================
   10. The model satisfies prop_C14 (one-character tree separator)
   ============================================================================================ *)

Definition obs_of (m : res tree) : hobs :=
  match m with Ret t => OTree (obs_tree t) | Raise e => OErr (exn_code e) end.

Lemma val_eqb_refl v : val_eqb v v = true.
Proof.
  destruct v; cbn; try reflexivity; try apply Z.eqb_refl; try apply str_eqb_refl.
  destruct b; reflexivity.
Qed.

Lemma attrs_eqb_refl a : attrs_eqb a a = true.
Proof.
  induction a as [|[k v] a IH]; cbn; [reflexivity|]. rewrite str_eqb_refl, val_eqb_refl, IH. reflexivity.
Qed.

Lemma lbl_eqb_refl l : lbl_eqb l l = true.
Proof.
  destruct l as [[d n] a]. cbn. rewrite Nat.eqb_refl, str_eqb_refl, attrs_eqb_refl. reflexivity.
Qed.

Lemma is_tree_refl l l' : l = l' -> is_tree (OTree l) l' = true.
Proof.
  intros <-. cbn. induction l as [|x l IH]; cbn; [reflexivity|]. rewrite lbl_eqb_refl, IH. reflexivity.
Qed.

Lemma copy_cut_only_obs N exact d t :
  obs_tree (depth_cut d (copy_tree t)) = expected_prune t false N exact d.
Proof. rewrite depth_cut_obs, obs_tree_copy, obs_tree_sel, filter_sel. reflexivity. Qed.

Lemma copy_prune_then_cut_obs N exact d t :
  N <> [] -> nested N = false ->
  obs_tree (depth_cut d (prune_paths N exact (copy_tree t))) = expected_prune t true N exact d.
Proof.
  intros H1 H2. rewrite depth_cut_obs, (prune_paths_kept N exact _ H1 H2), sel_copy, filter_sel.
  reflexivity.
Qed.

Theorem prune_tree_satisfies c t pp exact sep d :
  sep <> [] ->
  prop_C14 [c] t (CPrune pp exact sep d) (obs_of (prune_tree [c] t pp exact sep d)) = true.
Proof.
  intros Hsep. unfold prop_C14, prune_tree.
  destruct (is_nil (norm_paths pp) && Nat.eqb d 0) eqn:E0; [reflexivity|].
  destruct sep as [|x sep]; [contradiction|]. cbn [is_nil orb].
  change (map (fun s => addressed [c] t (replace s (x :: sep) [c])) (norm_paths pp))
    with (hits_of c (x :: sep) t (norm_paths pp)).
  destruct (existsb is_nil (hits_of c (x :: sep) t (norm_paths pp))) eqn:E1.
  - destruct (norm_paths pp) as [|s paths] eqn:Ep; [discriminate|]. cbn [is_nil].
    destruct (locate_missing c (x :: sep) t (s :: paths) E1) as [e He]. rewrite He. reflexivity.
  - destruct (singletons (hits_of c (x :: sep) t (norm_paths pp))) eqn:E2; [|reflexivity].
    cbn [negb]. destruct (nested (concat (hits_of c (x :: sep) t (norm_paths pp)))) eqn:E3; [reflexivity|].
    destruct (norm_paths pp) as [|s paths] eqn:Ep; cbn [is_nil negb].
    + cbn [obs_of]. apply is_tree_refl. apply copy_cut_only_obs.
    + rewrite (locate_found c (x :: sep) t (s :: paths) E2). cbn [obs_of]. apply is_tree_refl.
      apply copy_prune_then_cut_obs; [|exact E3]. apply singletons_nonempty; [exact E2|discriminate].
Qed.

Lemma subtree_tail_obs x d :
  obs_of (if Nat.eqb d 0 then Ret (copy_tree x) else Ret (depth_cut d (copy_tree (copy_tree x)))) =
  OTree (filter (fun l => within_depth d (lbl_depth l)) (obs_tree x)).
Proof.
  destruct d as [|k]; cbn [Nat.eqb obs_of]; f_equal.
  - rewrite obs_tree_copy. symmetry. apply filter_all. intros; reflexivity.
  - rewrite depth_cut_obs, !obs_tree_copy. reflexivity.
Qed.

Theorem get_subtree_satisfies c t s d :
  prop_C14 [c] t (CSubtree s d) (obs_of (get_subtree [c] t s d)) = true.
Proof.
  unfold prop_C14, get_subtree. cbn [is_nil]. destruct (is_nil s) eqn:Es.
  - rewrite subtree_tail_obs. apply is_tree_refl. symmetry. apply (expected_subtree_spec [] t t d). reflexivity.
  - unfold find_path. rewrite find_paths_addressed.
    destruct (addressed [c] t s) as [|q [|q' l]] eqn:Ea; [reflexivity| |reflexivity].
    destruct (addressed_valid [c] t s q) as [x Hx]; [rewrite Ea; left; reflexivity|].
    rewrite subtree_at_copy, Hx. cbn [option_map]. rewrite subtree_tail_obs. apply is_tree_refl.
    symmetry. apply (expected_subtree_spec q t x d Hx).
Qed.

Definition call_ok (call : hcall) : Prop :=
  match call with CPrune _ _ sep _ => sep <> [] | CSubtree _ _ => True end.

Theorem model_satisfies_C14 c t call :
  call_ok call -> prop_C14 [c] t call (obs_of (run_call [c] t call)) = true.
Proof.
  destruct call as [pp exact sep d|s d]; cbn [call_ok run_call]; intros H.
  - apply prune_tree_satisfies. exact H.
  - apply get_subtree_satisfies.
Qed.

(* ============================================================================================
   11. The clauses of C14, one by one, in explicit form
   ============================================================================================ *)

Lemma locate_length tsep sep t paths : forall N, locate tsep sep t paths = Ret N -> length N = length paths.
Proof.
  induction paths as [|s paths IH]; intros N H; cbn [locate] in H.
  - inversion H. reflexivity.
  - destruct (find_path tsep t (replace s sep tsep)) as [[p|]|e]; try discriminate.
    destruct (locate tsep sep t paths) as [ps|e]; [|discriminate]. inversion H; subst.
    cbn [length]. f_equal. apply IH. reflexivity.
Qed.

(* kept-node set, stated on the targets the model's own find_path returns: any separators *)
Theorem prune_kept_model tsep sep t paths exact targets :
  tsep <> [] -> sep <> [] -> paths <> [] ->
  locate tsep sep (copy_tree t) paths = Ret targets -> nested targets = false ->
  exists r, prune_tree tsep t (PList paths) exact sep 0 = Ret r /\
            obs_tree r = map lbl_of (filter (fun ps => keep targets exact (fst ps)) (pre_pos t)).
Proof.
  intros Ht Hs Hp Hl Hn. unfold prune_tree. cbn [norm_paths].
  destruct paths as [|s paths]; [contradiction|]. destruct tsep as [|x tsep]; [contradiction|].
  destruct sep as [|y sep]; [contradiction|]. cbn [is_nil andb orb]. rewrite Hl.
  eexists. split; [reflexivity|]. cbn [depth_cut].
  assert (HN : targets <> []).
  { intros ->. apply locate_length in Hl. discriminate. }
  rewrite (prune_paths_kept targets exact _ HN Hn), sel_copy. reflexivity.
Qed.

(* the same on the spec's notion of addressing (one-character tree separator), with a depth limit *)
Theorem prune_kept_spec c sep t paths exact d :
  sep <> [] -> paths <> [] ->
  singletons (hits_of c sep t paths) = true -> nested (concat (hits_of c sep t paths)) = false ->
  exists r, prune_tree [c] t (PList paths) exact sep d = Ret r /\
            obs_tree r = expected_prune t true (concat (hits_of c sep t paths)) exact d.
Proof.
  intros Hs Hp H1 H2. unfold prune_tree. cbn [norm_paths].
  destruct paths as [|s paths]; [contradiction|]. destruct sep as [|y sep]; [contradiction|].
  cbn [is_nil andb orb]. rewrite (locate_found c (y :: sep) t (s :: paths) H1).
  eexists. split; [reflexivity|]. apply copy_prune_then_cut_obs; [|exact H2].
  apply singletons_nonempty; [exact H1|discriminate].
Qed.

Theorem prune_depth tsep t exact sep d :
  tsep <> [] -> sep <> [] -> 0 < d ->
  exists r, prune_tree tsep t (PList []) exact sep d = Ret r /\
            obs_tree r = filter (fun l => Nat.leb (lbl_depth l) d) (obs_tree t).
Proof.
  intros Ht Hs Hd. unfold prune_tree. cbn [norm_paths is_nil andb].
  destruct d as [|k]; [lia|]. cbn [Nat.eqb]. destruct tsep as [|x tsep]; [contradiction|].
  destruct sep as [|y sep]; [contradiction|]. cbn [is_nil orb].
  eexists. split; [reflexivity|]. rewrite depth_cut_obs, obs_tree_copy. reflexivity.
Qed.

(* every tree prune_tree returns is an order-preserving selection of the input's nodes, each with
   its original depth, name and attributes — whatever the paths, separators and flags *)
Theorem prune_attrs_order tsep t pp exact sep d r :
  prune_tree tsep t pp exact sep d = Ret r ->
  exists P, obs_tree r = map lbl_of (filter (fun ps => P (fst ps)) (pre_pos t)).
Proof.
  unfold prune_tree. intros H.
  destruct (is_nil (norm_paths pp) && Nat.eqb d 0); [discriminate|].
  destruct (is_nil tsep || is_nil sep); [discriminate|].
  destruct (is_nil (norm_paths pp)).
  - inversion H; subst. exists (fun p => true && within_depth d (S (length p))).
    rewrite depth_cut_obs, obs_tree_copy, obs_tree_sel, filter_sel. reflexivity.
  - destruct (locate tsep sep (copy_tree t) (norm_paths pp)) as [N|e]; [|discriminate].
    inversion H; subst.
    exists (fun p => survive (fun c => negb (detached N exact c)) p && within_depth d (S (length p))).
    unfold prune_paths. rewrite depth_cut_obs, filter_tree_obs, sel_copy, filter_sel. reflexivity.
Qed.

Theorem missing_path_error c sep t paths exact d s :
  sep <> [] -> In s paths -> addressed [c] t (replace s sep [c]) = [] ->
  exists e, prune_tree [c] t (PList paths) exact sep d = Raise e.
Proof.
  intros Hs Hin Ha. unfold prune_tree. cbn [norm_paths].
  destruct paths as [|s0 paths]; [contradiction|]. destruct sep as [|y sep]; [contradiction|].
  cbn [is_nil andb orb].
  assert (E : existsb is_nil (hits_of c (y :: sep) t (s0 :: paths)) = true).
  { apply existsb_exists. exists []. split; [|reflexivity]. unfold hits_of. rewrite <- Ha.
    apply (in_map (fun s => addressed [c] t (replace s (y :: sep) [c]))). exact Hin. }
  destruct (locate_missing c (y :: sep) t (s0 :: paths) E) as [e He]. rewrite He. exists e. reflexivity.
Qed.

Theorem missing_subtree_error c t s d :
  s <> [] -> addressed [c] t s = [] -> get_subtree [c] t s d = Raise ValueError.
Proof.
  intros Hs Ha. unfold get_subtree. cbn [is_nil]. destruct s as [|x s]; [contradiction|]. cbn [is_nil].
  unfold find_path. rewrite find_paths_addressed, Ha. reflexivity.
Qed.

Lemma subtree_tail_ret x d :
  exists r, (if Nat.eqb d 0 then Ret (copy_tree x) else Ret (depth_cut d (copy_tree (copy_tree x)))) = Ret r /\
            obs_tree r = filter (fun l => within_depth d (lbl_depth l)) (obs_tree x).
Proof.
  destruct d as [|k]; cbn [Nat.eqb]; eexists; (split; [reflexivity|]).
  - rewrite obs_tree_copy. symmetry. apply filter_all. intros; reflexivity.
  - rewrite depth_cut_obs, !obs_tree_copy. reflexivity.
Qed.

Theorem subtree_spec c t s d q :
  s <> [] -> addressed [c] t s = [q] ->
  exists r, get_subtree [c] t s d = Ret r /\ obs_tree r = expected_subtree t q d.
Proof.
  intros Hs Ha. unfold get_subtree. cbn [is_nil]. destruct s as [|x s]; [contradiction|]. cbn [is_nil].
  unfold find_path. rewrite find_paths_addressed, Ha.
  destruct (addressed_valid [c] t (x :: s) q) as [y Hy]; [rewrite Ha; left; reflexivity|].
  rewrite subtree_at_copy, Hy. cbn [option_map].
  destruct (subtree_tail_ret y d) as [r [Hr Ho]]. exists r. split; [exact Hr|].
  rewrite Ho. symmetry. apply (expected_subtree_spec q t y d Hy).
Qed.

Theorem subtree_root_spec tsep t d :
  tsep <> [] ->
  exists r, get_subtree tsep t [] d = Ret r /\ obs_tree r = expected_subtree t [] d.
Proof.
  intros Ht. unfold get_subtree. destruct tsep as [|x tsep]; [contradiction|]. cbn [is_nil].
  destruct (subtree_tail_ret t d) as [r [Hr Ho]]. exists r. split; [exact Hr|].
  rewrite Ho. symmetry. apply (expected_subtree_spec [] t t d). reflexivity.
Qed.

(* argument validation *)
Theorem prune_no_arguments tsep t exact sep :
  prune_tree tsep t (PStr []) exact sep 0 = Raise ValueError /\
  prune_tree tsep t (PList []) exact sep 0 = Raise ValueError.
Proof. split; reflexivity. Qed.

(* ============================================================================================
   12. Inner start node (Node trees): the general functions of Helper.v with bin = false
   ============================================================================================ *)

Lemma map_id' {A} (f : A -> A) l : (forall x, f x = x) -> map f l = l.
Proof. intros H. induction l as [|x l IH]; cbn; [reflexivity|]. rewrite H, IH. reflexivity. Qed.

(* the nodes below position st, as they appear in the pre-order of the whole tree *)
Lemma sub_pre_pos st : forall t s,
  subtree_at t st = Some s ->
  filter (fun ps => prefixb st (fst ps)) (pre_pos t) = map (fun ps => (st ++ fst ps, snd ps)) (pre_pos s).
Proof.
  induction st as [|i st IH]; intros t s H.
  - cbn in H. inversion H; subst. rewrite filter_all by (intros; reflexivity).
    symmetry. apply map_id'. intros [p x]. reflexivity.
  - destruct t as [g n a ks]. cbn [subtree_at tkids] in H.
    destruct (nth_error ks i) as [k|] eqn:Ek; [|discriminate].
    cbn [pre_pos filter fst prefixb]. rewrite filter_concat, map_mapi_from.
    rewrite (concat_mapi_only _ i ks 0 k); [| lia | rewrite Nat.sub_0_r; exact Ek |].
    + rewrite filter_map_comm. cbn [fst].
      rewrite (filter_ext_in' _ (fun ps : pos * tree => prefixb st (fst ps))).
      * rewrite (IH k s H), map_map. reflexivity.
      * intros [p x] _. cbn [fst prefixb]. rewrite Nat.eqb_refl. reflexivity.
    + intros j x Hj. rewrite filter_map_comm. rewrite filter_none; [reflexivity|].
      intros [p y] _. cbn [fst prefixb]. apply Nat.eqb_neq in Hj. rewrite Nat.eqb_sym, Hj. reflexivity.
Qed.

Lemma rel_depth st (p : pos) : S (length (st ++ p)) - length st = S (length p).
Proof. rewrite app_length. lia. Qed.

(* selecting below st in the whole tree = selecting in the subtree, depths counted from st *)
Lemma sub_sel st t s P :
  subtree_at t st = Some s -> expected_gen false t st P = sel (fun p => P (st ++ p)) s.
Proof.
  intros H. unfold expected_gen, sel.
  rewrite <- (filter_filter (fun ps : pos * tree => prefixb st (fst ps)) (fun ps => P (fst ps))).
  rewrite (sub_pre_pos st t s H), filter_map_comm, map_map. cbn [fst].
  apply map_ext. intros [p x]. unfold rel_lbl, lbl_of. cbn [fst snd]. rewrite rel_depth. reflexivity.
Qed.

Lemma survive_app alive st : forall p,
  survive alive (st ++ p) = survive alive st && survive (fun r => alive (st ++ r)) p.
Proof.
  revert alive. induction st as [|i st IH]; intros alive p.
  - reflexivity.
  - cbn [app]. rewrite !survive_cons, IH, andb_assoc. reflexivity.
Qed.

Lemma survive_below N exact st p :
  N <> [] -> non_nested N -> (forall q, In q N -> prefix st q) ->
  survive (fun r => negb (detached N exact (st ++ r))) p = keep N exact (st ++ p).
Proof.
  intros H1 H2 H3. rewrite <- (survive_eq_keep N exact (st ++ p) H1 H2), survive_app.
  rewrite (survive_eq_keep N exact st H1 H2).
  assert (Hk : keep N exact st = true).
  { apply keep_spec. left. destruct N as [|q N]; [contradiction|]. exists q.
    split; [left; reflexivity|]. apply H3. left. reflexivity. }
  rewrite Hk. reflexivity.
Qed.

Lemma depth_cut_x_false d t : depth_cut_x false d t = depth_cut d t.
Proof. destruct d; reflexivity. Qed.

(* the model's search space below st = the positions below st *)
Lemma search_space_pre_pos t st s :
  subtree_at t st = Some s ->
  search_space false t st = map fst (filter (fun ps => prefixb st (fst ps)) (pre_pos t)).
Proof.
  intros H. unfold search_space. rewrite H. cbn [negb orb].
  rewrite filter_all by (intros; reflexivity).
  rewrite (sub_pre_pos st t s H), positions_pre_pos, !map_map. reflexivity.
Qed.

Lemma find_paths_at_addressed c t st s0 s :
  subtree_at t st = Some s0 ->
  find_paths_pos_at false [c] (copy_tree t) st s = addressed_at false [c] t st s.
Proof.
  intros H. unfold find_paths_pos_at, addressed_at.
  assert (Hc : subtree_at (copy_tree t) st = Some (copy_tree s0)) by (rewrite subtree_at_copy, H; reflexivity).
  rewrite (search_space_pre_pos _ st _ Hc), pre_pos_copy.
  rewrite (filter_map_comm (fun ps : pos * tree => prefixb st (fst ps)) cp), map_map. cbn [cp fst].
  rewrite filter_map_comm, filter_filter. f_equal. apply filter_ext_in'. intros [p x] _. cbn [fst snd negb orb].
  rewrite andb_true_r. f_equal. unfold node_path_name, spec_path_name.
  rewrite names_along_copy, route_names, strip_trailing_single, is_suffix_endswith. reflexivity.
Qed.

Lemma addressed_at_below bin tsep t st s q : In q (addressed_at bin tsep t st s) -> prefix st q.
Proof.
  unfold addressed_at. intros H. apply in_map_iff in H as [[p x] [<- H]]. apply filter_In in H as [_ H].
  cbn [fst snd] in H. apply andb_true_iff in H as [H _]. apply andb_true_iff in H as [H _].
  apply prefixb_prefix. exact H.
Qed.

Lemma addressed_at_valid bin tsep t st s q : In q (addressed_at bin tsep t st s) -> exists x, subtree_at t q = Some x.
Proof.
  unfold addressed_at. intros H. apply in_map_iff in H as [[p x] [<- H]]. apply filter_In in H as [H _].
  apply positions_valid. apply (in_map fst) in H. exact H.
Qed.

Definition hits_at (c : N) (sep : str) (t : tree) (st : pos) (paths : list str) : list (list pos) :=
  map (fun s => addressed_at false [c] t st (replace s sep [c])) paths.

Lemma locate_at_missing c sep t st s0 paths :
  subtree_at t st = Some s0 ->
  existsb is_nil (hits_at c sep t st paths) = true ->
  exists e, locate_at false [c] sep (copy_tree t) st paths = Raise e.
Proof.
  intros Hs. induction paths as [|s paths IH]; cbn [hits_at map existsb locate_at]; [discriminate|].
  unfold find_path_at. rewrite (find_paths_at_addressed c t st s0 _ Hs).
  destruct (addressed_at false [c] t st (replace s sep [c])) as [|p [|p' l]]; cbn [is_nil orb]; intros H.
  - exists NotFoundError. reflexivity.
  - destruct (IH H) as [e He]. exists e. rewrite He. reflexivity.
  - exists SearchError. reflexivity.
Qed.

Lemma locate_at_found c sep t st s0 paths :
  subtree_at t st = Some s0 ->
  singletons (hits_at c sep t st paths) = true ->
  locate_at false [c] sep (copy_tree t) st paths = Ret (concat (hits_at c sep t st paths)).
Proof.
  intros Hs. induction paths as [|s paths IH]; cbn [hits_at map singletons forallb locate_at concat]; [reflexivity|].
  unfold find_path_at. rewrite (find_paths_at_addressed c t st s0 _ Hs).
  destruct (addressed_at false [c] t st (replace s sep [c])) as [|p [|p' l]]; cbn [andb]; intros H; try discriminate.
  fold (hits_at c sep t st paths). rewrite (IH H). reflexivity.
Qed.

Lemma hits_at_below c sep t st paths q : In q (concat (hits_at c sep t st paths)) -> prefix st q.
Proof.
  intros H. apply in_concat in H as [l [Hl Hq]]. unfold hits_at in Hl. apply in_map_iff in Hl as [s [<- _]].
  apply (addressed_at_below _ _ _ _ _ _ Hq).
Qed.

Lemma inner_cut_only_obs st t s0 d :
  subtree_at t st = Some s0 ->
  obs_tree (depth_cut_x false d (copy_tree s0)) =
  expected_gen false t st (fun p => true && within_depth d (S (length p) - length st)).
Proof.
  intros H. rewrite (sub_sel st t s0 _ H), depth_cut_x_false, depth_cut_obs, obs_tree_copy, obs_tree_sel, filter_sel.
  unfold sel. f_equal. apply filter_ext_in'. intros [p x] _. cbn [fst]. rewrite rel_depth. reflexivity.
Qed.

Lemma inner_prune_then_cut_obs N exact st t s0 d :
  subtree_at t st = Some s0 ->
  N <> [] -> nested N = false -> (forall q, In q N -> prefix st q) ->
  obs_tree (depth_cut_x false d (prune_paths_at false N exact st (copy_tree s0))) =
  expected_gen false t st (fun p => (false || keep N exact p) && within_depth d (S (length p) - length st)).
Proof.
  intros H H1 H2 H3. rewrite (sub_sel st t s0 _ H), depth_cut_x_false, depth_cut_obs.
  unfold prune_paths_at. rewrite filter_tree_obs, sel_copy, filter_sel.
  unfold sel. f_equal. apply filter_ext_in'. intros [p x] _. cbn [fst orb].
  rewrite rel_depth. f_equal. exact (survive_below N exact st p H1 (proj1 (nested_false N) H2) H3).
Qed.

Theorem prune_tree_at_satisfies c t st s0 pp exact sep d :
  subtree_at t st = Some s0 -> sep <> [] ->
  prop_C14_at false [c] t st (CPrune pp exact sep d) (obs_of (prune_tree_at false [c] t st pp exact sep d)) = true.
Proof.
  intros Hst Hsep. unfold prop_C14_at, prune_tree_at.
  destruct (is_nil (norm_paths pp) && Nat.eqb d 0) eqn:E0; [reflexivity|].
  destruct sep as [|x sep]; [contradiction|]. cbn [is_nil orb].
  rewrite subtree_at_copy, Hst. cbn [option_map].
  change (map (fun s => addressed_at false [c] t st (replace s (x :: sep) [c])) (norm_paths pp))
    with (hits_at c (x :: sep) t st (norm_paths pp)).
  destruct (existsb is_nil (hits_at c (x :: sep) t st (norm_paths pp))) eqn:E1.
  - destruct (norm_paths pp) as [|s paths] eqn:Ep; [discriminate|]. cbn [is_nil].
    destruct (locate_at_missing c (x :: sep) t st s0 (s :: paths) Hst E1) as [e He]. rewrite He. reflexivity.
  - destruct (singletons (hits_at c (x :: sep) t st (norm_paths pp))) eqn:E2; [|reflexivity].
    cbn [negb]. destruct (nested (concat (hits_at c (x :: sep) t st (norm_paths pp)))) eqn:E3; [reflexivity|].
    destruct (norm_paths pp) as [|s paths] eqn:Ep; cbn [is_nil].
    + cbn [obs_of]. apply is_tree_refl. apply (inner_cut_only_obs st t s0 d Hst).
    + rewrite (locate_at_found c (x :: sep) t st s0 (s :: paths) Hst E2). cbn [obs_of]. apply is_tree_refl.
      apply (inner_prune_then_cut_obs _ exact st t s0 d Hst); [|exact E3|].
      * apply singletons_nonempty; [exact E2|discriminate].
      * intros q. apply hits_at_below.
Qed.

Lemma subtree_tail_x_obs x d :
  obs_of (if Nat.eqb d 0 then Ret (copy_tree x) else Ret (depth_cut_x false d (copy_tree (copy_tree x)))) =
  OTree (filter (fun l => within_depth d (lbl_depth l)) (obs_tree x)).
Proof. rewrite depth_cut_x_false. apply subtree_tail_obs. Qed.

Lemma expected_gen_subtree t q d :
  expected_gen false t q (fun p => within_depth d (S (length p) - length q)) = expected_subtree t q d.
Proof. reflexivity. Qed.

Theorem get_subtree_at_satisfies c t st s0 s d :
  subtree_at t st = Some s0 ->
  prop_C14_at false [c] t st (CSubtree s d) (obs_of (get_subtree_at false [c] t st s d)) = true.
Proof.
  intros Hst. unfold prop_C14_at, get_subtree_at. cbn [is_nil]. destruct (is_nil s) eqn:Es.
  - rewrite subtree_at_copy, Hst. cbn [option_map]. rewrite subtree_tail_x_obs. apply is_tree_refl.
    rewrite expected_gen_subtree. symmetry. apply (expected_subtree_spec st t s0 d Hst).
  - unfold find_path_at. rewrite (find_paths_at_addressed c t st s0 s Hst).
    destruct (addressed_at false [c] t st s) as [|q [|q' l]] eqn:Ea; [reflexivity| |reflexivity].
    destruct (addressed_at_valid false [c] t st s q) as [x Hx]; [rewrite Ea; left; reflexivity|].
    rewrite subtree_at_copy, Hx. cbn [option_map]. rewrite subtree_tail_x_obs. apply is_tree_refl.
    rewrite expected_gen_subtree. symmetry. apply (expected_subtree_spec q t x d Hx).
Qed.

Theorem model_satisfies_C14_at c t st s0 call :
  subtree_at t st = Some s0 -> call_ok call ->
  prop_C14_at false [c] t st call (obs_of (run_call_at false [c] t st call)) = true.
Proof.
  intros Hst. destruct call as [pp exact sep d|s d]; cbn [call_ok run_call_at]; intros H.
  - apply (prune_tree_at_satisfies c t st s0); assumption.
  - apply (get_subtree_at_satisfies c t st s0). exact Hst.
Qed.

(* explicit forms *)
Theorem prune_kept_inner c sep t st s0 paths exact d :
  subtree_at t st = Some s0 -> sep <> [] -> paths <> [] ->
  singletons (hits_at c sep t st paths) = true -> nested (concat (hits_at c sep t st paths)) = false ->
  exists r, prune_tree_at false [c] t st (PList paths) exact sep d = Ret r /\
            obs_tree r =
            map (rel_lbl st)
                (filter (fun ps => prefixb st (fst ps)
                                   && (keep (concat (hits_at c sep t st paths)) exact (fst ps)
                                       && within_depth d (S (length (fst ps)) - length st))) (pre_pos t)).
Proof.
  intros Hst Hs Hp H1 H2. unfold prune_tree_at. cbn [norm_paths].
  destruct paths as [|s paths]; [contradiction|]. destruct sep as [|y sep]; [contradiction|].
  cbn [is_nil andb orb]. rewrite subtree_at_copy, Hst. cbn [option_map].
  rewrite (locate_at_found c (y :: sep) t st s0 (s :: paths) Hst H1).
  eexists. split; [reflexivity|].
  rewrite (inner_prune_then_cut_obs _ exact st t s0 d Hst); [reflexivity| |exact H2|].
  - apply singletons_nonempty; [exact H1|discriminate].
  - intros q. apply hits_at_below.
Qed.

Theorem subtree_spec_inner c t st s0 s d q :
  subtree_at t st = Some s0 -> s <> [] -> addressed_at false [c] t st s = [q] ->
  prefix st q /\
  exists r, get_subtree_at false [c] t st s d = Ret r /\ obs_tree r = expected_subtree t q d.
Proof.
  intros Hst Hs Ha. split.
  { apply (addressed_at_below false [c] t st s q). rewrite Ha. left. reflexivity. }
  unfold get_subtree_at. cbn [is_nil]. destruct s as [|x s]; [contradiction|]. cbn [is_nil].
  unfold find_path_at. rewrite (find_paths_at_addressed c t st s0 _ Hst), Ha.
  destruct (addressed_at_valid false [c] t st (x :: s) q) as [y Hy]; [rewrite Ha; left; reflexivity|].
  rewrite subtree_at_copy, Hy. cbn [option_map].
  destruct (subtree_tail_ret y d) as [r [Hr Ho]]. exists r. rewrite depth_cut_x_false. split; [exact Hr|].
  rewrite Ho. symmetry. apply (expected_subtree_spec q t y d Hy).
Qed.

(* a path that addresses a node outside the start node's subtree only (or nothing) is an error *)
Theorem missing_path_error_inner c sep t st s0 paths exact d s :
  subtree_at t st = Some s0 -> sep <> [] -> In s paths ->
  addressed_at false [c] t st (replace s sep [c]) = [] ->
  exists e, prune_tree_at false [c] t st (PList paths) exact sep d = Raise e.
Proof.
  intros Hst Hs Hin Ha. unfold prune_tree_at. cbn [norm_paths].
  destruct paths as [|p0 paths]; [contradiction|]. destruct sep as [|y sep]; [contradiction|].
  cbn [is_nil andb orb]. rewrite subtree_at_copy, Hst. cbn [option_map].
  assert (E : existsb is_nil (hits_at c (y :: sep) t st (p0 :: paths)) = true).
  { apply existsb_exists. exists []. split; [|reflexivity]. unfold hits_at. rewrite <- Ha.
    apply (in_map (fun s => addressed_at false [c] t st (replace s (y :: sep) [c]))). exact Hin. }
  destruct (locate_at_missing c (y :: sep) t st s0 (p0 :: paths) Hst E) as [e He]. rewrite He.
  exists e. reflexivity.
Qed.

(* the general functions called on the root are the functions of sections 1-11 *)
Lemma search_space_root t : search_space false t [] = positions t.
Proof.
  unfold search_space. cbn [subtree_at negb orb app]. rewrite filter_all by (intros; reflexivity).
  apply map_id'. intros; reflexivity.
Qed.

Lemma find_path_at_root tsep t s : find_path_at false tsep t [] s = find_path tsep t s.
Proof. unfold find_path_at, find_path, find_paths_pos_at, find_paths_pos. rewrite search_space_root. reflexivity. Qed.

Lemma locate_at_root tsep sep t paths : locate_at false tsep sep t [] paths = locate tsep sep t paths.
Proof.
  induction paths as [|s paths IH]; [reflexivity|]. cbn [locate_at locate].
  rewrite find_path_at_root, IH. reflexivity.
Qed.

Theorem run_call_at_root tsep t call : run_call_at false tsep t [] call = run_call tsep t call.
Proof.
  destruct call as [pp exact sep d|s d]; cbn [run_call_at run_call].
  - unfold prune_tree_at, prune_tree. cbn [subtree_at]. rewrite locate_at_root.
    destruct (is_nil (norm_paths pp) && Nat.eqb d 0); [reflexivity|].
    destruct (is_nil tsep || is_nil sep); [reflexivity|].
    destruct (is_nil (norm_paths pp)).
    + rewrite depth_cut_x_false. reflexivity.
    + destruct (locate tsep sep (copy_tree t) (norm_paths pp)); [|reflexivity].
      rewrite depth_cut_x_false. reflexivity.
  - unfold get_subtree_at, get_subtree. destruct (is_nil tsep); [reflexivity|].
    rewrite find_path_at_root. destruct (is_nil s).
    + cbn [subtree_at]. destruct (Nat.eqb d 0); [reflexivity|]. rewrite depth_cut_x_false. reflexivity.
    + destruct (find_path tsep (copy_tree t) s) as [[p|]|e]; try reflexivity.
      destruct (subtree_at (copy_tree t) p); [|reflexivity].
      destruct (Nat.eqb d 0); [reflexivity|]. rewrite depth_cut_x_false. reflexivity.
Qed.

(* ============================================================================================
   13. BinaryNode trees (HOLE placeholders): the surgery keeps exactly the surviving real nodes and
       never moves a slot
   ============================================================================================ *)

(* encoding invariant used here: nothing hangs below an empty slot *)
Fixpoint holes_leaf (t : tree) : bool :=
  match t with T _ n _ ks => (negb (is_nil n) || is_nil ks) && forallb holes_leaf ks end.

Definition is_real_lbl (l : lbl) : bool := match l with (_, n, _) => negb (is_nil n) end.
Definition real_obs (t : tree) : list lbl := filter is_real_lbl (obs_tree t).

(* labels of the nodes selected by position and node *)
Definition sel2 (Q : pos -> tree -> bool) (t : tree) : list lbl :=
  map lbl_of (filter (fun ps => Q (fst ps) (snd ps)) (pre_pos t)).

Lemma sel2_unfold Q g n a ks :
  sel2 Q (T g n a ks) =
  (if Q [] (T g n a ks) then [(1, n, a)] else []) ++
  concat (mapi_from (fun i k => map lbl_up (sel2 (fun p => Q (i :: p)) k)) 0 ks).
Proof.
  unfold sel2. cbn [pre_pos filter fst snd].
  assert (E : map lbl_of
                (filter (fun ps => Q (fst ps) (snd ps))
                   (concat (mapi_from (fun i k => map (fun ps => (i :: fst ps, snd ps)) (pre_pos k)) 0 ks))) =
              concat (mapi_from (fun i k =>
                        map lbl_up (map lbl_of (filter (fun ps => Q (i :: fst ps) (snd ps)) (pre_pos k)))) 0 ks)).
  { rewrite filter_concat, map_mapi_from, map_concat, map_mapi_from. f_equal.
    apply mapi_from_ext. intros j x _. rewrite filter_map_comm, !map_map. cbn [fst snd].
    apply map_ext. intros ps. apply lbl_of_shift. }
  destruct (Q [] (T g n a ks)); cbn [map app]; rewrite E; reflexivity.
Qed.

Lemma sel2_ext Q R t : (forall p s, Q p s = R p s) -> sel2 Q t = sel2 R t.
Proof. intros H. unfold sel2. f_equal. apply filter_ext_in'. intros ps _. apply H. Qed.

Lemma sel2_false t : sel2 (fun _ _ => false) t = [].
Proof. unfold sel2. rewrite filter_none; [reflexivity|]. intros; reflexivity. Qed.

Lemma is_real_up l : is_real_lbl (lbl_up l) = is_real_lbl l.
Proof. destruct l as [[d n] a]. reflexivity. Qed.

Lemma filter_flat_map {A B} (P : B -> bool) (f : A -> list B) l :
  filter P (flat_map f l) = flat_map (fun x => filter P (f x)) l.
Proof. induction l as [|x l IH]; cbn; [reflexivity|]. rewrite filter_app, IH. reflexivity. Qed.

Lemma real_obs_unfold g n a ks :
  real_obs (T g n a ks) =
  (if negb (is_nil n) then [(1, n, a)] else []) ++ flat_map (fun k => map lbl_up (real_obs k)) ks.
Proof.
  unfold real_obs. rewrite obs_tree_unfold. cbn [filter is_real_lbl].
  assert (E : filter is_real_lbl (flat_map (fun k => map lbl_up (obs_tree k)) ks) =
              flat_map (fun k => map lbl_up (filter is_real_lbl (obs_tree k))) ks).
  { rewrite filter_flat_map. apply flat_map_ext. intros k. rewrite filter_map_comm. f_equal.
    apply filter_ext_in'. intros l _. apply is_real_up. }
  destruct (negb (is_nil n)); cbn [app]; rewrite E; reflexivity.
Qed.

Lemma real_obs_hole k : is_hole k = true -> holes_leaf k = true -> real_obs k = [].
Proof.
  destruct k as [g n a ks]. unfold is_hole. cbn [tname holes_leaf]. intros Hn Hl.
  rewrite Hn in Hl. cbn [negb orb] in Hl. apply andb_true_iff in Hl as [Hk _].
  destruct ks; [|discriminate]. rewrite real_obs_unfold, Hn. reflexivity.
Qed.

Lemma sel2_hole Q k : is_hole k = true -> holes_leaf k = true -> sel2 (fun p s => Q p s && negb (is_hole s)) k = [].
Proof.
  destruct k as [g n a ks]. unfold is_hole at 1. cbn [tname holes_leaf]. intros Hn Hl.
  rewrite Hn in Hl. cbn [negb orb] in Hl. apply andb_true_iff in Hl as [Hk _].
  destruct ks; [|discriminate]. rewrite sel2_unfold. unfold is_hole. cbn [tname mapi_from concat].
  rewrite Hn, andb_false_r. reflexivity.
Qed.

Lemma filter_tree_b_kids (alive : pos -> bool) (ks : list tree) : forall i,
  Forall (fun k => forall al, holes_leaf k = true ->
            real_obs (filter_tree_b al k) = sel2 (fun p s => survive al p && negb (is_hole s)) k) ks ->
  forallb holes_leaf ks = true ->
  flat_map (fun k => map lbl_up (real_obs k))
    (mapi_from (fun i k => if is_hole k then k
                           else if alive [i] then filter_tree_b (fun p => alive (i :: p)) k else HOLE) i ks) =
  concat (mapi_from (fun i k => map lbl_up (sel2 (fun p s => survive alive (i :: p) && negb (is_hole s)) k)) i ks).
Proof.
  induction ks as [|k ks IHk]; intros i HF HL; [reflexivity|].
  inversion HF as [|? ? Hk Hks]; subst. cbn [forallb] in HL. apply andb_true_iff in HL as [HLk HLs].
  cbn [mapi_from concat flat_map]. rewrite (IHk (S i) Hks HLs). f_equal.
  destruct (is_hole k) eqn:Eh.
  - rewrite (real_obs_hole k Eh HLk), (sel2_hole _ k Eh HLk). reflexivity.
  - destruct (alive [i]) eqn:Ea.
    + rewrite (Hk _ HLk). f_equal. apply sel2_ext. intros p s. rewrite survive_cons, Ea. reflexivity.
    + rewrite (sel2_ext _ (fun _ _ => false)), sel2_false; [reflexivity|].
      intros p s. rewrite survive_cons, Ea. reflexivity.
Qed.

(* the real nodes of the result are exactly the surviving real nodes, in order, with depth, name
   and attributes *)
Lemma filter_tree_b_real t : forall alive,
  holes_leaf t = true ->
  real_obs (filter_tree_b alive t) = sel2 (fun p s => survive alive p && negb (is_hole s)) t.
Proof.
  induction t as [g n a ks IH] using tree_ind'. intros alive HL.
  cbn [filter_tree_b]. rewrite real_obs_unfold, sel2_unfold.
  cbn [survive nonempty_prefixes forallb andb]. unfold is_hole at 1. cbn [tname].
  cbn [holes_leaf] in HL. apply andb_true_iff in HL as [_ HLs].
  f_equal. apply filter_tree_b_kids; assumption.
Qed.

Theorem binary_prune_kept N exact t :
  holes_leaf t = true -> N <> [] -> nested N = false ->
  real_obs (prune_paths_at true N exact [] t) =
  map lbl_of (filter (fun ps => keep N exact (fst ps) && negb (is_hole (snd ps))) (pre_pos t)).
Proof.
  intros HL H1 H2. unfold prune_paths_at. cbn [app]. rewrite (filter_tree_b_real t _ HL).
  unfold sel2. f_equal. apply filter_ext_in'. intros [p s] _. cbn [fst snd]. f_equal.
  apply survive_eq_keep; [exact H1|]. apply nested_false. exact H2.
Qed.

(* slots never move: the result has the same slots; slot i holds what it held (pruned below), or is
   empty if it was empty or its node was cut loose *)
Lemma nth_error_mapi_from {A B} (f : nat -> A -> B) l : forall i j,
  nth_error (mapi_from f i l) j = option_map (f (i + j)) (nth_error l j).
Proof.
  induction l as [|x l IH]; intros i [|j]; cbn; try reflexivity.
  - rewrite Nat.add_0_r. reflexivity.
  - rewrite IH. replace (S i + j) with (i + S j) by lia. reflexivity.
Qed.

Theorem binary_slots_preserved alive g n a ks :
  length (tkids (filter_tree_b alive (T g n a ks))) = length ks /\
  forall i, nth_error (tkids (filter_tree_b alive (T g n a ks))) i =
            option_map (fun k => if is_hole k then k
                                 else if alive [i] then filter_tree_b (fun p => alive (i :: p)) k else HOLE)
                       (nth_error ks i).
Proof.
  cbn [filter_tree_b tkids]. split.
  - generalize 0. induction ks as [|k ks IH]; intros i; cbn; [reflexivity|]. rewrite IH. reflexivity.
  - intros i. rewrite nth_error_mapi_from. reflexivity.
Qed.

(* ============================================================================================
   14. Separators of any positive length

   The only place where the length of the tree separator matters is the stripping of trailing
   separators from the path: the code strips the character *set* (rstrip), the property strips
   whole occurrences (strip_trailing).  `strip_ok tsep s` says that the two agree on the path s.
   It holds for every path when tsep is one character, and for every separator when the path is
   well formed: it ends — before any number of whole trailing separators — in a non-empty
   component that contains no character of the separator (e.g. the name of a node of a tree whose
   names are `sgood`), or consists of whole separators only.
   ============================================================================================ *)

Definition strip_ok (tsep s : str) : Prop := strip_trailing s tsep = rstrip s tsep.
Definition paths_ok (tsep sep : str) (paths : list str) : Prop :=
  Forall (fun s => strip_ok tsep (replace s sep tsep)) paths.

Lemma strip_ok_single c s : strip_ok [c] s.
Proof. apply strip_trailing_single. Qed.

Lemma paths_ok_single c sep paths : paths_ok [c] sep paths.
Proof. apply Forall_forall. intros s _. apply strip_ok_single. Qed.

Lemma repeat_str_S (s : str) n : repeat_str s (S n) = s ++ repeat_str s n.
Proof. reflexivity. Qed.

Lemma repeat_str_comm (s : str) n : repeat_str s n ++ s = s ++ repeat_str s n.
Proof.
  induction n as [|n IH]; [cbn; rewrite app_nil_r; reflexivity|].
  rewrite repeat_str_S, <- app_assoc, IH. reflexivity.
Qed.

Lemma rev_repeat_str (s : str) n : rev (repeat_str s n) = repeat_str (rev s) n.
Proof.
  induction n as [|n IH]; [reflexivity|].
  rewrite !repeat_str_S, rev_app_distr, IH. apply repeat_str_comm.
Qed.

Lemma In_repeat_str (s : str) n ch : In ch (repeat_str s n) -> In ch s.
Proof.
  induction n as [|n IH]; [contradiction|]. rewrite repeat_str_S, in_app_iff. intros [H|H]; auto.
Qed.

Lemma length_repeat_str (s : str) n : s <> [] -> n <= length (repeat_str s n).
Proof.
  intros Hs. induction n as [|n IH]; [lia|]. rewrite repeat_str_S, app_length.
  destruct s; [contradiction|]. cbn [length]. lia.
Qed.

(* removing whole leading occurrences of R from R^k ++ B, when B does not start with R *)
Lemma drop_leading_rep (R B : str) :
  R <> [] -> startswith B R = false ->
  forall k fuel, k <= fuel -> drop_leading fuel (repeat_str R k ++ B) R = B.
Proof.
  intros HR HB. induction k as [|k IH]; intros fuel Hle.
  - cbn [repeat_str repeat concat app]. destruct fuel as [|f]; [reflexivity|].
    cbn [drop_leading]. destruct R; [contradiction|]. cbn [is_nil]. rewrite HB. reflexivity.
  - destruct fuel as [|f]; [lia|]. rewrite repeat_str_S, <- app_assoc. cbn [drop_leading].
    destruct (is_nil R) eqn:E; [destruct R; [contradiction|discriminate]|].
    rewrite startswith_app, skipn_app_exact. apply IH. lia.
Qed.

Lemma startswith_first_differs (c : N) (t R : str) : R <> [] -> ~ In c R -> startswith (c :: t) R = false.
Proof.
  intros HR Hc. destruct R as [|a R]; [contradiction|]. cbn [startswith].
  destruct (N.eqb a c) eqn:E; [|reflexivity]. apply N.eqb_eq in E. subst. exfalso. apply Hc. left. reflexivity.
Qed.

Lemma rstrip_all sp a p : (forall ch, In ch p -> In ch sp) -> rstrip (a ++ p) sp = rstrip a sp.
Proof.
  intros H. unfold rstrip. rewrite rev_app_distr, lstrip_all; [reflexivity|].
  intros ch Hch. apply H. apply in_rev. exact Hch.
Qed.

Lemma strip_trailing_rep tsep a k :
  tsep <> [] -> startswith (rev a) (rev tsep) = false ->
  strip_trailing (a ++ repeat_str tsep k) tsep = a.
Proof.
  intros Ht Ha. unfold strip_trailing. rewrite rev_app_distr, rev_repeat_str.
  rewrite drop_leading_rep; [apply rev_involutive| |exact Ha|].
  - intros E. apply Ht. apply (f_equal (@rev _)) in E. rewrite rev_involutive in E. exact E.
  - rewrite app_length. pose proof (length_repeat_str tsep k Ht). lia.
Qed.

(* a path that ends, before k whole separators, in a non-empty separator-free component *)
Lemma strip_ok_component tsep pre x k :
  tsep <> [] -> sgood tsep x -> strip_ok tsep (pre ++ x ++ repeat_str tsep k).
Proof.
  intros Ht Hx. unfold strip_ok. rewrite app_assoc.
  rewrite rstrip_all by (intros ch; apply In_repeat_str). rewrite (rstrip_stop tsep pre x Hx).
  apply strip_trailing_rep; [exact Ht|].
  destruct Hx as [Hne Hf]. rewrite rev_app_distr.
  destruct x as [|c x] using rev_ind; [contradiction|]. rewrite rev_app_distr. cbn [rev app].
  apply startswith_first_differs.
  - intros E. apply Ht. apply (f_equal (@rev _)) in E. rewrite rev_involutive in E. exact E.
  - intros Hin. apply in_rev in Hin. apply (Hf c Hin). apply in_or_app. right. left. reflexivity.
Qed.

(* a path made of whole separators only (incl. the empty path) *)
Lemma strip_ok_seps tsep k : tsep <> [] -> strip_ok tsep (repeat_str tsep k).
Proof.
  intros Ht. unfold strip_ok.
  rewrite <- (app_nil_l (repeat_str tsep k)) at 2.
  rewrite rstrip_all by (intros ch; apply In_repeat_str).
  rewrite <- (app_nil_l (repeat_str tsep k)). apply strip_trailing_rep; [exact Ht|].
  cbn [rev]. destruct (rev tsep) eqn:E; [|reflexivity].
  exfalso. apply Ht. apply (f_equal (@rev _)) in E. rewrite rev_involutive in E. exact E.
Qed.

Lemma join_last sp (L : list str) : L <> [] -> exists pre, join sp L = pre ++ last L [].
Proof.
  induction L as [|x L IH]; intros H; [contradiction|]. destruct L as [|y L].
  - exists []. reflexivity.
  - destruct IH as [pre Hp]; [discriminate|]. exists (x ++ sp ++ pre).
    rewrite join_cons, Hp, <- !app_assoc. reflexivity.
Qed.

(* the usual shape of a prune / subtree path: optional text in front (e.g. a leading separator),
   components that are non-empty and free of separator characters — e.g. names of the nodes of a
   tree all of whose names are `sgood tsep` — joined by the separator, and k trailing separators *)
Theorem strip_ok_wellformed tsep lead L k :
  tsep <> [] -> L <> [] -> Forall (sgood tsep) L ->
  strip_ok tsep (lead ++ join tsep L ++ repeat_str tsep k).
Proof.
  intros Ht HL HF. destruct (join_last tsep L HL) as [pre Hp]. rewrite Hp, <- app_assoc, app_assoc.
  apply strip_ok_component; [exact Ht|].
  apply (proj1 (Forall_forall _ _) HF). destruct L as [|x L] using rev_ind; [contradiction|].
  rewrite last_last. apply in_or_app. right. left. reflexivity.
Qed.

(* ---- the addressing lemmas and the theorems of sections 7-12, for any tree separator ---- *)

Lemma find_paths_addressed_g tsep t s :
  strip_ok tsep s -> find_paths_pos tsep (copy_tree t) s = addressed tsep t s.
Proof.
  intros Hs. unfold find_paths_pos, addressed. rewrite positions_pre_pos, positions_copy.
  apply filter_ext_in'. intros p _. unfold node_path_name, spec_path_name.
  rewrite names_along_copy, route_names, Hs, is_suffix_endswith. reflexivity.
Qed.

Definition hits_g (tsep sep : str) (t : tree) (paths : list str) : list (list pos) :=
  map (fun s => addressed tsep t (replace s sep tsep)) paths.

Lemma locate_missing_g tsep sep t paths :
  paths_ok tsep sep paths -> existsb is_nil (hits_g tsep sep t paths) = true ->
  exists e, locate tsep sep (copy_tree t) paths = Raise e.
Proof.
  induction paths as [|s paths IH]; intros Hok; cbn [hits_g map existsb locate]; [discriminate|].
  inversion Hok as [|? ? Hs Hrest]; subst.
  unfold find_path. rewrite (find_paths_addressed_g tsep t _ Hs).
  destruct (addressed tsep t (replace s sep tsep)) as [|p [|p' l]]; cbn [is_nil orb]; intros H.
  - exists NotFoundError. reflexivity.
  - destruct (IH Hrest H) as [e He]. exists e. rewrite He. reflexivity.
  - exists SearchError. reflexivity.
Qed.

Lemma locate_found_g tsep sep t paths :
  paths_ok tsep sep paths -> singletons (hits_g tsep sep t paths) = true ->
  locate tsep sep (copy_tree t) paths = Ret (concat (hits_g tsep sep t paths)).
Proof.
  induction paths as [|s paths IH]; intros Hok; cbn [hits_g map singletons forallb locate concat]; [reflexivity|].
  inversion Hok as [|? ? Hs Hrest]; subst.
  unfold find_path. rewrite (find_paths_addressed_g tsep t _ Hs).
  destruct (addressed tsep t (replace s sep tsep)) as [|p [|p' l]]; cbn [andb]; intros H; try discriminate.
  fold (hits_g tsep sep t paths). rewrite (IH Hrest H). reflexivity.
Qed.

Theorem prune_tree_satisfies_g tsep t pp exact sep d :
  tsep <> [] -> sep <> [] -> paths_ok tsep sep (norm_paths pp) ->
  prop_C14 tsep t (CPrune pp exact sep d) (obs_of (prune_tree tsep t pp exact sep d)) = true.
Proof.
  intros Ht Hsep Hok. unfold prop_C14, prune_tree.
  destruct (is_nil (norm_paths pp) && Nat.eqb d 0) eqn:E0; [reflexivity|].
  destruct tsep as [|c0 tsep0]; [contradiction|]. destruct sep as [|x sep]; [contradiction|]. cbn [is_nil orb].
  change (map (fun s => addressed (c0 :: tsep0) t (replace s (x :: sep) (c0 :: tsep0))) (norm_paths pp))
    with (hits_g (c0 :: tsep0) (x :: sep) t (norm_paths pp)).
  destruct (existsb is_nil (hits_g (c0 :: tsep0) (x :: sep) t (norm_paths pp))) eqn:E1.
  - destruct (norm_paths pp) as [|s paths] eqn:Ep; [discriminate|]. cbn [is_nil].
    destruct (locate_missing_g _ _ t (s :: paths) Hok E1) as [e He]. rewrite He. reflexivity.
  - destruct (singletons (hits_g (c0 :: tsep0) (x :: sep) t (norm_paths pp))) eqn:E2; [|reflexivity].
    cbn [negb]. destruct (nested (concat (hits_g (c0 :: tsep0) (x :: sep) t (norm_paths pp)))) eqn:E3; [reflexivity|].
    destruct (norm_paths pp) as [|s paths] eqn:Ep; cbn [is_nil negb].
    + cbn [obs_of]. apply is_tree_refl. apply copy_cut_only_obs.
    + rewrite (locate_found_g _ _ t (s :: paths) Hok E2). cbn [obs_of]. apply is_tree_refl.
      apply copy_prune_then_cut_obs; [|exact E3]. apply singletons_nonempty; [exact E2|discriminate].
Qed.

Theorem get_subtree_satisfies_g tsep t s d :
  tsep <> [] -> strip_ok tsep s ->
  prop_C14 tsep t (CSubtree s d) (obs_of (get_subtree tsep t s d)) = true.
Proof.
  intros Ht Hs. unfold prop_C14, get_subtree. destruct tsep as [|c0 tsep0]; [contradiction|]. cbn [is_nil].
  destruct (is_nil s) eqn:Es.
  - rewrite subtree_tail_obs. apply is_tree_refl. symmetry. apply (expected_subtree_spec [] t t d). reflexivity.
  - unfold find_path. rewrite (find_paths_addressed_g _ t s Hs).
    destruct (addressed (c0 :: tsep0) t s) as [|q [|q' l]] eqn:Ea; [reflexivity| |reflexivity].
    destruct (addressed_valid (c0 :: tsep0) t s q) as [x Hx]; [rewrite Ea; left; reflexivity|].
    rewrite subtree_at_copy, Hx. cbn [option_map]. rewrite subtree_tail_obs. apply is_tree_refl.
    symmetry. apply (expected_subtree_spec q t x d Hx).
Qed.

Definition call_ok_g (tsep : str) (call : hcall) : Prop :=
  match call with
  | CPrune pp _ sep _ => sep <> [] /\ paths_ok tsep sep (norm_paths pp)
  | CSubtree s _ => strip_ok tsep s
  end.

Theorem model_satisfies_C14_g tsep t call :
  tsep <> [] -> call_ok_g tsep call -> prop_C14 tsep t call (obs_of (run_call tsep t call)) = true.
Proof.
  intros Ht. destruct call as [pp exact sep d|s d]; cbn [call_ok_g run_call]; intros H.
  - destruct H as [H1 H2]. apply prune_tree_satisfies_g; assumption.
  - apply get_subtree_satisfies_g; assumption.
Qed.

Theorem prune_kept_spec_g tsep sep t paths exact d :
  tsep <> [] -> sep <> [] -> paths <> [] -> paths_ok tsep sep paths ->
  singletons (hits_g tsep sep t paths) = true -> nested (concat (hits_g tsep sep t paths)) = false ->
  exists r, prune_tree tsep t (PList paths) exact sep d = Ret r /\
            obs_tree r = expected_prune t true (concat (hits_g tsep sep t paths)) exact d.
Proof.
  intros Ht Hs Hp Hok H1 H2. unfold prune_tree. cbn [norm_paths].
  destruct paths as [|s paths]; [contradiction|]. destruct tsep as [|c0 tsep0]; [contradiction|].
  destruct sep as [|y sep]; [contradiction|].
  cbn [is_nil andb orb]. rewrite (locate_found_g _ _ t (s :: paths) Hok H1).
  eexists. split; [reflexivity|]. apply copy_prune_then_cut_obs; [|exact H2].
  apply singletons_nonempty; [exact H1|discriminate].
Qed.

Theorem missing_path_error_g tsep sep t paths exact d s :
  tsep <> [] -> sep <> [] -> paths_ok tsep sep paths -> In s paths ->
  addressed tsep t (replace s sep tsep) = [] ->
  exists e, prune_tree tsep t (PList paths) exact sep d = Raise e.
Proof.
  intros Ht Hs Hok Hin Ha. unfold prune_tree. cbn [norm_paths].
  destruct paths as [|s0 paths]; [contradiction|]. destruct tsep as [|c0 tsep0]; [contradiction|].
  destruct sep as [|y sep]; [contradiction|]. cbn [is_nil andb orb].
  assert (E : existsb is_nil (hits_g (c0 :: tsep0) (y :: sep) t (s0 :: paths)) = true).
  { apply existsb_exists. exists []. split; [|reflexivity]. unfold hits_g. rewrite <- Ha.
    apply (in_map (fun s => addressed (c0 :: tsep0) t (replace s (y :: sep) (c0 :: tsep0)))). exact Hin. }
  destruct (locate_missing_g _ _ t (s0 :: paths) Hok E) as [e He]. rewrite He. exists e. reflexivity.
Qed.

Theorem missing_subtree_error_g tsep t s d :
  tsep <> [] -> s <> [] -> strip_ok tsep s -> addressed tsep t s = [] ->
  get_subtree tsep t s d = Raise ValueError.
Proof.
  intros Ht Hs Hok Ha. unfold get_subtree. destruct tsep as [|c0 tsep0]; [contradiction|]. cbn [is_nil].
  destruct s as [|x s]; [contradiction|]. cbn [is_nil].
  unfold find_path. rewrite (find_paths_addressed_g _ t _ Hok), Ha. reflexivity.
Qed.

Theorem subtree_spec_g tsep t s d q :
  tsep <> [] -> s <> [] -> strip_ok tsep s -> addressed tsep t s = [q] ->
  exists r, get_subtree tsep t s d = Ret r /\ obs_tree r = expected_subtree t q d.
Proof.
  intros Ht Hs Hok Ha. unfold get_subtree. destruct tsep as [|c0 tsep0]; [contradiction|]. cbn [is_nil].
  destruct s as [|x s]; [contradiction|]. cbn [is_nil].
  unfold find_path. rewrite (find_paths_addressed_g _ t _ Hok), Ha.
  destruct (addressed_valid (c0 :: tsep0) t (x :: s) q) as [y Hy]; [rewrite Ha; left; reflexivity|].
  rewrite subtree_at_copy, Hy. cbn [option_map].
  destruct (subtree_tail_ret y d) as [r [Hr Ho]]. exists r. split; [exact Hr|].
  rewrite Ho. symmetry. apply (expected_subtree_spec q t y d Hy).
Qed.

(* ---- inner start node, any separator ---- *)

Lemma find_paths_at_addressed_g tsep t st s0 s :
  subtree_at t st = Some s0 -> strip_ok tsep s ->
  find_paths_pos_at false tsep (copy_tree t) st s = addressed_at false tsep t st s.
Proof.
  intros H Hs. unfold find_paths_pos_at, addressed_at.
  assert (Hc : subtree_at (copy_tree t) st = Some (copy_tree s0)) by (rewrite subtree_at_copy, H; reflexivity).
  rewrite (search_space_pre_pos _ st _ Hc), pre_pos_copy.
  rewrite (filter_map_comm (fun ps : pos * tree => prefixb st (fst ps)) cp), map_map. cbn [cp fst].
  rewrite filter_map_comm, filter_filter. f_equal. apply filter_ext_in'. intros [p x] _. cbn [fst snd negb orb].
  rewrite andb_true_r. f_equal. unfold node_path_name, spec_path_name.
  rewrite names_along_copy, route_names, Hs, is_suffix_endswith. reflexivity.
Qed.

Definition hits_at_g (tsep sep : str) (t : tree) (st : pos) (paths : list str) : list (list pos) :=
  map (fun s => addressed_at false tsep t st (replace s sep tsep)) paths.

Lemma locate_at_missing_g tsep sep t st s0 paths :
  subtree_at t st = Some s0 -> paths_ok tsep sep paths ->
  existsb is_nil (hits_at_g tsep sep t st paths) = true ->
  exists e, locate_at false tsep sep (copy_tree t) st paths = Raise e.
Proof.
  intros Hst. induction paths as [|s paths IH]; intros Hok; cbn [hits_at_g map existsb locate_at]; [discriminate|].
  inversion Hok as [|? ? Hs Hrest]; subst.
  unfold find_path_at. rewrite (find_paths_at_addressed_g tsep t st s0 _ Hst Hs).
  destruct (addressed_at false tsep t st (replace s sep tsep)) as [|p [|p' l]]; cbn [is_nil orb]; intros H.
  - exists NotFoundError. reflexivity.
  - destruct (IH Hrest H) as [e He]. exists e. rewrite He. reflexivity.
  - exists SearchError. reflexivity.
Qed.

Lemma locate_at_found_g tsep sep t st s0 paths :
  subtree_at t st = Some s0 -> paths_ok tsep sep paths ->
  singletons (hits_at_g tsep sep t st paths) = true ->
  locate_at false tsep sep (copy_tree t) st paths = Ret (concat (hits_at_g tsep sep t st paths)).
Proof.
  intros Hst. induction paths as [|s paths IH]; intros Hok;
    cbn [hits_at_g map singletons forallb locate_at concat]; [reflexivity|].
  inversion Hok as [|? ? Hs Hrest]; subst.
  unfold find_path_at. rewrite (find_paths_at_addressed_g tsep t st s0 _ Hst Hs).
  destruct (addressed_at false tsep t st (replace s sep tsep)) as [|p [|p' l]]; cbn [andb]; intros H; try discriminate.
  fold (hits_at_g tsep sep t st paths). rewrite (IH Hrest H). reflexivity.
Qed.

Lemma hits_at_g_below tsep sep t st paths q : In q (concat (hits_at_g tsep sep t st paths)) -> prefix st q.
Proof.
  intros H. apply in_concat in H as [l [Hl Hq]]. unfold hits_at_g in Hl. apply in_map_iff in Hl as [s [<- _]].
  apply (addressed_at_below _ _ _ _ _ _ Hq).
Qed.

Theorem prune_tree_at_satisfies_g tsep t st s0 pp exact sep d :
  subtree_at t st = Some s0 -> tsep <> [] -> sep <> [] -> paths_ok tsep sep (norm_paths pp) ->
  prop_C14_at false tsep t st (CPrune pp exact sep d) (obs_of (prune_tree_at false tsep t st pp exact sep d)) = true.
Proof.
  intros Hst Ht Hsep Hok. unfold prop_C14_at, prune_tree_at.
  destruct (is_nil (norm_paths pp) && Nat.eqb d 0) eqn:E0; [reflexivity|].
  destruct tsep as [|c0 tsep0]; [contradiction|]. destruct sep as [|x sep]; [contradiction|]. cbn [is_nil orb].
  rewrite subtree_at_copy, Hst. cbn [option_map].
  change (map (fun s => addressed_at false (c0 :: tsep0) t st (replace s (x :: sep) (c0 :: tsep0))) (norm_paths pp))
    with (hits_at_g (c0 :: tsep0) (x :: sep) t st (norm_paths pp)).
  destruct (existsb is_nil (hits_at_g (c0 :: tsep0) (x :: sep) t st (norm_paths pp))) eqn:E1.
  - destruct (norm_paths pp) as [|s paths] eqn:Ep; [discriminate|]. cbn [is_nil].
    destruct (locate_at_missing_g _ _ t st s0 (s :: paths) Hst Hok E1) as [e He]. rewrite He. reflexivity.
  - destruct (singletons (hits_at_g (c0 :: tsep0) (x :: sep) t st (norm_paths pp))) eqn:E2; [|reflexivity].
    cbn [negb]. destruct (nested (concat (hits_at_g (c0 :: tsep0) (x :: sep) t st (norm_paths pp)))) eqn:E3; [reflexivity|].
    destruct (norm_paths pp) as [|s paths] eqn:Ep; cbn [is_nil].
    + cbn [obs_of]. apply is_tree_refl. apply (inner_cut_only_obs st t s0 d Hst).
    + rewrite (locate_at_found_g _ _ t st s0 (s :: paths) Hst Hok E2). cbn [obs_of]. apply is_tree_refl.
      apply (inner_prune_then_cut_obs _ exact st t s0 d Hst); [|exact E3|].
      * apply singletons_nonempty; [exact E2|discriminate].
      * intros q. apply hits_at_g_below.
Qed.

Theorem get_subtree_at_satisfies_g tsep t st s0 s d :
  subtree_at t st = Some s0 -> tsep <> [] -> strip_ok tsep s ->
  prop_C14_at false tsep t st (CSubtree s d) (obs_of (get_subtree_at false tsep t st s d)) = true.
Proof.
  intros Hst Ht Hs. unfold prop_C14_at, get_subtree_at. destruct tsep as [|c0 tsep0]; [contradiction|].
  cbn [is_nil]. destruct (is_nil s) eqn:Es.
  - rewrite subtree_at_copy, Hst. cbn [option_map]. rewrite subtree_tail_x_obs. apply is_tree_refl.
    rewrite expected_gen_subtree. symmetry. apply (expected_subtree_spec st t s0 d Hst).
  - unfold find_path_at. rewrite (find_paths_at_addressed_g _ t st s0 s Hst Hs).
    destruct (addressed_at false (c0 :: tsep0) t st s) as [|q [|q' l]] eqn:Ea; [reflexivity| |reflexivity].
    destruct (addressed_at_valid false (c0 :: tsep0) t st s q) as [x Hx]; [rewrite Ea; left; reflexivity|].
    rewrite subtree_at_copy, Hx. cbn [option_map]. rewrite subtree_tail_x_obs. apply is_tree_refl.
    rewrite expected_gen_subtree. symmetry. apply (expected_subtree_spec q t x d Hx).
Qed.

Theorem model_satisfies_C14_at_g tsep t st s0 call :
  subtree_at t st = Some s0 -> tsep <> [] -> call_ok_g tsep call ->
  prop_C14_at false tsep t st call (obs_of (run_call_at false tsep t st call)) = true.
Proof.
  intros Hst Ht. destruct call as [pp exact sep d|s d]; cbn [call_ok_g run_call_at]; intros H.
  - destruct H as [H1 H2]. apply (prune_tree_at_satisfies_g tsep t st s0); assumption.
  - apply (get_subtree_at_satisfies_g tsep t st s0); assumption.
Qed.

(* ============================================================================================
   15. replace(sep, tree.sep) on a rendered path
   ============================================================================================ *)

Lemma replace_go_name old new x : forall rest fuel,
  old <> [] -> sfree old x -> length x <= fuel ->
  replace_go fuel old new (x ++ rest) = x ++ replace_go (fuel - length x) old new rest.
Proof.
  induction x as [|c x IH]; intros rest fuel Ho Hf Hl.
  - cbn [app length]. rewrite Nat.sub_0_r. reflexivity.
  - destruct fuel as [|f]; [cbn in Hl; lia|]. apply sfree_cons in Hf as [Hc Hx].
    cbn [app replace_go length Nat.sub]. rewrite (startswith_first_differs c (x ++ rest) old Ho Hc).
    f_equal. apply IH; [exact Ho|exact Hx|cbn in Hl; lia].
Qed.

Lemma replace_go_sep old new rest fuel :
  old <> [] -> replace_go (S fuel) old new (old ++ rest) = new ++ replace_go fuel old new rest.
Proof.
  intros Ho. destruct old as [|a o]; [contradiction|]. cbn [app replace_go].
  change (a :: o ++ rest) with ((a :: o) ++ rest). rewrite startswith_app, skipn_app_exact. reflexivity.
Qed.

Lemma replace_go_nil fuel old new : replace_go fuel old new [] = [].
Proof. destruct fuel; reflexivity. Qed.

Lemma length_join_cons sp (x : str) L : length x + length sp <= length (join sp (x :: L)) \/ L = [].
Proof.
  destruct L as [|y L]; [right; reflexivity|left]. rewrite join_cons, !app_length. lia.
Qed.

Lemma replace_go_join old new : forall L fuel,
  old <> [] -> Forall (sfree old) L -> length (join old L) <= fuel ->
  replace_go fuel old new (join old L) = join new L.
Proof.
  induction L as [|x L IH]; intros fuel Ho HF Hl; [apply replace_go_nil|].
  inversion HF as [|? ? Hx HL]; subst. destruct L as [|y L].
  - cbn [join]. rewrite <- (app_nil_r x) at 1. rewrite (replace_go_name old new x [] fuel Ho Hx Hl).
    rewrite replace_go_nil, app_nil_r. reflexivity.
  - rewrite !join_cons. rewrite join_cons, !app_length in Hl.
    rewrite (replace_go_name old new x _ fuel Ho Hx) by lia.
    assert (Hlen : 1 <= length old) by (destruct old; [contradiction|cbn; lia]).
    destruct (fuel - length x) as [|f] eqn:Ef; [lia|].
    rewrite (replace_go_sep old new _ f Ho). f_equal. f_equal. apply IH; [exact Ho|exact HL|lia].
Qed.

Theorem replace_join old new L :
  old <> [] -> Forall (sfree old) L -> replace (join old L) old new = join new L.
Proof.
  intros Ho HF. unfold replace. destruct old as [|a o] eqn:E; [contradiction|]. rewrite <- E in *.
  apply replace_go_join; [exact Ho|exact HF|lia].
Qed.

(* a path as users write it: optional leading separator, names joined by the separator, k trailing
   separators *)
Definition rendered (sp : str) (lead : bool) (L : list str) (k : nat) : str :=
  (if lead then sp else []) ++ join sp L ++ repeat_str sp k.

Lemma join_empty_front sp (M : list str) : M <> [] -> join sp ([] :: M) = sp ++ join sp M.
Proof. destruct M; [contradiction|]. intros _. rewrite join_cons. reflexivity. Qed.

Lemma join_empty_back sp : forall (M : list str) k, M <> [] ->
  join sp (M ++ repeat [] k) = join sp M ++ repeat_str sp k.
Proof.
  intros M k HM. induction k as [|k IH].
  - cbn [repeat]. rewrite app_nil_r. cbn. rewrite app_nil_r. reflexivity.
  - replace (M ++ repeat [] (S k)) with ((M ++ repeat [] k) ++ [[]]).
    2:{ rewrite <- app_assoc. f_equal. change ([]:: repeat [] k) with (repeat ([] : str) (S k)).
        symmetry. apply (repeat_cons k ([] : str)). }
    assert (G : forall (A : list str) (z : str), A <> [] -> join sp (A ++ [z]) = join sp A ++ sp ++ z).
    { induction A as [|a A IHA]; intros z HA; [contradiction|]. destruct A as [|b A].
      - reflexivity.
      - cbn [app]. rewrite join_cons. cbn [app] in IHA. rewrite (IHA z) by discriminate.
        rewrite join_cons, <- !app_assoc. reflexivity. }
    rewrite G by (destruct M; [contradiction|discriminate]).
    rewrite IH, app_nil_r, <- app_assoc, repeat_str_S, <- repeat_str_comm. reflexivity.
Qed.

Lemma rendered_as_join sp lead L k :
  L <> [] -> rendered sp lead L k = join sp ((if lead then [[]] else []) ++ L ++ repeat [] k).
Proof.
  intros HL. unfold rendered. destruct lead; cbn [app].
  - rewrite join_empty_front by (destruct L; [contradiction|discriminate]).
    rewrite join_empty_back by exact HL. reflexivity.
  - rewrite join_empty_back by exact HL. reflexivity.
Qed.

Theorem replace_rendered sep tsep lead L k :
  sep <> [] -> L <> [] -> Forall (sfree sep) L ->
  replace (rendered sep lead L k) sep tsep = rendered tsep lead L k.
Proof.
  intros Hs HL HF. rewrite !rendered_as_join by exact HL. apply replace_join; [exact Hs|].
  apply Forall_app. split; [destruct lead; repeat constructor; intros ch _ []|].
  apply Forall_app. split; [exact HF|]. apply Forall_forall. intros x Hx.
  apply repeat_spec in Hx. subst. intros ch _ [].
Qed.

(* the prune paths users actually pass — names of the tree written with the `sep` argument — satisfy
   the guard of the _multi theorems when no character of either separator occurs in the names *)
Definition rendered_ok (tsep sep s : str) : Prop :=
  exists lead L k, L <> [] /\ Forall (sgood tsep) L /\ Forall (sfree sep) L /\ s = rendered sep lead L k.

Theorem paths_ok_of_rendered tsep sep paths :
  tsep <> [] -> sep <> [] -> Forall (rendered_ok tsep sep) paths -> paths_ok tsep sep paths.
Proof.
  intros Ht Hs HF. unfold paths_ok. apply Forall_forall. intros s Hin.
  destruct (proj1 (Forall_forall _ _) HF s Hin) as [lead [L [k [HL [Hg [Hf ->]]]]]].
  rewrite (replace_rendered sep tsep lead L k Hs HL Hf). unfold rendered.
  apply strip_ok_wellformed; assumption.
Qed.

(* ============================================================================================
   16. BinaryNode depth cut: level groups + `del children` = the structural cut
   ============================================================================================ *)

(* keep k+1 levels; a real node of the last level gets two empty slots; slots never move *)
Fixpoint cutb (k : nat) (t : tree) {struct t} : tree :=
  match t with
  | T g n a ks =>
      if is_nil n then t else
      match k with 0 => T g n a [HOLE; HOLE] | S k' => T g n a (map (cutb k') ks) end
  end.

Definition nh (t : tree) (p : pos) : bool := negb (is_hole_at t p).

Definition del_fold_b (ps : list pos) (t : tree) : tree :=
  fold_left (fun acc p => del_children_at_b p acc) ps t.

Lemma del_fold_b_child ps : forall g n a done c r,
  del_fold_b (map (cons (length done)) ps) (T g n a (done ++ c :: r)) =
  T g n a (done ++ del_fold_b ps c :: r).
Proof.
  induction ps as [|p ps IH]; intros g n a done c r; [reflexivity|].
  unfold del_fold_b in *. cbn [map fold_left del_children_at_b]. rewrite upd_nth_app. apply IH.
Qed.

Lemma del_fold_b_app ps qs t : del_fold_b (ps ++ qs) t = del_fold_b qs (del_fold_b ps t).
Proof. unfold del_fold_b. apply fold_left_app. Qed.

Lemma nth_error_app_len {A} (done : list A) c r : nth_error (done ++ c :: r) (length done) = Some c.
Proof. induction done as [|x done IH]; [reflexivity|exact IH]. Qed.

(* the hole test of a position below the root looks at the child it goes through *)
Lemma nh_child g n a ks i c p : nth_error ks i = Some c -> nh (T g n a ks) (i :: p) = nh c p.
Proof. intros H. unfold nh, is_hole_at. cbn [subtree_at tkids]. rewrite H. reflexivity. Qed.

Lemma filter_level_kids k g n a : forall ks done,
  filter (nh (T g n a (done ++ ks)))
         (concat (mapi_from (fun i c => map (cons i) (level_pos k c)) (length done) ks)) =
  concat (mapi_from (fun i c => map (cons i) (filter (nh c) (level_pos k c))) (length done) ks).
Proof.
  induction ks as [|c r IH]; intros done; [reflexivity|].
  cbn [mapi_from concat]. rewrite filter_app. f_equal.
  - rewrite filter_map_comm. f_equal. apply filter_ext_in'. intros p _.
    apply nh_child. apply nth_error_app_len.
  - specialize (IH (done ++ [c])). rewrite <- app_assoc in IH. cbn [app] in IH.
    rewrite app_length in IH. cbn [length] in IH. rewrite Nat.add_1_r in IH. exact IH.
Qed.

Lemma del_fold_b_level k :
  (forall c, holes_leaf c = true -> del_fold_b (filter (nh c) (level_pos k c)) c = cutb k c) ->
  forall ks g n a done, forallb holes_leaf ks = true ->
    del_fold_b (concat (mapi_from (fun i c => map (cons i) (filter (nh c) (level_pos k c))) (length done) ks))
               (T g n a (done ++ ks)) =
    T g n a (done ++ map (cutb k) ks).
Proof.
  intros Hk. induction ks as [|c r IH]; intros g n a done HL; [reflexivity|].
  cbn [forallb] in HL. apply andb_true_iff in HL as [HLc HLr].
  cbn [mapi_from concat map]. rewrite del_fold_b_app, del_fold_b_child, (Hk c HLc).
  replace (done ++ cutb k c :: r) with ((done ++ [cutb k c]) ++ r) by (rewrite <- app_assoc; reflexivity).
  replace (S (length done)) with (length (done ++ [cutb k c])) by (rewrite app_length; cbn; lia).
  rewrite (IH g n a _ HLr). rewrite <- app_assoc. reflexivity.
Qed.

Lemma del_level_cutb k : forall t,
  holes_leaf t = true -> del_fold_b (filter (nh t) (level_pos k t)) t = cutb k t.
Proof.
  induction k as [|k IH]; intros [g n a ks] HL.
  - cbn [level_pos filter]. unfold nh, is_hole_at, is_hole. cbn [subtree_at tname cutb].
    destruct (is_nil n); reflexivity.
  - cbn [holes_leaf] in HL. apply andb_true_iff in HL as [HLn HLs]. cbn [cutb].
    destruct (is_nil n) eqn:En.
    + cbn [negb orb] in HLn. destruct ks; [reflexivity|discriminate].
    + cbn [level_pos tkids].
      pose proof (filter_level_kids k g n a ks []) as E. cbn [app length] in E. rewrite E.
      exact (del_fold_b_level k IH ks g n a [] HLs).
Qed.

Theorem binary_depth_cut k t :
  holes_leaf t = true -> depth_cut_x true (S k) t = cutb k t.
Proof. intros HL. cbn [depth_cut_x]. apply (del_level_cutb k t HL). Qed.

Lemma real_obs_depth_pos t l : In l (real_obs t) -> 1 <= lbl_depth l.
Proof. unfold real_obs. intros H. apply filter_In in H as [H _]. apply (obs_depth_pos t l H). Qed.

Lemma real_obs_HOLE : real_obs HOLE = [].
Proof. reflexivity. Qed.

(* exactly the real nodes of depth <= k+1 remain *)
Lemma cutb_real_obs t : forall k,
  holes_leaf t = true ->
  real_obs (cutb k t) = filter (fun l => Nat.leb (lbl_depth l) (S k)) (real_obs t).
Proof.
  induction t as [g n a ks IH] using tree_ind'. intros k HL. cbn [cutb].
  destruct (is_nil n) eqn:En.
  - rewrite (real_obs_hole (T g n a ks)); [reflexivity|exact En|exact HL].
  - cbn [holes_leaf] in HL. apply andb_true_iff in HL as [_ HLs].
    rewrite (real_obs_unfold g n a ks), En. cbn [negb app filter lbl_depth Nat.leb].
    destruct k as [|k].
    + rewrite real_obs_unfold, En. cbn [negb app flat_map]. rewrite real_obs_HOLE. cbn [map app].
      apply (f_equal (cons (1, n, a))). symmetry. apply filter_none.
      intros l Hl. apply in_flat_map in Hl as [c [_ Hl]]. apply in_map_iff in Hl as [l' [<- Hl']].
      apply real_obs_depth_pos in Hl'. rewrite lbl_depth_up. apply Nat.leb_gt. lia.
    + rewrite real_obs_unfold, En. cbn [negb app]. apply (f_equal (cons (1, n, a))).
      induction ks as [|c r IHr]; [reflexivity|]. inversion IH as [|? ? Hc Hr]; subst.
      cbn [forallb] in HLs. apply andb_true_iff in HLs as [HLc HLr].
      cbn [map flat_map]. rewrite filter_app, <- (IHr Hr HLr). f_equal.
      rewrite (Hc k HLc), filter_map_comm. f_equal. apply filter_ext_in'. intros l _.
      rewrite lbl_depth_up. reflexivity.
Qed.

Theorem binary_depth_cut_real k t :
  holes_leaf t = true ->
  real_obs (depth_cut_x true (S k) t) = filter (fun l => Nat.leb (lbl_depth l) (S k)) (real_obs t).
Proof. intros HL. rewrite (binary_depth_cut k t HL). apply cutb_real_obs. exact HL. Qed.

(* slots: one step of cutb at a real node *)
Theorem cutb_slots k g n a ks :
  is_nil n = false ->
  cutb 0 (T g n a ks) = T g n a [HOLE; HOLE] /\
  cutb (S k) (T g n a ks) = T g n a (map (cutb k) ks) /\
  (forall i, nth_error (tkids (cutb (S k) (T g n a ks))) i = option_map (cutb k) (nth_error ks i)) /\
  (forall h, is_hole h = true -> cutb k h = h).
Proof.
  intros En. cbn [cutb]. rewrite En. repeat split.
  - intros i. cbn [tkids]. apply nth_error_map'.
  - intros [g' n' a' ks'] Hh. unfold is_hole in Hh. cbn [tname] in Hh. cbn [cutb]. rewrite Hh. reflexivity.
Qed.

(* ============================================================================================
   17. BinaryNode addressing: the search skips empty slots = addressing among the real nodes
   ============================================================================================ *)

Lemma In_mapi_from {A B} (f : nat -> A -> B) y l : forall i,
  In y (mapi_from f i l) -> exists j x, nth_error l j = Some x /\ y = f (i + j) x.
Proof.
  induction l as [|x l IH]; intros i H; [contradiction|]. cbn [mapi_from] in H. destruct H as [<-|H].
  - exists 0, x. split; [reflexivity|]. rewrite Nat.add_0_r. reflexivity.
  - destruct (IH (S i) H) as [j [z [Hn ->]]]. exists (S j), z. split; [exact Hn|].
    replace (i + S j) with (S i + j) by lia. reflexivity.
Qed.

(* pre_pos lists each node with the position that leads to it *)
Lemma pre_pos_sound t : forall p x, In (p, x) (pre_pos t) -> subtree_at t p = Some x.
Proof.
  induction t as [g n a ks IH] using tree_ind'. intros p x H. cbn [pre_pos] in H. destruct H as [H|H].
  - inversion H; subst. reflexivity.
  - apply in_concat in H as [l [Hl Hin]]. apply In_mapi_from in Hl as [j [k [Hn ->]]]. cbn [Nat.add] in Hin.
    apply in_map_iff in Hin as [[p' x'] [E Hin]]. cbn [fst snd] in E. inversion E; subst.
    cbn [subtree_at tkids]. rewrite Hn. apply (Forall_In _ _ _ IH (nth_error_In _ _ Hn)). exact Hin.
Qed.

Lemma is_hole_copy x : is_hole (copy_tree x) = is_hole x.
Proof. unfold is_hole. rewrite tname_copy. reflexivity. Qed.

Lemma search_space_bin t st s :
  subtree_at t st = Some s ->
  search_space true (copy_tree t) st =
  map fst (filter (fun ps => prefixb st (fst ps) && negb (is_hole (snd ps))) (pre_pos t)).
Proof.
  intros H. unfold search_space. rewrite subtree_at_copy, H. cbn [option_map negb orb].
  rewrite <- (filter_filter (fun ps : pos * tree => prefixb st (fst ps)) (fun ps => negb (is_hole (snd ps)))).
  rewrite (sub_pre_pos st t s H), filter_map_comm, map_map. cbn [fst snd].
  rewrite positions_pre_pos, positions_copy, filter_map_comm, map_map. f_equal.
  apply filter_ext_in'. intros [p x] Hin. cbn [fst snd]. unfold is_hole_at.
  rewrite subtree_at_copy, (pre_pos_sound s p x Hin). cbn [option_map]. rewrite is_hole_copy. reflexivity.
Qed.

Theorem find_paths_at_addressed_bin tsep t st s0 s :
  subtree_at t st = Some s0 -> strip_ok tsep s ->
  find_paths_pos_at true tsep (copy_tree t) st s = addressed_at true tsep t st s.
Proof.
  intros H Hs. unfold find_paths_pos_at, addressed_at. rewrite (search_space_bin t st s0 H).
  rewrite filter_map_comm, filter_filter. f_equal. apply filter_ext_in'. intros [p x] _. cbn [fst snd negb orb].
  f_equal. unfold node_path_name, spec_path_name.
  rewrite names_along_copy, route_names, Hs, is_suffix_endswith. reflexivity.
Qed.

Definition hits_bin (tsep sep : str) (t : tree) (st : pos) (paths : list str) : list (list pos) :=
  map (fun s => addressed_at true tsep t st (replace s sep tsep)) paths.

Lemma locate_bin_missing tsep sep t st s0 paths :
  subtree_at t st = Some s0 -> paths_ok tsep sep paths ->
  existsb is_nil (hits_bin tsep sep t st paths) = true ->
  exists e, locate_at true tsep sep (copy_tree t) st paths = Raise e.
Proof.
  intros Hst. induction paths as [|s paths IH]; intros Hok; cbn [hits_bin map existsb locate_at]; [discriminate|].
  inversion Hok as [|? ? Hs Hrest]; subst.
  unfold find_path_at. rewrite (find_paths_at_addressed_bin tsep t st s0 _ Hst Hs).
  destruct (addressed_at true tsep t st (replace s sep tsep)) as [|p [|p' l]]; cbn [is_nil orb]; intros H.
  - exists NotFoundError. reflexivity.
  - destruct (IH Hrest H) as [e He]. exists e. rewrite He. reflexivity.
  - exists SearchError. reflexivity.
Qed.

Lemma locate_bin_found tsep sep t st s0 paths :
  subtree_at t st = Some s0 -> paths_ok tsep sep paths ->
  singletons (hits_bin tsep sep t st paths) = true ->
  locate_at true tsep sep (copy_tree t) st paths = Ret (concat (hits_bin tsep sep t st paths)).
Proof.
  intros Hst. induction paths as [|s paths IH]; intros Hok;
    cbn [hits_bin map singletons forallb locate_at concat]; [reflexivity|].
  inversion Hok as [|? ? Hs Hrest]; subst.
  unfold find_path_at. rewrite (find_paths_at_addressed_bin tsep t st s0 _ Hst Hs).
  destruct (addressed_at true tsep t st (replace s sep tsep)) as [|p [|p' l]]; cbn [andb]; intros H; try discriminate.
  fold (hits_bin tsep sep t st paths). rewrite (IH Hrest H). reflexivity.
Qed.

(* the encoding invariant is kept by copying and by the surgery *)
Lemma holes_leaf_copy t : holes_leaf (copy_tree t) = holes_leaf t.
Proof.
  induction t as [g n a ks IH] using tree_ind'. cbn [copy_tree holes_leaf]. f_equal.
  - f_equal. destruct ks; reflexivity.
  - rewrite forallb_map. induction ks as [|k r IHr]; [reflexivity|]. inversion IH as [|? ? Hk Hr]; subst.
    cbn [forallb]. rewrite Hk, (IHr Hr). reflexivity.
Qed.

Lemma holes_leaf_filter_b t : forall alive, holes_leaf t = true -> holes_leaf (filter_tree_b alive t) = true.
Proof.
  induction t as [g n a ks IH] using tree_ind'. intros alive HL. cbn [holes_leaf] in HL.
  apply andb_true_iff in HL as [HLn HLs]. cbn [filter_tree_b holes_leaf]. apply andb_true_iff. split.
  - destruct (is_nil n); [|reflexivity]. cbn [negb orb] in *. destruct ks; [reflexivity|discriminate].
  - clear HLn. generalize 0. induction ks as [|k r IHr]; intros i; [reflexivity|]. inversion IH as [|? ? Hk Hr]; subst.
    cbn [forallb] in HLs. apply andb_true_iff in HLs as [HLk HLr]. cbn [mapi_from forallb].
    rewrite (IHr Hr HLr). rewrite andb_true_r.
    destruct (is_hole k); [exact HLk|]. destruct (alive [i]); [apply Hk; exact HLk|reflexivity].
Qed.

(* path pruning + depth limit on a BinaryNode tree called on its root, stated on the spec's addressing *)
Theorem binary_prune_spec tsep sep t paths exact d :
  holes_leaf t = true -> tsep <> [] -> sep <> [] -> paths <> [] -> paths_ok tsep sep paths ->
  singletons (hits_bin tsep sep t [] paths) = true ->
  nested (concat (hits_bin tsep sep t [] paths)) = false ->
  exists r, prune_tree_at true tsep t [] (PList paths) exact sep d = Ret r /\
            real_obs r =
            map lbl_of (filter (fun ps => keep (concat (hits_bin tsep sep t [] paths)) exact (fst ps)
                                          && negb (is_hole (snd ps))
                                          && within_depth d (S (length (fst ps)))) (pre_pos t)).
Proof.
  intros HL Ht Hs Hp Hok H1 H2. unfold prune_tree_at. cbn [norm_paths subtree_at].
  destruct paths as [|s paths]; [contradiction|]. destruct tsep as [|c0 tsep0]; [contradiction|].
  destruct sep as [|y sep]; [contradiction|]. cbn [is_nil andb orb].
  rewrite (locate_bin_found _ _ t [] t (s :: paths) eq_refl Hok H1).
  eexists. split; [reflexivity|].
  set (N := concat (hits_bin (c0 :: tsep0) (y :: sep) t [] (s :: paths))).
  assert (HN : N <> []) by (apply singletons_nonempty; [exact H1|discriminate]).
  assert (HLc : holes_leaf (copy_tree t) = true) by (rewrite holes_leaf_copy; exact HL).
  assert (E : real_obs (prune_paths_at true N exact [] (copy_tree t)) =
              map lbl_of (filter (fun ps => keep N exact (fst ps) && negb (is_hole (snd ps))) (pre_pos t))).
  { rewrite (binary_prune_kept N exact (copy_tree t) HLc HN H2), pre_pos_copy, filter_map_comm, map_map.
    cbn [cp fst snd]. rewrite (filter_ext_in' _ (fun ps => keep N exact (fst ps) && negb (is_hole (snd ps)))).
    - apply map_ext. intros [p [g n a ks]]. reflexivity.
    - intros [p x] _. cbn [fst snd]. rewrite is_hole_copy. reflexivity. }
  destruct d as [|k].
  - cbn [depth_cut_x]. rewrite E. f_equal. apply filter_ext_in'. intros ps _. cbn [within_depth Nat.eqb orb].
    rewrite andb_true_r. reflexivity.
  - rewrite binary_depth_cut_real.
    2:{ unfold prune_paths_at. apply holes_leaf_filter_b. exact HLc. }
    rewrite E, filter_map_comm, filter_filter. f_equal.
Qed.

Theorem binary_missing_path_error tsep sep t paths exact d s :
  tsep <> [] -> sep <> [] -> paths_ok tsep sep paths -> In s paths ->
  addressed_at true tsep t [] (replace s sep tsep) = [] ->
  exists e, prune_tree_at true tsep t [] (PList paths) exact sep d = Raise e.
Proof.
  intros Ht Hs Hok Hin Ha. unfold prune_tree_at. cbn [norm_paths subtree_at].
  destruct paths as [|s0 paths]; [contradiction|]. destruct tsep as [|c0 tsep0]; [contradiction|].
  destruct sep as [|y sep]; [contradiction|]. cbn [is_nil andb orb].
  assert (E : existsb is_nil (hits_bin (c0 :: tsep0) (y :: sep) t [] (s0 :: paths)) = true).
  { apply existsb_exists. exists []. split; [|reflexivity]. unfold hits_bin. rewrite <- Ha.
    apply (in_map (fun s => addressed_at true (c0 :: tsep0) t [] (replace s (y :: sep) (c0 :: tsep0)))). exact Hin. }
  destruct (locate_bin_missing _ _ t [] t (s0 :: paths) eq_refl Hok E) as [e He]. rewrite He. exists e. reflexivity.
Qed.

(* depth limit alone on a BinaryNode tree *)
Theorem binary_prune_depth tsep t exact sep k :
  holes_leaf t = true -> tsep <> [] -> sep <> [] ->
  prune_tree_at true tsep t [] (PList []) exact sep (S k) = Ret (cutb k (copy_tree t)).
Proof.
  intros HL Ht Hs. unfold prune_tree_at. cbn [norm_paths is_nil andb Nat.eqb subtree_at].
  destruct tsep as [|c0 tsep0]; [contradiction|]. destruct sep as [|y sep]; [contradiction|]. cbn [is_nil orb].
  rewrite binary_depth_cut; [reflexivity|]. rewrite holes_leaf_copy. exact HL.
Qed.

(* ============================================================================================
   18. Any set of targets (nested or not): what the detach rule keeps
   ============================================================================================ *)

(* the targets that are not a proper ancestor of another target *)
Definition lowest_targets (N : list pos) : list pos :=
  filter (fun q => negb (mem_pos q (ancestors_to_prune N))) N.

(* routes to all targets; descendants (unless exact) only of the lowest targets: a target above another
   target is in ancestors_to_prune, so its children outside the two sets are cut loose like those of
   any other ancestor *)
Definition keep_general (N : list pos) (exact : bool) (p : pos) : bool :=
  on_route N p || (negb exact && below_target (lowest_targets N) p).

Lemma In_lowest q N : In q (lowest_targets N) <-> In q N /\ ~ In q (ancestors_to_prune N).
Proof.
  unfold lowest_targets. rewrite filter_In, negb_true_iff, mem_pos_false. reflexivity.
Qed.

Lemma keep_general_spec N exact p :
  keep_general N exact p = true <->
  (exists q, In q N /\ prefix p q) \/
  (exact = false /\ exists q, In q N /\ ~ In q (ancestors_to_prune N) /\ prefix q p).
Proof.
  unfold keep_general. rewrite orb_true_iff, andb_true_iff, negb_true_iff, on_route_spec, below_target_spec.
  split; (intros [H|[He [q Hq]]]; [left; exact H|right; split; [exact He|exists q]]).
  - destruct Hq as [Hq Hp]. apply In_lowest in Hq as [H1 H2]. auto.
  - destruct Hq as [H1 [H2 Hp]]. split; [apply In_lowest; auto|exact Hp].
Qed.

Lemma keep_general_survive N exact p :
  keep_general N exact p = true -> survive (fun c => negb (detached N exact c)) p = true.
Proof.
  intros Hk. apply survive_spec. intros y Hy Hyp. apply negb_true_iff.
  apply (not_detached N exact y Hy).
  apply keep_general_spec in Hk as [[q [Hq Hpq]]|[He [q [Hq [Hlow Hqp]]]]].
  - right. apply (on_route_in_sets N exact y q Hq). apply (prefix_trans _ _ _ Hyp Hpq).
  - destruct (prefix_comparable y q p Hyp Hqp) as [H|H].
    + right. apply (on_route_in_sets N exact y q Hq H).
    + destruct (pos_eqb q y) eqn:E.
      * apply pos_eqb_eq in E. subst. right. right. exact Hq.
      * left. intros Hin. apply In_walk in Hin as [Hin|[Hex _]]; [|congruence].
        apply In_ancestors in Hin as [q' [Hq' [Hp' Hn']]].
        assert (Hqr : prefix q (removelast y)).
        { apply proper_prefix_removelast; [exact H|]. intros ->. rewrite pos_eqb_refl in E. discriminate. }
        apply Hlow. apply In_ancestors. exists q'. split; [exact Hq'|]. split.
        -- apply (prefix_trans _ _ _ Hqr Hp').
        -- intros ->. apply Hn'. apply prefix_antisym; assumption.
Qed.

Lemma survive_keep_general N exact p :
  N <> [] -> survive (fun c => negb (detached N exact c)) p = true -> keep_general N exact p = true.
Proof.
  intros HN. induction p as [|i p IH] using rev_ind; intros Hs.
  - apply keep_general_spec. left. destruct N as [|q N]; [contradiction|]. exists q.
    split; [left; reflexivity|apply prefix_nil].
  - apply survive_snoc in Hs as [Hs Ha]. specialize (IH Hs). apply negb_true_iff in Ha.
    assert (Hne : p ++ [i] <> []) by (intros E; apply app_eq_nil in E as [_ E]; discriminate).
    apply (not_detached N exact _ Hne) in Ha. rewrite removelast_snoc in Ha.
    assert (Hsets : In (p ++ [i]) (walk_set N exact) \/ In (p ++ [i]) N -> keep_general N exact (p ++ [i]) = true).
    { intros [Hin|Hin]; apply keep_general_spec; left.
      - apply In_walk in Hin as [Hin|[_ Hin]].
        + apply In_ancestors in Hin as [q [Hq [Hp _]]]. exists q. split; assumption.
        + exists (p ++ [i]). split; [exact Hin|apply prefix_refl].
      - exists (p ++ [i]). split; [exact Hin|apply prefix_refl]. }
    apply keep_general_spec in IH as [[q [Hq Hpq]]|[He [q [Hq [Hlow Hqp]]]]].
    + destruct (pos_eqb p q) eqn:E.
      * apply pos_eqb_eq in E. subst q.
        destruct (mem_pos p (walk_set N exact)) eqn:Ew.
        -- apply mem_pos_In in Ew. destruct Ha as [Ha|Ha]; [contradiction|apply Hsets; exact Ha].
        -- apply mem_pos_false in Ew. apply keep_general_spec. right.
           assert (Hex : exact = false).
           { destruct exact; [|reflexivity]. exfalso. apply Ew. apply In_walk. right. auto. }
           split; [exact Hex|]. exists p. split; [exact Hq|]. split; [|apply prefix_app_l].
           intros Hin. apply Ew. apply In_walk. left. exact Hin.
      * destruct Ha as [Ha|Ha]; [|apply Hsets; exact Ha]. exfalso. apply Ha.
        apply In_walk. left. apply In_ancestors. exists q. split; [exact Hq|]. split; [exact Hpq|].
        intros ->. rewrite pos_eqb_refl in E. discriminate.
    + apply keep_general_spec. right. split; [exact He|]. exists q. split; [exact Hq|]. split; [exact Hlow|].
      apply (prefix_trans _ _ _ Hqp). apply prefix_app_l.
Qed.

Theorem survive_eq_keep_general N exact p :
  N <> [] -> survive (fun c => negb (detached N exact c)) p = keep_general N exact p.
Proof.
  intros H. apply Bool.eq_iff_eq_true. split; [apply survive_keep_general; exact H|apply keep_general_survive].
Qed.

Theorem prune_paths_kept_general N exact t :
  N <> [] -> obs_tree (prune_paths N exact t) = sel (keep_general N exact) t.
Proof.
  intros H. unfold prune_paths. rewrite filter_tree_obs. apply sel_ext. intros p.
  apply survive_eq_keep_general. exact H.
Qed.

(* for non-nested targets every target is a lowest target *)
Lemma lowest_non_nested N : non_nested N -> lowest_targets N = N.
Proof.
  intros HN. unfold lowest_targets. apply filter_all. intros q Hq. apply negb_true_iff, mem_pos_false.
  intros Hin. apply In_ancestors in Hin as [q' [Hq' [Hp Hne]]]. apply Hne. apply (HN q q' Hq Hq' Hp).
Qed.

Theorem keep_general_non_nested N exact p : nested N = false -> keep_general N exact p = keep N exact p.
Proof.
  intros H. unfold keep_general, keep. rewrite (lowest_non_nested N (proj1 (nested_false N) H)). reflexivity.
Qed.

(* model level: any paths that are all found, nested or not, any separators *)
Theorem prune_kept_general_model tsep sep t paths exact targets :
  tsep <> [] -> sep <> [] -> paths <> [] ->
  locate tsep sep (copy_tree t) paths = Ret targets ->
  exists r, prune_tree tsep t (PList paths) exact sep 0 = Ret r /\
            obs_tree r = map lbl_of (filter (fun ps => keep_general targets exact (fst ps)) (pre_pos t)).
Proof.
  intros Ht Hs Hp Hl. unfold prune_tree. cbn [norm_paths].
  destruct paths as [|s paths]; [contradiction|]. destruct tsep as [|x tsep]; [contradiction|].
  destruct sep as [|y sep]; [contradiction|]. cbn [is_nil andb orb]. rewrite Hl.
  eexists. split; [reflexivity|]. cbn [depth_cut].
  assert (HN : targets <> []).
  { intros ->. apply locate_length in Hl. discriminate. }
  rewrite (prune_paths_kept_general targets exact _ HN), sel_copy. reflexivity.
Qed.

(* ============================================================================================
   19. Inner start node: the returned subtree is the part of the whole pruned copy below the start
       node, and the whole pruned copy (what is above the returned node included) is `keep` of the
       whole tree
   ============================================================================================ *)

Definition lbl_add (k : nat) (l : lbl) : lbl := match l with (d, n, a) => (k + d, n, a) end.

Lemma sub_sel_abs st t s P :
  subtree_at t st = Some s ->
  sel (fun p => prefixb st p && P p) t = map (lbl_add (length st)) (sel (fun p => P (st ++ p)) s).
Proof.
  intros H. unfold sel.
  rewrite <- (filter_filter (fun ps : pos * tree => prefixb st (fst ps)) (fun ps => P (fst ps))).
  rewrite (sub_pre_pos st t s H), filter_map_comm, !map_map. cbn [fst].
  apply map_ext. intros [p x]. unfold lbl_of, lbl_add. cbn [fst snd]. rewrite app_length.
  rewrite Nat.add_succ_r. reflexivity.
Qed.

Theorem inner_result_in_whole_copy N exact t st s :
  subtree_at t st = Some s -> N <> [] -> nested N = false -> (forall q, In q N -> prefix st q) ->
  (* the whole copy after the surgery *)
  obs_tree (prune_paths N exact (copy_tree t)) = sel (keep N exact) t /\
  (* every node on the way to the start node is kept: the returned node is still attached *)
  keep N exact st = true /\
  (* below the start node the whole copy shows exactly the returned subtree, depths shifted *)
  sel (fun p => prefixb st p && keep N exact p) t =
  map (lbl_add (length st)) (obs_tree (prune_paths_at false N exact st (copy_tree s))).
Proof.
  intros Hst H1 H2 H3. split; [|split].
  - rewrite (prune_paths_kept N exact _ H1 H2). apply sel_copy.
  - apply keep_spec. left. destruct N as [|q N]; [contradiction|]. exists q.
    split; [left; reflexivity|]. apply H3. left. reflexivity.
  - rewrite (sub_sel_abs st t s _ Hst). f_equal. unfold prune_paths_at.
    rewrite filter_tree_obs, sel_copy. apply sel_ext. intros p. symmetry.
    apply survive_below; [exact H1|apply nested_false; exact H2|exact H3].
Qed.

(* ============================================================================================
   20. BinaryNode trees: the whole observation (empty-slot markers included)
   ============================================================================================ *)

(* the encoding the harness emits: an empty slot is exactly HOLE, a real node has exactly two slots *)
Fixpoint wf2 (t : tree) : bool :=
  match t with
  | T g n a ks =>
      (if is_nil n then match g with None => true | Some _ => false end && is_nil a && is_nil ks
       else Nat.eqb (length ks) 2)
      && forallb wf2 ks
  end.

Lemma wf2_hole k : wf2 k = true -> is_hole k = true -> k = HOLE.
Proof.
  destruct k as [g n a ks]. unfold is_hole. cbn [tname wf2]. intros H Hn. rewrite Hn in H.
  apply andb_true_iff in H as [H _]. apply andb_true_iff in H as [H Hk]. apply andb_true_iff in H as [Hg Ha].
  destruct g; [discriminate|]. destruct n; [|discriminate]. destruct a; [|discriminate]. destruct ks; [|discriminate].
  reflexivity.
Qed.

Lemma wf2_kids g n a ks : wf2 (T g n a ks) = true -> forallb wf2 ks = true.
Proof. cbn [wf2]. intros H. apply andb_true_iff in H as [_ H]. exact H. Qed.

Lemma wf2_holes_leaf t : wf2 t = true -> holes_leaf t = true.
Proof.
  induction t as [g n a ks IH] using tree_ind'. cbn [wf2 holes_leaf]. intros H.
  apply andb_true_iff in H as [H1 H2]. apply andb_true_iff. split.
  - destruct (is_nil n); [|reflexivity]. apply andb_true_iff in H1 as [_ H1]. cbn. exact H1.
  - clear H1. induction ks as [|k r IHr]; [reflexivity|]. inversion IH as [|? ? Hk Hr]; subst.
    cbn [forallb] in *. apply andb_true_iff in H2 as [Ha Hb]. rewrite (Hk Ha), (IHr Hr Hb). reflexivity.
Qed.

Lemma wf2_copy t : wf2 t = true -> wf2 (copy_tree t) = true.
Proof.
  induction t as [g n a ks IH] using tree_ind'. cbn [wf2 copy_tree]. intros H.
  apply andb_true_iff in H as [H1 H2]. apply andb_true_iff. split.
  - destruct (is_nil n).
    + apply andb_true_iff in H1 as [H1 Hk]. apply andb_true_iff in H1 as [_ Ha]. rewrite Ha. cbn.
      destruct ks; [reflexivity|discriminate].
    + rewrite map_length. exact H1.
  - clear H1. rewrite forallb_map. induction ks as [|k r IHr]; [reflexivity|]. inversion IH as [|? ? Hk Hr]; subst.
    cbn [forallb] in *. apply andb_true_iff in H2 as [Ha Hb]. rewrite (Hk Ha), (IHr Hr Hb). reflexivity.
Qed.

Lemma wf2_subtree p : forall t s, wf2 t = true -> subtree_at t p = Some s -> wf2 s = true.
Proof.
  induction p as [|i p IH]; intros t s Hw H.
  - cbn in H. inversion H; subst. exact Hw.
  - destruct t as [g n a ks]. cbn [subtree_at tkids] in H. destruct (nth_error ks i) as [k|] eqn:E; [|discriminate].
    apply (IH k s); [|exact H]. apply wf2_kids in Hw.
    apply (proj1 (forallb_forall _ _) Hw). apply (nth_error_In _ _ E).
Qed.

Lemma mapi_from_length {A B} (f : nat -> A -> B) l : forall i, length (mapi_from f i l) = length l.
Proof. induction l as [|x l IH]; intros i; cbn; [reflexivity|]. rewrite IH. reflexivity. Qed.

Lemma is_hole_filter_b alive t : is_hole (filter_tree_b alive t) = is_hole t.
Proof. destruct t; reflexivity. Qed.

Lemma wf2_HOLE : wf2 HOLE = true.
Proof. reflexivity. Qed.

Lemma wf2_filter_b t : forall alive, wf2 t = true -> wf2 (filter_tree_b alive t) = true.
Proof.
  induction t as [g n a ks IH] using tree_ind'. intros alive H. cbn [wf2 filter_tree_b] in *.
  apply andb_true_iff in H as [H1 H2]. apply andb_true_iff. split.
  - destruct (is_nil n).
    + apply andb_true_iff in H1 as [H1 Hk]. rewrite H1. destruct ks; [reflexivity|discriminate].
    + rewrite mapi_from_length. exact H1.
  - clear H1. generalize 0. induction ks as [|k r IHr]; intros i; [reflexivity|]. inversion IH as [|? ? Hk Hr]; subst.
    cbn [forallb] in H2. apply andb_true_iff in H2 as [Ha Hb]. cbn [mapi_from forallb].
    rewrite (IHr Hr Hb). rewrite andb_true_r.
    destruct (is_hole k); [exact Ha|]. destruct (alive [i]); [apply Hk; exact Ha|reflexivity].
Qed.

Lemma mapi_from_mapi_from {A B C} (f : nat -> B -> C) (g : nat -> A -> B) l : forall i,
  mapi_from f i (mapi_from g i l) = mapi_from (fun j x => f j (g j x)) i l.
Proof. induction l as [|x l IH]; intros i; cbn; [reflexivity|]. rewrite IH. reflexivity. Qed.

Lemma filter_tree_b_ext t : forall A B, (forall p, A p = B p) -> filter_tree_b A t = filter_tree_b B t.
Proof.
  induction t as [g n a ks IH] using tree_ind'. intros A B H. cbn [filter_tree_b]. f_equal.
  apply mapi_from_ext. intros j k Hk. destruct (is_hole k); [reflexivity|]. rewrite (H [j]).
  destruct (B [j]); [|reflexivity]. apply (Forall_In _ _ _ IH Hk). intros p. apply H.
Qed.

(* slots never move, so two rounds of surgery are one round with the conjunction *)
Lemma filter_b_compose t : forall A B,
  filter_tree_b A (filter_tree_b B t) = filter_tree_b (fun p => B p && A p) t.
Proof.
  induction t as [g n a ks IH] using tree_ind'. intros A B. cbn [filter_tree_b]. f_equal.
  rewrite mapi_from_mapi_from. apply mapi_from_ext. intros j k Hk.
  destruct (is_hole k) eqn:Eh; [rewrite Eh; reflexivity|].
  destruct (B [j]); cbn [andb].
  - rewrite is_hole_filter_b, Eh. destruct (A [j]); [|reflexivity]. apply (Forall_In _ _ _ IH Hk).
  - reflexivity.
Qed.

Lemma cutb_hole k t : is_hole t = true -> cutb k t = t.
Proof. destruct t as [g n a ks]. unfold is_hole. cbn [tname cutb]. intros ->. reflexivity. Qed.

(* the depth cut is the surgery with "position not longer than k" *)
Lemma cutb_as_filter t : forall k, wf2 t = true -> cutb k t = filter_tree_b (fun p => Nat.leb (length p) k) t.
Proof.
  induction t as [g n a ks IH] using tree_ind'. intros k Hw.
  destruct (is_nil n) eqn:En.
  - assert (E : T g n a ks = HOLE) by (apply wf2_hole; [exact Hw|exact En]).
    rewrite E. destruct k; reflexivity.
  - pose proof (wf2_kids _ _ _ _ Hw) as Hks. cbn [wf2] in Hw. rewrite En in Hw.
    apply andb_true_iff in Hw as [Hlen _]. apply Nat.eqb_eq in Hlen.
    destruct ks as [|k1 [|k2 [|k3 r]]]; try discriminate.
    cbn [forallb] in Hks. apply andb_true_iff in Hks as [W1 W2]. apply andb_true_iff in W2 as [W2 _].
    inversion IH as [|? ? I1 I']; subst. inversion I' as [|? ? I2 _]; subst.
    cbn [cutb filter_tree_b mapi_from]. rewrite En. destruct k as [|k]; cbn [length Nat.leb map].
    + f_equal. f_equal; [|f_equal];
        [destruct (is_hole k1) eqn:E1; [symmetry; apply wf2_hole; assumption|reflexivity]
        |destruct (is_hole k2) eqn:E2; [symmetry; apply wf2_hole; assumption|reflexivity]].
    + f_equal. f_equal; [|f_equal].
      * destruct (is_hole k1) eqn:E1; [apply cutb_hole; exact E1|]. rewrite (I1 k W1). apply filter_tree_b_ext.
        intros p. reflexivity.
      * destruct (is_hole k2) eqn:E2; [apply cutb_hole; exact E2|]. rewrite (I2 k W2). apply filter_tree_b_ext.
        intros p. reflexivity.
Qed.

Lemma filter_tree_b_id t : filter_tree_b (fun _ => true) t = t.
Proof.
  induction t as [g n a ks IH] using tree_ind'. cbn [filter_tree_b]. f_equal.
  rewrite <- (map_id ks) at 2. rewrite <- (mapi_from_const (fun k => k) 0 ks). apply mapi_from_ext.
  intros j k Hk. destruct (is_hole k); [reflexivity|]. apply (Forall_In _ _ _ IH Hk).
Qed.

(* depth_cut_x true as one surgery *)
Lemma depth_cut_x_true_filter d t :
  wf2 t = true ->
  depth_cut_x true d t = filter_tree_b (fun p => within_depth d (S (length p))) t.
Proof.
  intros Hw. destruct d as [|k].
  - cbn [depth_cut_x]. symmetry. apply filter_tree_b_id.
  - rewrite (binary_depth_cut k t (wf2_holes_leaf t Hw)), (cutb_as_filter t k Hw). reflexivity.
Qed.

(* labels with empty-slot markers: a node whose parent is kept is shown — as itself when it is a real,
   kept node, as an empty slot otherwise *)
Definition emit_b (P : pos -> bool) (ps : pos * tree) : lbl :=
  if is_hole (snd ps) || negb (P (fst ps)) then (S (length (fst ps)), [], []) else lbl_of ps.

Definition selb_gen (b : bool) (P : pos -> bool) (t : tree) : list lbl :=
  flat_map (fun ps => if (if is_nil (fst ps) then b else P (removelast (fst ps)))
                      then [emit_b P ps] else []) (pre_pos t).

Lemma flat_map_concat' {A B} (f : A -> list B) ll : flat_map f (concat ll) = concat (map (flat_map f) ll).
Proof. induction ll as [|l ll IH]; cbn; [reflexivity|]. rewrite flat_map_app, IH. reflexivity. Qed.

Lemma flat_map_map' {A B C} (f : B -> list C) (g : A -> B) l : flat_map f (map g l) = flat_map (fun x => f (g x)) l.
Proof. induction l as [|x l IH]; cbn; [reflexivity|]. rewrite IH. reflexivity. Qed.

Lemma map_flat_map' {A B C} (g : B -> C) (f : A -> list B) l : map g (flat_map f l) = flat_map (fun x => map g (f x)) l.
Proof. induction l as [|x l IH]; cbn; [reflexivity|]. rewrite map_app, IH. reflexivity. Qed.

Lemma emit_b_shift P i (ps : pos * tree) :
  emit_b P (i :: fst ps, snd ps) = lbl_up (emit_b (fun p => P (i :: p)) ps).
Proof. destruct ps as [p x]. unfold emit_b. cbn [fst snd]. destruct (is_hole x || negb (P (i :: p))); reflexivity. Qed.

Lemma selb_gen_unfold b P g n a ks :
  selb_gen b P (T g n a ks) =
  (if b then [emit_b P ([], T g n a ks)] else []) ++
  concat (mapi_from (fun i k => map lbl_up (selb_gen (P []) (fun p => P (i :: p)) k)) 0 ks).
Proof.
  unfold selb_gen. cbn [pre_pos flat_map fst is_nil]. f_equal.
  rewrite flat_map_concat', map_mapi_from. f_equal. apply mapi_from_ext. intros j k _.
  rewrite flat_map_map', map_flat_map'. apply flat_map_ext. intros [p x]. cbn [fst snd is_nil].
  destruct p as [|i' p'].
  - cbn [removelast is_nil]. destruct (P []); [|reflexivity]. cbn [map].
    f_equal. apply (emit_b_shift P j ([], x)).
  - change (removelast (j :: i' :: p')) with (j :: removelast (i' :: p')). cbn [is_nil].
    destruct (P (j :: removelast (i' :: p'))); [|reflexivity]. cbn [map]. f_equal.
    apply (emit_b_shift P j (i' :: p', x)).
Qed.

Lemma selb_gen_ext b P Q t : (forall p, P p = Q p) -> selb_gen b P t = selb_gen b Q t.
Proof.
  intros H. unfold selb_gen. apply flat_map_ext. intros [p x]. cbn [fst snd]. unfold emit_b. cbn [fst snd].
  rewrite (H p), (H (removelast p)). reflexivity.
Qed.

Lemma selb_gen_none t : selb_gen false (fun _ => false) t = [].
Proof.
  unfold selb_gen. induction (pre_pos t) as [|[p x] l IH]; [reflexivity|]. cbn [flat_map fst].
  destruct (is_nil p); exact IH.
Qed.

Lemma obs_tree_HOLE : obs_tree HOLE = [(1, [], [])].
Proof. reflexivity. Qed.

Lemma selb_gen_HOLE P : selb_gen true P HOLE = [(1, [], [])].
Proof. reflexivity. Qed.

Lemma obs_filter_b_kids (alive : pos -> bool) (ks : list tree) : forall i,
  Forall (fun k => forall al, wf2 k = true -> obs_tree (filter_tree_b al k) = selb_gen true (survive al) k) ks ->
  forallb wf2 ks = true ->
  flat_map (fun k => map lbl_up (obs_tree k))
    (mapi_from (fun i k => if is_hole k then k
                           else if alive [i] then filter_tree_b (fun p => alive (i :: p)) k else HOLE) i ks) =
  concat (mapi_from (fun i k => map lbl_up (selb_gen true (fun p => survive alive (i :: p)) k)) i ks).
Proof.
  induction ks as [|k ks IHk]; intros i HF HW; [reflexivity|].
  inversion HF as [|? ? Hk Hks]; subst. cbn [forallb] in HW. apply andb_true_iff in HW as [Wk Ws].
  cbn [mapi_from concat flat_map]. rewrite (IHk (S i) Hks Ws). f_equal. f_equal.
  destruct (is_hole k) eqn:Eh.
  - rewrite (wf2_hole k Wk Eh). reflexivity.
  - destruct (alive [i]) eqn:Ea.
    + rewrite (Hk _ Wk). apply selb_gen_ext. intros p. rewrite survive_cons, Ea. reflexivity.
    + rewrite obs_tree_HOLE. destruct k as [g n a ks']. rewrite selb_gen_unfold.
      unfold emit_b. cbn [fst snd length]. rewrite survive_cons, Ea. cbn [andb negb orb]. rewrite orb_true_r.
      cbn [app].
      assert (E : forall j l, concat (mapi_from (fun i0 k0 => map lbl_up
                    (selb_gen false (fun p => survive alive (i :: i0 :: p)) k0)) j l) = []).
      { intros j l. revert j. induction l as [|x l IHl]; intros j; [reflexivity|]. cbn [mapi_from concat].
        rewrite IHl, app_nil_r.
        rewrite (selb_gen_ext false _ (fun _ => false)), selb_gen_none; [reflexivity|].
        intros p. rewrite survive_cons, Ea. reflexivity. }
      rewrite E. reflexivity.
Qed.

(* the observation of the surgery result: every slot of a surviving node is shown, as the node in it
   if that node is real and survives, as an empty slot otherwise *)
Lemma obs_filter_b t : forall alive,
  wf2 t = true -> obs_tree (filter_tree_b alive t) = selb_gen true (survive alive) t.
Proof.
  induction t as [g n a ks IH] using tree_ind'. intros alive Hw.
  cbn [filter_tree_b]. rewrite obs_tree_unfold, selb_gen_unfold.
  pose proof (wf2_kids _ _ _ _ Hw) as Hks.
  assert (Eroot : emit_b (survive alive) ([], T g n a ks) = (1, n, a)).
  { unfold emit_b, is_hole. cbn [fst snd tname survive nonempty_prefixes forallb negb length].
    rewrite orb_false_r. destruct (is_nil n) eqn:En; [|reflexivity].
    assert (E : T g n a ks = HOLE) by (apply wf2_hole; [exact Hw|exact En]). inversion E. reflexivity. }
  rewrite Eroot. cbn [app].
  rewrite (obs_filter_b_kids alive ks 0 IH Hks). reflexivity.
Qed.

Lemma survive_and A B p : survive (fun q => A q && B q) p = survive A p && survive B p.
Proof.
  unfold survive. induction (nonempty_prefixes p) as [|x l IH]; [reflexivity|]. cbn [forallb].
  rewrite IH. destruct (A x), (B x), (forallb A l), (forallb B l); reflexivity.
Qed.

Lemma nonempty_prefixes_length p y : In y (nonempty_prefixes p) -> length y <= length p.
Proof.
  intros H. apply In_nonempty_prefixes in H as [_ [r ->]]. rewrite app_length. lia.
Qed.

Lemma survive_depth d p :
  survive (fun q => within_depth d (S (length q))) p = within_depth d (S (length p)).
Proof.
  unfold within_depth. destruct d as [|k]; cbn [Nat.eqb orb].
  - unfold survive. apply forallb_forall. intros; reflexivity.
  - cbn [Nat.leb]. destruct (Nat.leb (length p) k) eqn:E.
    + apply forallb_forall. intros y Hy. apply nonempty_prefixes_length in Hy. apply Nat.leb_le in E.
      apply Nat.leb_le. lia.
    + destruct p as [|i p]; [discriminate|].
      assert (Hin : In (i :: p) (nonempty_prefixes (i :: p))).
      { apply In_nonempty_prefixes. split; [discriminate|apply prefix_refl]. }
      destruct (survive _ (i :: p)) eqn:Es; [|reflexivity]. unfold survive in Es.
      rewrite forallb_forall in Es. specialize (Es _ Hin). cbn beta in Es. congruence.
Qed.

Lemma selb_gen_copy b P t : selb_gen b P (copy_tree t) = selb_gen b P t.
Proof.
  unfold selb_gen. rewrite pre_pos_copy, flat_map_map'. apply flat_map_ext. intros [p x].
  unfold emit_b, cp, lbl_of. cbn [fst snd]. rewrite is_hole_copy, tname_copy.
  destruct x as [g n a ks]. reflexivity.
Qed.

(* the spec's expected list below `base` = selb_gen on the subtree *)
Lemma expected_gen_bin t base s P :
  subtree_at t base = Some s ->
  expected_gen true t base P = selb_gen true (fun p => P (base ++ p)) s.
Proof.
  intros H. unfold expected_gen, selb_gen.
  assert (E : forall (f : pos * tree -> list lbl) l,
             flat_map (fun ps => if prefixb base (fst ps) then f ps else []) l =
             flat_map f (filter (fun ps => prefixb base (fst ps)) l)).
  { intros f l. induction l as [|x l IH]; [reflexivity|]. cbn [flat_map filter].
    destruct (prefixb base (fst x)); cbn [flat_map app]; rewrite IH; reflexivity. }
  rewrite (flat_map_ext _ (fun ps => if prefixb base (fst ps)
             then (if pos_eqb (fst ps) base || P (removelast (fst ps))
                   then [if is_hole (snd ps) || negb (P (fst ps))
                         then (S (length (fst ps)) - length base, [], []) else rel_lbl base ps] else [])
             else [])).
  2:{ intros ps. destruct (prefixb base (fst ps)); reflexivity. }
  rewrite E, (sub_pre_pos base t s H), flat_map_map'. apply flat_map_ext. intros [p x]. cbn [fst snd].
  unfold emit_b, rel_lbl, lbl_of. cbn [fst snd]. rewrite rel_depth.
  destruct p as [|i p].
  - rewrite app_nil_r, pos_eqb_refl. reflexivity.
  - assert (Ep : pos_eqb (base ++ i :: p) base = false).
    { destruct (pos_eqb (base ++ i :: p) base) eqn:E1; [|reflexivity]. apply pos_eqb_eq in E1.
      rewrite <- (app_nil_r base) in E1 at 2. apply app_inv_head in E1. discriminate. }
    rewrite Ep. cbn [orb is_nil].
    assert (Er : removelast (base ++ i :: p) = base ++ removelast (i :: p)).
    { apply removelast_app. discriminate. }
    rewrite Er. reflexivity.
Qed.

(* ---- the BinaryNode family of the umbrella ---- *)

Lemma bin_cut_obs st t s0 d (K : pos -> bool) (alive : pos -> bool) :
  wf2 s0 = true -> subtree_at t st = Some s0 ->
  (forall p, survive alive p = K (st ++ p)) ->
  obs_tree (depth_cut_x true d (filter_tree_b alive (copy_tree s0))) =
  expected_gen true t st (fun p => K p && within_depth d (S (length p) - length st)).
Proof.
  intros Hw Hst HK.
  assert (Hwc : wf2 (copy_tree s0) = true) by (apply wf2_copy; exact Hw).
  rewrite (depth_cut_x_true_filter d _ (wf2_filter_b _ alive Hwc)), filter_b_compose.
  rewrite (obs_filter_b _ _ Hwc), selb_gen_copy, (expected_gen_bin t st s0 _ Hst).
  apply selb_gen_ext. intros p. rewrite survive_and, survive_depth, rel_depth, HK. reflexivity.
Qed.

Lemma filter_b_true_copy s0 : filter_tree_b (fun _ => true) (copy_tree s0) = copy_tree s0.
Proof. apply filter_tree_b_id. Qed.

Theorem prune_tree_at_bin_satisfies tsep t st s0 pp exact sep d :
  wf2 t = true -> subtree_at t st = Some s0 -> tsep <> [] -> sep <> [] -> paths_ok tsep sep (norm_paths pp) ->
  prop_C14_at true tsep t st (CPrune pp exact sep d) (obs_of (prune_tree_at true tsep t st pp exact sep d)) = true.
Proof.
  intros Hw Hst Ht Hsep Hok. unfold prop_C14_at, prune_tree_at.
  destruct (is_nil (norm_paths pp) && Nat.eqb d 0) eqn:E0; [reflexivity|].
  destruct tsep as [|c0 tsep0]; [contradiction|]. destruct sep as [|x sep]; [contradiction|]. cbn [is_nil orb].
  rewrite subtree_at_copy, Hst. cbn [option_map].
  assert (Hw0 : wf2 s0 = true) by (apply (wf2_subtree st t s0 Hw Hst)).
  change (map (fun s => addressed_at true (c0 :: tsep0) t st (replace s (x :: sep) (c0 :: tsep0))) (norm_paths pp))
    with (hits_bin (c0 :: tsep0) (x :: sep) t st (norm_paths pp)).
  destruct (existsb is_nil (hits_bin (c0 :: tsep0) (x :: sep) t st (norm_paths pp))) eqn:E1.
  - destruct (norm_paths pp) as [|s paths] eqn:Ep; [discriminate|]. cbn [is_nil].
    destruct (locate_bin_missing _ _ t st s0 (s :: paths) Hst Hok E1) as [e He]. rewrite He. reflexivity.
  - destruct (singletons (hits_bin (c0 :: tsep0) (x :: sep) t st (norm_paths pp))) eqn:E2; [|reflexivity].
    cbn [negb]. destruct (nested (concat (hits_bin (c0 :: tsep0) (x :: sep) t st (norm_paths pp)))) eqn:E3; [reflexivity|].
    destruct (norm_paths pp) as [|s paths] eqn:Ep; cbn [is_nil].
    + cbn [obs_of]. apply is_tree_refl. rewrite <- (filter_b_true_copy s0).
      apply (bin_cut_obs st t s0 d (fun _ => true) (fun _ => true) Hw0 Hst).
      intros p. unfold survive. apply forallb_forall. intros; reflexivity.
    + rewrite (locate_bin_found _ _ t st s0 (s :: paths) Hst Hok E2). cbn [obs_of]. apply is_tree_refl.
      set (N := concat (hits_bin (c0 :: tsep0) (x :: sep) t st (s :: paths))) in *.
      unfold prune_paths_at.
      apply (bin_cut_obs st t s0 d (fun p => false || keep N exact p) _ Hw0 Hst).
      intros p. cbn [orb]. apply survive_below.
      * apply singletons_nonempty; [exact E2|discriminate].
      * apply nested_false. exact E3.
      * intros q Hq. apply in_concat in Hq as [l [Hl Hq]]. unfold hits_bin in Hl.
        apply in_map_iff in Hl as [s' [<- _]]. apply (addressed_at_below _ _ _ _ _ _ Hq).
Qed.

Lemma bin_tail_obs t q x d :
  wf2 x = true -> subtree_at t q = Some x ->
  obs_of (if Nat.eqb d 0 then Ret (copy_tree x) else Ret (depth_cut_x true d (copy_tree (copy_tree x)))) =
  OTree (expected_gen true t q (fun p => within_depth d (S (length p) - length q))).
Proof.
  intros Hw Hq.
  assert (G : forall y, wf2 y = true -> obs_tree (depth_cut_x true d (copy_tree y)) =
                        selb_gen true (fun p => within_depth d (S (length p))) y).
  { intros y Hy. rewrite (depth_cut_x_true_filter d _ (wf2_copy y Hy)), (obs_filter_b _ _ (wf2_copy y Hy)), selb_gen_copy.
    apply selb_gen_ext. intros p. apply survive_depth. }
  rewrite (expected_gen_bin t q x _ Hq).
  rewrite (selb_gen_ext true _ (fun p => within_depth d (S (length p)))) by (intros p; rewrite rel_depth; reflexivity).
  destruct d as [|k]; cbn [Nat.eqb obs_of]; f_equal.
  - apply (G x Hw).
  - rewrite (G (copy_tree x) (wf2_copy x Hw)). apply selb_gen_copy.
Qed.

Theorem get_subtree_at_bin_satisfies tsep t st s0 s d :
  wf2 t = true -> subtree_at t st = Some s0 -> tsep <> [] -> strip_ok tsep s ->
  prop_C14_at true tsep t st (CSubtree s d) (obs_of (get_subtree_at true tsep t st s d)) = true.
Proof.
  intros Hw Hst Ht Hs. unfold prop_C14_at, get_subtree_at. destruct tsep as [|c0 tsep0]; [contradiction|].
  cbn [is_nil]. destruct (is_nil s) eqn:Es.
  - rewrite subtree_at_copy, Hst. cbn [option_map].
    rewrite (bin_tail_obs t st s0 d (wf2_subtree st t s0 Hw Hst) Hst). apply is_tree_refl. reflexivity.
  - unfold find_path_at. rewrite (find_paths_at_addressed_bin _ t st s0 s Hst Hs).
    destruct (addressed_at true (c0 :: tsep0) t st s) as [|q [|q' l]] eqn:Ea; [reflexivity| |reflexivity].
    destruct (addressed_at_valid true (c0 :: tsep0) t st s q) as [x Hx]; [rewrite Ea; left; reflexivity|].
    rewrite subtree_at_copy, Hx. cbn [option_map].
    rewrite (bin_tail_obs t q x d (wf2_subtree q t x Hw Hx) Hx). apply is_tree_refl. reflexivity.
Qed.

Theorem model_satisfies_C14_bin tsep t st s0 call :
  wf2 t = true -> subtree_at t st = Some s0 -> tsep <> [] -> call_ok_g tsep call ->
  prop_C14_at true tsep t st call (obs_of (run_call_at true tsep t st call)) = true.
Proof.
  intros Hw Hst Ht. destruct call as [pp exact sep d|s d]; cbn [call_ok_g run_call_at]; intros H.
  - destruct H as [H1 H2]. apply (prune_tree_at_bin_satisfies tsep t st s0); assumption.
  - apply (get_subtree_at_bin_satisfies tsep t st s0); assumption.
Qed.

(* ---- the umbrella: every case of the modelled domain ---- *)

Definition case_ok (bin : bool) (tsep : str) (t : tree) (st : pos) (call : hcall) : Prop :=
  (exists s0, subtree_at t st = Some s0) /\ tsep <> [] /\ call_ok_g tsep call /\ (bin = true -> wf2 t = true).

Theorem umbrella_C14 bin tsep t st call :
  case_ok bin tsep t st call ->
  prop_C14_at bin tsep t st call (obs_of (run_call_at bin tsep t st call)) = true /\
  prop_C14_top call (obs_of (run_call_at bin tsep t st call)) (top_depth st call) = true.
Proof.
  intros [[s0 Hst] [Ht [Hc Hw]]]. split.
  - destruct bin.
    + apply (model_satisfies_C14_bin tsep t st s0); auto.
    + apply (model_satisfies_C14_at_g tsep t st s0); assumption.
  - unfold prop_C14_top, top_depth. destruct call; [reflexivity|].
    destruct (obs_of _); reflexivity.
Qed.

(* ============================================================================================
   21. Inner start node with a depth limit: the whole copy
   ============================================================================================ *)

Definition whole_expect (given : bool) (N : list pos) (exact : bool) (st : pos) (d : nat) (p : pos) : bool :=
  (negb given || keep N exact p) && (negb (prefixb st p) || within_depth d (S (length p) - length st)).

Lemma prefix_length p q : prefix p q -> length p <= length q.
Proof. intros [r ->]. rewrite app_length. lia. Qed.

Lemma survive_depth_below st d p :
  survive (fun q => negb (prefixb st q) || Nat.eqb d 0 || Nat.leb (S (length q) - length st) d) p =
  (negb (prefixb st p) || within_depth d (S (length p) - length st)).
Proof.
  unfold within_depth. apply Bool.eq_iff_eq_true. rewrite survive_spec. split.
  - intros H. destruct p as [|i p].
    + destruct st as [|j st]; [|reflexivity]. cbn. destruct d; reflexivity.
    + rewrite orb_assoc. apply H; [discriminate|apply prefix_refl].
  - intros H y Hy Hyp. destruct (prefixb st y) eqn:Ey; [|reflexivity]. cbn [negb orb].
    apply prefixb_prefix in Ey.
    assert (Ep : prefixb st p = true) by (apply prefixb_prefix; apply (prefix_trans _ _ _ Ey Hyp)).
    rewrite Ep in H. cbn [negb orb] in H. destruct (Nat.eqb d 0); [reflexivity|]. cbn [orb] in *.
    apply Nat.leb_le in H. apply Nat.leb_le. apply prefix_length in Hyp. lia.
Qed.

Theorem whole_copy_obs given N exact st d t :
  (given = true -> N <> [] /\ nested N = false) ->
  obs_tree (whole_copy_at given N exact st d t) = sel (whole_expect given N exact st d) t.
Proof.
  intros HN. unfold whole_copy_at. rewrite filter_tree_obs, sel_copy. apply sel_ext. intros p.
  unfold whole_alive, whole_expect. rewrite survive_and, survive_depth_below. f_equal.
  destruct given; cbn [andb negb orb].
  - destruct (HN eq_refl) as [H1 H2]. apply survive_eq_keep; [exact H1|apply nested_false; exact H2].
  - unfold survive. apply forallb_forall. intros; reflexivity.
Qed.

(* above the returned node the depth limit changes nothing; below it the whole copy shows exactly the
   returned subtree *)
Theorem whole_copy_above_below given N exact st d t s :
  subtree_at t st = Some s ->
  (given = true -> N <> [] /\ nested N = false /\ (forall q, In q N -> prefix st q)) ->
  (forall p, prefixb st p = false -> whole_expect given N exact st d p = (negb given || keep N exact p)) /\
  sel (fun p => prefixb st p && whole_expect given N exact st d p) t =
  map (lbl_add (length st))
      (obs_tree (depth_cut_x false d (if given then prune_paths_at false N exact st (copy_tree s) else copy_tree s))).
Proof.
  intros Hst HN. split.
  - intros p Hp. unfold whole_expect. rewrite Hp. cbn [negb orb]. apply andb_true_r.
  - rewrite (sub_sel_abs st t s _ Hst). f_equal. destruct given.
    + destruct (HN eq_refl) as [H1 [H2 H3]].
      rewrite (inner_prune_then_cut_obs N exact st t s d Hst H1 H2 H3), (sub_sel st t s _ Hst).
      apply sel_ext. intros p. unfold whole_expect.
      assert (Ep : prefixb st (st ++ p) = true) by (apply prefixb_prefix; apply prefix_app_l).
      rewrite Ep. reflexivity.
    + rewrite (inner_cut_only_obs st t s d Hst), (sub_sel st t s _ Hst).
      apply sel_ext. intros p. unfold whole_expect.
      assert (Ep : prefixb st (st ++ p) = true) by (apply prefixb_prefix; apply prefix_app_l).
      rewrite Ep. reflexivity.
Qed.
