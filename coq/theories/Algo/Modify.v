(* Executable model of bigtree/tree/modify.py (shift_nodes, copy_nodes, shift_and_replace_nodes,
   copy_nodes_from_tree_to_tree, copy_and_replace_nodes_from_tree_to_tree) on a tagged rose forest.

   State.  The Python heap reachable from the call is a *forest*: the tree object(s) handed to the
   call (piece 0 = `tree`; piece 1 = `to_tree` for the tree-to-tree variants) followed by every
   subtree that an assignment `x.parent = None` / `del x.children` / `x.copy()` turned into a tree of
   its own.  A node object is addressed by a reference `ref = piece index :: child indices`.
   `x.parent = y` is "remove the subtree at x, append it as last child of y"; references held in
   Python locals (from_node, to_node, loop snapshots) are carried through every such step by the
   tracker the step returns.  Nothing here is proved; see Algo/ModifyProofs.v.

   Outside the model (Unmodelled, F_SKIP in the correspondence):
   (U1) -- lifted: empty separators are modelled (see py_replace and empty_sep_refusal below);
   (U2) merge_leaves without copy whose destination node lies inside (or is) the source subtree:
        modify.py:1217 mutates the tree while the lazy generator `from_node.leaves` is running;
   (U3) an assignment that would give the tree object handed to the call a parent (only reachable by
        shifting the root itself with delete_children=True to a path below it): later pairs would
        then search from a non-root `tree`. *)
From BT Require Import Base.Prelude Base.Str Base.Rose.

(* ---------------------------------------------------------------------------------------------- *)
(* forest surgery                                                                                  *)

Definition forest := list tree.
Definition ref := list nat.

Fixpoint del_nth {A} (i : nat) (l : list A) {struct l} : list A :=
  match l with
  | [] => []
  | x :: r => match i with 0 => r | S j => x :: del_nth j r end
  end.

Fixpoint upd_nth {A} (i : nat) (g : A -> A) (l : list A) {struct l} : list A :=
  match l with
  | [] => []
  | x :: r => match i with 0 => g x :: r | S j => x :: upd_nth j g r end
  end.

Definition set_kids (t : tree) (ks : list tree) : tree :=
  match t with T g n a _ => T g n a ks end.

(* children list of the node at p; p = [] is the forest itself (the "parent" of the roots) *)
Fixpoint fkids (p : ref) (f : forest) : option (list tree) :=
  match p with
  | [] => Some f
  | i :: p' => match nth_error f i with
               | Some t => fkids p' (tkids t)
               | None => None
               end
  end.

Fixpoint fget (p : ref) (f : forest) : option tree :=
  match p with
  | [] => None
  | i :: p' => match nth_error f i with
               | None => None
               | Some t => match p' with [] => Some t | _ => fget p' (tkids t) end
               end
  end.

Fixpoint fremove (p : ref) (f : forest) : forest :=
  match p with
  | [] => f
  | i :: p' => match p' with
               | [] => del_nth i f
               | _ => upd_nth i (fun t => set_kids t (fremove p' (tkids t))) f
               end
  end.

Fixpoint fappend (q : ref) (x : tree) (f : forest) : forest :=
  match q with
  | [] => f ++ [x]
  | i :: q' => upd_nth i (fun t => set_kids t (fappend q' x (tkids t))) f
  end.

Fixpoint is_prefix (p z : ref) : bool :=
  match p, z with
  | [], _ => true
  | i :: p', j :: z' => Nat.eqb i j && is_prefix p' z'
  | _ :: _, [] => false
  end.

Definition ref_eqb (a b : ref) : bool := list_eqb Nat.eqb a b.

(* where the node at q is after the subtree at p has been removed (None: q was inside it) *)
Fixpoint adj (p q : ref) : option ref :=
  match p, q with
  | [], _ => None
  | _ :: _, [] => Some []
  | i :: p', j :: q' =>
      match p' with
      | [] => if Nat.eqb j i then None
              else Some ((if Nat.ltb i j then Nat.pred j else j) :: q')
      | _ => if Nat.eqb j i then option_map (cons j) (adj p' q') else Some q
      end
  end.
Definition adj' (p q : ref) : ref := match adj p q with Some r => r | None => q end.

Definition parent_ref (x : ref) : option ref :=
  match x with [] => None | [_] => None | _ => Some (removelast x) end.

(* deep copy: every object of the copied tree is new *)
Fixpoint retag (t : tree) : tree :=
  match t with T _ n a ks => T None n a (map retag ks) end.

(* ---------------------------------------------------------------------------------------------- *)
(* x.parent = y  (basenode.py:187-231 with Node's duplicate-name hook node.py:163-177)            *)

Inductive mv := MvOk (f : forest) (trk : ref -> ref) | MvErr (e : exn).

(* is there a child of the new parent, other than x itself, carrying x's name? *)
Fixpoint dup_child (nm : str) (skip : option nat) (i : nat) (ks : list tree) : bool :=
  match ks with
  | [] => false
  | k :: r => (str_eqb (tname k) nm && negb (opt_eqb Nat.eqb skip (Some i))) || dup_child nm skip (S i) r
  end.

Definition protected (nroots : nat) (x : ref) : bool :=
  match x with [i] => Nat.ltb i nroots | _ => false end.

Definition track (x nx : ref) (z : ref) : ref :=
  if is_prefix x z then nx ++ skipn (length x) z else adj' x z.

Definition move (nroots : nat) (f : forest) (x : ref) (y : option ref) : mv :=
  match fget x f with
  | None => MvErr Unmodelled
  | Some sub =>
    match y with
    | None =>
        match x with
        | [_] => MvOk f (fun z => z)                 (* already a root: nothing is removed or appended *)
        | _ => let f1 := fremove x f in
               MvOk (f1 ++ [sub]) (track x [length f1])
        end
    | Some q =>
        if is_prefix x q then MvErr LoopError else
        match fkids q f with
        | None => MvErr Unmodelled
        | Some ks =>
            let skip := if opt_eqb ref_eqb (parent_ref x) (Some q) then Some (last x 0) else None in
            if dup_child (tname sub) skip 0 ks then MvErr TreeError else
            if protected nroots x then MvErr Unmodelled else                    (* U3 *)
            let f1 := fremove x f in
            let q' := adj' x q in
            match fkids q' f1 with
            | None => MvErr Unmodelled
            | Some ks1 => MvOk (fappend q' sub f1) (track x (q' ++ [length ks1]))
            end
        end
    end
  end.

(* del x.children (basenode.py:385-389): every child becomes a root, in order; no hooks run *)
Fixpoint del_children_go (nroots n : nat) (f : forest) (x : ref) (trk : ref -> ref) : mv :=
  match n with
  | 0 => MvOk f trk
  | S m => match move nroots f (x ++ [0]) None with
           | MvErr e => MvErr e
           | MvOk f1 t1 => del_children_go nroots m f1 x (fun z => t1 (trk z))
           end
  end.
Definition del_children (nroots : nat) (f : forest) (x : ref) : mv :=
  match fkids x f with
  | None => MvErr Unmodelled
  | Some ks => del_children_go nroots (length ks) f x (fun z => z)
  end.

(* x.copy() = copy.deepcopy(x): the whole tree around x is copied through the parent link *)
Definition copy_node (f : forest) (x : ref) : option (forest * ref) :=
  match x with
  | [] => None
  | k :: p => match nth_error f k with
              | None => None
              | Some t => Some (f ++ [retag t], length f :: p)
              end
  end.

(* ---------------------------------------------------------------------------------------------- *)
(* search.py: find_full_path (291-327), find_path (330-356); construct.py: add_path_to_tree        *)

Fixpoint name_idx (nm : str) (i : nat) (ks : list tree) : list nat :=
  match ks with
  | [] => []
  | k :: r => (if str_eqb (tname k) nm then [i] else []) ++ name_idx nm (S i) r
  end.

(* find_child_by_name repeatedly; SearchError when two children carry the name *)
Fixpoint walk_names (ks : list tree) (here : ref) (comps : list str) : res (option ref) :=
  match comps with
  | [] => Ret (Some here)
  | c :: rest =>
      match name_idx c 0 ks with
      | [] => Ret None
      | [i] => match nth_error ks i with
               | Some k => walk_names (tkids k) (here ++ [i]) rest
               | None => Ret None
               end
      | _ => Raise SearchError
      end
  end.

Definition find_full_path (f : forest) (piece : nat) (tsep : str) (path : str) : res (option ref) :=
  match nth_error f piece with
  | None => Raise Unmodelled
  | Some t =>
      let pl := split (lstrip (rstrip path tsep) tsep) tsep in
      if negb (str_eqb (hd [] pl) (tname t)) then Raise ValueError
      else walk_names (tkids t) [piece] (tl pl)
  end.

(* pre-order list of (reference, names from the root, subtree) *)
Fixpoint refs_from (here : ref) (names : list str) (t : tree) : list (ref * list str * tree) :=
  match t with
  | T _ n _ ks =>
      let nm := names ++ [n] in
      (here, nm, t) ::
      (fix go (i : nat) (l : list tree) : list (ref * list str * tree) :=
         match l with
         | [] => []
         | k :: r => refs_from (here ++ [i]) nm k ++ go (S i) r
         end) 0 ks
  end.

Definition path_name (tsep : str) (names : list str) : str := tsep ++ join tsep names.

Definition find_path (f : forest) (piece : nat) (tsep : str) (path : str) : res (option ref) :=
  match nth_error f piece with
  | None => Raise Unmodelled
  | Some t =>
      let p := rstrip path tsep in
      match filter (fun e => endswith (path_name tsep (snd (fst e))) p) (refs_from [piece] [] t) with
      | [] => Ret None
      | [e] => Ret (Some (fst (fst e)))
      | _ => Raise SearchError
      end
  end.

Definition fresh_node (nm : str) : tree := T None nm [] [].

Fixpoint add_walk (f : forest) (here : ref) (comps : list str) {struct comps} : forest * res ref :=
  match comps with
  | [] => (f, Ret here)
  | c :: rest =>
      match fkids here f with
      | None => (f, Raise Unmodelled)
      | Some ks =>
          match name_idx c 0 ks with
          | [] => match c with
                  | [] => (f, Raise TreeError)              (* Node(""): "Node must have a `name`" *)
                  | _ => add_walk (fappend here (fresh_node c) f) (here ++ [length ks]) rest
                  end
          | [i] => add_walk f (here ++ [i]) rest
          | _ => (f, Raise SearchError)
          end
      end
  end.

(* the string part of add_path_to_tree: the names below the root that add_walk has to follow/create *)
Definition add_path_comps (f : forest) (piece : nat) (tsep : str) (path : str) : res (list str) :=
  match path with
  | [] => Raise ValueError                                   (* assert_length_not_empty *)
  | _ =>
    match nth_error f piece with
    | None => Raise Unmodelled
    | Some t =>
        let br := split (rstrip (lstrip path tsep) tsep) tsep in
        if negb (str_eqb (hd [] br) (tname t)) then Raise TreeError
        else Ret (tl br)
    end
  end.

(* ---------------------------------------------------------------------------------------------- *)
(* configuration of one call                                                                       *)

Record mflags := MF { f_skip : bool; f_over : bool; f_mc : bool; f_ml : bool; f_dc : bool; f_full : bool }.

Record cfg := CFG {
  c_copy : bool;
  c_two : bool;          (* tree-to-tree: destination = piece 1 *)
  c_sep : str;           (* the `sep` argument *)
  c_ssep : str;          (* tree.sep *)
  c_dsep : str;          (* to_tree.sep *)
  c_fl : mflags }.

Definition dpiece (c : cfg) : nat := if c_two c then 1 else 0.
Definition nroots (c : cfg) : nat := if c_two c then 2 else 1.

Definition outc := (forest * option exn)%type.

Definition truthy (o : option str) : option str :=
  match o with Some [] => None | _ => o end.

Definition resolve_from (c : cfg) (f : forest) (fp : str) : res (option ref) :=
  if f_full (c_fl c) then find_full_path f 0 (c_ssep c) fp else find_path f 0 (c_ssep c) fp.

(* ---------------------------------------------------------------------------------------------- *)
(* attach (modify.py:1200-1222)                                                                    *)

(* for children in from_node.children: [del children.children]; children.parent = to_node *)
Fixpoint mc_loop (nr : nat) (dc : bool) (f : forest) (cs : list ref) (trk : ref -> ref)
         (tn : option ref) (fr : ref) : forest * res ref :=
  (* cs: the snapshot `from_node.children`, as references valid when it was taken;
     trk: where those references point now *)
  match cs with
  | [] => (f, Ret fr)
  | ch0 :: rest =>
      let ch := trk ch0 in
      match (if dc then del_children nr f ch else MvOk f (fun z => z)) with
      | MvErr e => (f, Raise e)
      | MvOk f1 t1 =>
          match move nr f1 (t1 ch) (option_map t1 tn) with
          | MvErr e => (f1, Raise e)
          | MvOk f2 t2 =>
              let t := fun z => t2 (t1 z) in
              mc_loop nr dc f2 rest (fun z => t (trk z)) (option_map t tn) (t fr)
          end
      end
  end.

(* for children in from_node.leaves: children.parent = to_node *)
Fixpoint ml_loop (nr : nat) (f : forest) (ls : list ref) (trk : ref -> ref) (tn : option ref) : outc :=
  match ls with
  | [] => (f, None)
  | l :: rest =>
      match move nr f (trk l) tn with
      | MvErr e => (f, Some e)
      | MvOk f1 t1 => ml_loop nr f1 rest (fun z => t1 (trk z)) (option_map t1 tn)
      end
  end.

Definition child_refs (x : ref) (n : nat) : list ref := map (fun i => x ++ [i]) (seq 0 n).

Definition leaf_refs (f : forest) (x : ref) : list ref :=
  match fget x f with
  | None => []
  | Some t => map (fun e => fst (fst e)) (filter (fun e => is_leaf (snd e)) (refs_from x [] t))
  end.

Definition attach (c : cfg) (mc : bool) (f : forest) (fr : ref) (tn : option ref) : outc :=
  let nr := nroots c in
  match (if c_copy c then copy_node f fr else Some (f, fr)) with
  | None => (f, Some Unmodelled)
  | Some (f0, fr0) =>
    (* 1205 / 1214: the f-string argument of logging.debug evaluates `to_node.node_name` *)
    if (mc || f_ml (c_fl c)) && match tn with None => true | Some _ => false end
    then (f0, Some AttributeError) else
    if mc then
      match fkids fr0 f0 with
      | None => (f0, Some Unmodelled)
      | Some ks =>
          match mc_loop nr (f_dc (c_fl c)) f0 (child_refs fr0 (length ks)) (fun z => z) tn fr0 with
          | (f1, Raise e) => (f1, Some e)
          | (f1, Ret fr1) =>
              match move nr f1 fr1 None with
              | MvErr e => (f1, Some e)
              | MvOk f2 _ => (f2, None)
              end
          end
      end
    else if f_ml (c_fl c) then
      if negb (c_copy c) && match tn with Some q => is_prefix fr0 q | None => false end
      then (f0, Some Unmodelled)                                                 (* U2 *)
      else ml_loop nr f0 (leaf_refs f0 fr0) (fun z => z) tn
    else
      match (if f_dc (c_fl c) then del_children nr f0 fr0 else MvOk f0 (fun z => z)) with
      | MvErr e => (f0, Some e)
      | MvOk f1 t1 =>
          match move nr f1 (t1 fr0) (option_map t1 tn) with
          | MvErr e => (f1, Some e)
          | MvOk f2 _ => (f2, None)
          end
      end
  end.

(* parent = to_node.parent; to_node.parent = None; to_node = parent *)
Definition detach_to_parent (nr : nat) (f : forest) (dr : ref) (fr : ref) : forest * res (ref * option ref) :=
  match move nr f dr None with
  | MvErr e => (f, Raise e)
  | MvOk f1 t1 => (f1, Ret (t1 fr, option_map t1 (parent_ref dr)))
  end.

(* ---------------------------------------------------------------------------------------------- *)
(* one (from_path, to_path) pair of copy_or_shift_logic (modify.py:1112-1222)                      *)

(* what the to-path denotes *)
Inductive target :=
| TDel                           (* to_path None / empty: delete *)
| TNode (dr : ref)               (* the node at to_path exists *)
| TNew (comps : list str).       (* it does not: names below the root of the parent path, to be found or created *)

Definition resolve_target (c : cfg) (f : forest) (tp : option str) : res target :=
  match truthy tp with
  | None => Ret TDel
  | Some tpath =>
      match find_full_path f (dpiece c) (c_dsep c) tpath with
      | Raise e => Raise e
      | Ret (Some dr) => Ret (TNode dr)
      | Ret None =>
          let parent_path := join (c_dsep c) (removelast (split tpath (c_dsep c))) in
          match add_path_comps f (dpiece c) (c_dsep c) parent_path with
          | Raise e => Raise e
          | Ret comps => Ret (TNew comps)
          end
      end
  end.

(* the decision tree 1132-1198 and the attach step, on references *)
Definition cs_core (c : cfg) (f : forest) (fr : ref) (tg : target) : outc :=
  let fl := c_fl c in
  let nr := nroots c in
  match tg with
  | TDel => attach c (f_mc fl) f fr None
  | TNode dr =>
      if ref_eqb fr dr then
        if f_mc fl then
          match detach_to_parent nr f dr fr with
          | (f1, Raise e) => (f1, Some e)
          | (f1, Ret (fr1, tn)) => attach c true f1 fr1 tn
          end
        else if f_ml fl then attach c false f fr (parent_ref dr)
        else (f, Some TreeError)
      else if f_mc fl then
        if negb (f_over fl) then attach c true f fr (Some dr)
        else
          match detach_to_parent nr f dr fr with
          | (f1, Raise e) => (f1, Some e)
          | (f1, Ret (fr1, tn)) => attach c false f1 fr1 tn      (* merge_children = False for this pair *)
          end
      else if f_ml fl then
        if negb (f_over fl) then attach c false f fr (Some dr)
        else
          match del_children nr f dr with
          | MvErr e => (f, Some e)
          | MvOk f1 t1 => attach c false f1 (t1 fr) (Some (t1 dr))
          end
      else
        if negb (f_over fl) then (f, Some TreeError)
        else
          match detach_to_parent nr f dr fr with
          | (f1, Raise e) => (f1, Some e)
          | (f1, Ret (fr1, tn)) => attach c false f1 fr1 tn
          end
  | TNew comps =>
      match add_walk f [dpiece c] comps with
      | (f1, Raise e) => (f1, Some e)
      | (f1, Ret q) => attach c (f_mc fl) f1 fr (Some q)
      end
  end.

Definition cs_pair (c : cfg) (f : forest) (fp : str) (tp : option str) : outc :=
  match resolve_from c f fp with
  | Raise e => (f, Some e)
  | Ret None => if f_skip (c_fl c) then (f, None) else (f, Some NotFoundError)
  | Ret (Some fr) =>
      match resolve_target c f tp with
      | Raise e => (f, Some e)
      | Ret tg => cs_core c f fr tg
      end
  end.

(* ---------------------------------------------------------------------------------------------- *)
(* one pair of replace_logic (modify.py:1314-1361)                                                 *)

(* for _node in to_node_siblings[to_node_idx:] *)
Fixpoint rp_loop (nr : nat) (f : forest) (first : bool) (sibs : list ref) (trk : ref -> ref)
         (fr par : ref) : outc :=
  match sibs with
  | [] => (f, None)
  | s0 :: rest =>
      let s := trk s0 in
      match move nr f s None with
      | MvErr e => (f, Some e)
      | MvOk f1 t1 =>
          let x := if first then t1 fr else t1 s in
          match move nr f1 x (Some (t1 par)) with
          | MvErr e => (f1, Some e)
          | MvOk f2 t2 =>
              let t := fun z => t2 (t1 z) in
              rp_loop nr f2 false rest (fun z => t (trk z)) (t fr) (t par)
          end
      end
  end.

(* copy / delete children / re-append the right siblings (1346-1361), on references *)
Definition rp_core (c : cfg) (f : forest) (fr dr : ref) : outc :=
  let nr := nroots c in
  if ref_eqb fr dr then (f, Some TreeError) else
  match (if c_copy c then copy_node f fr else Some (f, fr)) with
  | None => (f, Some Unmodelled)
  | Some (f0, fr0) =>
    match (if f_dc (c_fl c) then del_children nr f0 fr0 else MvOk f0 (fun z => z)) with
    | MvErr e => (f0, Some e)
    | MvOk f1 t1 =>
        let fr1 := t1 fr0 in
        let dr1 := t1 dr in
        match parent_ref dr1 with
        | None => (f1, Some AttributeError)    (* parent is None: None.children *)
        | Some par =>
            match fkids par f1 with
            | None => (f1, Some Unmodelled)
            | Some ks =>
                let idx := last dr1 0 in
                rp_loop nr f1 true (map (fun i => par ++ [i]) (seq idx (length ks - idx))) (fun z => z) fr1 par
            end
        end
    end
  end.

Definition rp_pair (c : cfg) (f : forest) (fp : str) (tp : option str) : outc :=
  match resolve_from c f fp with
  | Raise e => (f, Some e)
  | Ret None => if f_skip (c_fl c) then (f, None) else (f, Some NotFoundError)
  | Ret (Some fr) =>
    match tp with
    | None => (f, Some AttributeError)             (* find_full_path(to_tree, None): None.rstrip *)
    | Some tpath =>
      match find_full_path f (dpiece c) (c_dsep c) tpath with
      | Raise e => (f, Some e)
      | Ret None => (f, Some NotFoundError)
      | Ret (Some dr) => rp_core c f fr dr
      end
    end
  end.

(* ---------------------------------------------------------------------------------------------- *)
(* whole calls                                                                                     *)

Fixpoint run_pairs (step : forest -> str -> option str -> outc) (f : forest)
         (fps : list str) (tps : list (option str)) : outc :=
  match fps, tps with
  | fp :: fps', tp :: tps' =>
      match step f fp tp with
      | (f1, None) => run_pairs step f1 fps' tps'
      | r => r
      end
  | _, _ => (f, None)
  end.

(* str.replace, including Python's reading of an empty `old`: `new` is inserted in front of every character
   and at the end ("ab".replace("", "/") = "/a/b/").  Base/Str.replace returns s for an empty `old`. *)
Definition py_replace (s old new : str) : str :=
  match old with
  | [] => new ++ flat_map (fun ch => ch :: new) s
  | _ => replace s old new
  end.

Definition norm_from (c : cfg) (p : str) : str := py_replace (rstrip p (c_sep c)) (c_sep c) (c_ssep c).
Definition norm_to (c : cfg) (o : option str) : option str :=
  match truthy o with
  | None => None
  | Some p => Some (py_replace (rstrip p (c_sep c)) (c_sep c) (c_dsep c))
  end.

Definition root_name (f : forest) (k : nat) : str :=
  match nth_error f k with Some t => tname t | None => [] end.

Definition is_empty (s : str) : bool := match s with [] => true | _ => false end.

(* the with_full_path / to_paths root checks shared by both functions (1087-1108, 1290-1311) *)
Definition roots_ok (c : cfg) (f : forest) (fps : list str) (tps : list (option str)) : bool :=
  (negb (f_full (c_fl c)) ||
   forallb (fun p => str_eqb (hd [] (split (lstrip p (c_ssep c)) (c_ssep c))) (root_name f 0)) fps)
  && forallb (fun o => match truthy o with
                       | None => true
                       | Some p => str_eqb (hd [] (split (lstrip p (c_dsep c)) (c_dsep c))) (root_name f (dpiece c))
                       end) tps.

Fixpoint last_names_ok (c : cfg) (fps : list str) (tps : list (option str)) : bool :=
  match fps, tps with
  | fp :: fps', tp :: tps' =>
      match truthy tp with
      | None => true
      | Some t => str_eqb (last (split fp (c_ssep c)) []) (last (split t (c_dsep c)) [])
      end && last_names_ok c fps' tps'
  | _, _ => true
  end.

(* the argument checks of copy_or_shift_logic (1051-1108), on the normalised path lists;
   Some e = the exception raised before any pair is processed *)
Definition cs_validate (c : cfg) (f : forest) (fps : list str) (tps0 : list (option str)) : option exn :=
  let fl := c_fl c in
  if f_mc fl && f_ml fl then Some ValueError else
  if negb (Nat.eqb (length fps) (length tps0)) then Some ValueError else
  if c_copy c && existsb (fun o => match truthy o with None => true | Some _ => false end) tps0 then Some ValueError else
  let fps1 := map (norm_from c) fps in
  let tps1 := map (norm_to c) tps0 in
  if negb (last_names_ok c fps1 tps1) then Some ValueError else
  if negb (roots_ok c f fps1 tps1) then Some ValueError else None.

Definition rp_validate (c : cfg) (f : forest) (fps : list str) (tps0 : list (option str)) : option exn :=
  if negb (Nat.eqb (length fps) (length tps0)) then Some ValueError else
  let fps1 := map (norm_from c) fps in
  let tps1 := map (norm_to c) tps0 in
  if negb (roots_ok c f fps1 tps1) then Some ValueError else None.

Definition seps_ok (c : cfg) : bool :=
  negb (is_empty (c_sep c)) && negb (is_empty (c_ssep c)) && negb (is_empty (c_dsep c)).

(* An empty *tree* separator makes `x.split(tree.sep)` raise ValueError("empty separator").  In both functions
   that expression is evaluated, before any pair is processed, for every pair with a non-empty normalised
   to-path (1080, 1101 / 1304) and, with with_full_path, for every from-path (1090 / 1293).  An empty `sep`
   argument is no error (rstrip("") does nothing, replace("", x) see py_replace).  When this refusal does not
   fire and a tree separator is empty, no later step evaluates a split with it except find_full_path on a
   to-path that normalised to "", whose [""] <> root name is a ValueError in the model as in the code. *)
Definition empty_sep_refusal (rp : bool) (c : cfg) (fps : list str) (tps : list (option str)) : bool :=
  (* replace_logic has no "same last name" check, so it splits a from-path only with with_full_path *)
  (((negb rp && is_empty (c_ssep c)) || is_empty (c_dsep c))
   && existsb (fun o => match truthy (norm_to c o) with Some _ => true | None => false end) tps)
  || (f_full (c_fl c) && is_empty (c_ssep c) && match fps with [] => false | _ => true end).

Definition copy_or_shift_logic (c : cfg) (f : forest) (fps : list str) (tps : list (option str)) : outc :=
  if empty_sep_refusal false c fps tps then (f, Some ValueError) else
  match cs_validate c f fps tps with
  | Some e => (f, Some e)
  | None => run_pairs (cs_pair c) f (map (norm_from c) fps) (map (norm_to c) tps)
  end.

Definition replace_logic (c : cfg) (f : forest) (fps : list str) (tps : list (option str)) : outc :=
  if empty_sep_refusal true c fps tps then (f, Some ValueError) else
  match rp_validate c f fps tps with
  | Some e => (f, Some e)
  | None => run_pairs (rp_pair c) f (map (norm_from c) fps) (map (norm_to c) tps)
  end.

(* ---------------------------------------------------------------------------------------------- *)
(* the five public functions                                                                       *)

Inductive mop := OpShift | OpCopy | OpShiftReplace | OpCopyTT | OpReplaceTT.

Record minput := MI {
  mi_op : mop; mi_fl : mflags; mi_sep : str;
  mi_src : tree; mi_ssep : str;
  mi_dst : tree; mi_dsep : str;        (* used by the tree-to-tree functions only *)
  mi_from : list str; mi_to : list (option str) }.

Definition is_tt (o : mop) : bool := match o with OpCopyTT | OpReplaceTT => true | _ => false end.
Definition is_copy (o : mop) : bool := match o with OpShift | OpShiftReplace => false | _ => true end.
Definition is_replace (o : mop) : bool := match o with OpShiftReplace | OpReplaceTT => true | _ => false end.

Definition cfg_of (i : minput) : cfg :=
  let tt := is_tt (mi_op i) in
  let fl := mi_fl i in
  (* shift_and_replace / copy_and_replace take only skippable, delete_children, with_full_path *)
  let fl' := if is_replace (mi_op i) then MF (f_skip fl) false false false (f_dc fl) (f_full fl) else fl in
  CFG (is_copy (mi_op i)) tt (mi_sep i) (mi_ssep i) (if tt then mi_dsep i else mi_ssep i) fl'.

Definition init_forest (i : minput) : forest :=
  if is_tt (mi_op i) then [mi_src i; mi_dst i] else [mi_src i].

Definition run_from (i : minput) (f : forest) (fps : list str) (tps : list (option str)) : outc :=
  if is_replace (mi_op i) then replace_logic (cfg_of i) f fps tps
  else copy_or_shift_logic (cfg_of i) f fps tps.

(* one call with the whole pair list *)
Definition run (i : minput) : outc := run_from i (init_forest i) (mi_from i) (mi_to i).

(* the same pairs, one call per pair, stopping at the first exception *)
Fixpoint run_seq_from (i : minput) (f : forest) (fps : list str) (tps : list (option str)) : outc :=
  match fps, tps with
  | fp :: fps', tp :: tps' =>
      match run_from i f [fp] [tp] with
      | (f1, None) => run_seq_from i f1 fps' tps'
      | r => r
      end
  | _, _ => (f, None)
  end.
Definition run_seq (i : minput) : outc := run_seq_from i (init_forest i) (mi_from i) (mi_to i).

(* what the harness observes: the tree object(s) handed to the call *)
Definition piece (f : forest) (k : nat) : tree := nth k f (T None [] [] []).

(* U1-U3 *)
Definition unmodelled (o : outc) : bool :=
  match snd o with Some Unmodelled => true | _ => false end.
