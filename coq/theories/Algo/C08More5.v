(* C08, round 5: delete_children + copy on a forest with a second piece (the situation after the   *)
(* overriding detach of an existing destination: piece 1 is the detached destination D).          *)
From BT Require Import Base.Prelude Base.Str Base.StrSep Base.Rose Algo.Modify Spec.PC08 Corr.ModifyCorr Algo.ModifyProofs Algo.C08More Algo.C08More2.
From Coq Require Import List Arith Lia Bool.
Import ListNotations.

Lemma attach_dc_copy_two_stmt c t D p q x ks :
  dc_copy c -> p <> [] -> tget t p = Some x -> (exists PX, tpath t p = Some PX) ->
  fkids q (tkids t) = Some ks -> (forall k, In k ks -> tname k <> tname x) ->
  exists rest,
  attach c false [t; D] (0 :: p) (Some (0 :: q)) = (t_append q (set_kids (retag x) []) t :: D :: rest, None).
Proof.
  intros [Hc Hmc Hml Hdc] Hp Hx [PX HPX] Hks Hfresh. unfold attach. rewrite Hc, Hml, Hdc. cbn [orb andb negb].
  unfold copy_node. cbn [nth_error length option_map]. change ([t; D] ++ [retag t]) with [t; D; retag t].
  set (cp := retag t).
  assert (Hxc : tget cp p = Some (retag x)).
  { unfold tget, cp. rewrite tkids_retag, fget_retag. unfold tget in Hx. rewrite Hx. reflexivity. }
  assert (HPc : tpath cp p = Some PX).
  { unfold tpath, cp. rewrite tname_retag, tkids_retag, fpath_retag. exact HPX. }
  assert (Hkc : fkids p (tkids cp) = Some (tkids (retag x))).
  { rewrite fkids_fget by exact Hp. unfold tget in Hxc. rewrite Hxc. reflexivity. }
  unfold del_children.
  replace (fkids (2 :: p) [t; D; cp]) with (Some (tkids (retag x))) by (symmetry; exact Hkc).
  destruct (del_children_go_piece (nroots c) [t; D] (tkids (retag x)) cp [] p [] (fun z => z) Hp (ex_intro _ PX HPc))
    as [trk' [Hgo [Hk1 Hk2]]].
  rewrite (t_setk_id p cp _ Hkc) in Hgo. cbn [app length] in Hgo.
  match goal with |- context [del_children_go ?x1 ?x2 ?x3 ?x4 ?x5] =>
    replace (del_children_go x1 x2 x3 x4 x5) with (MvOk (t :: D :: t_setk p [] cp :: tkids (retag x)) trk')
      by (symmetry; exact Hgo) end.
  cbn [length] in Hk1, Hk2.
  rewrite (Hk1 p (or_intror eq_refl) eq_refl). cbn [option_map]. rewrite (Hk2 0 q ltac:(lia) eq_refl).
  set (c1 := t_setk p [] cp). set (y := set_kids (retag x) []).
  assert (Hy : tget c1 p = Some y).
  { unfold tget, c1, t_setk. rewrite tkids_set_kids. apply fget_fsetk_self. exact Hxc. }
  unfold move.
  assert (Hg : fget (2 :: p) (t :: D :: c1 :: tkids (retag x)) = Some y).
  { cbn [fget nth_error]. destruct p as [|j p]; [congruence|]. exact Hy. }
  rewrite Hg. cbn [is_prefix Nat.eqb andb].
  replace (fkids (0 :: q) (t :: D :: c1 :: tkids (retag x))) with (Some ks) by (symmetry; exact Hks).
  unfold y at 1. rewrite tname_set_kids, tname_retag. rewrite dup_child_false by exact Hfresh.
  assert (Hprot : protected (nroots c) (2 :: p) = false) by (destruct p; [congruence|reflexivity]).
  rewrite Hprot.
  assert (Hadj : adj' (2 :: p) (0 :: q) = 0 :: q) by (unfold adj'; destruct p; [congruence|reflexivity]).
  rewrite Hadj.
  assert (Hrem : fremove (2 :: p) (t :: D :: c1 :: tkids (retag x)) = t :: D :: t_remove p c1 :: tkids (retag x))
    by (destruct p; [congruence|reflexivity]).
  rewrite Hrem.
  replace (fkids (0 :: q) (t :: D :: t_remove p c1 :: tkids (retag x))) with (Some ks) by (symmetry; exact Hks).
  eexists. reflexivity.
Qed.

(* copy_nodes, overriding + delete_children, existing destination D (same name as x, neither inside the other): *)
(* D is detached (piece 1), a fresh childless copy of x becomes the last child of D's parent, x stays.        *)
Theorem C08_override_dc_copy_stmt sep tsep fl t p d x D PX PD :
  f_over fl = true -> f_mc fl = false -> f_ml fl = false -> f_dc fl = true -> wf_t t ->
  p <> [] -> d <> [] -> tget t p = Some x -> tget t d = Some D ->
  tpath t p = Some PX -> tpath t d = Some PD ->
  pfx PX PD = false -> pfx PD PX = false -> tname D = tname x ->
  let t2 := t_append (removelast d) (set_kids (retag x) []) (t_remove d t) in
  (exists rest, cs_core (cfg_same true sep tsep fl) [t] (0 :: p) (TNode (0 :: d)) = (t2 :: D :: rest, None))
  /\ rows t2 = insert_last (minus (rows t) PD) (removelast PD) [(PD, None, tattrs x)]
  /\ tget (t_remove d t) (adj' d p) = Some x
  /\ tpath (t_remove d t) (adj' d p) = Some PX.
Proof.
  intros Hov Hmc Hml Hdc Hwf Hp Hd Hx HD HPX HPD Hn1 Hn2 Hname.
  set (c := cfg_same true sep tsep fl).
  assert (Hpd : is_prefix p d = false) by (eapply not_pfx_not_prefix; eassumption).
  assert (Hdp : is_prefix d p = false) by (eapply not_pfx_not_prefix; eassumption).
  set (t' := t_remove d t). set (p1 := adj' d p). set (q1 := removelast d). set (PQ := removelast PD).
  assert (Hwf' : wf_t t') by (apply wf_t_remove; exact Hwf).
  assert (HPQ : tpath t q1 = Some PQ) by (apply fpath_removelast; assumption).
  assert (HPX' : tpath t' p1 = Some PX).
  { unfold tpath, t', t_remove. rewrite tname_set_kids, tkids_set_kids. unfold p1.
    unfold tget in HD. rewrite (fpath_adj _ _ _ _ _ HD Hdp). exact HPX. }
  assert (HPQ' : tpath t' q1 = Some PQ).
  { unfold tpath, t', t_remove. rewrite tname_set_kids, tkids_set_kids.
    unfold q1. rewrite <- (adj'_parent d Hd). unfold tget in HD.
    rewrite (fpath_adj _ _ _ _ _ HD (is_prefix_removelast_false d Hd)). exact HPQ. }
  assert (Hx' : tget t' p1 = Some x).
  { unfold tget, t', t_remove. rewrite tkids_set_kids. unfold p1. unfold tget in HD, Hx.
    rewrite (fget_adj _ _ _ _ HD Hdp Hpd). exact Hx. }
  assert (Hp1 : p1 <> []) by (apply adj'_nonempty; exact Hp).
  destruct (fget_rows _ _ _ _ _ (wf_t_kids _ Hwf) HD HPD) as [P0d [HP0d _]].
  assert (HPDe : PD = PQ ++ [tname x]).
  { unfold PQ. rewrite HP0d, removelast_last, Hname. reflexivity. }
  assert (Hrs : rows t' = minus (rows t) PD) by (unfold t'; apply (rows_t_remove t d PD Hwf Hd HPD)).
  destruct (fkids_of_fpath _ _ _ _ HPQ') as [kq Hkq].
  assert (Hfresh : forall k, In k kq -> tname k <> tname x).
  { apply existsb_name_iff. rewrite <- (t_has_child t' q1 PQ kq (tname x) Hwf' HPQ' Hkq).
    rewrite Hrs, <- HPDe. apply has_minus_self. }
  destruct (attach_dc_copy_two_stmt c t' D p1 q1 x kq) as [rest Hatt]; try assumption.
  { split; assumption || reflexivity. }
  { exists PX. exact HPX'. }
  split; [|split; [|split; assumption]].
  - exists rest. unfold cs_core. rewrite more_ref_neq.
    2: { intros E. subst d. rewrite is_prefix_refl in Hpd. discriminate. }
    change (f_mc (c_fl c)) with (f_mc fl). change (f_ml (c_fl c)) with (f_ml fl).
    change (f_over (c_fl c)) with (f_over fl). rewrite Hmc, Hml, Hov. cbn [negb]. unfold detach_to_parent.
    pose proof (detach_in_tree (nroots c) t [] d D Hd HD) as Hm.
    match goal with |- context [move ?a ?b ?c0 ?e] =>
      replace (move a b c0 e) with (MvOk ((t_remove d t :: []) ++ [D]) (track (0 :: d) [1])) by (symmetry; exact Hm) end.
    cbn [app].
    assert (Hfr1 : track (0 :: d) [1] (0 :: p) = 0 :: p1).
    { unfold track. rewrite is_prefix_cons. cbn [Nat.eqb andb]. rewrite Hdp. apply adj'_cons0; assumption. }
    assert (Htn : option_map (track (0 :: d) [1]) (parent_ref (0 :: d)) = Some (0 :: q1)).
    { destruct d as [|d0 d']; [congruence|]. cbn [parent_ref option_map].
      change (removelast (0 :: d0 :: d')) with (0 :: removelast (d0 :: d')).
      unfold track. rewrite is_prefix_cons. cbn [Nat.eqb andb].
      rewrite (is_prefix_removelast_false (d0 :: d')) by discriminate.
      rewrite adj'_cons0; [|discriminate|apply is_prefix_removelast_false; discriminate].
      rewrite adj'_parent by discriminate. reflexivity. }
    rewrite Hfr1, Htn. exact Hatt.
  - fold t' q1. rewrite (rows_t_append t' q1 _ PQ Hwf' HPQ'), Hrs, rows_from_eq, tname_set_kids, ttag_set_kids, tattrs_set_kids,
      tkids_set_kids, tname_retag, <- HPDe. destruct x; reflexivity.
Qed.
