(* C06, textual half, fifth round: quoted attribute KEYS one level above C06More4 -- the whole node tail
   (the bracketed attribute list as the writer emits it, prefix included, or nothing when no requested key is
   present) read by the parser from the state in which the node's label has been accumulated, ending in the
   `ready` state of the tree-level chain of C06More2 (node_tail_v / core2q), and the complete write / parse
   round trip of a one-node tree, for ANY keys (no key_ok, no distinctness). *)
From BT Require Import Base.Prelude Base.Str Base.Rose Algo.TextIO Spec.PC06Text Algo.TextIOProofs Algo.C06More2
  Algo.C06More4.

Local Open Scope N_scope.

Lemma node_tail_k inter len keys pf isroot a (ab : list tree) rest cu be d ctr cum0 nm ctr' :
  skip_len len isroot = true ->
  Forall key_storable (kvs_of keys a) ->
  create_node on_last (laF inter len keys pf) false cum0 ctr ab cu = Ret (ctr', cu ++ [T None nm [] ab]) ->
  exists s',
    nw_run (laF inter len keys pf) pf (attr_text keys pf a ++ rest) (St ab cu be d ctr cum0)
    = nw_run (laF inter len keys pf) pf rest s'
    /\ ready inter len keys pf s' cu be d ctr'
             (T None nm (set_all (rqk_kvs (kvs_of keys a)) []) ab).
Proof.
  intros Esk Hkv Hcreate.
  set (la := laF inter len keys pf) in *.
  unfold attr_text.
  destruct (kvs_of keys a) as [|kv kvs] eqn:Ekv.
  - cbn [app].
    eexists. split; [reflexivity|].
    unfold ready, St. cbn [p_state p_val p_skip p_below p_depth p_has p_cum p_ctr p_above p_cur rqk_kvs set_all fold_left map].
    repeat split.
    + exact Hcreate.
    + intros ->. reflexivity.
  - cbn [app]. rewrite <- !app_assoc. rewrite run_cons.
    assert (Hstep : forall rest', nw_step la pf 91 (pf ++ rest') (St ab cu be d ctr cum0)
                    = Ret (mkP [] (cu ++ [T None nm [] ab]) be d ctr' PName true [] [] (length pf))).
    { intros rest'. unfold nw_step, St. cbn [N.eqb Pos.eqb orb andb]. rewrite startswith_app.
      rewrite Hcreate. reflexivity. }
    rewrite Hstep. rewrite run_skip.
    rewrite <- Ekv in *.
    assert (Hne_kv : kvs_of keys a <> []) by (rewrite Ekv; discriminate).
    cbn [app].
    rewrite (items_run_any la pf (kvs_of keys a) rest cu be d ctr' None nm [] ab Hne_kv Hkv).
    eexists. split; [reflexivity|].
    unfold ready. cbn [p_state p_val p_skip p_below p_depth p_has p_cum p_ctr p_above p_cur app].
    repeat split.
    intros ->. cbn [app]. reflexivity.
Qed.

(* one-node tree, no branch length or root: writer and parser composed, any label, any keys *)
Theorem leaf_roundtrip_any_keys inter len keys pf isroot g n a :
  skip_len len isroot = true -> n <> [] ->
  vals_ok keys a -> Forall key_storable (kvs_of keys a) ->
  nw_write (cfgF inter len keys pf) isroot (T g n a []) = Ret (serialize n ++ attr_text keys pf a)
  /\ nw_parse (laF inter len keys pf) pf (serialize n ++ attr_text keys pf a)
     = Ret (T None (requote n) (set_all (rqk_kvs (kvs_of keys a)) []) []).
Proof.
  intros Esk Hn Hv Hk. split.
  - cbn [nw_write].
    rewrite (name_str_q inter len keys pf isroot (is_nil (@nil tree)) n a).
    + rewrite (attr_str_q inter len keys pf a Hv). unfold name_text, len_text. rewrite Esk.
      cbn [is_nil]. rewrite orb_true_r. rewrite app_nil_r. reflexivity.
    + intros E. rewrite E in Esk. discriminate.
  - assert (Hne : serialize n ++ attr_text keys pf a <> []).
    { unfold serialize. destruct (has_special n); [discriminate|]. destruct n; [contradiction|discriminate]. }
    assert (Hp : forall s, s <> [] ->
               nw_parse (laF inter len keys pf) pf s
               = match nw_run (laF inter len keys pf) pf s p_init with
                 | Raise e => Raise e
                 | Ret st => nw_finish (laF inter len keys pf) st
                 end).
    { intros [|c0 s0] Hs; [contradiction|reflexivity]. }
    rewrite (Hp _ Hne). clear Hp Hne.
    change p_init with (St [] [] [] 1 0 []).
    rewrite (run_name_q (laF inter len keys pf) pf n _ [] [] [] 1%Z 0%nat).
    destruct (node_tail_k inter len keys pf isroot a [] [] [] [] 1%Z 0%nat (requote n) (requote n) 0%nat Esk Hk)
      as (s' & E & Rd).
    { apply create_plain; [apply requote_nonempty; exact Hn|reflexivity]. }
    rewrite app_nil_r in E. rewrite E. cbn [nw_run].
    apply (ready_finish inter len keys pf s' [] 0%nat _ Rd).
Qed.
