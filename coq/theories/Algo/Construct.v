(* Executable model of the path-based constructors of bigtree/tree/construct.py (C05).
   No proofs in this file (see ConstructProofs.v).

   A tree being extended is a `tree` of Base/Rose.v whose pre-existing node objects carry
   `Some i`; node objects created by a call carry `None`.  A node object is addressed by its
   position (list of child indices from the root): positions of existing nodes never change
   because the code only ever appends a new child at the end of a children list. *)
From BT Require Import Base.Prelude Base.Str Base.Rose.

Definition row := (str * attrs)%type.       (* one (path | name, attribute dict) entry *)

Definition is_nil {A} (l : list A) : bool := match l with [] => true | _ => false end.

(* ---------------------------------------------------------------------------------------- *)
(* Python dict with str keys as an association list in insertion order                        *)

Fixpoint attr_set (a : attrs) (k : str) (v : val) : attrs :=
  match a with
  | [] => [(k, v)]
  | (k', v') :: r => if str_eqb k' k then (k', v) :: r else (k', v') :: attr_set r k v
  end.

(* dict.update(new) / basenode.py:643-657 set_attrs: self.__dict__.update(attrs) *)
Definition set_attrs (a new : attrs) : attrs :=
  fold_left (fun acc kv => attr_set acc (fst kv) (snd kv)) new a.

Fixpoint attr_get (a : attrs) (k : str) : option val :=
  match a with
  | [] => None
  | (k', v) :: r => if str_eqb k' k then Some v else attr_get r k
  end.

(* dict(rows): a key keeps the position of its first insertion and the value of its last one *)
Fixpoint dict_set (d : list row) (k : str) (v : attrs) : list row :=
  match d with
  | [] => [(k, v)]
  | (k', v') :: r => if str_eqb k' k then (k', v) :: r else (k', v') :: dict_set r k v
  end.
Definition dict_of_rows (rows : list row) : list row :=
  fold_left (fun d kv => dict_set d (fst kv) (snd kv)) rows [].

Fixpoint dict_get (d : list row) (k : str) : option attrs :=
  match d with
  | [] => None
  | (k', v) :: r => if str_eqb k' k then Some v else dict_get r k
  end.

(* ---------------------------------------------------------------------------------------- *)
(* bigtree/utils/assertions.py                                                                *)

(* isnull (assertions.py): None or float NaN; the harness only ever feeds None as a null *)
Definition isnull (v : val) : bool := match v with VNone => true | _ => false end.

(* filter_attributes (assertions.py) *)
Definition filter_attributes (a : attrs) (omit_keys : list str) (omit_null_values : bool) : attrs :=
  filter (fun kv => (if omit_null_values then negb (isnull (snd kv)) else true)
                    && negb (existsb (str_eqb (fst kv)) omit_keys)) a.

(* assert_dataframe_no_duplicate_attribute: the rows are de-duplicated on (id, attributes) and an
   id that still occurs more than once raises ValueError; i.e. two rows with the same id and
   different attribute values.  Rows of a frame all carry the same columns in the same order. *)
Definition rows_conflict (r1 r2 : row) : bool :=
  str_eqb (fst r1) (fst r2) && negb (attrs_eqb (snd r1) (snd r2)).
Fixpoint has_duplicate_attribute (rows : list row) : bool :=
  match rows with
  | [] => false
  | r :: rest => existsb (rows_conflict r) rest || has_duplicate_attribute rest
  end.

Definition k_name : str := [110; 97; 109; 101]%N.     (* "name" *)
Definition default_sep : str := [47]%N.               (* "/" : Node.__init__ default *)

(* ---------------------------------------------------------------------------------------- *)
(* tree surgery by position                                                                   *)

Fixpoint upd_nth {A} (i : nat) (f : A -> A) (l : list A) : list A :=
  match l with
  | [] => []
  | x :: r => match i with 0 => f x :: r | S j => x :: upd_nth j f r end
  end.

Fixpoint upd_at (p : pos) (f : tree -> tree) (t : tree) : tree :=
  match p with
  | [] => f t
  | i :: p' => match t with T g n a ks => T g n a (upd_nth i (upd_at p' f) ks) end
  end.

(* child.parent = node: appended at the end of node's children (basenode.py:187-231) *)
Definition add_kid (c : tree) (t : tree) : tree :=
  match t with T g n a ks => T g n a (ks ++ [c]) end.

Definition set_node_attrs (new : attrs) (t : tree) : tree :=
  match t with T g n a ks => T g n (set_attrs a new) ks end.

(* names on the route from the root to position p (root first) *)
Fixpoint names_along (t : tree) (p : pos) : list str :=
  match p with
  | [] => [tname t]
  | i :: p' => tname t :: match nth_error (tkids t) i with
                          | Some k => names_along k p'
                          | None => []
                          end
  end.

(* node.py path_name: sep + sep.join(names from the root), sep = the root's separator *)
Definition path_name (tsep : str) (t : tree) (p : pos) : str :=
  tsep ++ join tsep (names_along t p).

(* search.py find_children(parent, name == ...): indices of the children carrying the name *)
Fixpoint find_idx (n : str) (i : nat) (ks : list tree) : list nat :=
  match ks with
  | [] => []
  | k :: r => (if str_eqb (tname k) n then [i] else []) ++ find_idx n (S i) r
  end.

(* search.py findall(root, name == ...): pre-order positions of the nodes carrying the name *)
Fixpoint find_all (n : str) (t : tree) : list pos :=
  match t with
  | T _ m _ ks =>
      (if str_eqb m n then [[]] else []) ++
      (fix go (i : nat) (l : list tree) : list pos :=
         match l with
         | [] => []
         | k :: r => map (cons i) (find_all n k) ++ go (S i) r
         end) 0 ks
  end.

(* pre-order index of the node at position p (how the harness reports a returned node) *)
Fixpoint sum_sizes (l : list tree) : nat :=
  match l with [] => 0 | k :: r => tsize k + sum_sizes r end.
Fixpoint pre_index (t : tree) (p : pos) : nat :=
  match p with
  | [] => 0
  | i :: p' => S (sum_sizes (firstn i (tkids t))
                  + match nth_error (tkids t) i with Some k => pre_index k p' | None => 0 end)
  end.

(* all positions, pre-order *)
Fixpoint all_pos (t : tree) : list pos :=
  match t with
  | T _ _ _ ks =>
      [] :: (fix go (i : nat) (l : list tree) : list pos :=
               match l with
               | [] => []
               | k :: r => map (cons i) (all_pos k) ++ go (S i) r
               end) 0 ks
  end.

(* ---------------------------------------------------------------------------------------- *)
(* construct.py:48-128  add_path_to_tree                                                      *)

(* One iteration of the loop 108-126.  `t` is the whole tree (root_node), `parent` the position
   of parent_node, `pref` = branch[:idx+1], `nm` = branch[idx], `last` = (idx == len(branch)-1).
   Result: the tree and the position of `node`. *)
Definition grow_step (tsep : str) (dup : bool) (t : tree) (parent : pos)
           (pref : list str) (nm : str) (last : bool) (na : attrs) : res (tree * pos) :=
  let found : res (option pos) :=
    if dup then
      (* 119: find_child_by_name(parent_node, node_name) -> find_children(..., max_count=1) *)
      match subtree_at t parent with
      | None => Raise Unmodelled
      | Some pt => match find_idx nm 0 (tkids pt) with
                   | [] => Ret None
                   | [i] => Ret (Some (parent ++ [i]))
                   | _ => Raise SearchError
                   end
      end
    else
      (* 112-117: find_name(root_node, node_name) (SearchError when ambiguous), then the
         full-path comparison of fix F4 *)
      match find_all nm t with
      | [] => Ret None
      | [p] => if str_eqb (path_name tsep t p) (tsep ++ join tsep pref)
               then Ret (Some p) else Raise DuplicatedNodeError
      | _ => Raise SearchError
      end in
  match found with
  | Raise e => Raise e
  | Ret (Some p) => Ret (t, p)
  | Ret None =>
      (* 120-125: node_type(node_name[, **node_attrs]); Node.__init__ raises TreeError on an
         empty name (node.py:76-81); node.parent = parent_node appends it as the last child *)
      if is_nil nm then Raise TreeError else
      match subtree_at t parent with
      | None => Raise Unmodelled
      | Some pt =>
          let c := T None nm (if last then set_attrs [] na else []) [] in
          Ret (upd_at parent (add_kid c) t, parent ++ [length (tkids pt)])
      end
  end.

Fixpoint grow (tsep : str) (dup : bool) (t : tree) (parent : pos) (done rest : list str)
         (na : attrs) : tree * res pos :=
  match rest with
  | [] => (t, Ret parent)
  | nm :: rest' =>
      match grow_step tsep dup t parent (done ++ [nm]) nm (is_nil rest') na with
      | Raise e => (t, Raise e)
      | Ret (t', p) => grow tsep dup t' p (done ++ [nm]) rest' na
      end
  end.

(* 98: path.lstrip(sep).rstrip(sep).split(sep) *)
Definition branch_of (path sep : str) : list str := split (rstrip (lstrip path sep) sep) sep.

(* t is tree.root, tsep its separator.  Returns the tree after the call (also when it raises:
   nodes created before the failing component stay) and the position of the returned node. *)
Definition add_path_to_tree (t : tree) (tsep : str) (path sep : str) (dup : bool) (na : attrs)
  : tree * res pos :=
  if is_nil path then (t, Raise ValueError) else        (* 93 assert_length_not_empty *)
  match branch_of path sep with
  | [] => (t, Raise Unmodelled)
  | b0 :: rest =>
      if negb (str_eqb b0 (tname t)) then (t, Raise TreeError) else       (* 99-103 *)
      match grow tsep dup t [] [b0] rest na with
      | (t', Ret p) => (upd_at p (set_node_attrs na) t', Ret p)          (* 127-128 *)
      | r => r
      end
  end.

(* a loop `for path, attrs in ...: add_path_to_tree(root, path, ...)`; positions returned so far *)
Fixpoint add_rows (t : tree) (tsep sep : str) (dup : bool) (rows : list row) (acc : list pos)
  : tree * res (list pos) :=
  match rows with
  | [] => (t, Ret (rev acc))
  | (path, na) :: rest =>
      match add_path_to_tree t tsep path sep dup na with
      | (t', Ret p) => add_rows t' tsep sep dup rest (p :: acc)
      | (t', Raise e) => (t', Raise e)
      end
  end.

(* ---------------------------------------------------------------------------------------- *)
(* constructors                                                                               *)

Fixpoint dedup_str (seen : list str) (l : list str) : list str :=
  match l with
  | [] => []
  | x :: r => if existsb (str_eqb x) seen then dedup_str seen r else x :: dedup_str (x :: seen) r
  end.

(* construct.py:653-710 list_to_tree.  Result: tree (if any), its separator, outcome. *)
Definition list_to_tree (paths : list str) (sep : str) (dup : bool) : res tree :=
  match paths with
  | [] => Raise ValueError                                             (* 696 *)
  | p0 :: _ =>
      let paths' := dedup_str [] paths in                              (* 699 OrderedDict.fromkeys *)
      let root_name := hd [] (split (lstrip p0 sep) sep) in            (* 702 *)
      if is_nil root_name then Raise TreeError else                    (* 703 Node("") *)
      let root := T None root_name [] [] in                            (* 704 root.sep = sep *)
      match add_rows root sep sep dup (map (fun p => (p, [])) paths') [] with
      | (t, Ret _) => Ret t
      | (_, Raise e) => Raise e
      end
  end.

Definition first_nonempty (l : list attrs) : attrs :=
  match filter (fun a => negb (is_nil a)) l with [] => [] | a :: _ => a end.

(* construct.py:762-849 dict_to_tree; d is a Python dict (distinct keys, insertion order) *)
Definition dict_to_tree (d : list row) (sep : str) (dup : bool) : res tree :=
  match d with
  | [] => Raise ValueError                                             (* 818 *)
  | (k0, _) :: _ =>
      let root_name := hd [] (branch_of k0 sep) in                     (* 821 *)
      let get k := match dict_get d k with Some a => a | None => [] end in
      let ra := first_nonempty [get root_name; get (sep ++ root_name);
                                get (root_name ++ sep); get (sep ++ root_name ++ sep)] in
      let ra := filter_attributes ra [k_name] false in
      if is_nil root_name then Raise TreeError else
      let root := T None root_name (set_attrs [] ra) [] in             (* sep=sep *)
      match add_rows root sep sep dup
                     (map (fun r => (fst r, filter_attributes (snd r) [k_name] false)) d) [] with
      | (t, Ret _) => Ret t
      | (_, Raise e) => Raise e
      end
  end.

(* pre-processing shared by the DataFrame entry points: strip the separator from the path column,
   refuse an id carrying two different attribute rows, drop nulls and the columns "name" / path_col *)
Definition strip_rows (rows : list row) (sep : str) : list row :=
  map (fun r => (rstrip (lstrip (fst r) sep) sep, snd r)) rows.
Definition frame_attrs (path_col : str) (a : attrs) : attrs :=
  filter_attributes a [k_name; path_col] true.

(* construct.py:930-1038 dataframe_to_tree and 1169-1275 polars_to_tree, on the row list (pandas:
   rows read with to_dict(orient="records") since fix F9, so the frame's index labels play no role).
   The root is created with the default separator "/" and gets `sep` only at the end. *)
Definition frame_to_tree (rows : list row) (path_col sep : str) (dup : bool) : res tree :=
  match strip_rows rows sep with
  | [] => Raise ValueError                                             (* assert_dataframe_not_empty *)
  | ((p0, _) :: _) as rows1 =>
      if has_duplicate_attribute rows1 then Raise ValueError else
      let root_name := hd [] (split p0 sep) in
      let kw := match filter (fun r => str_eqb (fst r) root_name) rows1 with
                | [] => []
                | r :: _ => frame_attrs path_col (snd r)
                end in
      if is_nil root_name then Raise TreeError else
      let root := T None root_name (set_attrs [] kw) [] in
      match add_rows root default_sep sep dup
                     (map (fun r => (fst r, frame_attrs path_col (snd r))) rows1) [] with
      | (t, Ret _) => Ret t
      | (_, Raise e) => Raise e
      end
  end.

(* ---------------------------------------------------------------------------------------- *)
(* in-place extension of an existing tree; t = tree.root                                      *)

(* construct.py:131-201 *)
Definition add_dict_to_tree_by_path (t : tree) (tsep : str) (d : list row) (sep : str) (dup : bool)
  : tree * res (list pos) :=
  match d with
  | [] => (t, Raise ValueError)
  | _ => add_rows t tsep sep dup d []
  end.

(* construct.py:249-344 (rows via to_dict(orient="records"), fix F9) and 417-514 *)
Definition add_frame_to_tree_by_path (t : tree) (tsep : str) (rows : list row) (path_col sep : str)
           (dup : bool) : tree * res (list pos) :=
  match strip_rows rows sep with
  | [] => (t, Raise ValueError)
  | rows1 =>
      if has_duplicate_attribute rows1 then (t, Raise ValueError) else
      add_rows t tsep sep dup (map (fun r => (fst r, frame_attrs path_col (snd r))) rows1) []
  end.

(* construct.py:204-246: every node of the given (sub)tree whose name is a key gets the attributes *)
Fixpoint by_name_apply (d : list row) (t : tree) : tree :=
  match t with
  | T g n a ks =>
      T g n (match dict_get d n with
             | Some na => set_attrs a (filter_attributes na [k_name] false)
             | None => a
             end) (map (by_name_apply d) ks)
  end.

Definition add_dict_to_tree_by_name (t : tree) (d : list row) : res tree :=
  match d with
  | [] => Raise ValueError
  | _ => Ret (by_name_apply d t)
  end.

(* drop_duplicates(name_col) / unique(subset=[name_col]): first row of every name *)
Fixpoint first_rows (seen : list str) (rows : list row) : list row :=
  match rows with
  | [] => []
  | (k, a) :: r => if existsb (str_eqb k) seen then first_rows seen r
                   else (k, a) :: first_rows (k :: seen) r
  end.

(* construct.py:347-414 and 517-582 *)
Definition add_frame_to_tree_by_name (t : tree) (rows : list row) : res tree :=
  match rows with
  | [] => Raise ValueError
  | _ =>
      if has_duplicate_attribute rows then Raise ValueError else
      let name_attrs := map (fun r => (fst r, filter (fun kv => negb (isnull (snd kv))) (snd r)))
                            (first_rows [] rows) in
      add_dict_to_tree_by_name t name_attrs
  end.

(* ---------------------------------------------------------------------------------------- *)
(* histories: add_path_to_tree calls interleaved with structural edits made through the node API
   (basenode.py parent setter 187-231, node.py __delitem__ 237-247, basenode.py sort 745-)        *)

Fixpoint pos_of_names (t : tree) (rest : list str) : option pos :=
  match rest with
  | [] => Some []
  | nm :: rest' =>
      match find_idx nm 0 (tkids t) with
      | i :: _ => match nth_error (tkids t) i with
                  | Some k => match pos_of_names k rest' with Some p => Some (i :: p) | None => None end
                  | None => None
                  end
      | [] => None
      end
  end.
(* names: the root's name first *)
Definition pos_of_path (t : tree) (p : list str) : option pos :=
  match p with
  | r :: rest => if str_eqb r (tname t) then pos_of_names t rest else None
  | [] => None
  end.

Fixpoint remove_nth {A} (i : nat) (l : list A) : list A :=
  match l with [] => [] | x :: r => match i with 0 => r | S j => x :: remove_nth j r end end.
Fixpoint remove_at (p : pos) (t : tree) : tree :=
  match p with
  | [] => t
  | [i] => match t with T g n a ks => T g n a (remove_nth i ks) end
  | i :: p' => match t with T g n a ks => T g n a (upd_nth i (remove_at p') ks) end
  end.
Fixpoint insert_sorted (k : tree) (l : list tree) : list tree :=
  match l with
  | [] => [k]
  | x :: r => if str_ltb (tname k) (tname x) then k :: l else x :: insert_sorted k r
  end.
(* list.sort(key=name) is stable; sibling names are distinct anyway *)
Definition sort_kids (t : tree) : tree :=
  match t with T g n a ks => T g n a (fold_right insert_sorted [] ks) end.


Inductive hop :=
| HAdd (path : str) (na : attrs)        (* add_path_to_tree(root, path, sep, dup, node_attrs)              *)
| HDel (p : list str)                   (* del parent[name]: the node at name path p is detached            *)
| HMove (src dst : list str)            (* node(src).parent = node(dst): appended as dst's last child       *)
| HSort (p : list str).                 (* node(p).sort(key=lambda n: n.node_name)                           *)

(* one structural edit; nodes are addressed by their name path in the tree as it is now *)
Definition hedit (t : tree) (op : hop) : option tree :=
  match op with
  | HAdd _ _ => Some t
  | HDel p => match pos_of_path t p with Some q => Some (remove_at q t) | None => None end
  | HMove src dst =>
      match pos_of_path t src with
      | Some q =>
          match subtree_at t q with
          | Some sub =>
              let t1 := remove_at q t in
              match pos_of_path t1 dst with
              | Some d => Some (upd_at d (add_kid sub) t1)
              | None => None
              end
          | None => None
          end
      | None => None
      end
  | HSort p => match pos_of_path t p with Some q => Some (upd_at q sort_kids t) | None => None end
  end.

(* the trace of a history: for every add (tree before, path, attributes, (tree after, returned position)) *)
Fixpoint hrun (tsep sep : str) (dup : bool) (t : tree) (ops : list hop)
  : list (tree * str * attrs * (tree * res pos)) :=
  match ops with
  | [] => []
  | HAdd path na :: rest =>
      let r := add_path_to_tree t tsep path sep dup na in
      (t, path, na, r) :: hrun tsep sep dup (fst r) rest
  | op :: rest =>
      match hedit t op with
      | Some t' => hrun tsep sep dup t' rest
      | None => []
      end
  end.

(* ---------------------------------------------------------------------------------------- *)
(* the entry points as one function                                                           *)

Inductive kind :=
| KList | KDict | KFrame | KPolars                       (* build a new tree                      *)
| KAddPath | KAddDict | KAddFrame | KAddPolars            (* extend an existing tree by paths       *)
| KNameDict | KNameFrame | KNamePolars.                   (* attributes by node name                *)

Record input := MkIn {
  i_sep : str;  i_dup : bool;
  i_tree : tree;  i_tsep : str;    (* the existing tree (root) and its separator; add_* kinds only *)
  i_start : pos;                   (* the node object handed over as `tree`                        *)
  i_pcol : str;                    (* name of the path / name column of a frame                    *)
  i_rows : list row }.

Record output := Out {
  o_res : option exn;              (* None = returned normally                                   *)
  o_tree : option tree;            (* whole tree from the root afterwards (None: nothing built)  *)
  o_sep : str;                     (* root.sep afterwards                                         *)
  o_rets : list pos }.             (* positions of the returned node(s)                           *)

(* attribute keys that collide with constructor parameters / properties of Node are outside the
   modelled domain where the code passes them on unfiltered *)
Definition reserved_keys : list str :=
  [k_name;
   [112; 97; 114; 101; 110; 116]%N;                      (* parent   *)
   [99; 104; 105; 108; 100; 114; 101; 110]%N;            (* children *)
   [115; 101; 112]%N;                                    (* sep      *)
   [112; 97; 114; 101; 110; 116; 115]%N].                (* parents  *)
Definition row_keys_ok (omit : list str) (r : row) : bool :=
  forallb (fun kv => existsb (str_eqb (fst kv)) omit
                     || negb (existsb (str_eqb (fst kv)) reserved_keys)) (snd r).

Definition out_new (sep : str) (r : res tree) : output :=
  match r with
  | Ret t => Out None (Some t) sep [[]]
  | Raise e => Out (Some e) None sep []
  end.
Definition out_add (tsep : str) (single : bool) (r : tree * res (list pos)) : output :=
  match r with
  | (t, Ret ps) => Out None (Some t) tsep (if single then [[]] else ps)
  | (t, Raise e) => Out (Some e) (Some t) tsep []
  end.
Definition out_name (i : input) (r : res tree) : output :=
  match r with
  | Ret sub => Out None (Some (upd_at (i_start i) (fun _ => sub) (i_tree i))) (i_tsep i) [i_start i]
  | Raise e => Out (Some e) (Some (i_tree i)) (i_tsep i) []
  end.
Definition unmodelled (i : input) : output := Out (Some Unmodelled) None (i_sep i) [].

Definition run (k : kind) (i : input) : output :=
  let rows := i_rows i in
  let sep := i_sep i in
  if is_nil sep then unmodelled i else          (* str.split("") raises; not generated *)
  match k with
  | KList => out_new sep (list_to_tree (map fst rows) sep (i_dup i))
  | KDict =>
      if forallb (row_keys_ok [k_name]) rows
      then out_new sep (dict_to_tree rows sep (i_dup i)) else unmodelled i
  | KFrame | KPolars =>
      if forallb (row_keys_ok [k_name; i_pcol i]) rows
      then out_new sep (frame_to_tree rows (i_pcol i) sep (i_dup i)) else unmodelled i
  | KAddPath =>
      if forallb (row_keys_ok []) rows
      then out_add (i_tsep i) false (add_rows (i_tree i) (i_tsep i) sep (i_dup i) rows [])
      else unmodelled i
  | KAddDict =>
      if forallb (row_keys_ok []) rows
      then out_add (i_tsep i) true (add_dict_to_tree_by_path (i_tree i) (i_tsep i) rows sep (i_dup i))
      else unmodelled i
  | KAddFrame | KAddPolars =>
      if forallb (row_keys_ok [k_name; i_pcol i]) rows
      then out_add (i_tsep i) true
                   (add_frame_to_tree_by_path (i_tree i) (i_tsep i) rows (i_pcol i) sep (i_dup i))
      else unmodelled i
  | KNameDict =>
      if forallb (row_keys_ok [k_name]) rows
      then match subtree_at (i_tree i) (i_start i) with
           | Some sub => out_name i (add_dict_to_tree_by_name sub rows)
           | None => unmodelled i
           end
      else unmodelled i
  | KNamePolars =>
      (* polars' rows_by_key raises inside polars (zip of an empty value list) when the frame has
         no attribute column at all: library glue, outside the modelled domain *)
      if forallb (row_keys_ok [k_name]) rows && negb (forallb (fun r => is_nil (snd r)) rows && negb (is_nil rows))
      then match subtree_at (i_tree i) (i_start i) with
           | Some sub => out_name i (add_frame_to_tree_by_name sub rows)
           | None => unmodelled i
           end
      else unmodelled i
  | KNameFrame =>
      if forallb (row_keys_ok [k_name]) rows
      then match subtree_at (i_tree i) (i_start i) with
           | Some sub => out_name i (add_frame_to_tree_by_name sub rows)
           | None => unmodelled i
           end
      else unmodelled i
  end.

(* How the harness turns one row list into the argument of each entry point:
   the dict-taking entry points receive dict(rows); the frame-taking ones a frame whose columns
   are the attribute keys in order of first appearance, a missing cell being null. *)
Definition is_dict_kind (k : kind) : bool :=
  match k with KDict | KAddDict | KNameDict => true | _ => false end.
Definition is_frame_kind (k : kind) : bool :=
  match k with
  | KFrame | KPolars | KAddFrame | KAddPolars | KNameFrame | KNamePolars => true
  | _ => false
  end.
Definition columns_of (rows : list row) : list str :=
  dedup_str [] (flat_map (fun r => map fst (snd r)) rows).
Definition frame_of_rows (rows : list row) : list row :=
  let cols := columns_of rows in
  map (fun r => (fst r, map (fun c => (c, match attr_get (snd r) c with Some v => v | None => VNone end))
                            cols)) rows.
Definition with_rows (i : input) (rows : list row) : input :=
  MkIn (i_sep i) (i_dup i) (i_tree i) (i_tsep i) (i_start i) (i_pcol i) rows.
Definition eff_input (k : kind) (i : input) : input :=
  if is_dict_kind k then with_rows i (dict_of_rows (i_rows i))
  else if is_frame_kind k then with_rows i (frame_of_rows (i_rows i))
  else i.
