(* Proofs about the rendering models (Algo/Render.v, HRender.v, Dot.v) against Spec/PC18.v. *)
From BT Require Import Base.Prelude Base.Str Base.Rose Algo.Render Algo.HRender Algo.Dot Spec.PC18.

(* ============================================================================================== *)
(* 0. small list facts *)

Lemma all2_map_r {A B} (f : A -> B -> bool) (g : A -> B) (l : list A) :
  (forall x, In x l -> f x (g x) = true) -> all2 f l (map g l) = true.
Proof.
  induction l as [|x l IH]; intros H; cbn; [reflexivity|].
  rewrite H by (left; reflexivity). cbn. apply IH. intros y Hy. apply H. right. exact Hy.
Qed.

Lemma list_eqb_refl {A} (e : A -> A -> bool) (l : list A) :
  (forall x, e x x = true) -> list_eqb e l l = true.
Proof. intros H. induction l as [|x l IH]; cbn; [reflexivity|]. rewrite H, IH. reflexivity. Qed.

Lemma map_seq_nth {A B} (f : nat -> B) (g : A -> B) (d : A) (l : list A) (off : nat) :
  (forall k, k < length l -> f (off + k) = g (nth k l d)) ->
  map f (seq off (length l)) = map g l.
Proof.
  revert off. induction l as [|x l IH]; intros off H; cbn; [reflexivity|].
  f_equal.
  - specialize (H 0 (Nat.lt_0_succ _)). rewrite Nat.add_0_r in H. exact H.
  - apply IH. intros k Hk. specialize (H (S k)). cbn in H.
    rewrite <- plus_n_Sm in H. apply H. lia.
Qed.

(* ============================================================================================== *)
(* 1. vertical rendering: the loop with the set `unclosed_depth` draws exactly the rows of the spec *)

Lemma umem_uadd k n u : umem k (uadd n u) = Nat.eqb k n || umem k u.
Proof.
  unfold uadd. destruct (umem n u) eqn:E.
  - destruct (Nat.eqb k n) eqn:K; [|reflexivity]. apply Nat.eqb_eq in K. subst. cbn. exact E.
  - reflexivity.
Qed.

Lemma umem_uremove k n u : umem k (uremove n u) = negb (Nat.eqb k n) && umem k u.
Proof.
  unfold uremove, umem. induction u as [|x u IH]; cbn.
  - rewrite andb_false_r. reflexivity.
  - destruct (Nat.eqb n x) eqn:E; cbn.
    + apply Nat.eqb_eq in E. subst x. rewrite IH. destruct (Nat.eqb k n); reflexivity.
    + rewrite IH. destruct (Nat.eqb k x) eqn:K; cbn; [|reflexivity].
      apply Nat.eqb_eq in K. subst x.
      destruct (Nat.eqb k n) eqn:K2; [|reflexivity].
      apply Nat.eqb_eq in K2. subst. rewrite Nat.eqb_refl in E. discriminate.
Qed.

(* the standalone form of the nested fixpoints *)
Definition vnodes_kids (d : nat) (ks : list tree) : list vnode :=
  (fix go (l : list tree) : list vnode :=
     match l with
     | [] => []
     | k :: r => vnodes (S d) (match r with [] => false | _ => true end) k ++ go r
     end) ks.

Definition vrows_kids (d : nat) (anc : list bool) (ks : list tree) : list vrow :=
  (fix go (l : list tree) : list vrow :=
     match l with
     | [] => []
     | k :: r => vrows (S d) anc (has_next r) k ++ go r
     end) ks.

Lemma vnodes_eq d sib g n a ks : vnodes d sib (T g n a ks) = VN d sib n :: vnodes_kids d ks.
Proof. reflexivity. Qed.
Lemma vnodes_kids_cons d k r :
  vnodes_kids d (k :: r) = vnodes (S d) (has_next r) k ++ vnodes_kids d r.
Proof. reflexivity. Qed.
Lemma vrows_eq d anc sib g n a ks :
  vrows d anc sib (T g n a ks) = VR d anc sib n :: vrows_kids d (anc ++ [sib]) ks.
Proof. reflexivity. Qed.
Lemma vrows_kids_cons d anc k r :
  vrows_kids d anc (k :: r) = vrows (S d) anc (has_next r) k ++ vrows_kids d anc r.
Proof. reflexivity. Qed.
Lemma vrows_root_eq t : vrows_root t = vrows_kids 0 [] (tkids t).
Proof. reflexivity. Qed.

(* the line the spec prescribes for a row *)
Definition vline_of (st : vstyle) (r : vrow) : vline :=
  (concat (map (vcell st) (vr_anc r)), if vr_sib r then vs_branch st else vs_final st, vr_name r).

(* the set agrees with the sibling flags of the ancestors: level k+1 is in the set iff flag k *)
Definition agree (u : uset) (anc : list bool) : Prop :=
  forall k, k < length anc -> umem (S k) u = nth k anc false.

Lemma agree_prefix u anc x : agree u (anc ++ [x]) -> agree u anc.
Proof.
  intros H k Hk. rewrite (H k) by (rewrite app_length; cbn; lia).
  rewrite app_nth1 by exact Hk. reflexivity.
Qed.

Lemma vloop_app st u l1 : forall l2,
  vloop st u (l1 ++ l2) =
  vloop st u l1 ++ vloop st (fold_left (fun u x => fst (vstep st u x)) l1 u) l2.
Proof.
  revert u. induction l1 as [|x l1 IH]; intros u l2; cbn [app vloop fold_left]; [reflexivity|].
  destruct (vstep st u x) as [u' ln] eqn:E. cbn [fst]. rewrite IH. reflexivity.
Qed.

Section Vertical.
  Variable st : vstyle.

  (* one step at depth S (length anc) *)
  Lemma vstep_spec u anc sib n :
    agree u anc ->
    exists u', vstep st u (VN (S (length anc)) sib n) = (u', vline_of st (VR (S (length anc)) anc sib n))
               /\ agree u' (anc ++ [sib]).
  Proof.
    intros Hu.
    set (d := S (length anc)).
    set (u' := if sib then uadd d u else uremove d u).
    exists u'. split.
    - assert (HM : map (fun k => if umem k u' then vs_stem st else vs_gap st) (seq 1 (length anc))
                   = map (vcell st) anc).
      { apply (map_seq_nth (fun k => if umem k u' then vs_stem st else vs_gap st) (vcell st) false anc 1).
        intros k Hk. cbn [Nat.add]. unfold vcell.
        replace (umem (S k) u') with (nth k anc false); [reflexivity|].
        rewrite <- (Hu k Hk). unfold u'. destruct sib.
        + rewrite umem_uadd. replace (Nat.eqb (S k) d) with false; [reflexivity|].
          symmetry. apply Nat.eqb_neq. unfold d. lia.
        + rewrite umem_uremove. replace (Nat.eqb (S k) d) with false; [reflexivity|].
          symmetry. apply Nat.eqb_neq. unfold d. lia. }
      unfold vstep. cbn [vn_depth vn_sib vn_name]. fold d. fold u'.
      replace (d - 1) with (length anc) by (unfold d; lia).
      rewrite HM. reflexivity.
    - intros k Hk. rewrite app_length in Hk. cbn in Hk.
      destruct (Nat.eq_dec k (length anc)) as [->|Hne].
      + rewrite nth_middle. fold d. unfold u'. destruct sib.
        * rewrite umem_uadd, Nat.eqb_refl. reflexivity.
        * rewrite umem_uremove, Nat.eqb_refl. reflexivity.
      + assert (Hk' : k < length anc) by lia.
        rewrite app_nth1 by exact Hk'. rewrite <- (Hu k Hk'). unfold u'. destruct sib.
        * rewrite umem_uadd. replace (Nat.eqb (S k) d) with false; [reflexivity|].
          symmetry. apply Nat.eqb_neq. unfold d. lia.
        * rewrite umem_uremove. replace (Nat.eqb (S k) d) with false; [reflexivity|].
          symmetry. apply Nat.eqb_neq. unfold d. lia.
  Qed.

  Definition tree_ok (t : tree) : Prop :=
    forall anc sib u, agree u anc ->
      exists u', agree u' (anc ++ [sib]) /\
        forall rest, vloop st u (vnodes (S (length anc)) sib t ++ rest)
                     = map (vline_of st) (vrows (S (length anc)) anc sib t) ++ vloop st u' rest.

  Definition kids_ok (ks : list tree) : Prop :=
    forall anc u, agree u anc ->
      exists u', agree u' anc /\
        forall rest, vloop st u (vnodes_kids (length anc) ks ++ rest)
                     = map (vline_of st) (vrows_kids (length anc) anc ks) ++ vloop st u' rest.

  Lemma kids_ok_of_forall ks : Forall tree_ok ks -> kids_ok ks.
  Proof.
    induction 1 as [|k r Hk Hr IH]; intros anc u Hu.
    - exists u. split; [exact Hu|]. intros rest. reflexivity.
    - destruct (Hk anc (has_next r) u Hu) as [u1 [Hu1 E1]].
      destruct (IH anc u1 (agree_prefix _ _ _ Hu1)) as [u2 [Hu2 E2]].
      exists u2. split; [exact Hu2|]. intros rest.
      rewrite vnodes_kids_cons, vrows_kids_cons, <- app_assoc, E1, E2, map_app, <- app_assoc.
      reflexivity.
  Qed.

  Lemma tree_ok_all t : tree_ok t.
  Proof.
    induction t as [g n a ks IH] using tree_ind'. intros anc sib u Hu.
    destruct (vstep_spec u anc sib n Hu) as [u1 [E1 Hu1]].
    pose proof (kids_ok_of_forall ks IH) as HK.
    specialize (HK (anc ++ [sib]) u1 Hu1). destruct HK as [u2 [Hu2 E2]].
    exists u2. split; [exact Hu2|]. intros rest.
    rewrite vnodes_eq, vrows_eq. cbn [app vloop map]. rewrite E1.
    f_equal. replace (S (length anc)) with (length (anc ++ [sib])) by (rewrite app_length; cbn; lia).
    apply E2.
  Qed.

  (* the whole loop *)
  Theorem yield_lines_spec t :
    yield_lines st t = ([], [], tname t) :: map (vline_of st) (vrows_root t).
  Proof.
    destruct t as [g n a ks]. unfold yield_lines. rewrite vnodes_eq. cbn [vloop vstep vn_depth vn_name tname].
    f_equal. rewrite vrows_root_eq. cbn [tkids].
    assert (H0 : agree [] []) by (intros k Hk; cbn in Hk; lia).
    destruct (kids_ok_of_forall ks (proj2 (Forall_forall _ _) (fun x _ => tree_ok_all x)) [] [] H0)
      as [u' [_ E]].
    specialize (E []). cbn [length] in E. cbn [vloop] in E. rewrite ?app_nil_r in E. exact E.
  Qed.
End Vertical.

(* ---- consequences: the clauses of PC18 ---- *)

Lemma yield_lines_tl st t : tl (yield_lines st t) = map (vline_of st) (vrows_root t).
Proof. rewrite yield_lines_spec. reflexivity. Qed.

Lemma v_fill_model st t : v_fill st t (yield_lines st t) = true.
Proof.
  unfold v_fill. rewrite yield_lines_tl. apply all2_map_r. intros r _.
  unfold v_fill_row, vline_of. apply str_eqb_refl.
Qed.

Lemma v_stems_model st t : v_stems st t (yield_lines st t) = true.
Proof.
  unfold v_stems. rewrite yield_lines_tl. apply all2_map_r. intros r _.
  unfold v_stems_row, vline_of. apply str_eqb_refl.
Qed.

(* names in pre-order *)
Definition pre_kids (ks : list tree) : list tree := flat_map pre ks.

Lemma vrows_names : forall t d anc sib, map vr_name (vrows d anc sib t) = map tname (pre t).
Proof.
  induction t as [g n a ks IH] using tree_ind'. intros d anc sib.
  rewrite vrows_eq. cbn [map vr_name pre tname]. f_equal.
  generalize (anc ++ [sib]) as anc'. intros anc'.
  induction IH as [|k r Hk Hr IHr]; [reflexivity|].
  rewrite vrows_kids_cons. cbn [flat_map]. rewrite !map_app, Hk, IHr. reflexivity.
Qed.

Lemma vrows_kids_names ks d anc : map vr_name (vrows_kids d anc ks) = map tname (flat_map pre ks).
Proof.
  induction ks as [|k r IH]; [reflexivity|].
  rewrite vrows_kids_cons. cbn [flat_map]. rewrite !map_app, vrows_names, IH. reflexivity.
Qed.

Lemma v_lines_preorder_model st t : v_lines_preorder t (yield_lines st t) = true.
Proof.
  unfold v_lines_preorder. rewrite yield_lines_spec. destruct t as [g n a ks].
  cbn [map snd pre tname]. rewrite map_map.
  replace (map (fun x => snd (vline_of st x)) (vrows_root (T g n a ks)))
    with (map vr_name (vrows_root (T g n a ks))) by (apply map_ext; intros r; reflexivity).
  rewrite vrows_root_eq, vrows_kids_names. cbn [tkids]. cbn [list_eqb].
  rewrite str_eqb_refl. cbn. apply list_eqb_refl. apply str_eqb_refl.
Qed.

(* every row records its depth consistently with the number of ancestor flags *)
Lemma vrows_depth : forall t anc sib r,
  In r (vrows (S (length anc)) anc sib t) -> vr_depth r = S (length (vr_anc r)).
Proof.
  induction t as [g n a ks IH] using tree_ind'. intros anc sib r Hr.
  rewrite vrows_eq in Hr. destruct Hr as [<-|Hr]; [reflexivity|].
  assert (HL : S (length anc) = length (anc ++ [sib])) by (rewrite app_length; cbn; lia).
  rewrite HL in Hr. revert Hr. generalize (anc ++ [sib]) as anc'. intros anc' Hr.
  induction IH as [|k ks' Hk Hks IHk]; [destruct Hr|].
  rewrite vrows_kids_cons in Hr. apply in_app_or in Hr as [Hr|Hr].
  - eapply Hk. exact Hr.
  - apply IHk. exact Hr.
Qed.

Lemma vrows_root_depth t r : In r (vrows_root t) -> vr_depth r = S (length (vr_anc r)).
Proof.
  rewrite vrows_root_eq. generalize (tkids t) as ks. intros ks Hr.
  induction ks as [|k ks IH]; [destruct Hr|].
  rewrite vrows_kids_cons in Hr. apply in_app_or in Hr as [Hr|Hr].
  - apply (vrows_depth k [] _ r Hr).
  - apply IH. exact Hr.
Qed.

Lemma length_cells st anc : length (concat (map (vcell st) anc)) = vs_width st * length anc.
Proof.
  induction anc as [|b anc IH]; cbn [map concat length]; [lia|].
  rewrite app_length, IH. unfold vcell, vs_gap, vs_width, spaces.
  destruct b; [|rewrite repeat_length]; lia.
Qed.

Lemma v_indent_model st t : vstyle_ok st = true -> v_indent st t (yield_lines st t) = true.
Proof.
  intros Hok. unfold v_indent. apply andb_true_iff. split.
  - rewrite yield_lines_spec. reflexivity.
  - rewrite yield_lines_tl. apply all2_map_r. intros r Hr.
    unfold v_indent_row, vline_of. apply andb_true_iff. split; apply Nat.eqb_eq.
    + rewrite length_cells, (vrows_root_depth t r Hr). cbn [Nat.sub]. rewrite Nat.sub_0_r. reflexivity.
    + unfold vstyle_ok in Hok. apply andb_true_iff in Hok as [H1 H2].
      apply Nat.eqb_eq in H1. apply Nat.eqb_eq in H2. unfold vs_width. destruct (vr_sib r); lia.
Qed.

(* ---- decoding ---- *)

(* pre-order (depth, name) listing of a forest *)
Fixpoint plist (e : nat) (t : tree) : list (nat * str) :=
  match t with
  | T _ n _ ks =>
      (e, n) :: (fix go (l : list tree) : list (nat * str) :=
                   match l with [] => [] | k :: r => plist (S e) k ++ go r end) ks
  end.
Definition plist_kids (e : nat) (ks : list tree) : list (nat * str) :=
  (fix go (l : list tree) : list (nat * str) :=
     match l with [] => [] | k :: r => plist e k ++ go r end) ks.
Lemma plist_eq e g n a ks : plist e (T g n a ks) = (e, n) :: plist_kids (S e) ks.
Proof. reflexivity. Qed.
Lemma plist_kids_cons e k r : plist_kids e (k :: r) = plist e k ++ plist_kids e r.
Proof. reflexivity. Qed.

Fixpoint erase (t : tree) : tree :=
  match t with T _ n _ ks => mk_named n (map erase ks) end.

Lemma same_names_erase t : same_names (erase t) t = true.
Proof.
  induction t as [g n a ks IH] using tree_ind'. cbn [erase mk_named same_names].
  rewrite str_eqb_refl. cbn.
  induction IH as [|k r Hk Hr IHr]; [reflexivity|]. cbn [map]. rewrite Hk, IHr. reflexivity.
Qed.

Lemma plist_deeper : forall t e x, In x (plist e t) -> e <= fst x.
Proof.
  induction t as [g n a ks IH] using tree_ind'. intros e x Hx.
  rewrite plist_eq in Hx. destruct Hx as [<-|Hx]; [cbn; lia|].
  induction IH as [|k r Hk Hr IHr]; [destruct Hx|].
  rewrite plist_kids_cons in Hx. apply in_app_or in Hx as [Hx|Hx].
  - apply Hk in Hx. lia.
  - apply IHr. exact Hx.
Qed.

Lemma plist_kids_deeper ks e x : In x (plist_kids e ks) -> e <= fst x.
Proof.
  induction ks as [|k r IH]; [intros []|].
  rewrite plist_kids_cons. intros Hx. apply in_app_or in Hx as [Hx|Hx].
  - eapply plist_deeper. exact Hx.
  - apply IH. exact Hx.
Qed.

(* span_deeper takes exactly a block of deeper entries when what follows is not deeper *)
Lemma span_deeper_block {A} e (l rest : list (nat * A)) :
  (forall x, In x l -> e < fst x) ->
  (match rest with [] => True | x :: _ => fst x <= e end) ->
  span_deeper e (l ++ rest) = (l, rest).
Proof.
  intros Hl Hr. induction l as [|[d a] l IH]; cbn [app].
  - destruct rest as [|[d a] rest]; [reflexivity|]. cbn in Hr. cbn [span_deeper].
    replace (Nat.ltb e d) with false; [reflexivity|]. symmetry. apply Nat.ltb_ge. exact Hr.
  - cbn [span_deeper]. assert (Hd : e < d) by (apply (Hl (d, a)); left; reflexivity).
    apply Nat.ltb_lt in Hd. rewrite Hd. rewrite IH; [reflexivity|].
    intros x Hx. apply Hl. right. exact Hx.
Qed.

Definition fsize (ks : list tree) : nat := fold_right (fun k a => tsize k + a) 0 ks.

Lemma plist_kids_head e ks :
  match plist_kids e ks with [] => True | x :: _ => fst x <= e end.
Proof.
  destruct ks as [|[g n a ks'] r]; [exact I|].
  rewrite plist_kids_cons, plist_eq. cbn. lia.
Qed.

Lemma forest_of_pre_plist : forall fuel ks e d,
  fsize ks < fuel ->
  forest_of_pre mk_named fuel d (plist_kids e ks) = map erase ks.
Proof.
  induction fuel as [|f IH]; intros ks e d Hf; [lia|].
  destruct ks as [|[g n a ks'] r]; [reflexivity|].
  rewrite plist_kids_cons, plist_eq. cbn [app forest_of_pre].
  rewrite (span_deeper_block e (plist_kids (S e) ks') (plist_kids e r)).
  - cbn [fsize fold_right tsize] in Hf. fold (fsize ks') in Hf. fold (fsize r) in Hf.
    rewrite (IH ks' (S e) (S e)) by lia. rewrite (IH r e d) by lia. reflexivity.
  - intros x Hx. apply plist_kids_deeper in Hx. lia.
  - apply plist_kids_head.
Qed.

Lemma vrows_plist : forall t d anc sib,
  map (fun r => (vr_depth r, vr_name r)) (vrows d anc sib t) = plist d t.
Proof.
  induction t as [g n a ks IH] using tree_ind'. intros d anc sib.
  rewrite vrows_eq, plist_eq. cbn [map vr_depth vr_name]. f_equal.
  generalize (anc ++ [sib]) as anc'. intros anc'.
  induction IH as [|k r Hk Hr IHr]; [reflexivity|].
  rewrite vrows_kids_cons, plist_kids_cons, map_app, Hk, IHr. reflexivity.
Qed.

Lemma vrows_kids_plist ks d anc :
  map (fun r => (vr_depth r, vr_name r)) (vrows_kids d anc ks) = plist_kids (S d) ks.
Proof.
  induction ks as [|k r IH]; [reflexivity|].
  rewrite vrows_kids_cons, plist_kids_cons, map_app, vrows_plist, IH. reflexivity.
Qed.

Lemma fsize_pre ks : fsize ks = length (flat_map pre ks).
Proof.
  induction ks as [|k r IH]; [reflexivity|]. cbn [fsize fold_right flat_map].
  fold (fsize r). rewrite app_length, pre_length, IH. reflexivity.
Qed.

Lemma v_decodable_model st t :
  vstyle_ok st = true -> vs_width st <> 0 -> v_decodable st t (yield_lines st t) = true.
Proof.
  intros Hok Hw. unfold v_decodable, v_decode.
  assert (HD : map (v_depth_of (vs_width st)) (yield_lines st t) = plist 0 t).
  { rewrite yield_lines_spec. destruct t as [g n a ks]. rewrite plist_eq. cbn [map v_depth_of length Nat.add].
    rewrite Nat.div_0_l by exact Hw. f_equal.
    rewrite vrows_root_eq. cbn [tkids]. rewrite <- (vrows_kids_plist ks 0 []).
    rewrite map_map. apply map_ext_in. intros r Hr.
    unfold vline_of, v_depth_of. cbn beta iota. f_equal.
    rewrite length_cells.
    assert (HB : length (vs_branch st) = vs_width st /\ length (vs_final st) = vs_width st).
    { unfold vstyle_ok in Hok. apply andb_true_iff in Hok as [H1 H2].
      apply Nat.eqb_eq in H1. apply Nat.eqb_eq in H2. unfold vs_width. lia. }
    destruct HB as [HB HFi].
    rewrite (vrows_root_depth (T g n a ks) r Hr).
    destruct (vr_sib r); rewrite ?HB, ?HFi;
      (replace (vs_width st * length (vr_anc r) + vs_width st) with (S (length (vr_anc r)) * vs_width st) by lia;
       apply Nat.div_mul; exact Hw). }
  rewrite HD.
  replace (plist 0 t) with (plist_kids 0 [t]) by (cbn; apply app_nil_r).
  rewrite forest_of_pre_plist.
  - cbn [map]. apply same_names_erase.
  - cbn [fsize fold_right]. rewrite Nat.add_0_r. rewrite <- pre_length.
    assert (HL : length (yield_lines st t) = length (pre t)).
    { rewrite yield_lines_spec. destruct t as [g n a ks]. cbn [length pre]. f_equal.
      rewrite map_length. rewrite <- (map_length vr_name), vrows_root_eq, vrows_kids_names, map_length.
      reflexivity. }
    lia.
Qed.

(* the vertical clause as a whole *)
Theorem prop_C18_v_model st t :
  vstyle_ok st = true -> prop_C18_v st t (yield_lines st t) = true.
Proof.
  intros Hok. unfold prop_C18_v.
  rewrite v_lines_preorder_model, (v_indent_model st t Hok), v_fill_model, v_stems_model. cbn.
  destruct (Nat.eqb (vs_width st) 0) eqn:E; [reflexivity|]. cbn.
  apply v_decodable_model; [exact Hok|]. apply Nat.eqb_neq. exact E.
Qed.

(* ============================================================================================== *)
(* 2. decimal strings *)

Definition is_digit (c : N) : Prop := (48 <= c <= 57)%N.
Definition is_digitb (c : N) : bool := N.leb 48 c && N.leb c 57.

Lemma is_digitb_spec c : is_digitb c = true <-> is_digit c.
Proof.
  unfold is_digitb, is_digit. rewrite andb_true_iff, !N.leb_le. reflexivity.
Qed.

Lemma uint_digits_digits d : Forall is_digit (uint_digits d).
Proof.
  induction d; cbn [uint_digits]; constructor; try assumption; unfold is_digit; lia.
Qed.

Lemma str_of_nat_digits n : Forall is_digit (str_of_nat n).
Proof. apply uint_digits_digits. Qed.

Lemma uint_digits_inj d e : uint_digits d = uint_digits e -> d = e.
Proof.
  revert e. induction d; intros e H; destruct e; cbn [uint_digits] in H;
    try discriminate; try reflexivity; inversion H; f_equal; auto.
Qed.

Lemma str_of_nat_inj n m : str_of_nat n = str_of_nat m -> n = m.
Proof.
  unfold str_of_nat. intros H. apply uint_digits_inj in H.
  rewrite <- (DecimalNat.Unsigned.of_to n), <- (DecimalNat.Unsigned.of_to m), H. reflexivity.
Qed.

(* a string that is empty or starts with something that is not a digit *)
Definition tail_ok (r : str) : Prop := match r with [] => True | c :: _ => ~ is_digit c end.

Lemma digits_split a : forall b r1 r2,
  Forall is_digit a -> Forall is_digit b -> tail_ok r1 -> tail_ok r2 ->
  a ++ r1 = b ++ r2 -> a = b /\ r1 = r2.
Proof.
  induction a as [|x a IH]; intros b r1 r2 Ha Hb H1 H2 E.
  - destruct b as [|y b]; [split; [reflexivity|exact E]|].
    cbn in E. subst r1. inversion Hb; subst. cbn in H1. contradiction.
  - destruct b as [|y b].
    + cbn in E. subst r2. inversion Ha; subst. cbn in H2. contradiction.
    + cbn in E. inversion E; subst. inversion Ha; inversion Hb; subst.
      destruct (IH b r1 r2) as [-> ->]; auto.
Qed.

(* ============================================================================================== *)
(* 3. mermaid: the names 0-i-j-... are pairwise different *)

Lemma NoDup_app_intro {A} (l1 l2 : list A) :
  NoDup l1 -> NoDup l2 -> (forall x, In x l1 -> ~ In x l2) -> NoDup (l1 ++ l2).
Proof.
  induction l1 as [|x l1 IH]; intros H1 H2 H; cbn; [exact H2|].
  inversion H1; subst. constructor.
  - intros Hin. apply in_app_or in Hin as [Hin|Hin]; [contradiction|].
    apply (H x); [left; reflexivity|exact Hin].
  - apply IH; auto. intros y Hy. apply H. right. exact Hy.
Qed.

Lemma nodup_str_NoDup l : nodup_str l = true <-> NoDup l.
Proof.
  induction l as [|x l IH]; cbn; split; intros H; try constructor; try reflexivity.
  - apply andb_true_iff in H as [H1 H2]. intros Hin.
    apply negb_true_iff in H1. assert (existsb (str_eqb x) l = true); [|congruence].
    apply existsb_exists. exists x. split; [exact Hin|apply str_eqb_refl].
  - apply IH. apply andb_true_iff in H as [_ H2]. exact H2.
  - inversion H; subst. apply andb_true_iff. split; [|apply IH; assumption].
    apply negb_true_iff. destruct (existsb (str_eqb x) l) eqn:E; [|reflexivity].
    apply existsb_exists in E as [y [Hy Ey]]. apply str_eqb_eq in Ey. subst. contradiction.
Qed.

Definition mgo_kids (cid : str) (pl : option str) (j : nat) (ks : list tree) : list mflow :=
  (fix go (j : nat) (l : list tree) : list mflow :=
     match l with
     | [] => []
     | k :: r => mermaid_go cid pl j k ++ go (S j) r
     end) j ks.

Lemma mermaid_go_eq pid pl i g n a ks :
  mermaid_go pid pl i (T g n a ks) =
  MF pid pl (pid ++ dash ++ str_of_nat i) n :: mgo_kids (pid ++ dash ++ str_of_nat i) None 0 ks.
Proof. reflexivity. Qed.
Lemma mgo_kids_cons cid pl j k r :
  mgo_kids cid pl j (k :: r) = mermaid_go cid pl j k ++ mgo_kids cid pl (S j) r.
Proof. reflexivity. Qed.
Lemma mermaid_flows_eq t :
  mermaid_flows t = mgo_kids root_ref (Some (tname (compact t))) 0 (tkids (compact t)).
Proof. unfold mermaid_flows. destruct (compact t) as [g n a ks]. reflexivity. Qed.

(* x names a node in the subtree hanging at child index i of the node named pid *)
Definition ext (pid : str) (i : nat) (x : str) : Prop :=
  exists r, x = pid ++ dash ++ str_of_nat i ++ r /\ tail_ok r.

Lemma dash_not_digit : ~ is_digit 45%N.
Proof. unfold is_digit. lia. Qed.

Lemma ext_diff pid i j x : ext pid i x -> ext pid j x -> i = j.
Proof.
  intros [r1 [E1 T1]] [r2 [E2 T2]]. subst x.
  apply app_inv_head in E2. apply app_inv_head in E2.
  destruct (digits_split _ _ _ _ (str_of_nat_digits i) (str_of_nat_digits j) T1 T2 E2) as [E _].
  apply str_of_nat_inj. exact E.
Qed.

Definition mtree_ok (t : tree) : Prop :=
  forall pid pl i, NoDup (map mf_to (mermaid_go pid pl i t))
                   /\ forall x, In x (map mf_to (mermaid_go pid pl i t)) -> ext pid i x.

Lemma mkids_ok ks : Forall mtree_ok ks ->
  forall cid pl j, NoDup (map mf_to (mgo_kids cid pl j ks))
                   /\ forall x, In x (map mf_to (mgo_kids cid pl j ks)) -> exists j', j <= j' /\ ext cid j' x.
Proof.
  induction 1 as [|k r Hk Hr IH]; intros cid pl j.
  - split; [constructor|intros x []].
  - rewrite mgo_kids_cons, map_app. destruct (Hk cid pl j) as [N1 E1]. destruct (IH cid pl (S j)) as [N2 E2].
    split.
    + apply NoDup_app_intro; [exact N1|exact N2|].
      intros x H1 H2. apply E1 in H1. apply E2 in H2 as [j' [Hj H2]].
      pose proof (ext_diff _ _ _ _ H1 H2). lia.
    + intros x Hx. apply in_app_or in Hx as [Hx|Hx].
      * exists j. split; [lia|apply E1; exact Hx].
      * apply E2 in Hx as [j' [Hj Hx]]. exists j'. split; [lia|exact Hx].
Qed.

Lemma mtree_ok_all t : mtree_ok t.
Proof.
  induction t as [g n a ks IH] using tree_ind'. intros pid pl i.
  rewrite mermaid_go_eq. cbn [map mf_to].
  set (cid := pid ++ dash ++ str_of_nat i).
  destruct (mkids_ok ks IH cid None 0) as [ND E].
  assert (HE : forall x, In x (map mf_to (mgo_kids cid None 0 ks)) ->
                         exists r, x = cid ++ dash ++ r).
  { intros x Hx. apply E in Hx as [j' [_ [r [-> _]]]]. eexists. reflexivity. }
  split.
  - constructor; [|exact ND]. intros Hin. apply HE in Hin as [r Hr].
    apply (f_equal (@length BinNums.N)) in Hr. rewrite !app_length in Hr. cbn in Hr. lia.
  - intros x [<-|Hx].
    + exists []. split; [unfold cid; rewrite app_nil_r; reflexivity|exact I].
    + apply E in Hx as [j' [_ [r [-> _]]]]. unfold cid.
      exists (dash ++ str_of_nat j' ++ r). split.
      * rewrite <- !app_assoc. reflexivity.
      * cbn. apply dash_not_digit.
Qed.

Lemma mermaid_ids_NoDup t : NoDup (map fst (mermaid_nodes t)).
Proof.
  unfold mermaid_nodes. destruct (mermaid_flows t) as [|f fs] eqn:EF; [constructor|].
  rewrite <- EF. cbn [map fst]. rewrite map_map. cbn [fst].
  change (map (fun x : mflow => mf_to x) (mermaid_flows t)) with (map mf_to (mermaid_flows t)).
  rewrite mermaid_flows_eq.
  destruct (mkids_ok (tkids (compact t))
              (proj2 (Forall_forall _ _) (fun x _ => mtree_ok_all x))
              root_ref (Some (tname (compact t))) 0) as [ND E].
  constructor; [|exact ND].
  intros Hin. apply E in Hin as [j' [_ [r [Hr _]]]].
  apply (f_equal (@length BinNums.N)) in Hr. rewrite !app_length in Hr. cbn in Hr. lia.
Qed.

Lemma mermaid_ids_distinct t : graph_ids_distinct (mermaid_nodes t) = true.
Proof. unfold graph_ids_distinct. apply nodup_str_NoDup. apply mermaid_ids_NoDup. Qed.

(* ============================================================================================== *)
(* 4. edges: the parent-child pairs of a tree of ids are the parent links resolved through the
      pre-order list of ids *)

Definition res_link (ids : list str) (pc : nat * nat) : str * str :=
  (nth (fst pc) ids [], nth (snd pc) ids []).

Fixpoint tree_edges (t : tree) : list (str * str) :=
  match t with
  | T _ n _ ks =>
      (fix go (l : list tree) : list (str * str) :=
         match l with [] => [] | k :: r => (n, tname k) :: tree_edges k ++ go r end) ks
  end.
Definition kids_edges (n : str) (ks : list tree) : list (str * str) :=
  (fix go (l : list tree) : list (str * str) :=
     match l with [] => [] | k :: r => (n, tname k) :: tree_edges k ++ go r end) ks.
Lemma tree_edges_eq g n a ks : tree_edges (T g n a ks) = kids_edges n ks.
Proof. reflexivity. Qed.
Lemma kids_edges_cons n k r : kids_edges n (k :: r) = (n, tname k) :: tree_edges k ++ kids_edges n r.
Proof. reflexivity. Qed.

Definition kids_links (i : nat) (ks : list tree) (next : nat) : list (nat * nat) * nat :=
  (fix go (l : list tree) (next : nat) : list (nat * nat) * nat :=
     match l with
     | [] => ([], next)
     | k :: r => let (a, n1) := plinks next k in
                 let (b, n2) := go r n1 in ((i, next) :: a ++ b, n2)
     end) ks next.
Lemma plinks_eq i g n a ks : plinks i (T g n a ks) = kids_links i ks (S i).
Proof. reflexivity. Qed.
Lemma kids_links_cons i k r next :
  kids_links i (k :: r) next =
  let (a, n1) := plinks next k in let (b, n2) := kids_links i r n1 in ((i, next) :: a ++ b, n2).
Proof. reflexivity. Qed.

Definition names_pre (t : tree) : list str := map tname (pre t).
Definition names_pre_kids (ks : list tree) : list str := map tname (flat_map pre ks).

Lemma names_pre_eq g n a ks : names_pre (T g n a ks) = n :: names_pre_kids ks.
Proof. reflexivity. Qed.
Lemma names_pre_kids_cons k r : names_pre_kids (k :: r) = names_pre k ++ names_pre_kids r.
Proof. unfold names_pre_kids, names_pre. cbn [flat_map]. apply map_app. Qed.
Lemma names_pre_length t : length (names_pre t) = tsize t.
Proof. unfold names_pre. rewrite map_length. apply pre_length. Qed.
Lemma names_pre_head t : exists r, names_pre t = tname t :: r.
Proof. destruct t as [g n a ks]. eexists. reflexivity. Qed.

Definition links_tree_ok (t : tree) : Prop :=
  forall i A B, length A = i ->
    map (res_link (A ++ names_pre t ++ B)) (fst (plinks i t)) = tree_edges t
    /\ snd (plinks i t) = i + tsize t.

Lemma links_kids_ok ks : Forall links_tree_ok ks ->
  forall i n next P B, length P = next -> i < next -> nth i P [] = n ->
    map (res_link (P ++ names_pre_kids ks ++ B)) (fst (kids_links i ks next)) = kids_edges n ks
    /\ snd (kids_links i ks next) = next + fsize ks.
Proof.
  induction 1 as [|k r Hk Hr IH]; intros i n next P B HP Hi Hn.
  - cbn. split; [reflexivity|lia].
  - rewrite kids_links_cons, kids_edges_cons, names_pre_kids_cons.
    destruct (plinks next k) as [a n1] eqn:E1.
    destruct (kids_links i r n1) as [b n2] eqn:E2.
    destruct (Hk next P (names_pre_kids r ++ B) HP) as [Ha Hn1]. rewrite E1 in Ha, Hn1. cbn [fst snd] in Ha, Hn1.
    assert (HP' : length (P ++ names_pre k) = n1) by (rewrite app_length, names_pre_length; lia).
    destruct (IH i n n1 (P ++ names_pre k) B HP') as [Hb Hn2].
    { lia. }
    { rewrite app_nth1 by lia. exact Hn. }
    rewrite E2 in Hb, Hn2. cbn [fst snd] in Hb, Hn2.
    cbn [fst snd map]. split.
    + f_equal.
      * unfold res_link. cbn [fst snd]. f_equal.
        -- rewrite app_nth1 by lia. exact Hn.
        -- rewrite app_nth2 by lia. replace (next - length P) with 0 by lia.
           destruct (names_pre_head k) as [x ->]. reflexivity.
      * rewrite map_app. f_equal.
        -- rewrite <- Ha. rewrite <- !app_assoc. reflexivity.
        -- rewrite <- Hb. rewrite <- !app_assoc. reflexivity.
    + cbn [fsize fold_right]. fold (fsize r). lia.
Qed.

Lemma links_tree_ok_all t : links_tree_ok t.
Proof.
  induction t as [g n a ks IH] using tree_ind'. intros i A B HA.
  rewrite plinks_eq, tree_edges_eq, names_pre_eq.
  destruct (links_kids_ok ks IH i n (S i) (A ++ [n]) B) as [H1 H2].
  - rewrite app_length. cbn. lia.
  - lia.
  - rewrite app_nth2 by lia. replace (i - length A) with 0 by lia. reflexivity.
  - split.
    + rewrite <- H1. rewrite <- !app_assoc. reflexivity.
    + rewrite H2. cbn [tsize]. fold (fsize ks). lia.
Qed.

Lemma tree_edges_links t :
  tree_edges t = map (res_link (names_pre t)) (parent_links t).
Proof.
  destruct (links_tree_ok_all t 0 [] [] eq_refl) as [H _]. cbn [app] in H.
  rewrite app_nil_r in H. symmetry. exact H.
Qed.

(* same shape: the parent links only depend on it *)
Fixpoint same_shape (a b : tree) : Prop :=
  match a, b with
  | T _ _ _ ks, T _ _ _ ls =>
      (fix go (x y : list tree) : Prop :=
         match x, y with
         | [], [] => True
         | p :: x', q :: y' => same_shape p q /\ go x' y'
         | _, _ => False
         end) ks ls
  end.
Definition same_shape_kids (x y : list tree) : Prop :=
  (fix go (x y : list tree) : Prop :=
     match x, y with
     | [], [] => True
     | p :: x', q :: y' => same_shape p q /\ go x' y'
     | _, _ => False
     end) x y.

Lemma same_shape_plinks : forall a b, same_shape a b -> forall i, plinks i a = plinks i b.
Proof.
  induction a as [g n at_ ks IH] using tree_ind'. intros [g' n' at' ls] H i.
  rewrite !plinks_eq. cbn [same_shape] in H. fold (same_shape_kids ks ls) in H.
  generalize (S i) as next. revert ls H.
  induction IH as [|k r Hk Hr IHr]; intros [|l ls] H next; try (cbn in H; contradiction); [reflexivity|].
  destruct H as [H1 H2]. rewrite !kids_links_cons. rewrite (Hk l H1 next).
  destruct (plinks next l) as [a1 n1]. rewrite (IHr ls H2 n1). reflexivity.
Qed.

Lemma graph_edges_ok_of_eq t verts edges :
  edges = map (res_link (map fst verts)) (parent_links t) -> graph_edges_ok t verts edges = true.
Proof.
  intros ->. unfold graph_edges_ok.
  change (fun pc : nat * nat => (nth (fst pc) (map fst verts) [], nth (snd pc) (map fst verts) []))
    with (res_link (map fst verts)).
  rewrite Nat.eqb_refl. cbn. apply forallb_forall. intros e He.
  apply existsb_exists. exists e. split; [exact He|].
  unfold pair_eqb. rewrite !str_eqb_refl. reflexivity.
Qed.

(* ============================================================================================== *)
(* 5. tree_to_dot: the state-threading traversal, seen as building a tree of ids *)

Definition dot_go_kids (sep : str) (cid path : str) (ks : list tree) (s : dstate) : dstate :=
  (fix go (l : list tree) (s : dstate) : dstate :=
     match l with
     | [] => s
     | k :: r => go r (dot_go sep (Some cid) path k s)
     end) ks s.

Lemma dot_go_eq sep pido pp g n a ks s :
  dot_go sep pido pp (T g n a ks) s =
  let path := pp ++ sep ++ n in
  let (d', cid) := dot_name (ds_dict s) n path in
  dot_go_kids sep cid path ks
    (DS d' (ds_nodes s ++ [(cid, n)])
        (match pido with Some p => ds_edges s ++ [(p, cid)] | None => ds_edges s end)).
Proof. cbn [dot_go]. destruct (dot_name (ds_dict s) n (pp ++ sep ++ n)). reflexivity. Qed.

Lemma dot_go_kids_cons sep cid path k r s :
  dot_go_kids sep cid path (k :: r) s = dot_go_kids sep cid path r (dot_go sep (Some cid) path k s).
Proof. reflexivity. Qed.

(* the same traversal, returning the dictionary, the tree of ids and the (id, label) list *)
Fixpoint dot_ann (sep pp : str) (t : tree) (d : ndict) : ndict * tree * list (str * str) :=
  match t with
  | T _ n _ ks =>
      let path := pp ++ sep ++ n in
      let (d', cid) := dot_name d n path in
      let '(d'', ks', ns) :=
        (fix go (l : list tree) (d : ndict) : ndict * list tree * list (str * str) :=
           match l with
           | [] => (d, [], [])
           | k :: r => let '(d1, k', n1) := dot_ann sep path k d in
                       let '(d2, r', n2) := go r d1 in (d2, k' :: r', n1 ++ n2)
           end) ks d' in
      (d'', T None cid [] ks', (cid, n) :: ns)
  end.
Definition dot_ann_kids (sep path : str) (ks : list tree) (d : ndict) : ndict * list tree * list (str * str) :=
  (fix go (l : list tree) (d : ndict) : ndict * list tree * list (str * str) :=
     match l with
     | [] => (d, [], [])
     | k :: r => let '(d1, k', n1) := dot_ann sep path k d in
                 let '(d2, r', n2) := go r d1 in (d2, k' :: r', n1 ++ n2)
     end) ks d.
Lemma dot_ann_eq sep pp g n a ks d :
  dot_ann sep pp (T g n a ks) d =
  let path := pp ++ sep ++ n in
  let (d', cid) := dot_name d n path in
  let '(d'', ks', ns) := dot_ann_kids sep path ks d' in
  (d'', T None cid [] ks', (cid, n) :: ns).
Proof. reflexivity. Qed.
Lemma dot_ann_kids_cons sep path k r d :
  dot_ann_kids sep path (k :: r) d =
  let '(d1, k', n1) := dot_ann sep path k d in
  let '(d2, r', n2) := dot_ann_kids sep path r d1 in (d2, k' :: r', n1 ++ n2).
Proof. reflexivity. Qed.

Definition dot_tree_ok (t : tree) : Prop :=
  forall sep pido pp s,
    let '(d2, it, ns) := dot_ann sep pp t (ds_dict s) in
    dot_go sep pido pp t s =
      DS d2 (ds_nodes s ++ ns)
         (ds_edges s ++ (match pido with Some p => [(p, tname it)] | None => [] end) ++ tree_edges it)
    /\ same_shape it t /\ map fst ns = names_pre it /\ map snd ns = names_pre t.

Lemma dot_kids_ok ks : Forall dot_tree_ok ks ->
  forall sep cid path s,
    let '(d2, its, ns) := dot_ann_kids sep path ks (ds_dict s) in
    dot_go_kids sep cid path ks s = DS d2 (ds_nodes s ++ ns) (ds_edges s ++ kids_edges cid its)
    /\ same_shape_kids its ks /\ map fst ns = names_pre_kids its /\ map snd ns = names_pre_kids ks.
Proof.
  induction 1 as [|k r Hk Hr IH]; intros sep cid path s.
  - cbn. rewrite !app_nil_r. destruct s. repeat split; reflexivity.
  - rewrite dot_ann_kids_cons, dot_go_kids_cons.
    specialize (Hk sep (Some cid) path s).
    destruct (dot_ann sep path k (ds_dict s)) as [[d1 k'] n1].
    destruct Hk as [E1 [S1 [F1 L1]]].
    specialize (IH sep cid path (dot_go sep (Some cid) path k s)).
    rewrite E1 in IH. cbn [ds_dict ds_nodes ds_edges] in IH.
    destruct (dot_ann_kids sep path r d1) as [[d2 r'] n2].
    destruct IH as [E2 [S2 [F2 L2]]].
    rewrite E1, E2. repeat split.
    + f_equal.
      * rewrite <- app_assoc. reflexivity.
      * rewrite kids_edges_cons. rewrite <- !app_assoc. reflexivity.
    + exact S1.
    + exact S2.
    + rewrite map_app, F1, F2, names_pre_kids_cons. reflexivity.
    + rewrite map_app, L1, L2, names_pre_kids_cons. reflexivity.
Qed.

Lemma dot_tree_ok_all t : dot_tree_ok t.
Proof.
  induction t as [g n a ks IH] using tree_ind'. intros sep pido pp s.
  rewrite dot_ann_eq, dot_go_eq. cbv zeta.
  destruct (dot_name (ds_dict s) n (pp ++ sep ++ n)) as [d' cid].
  pose proof (dot_kids_ok ks IH sep cid (pp ++ sep ++ n)
                (DS d' (ds_nodes s ++ [(cid, n)])
                    (match pido with Some p => ds_edges s ++ [(p, cid)] | None => ds_edges s end))) as HK.
  cbn [ds_dict ds_nodes ds_edges] in HK.
  destruct (dot_ann_kids sep (pp ++ sep ++ n) ks d') as [[d2 its] ns].
  destruct HK as [E [S [F L]]]. rewrite E. repeat split.
  - f_equal.
    + rewrite <- app_assoc. reflexivity.
    + rewrite tree_edges_eq. cbn [tname]. destruct pido; rewrite <- ?app_assoc; reflexivity.
  - exact S.
  - cbn [map fst]. rewrite names_pre_eq, F. reflexivity.
  - cbn [map snd]. rewrite names_pre_eq, L. reflexivity.
Qed.

(* vertices and edges of tree_to_dot (names as bigtree passes them to pydot) *)
Theorem dot_vertices_edges_exact sep t :
  graph_vertices_ok (compact t) (dot_raw_nodes sep t) = true
  /\ graph_edges_ok (compact t) (dot_raw_nodes sep t) (dot_edges sep t) = true.
Proof.
  unfold dot_raw_nodes, dot_edges, dot_graph.
  pose proof (dot_tree_ok_all (compact t) sep None [] (DS [] [] [])) as H.
  cbn [ds_dict ds_nodes ds_edges] in H.
  destruct (dot_ann sep [] (compact t) []) as [[d2 it] ns].
  destruct H as [E [S [F L]]]. rewrite E. cbn [ds_nodes ds_edges app].
  split.
  - unfold graph_vertices_ok. rewrite L. apply list_eqb_refl. apply str_eqb_refl.
  - apply graph_edges_ok_of_eq. rewrite F, tree_edges_links.
    unfold parent_links. rewrite (same_shape_plinks _ _ S 0). reflexivity.
Qed.

(* pydot keeps a name without ':' as it is *)
Lemma find_char_none c s : ~ In c s -> find_char c s = None.
Proof.
  induction s as [|x s IH]; intros H; cbn; [reflexivity|].
  destruct (N.eqb x c) eqn:E.
  - apply N.eqb_eq in E. subst. exfalso. apply H. left. reflexivity.
  - rewrite IH; [reflexivity|]. intros Hin. apply H. right. exact Hin.
Qed.
Lemma pydot_name_plain s : ~ In 58%N s -> pydot_name s = s.
Proof.
  intros H. unfold pydot_name. rewrite (find_char_none _ _ H).
  destruct s as [|x s]; [reflexivity|]. destruct x as [|p]; [reflexivity|].
  do 7 (try (destruct p as [p|p|]; try reflexivity)).
Qed.

(* ============================================================================================== *)
(* 6. tree_to_dot: ids are pairwise different under the guards *)

Definition lp_kids (sep path : str) (ks : list tree) : list (str * str) :=
  (fix go (l : list tree) : list (str * str) :=
     match l with [] => [] | k :: r => label_paths sep path k ++ go r end) ks.
Lemma label_paths_eq sep pp g n a ks :
  label_paths sep pp (T g n a ks) = (n, pp ++ sep ++ n) :: lp_kids sep (pp ++ sep ++ n) ks.
Proof. reflexivity. Qed.
Lemma lp_kids_cons sep path k r : lp_kids sep path (k :: r) = label_paths sep path k ++ lp_kids sep path r.
Proof. reflexivity. Qed.

(* the assignment of names along a list of (label, path) *)
Fixpoint assign (d : ndict) (lp : list (str * str)) : ndict * list (str * str) :=
  match lp with
  | [] => (d, [])
  | (l, p) :: r => let (d', cid) := dot_name d l p in
                   let (d'', ns) := assign d' r in (d'', (cid, l) :: ns)
  end.

Lemma assign_app d a b :
  assign d (a ++ b) = let (d1, n1) := assign d a in let (d2, n2) := assign d1 b in (d2, n1 ++ n2).
Proof.
  revert d. induction a as [|[l p] a IH]; intros d; cbn [app assign].
  - destruct (assign d b). reflexivity.
  - destruct (dot_name d l p) as [d' cid]. rewrite IH.
    destruct (assign d' a) as [d1 n1]. destruct (assign d1 b) as [d2 n2]. reflexivity.
Qed.

Definition ann_tree_ok (t : tree) : Prop :=
  forall sep pp d, let '(d2, _, ns) := dot_ann sep pp t d in assign d (label_paths sep pp t) = (d2, ns).

Lemma ann_kids_ok ks : Forall ann_tree_ok ks ->
  forall sep path d, let '(d2, _, ns) := dot_ann_kids sep path ks d in assign d (lp_kids sep path ks) = (d2, ns).
Proof.
  induction 1 as [|k r Hk Hr IH]; intros sep path d; [reflexivity|].
  rewrite dot_ann_kids_cons, lp_kids_cons, assign_app.
  specialize (Hk sep path d). destruct (dot_ann sep path k d) as [[d1 k'] n1]. rewrite Hk.
  specialize (IH sep path d1). destruct (dot_ann_kids sep path r d1) as [[d2 r'] n2]. rewrite IH.
  reflexivity.
Qed.

Lemma ann_tree_ok_all t : ann_tree_ok t.
Proof.
  induction t as [g n a ks IH] using tree_ind'. intros sep pp d.
  rewrite dot_ann_eq, label_paths_eq. cbv zeta. cbn [assign].
  destruct (dot_name d n (pp ++ sep ++ n)) as [d' cid].
  pose proof (ann_kids_ok ks IH sep (pp ++ sep ++ n) d') as HK.
  destruct (dot_ann_kids sep (pp ++ sep ++ n) ks d') as [[d2 its] ns]. rewrite HK. reflexivity.
Qed.

Lemma dot_raw_nodes_assign sep t :
  dot_raw_nodes sep t = snd (assign [] (label_paths sep [] (compact t))).
Proof.
  unfold dot_raw_nodes, dot_graph.
  pose proof (dot_tree_ok_all (compact t) sep None [] (DS [] [] [])) as H.
  pose proof (ann_tree_ok_all (compact t) sep [] []) as A.
  cbn [ds_dict ds_nodes ds_edges] in H.
  destruct (dot_ann sep [] (compact t) []) as [[d2 it] ns].
  destruct H as [E _]. rewrite E, A. reflexivity.
Qed.

(* dictionary facts *)
Lemma str_eqb_sym a b : str_eqb a b = str_eqb b a.
Proof.
  destruct (str_eqb a b) eqn:E.
  - apply str_eqb_eq in E. subst. symmetry. apply str_eqb_refl.
  - destruct (str_eqb b a) eqn:E2; [|reflexivity]. apply str_eqb_eq in E2. subst.
    rewrite str_eqb_refl in E. discriminate.
Qed.

Lemma dget_dset d k v k2 : dget (dset d k v) k2 = if str_eqb k2 k then v else dget d k2.
Proof.
  induction d as [|[k' v'] d IH]; cbn [dset dget].
  - reflexivity.
  - destruct (str_eqb k k') eqn:E.
    + apply str_eqb_eq in E. subst k'. cbn [dget]. destruct (str_eqb k2 k); reflexivity.
    + cbn [dget]. destruct (str_eqb k2 k') eqn:E2.
      * apply str_eqb_eq in E2. subst k'. rewrite str_eqb_sym, E. reflexivity.
      * exact IH.
Qed.

Definition count_str (l : str) (seen : list str) : nat := length (filter (str_eqb l) seen).

Lemma index_str_app_new p l : ~ In p l -> index_str p (l ++ [p]) = length l.
Proof.
  induction l as [|x l IH]; intros H; cbn.
  - rewrite str_eqb_refl. reflexivity.
  - destruct (str_eqb p x) eqn:E.
    + apply str_eqb_eq in E. subst. exfalso. apply H. left. reflexivity.
    + rewrite IH; [reflexivity|]. intros Hin. apply H. right. exact Hin.
Qed.

Lemma mem_str_false p l : ~ In p l -> mem_str p l = false.
Proof.
  intros H. unfold mem_str. destruct (existsb (str_eqb p) l) eqn:E; [|reflexivity].
  apply existsb_exists in E as [y [Hy Ey]]. apply str_eqb_eq in Ey. subst. contradiction.
Qed.

(* what the ids are when all paths differ: label ++ number of earlier nodes with that label *)
Fixpoint ids_spec (seen : list str) (lp : list (str * str)) : list (str * str) :=
  match lp with
  | [] => []
  | (l, p) :: r => (l ++ str_of_nat (count_str l seen), l) :: ids_spec (l :: seen) r
  end.

Definition dict_inv (d : ndict) (seen : list (str * str)) : Prop :=
  (forall l, length (dget d l) = count_str l (map fst seen))
  /\ (forall l p, In p (dget d l) -> In p (map snd seen)).

Lemma assign_spec lp : forall d seen,
  dict_inv d seen -> NoDup (map snd lp) -> (forall p, In p (map snd lp) -> ~ In p (map snd seen)) ->
  snd (assign d lp) = ids_spec (map fst seen) lp.
Proof.
  induction lp as [|[l p] r IH]; intros d seen [I1 I2] ND HF; [reflexivity|].
  cbn [assign ids_spec]. unfold dot_name.
  assert (Hp : ~ In p (dget d l)).
  { intros Hin. apply I2 in Hin. apply (HF p); [left; reflexivity|exact Hin]. }
  rewrite (mem_str_false _ _ Hp), (index_str_app_new _ _ Hp), I1.
  set (d' := dset d l (dget d l ++ [p])).
  specialize (IH d' ((l, p) :: seen)).
  destruct (assign d' r) as [d'' ns]. cbn [snd] in *. f_equal.
  apply IH.
  - split.
    + intros l2. unfold d'. rewrite dget_dset. cbn [map fst]. unfold count_str. cbn [filter].
      destruct (str_eqb l2 l) eqn:E.
      * apply str_eqb_eq in E. subst l2. rewrite app_length. cbn [length]. rewrite I1. unfold count_str. lia.
      * apply I1.
    + intros l2 p2. unfold d'. rewrite dget_dset. cbn [map snd].
      destruct (str_eqb l2 l).
      * intros Hin. apply in_app_or in Hin as [Hin|[<-|[]]]; [right; eapply I2; exact Hin|left; reflexivity].
      * intros Hin. right. eapply I2. exact Hin.
  - cbn [map snd] in ND. inversion ND. assumption.
  - intros q Hq [<-|Hin].
    + cbn [map snd] in ND. inversion ND. contradiction.
    + apply (HF q); [right; exact Hq|exact Hin].
Qed.

(* labels that do not end in a digit *)
Definition no_digit_end (l : str) : Prop := tail_ok (rev l).

Lemma ends_in_digit_false l : ends_in_digit l = false -> no_digit_end l.
Proof.
  unfold ends_in_digit, no_digit_end, tail_ok. destruct (rev l) as [|c r]; [trivial|].
  intros H Hd. apply is_digitb_spec in Hd. unfold is_digit_b in H. unfold is_digitb in Hd. congruence.
Qed.

Lemma label_number_inj l1 l2 c1 c2 :
  no_digit_end l1 -> no_digit_end l2 ->
  l1 ++ str_of_nat c1 = l2 ++ str_of_nat c2 -> l1 = l2 /\ c1 = c2.
Proof.
  intros H1 H2 E. apply (f_equal (@rev N)) in E. rewrite !rev_app_distr in E.
  assert (D : forall c, Forall is_digit (rev (str_of_nat c))).
  { intros c. apply Forall_forall. intros x Hx. apply in_rev in Hx.
    revert x Hx. apply Forall_forall. apply str_of_nat_digits. }
  destruct (digits_split _ _ _ _ (D c1) (D c2) H1 H2 E) as [Ea Eb].
  split.
  - rewrite <- (rev_involutive l1), <- (rev_involutive l2), Eb. reflexivity.
  - apply str_of_nat_inj. rewrite <- (rev_involutive (str_of_nat c1)), <- (rev_involutive (str_of_nat c2)), Ea.
    reflexivity.
Qed.

Lemma ids_spec_form lp : forall seen x,
  In x (map fst (ids_spec seen lp)) ->
  exists l c, x = l ++ str_of_nat c /\ In l (map fst lp) /\ count_str l seen <= c.
Proof.
  induction lp as [|[l p] r IH]; intros seen x Hx; [destruct Hx|].
  cbn [ids_spec map fst] in Hx. destruct Hx as [<-|Hx].
  - exists l, (count_str l seen). split; [reflexivity|]. split; [left; reflexivity|lia].
  - apply IH in Hx as [l' [c [-> [Hl Hc]]]]. exists l', c. split; [reflexivity|]. split; [right; exact Hl|].
    unfold count_str in *. cbn [filter] in Hc. destruct (str_eqb l' l); cbn [length] in Hc; lia.
Qed.

Lemma ids_spec_NoDup lp : forall seen,
  (forall l, In l (map fst lp) -> no_digit_end l) -> NoDup (map fst (ids_spec seen lp)).
Proof.
  induction lp as [|[l p] r IH]; intros seen HG; [constructor|].
  cbn [ids_spec map fst]. constructor.
  - intros Hin. apply ids_spec_form in Hin as [l' [c [E [Hl Hc]]]].
    destruct (label_number_inj l l' (count_str l seen) c) as [<- <-].
    + apply HG. left. reflexivity.
    + apply HG. right. exact Hl.
    + exact E.
    + unfold count_str in Hc. cbn [filter] in Hc. rewrite str_eqb_refl in Hc. cbn [length] in Hc. lia.
  - apply IH. intros l' Hl. apply HG. right. exact Hl.
Qed.

Lemma label_paths_labels sep : forall t pp, map fst (label_paths sep pp t) = names_pre t.
Proof.
  induction t as [g n a ks IH] using tree_ind'. intros pp.
  rewrite label_paths_eq, names_pre_eq. cbn [map fst]. f_equal.
  generalize (pp ++ sep ++ n) as path. intros path.
  induction IH as [|k r Hk Hr IHr]; [reflexivity|].
  rewrite lp_kids_cons, names_pre_kids_cons, map_app, Hk, IHr. reflexivity.
Qed.

Theorem dot_raw_ids_injective sep t :
  no_label_ends_in_digit t = true -> paths_distinct sep t = true ->
  graph_ids_distinct (dot_raw_nodes sep t) = true.
Proof.
  intros HG HP. unfold graph_ids_distinct. apply nodup_str_NoDup.
  rewrite dot_raw_nodes_assign.
  rewrite (assign_spec (label_paths sep [] (compact t)) [] []).
  - apply ids_spec_NoDup. intros l Hl. rewrite label_paths_labels in Hl.
    unfold names_pre in Hl. apply in_map_iff in Hl as [x [<- Hx]].
    unfold no_label_ends_in_digit in HG. rewrite forallb_forall in HG.
    apply ends_in_digit_false. apply negb_true_iff. apply HG. exact Hx.
  - split; [intros l; reflexivity|intros l p []].
  - apply nodup_str_NoDup. exact HP.
  - intros p _ [].
Qed.

(* ids are label ++ digits, so pydot leaves them alone when no label contains a colon *)
Lemma assign_form lp : forall d x, In x (snd (assign d lp)) -> exists c, fst x = snd x ++ str_of_nat c.
Proof.
  induction lp as [|[l p] r IH]; intros d x Hx; [destruct Hx|].
  cbn [assign] in Hx. unfold dot_name in Hx.
  match type of Hx with context [assign ?dd r] => specialize (IH dd); destruct (assign dd r) as [d'' ns] end.
  cbn [snd] in *. destruct Hx as [<-|Hx].
  - eexists. reflexivity.
  - apply IH. exact Hx.
Qed.

Lemma colon_not_digit : ~ is_digit 58%N.
Proof. unfold is_digit. lia. Qed.

Lemma dot_nodes_plain sep t :
  no_label_has_colon t = true -> dot_nodes sep t = dot_raw_nodes sep t.
Proof.
  intros HC. unfold dot_nodes. rewrite <- (map_id (dot_raw_nodes sep t)) at 2.
  apply map_ext_in. intros [i l] Hx. cbn [fst snd]. f_equal.
  apply pydot_name_plain.
  pose proof Hx as Hx'. rewrite dot_raw_nodes_assign in Hx'. apply assign_form in Hx' as [c Hc].
  cbn [fst snd] in Hc. subst i. intros Hin. apply in_app_or in Hin as [Hin|Hin].
  - destruct (dot_vertices_edges_exact sep t) as [HV _]. unfold graph_vertices_ok in HV.
    assert (Hl : In l (map tname (pre (compact t)))).
    { assert (E : map snd (dot_raw_nodes sep t) = map tname (pre (compact t))).
      { rewrite dot_raw_nodes_assign.
        assert (G : forall lp d, map snd (snd (assign d lp)) = map fst lp).
        { induction lp as [|[l' p'] r IHr]; intros d; [reflexivity|].
          cbn [assign]. destruct (dot_name d l' p') as [d' cid]. specialize (IHr d').
          destruct (assign d' r) as [d'' ns]. cbn [snd map fst] in *. f_equal. exact IHr. }
        rewrite G, label_paths_labels. reflexivity. }
      rewrite <- E. apply in_map_iff. exists (l ++ str_of_nat c, l). split; [reflexivity|exact Hx]. }
    apply in_map_iff in Hl as [x [<- Hxx]].
    unfold no_label_has_colon in HC. rewrite forallb_forall in HC. specialize (HC x Hxx).
    apply negb_true_iff in HC. assert (existsb (N.eqb 58%N) (tname x) = true); [|congruence].
    apply existsb_exists. exists 58%N. split; [exact Hin|reflexivity].
  - pose proof (str_of_nat_digits c) as HD. rewrite Forall_forall in HD.
    apply colon_not_digit. apply HD. exact Hin.
Qed.

Theorem dot_ids_injective_partial sep t :
  no_label_ends_in_digit t = true -> paths_distinct sep t = true -> no_label_has_colon t = true ->
  graph_ids_distinct (dot_nodes sep t) = true.
Proof.
  intros H1 H2 H3. rewrite (dot_nodes_plain sep t H3). apply dot_raw_ids_injective; assumption.
Qed.

(* ============================================================================================== *)
(* 7. the calls as a whole *)

Theorem yield_tree_prop st t start md out :
  yield_tree st t start md = Ret out ->
  exists s, get_subtree t start md = Some s /\ vstyle_ok st = true
            /\ out = yield_lines st (compact s) /\ prop_C18_v st (compact s) out = true.
Proof.
  unfold yield_tree. destruct (get_subtree t start md) as [s|]; [|discriminate].
  destruct (vstyle_ok st) eqn:Hok; [|discriminate]. intros H. inversion H; subst.
  exists s. repeat split. apply prop_C18_v_model. exact Hok.
Qed.

(* ============================================================================================== *)
(* 8. horizontal rendering: number of rows, position of the branch row, the assert never fires *)

Lemma mid_bounds a b : a + 2 <= b -> a < (a + b) / 2 < b.
Proof.
  intros H. split.
  - apply (Nat.div_le_lower_bound (a + b) 2 (S a)); lia.
  - apply Nat.div_lt_upper_bound; lia.
Qed.
Lemma mid_same a : (a + a) / 2 = a.
Proof. replace (a + a) with (a * 2) by lia. apply Nat.div_mul. lia. Qed.

Lemma zip_with_length {A B C} (f : A -> B -> C) a : forall b,
  length (zip_with f a b) = Nat.min (length a) (length b).
Proof.
  induction a as [|x a IH]; intros [|y b]; cbn; try reflexivity. rewrite IH. reflexivity.
Qed.

Lemma set_nth_length {A} i (x : A) l : length (set_nth i x l) = length l.
Proof. revert i. induction l as [|y l IH]; intros [|i]; cbn; try reflexivity. rewrite IH. reflexivity. Qed.

Lemma hbranch_eq st inter ws d g n a ks :
  hbranch st inter ws d (T g n a ks) =
  let t := T g n a ks in
  let name := if is_hole t then [32; 32]%N else n in
  let centered := center name (pad_at ws d) in
  if is_hole t || negb (existsb real ks)
  then ([hs_branch st :: 32%N :: rstrip_ws centered], 0, true)
  else hassemble st inter centered (map (hbranch st inter ws (S d)) ks).
Proof.
  cbn [hbranch]. cbv zeta.
  replace ((fix go (l : list tree) : list hblock :=
              match l with [] => [] | k :: r => hbranch st inter ws (S d) k :: go r end) ks)
    with (map (hbranch st inter ws (S d)) ks); [reflexivity|].
  induction ks as [|k r IH]; [reflexivity|]. cbn [map]. rewrite IH. reflexivity.
Qed.

Definition hrows_kids (ks : list tree) : list nat := map hrows ks.
Lemma hrows_eq g n a ks :
  hrows (T g n a ks) =
  if is_hole (T g n a ks) || negb (existsb (fun k => negb (is_hole k)) ks) then 1
  else match hrows_kids ks with [1; 1] => 3 | rs => fold_right Nat.add 0 rs end.
Proof.
  cbn [hrows].
  replace ((fix go (l : list tree) : list nat := match l with [] => [] | k :: r => hrows k :: go r end) ks)
    with (hrows_kids ks); [reflexivity|].
  unfold hrows_kids. induction ks as [|k r IH]; [reflexivity|]. cbn [map]. rewrite IH. reflexivity.
Qed.

(* a block: the branch row lies inside; it touches the first or last row only in a one-row block *)
Definition blk_rows (b : hblock) : nat := length (fst (fst b)).
Definition blk_mid (b : hblock) : nat := snd (fst b).
Definition blk_good (b : hblock) : Prop :=
  snd b = true /\ blk_mid b < blk_rows b /\ (blk_rows b = 1 \/ (0 < blk_mid b /\ blk_mid b < blk_rows b - 1)).

(* branch rows of consecutive blocks stacked from row [off] *)
Fixpoint bidx (off : nat) (idx nrow : list nat) : list nat :=
  match idx, nrow with
  | m :: idx', n :: nrow' => (m + off) :: bidx (off + n) idx' nrow'
  | _, _ => []
  end.

Lemma branch_idxs_bidx idx nrow off :
  length idx = length nrow ->
  zip_with Nat.add idx (off :: accumulate off nrow) = bidx off idx nrow.
Proof.
  revert nrow off. induction idx as [|m idx IH]; intros [|n nrow] off H; try discriminate; [reflexivity|].
  cbn [accumulate zip_with bidx]. f_equal. cbn in H. apply IH. lia.
Qed.

(* strictly increasing *)
Fixpoint incr (l : list nat) : Prop :=
  match l with
  | a :: ((b :: _) as r) => a < b /\ incr r
  | _ => True
  end.

Lemma bidx_props idx : forall nrow off,
  length idx = length nrow -> Forall2 (fun m n => m < n) idx nrow ->
  incr (bidx off idx nrow)
  /\ (forall x, In x (bidx off idx nrow) -> off <= x < off + sum_list nrow)
  /\ List.last (bidx off idx nrow) 0 = match idx with [] => 0 | _ => off + sum_list nrow + List.last idx 0 - List.last nrow 0 end
  /\ hd 0 (bidx off idx nrow) = match idx with [] => 0 | m :: _ => m + off end.
Proof.
  induction idx as [|m idx IH]; intros [|n nrow] off HL HF; try discriminate.
  - cbn. split; [exact I|]. split; [intros x []|]. split; reflexivity.
  - inversion HF as [|? ? ? ? Hmn HF']; subst. cbn in HL.
    destruct (IH nrow (off + n) ltac:(lia) HF') as [I1 [I2 [I3 I4]]].
    cbn [bidx]. split; [|split; [|split]].
    + destruct idx as [|m' idx']; destruct nrow as [|n' nrow']; try discriminate; cbn [bidx]; [exact I|].
      split; [|exact I1]. inversion HF'; subst. lia.
    + intros x [<-|Hx]; cbn [sum_list fold_right].
      * lia.
      * apply I2 in Hx. fold (sum_list nrow). lia.
    + destruct idx as [|m' idx']; destruct nrow as [|n' nrow']; try discriminate.
      * cbn. lia.
      * change (List.last (m + off :: bidx (off + n) (m' :: idx') (n' :: nrow')) 0)
          with (List.last (bidx (off + n) (m' :: idx') (n' :: nrow')) 0).
        rewrite I3.
        change (List.last (m :: m' :: idx') 0) with (List.last (m' :: idx') 0).
        change (List.last (n :: n' :: nrow') 0) with (List.last (n' :: nrow') 0).
        cbn [sum_list fold_right]. fold (sum_list nrow'). lia.
    + reflexivity.
Qed.

(* the connector column between the first and the last branch row *)
Definition stems_len (ns : list nat) : nat := fold_right (fun n a => S n + a) 0 ns.

Lemma middle_length {A} (stem sub lastc : A) ns :
  ns <> [] ->
  length (concat (map (fun n => repeat stem n ++ [sub]) (removelast ns))
          ++ repeat stem (List.last ns 0) ++ [lastc]) = stems_len ns.
Proof.
  induction ns as [|a [|b r] IH]; intros H; [contradiction| |].
  - cbn. rewrite app_length, repeat_length. cbn. lia.
  - change (removelast (a :: b :: r)) with (a :: removelast (b :: r)).
    change (List.last (a :: b :: r) 0) with (List.last (b :: r) 0).
    cbn [map concat]. rewrite <- app_assoc. rewrite app_length. rewrite IH by discriminate.
    rewrite app_length, repeat_length. cbn [length stems_len fold_right]. lia.
Qed.

Lemma stems_telescope B :
  incr B -> B <> [] ->
  stems_len (zip_with (fun a b => b - a - 1) B (tl B)) = List.last B 0 - hd 0 B.
Proof.
  induction B as [|a [|b r] IH]; intros HI HN; [contradiction|cbn; lia|].
  destruct HI as [Hab HI].
  change (zip_with (fun a0 b0 : nat => b0 - a0 - 1) (a :: b :: r) (tl (a :: b :: r)))
    with ((b - a - 1) :: zip_with (fun a0 b0 : nat => b0 - a0 - 1) (b :: r) (tl (b :: r))).
  change (stems_len (b - a - 1 :: ?l)) with (S (b - a - 1) + stems_len l).
  rewrite IH by (auto; discriminate).
  change (List.last (a :: b :: r) 0) with (List.last (b :: r) 0). cbn [hd].
  assert (b <= List.last (b :: r) 0).
  { clear -HI. revert b HI. induction r as [|c r IHr]; intros b HI; [cbn; lia|].
    destruct HI as [Hbc HI]. change (List.last (b :: c :: r) 0) with (List.last (c :: r) 0).
    specialize (IHr c HI). lia. }
  lia.
Qed.

Lemma last_map {A B} (f : A -> B) l d : List.last (map f l) (f d) = f (List.last l d).
Proof. induction l as [|x [|y r] IH]; try reflexivity. exact IH. Qed.

Lemma prefix_length {A} (P0 : list A) X C R Y P1 :
  length (P0 ++ [X] ++ C ++ R ++ [Y] ++ P1) = length P0 + 1 + length (C ++ R ++ [Y]) + length P1.
Proof. rewrite !app_length. cbn [length]. lia. Qed.

Lemma blk_good_F2 (sub : list hblock) : Forall blk_good sub ->
  Forall2 (fun m n => m < n) (map (fun x : hblock => snd (fst x)) sub)
          (map (fun x : hblock => length (fst (fst x))) sub).
Proof.
  induction 1 as [|x l [_ [H _]] _ IH]; cbn [map]; constructor; [exact H|exact IH].
Qed.

Lemma concat_rows_length (sub : list hblock) :
  length (concat (map (fun x : hblock => fst (fst x)) sub))
  = sum_list (map (fun x : hblock => length (fst (fst x))) sub).
Proof.
  induction sub as [|x l IH]; [reflexivity|].
  cbn [map concat sum_list fold_right]. rewrite app_length, IH. reflexivity.
Qed.

Lemma last_le_sum l : List.last l 0 <= fold_right Nat.add 0 l.
Proof.
  induction l as [|x [|y r] IH]; cbn; try lia.
  change (List.last (x :: y :: r) 0) with (List.last (y :: r) 0). cbn in IH. lia.
Qed.

Section HAssemble.
  Variables (st : hstyle) (inter : bool) (centered : str).

  (* the third branch of hassemble (three or more children), for an arbitrary list of blocks *)
  Definition hassemble3 (sub : list hblock) : hblock :=
    let b := hs_branch st in
    let node_str := if inter then [b; 32%N] ++ centered ++ [32%N; b] else [b; b; b] in
    let padding := spaces (length node_str) in
    let sp := padding ++ [32%N] in
    let stem := padding ++ [hs_stem st] in
    let result := concat (map (fun x : hblock => fst (fst x)) sub) in
    let nrow := map (fun x : hblock => length (fst (fst x))) sub in
    let idx := map (fun x : hblock => snd (fst x)) sub in
    let ok := forallb (fun x : hblock => snd x) sub in
    let first := hd 0 idx in
    let last := sum_list nrow + List.last idx 0 - List.last nrow 0 in
    let end_ := sum_list nrow - 1 in
    let mid := (first + last) / 2 in
    let branch_idxs := zip_with Nat.add idx (0 :: accumulate 0 nrow) in
    let n_stems := zip_with (fun a b => b - a - 1) branch_idxs (tl branch_idxs) in
    let prefix :=
      repeat sp first ++ [padding ++ [hs_first st]]
      ++ concat (map (fun n => repeat stem n ++ [padding ++ [hs_subseq st]]) (removelast n_stems))
      ++ repeat stem (List.last n_stems 0) ++ [padding ++ [hs_last st]]
      ++ repeat sp (end_ - last) in
    let prefix1 := set_nth mid (node_str ++ [hs_split st]) prefix in
    let prefix2 := if existsb (Nat.eqb mid) branch_idxs
                   then set_nth mid (node_str ++ [hs_middle st]) prefix1 else prefix1 in
    (zip_with (@app N) prefix2 result, mid, ok).

  Lemma hassemble3_good sub :
    Forall blk_good sub -> 3 <= length sub ->
    blk_good (hassemble3 sub) /\
    blk_rows (hassemble3 sub) = match map blk_rows sub with [1; 1] => 3 | rs => fold_right Nat.add 0 rs end.
  Proof.
    intros HG H3.
    set (idx := map (fun x : hblock => snd (fst x)) sub).
    set (nrow := map (fun x : hblock => length (fst (fst x))) sub).
    assert (HLen : length idx = length nrow) by (unfold idx, nrow; rewrite !map_length; reflexivity).
    assert (HF : Forall2 (fun m n => m < n) idx nrow) by (apply blk_good_F2; exact HG).
    assert (HOK : forallb (fun x : hblock => snd x) sub = true).
    { apply forallb_forall. intros x Hx. rewrite Forall_forall in HG. apply (HG x Hx). }
    destruct (bidx_props idx nrow 0 HLen HF) as [BI [BB [BL BH]]].
    assert (Hres : length (concat (map (fun x : hblock => fst (fst x)) sub)) = sum_list nrow)
      by apply concat_rows_length.
    unfold hassemble3. fold idx. fold nrow. rewrite HOK.
    cbv zeta. rewrite (branch_idxs_bidx idx nrow 0 HLen).
    set (B := bidx 0 idx nrow) in *.
    destruct sub as [|[[r0 m0] o0] [|[[r1 m1] o1] [|b2 rest]]]; try (cbn in H3; lia).
    assert (HBne : B <> []) by (unfold B, idx, nrow; cbn; discriminate).
    set (first := hd 0 idx). set (last_ := sum_list nrow + List.last idx 0 - List.last nrow 0).
    assert (Hfirst : hd 0 B = first) by (rewrite BH; unfold first, idx; cbn; lia).
    assert (Hlast : List.last B 0 = last_) by (rewrite BL; unfold last_, idx; cbn [map]; lia).
    assert (Hsum : sum_list nrow = length r0 + (length r1 + (blk_rows b2 + sum_list (map blk_rows rest)))).
    { unfold nrow. cbn [map sum_list fold_right fst]. unfold blk_rows. reflexivity. }
    assert (Hm0 : m0 < length r0) by (inversion HG as [|? ? [_ [Hx _]] _]; exact Hx).
    assert (Hr1 : 1 <= length r1).
    { inversion HG as [|? ? _ HG1]; inversion HG1 as [|? ? [_ [Hx _]] _]. unfold blk_rows, blk_mid in Hx. cbn in Hx. lia. }
    assert (Hf0 : first = m0) by reflexivity.
    assert (HlastB : first + 2 <= last_ /\ last_ < sum_list nrow).
    { assert (Hin : In (List.last B 0) B).
      { destruct B as [|b0 Bt]; [contradiction|]. apply (@exists_last _ (b0 :: Bt)) in HBne as [l' [z Hz]].
        rewrite Hz. rewrite last_last. apply in_or_app. right. left. reflexivity. }
      apply BB in Hin. rewrite Hlast in Hin. split; [|lia].
      unfold last_, idx, nrow.
      cbn [map fst snd].
      change (List.last (m0 :: m1 :: ?x) 0) with (List.last x 0).
      change (List.last (length r0 :: length r1 :: ?x) 0) with (List.last x 0).
      cbn [sum_list fold_right].
      pose proof (last_le_sum (length (fst (fst b2)) :: map (fun x : hblock => length (fst (fst x))) rest)) as HLS.
      cbn [fold_right] in HLS. lia. }
    destruct HlastB as [HL2 HLe].
    destruct (mid_bounds first last_ HL2) as [M1 M2].
    set (mid := (first + last_) / 2) in *.
    assert (HNS : zip_with (fun a b => b - a - 1) B (tl B) <> []) by (unfold B, idx, nrow; cbn; discriminate).
    unfold blk_good, blk_rows, blk_mid. cbn [fst snd]. unfold hblock, str in *.
    rewrite zip_with_length.
    match goal with |- context [if ?c then _ else _] => destruct c end;
      rewrite ?set_nth_length.
    all: rewrite prefix_length;
      rewrite (middle_length _ _ _ _ HNS);
      rewrite !repeat_length, (stems_telescope B BI HBne), Hfirst, Hlast, Hres.
    all: replace (Nat.min _ _) with (sum_list nrow) by lia.
    all: split; [repeat split; lia|].
    all: rewrite Hsum; cbn [map]; unfold blk_rows at 1 2; cbn [fst];
      destruct (length r0) as [|[|?]]; destruct (length r1) as [|[|?]]; cbn [fold_right]; try reflexivity; lia.
  Qed.

  Lemma hassemble_good sub :
    sub <> [] -> Forall blk_good sub ->
    let b := hassemble st inter centered sub in
    blk_good b /\
    blk_rows b = match map blk_rows sub with [1; 1] => 3 | rs => fold_right Nat.add 0 rs end.
  Proof.
    intros HN HG.
    destruct sub as [|[[r0 m0] o0] [|[[r1 m1] o1] [|b2 rest]]]; [contradiction| | |].
    - (* one child *)
      inversion HG as [|? ? [G1 [G2 G3]] _]; subst. cbn in G1, G2, G3. subst o0.
      unfold hassemble. cbn [map fst snd forallb hd List.last sum_list fold_right length].
      rewrite Nat.add_0_r. replace (length r0 + m0 - length r0) with m0 by lia. rewrite mid_same.
      unfold blk_good, blk_rows, blk_mid. cbn [fst snd].
      rewrite zip_with_length, !app_length, !repeat_length. cbn [length].
      rewrite concat_cons, concat_nil, app_nil_r. unfold str in *.
      replace (Nat.min (m0 + (1 + (length r0 - 1 - m0))) (length r0)) with (length r0) by lia.
      split; [|destruct (length r0) as [|[|?]]; lia]. repeat split; lia.
    - (* two children *)
      inversion HG as [|? ? [G1 [G2 G3]] HG']; subst. inversion HG' as [|? ? [K1 [K2 K3]] _]; subst.
      cbn in G1, G2, G3, K1, K2, K3. subst o0 o1.
      unfold hassemble. cbn [map fst snd forallb hd List.last sum_list fold_right length andb].
      unfold str in *. rewrite Nat.add_0_r.
      replace (length r0 + length r1 + m1 - length r1) with (length r0 + m1) by lia.
      cbn [concat]. rewrite app_nil_r.
      destruct (Nat.eqb (length r0 + m1 - m0) 1) eqn:EG.
      + (* the two children have one row each: a separating row is inserted *)
        apply Nat.eqb_eq in EG.
        assert (E0 : length r0 = 1) by lia. assert (E1 : length r1 = 1) by lia.
        assert (M0 : m0 = 0) by lia. assert (M1 : m1 = 0) by lia. subst m0 m1.
        unfold blk_good, blk_rows, blk_mid. cbn [fst snd]. unfold str in *.
        replace ((0 + 2 - 0) / 2) with 1 by reflexivity.
        rewrite zip_with_length, !app_length, !repeat_length. cbn [length].
        rewrite E0, E1. cbn [Nat.add Nat.sub Nat.eqb negb orb andb Nat.min].
        split; [repeat split; lia|reflexivity].
      + apply Nat.eqb_neq in EG.
        assert (HL : m0 + 2 <= length r0 + m1) by lia.
        destruct (mid_bounds m0 (length r0 + m1) HL) as [B1 B2].
        set (mid := (m0 + (length r0 + m1)) / 2) in *.
        unfold blk_good, blk_rows, blk_mid. cbn [fst snd negb orb andb]. unfold str in *.
        rewrite zip_with_length, !app_length, !repeat_length. cbn [length].
        replace (Nat.min _ _) with (length r0 + length r1) by lia.
        split; [repeat split; lia|].
        destruct (length r0) as [|[|?]] eqn:E0; destruct (length r1) as [|[|?]] eqn:E1; try reflexivity; lia.
    - (* three or more children *)
      change (hassemble st inter centered ((r0, m0, o0) :: (r1, m1, o1) :: b2 :: rest))
        with (hassemble3 ((r0, m0, o0) :: (r1, m1, o1) :: b2 :: rest)).
      apply hassemble3_good; [exact HG|cbn; lia].
  Qed.
End HAssemble.

Theorem hbranch_good st inter ws : forall t d,
  blk_good (hbranch st inter ws d t) /\ blk_rows (hbranch st inter ws d t) = hrows t.
Proof.
  induction t as [g n a ks IH] using tree_ind'. intros d.
  rewrite hbranch_eq, hrows_eq. cbv zeta.
  change (existsb (fun k : tree => negb (is_hole k)) ks) with (existsb real ks).
  destruct (is_hole (T g n a ks) || negb (existsb real ks)) eqn:E.
  - unfold blk_good, blk_rows, blk_mid. cbn [fst snd length]. repeat split; lia.
  - assert (Hne : map (hbranch st inter ws (S d)) ks <> []).
    { destruct ks; [|discriminate]. cbn in E. rewrite orb_true_r in E. discriminate. }
    assert (HF : Forall blk_good (map (hbranch st inter ws (S d)) ks)).
    { apply Forall_forall. intros b Hb. apply in_map_iff in Hb as [k [<- Hk]].
      rewrite Forall_forall in IH. apply (IH k Hk). }
    destruct (hassemble_good st inter
                (center (if is_hole (T g n a ks) then [32%N; 32%N] else n) (pad_at ws d))
                (map (hbranch st inter ws (S d)) ks) Hne HF) as [G R].
    cbv zeta in G, R. split; [exact G|]. etransitivity; [exact R|].
    replace (map blk_rows (map (hbranch st inter ws (S d)) ks)) with (hrows_kids ks); [reflexivity|].
    unfold hrows_kids. rewrite map_map. apply map_ext_in. intros k Hk.
    rewrite Forall_forall in IH. symmetry. apply (IH k Hk).
Qed.

(* hyield_tree never trips over its `assert`, and emits exactly hrows rows *)
Theorem hyield_rows_spec st inter t :
  exists rows, hyield_rows st inter t = Ret rows /\ h_rows t rows = true.
Proof.
  unfold hyield_rows.
  destruct (hbranch_good st inter (padding_depths inter t) t 1) as [[G1 _] R].
  destruct (hbranch st inter (padding_depths inter t) 1 t) as [[rows mid] ok].
  cbn [snd] in G1. subst ok. exists rows. split; [reflexivity|].
  unfold h_rows. unfold blk_rows in R. cbn [fst] in R. rewrite R. apply Nat.eqb_refl.
Qed.

(* ============================================================================================== *)
(* 9. horizontal rendering: every row ends in the cell of one leaf, top to bottom in pre-order *)

(* the text of a leaf (or empty slot) of depth d *)
Definition hleaf_cell (st : hstyle) (ws : list nat) (d : nat) (t : tree) : str :=
  hs_branch st :: 32%N :: rstrip_ws (center (if is_hole t then [32; 32]%N else tname t) (pad_at ws d)).

(* per row of the block of t: the leaf cell the row ends in ([] for a separating row) *)
Fixpoint hsuffixes (st : hstyle) (ws : list nat) (d : nat) (t : tree) : list str :=
  match t with
  | T _ _ _ ks =>
      if is_hole t || negb (existsb real ks) then [hleaf_cell st ws d t]
      else
        let ss := (fix go (l : list tree) : list (list str) :=
                     match l with [] => [] | k :: r => hsuffixes st ws (S d) k :: go r end) ks in
        match ss with
        | [[s0]; [s1]] => [s0; []; s1]
        | _ => concat ss
        end
  end.

Lemma hsuffixes_eq st ws d g n a ks :
  hsuffixes st ws d (T g n a ks) =
  if is_hole (T g n a ks) || negb (existsb real ks) then [hleaf_cell st ws d (T g n a ks)]
  else let ss := map (hsuffixes st ws (S d)) ks in
       match ss with
       | [[s0]; [s1]] => [s0; []; s1]
       | _ => concat ss
       end.
Proof.
  cbn [hsuffixes].
  replace ((fix go (l : list tree) : list (list str) :=
              match l with [] => [] | k :: r => hsuffixes st ws (S d) k :: go r end) ks)
    with (map (hsuffixes st ws (S d)) ks); [reflexivity|].
  induction ks as [|k r IH]; [reflexivity|]. cbn [map]. rewrite IH. reflexivity.
Qed.

(* the leaf cells in pre-order, with the depth of each leaf *)
Fixpoint hleaf_cells (st : hstyle) (ws : list nat) (d : nat) (t : tree) : list str :=
  match t with
  | T _ _ _ ks =>
      if is_hole t || negb (existsb real ks) then [hleaf_cell st ws d t]
      else (fix go (l : list tree) : list str :=
              match l with [] => [] | k :: r => hleaf_cells st ws (S d) k ++ go r end) ks
  end.

Lemma hleaf_cells_eq st ws d g n a ks :
  hleaf_cells st ws d (T g n a ks) =
  if is_hole (T g n a ks) || negb (existsb real ks) then [hleaf_cell st ws d (T g n a ks)]
  else concat (map (hleaf_cells st ws (S d)) ks).
Proof.
  cbn [hleaf_cells].
  replace ((fix go (l : list tree) : list str :=
              match l with [] => [] | k :: r => hleaf_cells st ws (S d) k ++ go r end) ks)
    with (concat (map (hleaf_cells st ws (S d)) ks)); [reflexivity|].
  induction ks as [|k r IH]; [reflexivity|]. cbn [map concat]. rewrite IH. reflexivity.
Qed.

Definition nonempty (s : str) : bool := match s with [] => false | _ => true end.

Lemma filter_concat {A} (f : A -> bool) (l : list (list A)) :
  filter f (concat l) = concat (map (filter f) l).
Proof.
  induction l as [|x l IH]; [reflexivity|]. cbn [concat map]. rewrite filter_app, IH. reflexivity.
Qed.

(* the non-empty suffixes are exactly the leaf cells in pre-order *)
Lemma hsuffixes_leaves st ws : forall t d,
  filter nonempty (hsuffixes st ws d t) = hleaf_cells st ws d t.
Proof.
  induction t as [g n a ks IH] using tree_ind'. intros d.
  rewrite hsuffixes_eq, hleaf_cells_eq. cbv zeta.
  destruct (is_hole (T g n a ks) || negb (existsb real ks)); [reflexivity|].
  assert (HK : map (filter nonempty) (map (hsuffixes st ws (S d)) ks) = map (hleaf_cells st ws (S d)) ks).
  { rewrite map_map. apply map_ext_in. intros k Hk. rewrite Forall_forall in IH. apply (IH k Hk). }
  assert (HC : filter nonempty (concat (map (hsuffixes st ws (S d)) ks))
               = concat (map (hleaf_cells st ws (S d)) ks)).
  { rewrite filter_concat, HK. reflexivity. }
  destruct (map (hsuffixes st ws (S d)) ks) as [|[|s0 [|? ?]] [|[|s1 [|? ?]] [|? ?]]] eqn:E; exact HC.
Qed.

Lemma zip_with_app_assoc (a b c : list str) :
  zip_with (@app N) a (zip_with (@app N) b c) = zip_with (@app N) (zip_with (@app N) a b) c.
Proof.
  revert b c. induction a as [|x a IH]; intros [|y b] [|z c]; cbn; try reflexivity.
  rewrite app_assoc, IH. reflexivity.
Qed.

Lemma zip_with_app_concat (P S : list (list str)) :
  Forall2 (fun p s => length p = length s) P S ->
  concat (map (fun ps => zip_with (@app N) (fst ps) (snd ps)) (combine P S))
  = zip_with (@app N) (concat P) (concat S).
Proof.
  induction 1 as [|p s P' S' Hl HF IH]; [reflexivity|].
  cbn [combine map concat fst snd]. rewrite IH. clear IH HF.
  revert s Hl. induction p as [|x p IHp]; intros [|y s] Hl; try discriminate; [reflexivity|].
  cbn [app zip_with]. f_equal. apply IHp. cbn in Hl. lia.
Qed.

Lemma Forall_repeat_intro {A} (P : A -> Prop) x n : P x -> Forall P (repeat x n).
Proof. intros H. induction n; cbn; constructor; assumption. Qed.
Lemma Forall_concat_map_intro {A B} (P : B -> Prop) (f : A -> list B) l :
  (forall y, Forall P (f y)) -> Forall P (concat (map f l)).
Proof. intros H. induction l as [|x l IH]; cbn; [constructor|]. apply Forall_app. split; [apply H|exact IH]. Qed.
Lemma Forall_set_nth {A} (P : A -> Prop) i x l : P x -> Forall P l -> Forall P (set_nth i x l).
Proof.
  intros Hx. revert i. induction l as [|y l IH]; intros i H; destruct i; cbn; try constructor;
    inversion H; subst; auto.
Qed.

(* the text of an inner node of a block: "b name b" with intermediate names, "bbb" without *)
Definition hnode_str (st : hstyle) (inter : bool) (centered : str) : str :=
  if inter then [hs_branch st; 32%N] ++ centered ++ [32%N; hs_branch st]
  else [hs_branch st; hs_branch st; hs_branch st].

Ltac widths :=
  repeat first [ apply Forall_nil
               | apply Forall_cons
               | apply Forall_app; split
               | apply Forall_repeat_intro
               | apply Forall_set_nth
               | apply Forall_concat_map_intro; intros ];
  unfold hnode_str, spaces, str in *; rewrite ?app_length, ?repeat_length; cbn [length]; lia.

(* what hassemble does to the rows of the children: a prefix in front of every row, after the
   separating row has been inserted between two one-row children; every prefix is one cell wide:
   the width of the node text plus the connector column *)
Lemma hassemble_shape st inter centered (sub : list hblock) :
  sub <> [] ->
  exists prefix,
    fst (fst (hassemble st inter centered sub)) =
    zip_with (@app N) prefix
      (let result := concat (map (fun x : hblock => fst (fst x)) sub) in
       match sub with
       | [b0; b1] =>
           if Nat.eqb (length (fst (fst b0)) + snd (fst b1) - snd (fst b0)) 1
           then [nth 0 result []; []; nth 1 result []] else result
       | _ => result
       end)
    /\ Forall (fun p => length p = S (length (hnode_str st inter centered))) prefix.
Proof.
  intros HN. destruct sub as [|b0 [|b1 [|b2 rest]]]; [contradiction| | |].
  - eexists. unfold hassemble. cbn [fst snd]. split; [reflexivity|]. widths.
  - unfold hassemble. cbn [map fst snd hd List.last sum_list fold_right length].
    rewrite Nat.add_0_r.
    replace (length (fst (fst b0)) + length (fst (fst b1)) + snd (fst b1) - length (fst (fst b1)))
      with (length (fst (fst b0)) + snd (fst b1)) by lia.
    destruct (Nat.eqb (length (fst (fst b0)) + snd (fst b1) - snd (fst b0)) 1);
      (eexists; split; [reflexivity|widths]).
  - eexists. unfold hassemble. cbn [fst snd]. split; [reflexivity|].
    match goal with |- context [if ?c then _ else _] => destruct c end; widths.
Qed.

Lemma hsuffixes_length st ws : forall t d, length (hsuffixes st ws d t) = hrows t.
Proof.
  induction t as [g n a ks IH] using tree_ind'. intros d.
  rewrite hsuffixes_eq, hrows_eq. cbv zeta.
  change (existsb (fun k : tree => negb (is_hole k)) ks) with (existsb real ks).
  destruct (is_hole (T g n a ks) || negb (existsb real ks)); [reflexivity|].
  assert (HK : map (@length str) (map (hsuffixes st ws (S d)) ks) = hrows_kids ks).
  { unfold hrows_kids. rewrite map_map. apply map_ext_in. intros k Hk. rewrite Forall_forall in IH. apply (IH k Hk). }
  assert (HC : length (concat (map (hsuffixes st ws (S d)) ks)) = fold_right Nat.add 0 (hrows_kids ks)).
  { rewrite <- HK. generalize (map (hsuffixes st ws (S d)) ks). intros l.
    induction l as [|x l IHl]; [reflexivity|]. cbn [concat map fold_right]. rewrite app_length, IHl. reflexivity. }
  rewrite <- HK in *.
  destruct (map (hsuffixes st ws (S d)) ks) as [|[|s0 [|? ?]] [|[|s1 [|? ?]] [|? ?]]]; try exact HC; reflexivity.
Qed.

Theorem hbranch_suffixes st inter ws : forall t d,
  exists P, fst (fst (hbranch st inter ws d t)) = zip_with (@app N) P (hsuffixes st ws d t).
Proof.
  induction t as [g n a ks IH] using tree_ind'. intros d.
  rewrite hbranch_eq, hsuffixes_eq. cbv zeta.
  destruct (is_hole (T g n a ks) || negb (existsb real ks)) eqn:E.
  - exists [[]]. reflexivity.
  - set (sub := map (hbranch st inter ws (S d)) ks).
    assert (Hne : sub <> []).
    { unfold sub. destruct ks; [|discriminate]. cbn in E. rewrite orb_true_r in E. discriminate. }
    (* the children's rows, child by child *)
    assert (HP : exists Ps, Forall2 (fun p s => length p = length s) Ps (map (hsuffixes st ws (S d)) ks)
                            /\ map (fun x : hblock => fst (fst x)) sub
                               = map (fun ps => zip_with (@app N) (fst ps) (snd ps))
                                     (combine Ps (map (hsuffixes st ws (S d)) ks))).
    { unfold sub. clear E Hne sub. induction IH as [|k r Hk Hr IHr].
      - exists []. split; [constructor|reflexivity].
      - destruct IHr as [Ps [F E]]. destruct (Hk (S d)) as [P EP].
        assert (HL : length (fst (fst (hbranch st inter ws (S d) k))) = length (hsuffixes st ws (S d) k)).
        { destruct (hbranch_good st inter ws k (S d)) as [_ R]. unfold blk_rows in R. rewrite R.
          symmetry. apply hsuffixes_length. }
        exists (firstn (length (hsuffixes st ws (S d) k)) P :: Ps). split.
        + constructor; [|exact F]. rewrite firstn_length. rewrite EP, zip_with_length in HL. lia.
        + cbn [map combine fst snd]. rewrite E. f_equal. rewrite EP.
          clear. generalize (hsuffixes st ws (S d) k) as S. intros S. revert P.
          induction S as [|s S IHS]; intros [|p P]; cbn; try reflexivity. f_equal. apply IHS. }
    destruct HP as [Ps [F EM]].
    destruct (hassemble_shape st inter
                (center (if is_hole (T g n a ks) then [32%N; 32%N] else n) (pad_at ws d)) sub Hne)
      as [prefix [EH _]].
    cbv zeta in EH. pose proof (zip_with_app_concat _ _ F) as EC. unfold str in *. rewrite EM in EH.
    rewrite EC in EH.
    (* which of the two forms *)
    assert (HG : Forall blk_good sub).
    { unfold sub. apply Forall_forall. intros b Hb. apply in_map_iff in Hb as [k [<- Hk]].
      apply (hbranch_good st inter ws k (S d)). }
    assert (HR : map (@length str) (map (hsuffixes st ws (S d)) ks) = map blk_rows sub).
    { unfold sub. rewrite !map_map. apply map_ext. intros k. rewrite hsuffixes_length.
      symmetry. apply (hbranch_good st inter ws k (S d)). }
    destruct sub as [|b0 [|b1 [|b2 rest]]] eqn:ES; [contradiction| | |].
    + rewrite zip_with_app_assoc in EH.
      destruct (map (hsuffixes st ws (S d)) ks) as [|s0 [|? ?]] eqn:EK; try (cbn in HR; congruence).
      unfold str in *. rewrite ?EK in *. destruct s0 as [|? [|? ?]]; eexists; exact EH.
    + destruct (map (hsuffixes st ws (S d)) ks) as [|s0 [|s1 [|? ?]]] eqn:EK; try (cbn in HR; congruence).
      unfold str in *. rewrite ?EK in *.
      inversion HG as [|? ? G0 HG1]; subst. inversion HG1 as [|? ? G1 _]; subst.
      destruct G0 as [_ [A0 B0]]. destruct G1 as [_ [A1 B1]].
      unfold blk_rows, blk_mid in *. cbn [map] in HR. inversion HR as [[H0 H1]].
      inversion F as [|p0 ? Ps' ? L0 F']; subst. inversion F' as [|p1 ? Ps'' ? L1 F'']; subst. inversion F''; subst.
      cbn [concat] in EH.
      match type of EH with context [if Nat.eqb ?x 1 then _ else _] => destruct (Nat.eqb x 1) eqn:EG end.
      * apply Nat.eqb_eq in EG.
        match type of EH with ?l = _ => remember l as LHS eqn:ELHS; clear ELHS end.
        unfold hblock, str in *.
        assert (E0 : length s0 = 1) by lia.
        assert (E1 : length s1 = 1) by lia.
        destruct s0 as [|x0 [|? ?]]; try discriminate. destruct s1 as [|x1 [|? ?]]; try discriminate.
        destruct p0 as [|q0 [|? ?]]; try discriminate. destruct p1 as [|q1 [|? ?]]; try discriminate.
        cbn in EH.
        destruct prefix as [|a0 [|a1 [|a2 prefix']]]; cbn in EH.
        -- exists []. rewrite EH. reflexivity.
        -- exists [a0 ++ q0]. rewrite EH. cbn [zip_with]. rewrite <- ?app_assoc, ?app_nil_r. reflexivity.
        -- exists [a0 ++ q0; a1]. rewrite EH. cbn [zip_with]. rewrite <- ?app_assoc, ?app_nil_r. reflexivity.
        -- exists [a0 ++ q0; a1; a2 ++ q1]. rewrite EH. cbn [zip_with]. rewrite <- ?app_assoc, ?app_nil_r.
           destruct prefix'; reflexivity.
      * apply Nat.eqb_neq in EG.
        unfold hblock, str in *.
        assert (HN1 : ~ (length s0 = 1 /\ length s1 = 1)) by lia.
        rewrite zip_with_app_assoc in EH.
        destruct s0 as [|x0 [|? ?]]; destruct s1 as [|x1 [|? ?]];
          try (eexists; exact EH).
        exfalso. apply HN1. split; reflexivity.
    + rewrite zip_with_app_assoc in EH.
      destruct (map (hsuffixes st ws (S d)) ks) as [|s0 [|s1 [|s2 ?]]] eqn:EK; try (cbn in HR; congruence).
      unfold str in *. rewrite ?EK in *. eexists. destruct s0 as [|? [|? ?]]; destruct s1 as [|? [|? ?]]; exact EH.
Qed.

(* the rows of hyield_tree end, top to bottom, in the cells of the leaves in pre-order; the only
   rows without a leaf are the separating rows *)
Theorem hyield_leaf_order st inter t :
  exists rows P, hyield_rows st inter t = Ret rows
    /\ rows = zip_with (@app N) P (hsuffixes st (padding_depths inter t) 1 t)
    /\ length rows = length (hsuffixes st (padding_depths inter t) 1 t)
    /\ filter nonempty (hsuffixes st (padding_depths inter t) 1 t)
       = hleaf_cells st (padding_depths inter t) 1 t.
Proof.
  destruct (hyield_rows_spec st inter t) as [rows [ER HR]].
  destruct (hbranch_suffixes st inter (padding_depths inter t) t 1) as [P EP].
  exists rows, P. split; [exact ER|].
  unfold hyield_rows in ER.
  destruct (hbranch st inter (padding_depths inter t) 1 t) as [[rows' mid] ok].
  destruct ok; [|discriminate]. inversion ER; subst rows'. cbn [fst] in EP.
  split; [exact EP|]. split.
  - unfold h_rows in HR. apply Nat.eqb_eq in HR. rewrite HR. symmetry. apply hsuffixes_length.
  - apply hsuffixes_leaves.
Qed.

(* ============================================================================================== *)
(* 10. tree_to_mermaid: vertices and edges are exact (trees with at least two nodes) *)

(* the tree of mermaid names below a node named pid *)
Fixpoint mit (pid : str) (i : nat) (t : tree) : tree :=
  match t with
  | T _ _ _ ks =>
      let cid := pid ++ dash ++ str_of_nat i in
      T None cid [] ((fix go (j : nat) (l : list tree) : list tree :=
                        match l with [] => [] | k :: r => mit cid j k :: go (S j) r end) 0 ks)
  end.
Definition mit_kids (cid : str) (j : nat) (ks : list tree) : list tree :=
  (fix go (j : nat) (l : list tree) : list tree :=
     match l with [] => [] | k :: r => mit cid j k :: go (S j) r end) j ks.
Lemma mit_eq pid i g n a ks :
  mit pid i (T g n a ks) = T None (pid ++ dash ++ str_of_nat i) [] (mit_kids (pid ++ dash ++ str_of_nat i) 0 ks).
Proof. reflexivity. Qed.
Lemma mit_kids_cons cid j k r : mit_kids cid j (k :: r) = mit cid j k :: mit_kids cid (S j) r.
Proof. reflexivity. Qed.

Definition mflow_edge (f : mflow) : str * str := (mf_from f, mf_to f).

Definition mit_tree_ok (t : tree) : Prop :=
  forall pid pl i,
    map mf_to (mermaid_go pid pl i t) = names_pre (mit pid i t)
    /\ map mf_to_label (mermaid_go pid pl i t) = names_pre t
    /\ map mflow_edge (mermaid_go pid pl i t) = (pid, tname (mit pid i t)) :: tree_edges (mit pid i t)
    /\ same_shape (mit pid i t) t.

Lemma mit_kids_ok ks : Forall mit_tree_ok ks ->
  forall cid pl j,
    map mf_to (mgo_kids cid pl j ks) = names_pre_kids (mit_kids cid j ks)
    /\ map mf_to_label (mgo_kids cid pl j ks) = names_pre_kids ks
    /\ map mflow_edge (mgo_kids cid pl j ks) = kids_edges cid (mit_kids cid j ks)
    /\ same_shape_kids (mit_kids cid j ks) ks.
Proof.
  induction 1 as [|k r Hk Hr IH]; intros cid pl j.
  - repeat split.
  - rewrite mgo_kids_cons, mit_kids_cons, !map_app.
    destruct (Hk cid pl j) as [A1 [A2 [A3 A4]]]. destruct (IH cid pl (S j)) as [B1 [B2 [B3 B4]]].
    rewrite A1, A2, A3, B1, B2, B3, kids_edges_cons, !names_pre_kids_cons.
    repeat split; assumption.
Qed.

Lemma mit_tree_ok_all t : mit_tree_ok t.
Proof.
  induction t as [g n a ks IH] using tree_ind'. intros pid pl i.
  rewrite mermaid_go_eq, mit_eq. cbn [map mf_to mf_to_label mflow_edge mf_from tname].
  destruct (mit_kids_ok ks IH (pid ++ dash ++ str_of_nat i) None 0) as [A1 [A2 [A3 A4]]].
  rewrite A1, A2, A3, !names_pre_eq, tree_edges_eq. repeat split. exact A4.
Qed.

Theorem mermaid_graph_exact t :
  2 <= tsize (compact t) -> prop_C18_g t (mermaid_nodes t) (mermaid_edges t) = true.
Proof.
  intros H2. unfold prop_C18_g. rewrite mermaid_ids_distinct.
  unfold mermaid_nodes, mermaid_edges. rewrite mermaid_flows_eq.
  assert (Hn : tname t = tname (compact t)) by (destruct t; reflexivity).
  destruct (compact t) as [g n a ks] eqn:EC. cbn [tname tkids] in *.
  destruct (mit_kids_ok ks (proj2 (Forall_forall _ _) (fun x _ => mit_tree_ok_all x)) root_ref (Some n) 0)
    as [A1 [A2 [A3 A4]]].
  set (rootit := T None root_ref [] (mit_kids root_ref 0 ks)).
  assert (Hne : mgo_kids root_ref (Some n) 0 ks <> []).
  { destruct ks as [|[g' n' a' ks'] r]; [cbn in H2; lia|]. rewrite mgo_kids_cons, mermaid_go_eq. discriminate. }
  destruct (mgo_kids root_ref (Some n) 0 ks) as [|f fs] eqn:EF; [contradiction|].
  rewrite Hn.
  assert (V1 : map fst ((root_ref, n) :: map (fun f0 : mflow => (mf_to f0, mf_to_label f0)) (f :: fs))
               = names_pre rootit).
  { cbn [map fst]. rewrite map_map. cbn [fst]. unfold rootit. rewrite names_pre_eq. f_equal. exact A1. }
  assert (V2 : map snd ((root_ref, n) :: map (fun f0 : mflow => (mf_to f0, mf_to_label f0)) (f :: fs))
               = names_pre (T g n a ks)).
  { cbn [map snd]. rewrite map_map. cbn [snd]. rewrite names_pre_eq. f_equal. exact A2. }
  apply andb_true_iff. split; [apply andb_true_iff; split; [|reflexivity]|].
  - unfold graph_vertices_ok. rewrite V2. apply list_eqb_refl. apply str_eqb_refl.
  - apply graph_edges_ok_of_eq. rewrite V1.
    change (map (fun f0 : mflow => (mf_from f0, mf_to f0)) (f :: fs))
      with (map mflow_edge (f :: fs)).
    rewrite A3. change (kids_edges root_ref (mit_kids root_ref 0 ks)) with (tree_edges rootit).
    rewrite tree_edges_links. unfold parent_links.
    rewrite (same_shape_plinks rootit (T g n a ks)); [reflexivity|]. exact A4.
Qed.

(* ============================================================================================== *)
(* 11. vertical rendering: decoding from the printed text alone *)

Lemma firstn_app_exact {A} (a b : list A) : firstn (length a) (a ++ b) = a.
Proof. induction a as [|x a IH]; cbn; [reflexivity|]. rewrite IH. reflexivity. Qed.
Lemma skipn_app_exact {A} (a b : list A) : skipn (length a) (a ++ b) = b.
Proof. induction a as [|x a IH]; cbn; [reflexivity|exact IH]. Qed.

Lemma opt_all_map_some {A B} (f : A -> option B) (g : A -> B) l :
  (forall x, In x l -> f x = Some (g x)) -> opt_all (map f l) = Some (map g l).
Proof.
  induction l as [|x l IH]; intros H; [reflexivity|].
  cbn [map opt_all]. rewrite (H x) by (left; reflexivity). rewrite IH; [reflexivity|].
  intros y Hy. apply H. right. exact Hy.
Qed.

Section TextDecode.
  Variable st : vstyle.
  Hypothesis Hok : vstyle_ok st = true.
  Hypothesis Hd : vstyle_distinct st = true.

  Let w := vs_width st.

  Lemma style_lengths : length (vs_branch st) = w /\ length (vs_final st) = w /\ length (vs_gap st) = w.
  Proof.
    unfold vstyle_ok in Hok. apply andb_true_iff in Hok as [H1 H2].
    apply Nat.eqb_eq in H1. apply Nat.eqb_eq in H2. unfold w, vs_width, vs_gap, spaces.
    rewrite repeat_length. lia.
  Qed.

  Lemma style_distinct :
    str_eqb (vs_stem st) (vs_branch st) = false /\ str_eqb (vs_stem st) (vs_final st) = false
    /\ str_eqb (vs_gap st) (vs_branch st) = false /\ str_eqb (vs_gap st) (vs_final st) = false.
  Proof.
    unfold vstyle_distinct in Hd. repeat (apply andb_true_iff in Hd as [Hd ?]).
    repeat match goal with H : negb _ = true |- _ => apply negb_true_iff in H end.
    repeat split; rewrite str_eqb_sym; assumption.
  Qed.

  Lemma parse_cells anc : forall fuel cells rest,
    length anc < fuel ->
    v_parse_line fuel st cells (concat (map (vcell st) anc) ++ rest)
    = v_parse_line (fuel - length anc) st (cells + length anc) rest.
  Proof.
    destruct style_lengths as [LB [LF LG]]. destruct style_distinct as [D1 [D2 [D3 D4]]].
    induction anc as [|b anc IH]; intros fuel cells rest Hf.
    - cbn [map concat app length]. rewrite Nat.sub_0_r, Nat.add_0_r. reflexivity.
    - destruct fuel as [|f]; [cbn in Hf; lia|]. cbn [map concat]. rewrite <- app_assoc.
      cbn [v_parse_line]. fold w.
      assert (LC : length (vcell st b) = w) by (destruct b; [reflexivity|exact LG]).
      cbv zeta. rewrite <- LC. rewrite firstn_app_exact, !skipn_app_exact.
      replace (str_eqb (vcell st b) (vs_branch st)) with false by (destruct b; cbn [vcell]; congruence).
      replace (str_eqb (vcell st b) (vs_final st)) with false by (destruct b; cbn [vcell]; congruence).
      assert (HO : str_eqb (vcell st b) (vs_stem st) || str_eqb (vcell st b) (vs_gap st) = true)
        by (destruct b; cbn [vcell]; rewrite str_eqb_refl; [reflexivity|apply orb_true_r]).
      rewrite HO. cbn [orb]. cbn [length] in Hf. rewrite IH by lia. cbn [length].
      replace (S f - S (length anc)) with (f - length anc) by lia.
      replace (S cells + length anc) with (cells + S (length anc)) by lia. reflexivity.
  Qed.

  Lemma parse_row r :
    vr_depth r = S (length (vr_anc r)) ->
    v_parse_line (S (length (line_of (vline_of st r)))) st 0 (line_of (vline_of st r))
    = Some (vr_depth r, vr_name r).
  Proof.
    intros Hdep. destruct style_lengths as [LB [LF LG]].
    unfold vline_of, line_of.
    assert (Hw : w <> 0).
    { unfold vstyle_distinct in Hd. repeat (apply andb_true_iff in Hd as [Hd ?]).
      apply negb_true_iff in Hd. apply Nat.eqb_neq in Hd. exact Hd. }
    rewrite parse_cells.
    - set (fill := if vr_sib r then vs_branch st else vs_final st).
      assert (LFi : length fill = w) by (unfold fill; destruct (vr_sib r); assumption).
      match goal with |- v_parse_line ?f _ _ _ = _ => destruct f as [|f'] eqn:EF end.
      + exfalso. rewrite !app_length, length_cells in EF. fold w in EF.
        assert (length (vr_anc r) <= w * length (vr_anc r)) by (destruct w; [contradiction|]; nia).
        lia.
      + cbn [v_parse_line]. fold w. cbv zeta. rewrite <- LFi. rewrite firstn_app_exact, !skipn_app_exact.
        assert (HO : str_eqb fill (vs_branch st) || str_eqb fill (vs_final st) = true)
          by (unfold fill; destruct (vr_sib r); rewrite str_eqb_refl; [reflexivity|apply orb_true_r]).
        rewrite HO, Hdep. reflexivity.
    - rewrite !app_length, length_cells. fold w.
      assert (length (vr_anc r) <= w * length (vr_anc r)) by (destruct w; [contradiction|]; nia).
      lia.
  Qed.

  Theorem v_text_decodable_model t : v_text_decodable st t (print_lines st t) = true.
  Proof.
    unfold v_text_decodable. rewrite Hd. cbn [negb orb].
    unfold print_lines, v_decode_text. rewrite yield_lines_spec. cbn [map line_of app].
    rewrite !map_map.
    rewrite (opt_all_map_some _ (fun r => (vr_depth r, vr_name r))).
    - destruct t as [g n a ks]. rewrite vrows_root_eq. cbn [tkids tname].
      rewrite (vrows_kids_plist ks 0 []).
      change ((0, n) :: plist_kids 1 ks) with (plist 0 (T g n a ks)).
      replace (plist 0 (T g n a ks)) with (plist_kids 0 [T g n a ks])
        by (rewrite plist_kids_cons; apply app_nil_r).
      rewrite forest_of_pre_plist.
      + cbn [map]. apply same_names_erase.
      + cbn [fsize fold_right length]. rewrite Nat.add_0_r, map_length.
        rewrite <- (map_length vr_name), vrows_kids_names, map_length.
        rewrite <- pre_length. cbn [pre length]. lia.
    - intros r Hr. apply parse_row. apply (vrows_root_depth t r Hr).
  Qed.
End TextDecode.

(* ============================================================================================== *)
(* 12. horizontal rendering: column bands *)

(* width of the band of depth d including its connector column *)
Definition cellw (inter : bool) (ws : list nat) (d : nat) : nat :=
  S (if inter then pad_at ws d + 4 else 3).
(* offset of the band of depth d+n relative to the band of depth d *)
Fixpoint colw (inter : bool) (ws : list nat) (d n : nat) : nat :=
  match n with 0 => 0 | S n' => cellw inter ws d + colw inter ws (S d) n' end.

(* per row of the block of t: the leaf cell the row ends in and the depth of that leaf relative to
   t (a separating row: no cell, it ends right after t's own band) *)
Definition up (e : str * nat) : str * nat := (fst e, S (snd e)).

Fixpoint hends (st : hstyle) (ws : list nat) (d : nat) (t : tree) : list (str * nat) :=
  match t with
  | T _ _ _ ks =>
      if is_hole t || negb (existsb real ks) then [(hleaf_cell st ws d t, 0)]
      else
        let es := (fix go (l : list tree) : list (list (str * nat)) :=
                     match l with [] => [] | k :: r => map up (hends st ws (S d) k) :: go r end) ks in
        match es with
        | [[e0]; [e1]] => [e0; ([], 1); e1]
        | _ => concat es
        end
  end.

Lemma hends_eq st ws d g n a ks :
  hends st ws d (T g n a ks) =
  if is_hole (T g n a ks) || negb (existsb real ks) then [(hleaf_cell st ws d (T g n a ks), 0)]
  else let es := map (fun k => map up (hends st ws (S d) k)) ks in
       match es with
       | [[e0]; [e1]] => [e0; ([], 1); e1]
       | _ => concat es
       end.
Proof.
  cbn [hends].
  replace ((fix go (l : list tree) : list (list (str * nat)) :=
              match l with [] => [] | k :: r => map up (hends st ws (S d) k) :: go r end) ks)
    with (map (fun k => map up (hends st ws (S d) k)) ks); [reflexivity|].
  induction ks as [|k r IH]; [reflexivity|]. cbn [map]. rewrite IH. reflexivity.
Qed.

Lemma hends_suffixes st ws : forall t d, map fst (hends st ws d t) = hsuffixes st ws d t.
Proof.
  induction t as [g n a ks IH] using tree_ind'. intros d.
  rewrite hends_eq, hsuffixes_eq. cbv zeta.
  destruct (is_hole (T g n a ks) || negb (existsb real ks)); [reflexivity|].
  assert (HK : map (map fst) (map (fun k => map up (hends st ws (S d) k)) ks)
               = map (hsuffixes st ws (S d)) ks).
  { rewrite map_map. apply map_ext_in. intros k Hk. rewrite map_map. cbn [up fst].
    rewrite Forall_forall in IH. apply (IH k Hk). }
  rewrite <- HK. generalize (map (fun k => map up (hends st ws (S d) k)) ks) as es. intros es.
  assert (HC : map fst (concat es) = concat (map (map fst) es)).
  { clear. induction es as [|x es IH]; [reflexivity|]. cbn [concat map]. rewrite map_app, IH. reflexivity. }
  destruct es as [|[|e0 [|? ?]] [|[|e1 [|? ?]] [|? ?]]]; try exact HC; reflexivity.
Qed.

(* names fit into the band of their depth (nothing is asked of an empty slot) *)
Fixpoint fits (ws : list nat) (d : nat) (t : tree) : Prop :=
  match t with
  | T g n a ks =>
      if is_hole (T g n a ks) then True
      else length n <= pad_at ws d
           /\ (fix go (l : list tree) : Prop :=
                 match l with [] => True | k :: r => fits ws (S d) k /\ go r end) ks
  end.
Lemma fits_eq ws d g n a ks :
  is_hole (T g n a ks) = false ->
  (fits ws d (T g n a ks) <-> length n <= pad_at ws d /\ Forall (fits ws (S d)) ks).
Proof.
  intros Hh. cbn [fits]. rewrite Hh. clear Hh. split; intros [H1 H2]; split; try exact H1; clear H1.
  - induction ks as [|k r IH]; [constructor|]. destruct H2 as [Hk Hr]. constructor; [exact Hk|apply IH; exact Hr].
  - induction H2 as [|k r Hk Hr IH]; [exact I|]. split; [exact Hk|exact IH].
Qed.
Lemma fits_hole ws d t : is_hole t = true -> fits ws d t.
Proof. destruct t as [g n a ks]. intros H. cbn [fits]. rewrite H. exact I. Qed.

Lemma center_length s w : length s <= w -> length (center s w) = w.
Proof.
  intros H. unfold center, spaces. rewrite !app_length, !repeat_length.
  set (marg := w - length s).
  pose proof (Nat.div2_odd marg) as HD.
  destruct (Nat.odd marg); destruct (Nat.odd w); cbn [andb Nat.b2n] in *; lia.
Qed.

Lemma zip_with_app_lengths {B} (L : nat) (g : B -> nat) pre : forall Q E,
  Forall (fun p : str => length p = L) pre ->
  Forall2 (fun (p : str) e => L + length p = g e) Q E ->
  length Q <= length pre ->
  Forall2 (fun (p : str) e => length p = g e) (zip_with (@app N) pre Q) E.
Proof.
  induction pre as [|a pre IH]; intros Q E HP HF HL.
  - destruct Q; [|cbn in HL; lia]. inversion HF; subst. constructor.
  - inversion HF as [|q e Q' E' Hq HF']; subst; [constructor|].
    inversion HP; subst. cbn [zip_with]. constructor.
    + rewrite app_length. unfold str in *. lia.
    + apply IH; auto. cbn in HL. lia.
Qed.

Lemma Forall2_concat {A B} (R : A -> B -> Prop) (X : list (list A)) (Y : list (list B)) :
  Forall2 (Forall2 R) X Y -> Forall2 R (concat X) (concat Y).
Proof.
  induction 1 as [|x y X' Y' H HF IH]; [constructor|]. cbn [concat].
  apply Forall2_app; assumption.
Qed.

Lemma Forall2_length_eq {A B} (R : A -> B -> Prop) l1 l2 : Forall2 R l1 l2 -> length l1 = length l2.
Proof. induction 1; cbn; congruence. Qed.

Lemma hends_length st ws t d : length (hends st ws d t) = hrows t.
Proof. rewrite <- (map_length fst), hends_suffixes. apply hsuffixes_length. Qed.

Lemma gap_test_iff (b0 b1 : hblock) :
  blk_good b0 -> blk_good b1 ->
  (Nat.eqb (length (fst (fst b0)) + snd (fst b1) - snd (fst b0)) 1 = true
   <-> blk_rows b0 = 1 /\ blk_rows b1 = 1).
Proof.
  intros [_ [A0 B0]] [_ [A1 B1]]. unfold blk_rows, blk_mid in *. rewrite Nat.eqb_eq.
  unfold hblock, str in *. lia.
Qed.

Lemma concat_map_fst {A B} (es : list (list (A * B))) :
  map fst (concat es) = concat (map (map fst) es).
Proof. induction es as [|x es IH]; [reflexivity|]. cbn [concat map]. rewrite map_app, IH. reflexivity. Qed.

Lemma Forall2_weaken {A B} (R1 R2 : A -> B -> Prop) l1 l2 :
  (forall a b, R1 a b -> R2 a b) -> Forall2 R1 l1 l2 -> Forall2 R2 l1 l2.
Proof. intros H. induction 1; constructor; auto. Qed.

Lemma Forall2_map_r {A B C} (R : A -> C -> Prop) (f : B -> C) l1 l2 :
  Forall2 (fun a b => R a (f b)) l1 l2 -> Forall2 R l1 (map f l2).
Proof. induction 1; cbn; constructor; auto. Qed.

Definition gap_match (es : list (list (str * nat))) : list (str * nat) :=
  match es with
  | [[e0]; [e1]] => [e0; ([], 1); e1]
  | _ => concat es
  end.

Lemma gap_match_plain es :
  ~ (exists e0 e1, es = [[e0]; [e1]]) -> gap_match es = concat es.
Proof.
  intros H. destruct es as [|[|e0 [|? ?]] [|[|e1 [|? ?]] [|? ?]]]; try reflexivity.
  exfalso. apply H. eauto.
Qed.

Lemma classic_gap (es : list (list (str * nat))) :
  (exists e0 e1, es = [[e0]; [e1]]) \/ ~ (exists e0 e1, es = [[e0]; [e1]]).
Proof.
  destruct es as [|[|e0 [|? ?]] [|[|e1 [|? ?]] [|? ?]]];
    try (right; intros [x [y H]]; discriminate). left. eauto.
Qed.

Section Bands.
  Variables (st : hstyle) (inter : bool) (ws : list nat).

  Definition band_ok (d : nat) (t : tree) (P : list str) : Prop :=
    fst (fst (hbranch st inter ws d t)) = zip_with (@app N) P (map fst (hends st ws d t))
    /\ Forall2 (fun (p : str) e => length p = colw inter ws d (snd e)) P (hends st ws d t).

  (* the children's rows, child by child *)
  Lemma bands_kids ks d :
    Forall (fun k => exists P, band_ok (S d) k P) ks ->
    exists Ps,
      Forall2 (Forall2 (fun (p : str) e => length p = colw inter ws (S d) (snd e))) Ps
              (map (hends st ws (S d)) ks)
      /\ map (fun x : hblock => fst (fst x)) (map (hbranch st inter ws (S d)) ks)
         = map (fun ps : list str * list str => zip_with (@app N) (fst ps) (snd ps))
               (combine Ps (map (fun k => map fst (hends st ws (S d) k)) ks)).
  Proof.
    induction 1 as [|k r [P [E F]] Hr [Ps [FF EE]]].
    - exists []. split; [constructor|reflexivity].
    - exists (P :: Ps). split; [constructor; assumption|].
      cbn [map combine fst snd]. rewrite E, EE. reflexivity.
  Qed.

  Theorem hbranch_bands : forall t d,
    (inter = true -> fits ws d t) -> exists P, band_ok d t P.
  Proof.
    induction t as [g n a ks IH] using tree_ind'. intros d HFit.
    unfold band_ok. rewrite hbranch_eq, hends_eq. cbv zeta.
    fold (gap_match (map (fun k => map up (hends st ws (S d) k)) ks)).
    destruct (is_hole (T g n a ks) || negb (existsb real ks)) eqn:E.
    - exists [[]]. split; [reflexivity|]. constructor; [reflexivity|constructor].
    - apply orb_false_iff in E as [Ehole Ereal]. apply negb_false_iff in Ereal.
      rewrite Ehole.
      set (centered := center n (pad_at ws d)).
      set (sub := map (hbranch st inter ws (S d)) ks).
      set (es := map (fun k => map up (hends st ws (S d) k)) ks).
      assert (Hne : sub <> []).
      { unfold sub. destruct ks; [discriminate|discriminate]. }
      (* children *)
      assert (HK : Forall (fun k => exists P, band_ok (S d) k P) ks).
      { apply Forall_forall. intros k Hk. rewrite Forall_forall in IH. apply (IH k Hk).
        intros Hi. specialize (HFit Hi). apply (fits_eq _ _ _ _ _ _ Ehole) in HFit as [_ HF].
        rewrite Forall_forall in HF. apply HF. exact Hk. }
      destruct (bands_kids ks d HK) as [Ps [FF EM]]. fold sub in EM.
      (* the prefix column *)
      destruct (hassemble_shape st inter centered sub Hne) as [prefix [EH HW]].
      assert (HL : S (length (hnode_str st inter centered)) = cellw inter ws d).
      { unfold hnode_str, cellw. destruct inter; [|reflexivity].
        rewrite !app_length. unfold centered. rewrite center_length.
        - cbn [length]. lia.
        - specialize (HFit eq_refl). apply (fits_eq _ _ _ _ _ _ Ehole) in HFit as [H1 _]. exact H1. }
      rewrite HL in HW.
      assert (HG : Forall blk_good sub).
      { unfold sub. apply Forall_forall. intros b Hb. apply in_map_iff in Hb as [k [<- Hk]].
        apply (hbranch_good st inter ws k (S d)). }
      assert (HRows : blk_rows (hassemble st inter centered sub) = length (gap_match es)).
      { pose proof (hbranch_good st inter ws (T g n a ks) d) as [_ R].
        rewrite hbranch_eq in R. cbv zeta in R. rewrite Ehole, Ereal in R. cbn [orb negb] in R.
        fold centered sub in R. rewrite R.
        pose proof (hends_length st ws (T g n a ks) d) as HE. rewrite hends_eq in HE. cbv zeta in HE.
        rewrite Ehole, Ereal in HE. cbn [orb negb] in HE. fold es in HE. fold (gap_match es) in HE.
        symmetry. exact HE. }
      assert (HS : map (map fst) es = map (fun k => map fst (hends st ws (S d) k)) ks).
      { unfold es. rewrite map_map. apply map_ext. intros k. rewrite map_map. reflexivity. }
      assert (FL : Forall2 (fun (p s : list str) => length p = length s) Ps
                           (map (fun k => map fst (hends st ws (S d) k)) ks)).
      { clear -FF. revert Ps FF. induction ks as [|k r IHr]; intros Ps FF; inversion FF; subst; constructor.
        - rewrite map_length. eapply Forall2_length_eq. eassumption.
        - apply IHr. assumption. }
      assert (FE : Forall2 (fun (p : str) e => cellw inter ws d + length p = colw inter ws d (snd e))
                           (concat Ps) (concat es)).
      { apply Forall2_concat. unfold es. clear -FF. revert Ps FF.
        induction ks as [|k r IHr]; intros Ps FF; inversion FF; subst; constructor.
        - apply Forall2_map_r. eapply Forall2_weaken; [|eassumption].
          intros p e H. cbn [up snd colw]. rewrite H. reflexivity.
        - apply IHr. assumption. }
      assert (ERes : concat (map (fun x : hblock => fst (fst x)) sub)
                     = zip_with (@app N) (concat Ps) (map fst (concat es))).
      { pose proof (zip_with_app_concat _ _ FL) as EC. rewrite EM. unfold str in *.
        rewrite EC, concat_map_fst, HS. reflexivity. }
      assert (HLen : length (concat Ps) = length (concat es)) by (eapply Forall2_length_eq; exact FE).
      assert (ES0 : sub = map (hbranch st inter ws (S d)) ks) by reflexivity.
      assert (EE0 : es = map (fun k => map up (hends st ws (S d) k)) ks) by reflexivity.
      clearbody sub es.
      assert (HRL : length (fst (fst (hassemble st inter centered sub))) = length (gap_match es))
        by exact HRows.
      destruct (classic_gap es) as [[e0 [e1 Ees]]|Hng].
      + (* two children of one row each: a separating row *)
        subst es. destruct ks as [|k0 [|k1 [|k2 r]]]; try discriminate.
        cbn [map] in *. injection Ees as Ee0 Ee1.
        subst sub.
        inversion FF as [|P0 ? Ps' ? F0 FF']; subst. inversion FF' as [|P1 ? Ps'' ? F1 FF'']; subst.
        inversion FF''; subst.
        destruct (hends st ws (S d) k0) as [|x0 [|? ?]] eqn:EK0; try discriminate.
        destruct (hends st ws (S d) k1) as [|x1 [|? ?]] eqn:EK1; try discriminate.
        inversion F0 as [|p0 ? ? ? L0 F0']; subst. inversion F0'; subst.
        inversion F1 as [|p1 ? ? ? L1 F1']; subst. inversion F1'; subst.
        cbn [map up] in Ee0, Ee1. injection Ee0 as <-. injection Ee1 as <-.
        inversion HG as [|? ? G0 HG1]; subst. inversion HG1 as [|? ? G1 _]; subst.
        assert (HT : Nat.eqb (length (fst (fst (hbranch st inter ws (S d) k0)))
                              + snd (fst (hbranch st inter ws (S d) k1))
                              - snd (fst (hbranch st inter ws (S d) k0))) 1 = true).
        { apply (gap_test_iff _ _ G0 G1). split.
          - rewrite (proj2 (hbranch_good st inter ws k0 (S d))), <- (hends_length st ws k0 (S d)), EK0. reflexivity.
          - rewrite (proj2 (hbranch_good st inter ws k1 (S d))), <- (hends_length st ws k1 (S d)), EK1. reflexivity. }
        cbv zeta in EH. rewrite HT in EH. rewrite ERes in EH.
        cbn [concat app map fst zip_with nth gap_match] in EH, HRL |- *.
        rewrite EH in HRL. rewrite zip_with_length in HRL. cbn [length] in HRL.
        destruct prefix as [|a0 [|a1 [|a2 rest']]]; try (cbn in HRL; lia).
        exists [a0 ++ p0; a1; a2 ++ p1]. split.
        * rewrite EH. cbn [zip_with up fst]. rewrite <- !app_assoc, !app_nil_r.
          destruct rest'; reflexivity.
        * inversion HW as [|? ? W0 HW1]; subst. inversion HW1 as [|? ? W1 HW2]; subst.
          inversion HW2 as [|? ? W2 _]; subst.
          cbn [concat app] in FE. inversion FE as [|? ? ? ? Q0 FE1]; subst.
          inversion FE1 as [|? ? ? ? Q1 _]; subst.
          constructor; [|constructor; [|constructor; [|constructor]]].
          -- rewrite app_length. unfold str in *. lia.
          -- cbn [snd colw]. unfold str in *. lia.
          -- rewrite app_length. unfold str in *. lia.
      + (* the general case: every row of a child keeps its place *)
        rewrite (gap_match_plain es Hng) in *.
        assert (EH' : fst (fst (hassemble st inter centered sub))
                      = zip_with (@app N) prefix (concat (map (fun x : hblock => fst (fst x)) sub))).
        { cbv zeta in EH. destruct sub as [|b0 [|b1 [|b2 rest]]]; try exact EH.
          destruct (Nat.eqb (length (fst (fst b0)) + snd (fst b1) - snd (fst b0)) 1) eqn:EG; [|exact EH].
          exfalso. apply Hng.
          inversion HG as [|? ? G0 HG1]; subst. inversion HG1 as [|? ? G1 _]; subst.
          apply (gap_test_iff _ _ G0 G1) in EG as [R0 R1].
          destruct ks as [|k0 [|k1 [|k2 r]]]; try discriminate.
          cbn [map] in ES0. injection ES0 as -> ->. cbn [map].
          rewrite (proj2 (hbranch_good st inter ws k0 (S d))), <- (hends_length st ws k0 (S d)) in R0.
          rewrite (proj2 (hbranch_good st inter ws k1 (S d))), <- (hends_length st ws k1 (S d)) in R1.
          destruct (hends st ws (S d) k0) as [|x0 [|? ?]]; try discriminate.
          destruct (hends st ws (S d) k1) as [|x1 [|? ?]]; try discriminate.
          cbn [map]. eauto. }
        rewrite ERes, zip_with_app_assoc in EH'.
        exists (zip_with (@app N) prefix (concat Ps)). split; [exact EH'|].
        apply (zip_with_app_lengths (cellw inter ws d) (fun e : str * nat => colw inter ws d (snd e)));
          [exact HW|exact FE|].
        rewrite EH' in HRL. rewrite !zip_with_length, map_length in HRL.
        unfold str in *. lia.
  Qed.
End Bands.


(* the widths computed by hyield_tree (longest name of every level) do fit *)
Lemma max_list_ge l x : In x l -> x <= max_list l.
Proof.
  induction l as [|y l IH]; intros Hin; [destruct Hin|].
  unfold max_list in *. cbn [fold_right]. destruct Hin as [<-|H].
  - apply Nat.le_max_l.
  - specialize (IH H). lia.
Qed.

Lemma level_height : forall k t, level k t <> [] -> k < height t.
Proof.
  induction k as [|k IH]; intros [g n a ks] H; cbn [height]; [lia|].
  cbn [level tkids] in H. apply -> Nat.succ_lt_mono.
  induction ks as [|x ks IHk]; [contradiction|]. cbn [flat_map fold_right] in *.
  destruct (level k x) as [|y l] eqn:E.
  - cbn [app] in H. specialize (IHk H). lia.
  - assert (k < height x) by (apply IH; rewrite E; discriminate). lia.
Qed.

Definition compact_kids (ks : list tree) : list tree :=
  (fix go (l : list tree) : list tree :=
     match l with [] => [] | k :: r => if is_hole k then go r else compact k :: go r end) ks.
Lemma compact_eq g n a ks : compact (T g n a ks) = T g n a (compact_kids ks).
Proof. reflexivity. Qed.
Lemma compact_kids_in k ks : In k ks -> is_hole k = false -> In (compact k) (compact_kids ks).
Proof.
  induction ks as [|x ks IH]; intros Hin Hk; [destruct Hin|]. cbn. destruct Hin as [->|H].
  - rewrite Hk. left. reflexivity.
  - destruct (is_hole x); [|right]; apply IH; assumption.
Qed.

Lemma level_kid k x ks y : In x ks -> In y (level k x) -> In y (flat_map (level k) ks).
Proof. intros Hx Hy. apply in_flat_map. exists x. split; assumption. Qed.

(* if every name of level k of the existing nodes is at most pad_at ws (d + k) long, all names fit *)
Lemma fits_of_levels (ws : list nat) : forall t d,
  (forall k x, In x (level k (compact t)) -> length (tname x) <= pad_at ws (d + k)) ->
  fits ws d t.
Proof.
  induction t as [g n a ks IH] using tree_ind'. intros d HL.
  destruct (is_hole (T g n a ks)) eqn:Hh; [apply fits_hole; exact Hh|].
  apply (fits_eq _ _ _ _ _ _ Hh). split.
  - specialize (HL 0 (compact (T g n a ks))). rewrite Nat.add_0_r in HL.
    apply HL. left. reflexivity.
  - apply Forall_forall. intros k Hk.
    destruct (is_hole k) eqn:EK; [apply fits_hole; exact EK|].
    rewrite Forall_forall in IH. apply (IH k Hk (S d)).
    intros j x Hx. replace (S d + j) with (d + S j) by lia. apply HL.
    rewrite compact_eq. cbn [level tkids].
    apply (level_kid j (compact k)); [|exact Hx]. apply compact_kids_in; assumption.
Qed.

Lemma padding_depths_fits t : fits (padding_depths true t) 1 t.
Proof.
  apply fits_of_levels. intros k x Hx. unfold pad_at. cbn [Nat.add Nat.sub]. rewrite Nat.sub_0_r.
  unfold padding_depths.
  assert (Hk : k < height (compact t)) by (apply level_height; intros E; rewrite E in Hx; destruct Hx).
  rewrite (nth_indep _ 0 (level_width (compact t) 0)) by (rewrite map_length, seq_length; exact Hk).
  rewrite map_nth, seq_nth by exact Hk. cbn [Nat.add].
  unfold level_width. apply max_list_ge. apply in_map_iff. exists x. split; [reflexivity|exact Hx].
Qed.

(* column bands of hyield_tree: every row is (cells of the bands 1 .. e-1) ++ (cell of a leaf of
   depth e); the band of depth d+1 begins cellw d columns after the band of depth d *)
Theorem hyield_bands st inter t :
  exists rows P, hyield_rows st inter t = Ret rows
    /\ rows = zip_with (@app N) P (map fst (hends st (padding_depths inter t) 1 t))
    /\ Forall2 (fun (p : str) e => length p = colw inter (padding_depths inter t) 1 (snd e))
               P (hends st (padding_depths inter t) 1 t).
Proof.
  destruct (hyield_rows_spec st inter t) as [rows [ER _]].
  destruct (hbranch_bands st inter (padding_depths inter t) t 1) as [P [EP FP]].
  { intros ->. apply padding_depths_fits. }
  exists rows, P. split; [exact ER|].
  unfold hyield_rows in ER.
  destruct (hbranch st inter (padding_depths inter t) 1 t) as [[rows' mid] ok].
  destruct ok; [|discriminate]. inversion ER; subst rows'. cbn [fst] in EP. split; assumption.
Qed.

(* ============================================================================================== *)
(* 13. horizontal rendering: the connector column joins a parent to exactly its children *)

Lemma map_seq_app {A} (F : nat -> A) a x y :
  map F (seq a (x + y)) = map F (seq a x) ++ map F (seq (a + x) y).
Proof. rewrite seq_app, map_app. reflexivity. Qed.

Lemma map_seq_const {A} (F : nat -> A) c a k :
  (forall i, a <= i < a + k -> F i = c) -> map F (seq a k) = repeat c k.
Proof.
  revert a. induction k as [|k IH]; intros a H; [reflexivity|]. cbn [seq map repeat]. f_equal.
  - apply H. lia.
  - apply IH. intros i Hi. apply H. lia.
Qed.

Lemma set_nth_map_seq {A} (F : nat -> A) X n : forall a m, m < n ->
  set_nth m X (map F (seq a n)) = map (fun i => if Nat.eqb i (a + m) then X else F i) (seq a n).
Proof.
  induction n as [|n IH]; intros a m Hm; [lia|]. cbn [seq map]. destruct m as [|m]; cbn [set_nth].
  - rewrite Nat.add_0_r, Nat.eqb_refl. f_equal. apply map_ext_in. intros i Hi. apply in_seq in Hi.
    replace (Nat.eqb i a) with false; [reflexivity|]. symmetry. apply Nat.eqb_neq. lia.
  - replace (Nat.eqb a (a + S m)) with false by (symmetry; apply Nat.eqb_neq; lia). f_equal.
    rewrite IH by lia. apply map_ext. intros i. replace (S a + m) with (a + S m) by lia. reflexivity.
Qed.

Lemma incr_tail a B : incr (a :: B) -> incr B.
Proof. destruct B as [|b B]; [intros; exact I|]. intros [_ H]. exact H. Qed.

Lemma incr_lt a B : incr (a :: B) -> forall x, In x B -> a < x.
Proof.
  revert a. induction B as [|b B IH]; intros a H x Hx; [destruct Hx|].
  destruct H as [Hab H]. destruct Hx as [<-|Hx]; [exact Hab|]. specialize (IH b H x Hx). lia.
Qed.

Lemma incr_le_last a B : incr (a :: B) -> forall x, In x (a :: B) -> x <= List.last (a :: B) 0.
Proof.
  revert a. induction B as [|b B IH]; intros a H x Hx.
  - destruct Hx as [<-|[]]. cbn. lia.
  - change (List.last (a :: b :: B) 0) with (List.last (b :: B) 0). destruct H as [Hab H].
    destruct Hx as [<-|Hx].
    + assert (b <= List.last (b :: B) 0) by (apply IH; [exact H|left; reflexivity]). lia.
    + apply IH; assumption.
Qed.

Lemma memb_false i B : (forall x, In x B -> x <> i) -> memb i B = false.
Proof.
  intros H. unfold memb. destruct (existsb (Nat.eqb i) B) eqn:E; [|reflexivity].
  apply existsb_exists in E as [x [Hx Ex]]. apply Nat.eqb_eq in Ex. subst. exfalso. apply (H x Hx). reflexivity.
Qed.
Lemma memb_true i B : In i B -> memb i B = true.
Proof. intros H. unfold memb. apply existsb_exists. exists i. split; [exact H|apply Nat.eqb_refl]. Qed.

Section Connectors.
  Variable st : hstyle.

  (* the connector icon of row i of a block whose children have their branch rows at B (increasing)
     and whose own branch row is mid *)
  Definition conn (B : list nat) (mid i : nat) : N :=
    let lo := hd 0 B in
    let hi := List.last B 0 in
    if memb i B then
      if Nat.eqb i mid then match B with [_] => hs_branch st | _ => hs_middle st end
      else if Nat.eqb i lo then hs_first st
      else if Nat.eqb i hi then hs_last st else hs_subseq st
    else if Nat.ltb lo i && Nat.ltb i hi then (if Nat.eqb i mid then hs_split st else hs_stem st)
    else 32%N.

  (* the same before the parent's own row is written *)
  Definition conn0 (B : list nat) (i : nat) : N :=
    let lo := hd 0 B in
    let hi := List.last B 0 in
    if memb i B then
      if Nat.eqb i lo then hs_first st else if Nat.eqb i hi then hs_last st else hs_subseq st
    else if Nat.ltb lo i && Nat.ltb i hi then hs_stem st else 32%N.

  Variable pad : str.
  Let P (g : N) : str := pad ++ [g].

  Definition diffs (B : list nat) : list nat := zip_with (fun a b => b - a - 1) B (tl B).

  Definition tailseg (B : list nat) : list str :=
    concat (map (fun n => repeat (P (hs_stem st)) n ++ [P (hs_subseq st)]) (removelast (diffs B)))
    ++ repeat (P (hs_stem st)) (List.last (diffs B) 0) ++ [P (hs_last st)].

  Lemma conn0_shift b0 b1 B i :
    incr (b0 :: b1 :: B) -> b1 < i -> conn0 (b0 :: b1 :: B) i = conn0 (b1 :: B) i.
  Proof.
    intros HI Hi. unfold conn0.
    change (List.last (b0 :: b1 :: B) 0) with (List.last (b1 :: B) 0). cbn [hd].
    destruct HI as [H01 HI].
    assert (Em : memb i (b0 :: b1 :: B) = memb i (b1 :: B)).
    { unfold memb. cbn [existsb]. replace (Nat.eqb i b0) with false; [reflexivity|].
      symmetry. apply Nat.eqb_neq. lia. }
    rewrite Em.
    replace (Nat.eqb i b0) with false by (symmetry; apply Nat.eqb_neq; lia).
    replace (Nat.eqb i b1) with false by (symmetry; apply Nat.eqb_neq; lia).
    replace (Nat.ltb b0 i) with true by (symmetry; apply Nat.ltb_lt; lia).
    replace (Nat.ltb b1 i) with true by (symmetry; apply Nat.ltb_lt; lia).
    reflexivity.
  Qed.

  Lemma tailseg_spec : forall B b0,
    incr (b0 :: B) -> B <> [] ->
    tailseg (b0 :: B) = map (fun i => P (conn0 (b0 :: B) i)) (seq (S b0) (List.last (b0 :: B) 0 - b0)).
  Proof.
    induction B as [|b1 B IH]; intros b0 HI HN; [contradiction|].
    destruct B as [|b2 B].
    - (* two branch rows: stems, then the last child *)
      destruct HI as [H01 _]. unfold tailseg, diffs. cbn [tl zip_with removelast map concat List.last app].
      set (k := b1 - b0 - 1). replace (b1 - b0) with (k + 1) by (unfold k; lia). rewrite map_seq_app. f_equal.
      + symmetry. apply map_seq_const. intros i Hi. unfold k in Hi. unfold conn0. cbn [hd List.last].
        rewrite memb_false by (intros x [<-|[<-|[]]]; lia).
        replace (Nat.ltb b0 i) with true by (symmetry; apply Nat.ltb_lt; lia).
        replace (Nat.ltb i b1) with true by (symmetry; apply Nat.ltb_lt; lia). reflexivity.
      + cbn [seq map]. replace (S b0 + k) with b1 by (unfold k; lia). unfold conn0. cbn [hd List.last].
        rewrite memb_true by (right; left; reflexivity).
        replace (Nat.eqb b1 b0) with false by (symmetry; apply Nat.eqb_neq; lia).
        rewrite Nat.eqb_refl. reflexivity.
    - (* a middle child, then the rest *)
      pose proof HI as [H01 HI1]. pose proof HI1 as [H12 _].
      assert (Hl : b2 <= List.last (b2 :: B) 0).
      { apply (incr_le_last b2 B); [apply (incr_tail b1); exact HI1|left; reflexivity]. }
      unfold tailseg, diffs.
      change (tl (b0 :: b1 :: b2 :: B)) with (b1 :: b2 :: B).
      change (zip_with (fun a b => b - a - 1) (b0 :: b1 :: b2 :: B) (b1 :: b2 :: B))
        with ((b1 - b0 - 1) :: zip_with (fun a b => b - a - 1) (b1 :: b2 :: B) (tl (b1 :: b2 :: B))).
      fold (diffs (b1 :: b2 :: B)).
      assert (HD : diffs (b1 :: b2 :: B) <> []) by (unfold diffs; cbn; discriminate).
      destruct (diffs (b1 :: b2 :: B)) as [|x xs] eqn:ED; [contradiction|].
      change (removelast ((b1 - b0 - 1) :: x :: xs)) with ((b1 - b0 - 1) :: removelast (x :: xs)).
      change (List.last ((b1 - b0 - 1) :: x :: xs) 0) with (List.last (x :: xs) 0).
      cbn [map concat]. rewrite <- !app_assoc.
      specialize (IH b1 HI1 ltac:(discriminate)). unfold tailseg in IH. rewrite ED in IH.
      rewrite IH.
      change (List.last (b0 :: b1 :: b2 :: B) 0) with (List.last (b2 :: B) 0).
      change (List.last (b1 :: b2 :: B) 0) with (List.last (b2 :: B) 0).
      replace (List.last (b2 :: B) 0 - b0)
        with ((b1 - b0 - 1) + (1 + (List.last (b2 :: B) 0 - b1))) by lia.
      rewrite !map_seq_app. f_equal; [|f_equal].
      + symmetry. apply map_seq_const. intros i Hi. unfold conn0. cbn [hd].
        rewrite memb_false.
        * replace (Nat.ltb b0 i) with true by (symmetry; apply Nat.ltb_lt; lia).
          change (List.last (b0 :: b1 :: b2 :: B) 0) with (List.last (b2 :: B) 0).
          replace (Nat.ltb i (List.last (b2 :: B) 0)) with true by (symmetry; apply Nat.ltb_lt; lia).
          reflexivity.
        * intros y [<-|Hy]; [lia|]. assert (b1 <= y); [|lia].
          destruct Hy as [<-|Hy]; [lia|]. pose proof (incr_lt b1 (b2 :: B) HI1 y Hy). lia.
      + cbn [seq map]. replace (S b0 + (b1 - b0 - 1)) with b1 by lia. unfold conn0. cbn [hd].
        rewrite memb_true by (right; left; reflexivity).
        replace (Nat.eqb b1 b0) with false by (symmetry; apply Nat.eqb_neq; lia).
        change (List.last (b0 :: b1 :: b2 :: B) 0) with (List.last (b2 :: B) 0).
        replace (Nat.eqb b1 (List.last (b2 :: B) 0)) with false by (symmetry; apply Nat.eqb_neq; lia).
        reflexivity.
      + replace (S b0 + (b1 - b0 - 1) + 1) with (S b1) by lia.
        apply map_ext_in. intros i Hi. apply in_seq in Hi. f_equal. symmetry.
        apply conn0_shift; [exact HI|lia].
  Qed.

  (* the whole column before the parent's own row is written *)
  Lemma column_spec B b0 n :
    incr (b0 :: B) -> B <> [] -> List.last (b0 :: B) 0 < n ->
    repeat (P 32%N) b0 ++ [P (hs_first st)] ++ tailseg (b0 :: B)
      ++ repeat (P 32%N) (n - 1 - List.last (b0 :: B) 0)
    = map (fun i => P (conn0 (b0 :: B) i)) (seq 0 n).
  Proof.
    intros HI HN Hn. set (hi := List.last (b0 :: B) 0) in *.
    assert (Hb : b0 < hi).
    { destruct B as [|b1 B]; [contradiction|]. destruct HI as [H01 HI].
      pose proof (incr_le_last b1 B HI b1 (or_introl eq_refl)). unfold hi.
      change (List.last (b0 :: b1 :: B) 0) with (List.last (b1 :: B) 0). lia. }
    set (rest := n - 1 - hi). replace n with (b0 + (1 + ((hi - b0) + rest))) by (unfold rest; lia).
    rewrite !map_seq_app. cbn [Nat.add]. f_equal; [|f_equal; [|f_equal]].
    - symmetry. apply map_seq_const. intros i Hi. unfold conn0. cbn [hd].
      rewrite memb_false.
      + replace (Nat.ltb b0 i) with false by (symmetry; apply Nat.ltb_ge; lia). reflexivity.
      + intros y [<-|Hy]; [lia|]. pose proof (incr_lt b0 B HI y Hy). lia.
    - cbn [seq map]. unfold conn0. cbn [hd]. rewrite ?Nat.add_0_r.
      rewrite memb_true by (left; reflexivity). rewrite Nat.eqb_refl. reflexivity.
    - rewrite tailseg_spec by assumption. fold hi. replace (b0 + 1) with (S b0) by lia. reflexivity.
    - symmetry. apply map_seq_const. intros i Hi. unfold conn0. cbn [hd]. fold hi.
      rewrite memb_false.
      + replace (Nat.ltb i hi) with false by (symmetry; apply Nat.ltb_ge; lia). rewrite andb_false_r. reflexivity.
      + intros y Hy. pose proof (incr_le_last b0 B HI y Hy). fold hi in H. lia.
  Qed.
End Connectors.

Section ConnectorsOfBlocks.
  Variables (st : hstyle) (inter : bool) (centered : str).

  Let node_str := hnode_str st inter centered.
  Let padding := spaces (length node_str).

  (* the prefix column the spec prescribes for a block of n rows *)
  Definition hprefix_spec (B : list nat) (mid n : nat) : list str :=
    map (fun i => (if Nat.eqb i mid then node_str else padding) ++ [conn st B mid i]) (seq 0 n).

  (* rows (inside the block) of the children's branch rows *)
  Definition child_rows (sub : list hblock) : list nat :=
    let idx := map (fun x : hblock => snd (fst x)) sub in
    let nrow := map (fun x : hblock => length (fst (fst x))) sub in
    match sub with
    | [b0; b1] => if Nat.eqb (length (fst (fst b0)) + snd (fst b1) - snd (fst b0)) 1
                  then [0; 2] else bidx 0 idx nrow
    | _ => bidx 0 idx nrow
    end.

  Definition block_result (sub : list hblock) : list str :=
    let result := concat (map (fun x : hblock => fst (fst x)) sub) in
    match sub with
    | [b0; b1] => if Nat.eqb (length (fst (fst b0)) + snd (fst b1) - snd (fst b0)) 1
                  then [nth 0 result []; []; nth 1 result []] else result
    | _ => result
    end.

  Lemma hconn1 b0 :
    blk_good b0 ->
    fst (fst (hassemble st inter centered [b0]))
    = zip_with (@app N) (hprefix_spec (child_rows [b0]) (blk_mid (hassemble st inter centered [b0]))
                                      (length (block_result [b0])))
               (block_result [b0]).
  Proof.
    destruct b0 as [[r0 m0] o0]. intros [_ [A0 _]]. unfold blk_rows, blk_mid in A0. cbn [fst snd] in A0.
    unfold hassemble, child_rows, block_result, blk_mid.
    cbn [map fst snd forallb hd List.last sum_list fold_right length concat bidx].
    rewrite ?app_nil_r, ?Nat.add_0_r.
    replace (length r0 + m0 - length r0) with m0 by lia. rewrite mid_same.
    f_equal. unfold hprefix_spec.
    change (if inter then [hs_branch st; 32%N] ++ centered ++ [32%N; hs_branch st]
            else [hs_branch st; hs_branch st; hs_branch st]) with node_str.
    fold padding.
    set (rest := length r0 - 1 - m0).
    replace (length r0) with (m0 + (1 + rest)) by (unfold rest; lia).
    rewrite !map_seq_app. cbn [Nat.add]. f_equal; [|f_equal].
    - symmetry. apply map_seq_const. intros i Hi.
      replace (Nat.eqb i m0) with false by (symmetry; apply Nat.eqb_neq; lia).
      unfold conn. cbn [hd List.last memb existsb].
      replace (Nat.eqb i m0) with false by (symmetry; apply Nat.eqb_neq; lia).
      replace (Nat.ltb m0 i) with false by (symmetry; apply Nat.ltb_ge; lia). reflexivity.
    - cbn [seq map]. rewrite ?Nat.add_0_r, Nat.eqb_refl. unfold conn. cbn [hd List.last memb existsb].
      rewrite !Nat.eqb_refl. reflexivity.
    - symmetry. apply map_seq_const. intros i Hi.
      replace (Nat.eqb i m0) with false by (symmetry; apply Nat.eqb_neq; lia).
      unfold conn. cbn [hd List.last memb existsb].
      replace (Nat.eqb i m0) with false by (symmetry; apply Nat.eqb_neq; lia).
      replace (Nat.ltb i m0) with false by (symmetry; apply Nat.ltb_ge; lia).
      rewrite andb_false_r. reflexivity.
  Qed.

  Lemma hconn2 b0 b1 :
    blk_good b0 -> blk_good b1 ->
    fst (fst (hassemble st inter centered [b0; b1]))
    = zip_with (@app N) (hprefix_spec (child_rows [b0; b1]) (blk_mid (hassemble st inter centered [b0; b1]))
                                      (length (block_result [b0; b1])))
               (block_result [b0; b1]).
  Proof.
    destruct b0 as [[r0 m0] o0]. destruct b1 as [[r1 m1] o1].
    intros [_ [A0 B0]] [_ [A1 B1]]. unfold blk_rows, blk_mid in *. cbn [fst snd] in *.
    unfold hassemble, child_rows, block_result, blk_mid.
    cbn [map fst snd forallb hd List.last sum_list fold_right length concat bidx].
    rewrite ?app_nil_r, ?Nat.add_0_r.
    replace (length r0 + length r1 + m1 - length r1) with (length r0 + m1) by lia.
    change (if inter then [hs_branch st; 32%N] ++ centered ++ [32%N; hs_branch st]
            else [hs_branch st; hs_branch st; hs_branch st]) with node_str.
    fold padding.
    destruct (Nat.eqb (length r0 + m1 - m0) 1) eqn:EG.
    - (* separating row *)
      apply Nat.eqb_eq in EG. unfold str in *.
      assert (E0 : length r0 = 1) by lia. assert (E1 : length r1 = 1) by lia.
      assert (M0 : m0 = 0) by lia. assert (M1 : m1 = 0) by lia. subst m0 m1.
      cbn [fst snd length]. replace ((0 + 2 - 0) / 2) with 1 by reflexivity.
      cbn [Nat.add Nat.sub repeat app]. reflexivity.
    - (* two children, at least three rows *)
      apply Nat.eqb_neq in EG. cbn [fst snd]. unfold str in *.
      assert (HL : m0 + 2 <= length r0 + m1) by lia.
      destruct (mid_bounds m0 (length r0 + m1) HL) as [M1 M2].
      set (mid := (m0 + (length r0 + m1)) / 2) in *.
      set (hi := length r0 + m1) in *.
      f_equal. unfold hprefix_spec. rewrite app_length.
      set (s1 := mid - m0 - 1). set (s2 := hi - mid - 1). set (rest := length r0 + length r1 - 1 - hi).
      replace (length r0 + length r1) with (m0 + (1 + (s1 + (1 + (s2 + (1 + rest))))))
        by (unfold s1, s2, rest; lia).
      rewrite !map_seq_app. cbn [Nat.add].
      assert (HB : forall i, memb i [m0; m1 + length r0] = Nat.eqb i m0 || Nat.eqb i hi).
      { intros i. unfold memb. cbn [existsb]. rewrite orb_false_r. unfold hi.
        replace (m1 + length r0) with (length r0 + m1) by lia. reflexivity. }
      assert (HC : forall i, conn st [m0; m1 + length r0] mid i =
                             if Nat.eqb i m0 || Nat.eqb i hi then
                               (if Nat.eqb i mid then hs_middle st else if Nat.eqb i m0 then hs_first st
                                else if Nat.eqb i hi then hs_last st else hs_subseq st)
                             else if Nat.ltb m0 i && Nat.ltb i hi
                                  then (if Nat.eqb i mid then hs_split st else hs_stem st) else 32%N).
      { intros i. unfold conn. rewrite HB. cbn [hd List.last].
        replace (m1 + length r0) with hi by (unfold hi; lia). reflexivity. }
      repeat (f_equal; [|]).
      + symmetry. apply map_seq_const. intros i Hi. rewrite HC.
        replace (Nat.eqb i mid) with false by (symmetry; apply Nat.eqb_neq; lia).
        replace (Nat.eqb i m0) with false by (symmetry; apply Nat.eqb_neq; lia).
        replace (Nat.eqb i hi) with false by (symmetry; apply Nat.eqb_neq; lia).
        replace (Nat.ltb m0 i) with false by (symmetry; apply Nat.ltb_ge; lia). reflexivity.
      + cbn [seq map]. rewrite ?Nat.add_0_r, HC, Nat.eqb_refl.
        replace (Nat.eqb m0 mid) with false by (symmetry; apply Nat.eqb_neq; lia). reflexivity.
      + symmetry. apply map_seq_const. intros i Hi. unfold s1 in Hi. rewrite HC.
        replace (Nat.eqb i mid) with false by (symmetry; apply Nat.eqb_neq; lia).
        replace (Nat.eqb i m0) with false by (symmetry; apply Nat.eqb_neq; lia).
        replace (Nat.eqb i hi) with false by (symmetry; apply Nat.eqb_neq; lia).
        replace (Nat.ltb m0 i) with true by (symmetry; apply Nat.ltb_lt; lia).
        replace (Nat.ltb i hi) with true by (symmetry; apply Nat.ltb_lt; lia). reflexivity.
      + cbn [seq map]. replace (m0 + 1 + s1) with mid by (unfold s1; lia). rewrite HC, Nat.eqb_refl.
        replace (Nat.eqb mid m0) with false by (symmetry; apply Nat.eqb_neq; lia).
        replace (Nat.eqb mid hi) with false by (symmetry; apply Nat.eqb_neq; lia).
        replace (Nat.ltb m0 mid) with true by (symmetry; apply Nat.ltb_lt; lia).
        replace (Nat.ltb mid hi) with true by (symmetry; apply Nat.ltb_lt; lia). reflexivity.
      + symmetry. apply map_seq_const. intros i Hi. unfold s1, s2 in Hi. rewrite HC.
        replace (Nat.eqb i mid) with false by (symmetry; apply Nat.eqb_neq; lia).
        replace (Nat.eqb i m0) with false by (symmetry; apply Nat.eqb_neq; lia).
        replace (Nat.eqb i hi) with false by (symmetry; apply Nat.eqb_neq; lia).
        replace (Nat.ltb m0 i) with true by (symmetry; apply Nat.ltb_lt; lia).
        replace (Nat.ltb i hi) with true by (symmetry; apply Nat.ltb_lt; lia). reflexivity.
      + cbn [seq map]. replace (m0 + 1 + s1 + 1 + s2) with hi by (unfold s1, s2; lia). rewrite HC, Nat.eqb_refl.
        replace (Nat.eqb hi mid) with false by (symmetry; apply Nat.eqb_neq; lia).
        replace (Nat.eqb hi m0) with false by (symmetry; apply Nat.eqb_neq; lia).
        rewrite orb_true_r. reflexivity.
      + symmetry. apply map_seq_const. intros i Hi. unfold s1, s2 in Hi. rewrite HC.
        replace (Nat.eqb i mid) with false by (symmetry; apply Nat.eqb_neq; lia).
        replace (Nat.eqb i m0) with false by (symmetry; apply Nat.eqb_neq; lia).
        replace (Nat.eqb i hi) with false by (symmetry; apply Nat.eqb_neq; lia).
        replace (Nat.ltb i hi) with false by (symmetry; apply Nat.ltb_ge; lia).
        rewrite andb_false_r. reflexivity.
  Qed.

  Lemma conn_off_mid B mid i : Nat.eqb i mid = false -> conn st B mid i = conn0 st B i.
  Proof. intros H. unfold conn, conn0. rewrite H. reflexivity. Qed.

  Lemma hconn3 (sub : list hblock) :
    Forall blk_good sub -> 3 <= length sub ->
    let idx := map (fun x : hblock => snd (fst x)) sub in
    let nrow := map (fun x : hblock => length (fst (fst x))) sub in
    let result := concat (map (fun x : hblock => fst (fst x)) sub) in
    fst (fst (hassemble3 st inter centered sub))
    = zip_with (@app N) (hprefix_spec (bidx 0 idx nrow) (blk_mid (hassemble3 st inter centered sub))
                                      (length result)) result.
  Proof.
    intros HG H3 idx nrow result.
    assert (HLen : length idx = length nrow) by (unfold idx, nrow; rewrite !map_length; reflexivity).
    assert (HF : Forall2 (fun m n => m < n) idx nrow) by (apply blk_good_F2; exact HG).
    destruct (bidx_props idx nrow 0 HLen HF) as [BI [BB [BL BH]]].
    assert (Hres : length result = sum_list nrow) by apply concat_rows_length.
    unfold hassemble3, blk_mid. fold idx. fold nrow. fold result. cbv zeta. cbn [fst snd].
    rewrite (branch_idxs_bidx idx nrow 0 HLen).
    set (B := bidx 0 idx nrow) in *.
    change (if inter then [hs_branch st; 32%N] ++ centered ++ [32%N; hs_branch st]
            else [hs_branch st; hs_branch st; hs_branch st]) with node_str.
    fold padding.
    destruct sub as [|[[r0 m0] o0] [|[[r1 m1] o1] [|b2 rest]]]; try (cbn in H3; lia).
    set (first := hd 0 idx). set (last_ := sum_list nrow + List.last idx 0 - List.last nrow 0).
    assert (Hfirst : hd 0 B = first) by (rewrite BH; unfold first, idx; cbn; lia).
    assert (Hlast : List.last B 0 = last_) by (rewrite BL; unfold last_, idx; cbn [map]; lia).
    assert (Hm0 : m0 < length r0) by (inversion HG as [|? ? [_ [Hx _]] _]; exact Hx).
    assert (Hr1 : 1 <= length r1).
    { inversion HG as [|? ? _ HG1]; inversion HG1 as [|? ? [_ [Hx _]] _]. unfold blk_rows, blk_mid in Hx. cbn in Hx. lia. }
    assert (Hf0 : first = m0) by reflexivity.
    assert (HBs : exists b0 b1 b2 Bt, B = b0 :: b1 :: b2 :: Bt).
    { unfold B, idx, nrow. cbn [map bidx]. eauto. }
    destruct HBs as [b0 [b1 [b2' [Bt EB]]]].
    assert (HlastB : first + 2 <= last_ /\ last_ < sum_list nrow).
    { assert (Hin : In (List.last B 0) B).
      { rewrite EB. assert (HNe : b0 :: b1 :: b2' :: Bt <> []) by discriminate.
        apply (@exists_last _ (b0 :: b1 :: b2' :: Bt)) in HNe as [l' [z Hz]].
        rewrite Hz. rewrite last_last. apply in_or_app. right. left. reflexivity. }
      apply BB in Hin. rewrite Hlast in Hin. split; [|lia].
      unfold last_, idx, nrow. cbn [map fst snd].
      change (List.last (m0 :: m1 :: ?x) 0) with (List.last x 0).
      change (List.last (length r0 :: length r1 :: ?x) 0) with (List.last x 0).
      cbn [sum_list fold_right].
      pose proof (last_le_sum (length (fst (fst b2)) :: map (fun x : hblock => length (fst (fst x))) rest)) as HLS.
      cbn [fold_right] in HLS. unfold hblock, str in *. lia. }
    destruct HlastB as [HL2 HLe].
    destruct (mid_bounds first last_ HL2) as [M1 M2].
    set (mid := (first + last_) / 2) in *.
    f_equal.
    (* the column before the parent's row is written *)
    assert (HCol : repeat (padding ++ [32%N]) first ++
                   [padding ++ [hs_first st]] ++
                   concat (map (fun n : nat => repeat (padding ++ [hs_stem st]) n ++ [padding ++ [hs_subseq st]])
                               (removelast (zip_with (fun a b : nat => b - a - 1) B (tl B)))) ++
                   repeat (padding ++ [hs_stem st]) (List.last (zip_with (fun a b : nat => b - a - 1) B (tl B)) 0) ++
                   [padding ++ [hs_last st]] ++ repeat (padding ++ [32%N]) (sum_list nrow - 1 - last_)
                   = map (fun i => padding ++ [conn0 st B i]) (seq 0 (length result))).
    { pose proof (column_spec st padding (b1 :: b2' :: Bt) b0 (length result)) as CS.
      rewrite <- EB in CS. rewrite Hlast, Hres in CS.
      specialize (CS BI ltac:(discriminate) HLe).
      unfold tailseg, diffs in CS. rewrite <- ?EB in CS. rewrite <- ?app_assoc in CS.
      assert (Eb : b0 = first) by (rewrite <- Hfirst, EB; reflexivity).
      rewrite Eb in CS. etransitivity; [exact CS|]. rewrite Hres. reflexivity. }
    rewrite HCol.
    assert (Hmidn : mid < length result) by lia.
    assert (Heq : forall (X : str) F, set_nth mid X (map F (seq 0 (length result)))
                   = map (fun i => if Nat.eqb i mid then X else F i) (seq 0 (length result))).
    { intros X F. rewrite (set_nth_map_seq F X (length result) 0 mid Hmidn). reflexivity. }
    unfold hprefix_spec.
    destruct (existsb (Nat.eqb mid) B) eqn:EM; rewrite !Heq; apply map_ext_in; intros i Hi.
    - destruct (Nat.eqb i mid) eqn:Ei.
      + apply Nat.eqb_eq in Ei. subst i. f_equal. unfold conn. unfold memb. rewrite EM, Nat.eqb_refl, EB. reflexivity.
      + rewrite (conn_off_mid B mid i Ei). reflexivity.
    - destruct (Nat.eqb i mid) eqn:Ei.
      + apply Nat.eqb_eq in Ei. subst i. f_equal. unfold conn. unfold memb. rewrite EM, Nat.eqb_refl.
        rewrite Hfirst, Hlast.
        replace (Nat.ltb first mid) with true by (symmetry; apply Nat.ltb_lt; lia).
        replace (Nat.ltb mid last_) with true by (symmetry; apply Nat.ltb_lt; lia). reflexivity.
      + rewrite (conn_off_mid B mid i Ei). reflexivity.
  Qed.
End ConnectorsOfBlocks.

(* the block of a node with children: in front of the children's rows (after the separating row
   has been inserted) stands exactly the column prescribed by [hprefix_spec]: the node's text on
   its own row and blanks elsewhere, followed by the connector icon [conn] — child icons on
   exactly the children's branch rows [child_rows], stems between the first and the last of them,
   blanks outside *)
Theorem hassemble_connectors st inter centered (sub : list hblock) :
  sub <> [] -> Forall blk_good sub ->
  fst (fst (hassemble st inter centered sub))
  = zip_with (@app N)
      (hprefix_spec st inter centered (child_rows sub) (blk_mid (hassemble st inter centered sub))
                    (length (block_result sub)))
      (block_result sub).
Proof.
  intros HN HG. destruct sub as [|b0 [|b1 [|b2 rest]]]; [contradiction| | |].
  - apply hconn1. inversion HG; assumption.
  - inversion HG as [|? ? G0 HG1]; subst. inversion HG1; subst. apply hconn2; assumption.
  - change (hassemble st inter centered (b0 :: b1 :: b2 :: rest))
      with (hassemble3 st inter centered (b0 :: b1 :: b2 :: rest)).
    apply (hconn3 st inter centered (b0 :: b1 :: b2 :: rest) HG). cbn. lia.
Qed.

Theorem hbranch_connectors st inter ws g n a ks d :
  is_hole (T g n a ks) = false -> existsb real ks = true ->
  let sub := map (hbranch st inter ws (S d)) ks in
  let b := hbranch st inter ws d (T g n a ks) in
  fst (fst b)
  = zip_with (@app N)
      (hprefix_spec st inter (center n (pad_at ws d)) (child_rows sub) (blk_mid b) (length (block_result sub)))
      (block_result sub).
Proof.
  intros Hh Hr sub b. unfold b. rewrite hbranch_eq. cbv zeta. rewrite Hh, Hr. cbn [orb negb].
  fold sub. apply hassemble_connectors.
  - unfold sub. destruct ks; [discriminate|discriminate].
  - unfold sub. apply Forall_forall. intros x Hx. apply in_map_iff in Hx as [k [<- Hk]].
    apply (hbranch_good st inter ws k (S d)).
Qed.

(* ============================================================================================== *)
(* 14. tree_to_dot: every vertex / edge carries exactly the attributes its own node prescribes *)

Lemma slookup_sset d k v k2 : slookup k2 (sset d k v) = if str_eqb k2 k then Some v else slookup k2 d.
Proof.
  induction d as [|[k' v'] d IH]; cbn [sset slookup].
  - reflexivity.
  - destruct (str_eqb k k') eqn:E.
    + apply str_eqb_eq in E. subst k'. cbn [slookup]. destruct (str_eqb k2 k); reflexivity.
    + cbn [slookup]. destruct (str_eqb k2 k') eqn:E2; [|exact IH].
      apply str_eqb_eq in E2. subst k'. rewrite str_eqb_sym, E. reflexivity.
Qed.

Lemma slookup_none k d : ~ In k (map fst d) -> slookup k d = None.
Proof.
  induction d as [|[k' v'] d IH]; intros H; cbn; [reflexivity|].
  destruct (str_eqb k k') eqn:E.
  - apply str_eqb_eq in E. subst. exfalso. apply H. left. reflexivity.
  - apply IH. intros Hin. apply H. right. exact Hin.
Qed.

Lemma slookup_supdate u : forall d k, NoDup (map fst u) ->
  slookup k (supdate d u) = match slookup k u with Some v => Some v | None => slookup k d end.
Proof.
  unfold supdate. induction u as [|[k' v'] u IH]; intros d k ND; cbn [fold_left slookup fst snd]; [reflexivity|].
  inversion ND; subst. rewrite IH by assumption. rewrite slookup_sset.
  destruct (str_eqb k k') eqn:E.
  - apply str_eqb_eq in E. subst k'. rewrite slookup_none by assumption. reflexivity.
  - reflexivity.
Qed.

Lemma sset_keys d k v k2 : In k2 (map fst (sset d k v)) <-> k2 = k \/ In k2 (map fst d).
Proof.
  induction d as [|[k' v'] d IH]; cbn [sset map fst In].
  - split; [intros [<-|[]]; left; reflexivity|intros [->|[]]; left; reflexivity].
  - destruct (str_eqb k k') eqn:E; cbn [map fst In].
    + apply str_eqb_eq in E. subst k'. split; [intros [<-|H]; [left; reflexivity|right; right; exact H]|].
      intros [->|[<-|H]]; [left; reflexivity|left; reflexivity|right; exact H].
    + rewrite IH. split; [intros [H|[H|H]]; auto|intros [H|[H|H]]; auto].
Qed.

Lemma sset_nodup d k v : NoDup (map fst d) -> NoDup (map fst (sset d k v)).
Proof.
  induction d as [|[k' v'] d IH]; intros ND; cbn [sset map fst].
  - constructor; [intros []|constructor].
  - inversion ND; subst. destruct (str_eqb k k') eqn:E; cbn [map fst].
    + apply str_eqb_eq in E. subst k'. constructor; assumption.
    + constructor; [|apply IH; assumption]. intros Hin. apply sset_keys in Hin as [->|Hin]; [|contradiction].
      rewrite str_eqb_refl in E. discriminate.
Qed.

Lemma supdate_nodup u : forall d, NoDup (map fst d) -> NoDup (map fst (supdate d u)).
Proof.
  unfold supdate. induction u as [|[k v] u IH]; intros d ND; cbn [fold_left]; [exact ND|].
  apply IH. apply sset_nodup. exact ND.
Qed.

Lemma slookup_in k v d : NoDup (map fst d) -> In (k, v) d -> slookup k d = Some v.
Proof.
  induction d as [|[k' v'] d IH]; intros ND Hin; [destruct Hin|]. cbn [slookup]. inversion ND; subst.
  destruct Hin as [E|Hin].
  - inversion E; subst. rewrite str_eqb_refl. reflexivity.
  - destruct (str_eqb k k') eqn:E; [|apply IH; assumption].
    apply str_eqb_eq in E. subst k'. exfalso. apply H1. apply in_map_iff. exists (k, v). split; [reflexivity|exact Hin].
Qed.

Lemma slookup_some_in k v d : slookup k d = Some v -> In (k, v) d.
Proof.
  induction d as [|[k' v'] d IH]; cbn [slookup]; [discriminate|].
  destruct (str_eqb k k') eqn:E.
  - apply str_eqb_eq in E. subst. intros H. inversion H; subst. left. reflexivity.
  - intros H. right. apply IH. exact H.
Qed.

(* a dictionary whose lookups are the prescribed ones is exact *)
Lemma dict_exact_of_lookup own default keys obs :
  NoDup (map fst obs) -> (forall k, slookup k obs = prescribed own default k) ->
  dict_exact own default keys obs = true.
Proof.
  intros ND HL. unfold dict_exact. rewrite (proj2 (nodup_str_NoDup _) ND). cbn [andb].
  apply andb_true_iff. split; apply forallb_forall.
  - intros [k v] Hin. cbn [fst snd]. rewrite <- HL, (slookup_in k v obs ND Hin). cbn. apply str_eqb_refl.
  - intros k _. rewrite <- HL. destruct (slookup k obs) as [v|] eqn:E; [|reflexivity].
    apply slookup_some_in in E. apply existsb_exists. exists (k, v). split; [exact E|apply str_eqb_refl].
Qed.

Lemma given_nonempty o c : given o = Some c -> c <> [].
Proof. destruct o as [[|x s]|]; cbn; intros H; inversion H; subst; discriminate. Qed.

Lemma node_style0_lookup o k : slookup k (node_style0 o) = node_default o k.
Proof.
  unfold node_style0, node_default, supdate.
  destruct (given (do_node_colour o)) as [c|]; destruct (given (do_node_shape o)) as [s|];
    cbn [fold_left sset slookup fst snd];
    repeat match goal with
           | |- context [str_eqb ?a ?b] =>
               let E := fresh "E" in destruct (str_eqb a b) eqn:E;
               [apply str_eqb_eq in E; try subst k; try discriminate|]
           end; cbn [slookup];
    repeat match goal with H : str_eqb ?a ?b = _ |- context [str_eqb ?a ?b] => rewrite H end;
    try reflexivity; try discriminate.
Qed.

Lemma node_style0_nodup o : NoDup (map fst (node_style0 o)).
Proof.
  unfold node_style0, supdate.
  destruct (given (do_node_colour o)); destruct (given (do_node_shape o)); cbn;
    repeat constructor; cbn; intros H; repeat destruct H as [H|H]; try discriminate; try contradiction.
Qed.

Lemma edge_style0_lookup o k : slookup k (edge_style0 o) = edge_default o k.
Proof.
  unfold edge_style0, edge_default. destruct (given (do_edge_colour o)); cbn [slookup];
    destruct (str_eqb k s_color); reflexivity.
Qed.

Lemma filter_no_label d :
  ~ In s_label (map fst d) -> filter (fun kv : str * str => negb (str_eqb (fst kv) s_label)) d = d.
Proof.
  induction d as [|[k v] d IH]; intros H; [reflexivity|]. cbn [filter fst].
  destruct (str_eqb k s_label) eqn:E.
  - apply str_eqb_eq in E. subst. exfalso. apply H. left. reflexivity.
  - cbn [negb]. f_equal. apply IH. intros Hin. apply H. right. exact Hin.
Qed.

Theorem dot_attrs_exact o t :
  styles_wf t = true -> prop_C18_attrs o t (dot_vertex_attrs o t) (dot_edge_attrs o t) = true.
Proof.
  intros HW. unfold styles_wf in HW. rewrite forallb_forall in HW.
  unfold prop_C18_attrs, dot_vertex_attrs, dot_edge_attrs. apply andb_true_iff. split.
  - apply all2_map_r. intros x Hx. specialize (HW x Hx).
    apply andb_true_iff in HW as [HW HL]. apply andb_true_iff in HW as [HN _].
    apply nodup_str_NoDup in HN. apply negb_true_iff in HL.
    unfold vertex_attrs_ok, vertex_attrs. cbn [slookup]. rewrite str_eqb_refl. cbn [opt_eqb].
    rewrite str_eqb_refl. cbn [andb filter fst]. rewrite str_eqb_refl. cbn [negb].
    set (own := if do_node_attr o then node_sty x else []).
    assert (HNo : NoDup (map fst own)) by (unfold own; destruct (do_node_attr o); [exact HN|constructor]).
    assert (HLo : ~ In s_label (map fst own)).
    { unfold own. destruct (do_node_attr o); [|intros []]. intros Hin.
      assert (existsb (str_eqb s_label) (map fst (node_sty x)) = true); [|congruence].
      apply existsb_exists. exists s_label. split; [exact Hin|apply str_eqb_refl]. }
    rewrite filter_no_label.
    + apply dict_exact_of_lookup.
      * apply supdate_nodup. apply node_style0_nodup.
      * intros k. rewrite slookup_supdate by exact HNo. unfold prescribed. rewrite node_style0_lookup. reflexivity.
    + intros Hin. apply in_map_iff in Hin as [[k v] [Ek Hin]]. cbn [fst] in Ek. subst k.
      pose proof (slookup_in s_label v _ (supdate_nodup own _ (node_style0_nodup o)) Hin) as HS.
      rewrite slookup_supdate in HS by exact HNo. rewrite (slookup_none s_label own HLo) in HS.
      rewrite node_style0_lookup in HS. unfold node_default in HS. cbn in HS. discriminate.
  - apply all2_map_r. intros x Hx. assert (Hx' : In x (pre (compact t))).
    { destruct (pre (compact t)); [destruct Hx|right; exact Hx]. }
    specialize (HW x Hx'). apply andb_true_iff in HW as [HW _]. apply andb_true_iff in HW as [_ HE].
    apply nodup_str_NoDup in HE.
    unfold edge_attrs_ok, edge_attrs.
    set (own := if do_edge_attr o then edge_sty x else []).
    assert (HNo : NoDup (map fst own)) by (unfold own; destruct (do_edge_attr o); [exact HE|constructor]).
    apply dict_exact_of_lookup.
    + apply supdate_nodup. unfold edge_style0. destruct (given (do_edge_colour o)); cbn; repeat constructor. intros [].
    + intros k. rewrite slookup_supdate by exact HNo. unfold prescribed. rewrite edge_style0_lookup. reflexivity.
Qed.

(* ============================================================================================== *)
(* 15. mermaid with options: references and labels are those of the plain model; labels = names *)

Definition mgo_opt_kids (o : mopts) (cid pname : str) (j : nat) (ks : list tree) : list mflowx :=
  (fix go (j : nat) (l : list tree) : list mflowx :=
     match l with
     | [] => []
     | k :: r => mgo_opt o cid pname j k ++ go (S j) r
     end) j ks.

Lemma mgo_opt_eq o pid pname i g n a ks :
  mgo_opt o pid pname i (T g n a ks) =
  MX pid pname (arrow_of o (T g n a ks)) (elabel_of o (T g n a ks)) (pid ++ dash ++ str_of_nat i) n
     (shaped o (T g n a ks)) (styled o (T g n a ks))
  :: mgo_opt_kids o (pid ++ dash ++ str_of_nat i) [] 0 ks.
Proof. reflexivity. Qed.
Lemma mgo_opt_kids_cons o cid pname j k r :
  mgo_opt_kids o cid pname j (k :: r) = mgo_opt o cid pname j k ++ mgo_opt_kids o cid pname (S j) r.
Proof. reflexivity. Qed.

Definition mx_core (f : mflowx) : str * str * str := (mx_from f, mx_to f, mx_to_label f).
Definition mf_core (f : mflow) : str * str * str := (mf_from f, mf_to f, mf_to_label f).

Lemma mgo_opt_core o : forall t pid pname pl i,
  map mx_core (mgo_opt o pid pname i t) = map mf_core (mermaid_go pid pl i t).
Proof.
  induction t as [g n a ks IH] using tree_ind'. intros pid pname pl i.
  rewrite mgo_opt_eq, mermaid_go_eq. cbn [map mx_core mf_core mx_from mx_to mx_to_label mf_from mf_to mf_to_label].
  f_equal. generalize (pid ++ dash ++ str_of_nat i) as cid. intros cid. generalize 0 as j.
  induction IH as [|k r Hk Hr IHr]; intros j; [reflexivity|].
  rewrite mgo_opt_kids_cons, mgo_kids_cons, !map_app, (Hk cid [] None j), IHr. reflexivity.
Qed.

(* with every option: the same references, edges and labels as the plain chart, and the label of
   every destination is the node's name, written as it is (tree_to_mermaid does not escape) *)
Theorem mermaid_opt_core o t :
  map mx_core (mermaid_flows_opt o (compact t)) = map mf_core (mermaid_flows t)
  /\ map mx_to_label (mermaid_flows_opt o (compact t)) = map tname (tl (pre (compact t))).
Proof.
  assert (H1 : map mx_core (mermaid_flows_opt o (compact t)) = map mf_core (mermaid_flows t)).
  { rewrite mermaid_flows_eq. unfold mermaid_flows_opt. destruct (compact t) as [g n a ks]. cbn [tkids tname].
    fold (mgo_opt_kids o root_ref (shaped o (T g n a ks)) 0 ks).
    generalize 0 as j. induction ks as [|k r IH]; intros j; [reflexivity|].
    rewrite mgo_opt_kids_cons, mgo_kids_cons, !map_app, (mgo_opt_core o k root_ref _ (Some n) j), IH. reflexivity. }
  split; [exact H1|].
  transitivity (map (fun c : str * str * str => snd c) (map mx_core (mermaid_flows_opt o (compact t)))).
  { rewrite map_map. reflexivity. }
  rewrite H1, map_map. cbn [mf_core snd].
  change (map (fun x : mflow => mf_to_label x) (mermaid_flows t)) with (map mf_to_label (mermaid_flows t)).
  rewrite mermaid_flows_eq. destruct (compact t) as [g n a ks]. cbn [tkids tname pre tl].
  destruct (mit_kids_ok ks (proj2 (Forall_forall _ _) (fun x _ => mit_tree_ok_all x)) root_ref (Some n) 0)
    as [_ [A2 _]].
  exact A2.
Qed.

(* box_norm: the four box-drawing styles, glyph for glyph, are the light style *)
Lemma box_norm_hstyles :
  forallb (fun st => match st with
                     | HS a b c d e f g =>
                         list_eqb N.eqb (map box_norm [a; b; c; d; e; f; g])
                                  [g_first arm_glyphs; g_subseq arm_glyphs; g_split arm_glyphs;
                                   g_middle arm_glyphs; g_last arm_glyphs; g_stem arm_glyphs; g_branch arm_glyphs]
                     end)
          [hs_const; hs_const_bold; hs_rounded; hs_double] = true.
Proof. vm_compute. reflexivity. Qed.

Lemma box_norm_vstyles :
  forallb (fun st => str_eqb (map box_norm (vs_stem st)) (vs_stem arm_vstyle)
                     && str_eqb (map box_norm (vs_branch st)) (vs_branch arm_vstyle)
                     && str_eqb (map box_norm (vs_final st)) (vs_final arm_vstyle))
          [vs_const; vs_const_bold; vs_rounded; vs_double] = true.
Proof. vm_compute. reflexivity. Qed.

(* ============================================================================================== *)
(* 16. horizontal round trip for chains: the text-only decoder returns the tree *)

(* a name survives the rendering: rstrip() and the trimming of blanks leave it alone *)
Definition clean_name (n : str) : bool := str_eqb (rstrip_ws n) n && str_eqb (trim n) n.

(* r -> n1 -> n2 -> ... (every node has one child, the last one is a leaf) *)
Fixpoint chain (n : str) (ns : list str) : tree :=
  match ns with
  | [] => T None n [] []
  | m :: r => T None n [] [chain m r]
  end.

(* the icons of a model style as the spec's record (the same as Corr.RenderCorr.glyphs_of) *)
Definition glyphs_of_hs (st : hstyle) : hglyphs :=
  HG (hs_first st) (hs_subseq st) (hs_split st) (hs_middle st) (hs_last st) (hs_stem st) (hs_branch st).

Section ChainRoundTrip.
  Variables (st : hstyle) (inter : bool).
  Hypothesis Hb : hs_branch st <> 32%N.
  Let b := hs_branch st.
  Let gl := glyphs_of_hs st.

  (* band width of a name *)
  Definition cw_of (n : str) : nat := if inter then length n else 0.

  Fixpoint chain_cells (n : str) (ns : list str) : list hcell :=
    match ns with
    | [] => [HLeaf n]
    | m :: r => HInt (if inter then n else []) b :: chain_cells m r
    end.

  Lemma eqb_b_32 : N.eqb b 32%N = false.
  Proof. apply N.eqb_neq. exact Hb. Qed.

  Definition icell (n : str) : str := if inter then b :: 32%N :: n ++ [32%N; b] else [b; b; b].

  Lemma gl_branch : g_branch gl = b.
  Proof. reflexivity. Qed.

  (* an inner cell followed by its connector *)
  Lemma parse_inner n g ws rest :
    trim n = n ->
    h_parse_row gl inter (cw_of n :: ws) (icell n ++ g :: rest)
    = match h_parse_row gl inter ws rest with
      | Some r => Some (HInt (if inter then n else []) g :: r)
      | None => None
      end.
  Proof.
    intros Ht. unfold icell, cw_of. destruct inter eqn:EI.
    - set (cell := b :: 32%N :: n ++ [32%N; b]).
      assert (Lc : length cell = length n + 4) by (unfold cell; cbn [length]; rewrite app_length; cbn [length]; lia).
      change (cell ++ g :: rest) with (b :: (32%N :: n ++ [32%N; b]) ++ g :: rest).
      cbn [h_parse_row]. rewrite gl_branch, N.eqb_refl.
      change (b :: (32%N :: n ++ [32%N; b]) ++ g :: rest) with (cell ++ g :: rest).
      replace (Nat.leb (length (cell ++ g :: rest)) (length n + 2)) with false
        by (symmetry; apply Nat.leb_gt; rewrite app_length; cbn [length]; lia).
      rewrite <- Lc. rewrite firstn_app_exact, skipn_app_exact, Nat.eqb_refl.
      assert (N1 : nth 1 cell 0%N = 32%N) by reflexivity.
      assert (N2 : nth (length n + 2) cell 0%N = 32%N).
      { unfold cell. replace (length n + 2) with (S (S (length n))) by lia. cbn [nth].
        rewrite app_nth2 by lia. replace (length n - length n) with 0 by lia. reflexivity. }
      assert (N3 : nth (length n + 3) cell 0%N = b).
      { unfold cell. replace (length n + 3) with (S (S (S (length n)))) by lia. cbn [nth].
        rewrite app_nth2 by lia. replace (S (length n) - length n) with 1 by lia. reflexivity. }
      rewrite N1, N2, N3, !N.eqb_refl. cbn [andb].
      assert (HN : trim (firstn (length n) (skipn 2 cell)) = n).
      { unfold cell. cbn [skipn]. rewrite firstn_app_exact. exact Ht. }
      rewrite HN. reflexivity.
    - cbn [app h_parse_row]. rewrite gl_branch, N.eqb_refl. cbn [nth]. rewrite eqb_b_32.
      cbn [firstn skipn list_eqb]. rewrite !N.eqb_refl. cbn [andb]. reflexivity.
  Qed.

  (* the cell of a leaf: the rest of the row *)
  Lemma parse_leaf n ws :
    clean_name n = true ->
    h_parse_row gl inter (cw_of n :: ws) (b :: 32%N :: n) = Some [HLeaf n].
  Proof.
    intros Hn. apply andb_true_iff in Hn as [_ Ht]. apply str_eqb_eq in Ht.
    cbn [h_parse_row]. rewrite gl_branch, N.eqb_refl. cbn [nth]. rewrite N.eqb_refl. cbn [skipn]. rewrite Ht.
    unfold cw_of. destruct inter; [|reflexivity].
    cbn [length]. replace (Nat.leb (S (S (length n))) (length n + 2)) with true; [reflexivity|].
    symmetry. apply Nat.leb_le. lia.
  Qed.

  Fixpoint chain_row (n : str) (ns : list str) : str :=
    match ns with
    | [] => b :: 32%N :: n
    | m :: r => icell n ++ b :: chain_row m r
    end.

  Lemma parse_chain : forall ns n,
    forallb clean_name (n :: ns) = true ->
    h_parse_row gl inter (map cw_of (n :: ns)) (chain_row n ns) = Some (chain_cells n ns).
  Proof.
    induction ns as [|m r IH]; intros n HC; cbn [forallb] in HC; apply andb_true_iff in HC as [Hn HC].
    - cbn [map chain_row chain_cells]. apply parse_leaf. exact Hn.
    - cbn [map chain_row chain_cells]. rewrite parse_inner.
      + specialize (IH m HC). cbn [map] in IH. rewrite IH. reflexivity.
      + apply andb_true_iff in Hn as [_ Ht]. apply str_eqb_eq in Ht. exact Ht.
  Qed.

  (* ---- the connector columns ---- *)
  Definition one_run : list (nat * list nat) := [(0, [0])].

  Lemma nth_error_mid {A} (pre : list A) x rest : nth_error (pre ++ x :: rest) (length pre) = Some x.
  Proof. rewrite nth_error_app2 by lia. rewrite Nat.sub_diag. reflexivity. Qed.

  Lemma chain_cells_head n ns : exists c r, chain_cells n ns = c :: r /\ is_node_cell (Some c) = true.
  Proof. destruct ns; cbn [chain_cells]; eexists; eexists; split; reflexivity. Qed.

  Lemma h_scan_all_S g guide rows d k :
    h_scan_all g guide rows d (S k) =
    match h_scan g (option_map (fun t => inner_counts t d) guide) 0 (h_column rows d)
                 (map is_node_cell (h_column rows (S d))) None with
    | Some runs => match h_scan_all g guide rows (S d) k with
                   | Some r => Some (runs :: r) | None => None end
    | None => None
    end.
  Proof. reflexivity. Qed.

  Lemma scan_chain : forall ns n pre,
    h_scan_all gl None [pre ++ chain_cells n ns] (length pre) (S (length ns))
    = Some (repeat one_run (length ns) ++ [[]]).
  Proof.
    induction ns as [|m r IH]; intros n pre.
    - cbn [chain_cells length]. rewrite h_scan_all_S. cbn [h_column map option_map].
      rewrite nth_error_mid.
      replace (nth_error (pre ++ [HLeaf n]) (S (length pre))) with (@None hcell)
        by (symmetry; apply nth_error_None; rewrite app_length; cbn; lia).
      cbn [is_node_cell h_scan h_scan_all repeat app]. reflexivity.
    - cbn [chain_cells length]. rewrite h_scan_all_S. cbn [h_column map option_map].
      rewrite nth_error_mid.
      destruct (chain_cells_head m r) as [c [rr [EC HC]]].
      replace (nth_error (pre ++ HInt (if inter then n else []) b :: chain_cells m r) (S (length pre)))
        with (Some c).
      2:{ rewrite EC. change (pre ++ HInt (if inter then n else []) b :: c :: rr)
            with (pre ++ [HInt (if inter then n else []) b] ++ c :: rr).
          rewrite app_assoc. replace (S (length pre)) with (length (pre ++ [HInt (if inter then n else []) b]))
            by (rewrite app_length; cbn; lia).
          symmetry. apply nth_error_mid. }
      rewrite HC. cbn [h_scan]. rewrite gl_branch, N.eqb_refl. cbn [andb].
      specialize (IH m (pre ++ [HInt (if inter then n else []) b])).
      rewrite <- app_assoc in IH. cbn [app] in IH. rewrite app_length in IH. cbn [length] in IH.
      replace (length pre + 1) with (S (length pre)) in IH by lia. rewrite IH.
      cbn [repeat app]. reflexivity.
  Qed.

  Lemma node_cell_chain : forall ns n i,
    is_node_cell (nth_error (chain_cells n ns) i) = Nat.ltb i (S (length ns)).
  Proof.
    induction ns as [|m r IH]; intros n i; cbn [chain_cells length].
    - destruct i as [|[|i]]; reflexivity.
    - destruct i as [|i]; [reflexivity|]. cbn [nth_error]. rewrite IH. reflexivity.
  Qed.

  Lemma nth_runs k d :
    nth d (repeat one_run k ++ [[]]) [] = if Nat.ltb d k then one_run else [].
  Proof.
    destruct (Nat.ltb d k) eqn:E.
    - apply Nat.ltb_lt in E. rewrite app_nth1 by (rewrite repeat_length; exact E).
      rewrite (nth_indep _ [] one_run) by (rewrite repeat_length; exact E). apply nth_repeat.
    - apply Nat.ltb_ge in E. rewrite app_nth2 by (rewrite repeat_length; exact E). rewrite repeat_length.
      destruct (d - k) as [|[|?]]; reflexivity.
  Qed.

  Lemma claimed_chain n ns :
    h_all_claimed [chain_cells n ns] (repeat one_run (length ns) ++ [[]]) = true.
  Proof.
    unfold h_all_claimed. apply forallb_forall. intros d Hd. apply in_seq in Hd.
    rewrite app_length, repeat_length in Hd. cbn [length] in Hd.
    cbn [h_column map filter]. rewrite node_cell_chain, nth_runs. apply Nat.eqb_eq.
    destruct (Nat.ltb d (length ns)) eqn:E.
    - apply Nat.ltb_lt in E. replace (Nat.ltb (S d) (S (length ns))) with true by (symmetry; apply Nat.ltb_lt; lia).
      reflexivity.
    - apply Nat.ltb_ge in E. replace (Nat.ltb (S d) (S (length ns))) with false by (symmetry; apply Nat.ltb_ge; lia).
      reflexivity.
  Qed.

  (* ---- rebuilding ---- *)
  Fixpoint dchain (n : str) (ns : list str) : tree :=
    match ns with
    | [] => mk_named n []
    | m :: r => mk_named (if inter then n else []) [dchain m r]
    end.

  Lemma build_chain : forall ns n pre fuel K,
    length ns < fuel -> K = length pre + length ns ->
    h_build fuel [pre ++ chain_cells n ns] (repeat one_run K ++ [[]]) (length pre) 0 = Some (dchain n ns).
  Proof.
    induction ns as [|m r IH]; intros n pre fuel K Hf HK; (destruct fuel as [|f]; [lia|]).
    - cbn [chain_cells h_build nth]. rewrite nth_error_mid. reflexivity.
    - cbn [chain_cells h_build nth]. rewrite nth_error_mid. rewrite nth_runs.
      replace (Nat.ltb (length pre) K) with true by (symmetry; apply Nat.ltb_lt; cbn [length] in HK; lia).
      cbn [one_run assoc_nat Nat.eqb map opt_all].
      specialize (IH m (pre ++ [HInt (if inter then n else []) b]) f K).
      rewrite <- app_assoc in IH. cbn [app] in IH. rewrite app_length in IH. cbn [length] in IH, Hf, HK.
      replace (length pre + 1) with (S (length pre)) in IH by lia.
      rewrite IH by lia. cbn [dchain]. reflexivity.
  Qed.

  Lemma match_chain : forall ns n,
    forallb clean_name (n :: ns) = true -> h_match inter (dchain n ns) (chain n ns) = true.
  Proof.
    induction ns as [|m r IH]; intros n HC; cbn [forallb] in HC; apply andb_true_iff in HC as [Hn HC];
      apply andb_true_iff in Hn as [_ Ht]; apply str_eqb_eq in Ht.
    - cbn. rewrite Ht, str_eqb_refl. reflexivity.
    - cbn [dchain chain mk_named h_match is_hole ttag existsb orb negb].
      assert (HR : is_hole (chain m r) = false) by (destruct r; reflexivity).
      rewrite HR. cbn [negb orb]. rewrite Ht. destruct inter; rewrite str_eqb_refl, (IH m HC); reflexivity.
  Qed.

  (* the decoder on the chain's row *)
  Theorem decode_chain n ns :
    forallb clean_name (n :: ns) = true ->
    exists dec, h_decode gl inter (map cw_of (n :: ns)) None [chain_row n ns] = Some dec
                /\ h_match inter dec (chain n ns) = true.
  Proof.
    intros HC. exists (dchain n ns). split; [|apply match_chain; exact HC].
    unfold h_decode. pose proof (parse_chain ns n HC) as HP. cbn [map opt_all] in HP |- *. rewrite HP.
    cbn [length]. rewrite map_length.
    pose proof (scan_chain ns n []) as HS. cbn [app length] in HS. rewrite HS.
    rewrite claimed_chain.
    destruct (chain_cells_head n ns) as [c [rr [EC HN]]].
    cbn [h_column map]. rewrite EC. cbn [nth_error find_root]. rewrite HN. cbn [app find_root].
    rewrite <- EC.
    pose proof (build_chain ns n [] (S (S (length ns))) (length ns)) as HBd. cbn [app length] in HBd.
    apply HBd; lia.
  Qed.
End ChainRoundTrip.

(* ---- the model's text for a chain ---- *)

Lemma chain_not_hole n ns : is_hole (chain n ns) = false.
Proof. destruct ns; reflexivity. Qed.

Lemma compact_chain : forall ns n, compact (chain n ns) = chain n ns.
Proof.
  induction ns as [|m r IH]; intros n; [reflexivity|].
  cbn [chain]. rewrite compact_eq. cbn [compact_kids]. rewrite chain_not_hole, IH. reflexivity.
Qed.

Lemma height_chain : forall ns n, height (chain n ns) = S (length ns).
Proof.
  induction ns as [|m r IH]; intros n; [reflexivity|].
  cbn [chain height fold_right length]. rewrite IH. rewrite Nat.max_0_r. reflexivity.
Qed.

Lemma levels_chain {A} (F : list tree -> A) : forall ns n,
  map (fun k => F (level k (chain n ns))) (seq 0 (S (length ns)))
  = F [chain n ns] :: match ns with
                      | [] => []
                      | m :: r => map (fun k => F (level k (chain m r))) (seq 0 (S (length r)))
                      end.
Proof.
  intros [|m r] n; [reflexivity|].
  cbn [length]. change (seq 0 (S (S (length r)))) with (0 :: seq 1 (S (length r))).
  rewrite <- (seq_shift (S (length r)) 0). cbn [map level]. f_equal.
  rewrite map_map. apply map_ext. intros k. cbn [level chain tkids flat_map]. rewrite app_nil_r. reflexivity.
Qed.

Lemma band_widths_chain inter : forall ns n,
  band_widths inter (chain n ns) = map (cw_of inter) (n :: ns).
Proof.
  intros ns n. unfold band_widths. rewrite compact_chain, height_chain.
  revert n. induction ns as [|m r IH]; intros n.
  - cbn. unfold cw_of. destruct inter; [rewrite Nat.max_0_r|]; reflexivity.
  - rewrite (levels_chain (fun l => if inter then fold_right Nat.max 0 (map (fun x => length (tname x)) l) else 0)).
    cbn [map]. rewrite IH. f_equal. cbn [chain map tname fold_right]. unfold cw_of.
    destruct inter; [rewrite Nat.max_0_r|]; reflexivity.
Qed.

Lemma padding_depths_chain inter : forall ns n,
  padding_depths inter (chain n ns) = if inter then map (@length N) (n :: ns) else [].
Proof.
  intros ns n. unfold padding_depths. destruct inter; [|reflexivity].
  rewrite compact_chain, height_chain. unfold level_width.
  revert n. induction ns as [|m r IH]; intros n.
  - cbn. rewrite Nat.max_0_r. reflexivity.
  - rewrite (levels_chain (fun l => max_list (map (fun x => length (tname x)) l))).
    cbn [map]. rewrite IH. f_equal. cbn [chain map tname max_list fold_right]. apply Nat.max_0_r.
Qed.

Lemma center_small s w : w <= length s -> center s w = s.
Proof.
  intros H. unfold center. replace (w - length s) with 0 by lia. cbn. apply app_nil_r.
Qed.

Lemma hbranch_chain st inter ws : forall ns n d,
  forallb clean_name (n :: ns) = true ->
  (forall i, i <= length ns -> pad_at ws (d + i) <= length (nth i (n :: ns) [])) ->
  hbranch st inter ws d (chain n ns) = ([chain_row st inter n ns], 0, true).
Proof.
  induction ns as [|m r IH]; intros n d HC HW; cbn [forallb] in HC; apply andb_true_iff in HC as [Hn HC].
  - cbn [chain]. rewrite hbranch_eq. cbv zeta. cbn [is_hole ttag existsb orb negb].
    rewrite center_small by (specialize (HW 0 (Nat.le_0_l _)); rewrite Nat.add_0_r in HW; exact HW).
    apply andb_true_iff in Hn as [Hr _]. apply str_eqb_eq in Hr. rewrite Hr. reflexivity.
  - cbn [chain]. rewrite hbranch_eq. cbv zeta. cbn [is_hole ttag existsb map]. unfold real at 1.
    rewrite chain_not_hole. cbn [negb orb].
    rewrite center_small by (specialize (HW 0 (Nat.le_0_l _)); rewrite Nat.add_0_r in HW; exact HW).
    rewrite (IH m (S d) HC).
    + unfold hassemble. cbn [map fst snd forallb hd List.last sum_list fold_right length concat app andb].
      change ((0 + (1 + 0 + 0 - 1)) / 2) with 0. cbn [Nat.add Nat.sub repeat app zip_with chain_row].
      unfold icell. destruct inter; cbn [app]; rewrite <- ?app_assoc; reflexivity.
    + intros i Hi. specialize (HW (S i)). cbn [length nth] in HW.
      replace (S d + i) with (d + S i) by lia. apply HW. lia.
Qed.

Lemma nth_map_length_le (l : list str) : forall i, nth i (map (@length N) l) 0 <= length (nth i l []).
Proof. induction l as [|x l IH]; intros [|i]; cbn; try lia. apply IH. Qed.

(* the horizontal text of a chain decodes back to the chain, with the text-only decoder *)
Theorem hroundtrip_chain st inter n ns :
  hs_branch st <> 32%N -> forallb clean_name (n :: ns) = true ->
  exists rows dec,
    hyield_rows st inter (chain n ns) = Ret rows
    /\ h_decode (glyphs_of_hs st) inter (band_widths inter (chain n ns)) None rows = Some dec
    /\ h_match inter dec (chain n ns) = true.
Proof.
  intros Hb HC.
  destruct (decode_chain st inter Hb n ns HC) as [dec [HD HM]].
  exists [chain_row st inter n ns], dec. split; [|split; [|exact HM]].
  - unfold hyield_rows. rewrite (hbranch_chain st inter _ ns n 1 HC); [reflexivity|].
    intros i Hi. rewrite padding_depths_chain. unfold pad_at. cbn [Nat.add Nat.sub]. rewrite Nat.sub_0_r.
    destruct inter; [|replace (nth i (@nil nat) 0) with 0 by (destruct i; reflexivity); lia].
    apply nth_map_length_le.
  - rewrite band_widths_chain. exact HD.
Qed.

(* ============================================================================================== *)
(* 17. horizontal round trip for trees of height 2 with three or more children *)

Section StarRoundTrip.
  Variables (st : hstyle) (inter : bool).
  Hypothesis Hd : hglyphs_distinct (glyphs_of_hs st) = true.
  Let b := hs_branch st.
  Let gl := glyphs_of_hs st.

  Lemma star_facts :
    hs_branch st <> 32%N /\ hs_first st <> 32%N /\ N.eqb (hs_subseq st) (hs_last st) = false
    /\ N.eqb (hs_first st) 32%N = false /\ N.eqb (hs_subseq st) 32%N = false
    /\ N.eqb (hs_last st) 32%N = false /\ N.eqb (hs_first st) (hs_last st) = false.
  Proof.
    unfold hglyphs_distinct in Hd. cbn [glyphs_of_hs g_first g_last g_stem g_subseq g_branch g_split g_middle] in Hd.
    repeat (apply andb_true_iff in Hd as [Hd ?]).
    repeat match goal with H : negb _ = true |- _ => apply negb_true_iff in H end.
    repeat split; try assumption.
    - intros E. rewrite E in *. discriminate.
    - intros E. rewrite E in *. discriminate.
    - rewrite N.eqb_sym. assumption.
  Qed.

  (* k children, k >= 3; the parent's row *)
  Variable k : nat.
  Hypothesis Hk : 3 <= k.
  Let mid := (0 + (k + 0 - 1)) / 2.

  Lemma mid_bounds_star : 0 < mid /\ mid < k - 1.
  Proof. unfold mid. destruct (mid_bounds 0 (k + 0 - 1)) as [A B]; [lia|]. lia. Qed.

  Definition G (i : nat) : N := conn st (seq 0 k) mid i.

  Lemma seq_hd_last : hd 0 (seq 0 k) = 0 /\ List.last (seq 0 k) 0 = k - 1.
  Proof.
    split; [destruct k; [lia|reflexivity]|].
    destruct k as [|k']; [lia|]. rewrite seq_S, last_last. cbn. lia.
  Qed.

  Lemma memb_seq i : i < k -> memb i (seq 0 k) = true.
  Proof. intros H. apply memb_true. apply in_seq. lia. Qed.

  Lemma G_first : G 0 = hs_first st.
  Proof.
    destruct mid_bounds_star as [M1 M2]. destruct seq_hd_last as [H1 H2].
    unfold G, conn. rewrite memb_seq by lia. rewrite H1.
    replace (Nat.eqb 0 mid) with false by (symmetry; apply Nat.eqb_neq; lia). reflexivity.
  Qed.
  Lemma G_mid : G mid = hs_middle st.
  Proof.
    destruct mid_bounds_star as [M1 M2].
    unfold G, conn. rewrite memb_seq by lia. rewrite Nat.eqb_refl.
    destruct k as [|[|[|k']]]; try lia. reflexivity.
  Qed.
  Lemma G_last : G (k - 1) = hs_last st.
  Proof.
    destruct mid_bounds_star as [M1 M2]. destruct seq_hd_last as [H1 H2].
    unfold G, conn. rewrite memb_seq by lia. rewrite H1, H2.
    replace (Nat.eqb (k - 1) mid) with false by (symmetry; apply Nat.eqb_neq; lia).
    replace (Nat.eqb (k - 1) 0) with false by (symmetry; apply Nat.eqb_neq; lia).
    rewrite Nat.eqb_refl. reflexivity.
  Qed.
  Lemma G_other i : 0 < i -> i < k - 1 -> i <> mid -> G i = hs_subseq st.
  Proof.
    intros A B C. destruct seq_hd_last as [H1 H2].
    unfold G, conn. rewrite memb_seq by lia. rewrite H1, H2.
    replace (Nat.eqb i mid) with false by (symmetry; apply Nat.eqb_neq; lia).
    replace (Nat.eqb i 0) with false by (symmetry; apply Nat.eqb_neq; lia).
    replace (Nat.eqb i (k - 1)) with false by (symmetry; apply Nat.eqb_neq; lia). reflexivity.
  Qed.

  (* ---- the connector column of the root ---- *)
  Variable rootn : str.              (* the name the root cell decodes to *)
  Definition c0 (i : nat) : hcell := if Nat.eqb i mid then HInt rootn (G i) else HPad (G i).

  Fixpoint col0_from (i n : nat) : list (option hcell) :=
    match n with 0 => [] | S n' => Some (c0 i) :: col0_from (S i) n' end.

  Definition cur_at (i : nat) : option hrun :=
    match i with
    | 0 => None
    | _ => Some (HR None (if Nat.ltb mid i then Some mid else None) (seq 0 i))
    end.

  Lemma scan_star : forall n i,
    0 < n -> i + n = k ->
    h_scan gl None i (col0_from i n) (repeat true n) (cur_at i) = Some [(mid, seq 0 k)].
  Proof.
    destruct star_facts as [F1 [F2 [F3 [F4 [F5 [F6 F7]]]]]]. destruct mid_bounds_star as [M1 M2].
    induction n as [|n IH]; intros i Hn Hi; [lia|].
    cbn [col0_from repeat]. unfold c0 at 1.
    destruct (Nat.eq_dec i 0) as [->|Hi0].
    - (* first row: opens the connector *)
      replace (Nat.eqb 0 mid) with false by (symmetry; apply Nat.eqb_neq; lia).
      rewrite G_first. cbn [cur_at h_scan]. rewrite F4. cbn [g_first gl glyphs_of_hs]. rewrite N.eqb_refl. cbn [andb].
      specialize (IH 1 ltac:(lia) ltac:(lia)). cbn [cur_at] in IH.
      replace (Nat.ltb mid 1) with false in IH by (symmetry; apply Nat.ltb_ge; lia). exact IH.
    - destruct i as [|i']; [contradiction|].
      cbn [cur_at].
      destruct (Nat.eq_dec (S i') mid) as [Em|Em].
      + (* the parent's row, which is also a child's row *)
        specialize (IH (S (S i')) ltac:(lia) ltac:(lia)). cbn [cur_at] in IH.
        rewrite Em in *.
        rewrite Nat.eqb_refl, G_mid.
        replace (Nat.ltb mid mid) with false by (symmetry; apply Nat.ltb_ge; lia).
        cbn [h_scan hr_par hr_rem hr_kids]. cbn [g_middle gl glyphs_of_hs]. rewrite N.eqb_refl. cbn [andb negb option_map].
        replace (Nat.ltb mid (S mid)) with true in IH by (symmetry; apply Nat.ltb_lt; lia).
        rewrite seq_S in IH. cbn [Nat.add] in IH. exact IH.
      + replace (Nat.eqb (S i') mid) with false by (symmetry; apply Nat.eqb_neq; exact Em).
        destruct (Nat.eq_dec (S i') (k - 1)) as [El|El].
        * (* last row: closes *)
          rewrite El, G_last. replace (Nat.ltb mid (k - 1)) with true by (symmetry; apply Nat.ltb_lt; lia).
          cbn [h_scan hr_par hr_rem hr_kids]. cbn [g_last gl glyphs_of_hs]. rewrite N.eqb_refl.
          assert (n = 0) by lia. subst n. cbn [col0_from repeat h_scan].
          replace (seq 0 (k - 1) ++ [k - 1]) with (seq 0 k); [reflexivity|].
          replace k with (S (k - 1)) at 1 by lia. rewrite seq_S. reflexivity.
        * (* another child *)
          rewrite (G_other (S i')) by lia.
          cbn [h_scan hr_par hr_rem hr_kids]. cbn [g_last g_subseq gl glyphs_of_hs]. rewrite F3, N.eqb_refl.
          cbn [option_map].
          specialize (IH (S (S i')) ltac:(lia) ltac:(lia)). cbn [cur_at] in IH. rewrite seq_S in IH. cbn [Nat.add] in IH.
          replace (Nat.ltb mid (S (S i'))) with (Nat.ltb mid (S i')) in IH; [exact IH|].
          destruct (Nat.ltb mid (S i')) eqn:E1.
          -- apply Nat.ltb_lt in E1. symmetry. apply Nat.ltb_lt. lia.
          -- apply Nat.ltb_ge in E1. symmetry. apply Nat.ltb_ge. lia.
  Qed.
End StarRoundTrip.
