(* Proofs about the rendering models (Algo/Render.v, HRender.v, Dot.v) against Spec/PC18.v. *)
From BT Require Import Base.Prelude Base.Str Base.Rose Algo.Render Algo.HRender Algo.Dot Spec.PC18.

(* ============================================================================================== *)
(* 0. small list facts *)

Lemma all2_map_r {A B} (f : A -> B -> bool) (g : A -> B) (l : list A) :
  (forall x, In x l -> f x (g x) = true) -> all2 f l (map g l) = true.
Proof.
  induction l as [|x l IH]; intros H; cbn; [reflexivity|].
  rewrite H by (left; reflexivity). cbn. apply IH. intros y Hy. apply H. right. exact Hy.
Qed.

Lemma list_eqb_refl {A} (e : A -> A -> bool) (l : list A) :
  (forall x, e x x = true) -> list_eqb e l l = true.
Proof. intros H. induction l as [|x l IH]; cbn; [reflexivity|]. rewrite H, IH. reflexivity. Qed.

Lemma map_seq_nth {A B} (f : nat -> B) (g : A -> B) (d : A) (l : list A) (off : nat) :
  (forall k, k < length l -> f (off + k) = g (nth k l d)) ->
  map f (seq off (length l)) = map g l.
Proof.
  revert off. induction l as [|x l IH]; intros off H; cbn; [reflexivity|].
  f_equal.
  - specialize (H 0 (Nat.lt_0_succ _)). rewrite Nat.add_0_r in H. exact H.
  - apply IH. intros k Hk. specialize (H (S k)). cbn in H.
    rewrite <- plus_n_Sm in H. apply H. lia.
Qed.

(* ============================================================================================== *)
(* 1. vertical rendering: the loop with the set `unclosed_depth` draws exactly the rows of the spec *)

Lemma umem_uadd k n u : umem k (uadd n u) = Nat.eqb k n || umem k u.
Proof.
  unfold uadd. destruct (umem n u) eqn:E.
  - destruct (Nat.eqb k n) eqn:K; [|reflexivity]. apply Nat.eqb_eq in K. subst. cbn. exact E.
  - reflexivity.
Qed.

Lemma umem_uremove k n u : umem k (uremove n u) = negb (Nat.eqb k n) && umem k u.
Proof.
  unfold uremove, umem. induction u as [|x u IH]; cbn.
  - rewrite andb_false_r. reflexivity.
  - destruct (Nat.eqb n x) eqn:E; cbn.
    + apply Nat.eqb_eq in E. subst x. rewrite IH. destruct (Nat.eqb k n); reflexivity.
    + rewrite IH. destruct (Nat.eqb k x) eqn:K; cbn; [|reflexivity].
      apply Nat.eqb_eq in K. subst x.
      destruct (Nat.eqb k n) eqn:K2; [|reflexivity].
      apply Nat.eqb_eq in K2. subst. rewrite Nat.eqb_refl in E. discriminate.
Qed.

(* the standalone form of the nested fixpoints *)
Definition vnodes_kids (d : nat) (ks : list tree) : list vnode :=
  (fix go (l : list tree) : list vnode :=
     match l with
     | [] => []
     | k :: r => vnodes (S d) (match r with [] => false | _ => true end) k ++ go r
     end) ks.

Definition vrows_kids (d : nat) (anc : list bool) (ks : list tree) : list vrow :=
  (fix go (l : list tree) : list vrow :=
     match l with
     | [] => []
     | k :: r => vrows (S d) anc (has_next r) k ++ go r
     end) ks.

Lemma vnodes_eq d sib g n a ks : vnodes d sib (T g n a ks) = VN d sib n :: vnodes_kids d ks.
Proof. reflexivity. Qed.
Lemma vnodes_kids_cons d k r :
  vnodes_kids d (k :: r) = vnodes (S d) (has_next r) k ++ vnodes_kids d r.
Proof. reflexivity. Qed.
Lemma vrows_eq d anc sib g n a ks :
  vrows d anc sib (T g n a ks) = VR d anc sib n :: vrows_kids d (anc ++ [sib]) ks.
Proof. reflexivity. Qed.
Lemma vrows_kids_cons d anc k r :
  vrows_kids d anc (k :: r) = vrows (S d) anc (has_next r) k ++ vrows_kids d anc r.
Proof. reflexivity. Qed.
Lemma vrows_root_eq t : vrows_root t = vrows_kids 0 [] (tkids t).
Proof. reflexivity. Qed.

(* the line the spec prescribes for a row *)
Definition vline_of (st : vstyle) (r : vrow) : vline :=
  (concat (map (vcell st) (vr_anc r)), if vr_sib r then vs_branch st else vs_final st, vr_name r).

(* the set agrees with the sibling flags of the ancestors: level k+1 is in the set iff flag k *)
Definition agree (u : uset) (anc : list bool) : Prop :=
  forall k, k < length anc -> umem (S k) u = nth k anc false.

Lemma agree_prefix u anc x : agree u (anc ++ [x]) -> agree u anc.
Proof.
  intros H k Hk. rewrite (H k) by (rewrite app_length; cbn; lia).
  rewrite app_nth1 by exact Hk. reflexivity.
Qed.

Lemma vloop_app st u l1 : forall l2,
  vloop st u (l1 ++ l2) =
  vloop st u l1 ++ vloop st (fold_left (fun u x => fst (vstep st u x)) l1 u) l2.
Proof.
  revert u. induction l1 as [|x l1 IH]; intros u l2; cbn [app vloop fold_left]; [reflexivity|].
  destruct (vstep st u x) as [u' ln] eqn:E. cbn [fst]. rewrite IH. reflexivity.
Qed.

Section Vertical.
  Variable st : vstyle.

  (* one step at depth S (length anc) *)
  Lemma vstep_spec u anc sib n :
    agree u anc ->
    exists u', vstep st u (VN (S (length anc)) sib n) = (u', vline_of st (VR (S (length anc)) anc sib n))
               /\ agree u' (anc ++ [sib]).
  Proof.
    intros Hu.
    set (d := S (length anc)).
    set (u' := if sib then uadd d u else uremove d u).
    exists u'. split.
    - assert (HM : map (fun k => if umem k u' then vs_stem st else vs_gap st) (seq 1 (length anc))
                   = map (vcell st) anc).
      { apply (map_seq_nth (fun k => if umem k u' then vs_stem st else vs_gap st) (vcell st) false anc 1).
        intros k Hk. cbn [Nat.add]. unfold vcell.
        replace (umem (S k) u') with (nth k anc false); [reflexivity|].
        rewrite <- (Hu k Hk). unfold u'. destruct sib.
        + rewrite umem_uadd. replace (Nat.eqb (S k) d) with false; [reflexivity|].
          symmetry. apply Nat.eqb_neq. unfold d. lia.
        + rewrite umem_uremove. replace (Nat.eqb (S k) d) with false; [reflexivity|].
          symmetry. apply Nat.eqb_neq. unfold d. lia. }
      unfold vstep. cbn [vn_depth vn_sib vn_name]. fold d. fold u'.
      replace (d - 1) with (length anc) by (unfold d; lia).
      rewrite HM. reflexivity.
    - intros k Hk. rewrite app_length in Hk. cbn in Hk.
      destruct (Nat.eq_dec k (length anc)) as [->|Hne].
      + rewrite nth_middle. fold d. unfold u'. destruct sib.
        * rewrite umem_uadd, Nat.eqb_refl. reflexivity.
        * rewrite umem_uremove, Nat.eqb_refl. reflexivity.
      + assert (Hk' : k < length anc) by lia.
        rewrite app_nth1 by exact Hk'. rewrite <- (Hu k Hk'). unfold u'. destruct sib.
        * rewrite umem_uadd. replace (Nat.eqb (S k) d) with false; [reflexivity|].
          symmetry. apply Nat.eqb_neq. unfold d. lia.
        * rewrite umem_uremove. replace (Nat.eqb (S k) d) with false; [reflexivity|].
          symmetry. apply Nat.eqb_neq. unfold d. lia.
  Qed.

  Definition tree_ok (t : tree) : Prop :=
    forall anc sib u, agree u anc ->
      exists u', agree u' (anc ++ [sib]) /\
        forall rest, vloop st u (vnodes (S (length anc)) sib t ++ rest)
                     = map (vline_of st) (vrows (S (length anc)) anc sib t) ++ vloop st u' rest.

  Definition kids_ok (ks : list tree) : Prop :=
    forall anc u, agree u anc ->
      exists u', agree u' anc /\
        forall rest, vloop st u (vnodes_kids (length anc) ks ++ rest)
                     = map (vline_of st) (vrows_kids (length anc) anc ks) ++ vloop st u' rest.

  Lemma kids_ok_of_forall ks : Forall tree_ok ks -> kids_ok ks.
  Proof.
    induction 1 as [|k r Hk Hr IH]; intros anc u Hu.
    - exists u. split; [exact Hu|]. intros rest. reflexivity.
    - destruct (Hk anc (has_next r) u Hu) as [u1 [Hu1 E1]].
      destruct (IH anc u1 (agree_prefix _ _ _ Hu1)) as [u2 [Hu2 E2]].
      exists u2. split; [exact Hu2|]. intros rest.
      rewrite vnodes_kids_cons, vrows_kids_cons, <- app_assoc, E1, E2, map_app, <- app_assoc.
      reflexivity.
  Qed.

  Lemma tree_ok_all t : tree_ok t.
  Proof.
    induction t as [g n a ks IH] using tree_ind'. intros anc sib u Hu.
    destruct (vstep_spec u anc sib n Hu) as [u1 [E1 Hu1]].
    pose proof (kids_ok_of_forall ks IH) as HK.
    specialize (HK (anc ++ [sib]) u1 Hu1). destruct HK as [u2 [Hu2 E2]].
    exists u2. split; [exact Hu2|]. intros rest.
    rewrite vnodes_eq, vrows_eq. cbn [app vloop map]. rewrite E1.
    f_equal. replace (S (length anc)) with (length (anc ++ [sib])) by (rewrite app_length; cbn; lia).
    apply E2.
  Qed.

  (* the whole loop *)
  Theorem yield_lines_spec t :
    yield_lines st t = ([], [], tname t) :: map (vline_of st) (vrows_root t).
  Proof.
    destruct t as [g n a ks]. unfold yield_lines. rewrite vnodes_eq. cbn [vloop vstep vn_depth vn_name tname].
    f_equal. rewrite vrows_root_eq. cbn [tkids].
    assert (H0 : agree [] []) by (intros k Hk; cbn in Hk; lia).
    destruct (kids_ok_of_forall ks (proj2 (Forall_forall _ _) (fun x _ => tree_ok_all x)) [] [] H0)
      as [u' [_ E]].
    specialize (E []). cbn [length] in E. cbn [vloop] in E. rewrite ?app_nil_r in E. exact E.
  Qed.
End Vertical.

(* ---- consequences: the clauses of PC18 ---- *)

Lemma yield_lines_tl st t : tl (yield_lines st t) = map (vline_of st) (vrows_root t).
Proof. rewrite yield_lines_spec. reflexivity. Qed.

Lemma v_fill_model st t : v_fill st t (yield_lines st t) = true.
Proof.
  unfold v_fill. rewrite yield_lines_tl. apply all2_map_r. intros r _.
  unfold v_fill_row, vline_of. apply str_eqb_refl.
Qed.

Lemma v_stems_model st t : v_stems st t (yield_lines st t) = true.
Proof.
  unfold v_stems. rewrite yield_lines_tl. apply all2_map_r. intros r _.
  unfold v_stems_row, vline_of. apply str_eqb_refl.
Qed.

(* names in pre-order *)
Definition pre_kids (ks : list tree) : list tree := flat_map pre ks.

Lemma vrows_names : forall t d anc sib, map vr_name (vrows d anc sib t) = map tname (pre t).
Proof.
  induction t as [g n a ks IH] using tree_ind'. intros d anc sib.
  rewrite vrows_eq. cbn [map vr_name pre tname]. f_equal.
  generalize (anc ++ [sib]) as anc'. intros anc'.
  induction IH as [|k r Hk Hr IHr]; [reflexivity|].
  rewrite vrows_kids_cons. cbn [flat_map]. rewrite !map_app, Hk, IHr. reflexivity.
Qed.

Lemma vrows_kids_names ks d anc : map vr_name (vrows_kids d anc ks) = map tname (flat_map pre ks).
Proof.
  induction ks as [|k r IH]; [reflexivity|].
  rewrite vrows_kids_cons. cbn [flat_map]. rewrite !map_app, vrows_names, IH. reflexivity.
Qed.

Lemma v_lines_preorder_model st t : v_lines_preorder t (yield_lines st t) = true.
Proof.
  unfold v_lines_preorder. rewrite yield_lines_spec. destruct t as [g n a ks].
  cbn [map snd pre tname]. rewrite map_map.
  replace (map (fun x => snd (vline_of st x)) (vrows_root (T g n a ks)))
    with (map vr_name (vrows_root (T g n a ks))) by (apply map_ext; intros r; reflexivity).
  rewrite vrows_root_eq, vrows_kids_names. cbn [tkids]. cbn [list_eqb].
  rewrite str_eqb_refl. cbn. apply list_eqb_refl. apply str_eqb_refl.
Qed.

(* every row records its depth consistently with the number of ancestor flags *)
Lemma vrows_depth : forall t anc sib r,
  In r (vrows (S (length anc)) anc sib t) -> vr_depth r = S (length (vr_anc r)).
Proof.
  induction t as [g n a ks IH] using tree_ind'. intros anc sib r Hr.
  rewrite vrows_eq in Hr. destruct Hr as [<-|Hr]; [reflexivity|].
  assert (HL : S (length anc) = length (anc ++ [sib])) by (rewrite app_length; cbn; lia).
  rewrite HL in Hr. revert Hr. generalize (anc ++ [sib]) as anc'. intros anc' Hr.
  induction IH as [|k ks' Hk Hks IHk]; [destruct Hr|].
  rewrite vrows_kids_cons in Hr. apply in_app_or in Hr as [Hr|Hr].
  - eapply Hk. exact Hr.
  - apply IHk. exact Hr.
Qed.

Lemma vrows_root_depth t r : In r (vrows_root t) -> vr_depth r = S (length (vr_anc r)).
Proof.
  rewrite vrows_root_eq. generalize (tkids t) as ks. intros ks Hr.
  induction ks as [|k ks IH]; [destruct Hr|].
  rewrite vrows_kids_cons in Hr. apply in_app_or in Hr as [Hr|Hr].
  - apply (vrows_depth k [] _ r Hr).
  - apply IH. exact Hr.
Qed.

Lemma length_cells st anc : length (concat (map (vcell st) anc)) = vs_width st * length anc.
Proof.
  induction anc as [|b anc IH]; cbn [map concat length]; [lia|].
  rewrite app_length, IH. unfold vcell, vs_gap, vs_width, spaces.
  destruct b; [|rewrite repeat_length]; lia.
Qed.

Lemma v_indent_model st t : vstyle_ok st = true -> v_indent st t (yield_lines st t) = true.
Proof.
  intros Hok. unfold v_indent. apply andb_true_iff. split.
  - rewrite yield_lines_spec. reflexivity.
  - rewrite yield_lines_tl. apply all2_map_r. intros r Hr.
    unfold v_indent_row, vline_of. apply andb_true_iff. split; apply Nat.eqb_eq.
    + rewrite length_cells, (vrows_root_depth t r Hr). cbn [Nat.sub]. rewrite Nat.sub_0_r. reflexivity.
    + unfold vstyle_ok in Hok. apply andb_true_iff in Hok as [H1 H2].
      apply Nat.eqb_eq in H1. apply Nat.eqb_eq in H2. unfold vs_width. destruct (vr_sib r); lia.
Qed.

(* ---- decoding ---- *)

(* pre-order (depth, name) listing of a forest *)
Fixpoint plist (e : nat) (t : tree) : list (nat * str) :=
  match t with
  | T _ n _ ks =>
      (e, n) :: (fix go (l : list tree) : list (nat * str) :=
                   match l with [] => [] | k :: r => plist (S e) k ++ go r end) ks
  end.
Definition plist_kids (e : nat) (ks : list tree) : list (nat * str) :=
  (fix go (l : list tree) : list (nat * str) :=
     match l with [] => [] | k :: r => plist e k ++ go r end) ks.
Lemma plist_eq e g n a ks : plist e (T g n a ks) = (e, n) :: plist_kids (S e) ks.
Proof. reflexivity. Qed.
Lemma plist_kids_cons e k r : plist_kids e (k :: r) = plist e k ++ plist_kids e r.
Proof. reflexivity. Qed.

Fixpoint erase (t : tree) : tree :=
  match t with T _ n _ ks => mk_named n (map erase ks) end.

Lemma same_names_erase t : same_names (erase t) t = true.
Proof.
  induction t as [g n a ks IH] using tree_ind'. cbn [erase mk_named same_names].
  rewrite str_eqb_refl. cbn.
  induction IH as [|k r Hk Hr IHr]; [reflexivity|]. cbn [map]. rewrite Hk, IHr. reflexivity.
Qed.

Lemma plist_deeper : forall t e x, In x (plist e t) -> e <= fst x.
Proof.
  induction t as [g n a ks IH] using tree_ind'. intros e x Hx.
  rewrite plist_eq in Hx. destruct Hx as [<-|Hx]; [cbn; lia|].
  induction IH as [|k r Hk Hr IHr]; [destruct Hx|].
  rewrite plist_kids_cons in Hx. apply in_app_or in Hx as [Hx|Hx].
  - apply Hk in Hx. lia.
  - apply IHr. exact Hx.
Qed.

Lemma plist_kids_deeper ks e x : In x (plist_kids e ks) -> e <= fst x.
Proof.
  induction ks as [|k r IH]; [intros []|].
  rewrite plist_kids_cons. intros Hx. apply in_app_or in Hx as [Hx|Hx].
  - eapply plist_deeper. exact Hx.
  - apply IH. exact Hx.
Qed.

(* span_deeper takes exactly a block of deeper entries when what follows is not deeper *)
Lemma span_deeper_block {A} e (l rest : list (nat * A)) :
  (forall x, In x l -> e < fst x) ->
  (match rest with [] => True | x :: _ => fst x <= e end) ->
  span_deeper e (l ++ rest) = (l, rest).
Proof.
  intros Hl Hr. induction l as [|[d a] l IH]; cbn [app].
  - destruct rest as [|[d a] rest]; [reflexivity|]. cbn in Hr. cbn [span_deeper].
    replace (Nat.ltb e d) with false; [reflexivity|]. symmetry. apply Nat.ltb_ge. exact Hr.
  - cbn [span_deeper]. assert (Hd : e < d) by (apply (Hl (d, a)); left; reflexivity).
    apply Nat.ltb_lt in Hd. rewrite Hd. rewrite IH; [reflexivity|].
    intros x Hx. apply Hl. right. exact Hx.
Qed.

Definition fsize (ks : list tree) : nat := fold_right (fun k a => tsize k + a) 0 ks.

Lemma plist_kids_head e ks :
  match plist_kids e ks with [] => True | x :: _ => fst x <= e end.
Proof.
  destruct ks as [|[g n a ks'] r]; [exact I|].
  rewrite plist_kids_cons, plist_eq. cbn. lia.
Qed.

Lemma forest_of_pre_plist : forall fuel ks e d,
  fsize ks < fuel ->
  forest_of_pre mk_named fuel d (plist_kids e ks) = map erase ks.
Proof.
  induction fuel as [|f IH]; intros ks e d Hf; [lia|].
  destruct ks as [|[g n a ks'] r]; [reflexivity|].
  rewrite plist_kids_cons, plist_eq. cbn [app forest_of_pre].
  rewrite (span_deeper_block e (plist_kids (S e) ks') (plist_kids e r)).
  - cbn [fsize fold_right tsize] in Hf. fold (fsize ks') in Hf. fold (fsize r) in Hf.
    rewrite (IH ks' (S e) (S e)) by lia. rewrite (IH r e d) by lia. reflexivity.
  - intros x Hx. apply plist_kids_deeper in Hx. lia.
  - apply plist_kids_head.
Qed.

Lemma vrows_plist : forall t d anc sib,
  map (fun r => (vr_depth r, vr_name r)) (vrows d anc sib t) = plist d t.
Proof.
  induction t as [g n a ks IH] using tree_ind'. intros d anc sib.
  rewrite vrows_eq, plist_eq. cbn [map vr_depth vr_name]. f_equal.
  generalize (anc ++ [sib]) as anc'. intros anc'.
  induction IH as [|k r Hk Hr IHr]; [reflexivity|].
  rewrite vrows_kids_cons, plist_kids_cons, map_app, Hk, IHr. reflexivity.
Qed.

Lemma vrows_kids_plist ks d anc :
  map (fun r => (vr_depth r, vr_name r)) (vrows_kids d anc ks) = plist_kids (S d) ks.
Proof.
  induction ks as [|k r IH]; [reflexivity|].
  rewrite vrows_kids_cons, plist_kids_cons, map_app, vrows_plist, IH. reflexivity.
Qed.

Lemma fsize_pre ks : fsize ks = length (flat_map pre ks).
Proof.
  induction ks as [|k r IH]; [reflexivity|]. cbn [fsize fold_right flat_map].
  fold (fsize r). rewrite app_length, pre_length, IH. reflexivity.
Qed.

Lemma v_decodable_model st t :
  vstyle_ok st = true -> vs_width st <> 0 -> v_decodable st t (yield_lines st t) = true.
Proof.
  intros Hok Hw. unfold v_decodable, v_decode.
  assert (HD : map (v_depth_of (vs_width st)) (yield_lines st t) = plist 0 t).
  { rewrite yield_lines_spec. destruct t as [g n a ks]. rewrite plist_eq. cbn [map v_depth_of length Nat.add].
    rewrite Nat.div_0_l by exact Hw. f_equal.
    rewrite vrows_root_eq. cbn [tkids]. rewrite <- (vrows_kids_plist ks 0 []).
    rewrite map_map. apply map_ext_in. intros r Hr.
    unfold vline_of, v_depth_of. cbn beta iota. f_equal.
    rewrite length_cells.
    assert (HB : length (vs_branch st) = vs_width st /\ length (vs_final st) = vs_width st).
    { unfold vstyle_ok in Hok. apply andb_true_iff in Hok as [H1 H2].
      apply Nat.eqb_eq in H1. apply Nat.eqb_eq in H2. unfold vs_width. lia. }
    destruct HB as [HB HFi].
    rewrite (vrows_root_depth (T g n a ks) r Hr).
    destruct (vr_sib r); rewrite ?HB, ?HFi;
      (replace (vs_width st * length (vr_anc r) + vs_width st) with (S (length (vr_anc r)) * vs_width st) by lia;
       apply Nat.div_mul; exact Hw). }
  rewrite HD.
  replace (plist 0 t) with (plist_kids 0 [t]) by (cbn; apply app_nil_r).
  rewrite forest_of_pre_plist.
  - cbn [map]. apply same_names_erase.
  - cbn [fsize fold_right]. rewrite Nat.add_0_r. rewrite <- pre_length.
    assert (HL : length (yield_lines st t) = length (pre t)).
    { rewrite yield_lines_spec. destruct t as [g n a ks]. cbn [length pre]. f_equal.
      rewrite map_length. rewrite <- (map_length vr_name), vrows_root_eq, vrows_kids_names, map_length.
      reflexivity. }
    lia.
Qed.

(* the vertical clause as a whole *)
Theorem prop_C18_v_model st t :
  vstyle_ok st = true -> prop_C18_v st t (yield_lines st t) = true.
Proof.
  intros Hok. unfold prop_C18_v.
  rewrite v_lines_preorder_model, (v_indent_model st t Hok), v_fill_model, v_stems_model. cbn.
  destruct (Nat.eqb (vs_width st) 0) eqn:E; [reflexivity|]. cbn.
  apply v_decodable_model; [exact Hok|]. apply Nat.eqb_neq. exact E.
Qed.

(* ============================================================================================== *)
(* 2. decimal strings *)

Definition is_digit (c : N) : Prop := (48 <= c <= 57)%N.
Definition is_digitb (c : N) : bool := N.leb 48 c && N.leb c 57.

Lemma is_digitb_spec c : is_digitb c = true <-> is_digit c.
Proof.
  unfold is_digitb, is_digit. rewrite andb_true_iff, !N.leb_le. reflexivity.
Qed.

Lemma uint_digits_digits d : Forall is_digit (uint_digits d).
Proof.
  induction d; cbn [uint_digits]; constructor; try assumption; unfold is_digit; lia.
Qed.

Lemma str_of_nat_digits n : Forall is_digit (str_of_nat n).
Proof. apply uint_digits_digits. Qed.

Lemma uint_digits_inj d e : uint_digits d = uint_digits e -> d = e.
Proof.
  revert e. induction d; intros e H; destruct e; cbn [uint_digits] in H;
    try discriminate; try reflexivity; inversion H; f_equal; auto.
Qed.

Lemma str_of_nat_inj n m : str_of_nat n = str_of_nat m -> n = m.
Proof.
  unfold str_of_nat. intros H. apply uint_digits_inj in H.
  rewrite <- (DecimalNat.Unsigned.of_to n), <- (DecimalNat.Unsigned.of_to m), H. reflexivity.
Qed.

(* a string that is empty or starts with something that is not a digit *)
Definition tail_ok (r : str) : Prop := match r with [] => True | c :: _ => ~ is_digit c end.

Lemma digits_split a : forall b r1 r2,
  Forall is_digit a -> Forall is_digit b -> tail_ok r1 -> tail_ok r2 ->
  a ++ r1 = b ++ r2 -> a = b /\ r1 = r2.
Proof.
  induction a as [|x a IH]; intros b r1 r2 Ha Hb H1 H2 E.
  - destruct b as [|y b]; [split; [reflexivity|exact E]|].
    cbn in E. subst r1. inversion Hb; subst. cbn in H1. contradiction.
  - destruct b as [|y b].
    + cbn in E. subst r2. inversion Ha; subst. cbn in H2. contradiction.
    + cbn in E. inversion E; subst. inversion Ha; inversion Hb; subst.
      destruct (IH b r1 r2) as [-> ->]; auto.
Qed.

(* ============================================================================================== *)
(* 3. mermaid: the names 0-i-j-... are pairwise different *)

Lemma NoDup_app_intro {A} (l1 l2 : list A) :
  NoDup l1 -> NoDup l2 -> (forall x, In x l1 -> ~ In x l2) -> NoDup (l1 ++ l2).
Proof.
  induction l1 as [|x l1 IH]; intros H1 H2 H; cbn; [exact H2|].
  inversion H1; subst. constructor.
  - intros Hin. apply in_app_or in Hin as [Hin|Hin]; [contradiction|].
    apply (H x); [left; reflexivity|exact Hin].
  - apply IH; auto. intros y Hy. apply H. right. exact Hy.
Qed.

Lemma nodup_str_NoDup l : nodup_str l = true <-> NoDup l.
Proof.
  induction l as [|x l IH]; cbn; split; intros H; try constructor; try reflexivity.
  - apply andb_true_iff in H as [H1 H2]. intros Hin.
    apply negb_true_iff in H1. assert (existsb (str_eqb x) l = true); [|congruence].
    apply existsb_exists. exists x. split; [exact Hin|apply str_eqb_refl].
  - apply IH. apply andb_true_iff in H as [_ H2]. exact H2.
  - inversion H; subst. apply andb_true_iff. split; [|apply IH; assumption].
    apply negb_true_iff. destruct (existsb (str_eqb x) l) eqn:E; [|reflexivity].
    apply existsb_exists in E as [y [Hy Ey]]. apply str_eqb_eq in Ey. subst. contradiction.
Qed.

Definition mgo_kids (cid : str) (pl : option str) (j : nat) (ks : list tree) : list mflow :=
  (fix go (j : nat) (l : list tree) : list mflow :=
     match l with
     | [] => []
     | k :: r => mermaid_go cid pl j k ++ go (S j) r
     end) j ks.

Lemma mermaid_go_eq pid pl i g n a ks :
  mermaid_go pid pl i (T g n a ks) =
  MF pid pl (pid ++ dash ++ str_of_nat i) n :: mgo_kids (pid ++ dash ++ str_of_nat i) None 0 ks.
Proof. reflexivity. Qed.
Lemma mgo_kids_cons cid pl j k r :
  mgo_kids cid pl j (k :: r) = mermaid_go cid pl j k ++ mgo_kids cid pl (S j) r.
Proof. reflexivity. Qed.
Lemma mermaid_flows_eq t :
  mermaid_flows t = mgo_kids root_ref (Some (tname (compact t))) 0 (tkids (compact t)).
Proof. unfold mermaid_flows. destruct (compact t) as [g n a ks]. reflexivity. Qed.

(* x names a node in the subtree hanging at child index i of the node named pid *)
Definition ext (pid : str) (i : nat) (x : str) : Prop :=
  exists r, x = pid ++ dash ++ str_of_nat i ++ r /\ tail_ok r.

Lemma dash_not_digit : ~ is_digit 45%N.
Proof. unfold is_digit. lia. Qed.

Lemma ext_diff pid i j x : ext pid i x -> ext pid j x -> i = j.
Proof.
  intros [r1 [E1 T1]] [r2 [E2 T2]]. subst x.
  apply app_inv_head in E2. apply app_inv_head in E2.
  destruct (digits_split _ _ _ _ (str_of_nat_digits i) (str_of_nat_digits j) T1 T2 E2) as [E _].
  apply str_of_nat_inj. exact E.
Qed.

Definition mtree_ok (t : tree) : Prop :=
  forall pid pl i, NoDup (map mf_to (mermaid_go pid pl i t))
                   /\ forall x, In x (map mf_to (mermaid_go pid pl i t)) -> ext pid i x.

Lemma mkids_ok ks : Forall mtree_ok ks ->
  forall cid pl j, NoDup (map mf_to (mgo_kids cid pl j ks))
                   /\ forall x, In x (map mf_to (mgo_kids cid pl j ks)) -> exists j', j <= j' /\ ext cid j' x.
Proof.
  induction 1 as [|k r Hk Hr IH]; intros cid pl j.
  - split; [constructor|intros x []].
  - rewrite mgo_kids_cons, map_app. destruct (Hk cid pl j) as [N1 E1]. destruct (IH cid pl (S j)) as [N2 E2].
    split.
    + apply NoDup_app_intro; [exact N1|exact N2|].
      intros x H1 H2. apply E1 in H1. apply E2 in H2 as [j' [Hj H2]].
      pose proof (ext_diff _ _ _ _ H1 H2). lia.
    + intros x Hx. apply in_app_or in Hx as [Hx|Hx].
      * exists j. split; [lia|apply E1; exact Hx].
      * apply E2 in Hx as [j' [Hj Hx]]. exists j'. split; [lia|exact Hx].
Qed.

Lemma mtree_ok_all t : mtree_ok t.
Proof.
  induction t as [g n a ks IH] using tree_ind'. intros pid pl i.
  rewrite mermaid_go_eq. cbn [map mf_to].
  set (cid := pid ++ dash ++ str_of_nat i).
  destruct (mkids_ok ks IH cid None 0) as [ND E].
  assert (HE : forall x, In x (map mf_to (mgo_kids cid None 0 ks)) ->
                         exists r, x = cid ++ dash ++ r).
  { intros x Hx. apply E in Hx as [j' [_ [r [-> _]]]]. eexists. reflexivity. }
  split.
  - constructor; [|exact ND]. intros Hin. apply HE in Hin as [r Hr].
    apply (f_equal (@length BinNums.N)) in Hr. rewrite !app_length in Hr. cbn in Hr. lia.
  - intros x [<-|Hx].
    + exists []. split; [unfold cid; rewrite app_nil_r; reflexivity|exact I].
    + apply E in Hx as [j' [_ [r [-> _]]]]. unfold cid.
      exists (dash ++ str_of_nat j' ++ r). split.
      * rewrite <- !app_assoc. reflexivity.
      * cbn. apply dash_not_digit.
Qed.

Lemma mermaid_ids_NoDup t : NoDup (map fst (mermaid_nodes t)).
Proof.
  unfold mermaid_nodes. destruct (mermaid_flows t) as [|f fs] eqn:EF; [constructor|].
  rewrite <- EF. cbn [map fst]. rewrite map_map. cbn [fst].
  change (map (fun x : mflow => mf_to x) (mermaid_flows t)) with (map mf_to (mermaid_flows t)).
  rewrite mermaid_flows_eq.
  destruct (mkids_ok (tkids (compact t))
              (proj2 (Forall_forall _ _) (fun x _ => mtree_ok_all x))
              root_ref (Some (tname (compact t))) 0) as [ND E].
  constructor; [|exact ND].
  intros Hin. apply E in Hin as [j' [_ [r [Hr _]]]].
  apply (f_equal (@length BinNums.N)) in Hr. rewrite !app_length in Hr. cbn in Hr. lia.
Qed.

Lemma mermaid_ids_distinct t : graph_ids_distinct (mermaid_nodes t) = true.
Proof. unfold graph_ids_distinct. apply nodup_str_NoDup. apply mermaid_ids_NoDup. Qed.
