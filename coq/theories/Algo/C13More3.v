(* C13, third round: the heap-list and nested-dict constructors (model: Algo/Relation.v, proofs so far:
   Algo/RelationProofs.v, specification predicates: Spec/PC13.v).

   A. list_to_binarytree.  So far: the returned tree satisfies `is_heap_of l 0` (heap_prop), and the parent /
      slot rule is stated on the internal link table (heap_parent, heap_slots_only).  Here:
      - `is_heap_of l i` has at most one solution, so the returned tree is THE tree with that property
        (heap_result_iff: Ret b <-> l <> [] /\ is_heap_of l 0 b);
      - the property's sentence stated on the RETURNED tree, for every position: walking the returned tree
        (at_pos: root = position 0, left child of position i = position 2i+1, right child = 2i+2) reaches a
        node for every position j < length l, carrying l[j]; for j >= 1 it is the left child of the node at
        (j-1)/2 when j is odd and its right child when j is even; nothing else is reached, and a position is
        reached by one node only.
   B. nested_dict_to_tree.  So far: mirror d = Some t -> Ret t, mirror d = None -> refused.  Here:
      - accepted iff of the documented form, and then exactly the mirror (nested_result_iff);
      - the constructor inverts the nested-dict reading of a tree, for EVERY tree whose names are non-empty,
        whose siblings have distinct names and whose attribute keys are distinct and differ from the name key
        (nested_of_tree), leaves written with or without an empty children list: so every such tree is built
        by the constructor, with its nesting, sibling order and attributes. *)
From BT Require Import Base.Prelude Base.Str Base.Rose Algo.Relation Spec.PC13 Algo.RelationProofs.
From Coq Require Import List Lia Arith ZArith Bool.
Import ListNotations.

(* ============================================================================================== *)
(* A. heap lists *)

Definition hval (b : hbt) : Z := match b with BT v _ _ => v end.
Definition hleft (b : hbt) : option hbt := match b with BT _ l _ => l end.
Definition hright (b : hbt) : option hbt := match b with BT _ _ r => r end.

Fixpoint hsize (b : hbt) : nat :=
  match b with
  | BT _ l r => 1 + match l with Some x => hsize x | None => 0 end
                  + match r with Some x => hsize x | None => 0 end
  end.

(* positions in a binary tree: the root is at 0, the left child of the node at i is at 2i+1, the right at 2i+2 *)
Inductive at_pos (root : hbt) : nat -> hbt -> Prop :=
| at_root : at_pos root 0 root
| at_left i p c : at_pos root i p -> hleft p = Some c -> at_pos root (2 * i + 1) c
| at_right i p c : at_pos root i p -> hright p = Some c -> at_pos root (2 * i + 2) c.

Lemma is_heap_inv l i v lo ro :
  is_heap_of l i (BT v lo ro) = true ->
  nth_error l i = Some v /\
  match lo with
  | Some lb => 2 * i + 1 < length l /\ is_heap_of l (2 * i + 1) lb = true
  | None => length l <= 2 * i + 1
  end /\
  match ro with
  | Some rb => 2 * i + 2 < length l /\ is_heap_of l (2 * i + 2) rb = true
  | None => length l <= 2 * i + 2
  end.
Proof.
  intros H. cbn [is_heap_of] in H. apply andb_true_iff in H as [H H3]. apply andb_true_iff in H as [H1 H2].
  split; [|split].
  - destruct (nth_error l i) as [x|]; [|discriminate]. apply Z.eqb_eq in H1. subst. reflexivity.
  - destruct lo as [lb|].
    + apply andb_true_iff in H2 as [Ha Hb]. apply Nat.ltb_lt in Ha. split; assumption.
    + apply Nat.leb_le in H2. exact H2.
  - destruct ro as [rb|].
    + apply andb_true_iff in H3 as [Ha Hb]. apply Nat.ltb_lt in Ha. split; assumption.
    + apply Nat.leb_le in H3. exact H3.
Qed.

Lemma hsize_pos b : 1 <= hsize b.
Proof. destruct b as [v lo ro]. cbn [hsize]. lia. Qed.

Lemma heap_unique_n l : forall n b, hsize b <= n ->
  forall i b', is_heap_of l i b = true -> is_heap_of l i b' = true -> b = b'.
Proof.
  induction n as [|n IH]; intros b Hn i b' H1 H2.
  - pose proof (hsize_pos b). lia.
  - destruct b as [v lo ro], b' as [v' lo' ro'].
    apply is_heap_inv in H1 as [Hv [Hl Hr]]. apply is_heap_inv in H2 as [Hv' [Hl' Hr']].
    cbn [hsize] in Hn.
    assert (v = v') by congruence. subst v'.
    assert (lo = lo').
    { destruct lo as [lb|], lo' as [lb'|].
      - destruct Hl as [_ Hl], Hl' as [_ Hl']. f_equal. apply (IH lb ltac:(lia) _ lb' Hl Hl').
      - destruct Hl as [Hl _]. lia.
      - destruct Hl' as [Hl' _]. lia.
      - reflexivity. }
    assert (ro = ro').
    { destruct ro as [rb|], ro' as [rb'|].
      - destruct Hr as [_ Hr], Hr' as [_ Hr']. f_equal. apply (IH rb ltac:(lia) _ rb' Hr Hr').
      - destruct Hr as [Hr _]. lia.
      - destruct Hr' as [Hr' _]. lia.
      - reflexivity. }
    subst. reflexivity.
Qed.

(* the specification predicate has at most one solution *)
Theorem heap_unique l i b b' : is_heap_of l i b = true -> is_heap_of l i b' = true -> b = b'.
Proof. intros H1 H2. exact (heap_unique_n l (hsize b) b (le_n _) i b' H1 H2). Qed.

(* hence the constructor's result is characterised by it *)
Theorem heap_result_iff l b : list_to_binarytree l = Ret b <-> (l <> [] /\ is_heap_of l 0 b = true).
Proof.
  split.
  - intros H. destruct l as [|x t]; [cbn in H; discriminate|]. split; [discriminate|].
    destruct (heap_correct (x :: t) ltac:(discriminate)) as [b0 [H1 H2]]. congruence.
  - intros [Hl Hb]. destruct (heap_correct l Hl) as [b0 [H1 H2]]. rewrite H1. f_equal.
    exact (heap_unique l 0 b0 b H2 Hb).
Qed.

Theorem heap_refused_iff l : (exists e, list_to_binarytree l = Raise e) <-> l = [].
Proof.
  split.
  - intros [e H]. destruct l as [|x t]; [reflexivity|].
    destruct (heap_correct (x :: t) ltac:(discriminate)) as [b0 [H1 _]]. congruence.
  - intros ->. eexists. reflexivity.
Qed.

(* what is reached at position j is the heap-shaped tree of position j *)
Lemma at_pos_heap l root : is_heap_of l 0 root = true ->
  forall j sub, at_pos root j sub -> is_heap_of l j sub = true.
Proof.
  intros Hr j sub Hp. induction Hp as [|i p c Hp IH Hc|i p c Hp IH Hc]; [exact Hr| |].
  - destruct p as [v lo ro]. cbn [hleft] in Hc. subst lo. apply is_heap_inv in IH as [_ [[_ H] _]]. exact H.
  - destruct p as [v lo ro]. cbn [hright] in Hc. subst ro. apply is_heap_inv in IH as [_ [_ [_ H]]]. exact H.
Qed.

Lemma is_heap_val l j sub : is_heap_of l j sub = true -> j < length l /\ nth_error l j = Some (hval sub).
Proof.
  destruct sub as [v lo ro]. intros H. apply is_heap_inv in H as [Hv _]. split; [|exact Hv].
  apply nth_error_Some. congruence.
Qed.

(* only positions of the list are reached, with the list's elements; one node per position *)
Theorem heap_positions_only l root : is_heap_of l 0 root = true ->
  forall j sub, at_pos root j sub ->
    j < length l /\ nth_error l j = Some (hval sub) /\ forall sub', at_pos root j sub' -> sub' = sub.
Proof.
  intros Hr j sub Hp. pose proof (at_pos_heap l root Hr j sub Hp) as Hs.
  destruct (is_heap_val l j sub Hs) as [H1 H2]. split; [exact H1|split; [exact H2|]].
  intros sub' Hp'. exact (heap_unique l j sub' sub (at_pos_heap l root Hr j sub' Hp') Hs).
Qed.

Lemma half_cases j : 1 <= j -> j = 2 * ((j - 1) / 2) + 1 \/ j = 2 * ((j - 1) / 2) + 2.
Proof.
  intros Hj. pose proof (Nat.div_mod (j - 1) 2 ltac:(lia)) as E.
  pose proof (Nat.mod_upper_bound (j - 1) 2 ltac:(lia)) as M. lia.
Qed.

(* every position is reached *)
Lemma heap_reach l root : is_heap_of l 0 root = true ->
  forall n j, j <= n -> j < length l -> exists sub, at_pos root j sub.
Proof.
  intros Hr. induction n as [|n IH]; intros j Hn Hj.
  - assert (j = 0) by lia. subst. exists root. constructor.
  - destruct (Nat.eq_dec j 0) as [->|Hnz]; [exists root; constructor|].
    pose proof (half_cases j ltac:(lia)) as Hc. set (p := (j - 1) / 2) in *.
    destruct (IH p ltac:(lia) ltac:(lia)) as [par Hpar].
    pose proof (at_pos_heap l root Hr p par Hpar) as Hh. destruct par as [v lo ro].
    apply is_heap_inv in Hh as [_ [Hl Hrr]]. destruct Hc as [Hc|Hc].
    + destruct lo as [lb|]; [|lia]. exists lb. rewrite Hc. apply (at_left root p (BT v (Some lb) ro) lb Hpar). reflexivity.
    + destruct ro as [rb|]; [|lia]. exists rb. rewrite Hc. apply (at_right root p (BT v lo (Some rb)) rb Hpar). reflexivity.
Qed.

(* the property's sentence on the returned tree: the element at position j sits at position j of the tree, and for
   j >= 1 it is the child of the element at position (j-1)/2 - left for odd j, right for even j *)
Theorem heap_positions l root : is_heap_of l 0 root = true ->
  forall j, j < length l ->
    exists sub, at_pos root j sub /\ nth_error l j = Some (hval sub) /\
      (1 <= j -> exists par, at_pos root ((j - 1) / 2) par /\ nth_error l ((j - 1) / 2) = Some (hval par) /\
                  (Nat.odd j = true -> hleft par = Some sub) /\
                  (Nat.even j = true -> hright par = Some sub)).
Proof.
  intros Hr j Hj. destruct (heap_reach l root Hr j j (le_n _) Hj) as [sub Hsub].
  destruct (heap_positions_only l root Hr j sub Hsub) as [_ [Hv Hu]].
  exists sub. split; [exact Hsub|split; [exact Hv|]]. intros H1.
  pose proof (half_cases j H1) as Hc. set (p := (j - 1) / 2) in *.
  destruct (heap_reach l root Hr p p (le_n _) ltac:(lia)) as [par Hpar].
  destruct (heap_positions_only l root Hr p par Hpar) as [_ [Hvp _]].
  exists par. split; [exact Hpar|split; [exact Hvp|]].
  pose proof (at_pos_heap l root Hr p par Hpar) as Hh. destruct par as [v lo ro].
  apply is_heap_inv in Hh as [_ [Hl Hrr]]. cbn [hleft hright]. split.
  - intros Ho. apply Nat.odd_spec in Ho. destruct Ho as [m Hm]. destruct Hc as [Hc|Hc]; [|lia].
    destruct lo as [lb|]; [|lia]. f_equal. apply Hu. rewrite Hc.
    apply (at_left root p (BT v (Some lb) ro) lb Hpar). reflexivity.
  - intros He. apply Nat.even_spec in He. destruct He as [m Hm]. destruct Hc as [Hc|Hc]; [lia|].
    destruct ro as [rb|]; [|lia]. f_equal. apply Hu. rewrite Hc.
    apply (at_right root p (BT v lo (Some rb)) rb Hpar). reflexivity.
Qed.

(* ============================================================================================== *)
(* B. nested dictionaries *)

Theorem nested_result_iff nk d t :
  nd_keys_ok d = true -> (nested_dict_to_tree nk d = Ret t <-> mirror nk d = Some t).
Proof.
  intros Hk. split.
  - intros H. destruct (mirror nk d) as [t0|] eqn:Em.
    + rewrite (nested_mirror nk d t0 Hk Em) in H. congruence.
    + destruct (nested_refused_top nk d Hk Em) as [e He]. congruence.
  - apply nested_mirror. exact Hk.
Qed.

Theorem nested_accepted_iff nk d :
  nd_keys_ok d = true -> ((exists t, nested_dict_to_tree nk d = Ret t) <-> mirror nk d <> None).
Proof.
  intros Hk. split.
  - intros [t H]. apply (nested_result_iff nk d t Hk) in H. congruence.
  - intros H. destruct (mirror nk d) as [t|] eqn:Em; [|congruence]. exists t. apply nested_mirror; assumption.
Qed.

(* the nested dictionary of a tree (what tree_to_nested_dict writes): the name under the name key, then the
   attributes; the children as a list; a leaf with an empty list (leaf_list = true) or without the children key *)
Fixpoint nd_of_tree (leaf_list : bool) (nk : str) (t : tree) : nd :=
  match t with
  | T _ n a ks =>
      ND ((nk, VStr n) :: a)
         (match ks with [] => if leaf_list then CList else CMissing | _ => CList end)
         (map (nd_of_tree leaf_list nk) ks)
  end.

(* trees a nested dictionary can denote: fresh nodes, non-empty names, siblings with distinct names, attribute keys
   distinct and different from the name key *)
Fixpoint nd_tree_ok (nk : str) (t : tree) : bool :=
  match t with
  | T g n a ks =>
      match g with None => true | Some _ => false end
      && match n with [] => false | _ => true end
      && negb (mem_str nk (map fst a))
      && distinct_names (map fst a)
      && distinct_names (map tname ks)
      && forallb (nd_tree_ok nk) ks
  end.

Lemma nd_of_tree_mirror lk nk : forall t,
  nd_tree_ok nk t = true ->
  mirror nk (nd_of_tree lk nk t) = Some t /\ nd_keys_ok (nd_of_tree lk nk t) = true.
Proof.
  induction t as [g n a ks IH] using tree_ind'. intros Hok. cbn [nd_tree_ok] in Hok.
  apply andb_true_iff in Hok as [Hok H6]. apply andb_true_iff in Hok as [Hok H5].
  apply andb_true_iff in Hok as [Hok H4]. apply andb_true_iff in Hok as [Hok H3].
  apply andb_true_iff in Hok as [H1 H2].
  destruct g as [g|]; [discriminate|]. destruct n as [|c nm]; [discriminate|].
  apply negb_true_iff in H3.
  assert (Hl : mirror_list nk (map (nd_of_tree lk nk) ks) = Some ks
               /\ forallb nd_keys_ok (map (nd_of_tree lk nk) ks) = true).
  { clear H5. induction ks as [|k r IHr]; [split; reflexivity|].
    inversion IH as [|? ? Hk Hr]; subst. cbn [forallb] in H6. apply andb_true_iff in H6 as [H6a H6b].
    destruct (Hk H6a) as [Hk1 Hk2]. destruct (IHr Hr H6b) as [Hr1 Hr2].
    cbn [map mirror_list forallb]. rewrite Hk1, Hr1, Hk2, Hr2. split; reflexivity. }
  destruct Hl as [Hl1 Hl2].
  assert (Hf : filter (fun kv => negb (str_eqb (fst kv) nk)) ((nk, VStr (c :: nm)) :: a) = a).
  { cbn [filter fst]. rewrite str_eqb_refl. cbn [negb]. apply filter_other_keys. apply mem_str_nIn. exact H3. }
  split.
  - cbn [nd_of_tree]. rewrite mirror_unfold. cbn [lookup_key]. rewrite str_eqb_refl. rewrite Hf.
    destruct ks as [|k r].
    + destruct lk; reflexivity.
    + rewrite Hl1, H5. reflexivity.
  - cbn [nd_of_tree nd_keys_ok map fst distinct_names]. fold (mem_str nk (map fst a)).
    rewrite H3, H4, Hl2. reflexivity.
Qed.

(* every such tree is built, exactly, from its nested dictionary *)
Theorem nested_of_tree lk nk t :
  nd_tree_ok nk t = true -> nested_dict_to_tree nk (nd_of_tree lk nk t) = Ret t.
Proof.
  intros Hok. destruct (nd_of_tree_mirror lk nk t Hok) as [Hm Hk]. apply nested_mirror; assumption.
Qed.

(* ============================================================================================== *)
(* the heap statements on the constructor's result *)

Theorem heap_result_positions l b : list_to_binarytree l = Ret b ->
  forall j, j < length l ->
    exists sub, at_pos b j sub /\ nth_error l j = Some (hval sub) /\
      (1 <= j -> exists par, at_pos b ((j - 1) / 2) par /\ nth_error l ((j - 1) / 2) = Some (hval par) /\
                  (Nat.odd j = true -> hleft par = Some sub) /\
                  (Nat.even j = true -> hright par = Some sub)).
Proof. intros H. apply heap_result_iff in H as [_ H]. exact (heap_positions l b H). Qed.

Theorem heap_result_positions_only l b : list_to_binarytree l = Ret b ->
  forall j sub, at_pos b j sub ->
    j < length l /\ nth_error l j = Some (hval sub) /\ forall sub', at_pos b j sub' -> sub' = sub.
Proof. intros H. apply heap_result_iff in H as [_ H]. exact (heap_positions_only l b H). Qed.
