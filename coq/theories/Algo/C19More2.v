(* C19, second round: more of clause 4 (cousin separation) of the Reingold-Tilford model Algo/Plot.v.

   Part 1 (no guard at all): the first level of the contour comparison is exact for EVERY pair of
   siblings, whatever their index (the division by 1 - left_idx/right_idx is exact on one level and
   the walk can only add to the shift afterwards).  Hence any two nodes with a common grandparent
   are at least min(sibling, subtree separation) apart, in every tree: `rt_first_cousins`.

   Part 2 (a strictly larger decidable class than cousin_safe): `cousin_safe2`.  For two children
   a (index j) before b of one node that both have children it is enough that
     ONE of them is flat (only leaf children: there is a single common level), or
     j = 0 and the lock-step walk covers every COMMON level of a and b:
       min (hR a) (hL b) = min (height a) (height b)
   (cousin_safe asked for both flat, resp. both walks complete to the bottom of their own
   subtree).  `rt_cousins_safe2`, `safe_safe2` (inclusion), `rt_cousins_failure_safe2`.

   Part 3: the x coordinates do not depend on level_separation / y_offset, the y coordinates are
   the closed form (height - depth) * level_separation + y_offset and depend on nothing else.

   Part 4: multiplying sibling_separation, subtree_separation and x_offset by c > 0 multiplies
   every x by c (`rt_scale`); hence whether clause 4 holds depends on the shape and the ratio of the
   two separations only (`rt_cousins_scale`), and K1 is refuted for the witness family under every
   parameter set with sibling = subtree separation (`k1_refuted_scaled`).

   Part 5: x_offset acts as a lower clamp: the result is the offset-free second-pass drawing moved
   right by max (x_offset, K), -K = the smallest offset-free leaf x (`rt_offset`).

   Only proofs; imports the model, the predicates and the first-round proofs. *)
From Coq Require Import QArith Qminmax Qabs Lqa Lia.
From BT Require Import Base.Prelude Base.Rose Algo.Plot Spec.PC19 Algo.PlotProofs.

Local Open Scope Q_scope.

(* =============================================================================================
   Part 1.  One level of comparison is exact for every pair of siblings *)

(* the accumulated shift never decreases along the walk (any ratio, any fuel, any lists) *)
Lemma contour_ge rt sts : forall fuel ls rs lcs rcs cum,
  cum <= contour fuel rt sts ls rs lcs rcs cum.
Proof.
  induction fuel as [|f IH]; intros ls rs lcs rcs cum.
  - destruct ls as [|l0 XL]; [cbn [contour]; lra|]. destruct rs as [|r0 XR]; [cbn [contour]; lra|].
    cbn [contour]. cbv zeta.
    match goal with |- _ <= Qred (cum + ?n) => assert (H0 : 0 <= n) by apply Q.le_max_r; rewrite Qred_correct; lra end.
  - destruct ls as [|l0 XL]; [cbn [contour]; lra|]. destruct rs as [|r0 XR]; [cbn [contour]; lra|].
    cbn [contour]. cbv zeta.
    set (new := Qmax ((dx l0 + dsh l0 + lcs + sts - (dx r0 + dsh r0 + rcs + cum)) / rt) 0).
    assert (H0 : 0 <= new) by apply Q.le_max_r.
    assert (E : Qred (cum + new) == cum + new) by apply Qred_correct.
    destruct (dkids (pick (l0 :: XL) l0)) as [|a b]; [rewrite E; lra|].
    destruct (dkids (pick (r0 :: XR) r0)) as [|a' b']; [rewrite E; lra|].
    eapply Qle_trans; [|apply IH]. rewrite E. lra.
Qed.

(* what the first comparison asks for is always granted *)
Lemma contour_first fuel rt sts l0 XL r0 XR lcs rcs cum :
  cum + (dx l0 + dsh l0 + lcs + sts - (dx r0 + dsh r0 + rcs + cum)) / rt
  <= contour fuel rt sts (l0 :: XL) (r0 :: XR) lcs rcs cum.
Proof.
  set (q := (dx l0 + dsh l0 + lcs + sts - (dx r0 + dsh r0 + rcs + cum)) / rt).
  assert (H0 : q <= Qmax q 0) by apply Q.le_max_l.
  assert (E : Qred (cum + Qmax q 0) == cum + Qmax q 0) by apply Qred_correct.
  destruct fuel as [|f]; cbn [contour]; cbv zeta; fold q.
  - rewrite E. lra.
  - destruct (dkids (pick (l0 :: XL) l0)) as [|a b]; [rewrite E; lra|].
    destruct (dkids (pick (r0 :: XR) r0)) as [|a' b']; [rewrite E; lra|].
    eapply Qle_trans; [|apply contour_ge]. rewrite E. lra.
Qed.

(* the children of one node are m apart (level 0 of the forest) *)
Definition sep0 (m : Q) (ks : list dtree) : Prop := forall off, ordP (gap m) (lvs 0 off ks).

Lemma sep0_of_chain m ss l : 0 <= m -> m <= ss -> chain_x ss l -> mono (map dsh l) -> sep0 m l.
Proof.
  intros Hm Hss Hcx Hmo off. rewrite lvs0. apply ordP_map.
  eapply ordP_impl; [|apply (chain_pairs ss ltac:(lra) l Hcx Hmo)].
  intros a b Hab. unfold gap. cbn beta in Hab. lra.
Qed.

Lemma sepF_sep0 m ks : sepF m ks -> sep0 m ks.
Proof. intros H off. apply H. Qed.

Lemma left_max0 m Lk lcs l0 X' : 0 <= m -> rev Lk = l0 :: X' -> sep0 m Lk ->
  forall a, In a (lvs 0 lcs Lk) -> a <= dx l0 + dsh l0 + lcs.
Proof.
  intros Hm Erev Hsep.
  assert (EL : Lk = rev X' ++ [l0]).
  { rewrite <- (rev_involutive Lk), Erev. reflexivity. }
  intros a Ha. pose proof (Hsep lcs) as H0. rewrite EL, lvs_app in H0, Ha.
  apply ordP_app in H0. destruct H0 as [_ [_ H0]].
  apply in_app_or in Ha. destruct Ha as [Ha|Ha].
  - specialize (H0 a (dx l0 + dsh l0 + lcs) Ha). unfold gap in H0.
    assert (a + m <= dx l0 + dsh l0 + lcs) by (apply H0; left; reflexivity). lra.
  - cbn in Ha. destruct Ha as [<-|[]]. lra.
Qed.

Lemma right_min0 m Rk rcs r0 X' : 0 <= m -> Rk = r0 :: X' -> sep0 m Rk ->
  forall b, In b (lvs 0 rcs Rk) -> dx r0 + dsh r0 + rcs <= b.
Proof.
  intros Hm ER Hsep b Hb. pose proof (Hsep rcs) as H0. rewrite ER, lvs_cons in H0, Hb.
  apply ordP_app in H0. destruct H0 as [_ [_ H0]].
  apply in_app_or in Hb. destruct Hb as [Hb|Hb].
  - cbn in Hb. destruct Hb as [<-|[]]. lra.
  - specialize (H0 (dx r0 + dsh r0 + rcs) b). unfold gap in H0.
    assert (dx r0 + dsh r0 + rcs + m <= b) by (apply H0; [left; reflexivity|exact Hb]). lra.
Qed.

(* cross1_new of the first round without its two `flat` hypotheses: the children of sibling j and
   the children of the new sibling idx end up m apart, for every j < idx and every shape below *)
Lemma cross1_any m sts d nd j idx s sd sn :
  0 <= m -> m <= sts -> (j < idx)%nat ->
  sep0 m (dkids d) -> sep0 m (dkids nd) ->
  subtree_shift sts d nd j idx <= s ->
  sd == dsh d + s * (Z.of_nat j # Pos.of_nat idx) ->
  sn == dsh nd + s * (Z.of_nat idx # Pos.of_nat idx) ->
  cross1 m (reshift d sd) (reshift nd sn).
Proof.
  intros Hm Hsts Hj HSd HSn Hs Esd Esn off a b Ha Hb.
  rewrite lv_S in Ha, Hb. cbn [reshift dmod dsh dkids] in Ha, Hb.
  unfold subtree_shift in Hs.
  destruct (dkids d) as [|kd0 kdr] eqn:EKd; [destruct Ha|].
  destruct (dkids nd) as [|r0 XR] eqn:EKn; [destruct Hb|].
  cbv beta iota in Hs. rewrite <- EKd in *.
  destruct (rev (dkids d)) as [|l0 XL] eqn:Erev.
  { exfalso. assert (E : dkids d = []) by (rewrite <- (rev_involutive (dkids d)), Erev; reflexivity).
    rewrite E in EKd. discriminate. }
  pose proof (contour_first (dheight d) (ratio j idx) sts l0 XL r0 XR
                (Qred (dmod d + dsh d)) (Qred (dmod nd + dsh nd)) 0) as HC.
  pose proof (left_max0 m (dkids d) (off + dmod d + sd) l0 XL Hm Erev HSd a Ha) as HA.
  pose proof (right_min0 m (r0 :: XR) (off + dmod nd + sn) r0 XR Hm eq_refl HSn b Hb) as HB.
  pose proof (frac_lt1 j idx Hj) as HF1.
  assert (HF2 : (Z.of_nat idx # Pos.of_nat idx) == 1) by (apply frac_one; lia).
  rewrite HF2 in Esn. unfold ratio in HC, Hs.
  set (F1 := Z.of_nat j # Pos.of_nat idx) in *.
  set (N := dx l0 + dsh l0 + Qred (dmod d + dsh d) + sts - (dx r0 + dsh r0 + Qred (dmod nd + dsh nd) + 0)) in *.
  assert (Hrt : ~ 1 - F1 == 0) by (intros E; lra).
  pose proof (Qmult_div_r N (1 - F1) Hrt) as HQ.
  set (q := N / (1 - F1)) in *.
  assert (Hq : q <= s) by lra.
  assert (HN : N <= s * (1 - F1)) by nra.
  unfold N in HN. rewrite !Qred_correct in HN. lra.
Qed.

Definition kidsep0 (m : Q) (d : dtree) : Prop := sep0 m (dkids d).

(* the loop over the children of one parent keeps every pair of processed siblings separated on
   the level of their children: no hypothesis on the shapes *)
Lemma place_cross1 ss sts m : 0 <= m -> m <= sts -> forall todo done pend,
  Forall (sep0 m) todo -> Forall (kidsep0 m) done -> ordP (cross1 m) done ->
  let r := place ss sts done todo pend in
  Forall (kidsep0 m) r /\ ordP (cross1 m) r.
Proof.
  intros Hm Hsts. induction todo as [|dk rest IH]; intros done pend Htodo Hdone Hcross.
  - cbn [place]. split; assumption.
  - inversion Htodo as [|? ? Hdk Hrest]; subst. cbn [place].
    set (x := match done with
              | [] => match dk with [] => 0 | _ :: _ => midpoint dk end
              | d0 :: _ => Qred (dx (last done d0) + ss)
              end).
    set (md := match done, dk with
               | _ :: _, _ :: _ => Qred (x - midpoint dk)
               | _, _ => 0
               end).
    set (nd := D x md (hd 0 pend) dk).
    assert (Hnd : kidsep0 m nd) by exact Hdk.
    destruct done as [|d0 done'].
    + apply IH; [exact Hrest|constructor; [exact Hnd|constructor]|]. cbn. split; [constructor|exact I].
    + set (done := d0 :: done') in *. set (idx := length done).
      set (s := max_shift sts nd idx 0 done 0).
      assert (Hs : 0 <= s) by apply max_shift_ge.
      apply IH; [exact Hrest| |].
      * apply bump_Forall; [intros x0 m0 sh sh' ks H; exact H|].
        apply Forall_app. split; [exact Hdone|constructor; [exact Hnd|constructor]].
      * rewrite bump_app. apply ordP_app. split; [apply ordP_bump; assumption|].
        cbn [Nat.add]. fold idx. rewrite bump_cons. cbn [bump]. split; [cbn; split; [constructor|exact I]|].
        intros d' e Hd' [<-|[]].
        destruct (bump_In _ _ _ _ _ Hd') as [i [d [Hi ->]]]. cbn [Nat.add].
        assert (Hlt : (i < idx)%nat) by (apply nth_error_Some; rewrite Hi; discriminate).
        assert (Hd : kidsep0 m d).
        { rewrite Forall_forall in Hdone. apply Hdone. eapply nth_error_In. exact Hi. }
        eapply (cross1_any m sts d nd i idx s); try eassumption.
        -- apply (max_shift_each sts nd idx done 0 0 i d Hi).
        -- apply Qred_correct.
        -- apply Qred_correct.
Qed.

(* the grandchildren level of a forest *)
Definition lvl1K (m : Q) (K : list dtree) : Prop := forall off, ordP (gap m) (lvs 1 off K).

Lemma fp_lvl1 ss sts m t : 0 <= m -> m <= ss -> m <= sts -> lvl1K m (fp ss sts t).
Proof.
  intros Hm Hss Hsts. destruct t as [g n a ks].
  assert (Htodo : Forall (sep0 m) (map (fp ss sts) ks)).
  { apply Forall_map. apply Forall_forall. intros k _.
    destruct (fp_inv ss sts k) as [_ [Hcx Hmo]]. apply (sep0_of_chain m ss); assumption. }
  destruct (place_cross1 ss sts m Hm Hsts (map (fp ss sts) ks) [] (map (fun _ => 0) ks) Htodo
                         (Forall_nil _) I) as [HF HC].
  change (place ss sts [] (map (fp ss sts) ks) (map (fun _ => 0) ks)) with (fp ss sts (T g n a ks)) in HF, HC.
  intros off. unfold lvs. apply ordP_flat_map.
  - intros d Hd. rewrite lv_S. rewrite Forall_forall in HF. apply (HF d Hd).
  - eapply ordP_impl; [|exact HC]. intros d e H a0 b0 Ha Hb. apply (H off a0 b0 Ha Hb).
Qed.

(* every node of the decorated tree *)
Definition lvl2 (m : Q) (d : dtree) : Prop := lvl1K m (dkids d).

Lemma fp_kid_is_fp ss sts g n a ks d : In d (fp ss sts (T g n a ks)) ->
  exists k, In k ks /\ dkids d = fp ss sts k.
Proof.
  intros Hd. pose proof (fp_dkids ss sts g n a ks) as E.
  assert (Hin : In (dkids d) (map dkids (fp ss sts (T g n a ks)))) by (apply in_map, Hd).
  rewrite E in Hin. apply in_map_iff in Hin. destruct Hin as [k [Hk1 Hk2]]. exists k. auto.
Qed.

Lemma fp_all_lvl2 ss sts m : 0 <= m -> m <= ss -> m <= sts ->
  forall t, Forall (alld (lvl2 m)) (fp ss sts t).
Proof.
  intros Hm Hss Hsts. induction t as [g n a ks IH] using tree_ind'.
  apply Forall_forall. intros d Hd. destruct (fp_kid_is_fp ss sts g n a ks d Hd) as [k [Hk E]].
  apply alld_unfold. unfold lvl2 at 1. rewrite E. split; [apply fp_lvl1; assumption|].
  rewrite Forall_forall in IH. apply IH, Hk.
Qed.

Lemma first_pass_lvl2 ss sts m t : 0 <= m -> m <= ss -> m <= sts ->
  alld (lvl2 m) (first_pass ss sts t).
Proof.
  intros Hm Hss Hsts. unfold first_pass. apply alld_unfold. cbn [dkids]. split.
  - unfold lvl2. cbn [dkids]. apply fp_lvl1; assumption.
  - apply fp_all_lvl2; assumption.
Qed.

(* ... and of the coordinate tree *)
Definition G2 (m : Q) (n : ctree) : Prop := ordP (fun a b => cx a + m <= cx b) (clevel 2 n).

Lemma second_G2 m ls xo yo maxd : forall d depth cum,
  alld (lvl2 m) d -> Forall (G2 m) (cpre (second ls xo yo maxd depth cum d)).
Proof.
  induction d as [x md sh ks IH] using dtree_ind'. intros depth cum HA.
  apply alld_unfold in HA. destruct HA as [H2 Hks]. cbn [dkids] in Hks.
  apply Forall_cpre. split.
  - unfold G2.
    eapply (ordP_Forall2_l _ (gap m)); [|apply (second_lv ls xo yo maxd 2 (D x md sh ks) depth cum cum); reflexivity|].
    + intros a a' b b' E1 E2 Hg. unfold gap in Hg. rewrite E1, E2. lra.
    + rewrite lv_S. apply H2.
  - rewrite ckids_second. apply Forall_map. cbn [dkids].
    rewrite Forall_forall in IH, Hks. apply Forall_forall. intros k Hk.
    apply (IH k Hk). apply (Hks k Hk).
Qed.

Lemma G2_cshift m a n : G2 m n -> G2 m (cshift a n).
Proof.
  unfold G2. intros H. rewrite clevel_cshift. apply ordP_map. eapply ordP_impl; [|exact H].
  intros x y Hxy. cbn beta in *. rewrite !cx_cshift. lra.
Qed.

Lemma third_G2 m c : Forall (G2 m) (cpre c) -> Forall (G2 m) (cpre (third c)).
Proof.
  intros H. unfold third. destruct (Qeq_bool (adjust c) 0); [exact H|].
  apply Forall_cpre_cshift; [|exact H]. intros n. apply G2_cshift.
Qed.

Lemma rt_G2 p t : params_pos p ->
  Forall (G2 (Qmin (p_ss p) (p_sts p))) (cpre (reingold_tilford p t)).
Proof.
  intros Hp. destruct (min_facts p Hp) as [Hm [Hm1 Hm2]].
  rewrite rt_third. apply third_G2. unfold rt2. apply second_G2. apply first_pass_lvl2; assumption.
Qed.

(* the boolean clause: any two grandchildren of one node (= any two nodes of one depth with a
   common grandparent), in tree order, are min(ss, sts) apart *)
Definition cousins2_ok (eps ss sts : Q) (c : ctree) : bool :=
  forallb (fun n => ordpairs (fun a b => leq_eps eps (cx a + Qmin ss sts) (cx b)) (clevel 2 n)) (cpre c).

Lemma rt_first_cousins eps p t : 0 <= eps -> params_pos p ->
  cousins2_ok eps (p_ss p) (p_sts p) (reingold_tilford p t) = true.
Proof.
  intros He Hp. unfold cousins2_ok. apply forallb_forall. intros n Hn.
  pose proof (rt_G2 p t Hp) as HG. rewrite Forall_forall in HG. specialize (HG n Hn).
  eapply ordpairs_true; [|exact HG]. intros a b Hab. cbn beta in Hab. apply leq_eps_true; assumption.
Qed.

(* =============================================================================================
   Part 2.  A larger decidable class: the lock-step walk only has to cover the COMMON levels *)

Definition pair_ok2 (j : nat) (a b : sk) : bool :=
  sflat a || sflat b
  || (Nat.eqb j 0 && Nat.eqb (Nat.min (hR a) (hL b)) (Nat.min (sheight a) (sheight b))).
Fixpoint node_pairs2 (j : nat) (l : list sk) : bool :=
  match l with
  | [] => true
  | a :: r => (sleaf a || forallb (fun b => sleaf b || pair_ok2 j a b) r) && node_pairs2 (S j) r
  end.
Fixpoint cguard4_sk (s : sk) : bool :=
  match s with Sk l => forallb cguard4_sk l && node_pairs2 0 l end.
Definition cousin_safe2 (t : tree) : bool := cguard4_sk (sk_of t).

Lemma lvs_height j off Lk a : In a (lvs j off Lk) -> (j < maxh sheight (map sk_d Lk))%nat.
Proof.
  intros Ha. unfold lvs in Ha. apply in_flat_map in Ha. destruct Ha as [d [Hd Ha]].
  apply lv_height in Ha.
  assert (sheight (sk_d d) <= maxh sheight (map sk_d Lk))%nat by (apply maxh_ge, in_map, Hd). lia.
Qed.

(* left_side / right_side of the first round without the completeness hypothesis: the deeper
   levels of the forest are covered by the picked node as far as the picked node reaches *)
Lemma left_side2 m Lk lcs l0 X' : 0 <= m -> rev Lk = l0 :: X' -> sepF m Lk ->
  let p := pick (rev Lk) l0 in
  (forall a, In a (lvs 0 lcs Lk) -> a <= dx l0 + dsh l0 + lcs) /\
  ((dleaf p /\ forall j, lvs (S j) lcs Lk = []) \/
   (~ dleaf p /\ In p Lk /\ sepF m (dkids p)
    /\ chain hR (map sk_d (rev Lk)) = hR (sk_d p)
    /\ forall j a, In a (lvs (S j) lcs Lk) -> (S j < sheight (sk_d p))%nat ->
                   exists a', In a' (lvs j (lcs + dmod p + dsh p) (dkids p)) /\ a <= a')).
Proof.
  intros Hm Erev Hsep p. split.
  - apply (left_max0 m Lk lcs l0 X' Hm Erev). apply sepF_sep0, Hsep.
  - assert (Hne : rev Lk <> []) by (rewrite Erev; discriminate).
    destruct (pick_spec hR hR_ge1 (rev Lk) l0 Hne) as [[H1 [H2 _]]|[H1 [pre [post [H2 [H3 H4]]]]]];
      fold p in H1, H2.
    + left. split; [exact H1|]. intros j. apply lvs_leaves.
      apply Forall_forall. intros d Hd. rewrite Forall_forall in H2. apply H2. apply in_rev in Hd. exact Hd.
    + right. fold p in H4.
      assert (EL : Lk = rev post ++ p :: rev pre).
      { rewrite <- (rev_involutive Lk), H2, rev_app_distr. cbn [rev]. rewrite <- app_assoc. reflexivity. }
      assert (Hpin : In p Lk) by (rewrite EL; apply in_or_app; right; left; reflexivity).
      split; [exact H1|]. split; [exact Hpin|].
      split; [rewrite EL in Hsep; eapply sepF_kids; exact Hsep|]. split; [exact H4|].
      intros j a Ha Hlt. pose proof (Hsep (S j) lcs) as HS. rewrite EL in HS, Ha.
      rewrite lvs_app, lvs_cons in HS, Ha.
      assert (Epost : lvs (S j) lcs (rev pre) = []).
      { apply lvs_leaves. apply Forall_forall. intros d Hd. rewrite Forall_forall in H3.
        apply H3. apply in_rev. exact Hd. }
      rewrite Epost, app_nil_r in HS, Ha. apply ordP_app in HS. destruct HS as [_ [_ HS]].
      apply in_app_or in Ha. destruct Ha as [Ha|Ha].
      * destruct (lv_nonempty (S j) p lcs Hlt) as [a' Ha'].
        exists a'. split; [rewrite lv_S in Ha'; exact Ha'|].
        specialize (HS a a' Ha Ha'). unfold gap in HS. lra.
      * exists a. split; [rewrite lv_S in Ha; exact Ha|lra].
Qed.

Lemma right_side2 m Rk rcs r0 X' : 0 <= m -> Rk = r0 :: X' -> sepF m Rk ->
  let p := pick Rk r0 in
  (forall b, In b (lvs 0 rcs Rk) -> dx r0 + dsh r0 + rcs <= b) /\
  ((dleaf p /\ forall j, lvs (S j) rcs Rk = []) \/
   (~ dleaf p /\ In p Rk /\ sepF m (dkids p)
    /\ chain hL (map sk_d Rk) = hL (sk_d p)
    /\ forall j b, In b (lvs (S j) rcs Rk) -> (S j < sheight (sk_d p))%nat ->
                   exists b', In b' (lvs j (rcs + dmod p + dsh p) (dkids p)) /\ b' <= b)).
Proof.
  intros Hm ER Hsep p. split.
  - apply (right_min0 m Rk rcs r0 X' Hm ER). apply sepF_sep0, Hsep.
  - assert (Hne : Rk <> []) by (rewrite ER; discriminate).
    destruct (pick_spec hL hL_ge1 Rk r0 Hne) as [[H1 [H2 _]]|[H1 [pre [post [H2 [H3 H4]]]]]];
      fold p in H1, H2.
    + left. split; [exact H1|]. intros j. apply lvs_leaves. exact H2.
    + right. fold p in H4.
      assert (Hpin : In p Rk) by (rewrite H2; apply in_or_app; right; left; reflexivity).
      split; [exact H1|]. split; [exact Hpin|].
      split; [rewrite H2 in Hsep; eapply sepF_kids; exact Hsep|]. split; [exact H4|].
      intros j b Hb Hlt. pose proof (Hsep (S j) rcs) as HS. rewrite H2 in HS, Hb.
      rewrite lvs_app, lvs_cons in HS, Hb.
      rewrite (lvs_leaves j rcs pre H3) in HS, Hb. cbn [app] in HS, Hb.
      apply ordP_app in HS. destruct HS as [_ [_ HS]].
      apply in_app_or in Hb. destruct Hb as [Hb|Hb].
      * exists b. split; [rewrite lv_S in Hb; exact Hb|lra].
      * destruct (lv_nonempty (S j) p rcs Hlt) as [b' Hb'].
        exists b'. split; [rewrite lv_S in Hb'; exact Hb'|].
        specialize (HS b' b Hb' Hb). unfold gap in HS. lra.
Qed.

Lemma hR_kids p : hR (sk_d p) = S (chain hR (map sk_d (rev (dkids p)))).
Proof. rewrite (sk_d_unfold p), hR_chain, <- map_rev. reflexivity. Qed.
Lemma hL_kids p : hL (sk_d p) = S (chain hL (map sk_d (dkids p))).
Proof. rewrite (sk_d_unfold p). reflexivity. Qed.
Lemma sheight_kids p : sheight (sk_d p) = S (maxh sheight (map sk_d (dkids p))).
Proof. rewrite (sk_d_unfold p). reflexivity. Qed.

(* the contour comparison with ratio 1: the returned shift separates the two forests on every
   level, provided the lock-step walk reaches every level the two forests have in common *)
Lemma contour_spec2 m sts rt : rt == 1 -> 0 <= m ->
  forall fuel Lk Rk lcs rcs cum,
    Lk <> [] -> Rk <> [] -> (maxh sheight (map sk_d Lk) <= fuel)%nat ->
    sepF m Lk -> sepF m Rk ->
    Nat.min (chain hR (map sk_d (rev Lk))) (chain hL (map sk_d Rk))
    = Nat.min (maxh sheight (map sk_d Lk)) (maxh sheight (map sk_d Rk)) ->
    let c := contour fuel rt sts (rev Lk) Rk lcs rcs cum in
    cum <= c /\ forall j a b, In a (lvs j lcs Lk) -> In b (lvs j rcs Rk) -> a + sts <= b + c.
Proof.
  intros Hrt Hm. induction fuel as [|f IH]; intros Lk Rk lcs rcs cum HLne HRne Hfuel HsL HsR Hcov.
  - exfalso. destruct Lk as [|d Lk]; [congruence|]. cbn [map maxh fold_right] in Hfuel.
    pose proof (sheight_ge1 (sk_d d)). lia.
  - destruct (rev Lk) as [|l0 XL] eqn:EL.
    { exfalso. apply HLne. rewrite <- (rev_involutive Lk), EL. reflexivity. }
    destruct Rk as [|r0 XR] eqn:ER; [congruence|]. rewrite <- ER in *.
    pose proof (left_side2 m Lk lcs l0 XL Hm EL HsL) as SL. rewrite EL in SL.
    cbv zeta in SL. destruct SL as [SL0 SL].
    pose proof (right_side2 m Rk rcs r0 XR Hm ER HsR) as SR. cbv zeta in SR. destruct SR as [SR0 SR].
    rewrite ER. cbn [contour]. rewrite <- ER.
    set (xl := dx l0 + dsh l0 + lcs) in *.
    set (xr := dx r0 + dsh r0 + rcs + cum).
    set (new := Qmax ((xl + sts - xr) / rt) 0).
    assert (Hn0 : 0 <= new) by apply Q.le_max_r.
    assert (Hn1 : xl + sts - xr <= new).
    { eapply Qle_trans; [|apply Q.le_max_l]. rewrite Hrt. unfold Qdiv. change (/ 1) with 1. lra. }
    set (cum' := Qred (cum + new)).
    assert (Hc' : cum' == cum + new) by apply Qred_correct.
    assert (Lev0 : forall c, cum' <= c -> forall a b,
               In a (lvs 0 lcs Lk) -> In b (lvs 0 rcs Rk) -> a + sts <= b + c).
    { intros c Hc a b Ha Hb. specialize (SL0 a Ha). specialize (SR0 b Hb). unfold xr in Hn1. lra. }
    set (pl := pick (l0 :: XL) l0) in *. set (pr := pick Rk r0) in *.
    assert (Stop : (dleaf pl \/ dleaf pr) ->
                   forall j a b, In a (lvs j lcs Lk) -> In b (lvs j rcs Rk) -> a + sts <= b + cum').
    { intros Hstop [|j] a b Ha Hb; [apply (Lev0 cum'); [lra|exact Ha|exact Hb]|].
      exfalso. destruct Hstop as [Hl|Hr].
      - destruct SL as [[_ SL]|[SL _]]; [rewrite SL in Ha; destruct Ha|contradiction].
      - destruct SR as [[_ SR]|[SR _]]; [rewrite SR in Hb; destruct Hb|contradiction]. }
    cbv zeta. fold xl xr new cum' pl pr.
    destruct SL as [[SLa _]|[SLa [SLin [SL1 [SL2 SL4]]]]].
    { assert (E : dkids pl = []) by exact SLa. rewrite E. split; [lra|]. apply Stop. left. exact SLa. }
    destruct SR as [[SRa _]|[SRa [SRin [SR1 [SR2 SR4]]]]].
    { assert (E : dkids pr = []) by exact SRa. rewrite E. rewrite (list_case (dkids pl)) by exact SLa.
      split; [lra|]. apply Stop. right. exact SRa. }
    rewrite (list_case (dkids pl)) by exact SLa. rewrite (list_case (dkids pr)) by exact SRa.
    assert (HneL : dkids pl <> []) by exact SLa.
    assert (HneR : dkids pr <> []) by exact SRa.
    (* heights and reaches *)
    rewrite SL2, SR2 in Hcov.
    pose proof (hR_le (sk_d pl)) as A1. pose proof (hL_le (sk_d pr)) as A2.
    assert (A3 : (sheight (sk_d pl) <= maxh sheight (map sk_d Lk))%nat) by (apply maxh_ge, in_map, SLin).
    assert (A4 : (sheight (sk_d pr) <= maxh sheight (map sk_d Rk))%nat) by (apply maxh_ge, in_map, SRin).
    rewrite (hR_kids pl) in Hcov, A1. rewrite (hL_kids pr) in Hcov, A2.
    rewrite (sheight_kids pl) in A1, A3. rewrite (sheight_kids pr) in A2, A4.
    assert (Hf : (maxh sheight (map sk_d (dkids pl)) <= f)%nat) by lia.
    assert (Hcov' : Nat.min (chain hR (map sk_d (rev (dkids pl)))) (chain hL (map sk_d (dkids pr)))
                    = Nat.min (maxh sheight (map sk_d (dkids pl))) (maxh sheight (map sk_d (dkids pr)))) by lia.
    destruct (IH (dkids pl) (dkids pr) (Qred (lcs + dmod pl + dsh pl)) (Qred (rcs + dmod pr + dsh pr)) cum'
                 HneL HneR Hf SL1 SR1 Hcov') as [IH1 IH2].
    split; [lra|]. intros [|j] a b Ha Hb.
    + apply (Lev0 _ IH1 a b Ha Hb).
    + pose proof (lvs_height _ _ _ _ Ha) as HjL. pose proof (lvs_height _ _ _ _ Hb) as HjR.
      assert (HltL : (S j < sheight (sk_d pl))%nat) by (rewrite (sheight_kids pl); lia).
      assert (HltR : (S j < sheight (sk_d pr))%nat) by (rewrite (sheight_kids pr); lia).
      destruct (SL4 j a Ha HltL) as [a' [Ha' Hle]]. destruct (SR4 j b Hb HltR) as [b' [Hb' Hge]].
      assert (EoL : Qred (lcs + dmod pl + dsh pl) == lcs + dmod pl + dsh pl + 0) by (rewrite Qred_correct; lra).
      assert (EoR : Qred (rcs + dmod pr + dsh pr) == rcs + dmod pr + dsh pr + 0) by (rewrite Qred_correct; lra).
      destruct (Forall2_In_l _ _ _ _ (lvs_shift 0 j (dkids pl) _ _ EoL) Ha') as [a2 [Ha2 Ea2]].
      destruct (Forall2_In_l _ _ _ _ (lvs_shift 0 j (dkids pr) _ _ EoR) Hb') as [b2 [Hb2 Eb2]].
      specialize (IH2 j a2 b2 Ha2 Hb2). lra.
Qed.

(* the condition on a pair of siblings, on decorated trees *)
Definition pairP2 (j : nat) (d e : dtree) : Prop :=
  dleaf d \/ dleaf e \/ dflat d \/ dflat e
  \/ (j = 0%nat /\ Nat.min (hR (sk_d d)) (hL (sk_d e)) = Nat.min (sheight (sk_d d)) (sheight (sk_d e))).

Lemma cross1_reshift_any m sts d nd j idx s sd sn :
  0 <= m -> m <= sts -> (j < idx)%nat ->
  sepF m (dkids d) -> sepF m (dkids nd) ->
  subtree_shift sts d nd j idx <= s ->
  sd == dsh d + s * (Z.of_nat j # Pos.of_nat idx) ->
  sn == dsh nd + s * (Z.of_nat idx # Pos.of_nat idx) ->
  cross1 m (reshift d sd) (reshift nd sn).
Proof.
  intros Hm Hsts Hj HSd HSn. apply cross1_any; try assumption; apply sepF_sep0; assumption.
Qed.

Lemma crossA_new2 m sts d nd j idx s sd sn :
  0 <= m -> m <= sts -> (j < idx)%nat -> pairP2 j d nd ->
  sepF m (dkids d) -> sepF m (dkids nd) ->
  subtree_shift sts d nd j idx <= s ->
  sd == dsh d + s * (Z.of_nat j # Pos.of_nat idx) ->
  sn == dsh nd + s * (Z.of_nat idx # Pos.of_nat idx) ->
  crossA m (reshift d sd) (reshift nd sn).
Proof.
  intros Hm Hsts Hj HP HSd HSn Hs Esd Esn.
  destruct HP as [HP|[HP|[HP|[HP|[Hj0 Hcov]]]]].
  - intros j' off a b Ha _. rewrite lv_S in Ha. cbn [reshift dkids] in Ha. unfold dleaf in HP.
    rewrite HP in Ha. destruct Ha.
  - intros j' off a b _ Hb. rewrite lv_S in Hb. cbn [reshift dkids] in Hb. unfold dleaf in HP.
    rewrite HP in Hb. destruct Hb.
  - intros [|j'] off a b Ha Hb.
    + eapply (cross1_reshift_any m sts d nd j idx s sd sn); eassumption.
    + exfalso. rewrite lv_S in Ha. cbn [reshift dkids] in Ha.
      rewrite (lvs_leaves j' _ (dkids d) HP) in Ha. destruct Ha.
  - intros [|j'] off a b Ha Hb.
    + eapply (cross1_reshift_any m sts d nd j idx s sd sn); eassumption.
    + exfalso. rewrite lv_S in Hb. cbn [reshift dkids] in Hb.
      rewrite (lvs_leaves j' _ (dkids nd) HP) in Hb. destruct Hb.
  - subst j. intros j' off a b Ha Hb. rewrite lv_S in Ha, Hb. cbn [reshift dmod dsh dkids] in Ha, Hb.
    unfold subtree_shift in Hs.
    destruct (dkids d) as [|kd0 kdr] eqn:EKd; [destruct Ha|].
    destruct (dkids nd) as [|kn0 knr] eqn:EKn; [destruct Hb|].
    cbv beta iota in Hs. rewrite <- EKd, <- EKn in *.
    assert (N0 : dkids d <> []) by (rewrite EKd; discriminate).
    assert (N1 : dkids nd <> []) by (rewrite EKn; discriminate).
    rewrite (hR_kids d), (hL_kids nd), (sheight_kids d), (sheight_kids nd) in Hcov.
    assert (Hcov' : Nat.min (chain hR (map sk_d (rev (dkids d)))) (chain hL (map sk_d (dkids nd)))
                    = Nat.min (maxh sheight (map sk_d (dkids d))) (maxh sheight (map sk_d (dkids nd)))) by lia.
    assert (Hfuel : (maxh sheight (map sk_d (dkids d)) <= dheight d)%nat).
    { rewrite dheight_sk, (sheight_kids d). lia. }
    destruct (contour_spec2 m sts (ratio 0 idx) (ratio0 idx) Hm (dheight d) (dkids d) (dkids nd)
                (Qred (dmod d + dsh d)) (Qred (dmod nd + dsh nd)) 0 N0 N1 Hfuel HSd HSn Hcov') as [_ CS].
    assert (F0 : (Z.of_nat 0 # Pos.of_nat idx) == 0) by reflexivity.
    assert (F1 : (Z.of_nat idx # Pos.of_nat idx) == 1) by (apply frac_one; lia).
    rewrite F0 in Esd. rewrite F1 in Esn.
    assert (EA : off + dmod d + sd == Qred (dmod d + dsh d) + off) by (rewrite Qred_correct, Esd; lra).
    assert (EB : off + dmod nd + sn == Qred (dmod nd + dsh nd) + (off + s)) by (rewrite Qred_correct, Esn; lra).
    destruct (Forall2_In_r _ _ _ _ (lvs_shift off j' (dkids d) _ _ EA) Ha) as [a1 [Ha1 Ea]].
    destruct (Forall2_In_r _ _ _ _ (lvs_shift (off + s) j' (dkids nd) _ _ EB) Hb) as [b1 [Hb1 Eb]].
    specialize (CS j' a1 b1 Ha1 Hb1). lra.
Qed.

Lemma pairP2_kids j d e d' e' : dkids d = dkids d' -> dkids e = dkids e' -> pairP2 j d e -> pairP2 j d' e'.
Proof.
  intros E1 E2. unfold pairP2, dleaf, dflat. rewrite (sk_d_unfold d), (sk_d_unfold e), (sk_d_unfold d'), (sk_d_unfold e').
  rewrite E1, E2. tauto.
Qed.

Definition PairsAll2 (KL : list (list dtree)) : Prop :=
  forall i k ki kk, (i < k)%nat -> nth_error KL i = Some ki -> nth_error KL k = Some kk ->
                    pairP2 i (D 0 0 0 ki) (D 0 0 0 kk).

Lemma place_safe2 ss sts m : 0 <= m -> m <= sts -> forall todo done pend,
  PairsAll2 (map dkids done ++ todo) ->
  Forall (sepF m) todo -> Forall (kidsep m) done -> ordP (crossA m) done ->
  let r := place ss sts done todo pend in
  Forall (kidsep m) r /\ ordP (crossA m) r.
Proof.
  intros Hm Hsts. induction todo as [|dk rest IH]; intros done pend HPA Htodo Hdone Hcross.
  - cbn [place]. split; assumption.
  - inversion Htodo as [|? ? Hdk Hrest]; subst. cbn [place].
    set (x := match done with
              | [] => match dk with [] => 0 | _ :: _ => midpoint dk end
              | d0 :: _ => Qred (dx (last done d0) + ss)
              end).
    set (md := match done, dk with
               | _ :: _, _ :: _ => Qred (x - midpoint dk)
               | _, _ => 0
               end).
    set (nd := D x md (hd 0 pend) dk).
    assert (Hnd : kidsep m nd) by exact Hdk.
    destruct done as [|d0 done'].
    + apply IH; [exact HPA|exact Hrest|constructor; [exact Hnd|constructor]|]. cbn. split; [constructor|exact I].
    + set (done := d0 :: done') in *. set (idx := length done).
      set (s := max_shift sts nd idx 0 done 0).
      assert (Hs : 0 <= s) by apply max_shift_ge.
      apply IH.
      * rewrite bump_dkids, map_app. cbn [map dkids nd]. rewrite <- app_assoc. exact HPA.
      * exact Hrest.
      * apply bump_Forall; [intros x0 m0 sh sh' ks H; exact H|].
        apply Forall_app. split; [exact Hdone|constructor; [exact Hnd|constructor]].
      * rewrite bump_app. apply ordP_app. split; [apply ordP_bumpA; assumption|].
        cbn [Nat.add]. fold idx. rewrite bump_cons. cbn [bump]. split; [cbn; split; [constructor|exact I]|].
        intros d' e Hd' [<-|[]].
        destruct (bump_In _ _ _ _ _ Hd') as [i [d [Hi ->]]]. cbn [Nat.add].
        assert (Hlt : (i < idx)%nat) by (apply nth_error_Some; rewrite Hi; discriminate).
        assert (Hd : kidsep m d).
        { rewrite Forall_forall in Hdone. apply Hdone. eapply nth_error_In. exact Hi. }
        assert (HP : pairP2 i d nd).
        { eapply (pairP2_kids i (D 0 0 0 (dkids d)) (D 0 0 0 dk)); [reflexivity|reflexivity|].
          apply (HPA i idx); [exact Hlt| |].
          - rewrite nth_error_app1 by (rewrite map_length; exact Hlt). apply map_nth_error. exact Hi.
          - rewrite nth_error_app2 by (rewrite map_length; unfold idx; lia).
            rewrite map_length. fold idx. rewrite Nat.sub_diag. reflexivity. }
        eapply (crossA_new2 m sts d nd i idx s); try eassumption.
        -- apply (max_shift_each sts nd idx done 0 0 i d Hi).
        -- apply Qred_correct.
        -- apply Qred_correct.
Qed.

Lemma node_pairs2_spec : forall l j0, node_pairs2 j0 l = true ->
  forall i k a b, (i < k)%nat -> nth_error l i = Some a -> nth_error l k = Some b ->
  sleaf a = true \/ sleaf b = true \/ pair_ok2 (j0 + i) a b = true.
Proof.
  induction l as [|x l IH]; intros j0 H i k a b Hik Ha Hb; [destruct i; discriminate|].
  cbn [node_pairs2] in H. apply andb_true_iff in H. destruct H as [H1 H2].
  destruct i as [|i].
  - cbn in Ha. injection Ha as ->. destruct k as [|k]; [lia|]. cbn in Hb.
    apply orb_true_iff in H1. destruct H1 as [H1|H1]; [left; exact H1|]. right.
    rewrite forallb_forall in H1. specialize (H1 b (nth_error_In _ _ Hb)).
    apply orb_true_iff in H1. rewrite Nat.add_0_r. exact H1.
  - destruct k as [|k]; [lia|]. cbn in Ha, Hb.
    replace (j0 + S i)%nat with (S j0 + i)%nat by lia. apply (IH (S j0) H2 i k a b); [lia|exact Ha|exact Hb].
Qed.

Lemma pairs_of_guard2 ss sts ks : node_pairs2 0 (map sk_of ks) = true -> PairsAll2 (map (fp ss sts) ks).
Proof.
  intros HG i k ki kk Hik Hi Hk.
  apply nth_error_map_some in Hi. apply nth_error_map_some in Hk.
  destruct Hi as [ti [Hti <-]]. destruct Hk as [tk [Htk <-]].
  destruct (node_pairs2_spec _ 0 HG i k (sk_of ti) (sk_of tk) Hik
              (map_nth_error sk_of _ _ Hti) (map_nth_error sk_of _ _ Htk)) as [H|[H|H]].
  - left. unfold dleaf. cbn [dkids]. rewrite (sk_of_fp ss sts ti) in H. cbn [sleaf] in H.
    destruct (fp ss sts ti); [reflexivity|discriminate].
  - right. left. unfold dleaf. cbn [dkids]. rewrite (sk_of_fp ss sts tk) in H. cbn [sleaf] in H.
    destruct (fp ss sts tk); [reflexivity|discriminate].
  - right. right. cbn [Nat.add] in H. unfold pair_ok2 in H. apply orb_true_iff in H. destruct H as [H|H].
    + apply orb_true_iff in H. destruct H as [H|H].
      * left. unfold dflat. cbn [dkids]. apply leaves_of_sk. exact H.
      * right. left. unfold dflat. cbn [dkids]. apply leaves_of_sk. exact H.
    + right. right. apply andb_true_iff in H. destruct H as [H1 H2].
      apply Nat.eqb_eq in H1, H2. cbn [sk_d]. rewrite <- (sk_of_fp ss sts ti), <- (sk_of_fp ss sts tk).
      auto.
Qed.

Lemma guard4_unfold l : cguard4_sk (Sk l) = forallb cguard4_sk l && node_pairs2 0 l.
Proof. reflexivity. Qed.

Lemma fp_sep4 ss sts m : 0 <= m -> m <= ss -> m <= sts ->
  forall t, cguard4_sk (sk_of t) = true -> sepF m (fp ss sts t).
Proof.
  intros Hm Hss Hsts. induction t as [g n a ks IH] using tree_ind'. intros HG.
  cbn [sk_of] in HG. rewrite guard4_unfold in HG. apply andb_true_iff in HG. destruct HG as [HGk HG].
  rewrite forallb_forall in HGk.
  assert (Skids : Forall (fun k => sepF m (fp ss sts k)) ks).
  { rewrite Forall_forall in IH. apply Forall_forall. intros k Hk. apply (IH k Hk).
    apply HGk. apply in_map. exact Hk. }
  destruct (fp_inv ss sts (T g n a ks)) as [_ [Hcx Hmo]].
  assert (Htodo : Forall (sepF m) (map (fp ss sts) ks)) by (apply Forall_map; exact Skids).
  destruct (place_safe2 ss sts m Hm Hsts (map (fp ss sts) ks) [] (map (fun _ => 0) ks)
                        (pairs_of_guard2 ss sts ks HG) Htodo (Forall_nil _) I) as [HF HC].
  change (place ss sts [] (map (fp ss sts) ks) (map (fun _ => 0) ks)) with (fp ss sts (T g n a ks)) in HF, HC.
  set (F := fp ss sts (T g n a ks)) in *.
  intros [|j] off.
  - rewrite lvs0. apply ordP_map. eapply ordP_impl; [|apply (chain_pairs ss ltac:(lra) F Hcx Hmo)].
    intros x y Hxy. unfold gap. cbn beta in Hxy. lra.
  - unfold lvs. apply ordP_flat_map.
    + intros d Hd. rewrite lv_S. rewrite Forall_forall in HF. apply (HF d Hd).
    + eapply ordP_impl; [|exact HC]. intros d e H a0 b0 Ha Hb. apply (H j off a0 b0 Ha Hb).
Qed.

Lemma rt_cousins_safe2 eps p t : 0 <= eps -> params_pos p -> cousin_safe2 t = true ->
  cousins_ok eps (p_ss p) (p_sts p) (reingold_tilford p t) = true.
Proof.
  intros He Hp HG. destruct (min_facts p Hp) as [Hm [Hm1 Hm2]].
  unfold cousins_ok. apply forallb_forall. intros k _.
  eapply ordpairs_true; [|apply (rt_cousinsP_sep p t)].
  - intros a b Hab. cbn beta in Hab. apply leq_eps_true; assumption.
  - apply fp_sep4; assumption.
Qed.

Lemma rt_prop_safe2 eps p t : 0 <= eps -> params_pos p -> cousin_safe2 t = true ->
  prop_C19 eps p t (reingold_tilford p t) = true.
Proof.
  intros He Hp HG. unfold prop_C19. rewrite rt_but_cousins, rt_cousins_safe2 by assumption. reflexivity.
Qed.

Lemma rt_cousins_failure_safe2 p t : params_pos p ->
  cousins_ok 0 (p_ss p) (p_sts p) (reingold_tilford p t) = false -> cousin_safe2 t = false.
Proof.
  intros Hp HF. destruct (cousin_safe2 t) eqn:E; [|reflexivity].
  rewrite (rt_cousins_safe2 0 p t) in HF; [discriminate|lra|exact Hp|exact E].
Qed.

(* the new class contains the old one *)
Lemma pair_ok_ok2 j a b : pair_ok j a b = true -> pair_ok2 j a b = true.
Proof.
  unfold pair_ok, pair_ok2. intros H. apply orb_true_iff in H. destruct H as [H|H].
  - apply andb_true_iff in H. destruct H as [H _]. rewrite H. reflexivity.
  - apply andb_true_iff in H. destruct H as [H H3]. apply andb_true_iff in H. destruct H as [H1 H2].
    apply Nat.eqb_eq in H2, H3. rewrite H1, H2, H3, Nat.eqb_refl. cbn. apply orb_true_r.
Qed.

Lemma node_pairs_pairs2 : forall l j, node_pairs j l = true -> node_pairs2 j l = true.
Proof.
  induction l as [|a r IH]; intros j H; [reflexivity|]. cbn [node_pairs node_pairs2] in *.
  apply andb_true_iff in H. destruct H as [H1 H2]. apply andb_true_iff. split; [|apply IH, H2].
  apply orb_true_iff in H1. apply orb_true_iff. destruct H1 as [H1|H1]; [left; exact H1|right].
  rewrite forallb_forall in *. intros b Hb. specialize (H1 b Hb).
  apply orb_true_iff in H1. apply orb_true_iff. destruct H1 as [H1|H1]; [left; exact H1|right].
  apply pair_ok_ok2, H1.
Qed.

Lemma guard3_guard4 : forall s, cguard3_sk s = true -> cguard4_sk s = true.
Proof.
  induction s as [l IH] using sk_ind'. rewrite guard3_unfold, guard4_unfold. intros H.
  apply andb_true_iff in H. destruct H as [H1 H2]. apply andb_true_iff. split.
  - rewrite forallb_forall in *. rewrite Forall_forall in IH. intros x Hx. apply IH; [exact Hx|apply H1, Hx].
  - apply node_pairs_pairs2, H2.
Qed.

Lemma safe_safe2 t : cousin_safe t = true -> cousin_safe2 t = true.
Proof. apply guard3_guard4. Qed.

(* =============================================================================================
   Part 2b.  The same two results for every way the layout can be reached: a start node that is
   not the root (rt_gen with the whole tree's max_depth and the node's depth), and the last call
   after any history of layouts and edits *)

Lemma third_xeq a b : xeq a b -> xeq (third a) (third b).
Proof.
  intros H. unfold third. rewrite (xeq_adjust _ _ H).
  destruct (Qeq_bool (adjust b) 0); [exact H|apply xeq_cshift, H].
Qed.

Lemma rtg_xeq p maxd depth t : xeq (rt_gen p maxd depth t) (reingold_tilford p t).
Proof. unfold reingold_tilford, rt_gen. apply third_xeq, second_xeq. Qed.

Lemma rtg_cousins_safe2 eps p maxd depth t : 0 <= eps -> params_pos p -> cousin_safe2 t = true ->
  cousins_ok eps (p_ss p) (p_sts p) (rt_gen p maxd depth t) = true.
Proof.
  intros He Hp HG. rewrite (xeq_cousins _ _ _ _ _ (rtg_xeq p maxd depth t)).
  apply rt_cousins_safe2; assumption.
Qed.

Lemma rtg_first_cousins eps p maxd depth t : 0 <= eps -> params_pos p ->
  cousins2_ok eps (p_ss p) (p_sts p) (rt_gen p maxd depth t) = true.
Proof.
  intros He Hp. destruct (min_facts p Hp) as [Hm [Hm1 Hm2]].
  assert (HG : Forall (G2 (Qmin (p_ss p) (p_sts p))) (cpre (rt_gen p maxd depth t))).
  { unfold rt_gen. apply third_G2, second_G2, first_pass_lvl2; assumption. }
  unfold cousins2_ok. apply forallb_forall. intros n Hn.
  rewrite Forall_forall in HG. specialize (HG n Hn).
  eapply ordpairs_true; [|exact HG]. intros a b Hab. cbn beta in Hab. apply leq_eps_true; assumption.
Qed.

Lemma rt_at_safe2 eps p whole path sub c : 0 <= eps -> params_pos p ->
  subtree_at whole path = Some sub -> rt_at p whole path = Some c ->
  cousins2_ok eps (p_ss p) (p_sts p) c = true
  /\ (cousin_safe2 sub = true -> prop_C19 eps p sub c = true).
Proof.
  intros He Hp Hs Hc. pose proof (rt_at_but_cousins eps p whole path sub c He Hp Hs Hc) as HB.
  unfold prop_C19. rewrite HB. unfold rt_at in Hc. destruct path as [|i path'].
  - cbn in Hs. injection Hs as <-. injection Hc as <-. split.
    + apply rt_first_cousins; assumption.
    + intros HG. rewrite rt_cousins_safe2 by assumption. reflexivity.
  - destruct (Nat.eqb (last (i :: path') 1%nat) 0); [|discriminate].
    rewrite Hs in Hc. injection Hc as <-. split.
    + apply rtg_first_cousins; assumption.
    + intros HG. rewrite rtg_cousins_safe2 by assumption. reflexivity.
Qed.

Lemma history_safe2 eps st steps es p : 0 <= eps -> params_pos p ->
  let t := tree_of_d (apply_edits es (fst (run_steps st steps))) in
  cousins2_ok eps (p_ss p) (p_sts p) (snd (run_steps st (steps ++ [(es, p)]))) = true
  /\ (cousin_safe2 t = true -> prop_C19 eps p t (snd (run_steps st (steps ++ [(es, p)]))) = true).
Proof.
  intros He Hp t. rewrite relayout_is_fresh. fold t. split; [apply rt_first_cousins; assumption|].
  intros HG. apply rt_prop_safe2; assumption.
Qed.

(* =============================================================================================
   Part 3.  Which parameter moves what *)

Lemma second_xeq2 xo : forall d ls ls' yo yo' maxd maxd' depth depth' cum,
  xeq (second ls xo yo maxd depth cum d) (second ls' xo yo' maxd' depth' cum d).
Proof.
  induction d as [x m s ks IH] using dtree_ind'. intros. apply xeq_unfold. cbn [second cx ckids].
  split; [reflexivity|]. induction ks as [|k ks IHk]; [constructor|].
  inversion IH as [|? ? Hk Hks]; subst. cbn [map]. constructor; [apply Hk|apply IHk, Hks].
Qed.

(* the x coordinates are a function of the shape, the two horizontal separations and x_offset *)
Lemma rt_x_indep p p' t : p_ss p = p_ss p' -> p_sts p = p_sts p' -> p_xo p = p_xo p' ->
  xeq (reingold_tilford p t) (reingold_tilford p' t).
Proof.
  intros E1 E2 E3. unfold reingold_tilford, rt_gen. rewrite E1, E2, E3. apply third_xeq, second_xeq2.
Qed.

(* the y coordinates in closed form: depth k below the root sits at
   (height - 1 - k) * level_separation + y_offset, for arbitrary parameters *)
Lemma rt_y_closed p t k :
  Forall (fun n => cy n == inject_Z (Z.of_nat (height t) - Z.of_nat (S k)) * p_ls p + p_yo p)
         (clevel k (reingold_tilford p t)).
Proof.
  assert (H : Forall (fun n => cy n == ylev (p_ls p) (p_yo p) (height t) (1 + k)) (clevel k (rt2 p t)))
    by apply second_level_y.
  rewrite rt_third. unfold third. destruct (Qeq_bool (adjust (rt2 p t)) 0); [exact H|].
  rewrite clevel_cshift. apply Forall_map. eapply Forall_impl; [|exact H].
  intros n Hn. rewrite cy_cshift. exact Hn.
Qed.

(* =============================================================================================
   Part 4.  Scaling: multiplying sibling_separation, subtree_separation and x_offset by c > 0
   multiplies every x by c (all operations of the first pass are positively homogeneous) *)

Inductive dsc (c : Q) : dtree -> dtree -> Prop :=
| dsc_intro x m s ks x' m' s' ks' :
    x' == c * x -> m' == c * m -> s' == c * s -> Forall2 (dsc c) ks ks' ->
    dsc c (D x m s ks) (D x' m' s' ks').

Lemma dsc_inv c d d' : dsc c d d' ->
  dx d' == c * dx d /\ dmod d' == c * dmod d /\ dsh d' == c * dsh d /\ Forall2 (dsc c) (dkids d) (dkids d').
Proof. intros H. inversion H; subst. cbn. auto. Qed.

Lemma F2_last {A B} (R : A -> B -> Prop) : forall l l', Forall2 R l l' ->
  forall d d', R d d' -> R (last l d) (last l' d').
Proof.
  induction 1 as [|x y l l' Hxy HF IH]; intros d d' Hd; [exact Hd|].
  cbn [last]. destruct HF as [|x2 y2 l2 l2' H2 HF2]; [exact Hxy|]. apply IH. exact Hd.
Qed.

Lemma F2_rev {A B} (R : A -> B -> Prop) : forall l l', Forall2 R l l' -> Forall2 R (rev l) (rev l').
Proof.
  induction 1 as [|x y l l' Hxy HF IH]; [constructor|]. cbn [rev].
  apply Forall2_app; [exact IH|constructor; [exact Hxy|constructor]].
Qed.

Lemma F2_flat_map {A A' B B'} (R : A -> A' -> Prop) (S : B -> B' -> Prop) (f : A -> list B) (g : A' -> list B') :
  (forall x y, R x y -> Forall2 S (f x) (g y)) ->
  forall l l', Forall2 R l l' -> Forall2 S (flat_map f l) (flat_map g l').
Proof.
  intros H. induction 1 as [|x y l l' Hxy HF IH]; [constructor|]. cbn [flat_map].
  apply Forall2_app; [apply H, Hxy|exact IH].
Qed.

Lemma Qmax_sc c a b a' b' : 0 <= c -> a' == c * a -> b' == c * b -> Qmax a' b' == c * Qmax a b.
Proof.
  intros Hc Ea Eb. destruct (Qlt_le_dec a b) as [Hab|Hab].
  - assert (H1 : a <= b) by lra. assert (H2 : a' <= b') by (rewrite Ea, Eb; nra).
    rewrite (Q.max_r _ _ H1), (Q.max_r _ _ H2). exact Eb.
  - assert (H2 : b' <= a') by (rewrite Ea, Eb; nra).
    rewrite (Q.max_l _ _ Hab), (Q.max_l _ _ H2). exact Ea.
Qed.

Lemma zero_sc c : 0 == c * 0.
Proof. ring. Qed.

Lemma midpoint_sc c ks ks' : Forall2 (dsc c) ks ks' -> midpoint ks' == c * midpoint ks.
Proof.
  intros H. unfold midpoint. rewrite !Qred_correct.
  destruct H as [|f f' l l' Hf HF]; [cbn; ring|].
  assert (HL : dsc c (last (f :: l) f) (last (f' :: l') f')).
  { apply F2_last; [constructor; assumption|exact Hf]. }
  unfold midpoint_raw.
  destruct (dsc_inv _ _ _ HL) as [L1 [_ [L3 _]]]. destruct (dsc_inv _ _ _ Hf) as [F1 [_ [F3 _]]].
  rewrite L1, L3, F1, F3. ring.
Qed.

Lemma F2_nil_iff {A B} (R : A -> B -> Prop) l l' : Forall2 R l l' -> (l = [] <-> l' = []).
Proof. intros H. destruct H; split; congruence. Qed.

Lemma pick_sc c : forall l l', Forall2 (dsc c) l l' -> forall d d', dsc c d d' -> dsc c (pick l d) (pick l' d').
Proof.
  induction 1 as [|x y l l' Hxy HF IH]; intros d d' Hd; [exact Hd|]. cbn [pick].
  destruct (dsc_inv _ _ _ Hxy) as [_ [_ [_ HK]]].
  destruct HK as [|k k' r r' Hk Hr]; [|exact Hxy].
  destruct HF as [|x2 y2 l2 l2' H2 HF2]; [exact Hxy|].
  apply IH. exact Hxy.
Qed.

Lemma contour_sc c rt : 0 <= c -> forall fuel sts sts' ls ls' rs rs' lcs lcs' rcs rcs' cum cum',
  sts' == c * sts -> Forall2 (dsc c) ls ls' -> Forall2 (dsc c) rs rs' ->
  lcs' == c * lcs -> rcs' == c * rcs -> cum' == c * cum ->
  contour fuel rt sts' ls' rs' lcs' rcs' cum' == c * contour fuel rt sts ls rs lcs rcs cum.
Proof.
  intros Hc. induction fuel as [|f IH]; intros sts sts' ls ls' rs rs' lcs lcs' rcs rcs' cum cum' Es HL HR El Er Ec.
  - destruct HL as [|l0 l0' XL XL' Hl0 HXL]; [cbn [contour]; exact Ec|].
    destruct HR as [|r0 r0' XR XR' Hr0 HXR]; [cbn [contour]; exact Ec|].
    cbn [contour]. cbv zeta. rewrite !Qred_correct.
    destruct (dsc_inv _ _ _ Hl0) as [A1 [_ [A3 _]]]. destruct (dsc_inv _ _ _ Hr0) as [B1 [_ [B3 _]]].
    assert (EN : dx l0' + dsh l0' + lcs' + sts' - (dx r0' + dsh r0' + rcs' + cum')
                 == c * (dx l0 + dsh l0 + lcs + sts - (dx r0 + dsh r0 + rcs + cum))).
    { rewrite A1, A3, B1, B3, El, Er, Ec, Es. ring. }
    rewrite (Qmax_sc c ((dx l0 + dsh l0 + lcs + sts - (dx r0 + dsh r0 + rcs + cum)) / rt) 0 _ 0 Hc);
      [rewrite Ec; ring| |apply zero_sc].
    unfold Qdiv. rewrite EN. ring.
  - destruct HL as [|l0 l0' XL XL' Hl0 HXL]; [cbn [contour]; exact Ec|].
    destruct HR as [|r0 r0' XR XR' Hr0 HXR]; [cbn [contour]; exact Ec|].
    cbn [contour]. cbv zeta.
    destruct (dsc_inv _ _ _ Hl0) as [A1 [_ [A3 _]]]. destruct (dsc_inv _ _ _ Hr0) as [B1 [_ [B3 _]]].
    set (N := dx l0 + dsh l0 + lcs + sts - (dx r0 + dsh r0 + rcs + cum)).
    set (N' := dx l0' + dsh l0' + lcs' + sts' - (dx r0' + dsh r0' + rcs' + cum')).
    assert (EN : N' == c * N).
    { unfold N, N'. rewrite A1, A3, B1, B3, El, Er, Ec, Es. ring. }
    assert (Enew : Qmax (N' / rt) 0 == c * Qmax (N / rt) 0).
    { apply Qmax_sc; [exact Hc| |apply zero_sc]. unfold Qdiv. rewrite EN. ring. }
    assert (Ecum : Qred (cum' + Qmax (N' / rt) 0) == c * Qred (cum + Qmax (N / rt) 0)).
    { rewrite !Qred_correct, Enew, Ec. ring. }
    assert (Hpl : dsc c (pick (l0 :: XL) l0) (pick (l0' :: XL') l0')).
    { apply pick_sc; [constructor; assumption|exact Hl0]. }
    assert (Hpr : dsc c (pick (r0 :: XR) r0) (pick (r0' :: XR') r0')).
    { apply pick_sc; [constructor; assumption|exact Hr0]. }
    set (pl := pick (l0 :: XL) l0) in *. set (pl' := pick (l0' :: XL') l0') in *.
    set (pr := pick (r0 :: XR) r0) in *. set (pr' := pick (r0' :: XR') r0') in *.
    destruct (dsc_inv _ _ _ Hpl) as [_ [P2 [P3 PK]]]. destruct (dsc_inv _ _ _ Hpr) as [_ [R2 [R3 RK]]].
    destruct PK as [|ka ka' kr kr' Hka Hkr]; [exact Ecum|].
    destruct RK as [|qa qa' qr qr' Hqa Hqr]; [exact Ecum|].
    apply IH; try assumption.
    + apply F2_rev. constructor; assumption.
    + constructor; assumption.
    + rewrite !Qred_correct, El, P2, P3. ring.
    + rewrite !Qred_correct, Er, R2, R3. ring.
Qed.

Lemma dheight_sc c : forall d d', dsc c d d' -> dheight d' = dheight d.
Proof.
  induction d as [x m s ks IH] using dtree_ind'. intros d' H. inversion H as [? ? ? ? x' m' s' ks' _ _ _ HK]; subst.
  cbn [dheight]. f_equal. clear H. revert IH. induction HK as [|k k' r r' Hk Hr IHr]; intros IH; [reflexivity|].
  inversion IH as [|? ? H1 H2]; subst. cbn [fold_right]. rewrite (H1 _ Hk), (IHr H2). reflexivity.
Qed.

Lemma subtree_shift_sc c sts sts' l l' r r' li ri : 0 <= c -> sts' == c * sts ->
  dsc c l l' -> dsc c r r' ->
  subtree_shift sts' l' r' li ri == c * subtree_shift sts l r li ri.
Proof.
  intros Hc Es Hl Hr. unfold subtree_shift. rewrite (dheight_sc c l l' Hl).
  destruct (dsc_inv _ _ _ Hl) as [_ [L2 [L3 LK]]]. destruct (dsc_inv _ _ _ Hr) as [_ [R2 [R3 RK]]].
  destruct LK as [|ka ka' kr kr' Hka Hkr]; [apply zero_sc|].
  destruct RK as [|qa qa' qr qr' Hqa Hqr]; [apply zero_sc|].
  apply contour_sc; try assumption.
  - apply F2_rev. constructor; assumption.
  - constructor; assumption.
  - rewrite !Qred_correct, L2, L3. ring.
  - rewrite !Qred_correct, R2, R3. ring.
  - apply zero_sc.
Qed.

Lemma max_shift_sc c sts sts' nd nd' idx : 0 <= c -> sts' == c * sts -> dsc c nd nd' ->
  forall lefts lefts', Forall2 (dsc c) lefts lefts' -> forall j acc acc', acc' == c * acc ->
  max_shift sts' nd' idx j lefts' acc' == c * max_shift sts nd idx j lefts acc.
Proof.
  intros Hc Es Hnd. induction 1 as [|l l' r r' Hl Hr IH]; intros j acc acc' Ea; [exact Ea|].
  cbn [max_shift]. apply IH. apply Qmax_sc; [exact Hc|exact Ea|]. apply subtree_shift_sc; assumption.
Qed.

Lemma bump_sc c s s' idx : s' == c * s -> forall l l', Forall2 (dsc c) l l' ->
  forall k, Forall2 (dsc c) (bump s idx k l) (bump s' idx k l').
Proof.
  intros Es. induction 1 as [|d d' r r' Hd Hr IH]; intros k; [constructor|].
  inversion Hd as [x m sh ks x' m' sh' ks' E1 E2 E3 EK]; subst. cbn [bump].
  constructor; [|apply IH]. constructor; try assumption. rewrite !Qred_correct, E3, Es. ring.
Qed.

Definition qs (c a b : Q) : Prop := b == c * a.

Lemma bumpq_sc c s s' idx : s' == c * s -> forall l l', Forall2 (qs c) l l' ->
  forall k, Forall2 (qs c) (bumpq s idx k l) (bumpq s' idx k l').
Proof.
  intros Es. induction 1 as [|a a' r r' Ha Hr IH]; intros k; [constructor|]. cbn [bumpq].
  constructor; [|apply IH]. unfold qs in *. rewrite !Qred_correct, Ha, Es. ring.
Qed.

Lemma F2_length {A B} (R : A -> B -> Prop) l l' : Forall2 R l l' -> length l = length l'.
Proof. induction 1 as [|x y l l' _ _ IH]; [reflexivity|]. cbn [length]. rewrite IH. reflexivity. Qed.

Lemma F2_tl {A B} (R : A -> B -> Prop) l l' : Forall2 R l l' -> Forall2 R (tl l) (tl l').
Proof. intros H. destruct H; [constructor|assumption]. Qed.

Lemma place_sc c ss ss' sts sts' : 0 <= c -> ss' == c * ss -> sts' == c * sts ->
  forall todo todo', Forall2 (Forall2 (dsc c)) todo todo' ->
  forall done done' pend pend', Forall2 (dsc c) done done' -> Forall2 (qs c) pend pend' ->
  Forall2 (dsc c) (place ss sts done todo pend) (place ss' sts' done' todo' pend').
Proof.
  intros Hc Ess Ests. induction 1 as [|dk dk' rest rest' Hdk Hrest IH]; intros done done' pend pend' Hdone Hpend.
  - cbn [place]. exact Hdone.
  - cbn [place].
    pose proof (midpoint_sc c dk dk' Hdk) as Emid.
    set (x := match done with
              | [] => match dk with [] => 0 | _ :: _ => midpoint dk end
              | d0 :: _ => Qred (dx (last done d0) + ss)
              end).
    set (x' := match done' with
               | [] => match dk' with [] => 0 | _ :: _ => midpoint dk' end
               | d0 :: _ => Qred (dx (last done' d0) + ss')
               end).
    assert (Ex : x' == c * x).
    { unfold x, x'. destruct Hdone as [|d0 d0' dr dr' Hd0 Hdr].
      - destruct Hdk; [apply zero_sc|exact Emid].
      - rewrite !Qred_correct.
        assert (HL : dsc c (last (d0 :: dr) d0) (last (d0' :: dr') d0')).
        { apply F2_last; [constructor; assumption|exact Hd0]. }
        destruct (dsc_inv _ _ _ HL) as [L1 _]. rewrite L1, Ess. ring. }
    set (md := match done, dk with
               | _ :: _, _ :: _ => Qred (x - midpoint dk)
               | _, _ => 0
               end).
    set (md' := match done', dk' with
                | _ :: _, _ :: _ => Qred (x' - midpoint dk')
                | _, _ => 0
                end).
    assert (Emd : md' == c * md).
    { unfold md, md'. destruct Hdone as [|d0 d0' dr dr' Hd0 Hdr]; [apply zero_sc|].
      destruct Hdk; [apply zero_sc|]. rewrite !Qred_correct, Ex, Emid. ring. }
    assert (Ehd : hd 0 pend' == c * hd 0 pend).
    { destruct Hpend as [|a a' r r' Ha Hr]; [apply zero_sc|exact Ha]. }
    assert (Hnd : dsc c (D x md (hd 0 pend) dk) (D x' md' (hd 0 pend') dk')).
    { constructor; assumption. }
    set (nd := D x md (hd 0 pend) dk) in *. set (nd' := D x' md' (hd 0 pend') dk') in *.
    pose proof (F2_length _ _ _ Hdone) as Elen.
    destruct Hdone as [|d0 d0' dr dr' Hd0 Hdr].
    + apply IH; [constructor; [exact Hnd|constructor]|apply F2_tl, Hpend].
    + assert (HD : Forall2 (dsc c) (d0 :: dr) (d0' :: dr')) by (constructor; assumption).
      rewrite <- Elen.
      set (idx := length (d0 :: dr)) in *.
      assert (Esh : max_shift sts' nd' idx 0 (d0' :: dr') 0 == c * max_shift sts nd idx 0 (d0 :: dr) 0).
      { apply max_shift_sc; try assumption. apply zero_sc. }
      apply IH.
      * apply bump_sc; [exact Esh|]. apply Forall2_app; [exact HD|constructor; [exact Hnd|constructor]].
      * apply bumpq_sc; [exact Esh|]. apply F2_tl, Hpend.
Qed.

Lemma fp_sc c ss ss' sts sts' : 0 <= c -> ss' == c * ss -> sts' == c * sts ->
  forall t, Forall2 (dsc c) (fp ss sts t) (fp ss' sts' t).
Proof.
  intros Hc Ess Ests. induction t as [g n a ks IH] using tree_ind'. cbn [fp].
  apply place_sc; try assumption.
  - induction IH as [|k r Hk Hr IHr]; [constructor|]. cbn [map]. constructor; assumption.
  - constructor.
  - clear IH. induction ks as [|k r IHr]; [constructor|]. cbn [map]. constructor; [apply zero_sc|exact IHr].
Qed.

Lemma first_pass_sc c ss ss' sts sts' t : 0 <= c -> ss' == c * ss -> sts' == c * sts ->
  dsc c (first_pass ss sts t) (first_pass ss' sts' t).
Proof.
  intros Hc Ess Ests. unfold first_pass. pose proof (fp_sc c ss ss' sts sts' Hc Ess Ests t) as HF.
  constructor; [apply midpoint_sc, HF|apply zero_sc|apply zero_sc|exact HF].
Qed.

(* coordinate trees: x multiplied by c, same shape (y unconstrained) *)
Inductive csc (c : Q) : ctree -> ctree -> Prop :=
| csc_intro x y ks x' y' ks' : x' == c * x -> Forall2 (csc c) ks ks' -> csc c (C x y ks) (C x' y' ks').

Lemma csc_inv c a b : csc c a b -> cx b == c * cx a /\ Forall2 (csc c) (ckids a) (ckids b).
Proof. intros H. inversion H; subst. cbn. auto. Qed.

Lemma second_sc c : forall d d', dsc c d d' ->
  forall ls ls' xo xo' yo yo' maxd maxd' depth depth' cum cum', cum' == c * cum -> xo' == c * xo ->
  csc c (second ls xo yo maxd depth cum d) (second ls' xo' yo' maxd' depth' cum' d').
Proof.
  induction d as [x m s ks IH] using dtree_ind'. intros d' H.
  inversion H as [? ? ? ? x' m' s' ks' E1 E2 E3 HK]; subst. intros. cbn [second].
  constructor; [rewrite !Qred_correct, E1, E3, H0, H1; ring|].
  assert (Ecum : Qred (cum' + m' + s') == c * Qred (cum + m + s)) by (rewrite !Qred_correct, E2, E3, H0; ring).
  clear H. revert IH. induction HK as [|k k' r r' Hk Hr IHr]; intros IH; [constructor|].
  inversion IH as [|? ? I1 I2]; subst. cbn [map]. constructor; [apply I1; assumption|apply IHr, I2].
Qed.

Lemma fold_Qmax_sc c : 0 <= c -> forall l l', Forall2 (qs c) l l' -> forall a a', a' == c * a ->
  fold_left Qmax l' a' == c * fold_left Qmax l a.
Proof.
  intros Hc. induction 1 as [|b b' r r' Hb Hr IH]; intros a a' Ea; [exact Ea|]. cbn [fold_left].
  apply IH. apply Qmax_sc; assumption.
Qed.

Lemma adjust_sc c : 0 <= c -> forall a b, csc c a b -> adjust b == c * adjust a.
Proof.
  intros Hc. induction a as [x y ks IH] using ctree_ind'. intros b H.
  inversion H as [? ? ? x' y' ks' Ex HK]; subst.
  destruct HK as [|k k' r r' Hk Hr].
  - cbn [adjust]. apply Qmax_sc; [exact Hc|apply zero_sc|rewrite Ex; ring].
  - cbn [adjust]. inversion IH as [|? ? I1 I2]; subst. apply fold_Qmax_sc; [exact Hc| |apply I1, Hk].
    clear Hk I1 IH H. revert I2. induction Hr as [|q q' r2 r2' Hq Hr2 IHr]; intros I2; [constructor|].
    inversion I2 as [|? ? J1 J2]; subst. cbn [map]. constructor; [apply J1, Hq|apply IHr, J2].
Qed.

Lemma cshift_sc c q q' : q' == c * q -> forall a b, csc c a b -> csc c (cshift q a) (cshift q' b).
Proof.
  intros Eq. induction a as [x y ks IH] using ctree_ind'. intros b H.
  inversion H as [? ? ? x' y' ks' Ex HK]; subst. cbn [cshift].
  constructor; [rewrite !Qred_correct, Ex, Eq; ring|].
  clear H. revert IH. induction HK as [|k k' r r' Hk Hr IHr]; intros IH; [constructor|].
  inversion IH as [|? ? I1 I2]; subst. cbn [map]. constructor; [apply I1, Hk|apply IHr, I2].
Qed.

Lemma third_sc c a b : 0 < c -> csc c a b -> csc c (third a) (third b).
Proof.
  intros Hc H. pose proof (adjust_sc c (Qlt_le_weak _ _ Hc) a b H) as EA. unfold third.
  destruct (Qeq_bool (adjust a) 0) eqn:Ea; destruct (Qeq_bool (adjust b) 0) eqn:Eb.
  - exact H.
  - exfalso. apply Qeq_bool_iff in Ea. apply Qeq_bool_neq in Eb. apply Eb. rewrite EA, Ea. ring.
  - exfalso. apply Qeq_bool_iff in Eb. apply Qeq_bool_neq in Ea. apply Ea. rewrite EA in Eb. nra.
  - apply cshift_sc; assumption.
Qed.

Lemma csc_levels c : forall k a b, csc c a b ->
  Forall2 (fun u v => cx v == c * cx u) (clevel k a) (clevel k b).
Proof.
  induction k as [|k IH]; intros a b H.
  - cbn [clevel]. constructor; [apply (csc_inv _ _ _ H)|constructor].
  - cbn [clevel]. apply (F2_flat_map (csc c)); [intros x y Hxy; apply IH, Hxy|]. apply (csc_inv _ _ _ H).
Qed.

Lemma csc_height c : forall a b, csc c a b -> cheight b = cheight a.
Proof.
  induction a as [x y ks IH] using ctree_ind'. intros b H. inversion H as [? ? ? x' y' ks' _ HK]; subst.
  cbn [cheight]. f_equal. clear H. revert IH. induction HK as [|k k' r r' Hk Hr IHr]; intros IH; [reflexivity|].
  inversion IH as [|? ? H1 H2]; subst. cbn [fold_right]. rewrite (H1 _ Hk), (IHr H2). reflexivity.
Qed.

(* the law *)
Lemma rt_scale c p p' t : 0 < c ->
  p_ss p' == c * p_ss p -> p_sts p' == c * p_sts p -> p_xo p' == c * p_xo p ->
  csc c (reingold_tilford p t) (reingold_tilford p' t).
Proof.
  intros Hc E1 E2 E3. unfold reingold_tilford, rt_gen. apply third_sc; [exact Hc|].
  apply second_sc; [|apply zero_sc|exact E3].
  apply first_pass_sc; [apply Qlt_le_weak, Hc|exact E1|exact E2].
Qed.

Lemma Qmin_sc c a b a' b' : 0 <= c -> a' == c * a -> b' == c * b -> Qmin a' b' == c * Qmin a b.
Proof.
  intros Hc Ea Eb. destruct (Qlt_le_dec a b) as [Hab|Hab].
  - assert (H1 : a <= b) by lra. assert (H2 : a' <= b') by (rewrite Ea, Eb; nra).
    rewrite (Q.min_l _ _ H1), (Q.min_l _ _ H2). exact Ea.
  - assert (H2 : b' <= a') by (rewrite Ea, Eb; nra).
    rewrite (Q.min_r _ _ Hab), (Q.min_r _ _ H2). exact Eb.
Qed.

Lemma forallb_F2 {A B} (R : A -> B -> Prop) (f : A -> bool) (g : B -> bool) :
  (forall x y, R x y -> f x = g y) -> forall l l', Forall2 R l l' -> forallb f l = forallb g l'.
Proof.
  intros H. induction 1 as [|x y l l' Hxy _ IH]; [reflexivity|]. cbn [forallb]. rewrite (H _ _ Hxy), IH. reflexivity.
Qed.

Lemma ordpairs_F2 {A B} (R : A -> B -> Prop) (P : A -> A -> bool) (P' : B -> B -> bool) :
  (forall x y x2 y2, R x y -> R x2 y2 -> P x x2 = P' y y2) ->
  forall l l', Forall2 R l l' -> ordpairs P l = ordpairs P' l'.
Proof.
  intros H. induction 1 as [|x y l l' Hxy HF IH]; [reflexivity|]. cbn [ordpairs]. rewrite IH. f_equal.
  apply (forallb_F2 R); [|exact HF]. intros x2 y2 H2. apply H; assumption.
Qed.

Lemma Qle_bool_sc c a b a' b' : 0 < c -> a' == c * a -> b' == c * b -> Qle_bool a' b' = Qle_bool a b.
Proof.
  intros Hc Ea Eb. apply eq_iff_eq_true. rewrite !Qle_bool_iff, Ea, Eb. split; intros H; nra.
Qed.

(* whether clause 4 holds depends on the shape and on the RATIO of the separations only *)
Lemma cousins_sc c eps eps' ss ss' sts sts' a b : 0 < c ->
  eps' == c * eps -> ss' == c * ss -> sts' == c * sts -> csc c a b ->
  cousins_ok eps' ss' sts' b = cousins_ok eps ss sts a.
Proof.
  intros Hc Ee Ess Ests H. unfold cousins_ok. rewrite (csc_height c a b H).
  apply forallb_ext'. intros k. symmetry.
  apply (ordpairs_F2 (fun u v => cx v == c * cx u)); [|apply csc_levels, H].
  intros x y x2 y2 E1 E2. unfold leq_eps. symmetry. apply (Qle_bool_sc c); [exact Hc| |].
  - rewrite E1, (Qmin_sc c ss sts ss' sts' (Qlt_le_weak _ _ Hc) Ess Ests). ring.
  - rewrite E2, Ee. ring.
Qed.

Lemma rt_cousins_scale c eps p p' t : 0 < c ->
  p_ss p' == c * p_ss p -> p_sts p' == c * p_sts p -> p_xo p' == c * p_xo p ->
  cousins_ok (c * eps) (p_ss p') (p_sts p') (reingold_tilford p' t)
  = cousins_ok eps (p_ss p) (p_sts p) (reingold_tilford p t).
Proof.
  intros Hc E1 E2 E3. apply (cousins_sc c); try assumption; [reflexivity|]. apply rt_scale; assumption.
Qed.

(* K1 for infinitely many trees and infinitely many parameter sets: the witness under a chain of n
   unary nodes, laid out with sibling = subtree separation = c for any c > 0 (any level
   separation and y_offset) *)
Lemma k1_refuted_scaled n c ls yo : 0 < c ->
  cousins_ok 0 c c (reingold_tilford (PR c c ls 0 yo) (under_chain n k1_tree)) = false.
Proof.
  intros Hc.
  assert (E : cousins_ok 0 c c (reingold_tilford (PR c c ls 0 yo) (under_chain n k1_tree))
              = cousins_ok 0 1 1 (reingold_tilford unit_params (under_chain n k1_tree))).
  { apply (cousins_sc c); [exact Hc|ring|ring|ring|]. apply rt_scale; [exact Hc|cbn; ring|cbn; ring|cbn; ring]. }
  rewrite E. apply (k1_family_refuted n).
Qed.

(* =============================================================================================
   Part 5.  What x_offset does: the drawing is the offset-free second-pass drawing moved right by
   max (x_offset, K), where -K is the smallest offset-free x of a leaf *)

Inductive csh (q : Q) : ctree -> ctree -> Prop :=
| csh_intro x y ks x' y' ks' : x' == x + q -> Forall2 (csh q) ks ks' -> csh q (C x y ks) (C x' y' ks').

Lemma csh_inv q a b : csh q a b -> cx b == cx a + q /\ Forall2 (csh q) (ckids a) (ckids b).
Proof. intros H. inversion H; subst. cbn. auto. Qed.

Fixpoint negmin (c : ctree) : Q :=
  match c with
  | C x _ [] => - x
  | C _ _ (k :: r) => fold_left Qmax (map negmin r) (negmin k)
  end.

Ltac qmax := repeat match goal with
  | |- context [Qmax ?a ?b] => let E := fresh "E" in
      destruct (Q.max_spec a b) as [[? E]|[? E]]; rewrite E in *; clear E
  | H : context [Qmax ?a ?b] |- _ => let E := fresh "E" in
      destruct (Q.max_spec a b) as [[? E]|[? E]]; rewrite E in *; clear E
  end.

Lemma Qmax_clamp a b : Qmax (Qmax 0 a) (Qmax 0 b) == Qmax 0 (Qmax a b).
Proof. qmax; lra. Qed.

Lemma Qmax_shift a b q : Qmax (a - q) (b - q) == Qmax a b - q.
Proof. qmax; lra. Qed.

Lemma fold_clamp : forall l l', Forall2 (fun u v => u == Qmax 0 v) l l' -> forall a a', a == Qmax 0 a' ->
  fold_left Qmax l a == Qmax 0 (fold_left Qmax l' a').
Proof.
  induction 1 as [|u v l l' Huv _ IH]; intros a a' Ea; [exact Ea|]. cbn [fold_left]. apply IH.
  rewrite Ea, Huv. apply Qmax_clamp.
Qed.

Lemma fold_shift q : forall l l', Forall2 (fun u v => v == u - q) l l' -> forall a a', a' == a - q ->
  fold_left Qmax l' a' == fold_left Qmax l a - q.
Proof.
  induction 1 as [|u v l l' Huv _ IH]; intros a a' Ea; [exact Ea|]. cbn [fold_left]. apply IH.
  rewrite Ea, Huv. apply Qmax_shift.
Qed.

Lemma adjust_negmin : forall c, adjust c == Qmax 0 (negmin c).
Proof.
  induction c as [x y ks IH] using ctree_ind'. destruct ks as [|k r]; [reflexivity|].
  cbn [adjust negmin]. inversion IH as [|? ? H1 H2]; subst. apply fold_clamp; [|exact H1].
  clear H1 IH. induction H2 as [|u r Hu _ IHr]; [constructor|]. cbn [map]. constructor; assumption.
Qed.

Lemma negmin_csh q : forall a b, csh q a b -> negmin b == negmin a - q.
Proof.
  induction a as [x y ks IH] using ctree_ind'. intros b H. inversion H as [? ? ? x' y' ks' Ex HK]; subst.
  destruct HK as [|k k' r r' Hk Hr]; [cbn [negmin]; rewrite Ex; ring|].
  cbn [negmin]. inversion IH as [|? ? I1 I2]; subst. apply fold_shift; [|apply I1, Hk].
  clear Hk I1 IH H. revert I2. induction Hr as [|u u' r2 r2' Hu _ IHr]; intros I2; [constructor|].
  inversion I2 as [|? ? J1 J2]; subst. cbn [map]. constructor; [apply J1, Hu|apply IHr, J2].
Qed.

Lemma csh_refl0 : forall c, csh 0 c c.
Proof.
  induction c as [x y ks IH] using ctree_ind'. constructor; [ring|].
  induction IH as [|k r Hk _ IHr]; constructor; assumption.
Qed.

Lemma csh_cshift q : forall c, csh q c (cshift q c).
Proof.
  induction c as [x y ks IH] using ctree_ind'. cbn [cshift]. constructor; [apply Qred_correct|].
  induction IH as [|k r Hk _ IHr]; [constructor|]. cbn [map]. constructor; assumption.
Qed.

Lemma csh_weaken q q' : q == q' -> forall a b, csh q a b -> csh q' a b.
Proof.
  intros E. induction a as [x y ks IH] using ctree_ind'. intros b H. inversion H as [? ? ? x' y' ks' Ex HK]; subst.
  constructor; [rewrite Ex, E; reflexivity|]. clear H. revert IH.
  induction HK as [|k k' r r' Hk _ IHr]; intros IH; [constructor|].
  inversion IH as [|? ? I1 I2]; subst. constructor; [apply I1, Hk|apply IHr, I2].
Qed.

Lemma csh_trans q1 q2 : forall a b c, csh q1 a b -> csh q2 b c -> csh (q1 + q2) a c.
Proof.
  induction a as [x y ks IH] using ctree_ind'. intros b c H1 H2.
  inversion H1 as [? ? ? x' y' ks' Ex HK]; subst. inversion H2 as [? ? ? x'' y'' ks'' Ex' HK']; subst.
  constructor; [rewrite Ex', Ex; ring|]. clear H1 H2. revert ks'' HK' IH.
  induction HK as [|k k' r r' Hk _ IHr]; intros ks'' HK' IH; inversion HK'; subst; [constructor|].
  inversion IH as [|? ? I1 I2]; subst. constructor; [eapply I1; eassumption|apply IHr; assumption].
Qed.

(* the third pass moves everything by the adjustment *)
Lemma csh_third c : csh (adjust c) c (third c).
Proof.
  unfold third. destruct (Qeq_bool (adjust c) 0) eqn:E.
  - apply Qeq_bool_iff in E. apply (csh_weaken 0); [symmetry; exact E|apply csh_refl0].
  - apply csh_cshift.
Qed.

(* the second pass with an offset is the offset-free one moved by the offset *)
Lemma csh_second ls yo maxd : forall d xo depth cum,
  csh xo (second ls 0 yo maxd depth cum d) (second ls xo yo maxd depth cum d).
Proof.
  induction d as [x m s ks IH] using dtree_ind'. intros xo depth cum. cbn [second].
  constructor; [rewrite !Qred_correct; ring|].
  induction IH as [|k r Hk _ IHr]; [constructor|]. cbn [map]. constructor; [apply Hk|exact IHr].
Qed.

Definition raw0 (p : params) (t : tree) : ctree :=
  second (p_ls p) 0 (p_yo p) (height t) 1 0 (first_pass (p_ss p) (p_sts p) t).

Lemma rt_offset p t : csh (Qmax (p_xo p) (negmin (raw0 p t))) (raw0 p t) (reingold_tilford p t).
Proof.
  rewrite rt_third. unfold rt2.
  pose proof (csh_second (p_ls p) (p_yo p) (height t) (first_pass (p_ss p) (p_sts p) t) (p_xo p) 1%nat 0) as H1.
  fold (raw0 p t) in H1.
  set (r := second (p_ls p) (p_xo p) (p_yo p) (height t) 1 0 (first_pass (p_ss p) (p_sts p) t)) in *.
  pose proof (csh_third r) as H2.
  eapply csh_weaken; [|eapply csh_trans; [exact H1|exact H2]].
  rewrite (adjust_negmin r), (negmin_csh _ _ _ H1).
  set (K := negmin (raw0 p t)). qmax; lra.
Qed.

Lemma csh_levels q : forall k a b, csh q a b ->
  Forall2 (fun u v => cx v == cx u + q) (clevel k a) (clevel k b).
Proof.
  induction k as [|k IH]; intros a b H.
  - cbn [clevel]. constructor; [apply (csh_inv _ _ _ H)|constructor].
  - cbn [clevel]. apply (F2_flat_map (csh q)); [intros x y Hxy; apply IH, Hxy|]. apply (csh_inv _ _ _ H).
Qed.
