(* Executable model of bigtree/tree/search.py (all fourteen public functions) and of
   bigtree/utils/iterators.py:85-145 (preorder_iter) as used there.  No proofs in this file.

   A Python node object is modelled as a *located* node: the subtree it roots together with the
   list of its ancestors (nearest first).  Everything search.py reads from a node is a function
   of that pair:
     node.children            -> ln_children         node.parent / is_root -> ln_parent
     node.root                -> ln_root             node.depth            -> ln_depth (absolute!)
     node.node_name           -> ln_name             node.path_name        -> ln_path_name
     node.get_attr(k)         -> ln_get_attr         identity of the object-> ln_tag
   Empty child slots of a BinaryNode (`None` entries of node.children) are not represented: the kids
   of a tree are the non-empty slots in order (left before right).  Every loop over node.children in
   the modelled code skips the empty slots (`if tree` in preorder_iter, `if _node` in find_children,
   `if child` in the '*' branch of find_relative_paths), so ln_children IS what those loops visit.
   `sep` is the separator of the tree (Node.sep reads it from the root: node.py:84-92). *)
From BT Require Import Base.Prelude Base.Str Base.Rose.

Record lnode := LN { ln_up : list tree; ln_tree : tree }.

Definition ln_tag (n : lnode) : option nat := ttag (ln_tree n).
Definition ln_name (n : lnode) : str := tname (ln_tree n).
(* basenode.py:554-562  depth = 1 at the root, parent.depth + 1 otherwise *)
Definition ln_depth (n : lnode) : nat := S (length (ln_up n)).
(* names from the root down to the node itself *)
Definition ln_names (n : lnode) : list str := rev (map tname (ln_up n)) ++ [ln_name n].
(* node.py:112-121  sep + sep.join(names from the root) *)
Definition ln_path_name (sep : str) (n : lnode) : str := sep ++ join sep (ln_names n).
Definition ln_children (n : lnode) : list lnode :=
  map (LN (ln_tree n :: ln_up n)) (tkids (ln_tree n)).
Definition ln_parent (n : lnode) : option lnode :=
  match ln_up n with [] => None | p :: up => Some (LN up p) end.
Definition ln_root (n : lnode) : lnode := LN [] (last (ln_up n) (ln_tree n)).

(* the node reached from n by the child indices q *)
Fixpoint descend (n : lnode) (q : pos) : option lnode :=
  match q with
  | [] => Some n
  | i :: q' => match nth_error (ln_children n) i with
               | Some k => descend k q'
               | None => None
               end
  end.
Definition locate (w : tree) (p : pos) : option lnode := descend (LN [] w) p.

(* basenode.py:621-641 get_attr: the attribute or None.  (Only user attributes are modelled;
   the harness never asks for `name`, `depth`, ... or other properties of the class.) *)
Fixpoint lookup_attr (k : str) (a : attrs) : val :=
  match a with
  | [] => VNone
  | (k', v) :: r => if str_eqb k k' then v else lookup_attr k r
  end.
Definition ln_get_attr (k : str) (n : lnode) : val := lookup_attr k (tattrs (ln_tree n)).

(* Python `==` on the attribute values the harness uses (None, int, str, bool, float):
   True == 1 == 1.0; a float is the exact rational num/den with den > 0 *)
Definition bool_z (x : bool) : Z := if x then 1%Z else 0%Z.
Definition py_eqb (a b : val) : bool :=
  match a, b with
  | VBool x, VInt z => Z.eqb z (bool_z x)
  | VInt z, VBool x => Z.eqb z (bool_z x)
  | VFloat n d, VInt z => Z.eqb n (z * d)
  | VInt z, VFloat n d => Z.eqb n (z * d)
  | VFloat n d, VBool x => Z.eqb n (bool_z x * d)
  | VBool x, VFloat n d => Z.eqb n (bool_z x * d)
  | _, _ => val_eqb a b
  end.

(* -------------------------------------------------------------------------------------------
   iterators.py:137-145
     if tree and (not max_depth or not tree.get_attr("depth") > max_depth) and (no stop_condition):
         if not filter_condition or filter_condition(tree): yield tree
         for child in tree.children: yield from preorder_iter(child, ...)                      *)
Fixpoint preorder_iter (filt : lnode -> bool) (md : nat) (up : list tree) (t : tree) {struct t}
  : list lnode :=
  match t with
  | T _ _ _ ks =>
      if Nat.eqb md 0 || negb (Nat.ltb md (S (length up)))
      then (if filt (LN up t) then [LN up t] else [])
           ++ flat_map (preorder_iter filt md (t :: up)) ks
      else []
  end.

(* search.py:29-48
     if min_count and len(result) < min_count: raise SearchError
     if max_count and len(result) > max_count: raise SearchError                              *)
Definition check_result_count {A} (result : list A) (mn mx : nat) : res unit :=
  if negb (Nat.eqb mn 0) && Nat.ltb (length result) mn then Raise SearchError
  else if negb (Nat.eqb mx 0) && Nat.ltb mx (length result) then Raise SearchError
  else Ret tt.

(* search.py:82-86 *)
Definition findall (filt : lnode -> bool) (n : lnode) (md mn mx : nat) : res (list lnode) :=
  let result := preorder_iter filt md (ln_up n) (ln_tree n) in
  match check_result_count result mn mx with
  | Raise e => Raise e
  | Ret _ => Ret result
  end.

(* `if result: return result[0]` (falls through to None otherwise) *)
Definition first_or_none {A} (l : list A) : option A :=
  match l with [] => None | x :: _ => Some x end.

(* search.py:115-117 *)
Definition find (filt : lnode -> bool) (n : lnode) (md : nat) : res (option lnode) :=
  match findall filt n md 0 1 with
  | Raise e => Raise e
  | Ret result => Ret (first_or_none result)
  end.

(* search.py:141, 167 *)
Definition name_is (nm : str) (n : lnode) : bool := str_eqb (ln_name n) nm.
Definition find_name (n : lnode) (nm : str) (md : nat) := find (name_is nm) n md.
Definition find_names (n : lnode) (nm : str) (md : nat) := findall (name_is nm) n md 0 0.

(* search.py:355-356, 384-385   path_name = path_name.rstrip(tree.sep);  _node.path_name.endswith(path_name) *)
Definition path_ends (sep : str) (path : str) (n : lnode) : bool :=
  endswith (ln_path_name sep n) path.
Definition find_path (sep : str) (n : lnode) (path : str) :=
  find (path_ends sep (rstrip path sep)) n 0.
Definition find_paths (sep : str) (n : lnode) (path : str) :=
  findall (path_ends sep (rstrip path sep)) n 0 0 0.

(* search.py:412-416, 443-447   bool(_node.get_attr(attr_name) == attr_value) *)
Definition attr_is (k : str) (v : val) (n : lnode) : bool := py_eqb (ln_get_attr k n) v.
Definition find_attr (n : lnode) (k : str) (v : val) (md : nat) := find (attr_is k v) n md.
Definition find_attrs (n : lnode) (k : str) (v : val) (md : nat) := findall (attr_is k v) n md 0 0.

(* search.py:479-481   tuple([_node for _node in tree.children if _node and condition(_node)]) *)
Definition find_children (cond : lnode -> bool) (n : lnode) (mn mx : nat) : res (list lnode) :=
  let result := filter cond (ln_children n) in
  match check_result_count result mn mx with
  | Raise e => Raise e
  | Ret _ => Ret result
  end.

(* search.py:507-509 *)
Definition find_child (cond : lnode -> bool) (n : lnode) : res (option lnode) :=
  match find_children cond n 0 1 with
  | Raise e => Raise e
  | Ret result => Ret (first_or_none result)
  end.

(* search.py:536 *)
Definition find_child_by_name (n : lnode) (nm : str) : res (option lnode) :=
  find_child (name_is nm) n.

(* search.py:320-327
     parent_node = tree.root; child_node = parent_node
     for child_name in path_list[1:]:
         child_node = find_child_by_name(parent_node, child_name)
         if not child_node: break
         parent_node = child_node
     return child_node                                                                         *)
Fixpoint full_path_walk (parent : lnode) (names : list str) : res (option lnode) :=
  match names with
  | [] => Ret (Some parent)
  | c :: rest =>
      match find_child_by_name parent c with
      | Raise e => Raise e
      | Ret None => Ret None
      | Ret (Some k) => full_path_walk k rest
      end
  end.

(* search.py:314-319   path_list = path_name.rstrip(sep).lstrip(sep).split(sep);
                       if path_list[0] != tree.root.node_name: raise ValueError *)
Definition path_list_of (sep path : str) : list str := split (lstrip (rstrip path sep) sep) sep.

Definition find_full_path (sep : str) (n : lnode) (path : str) : res (option lnode) :=
  let path_list := path_list_of sep path in
  let root := ln_root n in
  if negb (str_eqb (hd [] path_list) (ln_name root)) then Raise ValueError
  else full_path_walk root (tl path_list).

Definition s_dot : str := [46%N].
Definition s_dotdot : str := [46%N; 46%N].
Definition s_star : str := [42%N].

(* search.py:253-285  the nested function `resolve`; resolved_nodes.append happens in depth-first
   order, an exception aborts everything.  '*' branch (273-276, repaired by 09acfdb):
     for child in node.children:
         if child: resolve(child, path_idx + 1)
   = one recursive call per non-empty slot, i.e. per element of ln_children *)
Fixpoint resolve (wild : bool) (comps : list str) (n : lnode) : res (list lnode) :=
  match comps with
  | [] => Ret [n]
  | c :: rest =>
      if str_eqb c s_dot then resolve wild rest n
      else if str_eqb c s_dotdot then
        match ln_parent n with
        | None => Raise SearchError              (* node.is_root: "Path goes beyond root node" *)
        | Some p => resolve wild rest p
        end
      else if str_eqb c s_star then
        (fix each (ks : list lnode) : res (list lnode) :=
           match ks with
           | [] => Ret []
           | k :: ks' =>
               match resolve wild rest k with
               | Raise e => Raise e
               | Ret a => match each ks' with
                          | Raise e => Raise e
                          | Ret b => Ret (a ++ b)
                          end
               end
           end) (ln_children n)
      else
        match find_child_by_name n c with
        | Raise e => Raise e
        | Ret None => if wild then Ret [] else Raise SearchError
        | Ret (Some k) => resolve wild rest k
        end
  end.

(* search.py:244-288.  An element None stands for the Python None that the absolute-path branch
   puts into the tuple when find_full_path finds nothing (`return (resolved_node,)`, before and
   without the count check). *)
Definition find_relative_paths (sep : str) (n : lnode) (path : str) (mn mx : nat)
  : res (list (option lnode)) :=
  if startswith path sep then
    match find_full_path sep n path with
    | Raise e => Raise e
    | Ret r => Ret [r]
    end
  else
    let path' := lstrip (rstrip path sep) sep in
    let path_list := split path' sep in
    let wild := contains path' s_star in
    match resolve wild path_list n with
    | Raise e => Raise e
    | Ret result =>
        match check_result_count result mn mx with
        | Raise e => Raise e
        | Ret _ => Ret (map Some result)
        end
    end.

(* search.py:201-204   result = find_relative_paths(tree, path_name, max_count=1); if result: return result[0] *)
Definition find_relative_path (sep : str) (n : lnode) (path : str) : res (option lnode) :=
  match find_relative_paths sep n path 0 1 with
  | Raise e => Raise e
  | Ret [] => Ret None
  | Ret (x :: _) => Ret x
  end.

(* -------------------------------------------------------------------------------------------
   One call = one query.  Conditions (callables) are finite tables indexed by object number. *)
Inductive query :=
| QFindall (tab : list bool) (md mn mx : nat)
| QFind (tab : list bool) (md : nat)
| QFindName (nm : str) (md : nat)
| QFindNames (nm : str) (md : nat)
| QFindPath (path : str)
| QFindPaths (path : str)
| QFindFullPath (path : str)
| QFindRelPath (path : str)
| QFindRelPaths (path : str) (mn mx : nat)
| QFindAttr (k : str) (v : val) (md : nat)
| QFindAttrs (k : str) (v : val) (md : nat)
| QFindChildren (tab : list bool) (mn mx : nat)
| QFindChild (tab : list bool)
| QFindChildByName (nm : str).

Definition cond_tab (tab : list bool) (n : lnode) : bool :=
  match ln_tag n with Some i => nth i tab false | None => false end.

Inductive out := Many (l : list (option lnode)) | One (o : option lnode).

Definition many (r : res (list lnode)) : res out :=
  match r with Raise e => Raise e | Ret l => Ret (Many (map Some l)) end.
Definition one (r : res (option lnode)) : res out :=
  match r with Raise e => Raise e | Ret o => Ret (One o) end.

Definition run_query (sep : str) (n : lnode) (q : query) : res out :=
  match q with
  | QFindall tab md mn mx => many (findall (cond_tab tab) n md mn mx)
  | QFind tab md => one (find (cond_tab tab) n md)
  | QFindName nm md => one (find_name n nm md)
  | QFindNames nm md => many (find_names n nm md)
  | QFindPath path => one (find_path sep n path)
  | QFindPaths path => many (find_paths sep n path)
  | QFindFullPath path => one (find_full_path sep n path)
  | QFindRelPath path => one (find_relative_path sep n path)
  | QFindRelPaths path mn mx =>
      match find_relative_paths sep n path mn mx with Raise e => Raise e | Ret l => Ret (Many l) end
  | QFindAttr k v md => one (find_attr n k v md)
  | QFindAttrs k v md => many (find_attrs n k v md)
  | QFindChildren tab mn mx => many (find_children (cond_tab tab) n mn mx)
  | QFindChild tab => one (find_child (cond_tab tab) n)
  | QFindChildByName nm => one (find_child_by_name n nm)
  end.

(* what the harness observes: object numbers (None = the Python None), or the exception class *)
Inductive sobs := ONodes (l : list (option nat)) | ONode (o : option nat) | OErr (code : nat).

Definition otag (o : option lnode) : option nat :=
  match o with Some n => ln_tag n | None => None end.

Definition obs_of (r : res out) : sobs :=
  match r with
  | Raise e => OErr (exn_code e)
  | Ret (Many l) => ONodes (map otag l)
  | Ret (One o) => ONode (otag o)
  end.

Definition onat_eqb := opt_eqb Nat.eqb.
Definition sobs_eqb (a b : sobs) : bool :=
  match a, b with
  | ONodes x, ONodes y => list_eqb onat_eqb x y
  | ONode x, ONode y => onat_eqb x y
  | OErr x, OErr y => Nat.eqb x y
  | _, _ => false
  end.

(* the whole call: tree w, separator, position of the start node, query *)
Record sinput := SI { si_tree : tree; si_sep : str; si_start : pos; si_query : query }.

Definition model (i : sinput) : option sobs :=
  match locate (si_tree i) (si_start i) with
  | Some n => Some (obs_of (run_query (si_sep i) n (si_query i)))
  | None => None
  end.
