(* C05, second round of partial clauses: proofs for Props/C05_more2.v.

   PART A  histories (hrun, Algo/Construct.v): add_path_to_tree calls interleaved with del / re-parent /
           sort, EITHER setting of duplicate_name_allowed, accepted and refused adds alike:
           A1 node-wise invariants (attribute dicts have distinct keys; names free of the tree
              separator's characters) survive every add (also a refused one, which leaves the nodes it
              created before raising) and every structural edit;
           A2 the full predicate prop_C05 (Spec/PC05.v) holds of every add of every history, evaluated
              against the tree as it is at that moment (one-character separators unguarded, separators of
              any positive length under the guards of the _multi theorems);
           A3 duplicate names disallowed: every add is the permissive add (or raises), names stay
              distinct through the whole history.
   PART B  the by-name frame entry points on the frame the harness really builds (frame_of_rows). *)
From Coq Require Import Permutation.
From BT Require Import Base.Prelude Base.Str Base.StrSep Base.Rose Algo.Construct Spec.PC05 Algo.ConstructProofs
     Algo.C05More.

(* ======================================================================================== *)
(* 1. a predicate on every node (name, attribute dict) of a tree                              *)

Inductive alln (P : str -> attrs -> Prop) : tree -> Prop :=
| alln_T g n a ks : P n a -> Forall (alln P) ks -> alln P (T g n a ks).

Lemma Forall_flat_map_iff {A B} (Q : B -> Prop) (f : A -> list B) l :
  Forall Q (flat_map f l) <-> Forall (fun x => Forall Q (f x)) l.
Proof.
  induction l as [|x l IH]; cbn [flat_map]; split; intros H.
  - constructor.
  - constructor.
  - apply Forall_app in H as [H1 H2]. constructor; [exact H1|now apply IH].
  - inversion H; subst. apply Forall_app. split; [assumption|now apply IH].
Qed.

Lemma alln_pre P : forall t, alln P t <-> Forall (fun s => P (tname s) (tattrs s)) (pre t).
Proof.
  induction t as [g n a ks IH] using tree_ind'. rewrite pre_unfold. split; intros H.
  - inversion H as [? ? ? ? Hp Hk]; subst. constructor; [exact Hp|].
    apply Forall_flat_map_iff. rewrite Forall_forall in *. intros k Hin. apply (IH k Hin). now apply Hk.
  - inversion H as [|? ? Hp Hk]; subst. constructor; [exact Hp|].
    apply Forall_flat_map_iff in Hk. rewrite Forall_forall in *. intros k Hin. apply (IH k Hin). now apply Hk.
Qed.

Lemma attrs_wf_alln t : attrs_wf t <-> alln (fun _ a => NoDup (map fst a)) t.
Proof.
  rewrite alln_pre, Forall_forall. split.
  - intros H s Hs. destruct (in_pre_position t s Hs) as [q Hq]. exact (H q s Hq).
  - intros H q s Hq. apply H. eapply subtree_in_pre; eauto.
Qed.

Lemma cleans_alln sp t : cleans sp t <-> alln (fun n _ => sfree sp n) t.
Proof.
  rewrite alln_pre, Forall_forall. unfold cleans, names. split.
  - intros H s Hs. apply H. now apply in_map.
  - intros H x Hx. apply in_map_iff in Hx as (s & <- & Hs). now apply H.
Qed.

(* a predicate W on the attribute dict (closed under dict.update, true of {}) and one on the name *)
Definition PQ (W : attrs -> Prop) (Q : str -> Prop) (n : str) (a : attrs) : Prop := W a /\ Q n.
Definition keys_nodup (a : attrs) : Prop := NoDup (map fst a).
Definition any_attrs (a : attrs) : Prop := True.
Definition Wok (W : attrs -> Prop) : Prop := W [] /\ forall a na, W a -> W (set_attrs a na).

Lemma Wok_keys : Wok keys_nodup.
Proof. split; [constructor|]. intros a na H. now apply set_attrs_keys. Qed.
Lemma Wok_any : Wok any_attrs.
Proof. split; [exact I|]. intros; exact I. Qed.

Lemma alln_PQ Q t : alln (PQ keys_nodup Q) t <-> attrs_wf t /\ (forall x, In x (names t) -> Q x).
Proof.
  rewrite attrs_wf_alln, !alln_pre, !Forall_forall. unfold PQ, keys_nodup, names. split.
  - intros H. split; [intros s Hs; now apply H|].
    intros x Hx. apply in_map_iff in Hx as (s & <- & Hs). now apply H.
  - intros [H1 H2] s Hs. split; [now apply H1|]. apply H2. now apply in_map.
Qed.

Lemma alln_PQ_True t : alln (PQ keys_nodup (fun _ => True)) t <-> attrs_wf t.
Proof. rewrite alln_PQ. intuition. Qed.

Lemma alln_PQ_cleans sp t : alln (PQ keys_nodup (sfree sp)) t <-> attrs_wf t /\ cleans sp t.
Proof. rewrite alln_PQ. reflexivity. Qed.

Lemma alln_any_cleans sp t : alln (PQ any_attrs (sfree sp)) t <-> cleans sp t.
Proof.
  rewrite cleans_alln, !alln_pre, !Forall_forall. unfold PQ, any_attrs. split.
  - intros H s Hs. now apply H.
  - intros H s Hs. split; [exact I|now apply H].
Qed.

(* ---- surgery keeps it ---- *)
Lemma alln_upd_nth P f i : forall ks,
  Forall (alln P) ks -> (forall k, alln P k -> alln P (f k)) -> Forall (alln P) (upd_nth i f ks).
Proof.
  revert i. intros i ks. revert i. induction ks as [|k ks IH]; intros [|i] H Hf; cbn [upd_nth]; try exact H.
  - inversion H; subst. constructor; auto.
  - inversion H; subst. constructor; auto.
Qed.

Lemma alln_upd_at P f : (forall s, alln P s -> alln P (f s)) ->
  forall p t, alln P t -> alln P (upd_at p f t).
Proof.
  intros Hf. induction p as [|i p IH]; intros t H; [now apply Hf|].
  destruct t as [g n a ks]. rewrite upd_at_cons. inversion H; subst.
  constructor; [assumption|]. apply alln_upd_nth; auto.
Qed.

Lemma Forall_remove_nth {A} (Q : A -> Prop) i : forall l, Forall Q l -> Forall Q (remove_nth i l).
Proof.
  induction i as [|i IH]; intros [|x l] H; cbn [remove_nth]; try exact H.
  - now inversion H.
  - inversion H; subst. constructor; auto.
Qed.

Lemma remove_at_cons2 i j q g n a ks :
  remove_at (i :: j :: q) (T g n a ks) = T g n a (upd_nth i (remove_at (j :: q)) ks).
Proof. reflexivity. Qed.

Lemma alln_remove_at P : forall q t, alln P t -> alln P (remove_at q t).
Proof.
  induction q as [|i q IH]; intros t H; [exact H|].
  destruct t as [g n a ks]. inversion H; subst. destruct q as [|j q'].
  - cbn [remove_at]. constructor; [assumption|]. now apply Forall_remove_nth.
  - rewrite remove_at_cons2. constructor; [assumption|]. apply alln_upd_nth; auto.
Qed.

Lemma alln_add_kid P c t : alln P c -> alln P t -> alln P (add_kid c t).
Proof.
  intros Hc H. destruct t as [g n a ks]. inversion H; subst. cbn [add_kid].
  constructor; [assumption|]. apply Forall_app. split; [assumption|]. constructor; [exact Hc|constructor].
Qed.

Lemma Forall_insert_sorted (Q : tree -> Prop) k : forall l, Q k -> Forall Q l -> Forall Q (insert_sorted k l).
Proof.
  induction l as [|x l IH]; intros Hk H; cbn [insert_sorted].
  - constructor; [exact Hk|constructor].
  - destruct (str_ltb (tname k) (tname x)).
    + constructor; assumption.
    + inversion H; subst. constructor; auto.
Qed.

Lemma alln_sort_kids P t : alln P t -> alln P (sort_kids t).
Proof.
  intros H. destruct t as [g n a ks]. inversion H as [? ? ? ? Hp Hk]; subst. cbn [sort_kids].
  constructor; [exact Hp|]. clear H Hp. induction ks as [|k ks IH]; cbn [fold_right]; [constructor|].
  inversion Hk; subst. apply Forall_insert_sorted; auto.
Qed.

Lemma alln_subtree P : forall q t s, alln P t -> subtree_at t q = Some s -> alln P s.
Proof.
  induction q as [|i q IH]; intros t s H E; cbn [subtree_at] in E.
  - inversion E; subst. exact H.
  - destruct t as [g n a ks]. cbn [tkids] in E. destruct (nth_error ks i) as [k|] eqn:Hk; [|discriminate].
    inversion H as [? ? ? ? Hp Hks]; subst. eapply IH; [|exact E].
    rewrite Forall_forall in Hks. apply Hks. eapply nth_error_In; eauto.
Qed.

(* every structural edit keeps it (also the degenerate ones the node API would refuse) *)
Lemma alln_hedit P t op t' : alln P t -> hedit t op = Some t' -> alln P t'.
Proof.
  intros H E. destruct op as [path na|p|src dst|p]; cbn [hedit] in E.
  - inversion E; subst. exact H.
  - destruct (pos_of_path t p) as [q|]; [|discriminate]. inversion E; subst. now apply alln_remove_at.
  - destruct (pos_of_path t src) as [q|]; [|discriminate].
    destruct (subtree_at t q) as [sub|] eqn:Hs; [|discriminate].
    destruct (pos_of_path (remove_at q t) dst) as [d|]; [|discriminate]. inversion E; subst.
    apply alln_upd_at; [|now apply alln_remove_at].
    intros s Hs'. apply alln_add_kid; [|exact Hs']. exact (alln_subtree P q t sub H Hs).
  - destruct (pos_of_path t p) as [q|]; [|discriminate]. inversion E; subst.
    apply alln_upd_at; [|exact H]. intros s. apply alln_sort_kids.
Qed.

(* ---- add_path_to_tree keeps it: either flag, accepted or refused ---- *)
Lemma alln_set_node_attrs W Q na s : Wok W -> alln (PQ W Q) s -> alln (PQ W Q) (set_node_attrs na s).
Proof.
  intros [_ Hset] H. destruct s as [g n a ks]. inversion H as [? ? ? ? [Hp Hq] Hk]; subst. cbn [set_node_attrs].
  constructor; [|exact Hk]. split; [now apply Hset|exact Hq].
Qed.

Lemma grow_step_alln W Q tsep dup t parent pref nm last na t' p :
  Wok W -> alln (PQ W Q) t -> Q nm ->
  grow_step tsep dup t parent pref nm last na = Ret (t', p) -> alln (PQ W Q) t'.
Proof.
  intros [Hnil Hset] H Hq. unfold grow_step. cbv zeta.
  match goal with |- match ?F with _ => _ end = _ -> _ => destruct F as [[p0|]|e] end.
  - intros E. inversion E; subst. exact H.
  - destruct (is_nil nm); [discriminate|]. destruct (subtree_at t parent) as [pt|]; [|discriminate].
    intros E. inversion E; subst. apply alln_upd_at; [|exact H].
    intros s Hs. apply alln_add_kid; [|exact Hs]. constructor; [|constructor]. split; [|exact Hq].
    destruct last; [now apply Hset|exact Hnil].
  - discriminate.
Qed.

Lemma grow_alln W Q tsep dup na : Wok W -> forall rest t parent done,
  alln (PQ W Q) t -> Forall Q rest -> alln (PQ W Q) (fst (grow tsep dup t parent done rest na)).
Proof.
  intros HW. induction rest as [|nm rest IH]; intros t parent done H HF; cbn [grow]; [exact H|].
  inversion HF; subst.
  destruct (grow_step tsep dup t parent (done ++ [nm]) nm (is_nil rest) na) as [[t1 p1]|e] eqn:E; [|exact H].
  apply IH; [|assumption]. eapply grow_step_alln; eauto.
Qed.

Lemma add_path_alln W Q t tsep path sep dup na :
  Wok W -> alln (PQ W Q) t -> Forall Q (branch_of path sep) ->
  alln (PQ W Q) (fst (add_path_to_tree t tsep path sep dup na)).
Proof.
  intros HW H HF. unfold add_path_to_tree. destruct (is_nil path); [exact H|].
  destruct (branch_of path sep) as [|b0 rest]; [exact H|].
  destruct (negb (str_eqb b0 (tname t))); [exact H|]. inversion HF; subst.
  pose proof (grow_alln W Q tsep dup na HW rest t [] [b0] H ltac:(assumption)) as G.
  destruct (grow tsep dup t [] [b0] rest na) as [t1 [p|e]]; cbn [fst] in *; [|exact G].
  apply alln_upd_at; [|exact G]. intros s. now apply alln_set_node_attrs.
Qed.

(* C05_add_path_attrs_wf_any: the existing add_path_attrs_wf covers accepted permissive calls only *)
Theorem add_path_attrs_wf_any t tsep path sep dup na :
  attrs_wf t -> attrs_wf (fst (add_path_to_tree t tsep path sep dup na)).
Proof.
  intros H. apply alln_PQ_True. apply add_path_alln; [exact Wok_keys|now apply alln_PQ_True|].
  apply Forall_forall. intros; exact I.
Qed.

Theorem add_path_cleans_any sp t tsep path sep dup na :
  cleans sp t -> Forall (sfree sp) (branch_of path sep) ->
  cleans sp (fst (add_path_to_tree t tsep path sep dup na)).
Proof.
  intros Hc HF. apply (alln_any_cleans sp). apply add_path_alln; [exact Wok_any| |exact HF].
  now apply alln_any_cleans.
Qed.

(* ======================================================================================== *)
(* 2. an invariant principle for histories                                                    *)

Definition hentry := (tree * str * attrs * (tree * res pos))%type.

Lemma hrun_inv (Inv : tree -> Prop) (G : hop -> Prop) (R : hentry -> Prop) tsep sep dup :
  (forall t path na, Inv t -> G (HAdd path na) -> Inv (fst (add_path_to_tree t tsep path sep dup na))) ->
  (forall t op t', Inv t -> G op -> hedit t op = Some t' -> Inv t') ->
  (forall t path na, Inv t -> G (HAdd path na) -> R (t, path, na, add_path_to_tree t tsep path sep dup na)) ->
  forall ops t, Inv t -> Forall G ops -> Forall R (hrun tsep sep dup t ops).
Proof.
  intros Hadd Hed Hr. induction ops as [|op ops IH]; intros t Ht HG; [constructor|].
  inversion HG as [|? ? Hg HG']; subst.
  destruct op as [path na|p|src dst|p]; cbn [hrun].
  - constructor; [now apply Hr|]. apply IH; [now apply Hadd|exact HG'].
  - destruct (hedit t (HDel p)) as [t1|] eqn:E; [|constructor]. apply IH; [exact (Hed _ _ _ Ht Hg E)|exact HG'].
  - destruct (hedit t (HMove src dst)) as [t1|] eqn:E; [|constructor]. apply IH; [exact (Hed _ _ _ Ht Hg E)|exact HG'].
  - destruct (hedit t (HSort p)) as [t1|] eqn:E; [|constructor]. apply IH; [exact (Hed _ _ _ Ht Hg E)|exact HG'].
Qed.

(* ======================================================================================== *)
(* 3. the full predicate prop_C05 on every add of every history                               *)

(* the input / output the history check (Corr/ConstructCorr.v run_ops, SAdd) builds for one add *)
Definition hist_in (sep : str) (dup : bool) (tsep pcol : str) (tb : tree) (path : str) (na : attrs) : input :=
  MkIn sep dup tb tsep [] pcol [(path, na)].
Definition lift1 (r : tree * res pos) : tree * res (list pos) :=
  match r with (t', Ret p) => (t', Ret [p]) | (t', Raise e) => (t', Raise e) end.

Lemma run_hist sep dup tsep pcol tb path na :
  sep <> [] -> row_keys_ok [] (path, na) = true ->
  run KAddPath (hist_in sep dup tsep pcol tb path na)
  = out_add tsep false (lift1 (add_path_to_tree tb tsep path sep dup na)).
Proof.
  intros Hs Hk. unfold run, hist_in. cbn [i_sep i_rows i_tree i_tsep i_dup]. rewrite (sep_not_nil _ Hs).
  cbn [forallb]. rewrite Hk. cbn [andb add_rows].
  destruct (add_path_to_tree tb tsep path sep dup na) as [t' [p|e]]; reflexivity.
Qed.

(* what is claimed of one recorded add (tb, path, na, r): the predicate holds of the model's answer to
   exactly this call on exactly this tree, and that answer is the recorded r *)
Definition hist_prop (sep : str) (dup : bool) (tsep pcol : str) (e : hentry) : Prop :=
  match e with
  | (tb, path, na, r) =>
      let i := hist_in sep dup tsep pcol tb path na in
      prop_C05 KAddPath i (run KAddPath i) = true
      /\ (row_keys_ok [] (path, na) = true -> run KAddPath i = out_add tsep false (lift1 r))
  end.

Definition hop_true (op : hop) : Prop := True.

Theorem history_adds_prop c sep dup tsep pcol ops t :
  sep = [c] -> attrs_wf t -> (dup = true \/ exists c2, tsep = [c2]) ->
  Forall (hist_prop sep dup tsep pcol) (hrun tsep sep dup t ops).
Proof.
  intros Hs Hwf Hts.
  apply (hrun_inv attrs_wf hop_true (hist_prop sep dup tsep pcol) tsep sep dup).
  - intros t0 path na H _. now apply add_path_attrs_wf_any.
  - intros t0 op t1 H _ E. apply attrs_wf_alln. eapply alln_hedit; [|exact E]. now apply attrs_wf_alln.
  - intros t0 path na H _. unfold hist_prop. cbv zeta. split.
    + apply (model_satisfies_add_path (hist_in sep dup tsep pcol t0 path na) c); [exact Hs|exact H|exact Hts].
    + intros Hk. apply run_hist; [rewrite Hs; discriminate|exact Hk].
  - exact Hwf.
  - apply Forall_forall. intros; exact I.
Qed.

(* separators of any positive length *)
Definition hop_pg (sep : str) (op : hop) : Prop :=
  match op with HAdd path _ => PG sep path | _ => True end.
Definition hop_free (sep tsep : str) (op : hop) : Prop :=
  match op with HAdd path _ => Forall (sfree tsep) (branch_of path sep) | _ => True end.

Lemma paths_components t p x : In p (paths t) -> In x p -> In x (names t).
Proof.
  intros Hp Hx. unfold paths in Hp. destruct (in_paths_valid t [] p Hp) as (q & s & Hq & ->).
  cbn [app] in Hx. eapply names_along_in; eauto.
Qed.

Lemma guards_names_distinct k i : guards k i = true -> i_dup i = false -> NoDup (names (base k i)).
Proof.
  unfold guards. intros G Hd. rewrite Hd in G. cbn [orb] in G. rewrite !andb_true_iff in G.
  destruct G as (_ & Hn & _). now apply nodup_str_NoDup.
Qed.

Theorem history_adds_prop_multi sep dup tsep pcol ops t :
  sep <> [] -> Forall (hop_pg sep) ops -> attrs_wf t ->
  (dup = true \/ (tsep <> [] /\ cleans tsep t /\ Forall (hop_free sep tsep) ops)) ->
  Forall (hist_prop sep dup tsep pcol) (hrun tsep sep dup t ops).
Proof.
  intros Hs Hpg Hwf Hg.
  assert (Hone : forall t0 path na, attrs_wf t0 -> PG sep path ->
            (dup = false -> tsep <> [] /\ cleans tsep t0 /\ Forall (sfree tsep) (branch_of path sep)) ->
            hist_prop sep dup tsep pcol (t0, path, na, add_path_to_tree t0 tsep path sep dup na)).
  { intros t0 path na H Hp Hf. unfold hist_prop. cbv zeta. split; [|intros Hk; now apply run_hist].
    apply model_satisfies_add_path_multi; cbn [hist_in i_sep i_rows i_tree i_tsep i_dup].
    - exact Hs.
    - intros r [<-|[]]. exact Hp.
    - exact H.
    - intros G Hd. destruct (Hf Hd) as (Hts & Hc & Hb). split; [exact Hts|]. split.
      + apply (guards_names_distinct KAddPath _ G Hd).
      + intros p Hin x Hx. apply in_app_or in Hin as [Hin|Hin].
        * apply Hc. eapply paths_components; eauto.
        * cbn in Hin. destruct Hin as [<-|[]].
          destruct Hp as [(_ & E & _)|(_ & E & _)].
          -- rewrite E in Hx. destruct Hx.
          -- rewrite E in Hx. rewrite Forall_forall in Hb. now apply Hb. }
  destruct Hg as [Hd|(Hts & Hc & Hfree)].
  - apply (hrun_inv attrs_wf (hop_pg sep) (hist_prop sep dup tsep pcol) tsep sep dup).
    + intros t0 path na H _. now apply add_path_attrs_wf_any.
    + intros t0 op t1 H _ E. apply attrs_wf_alln. eapply alln_hedit; [|exact E]. now apply attrs_wf_alln.
    + intros t0 path na H Hp. apply Hone; [exact H|exact Hp|]. intros Hd'. congruence.
    + exact Hwf.
    + exact Hpg.
  - apply (hrun_inv (alln (PQ keys_nodup (sfree tsep))) (fun op => hop_pg sep op /\ hop_free sep tsep op)
                    (hist_prop sep dup tsep pcol) tsep sep dup).
    + intros t0 path na H [_ Hf]. apply add_path_alln; [exact Wok_keys|exact H|exact Hf].
    + intros t0 op t1 H _ E. eapply alln_hedit; eauto.
    + intros t0 path na H [Hp Hf]. apply alln_PQ_cleans in H as [Hw0 Hc0].
      apply Hone; [exact Hw0|exact Hp|]. intros _. auto.
    + apply alln_PQ_cleans. split; assumption.
    + rewrite Forall_forall in *. intros op Hin. split; [now apply Hpg|now apply Hfree].
Qed.

(* ======================================================================================== *)
(* 4. duplicate_name_allowed = False through a whole history                                   *)

(* an add keeps the names distinct, accepted or refused (a refused call leaves the nodes it created) *)
Lemma grow_false_names_any tsep na : forall rest t parent done,
  NoDup (names t) -> NoDup (names (fst (grow tsep false t parent done rest na))).
Proof.
  induction rest as [|nm rest IH]; intros t parent done H; cbn [grow]; [exact H|].
  destruct (grow_step tsep false t parent (done ++ [nm]) nm (is_nil rest) na) as [[t1 p1]|e] eqn:E; [|exact H].
  apply IH. eapply grow_step_false_names; eauto.
Qed.

Theorem add_path_false_names_any t tsep path sep na :
  NoDup (names t) -> NoDup (names (fst (add_path_to_tree t tsep path sep false na))).
Proof.
  intros H. unfold add_path_to_tree. destruct (is_nil path); [exact H|].
  destruct (branch_of path sep) as [|b0 rest]; [exact H|].
  destruct (negb (str_eqb b0 (tname t))); [exact H|].
  pose proof (grow_false_names_any tsep na rest t [] [b0] H) as G.
  destruct (grow tsep false t [] [b0] rest na) as [t1 [p|e]]; cbn [fst] in *; [|exact G].
  now rewrite names_set_attrs.
Qed.

(* the structural edits permute (move, sort) or shrink (del) the list of names *)
Lemma flat_map_remove_nth_perm {A B} (F : A -> list B) : forall i l k,
  nth_error l i = Some k -> Permutation (flat_map F l) (F k ++ flat_map F (remove_nth i l)).
Proof.
  induction i as [|i IH]; intros [|x l] k H; cbn [nth_error remove_nth flat_map] in *; try discriminate.
  - inversion H; subst. reflexivity.
  - rewrite (IH l k H). apply Permutation_app_swap_app.
Qed.

Lemma flat_map_upd_nth_perm2 {A B} (F : A -> list B) (f : A -> A) (E : list B) : forall i l k,
  nth_error l i = Some k -> Permutation (F k) (E ++ F (f k)) ->
  Permutation (flat_map F l) (E ++ flat_map F (upd_nth i f l)).
Proof.
  induction i as [|i IH]; intros [|x l] k H HP; cbn [nth_error upd_nth flat_map] in *; try discriminate.
  - inversion H; subst. rewrite HP. now rewrite app_assoc.
  - rewrite (IH l k H HP). apply Permutation_app_swap_app.
Qed.

Lemma names_remove_at : forall q t sub,
  q <> [] -> subtree_at t q = Some sub -> Permutation (names t) (names sub ++ names (remove_at q t)).
Proof.
  induction q as [|i q IH]; intros t sub Hne H; [congruence|].
  destruct t as [g n a ks]. cbn [subtree_at tkids] in H.
  destruct (nth_error ks i) as [k|] eqn:Hk; [|discriminate]. destruct q as [|j q'].
  - cbn [subtree_at] in H. inversion H; subst. cbn [remove_at]. rewrite !names_unfold.
    apply Permutation_cons_app. now apply flat_map_remove_nth_perm.
  - rewrite remove_at_cons2, !names_unfold. apply Permutation_cons_app.
    eapply flat_map_upd_nth_perm2; [exact Hk|]. apply IH; [discriminate|exact H].
Qed.

Lemma pos_of_names_valid : forall rest t p, pos_of_names t rest = Some p -> exists s, subtree_at t p = Some s.
Proof.
  induction rest as [|nm rest IH]; intros t p H; cbn [pos_of_names] in H.
  - inversion H; subst. exists t. reflexivity.
  - destruct (find_idx nm 0 (tkids t)) as [|i l]; [discriminate|].
    destruct (nth_error (tkids t) i) as [k|] eqn:Hk; [|discriminate].
    destruct (pos_of_names k rest) as [p'|] eqn:Hp; [|discriminate]. inversion H; subst.
    cbn [subtree_at]. rewrite Hk. now apply IH.
Qed.

Lemma pos_of_path_valid t p q : pos_of_path t p = Some q -> exists s, subtree_at t q = Some s.
Proof.
  unfold pos_of_path. destruct p as [|r rest]; [discriminate|].
  destruct (str_eqb r (tname t)); [|discriminate]. apply pos_of_names_valid.
Qed.

Lemma pos_of_path_root t p : pos_of_path t p = Some [] -> length p = 1.
Proof.
  unfold pos_of_path. destruct p as [|r rest]; [discriminate|].
  destruct (str_eqb r (tname t)); [|discriminate]. destruct rest as [|nm rest]; [reflexivity|].
  cbn [pos_of_names]. destruct (find_idx nm 0 (tkids t)) as [|i l]; [discriminate|].
  destruct (nth_error (tkids t) i) as [k|]; [|discriminate].
  destruct (pos_of_names k rest); discriminate.
Qed.

Lemma insert_sorted_perm k : forall l, Permutation (insert_sorted k l) (k :: l).
Proof.
  induction l as [|x l IH]; cbn [insert_sorted]; [reflexivity|].
  destruct (str_ltb (tname k) (tname x)); [reflexivity|]. rewrite IH. apply perm_swap.
Qed.

Lemma sort_perm : forall ks, Permutation (fold_right insert_sorted [] ks) ks.
Proof.
  induction ks as [|k ks IH]; cbn [fold_right]; [reflexivity|]. rewrite insert_sorted_perm. now constructor.
Qed.

Lemma names_sort_kids s : Permutation (names (sort_kids s)) (names s).
Proof.
  destruct s as [g n a ks]. cbn [sort_kids]. rewrite !names_unfold. constructor.
  apply Permutation_flat_map. apply sort_perm.
Qed.

Lemma upd_nth_out {A} (f : A -> A) : forall i l, nth_error l i = None -> upd_nth i f l = l.
Proof.
  induction i as [|i IH]; intros [|x l] H; cbn [nth_error upd_nth] in *; try reflexivity; try discriminate.
  now rewrite IH.
Qed.

Lemma names_upd_at_perm f : (forall s, Permutation (names (f s)) (names s)) ->
  forall p t, Permutation (names (upd_at p f t)) (names t).
Proof.
  intros Hf. induction p as [|i p IH]; intros t; [apply Hf|].
  destruct t as [g n a ks]. rewrite upd_at_cons, !names_unfold. constructor.
  destruct (nth_error ks i) as [k|] eqn:Hk.
  - apply (flat_map_upd_nth_perm names (upd_at p f) [] i ks k Hk). cbn [app]. apply IH.
  - now rewrite upd_nth_out.
Qed.

(* node(src).parent = node(dst) with src the ROOT is refused by the library (LoopError); the model's
   hedit does not model that refusal, so histories are taken without such an operation *)
Definition hop_ok (op : hop) : Prop :=
  match op with HMove src _ => length src <> 1 | _ => True end.

Lemma names_hedit t op t' :
  hop_ok op -> hedit t op = Some t' -> exists l, Permutation (names t) (l ++ names t').
Proof.
  intros Hok E. destruct op as [path na|p|src dst|p]; cbn [hedit] in E.
  - inversion E; subst. exists []. reflexivity.
  - destruct (pos_of_path t p) as [q|] eqn:Hq; [|discriminate]. inversion E; subst.
    destruct q as [|i q]; [exists []; reflexivity|].
    destruct (pos_of_path_valid _ _ _ Hq) as [sub Hs]. exists (names sub).
    apply names_remove_at; [discriminate|exact Hs].
  - destruct (pos_of_path t src) as [q|] eqn:Hq; [|discriminate].
    destruct (subtree_at t q) as [sub|] eqn:Hs; [|discriminate].
    destruct (pos_of_path (remove_at q t) dst) as [d|] eqn:Hd; [|discriminate]. inversion E; subst.
    exists []. cbn [app].
    assert (Hne : q <> []).
    { intros ->. apply Hok. eapply pos_of_path_root; eauto. }
    destruct (pos_of_path_valid _ _ _ Hd) as [pt Hpt].
    rewrite (names_add_kid sub d (remove_at q t) pt Hpt). now apply names_remove_at.
  - destruct (pos_of_path t p) as [q|]; [|discriminate]. inversion E; subst. exists []. cbn [app].
    symmetry. apply names_upd_at_perm. apply names_sort_kids.
Qed.

Lemma NoDup_app_tail {A} (l l' : list A) : NoDup (l ++ l') -> NoDup l'.
Proof. induction l as [|x l IH]; intros H; [exact H|]. cbn in H. inversion H; subst. now apply IH. Qed.

Lemma NoDup_hedit t op t' : hop_ok op -> NoDup (names t) -> hedit t op = Some t' -> NoDup (names t').
Proof.
  intros Hok Hn E. destruct (names_hedit t op t' Hok E) as [l P].
  apply (Permutation_NoDup P) in Hn. now apply NoDup_app_tail in Hn.
Qed.

Lemma attrs_wf_hedit t op t' : attrs_wf t -> hedit t op = Some t' -> attrs_wf t'.
Proof.
  intros H E. apply attrs_wf_alln. eapply alln_hedit; [|exact E]. now apply attrs_wf_alln.
Qed.

Lemma cleans_hedit sp t op t' : cleans sp t -> hedit t op = Some t' -> cleans sp t'.
Proof.
  intros Hc E. apply alln_any_cleans. eapply alln_hedit; [|exact E]. now apply alln_any_cleans.
Qed.

(* names stay distinct through every history (no guard on separators at all) *)
Definition hist_distinct (e : hentry) : Prop :=
  match e with (tb, _, _, r) => NoDup (names tb) /\ NoDup (names (fst r)) end.

Theorem history_no_dup_distinct tsep sep ops t :
  NoDup (names t) -> Forall hop_ok ops ->
  Forall hist_distinct (hrun tsep sep false t ops).
Proof.
  intros Hn Hok.
  apply (hrun_inv (fun t0 => NoDup (names t0)) hop_ok hist_distinct tsep sep false).
  - intros t0 path na H _. now apply add_path_false_names_any.
  - intros t0 op t1 H Hg E. eapply NoDup_hedit; eauto.
  - intros t0 path na H _. split; [exact H|now apply add_path_false_names_any].
  - exact Hn.
  - exact Hok.
Qed.

(* every add of a history with duplicates disallowed IS the permissive add whenever it is accepted,
   is accepted exactly when the permissive add leaves the names distinct, and satisfies the add_path
   clause against the tree as it is then.  Guard: no character of the tree's separator (any positive
   length) in a name of the start tree or in a component of an added path *)
Definition hist_strict (tsep sep : str) (e : hentry) : Prop :=
  match e with
  | (tb, path, na, r) =>
      (forall t' p, r = (t', Ret p)
                    <-> add_path_to_tree tb tsep path sep true na = (t', Ret p) /\ NoDup (names t'))
      /\ add_clause tb sep path r
      /\ NoDup (names tb) /\ cleans tsep tb
  end.

Theorem history_no_dup_exact tsep sep ops t :
  tsep <> [] -> NoDup (names t) -> cleans tsep t ->
  Forall hop_ok ops -> Forall (hop_free sep tsep) ops ->
  Forall (hist_strict tsep sep) (hrun tsep sep false t ops).
Proof.
  intros Hts Hn Hc Hok Hfree.
  apply (hrun_inv (fun t0 => NoDup (names t0) /\ cleans tsep t0)
                  (fun op => hop_ok op /\ hop_free sep tsep op) (hist_strict tsep sep) tsep sep false).
  - intros t0 path na [H1 H2] [_ Hf]. split; [now apply add_path_false_names_any|now apply add_path_cleans_any].
  - intros t0 op t1 [H1 H2] [Hg _] E. split; [eapply NoDup_hedit; eauto|eapply cleans_hedit; eauto].
  - intros t0 path na [H1 H2] [_ Hf]. unfold hist_strict. cbn [hop_free] in Hf.
    assert (Hiff : forall t' p, add_path_to_tree t0 tsep path sep false na = (t', Ret p)
                     <-> add_path_to_tree t0 tsep path sep true na = (t', Ret p) /\ NoDup (names t')).
    { intros t' p. split.
      - intros H. split; [now apply (add_path_false_true_multi tsep t0 path sep na t' p)|].
        eapply add_path_false_names; eauto.
      - intros [H Hn']. now apply add_path_true_false. }
    split; [exact Hiff|]. split; [|split; assumption].
    intros t' p H. apply Hiff in H as [H _]. pose proof (add_clause_holds t0 tsep sep path na) as C.
    rewrite H in C. now apply C.
  - split; assumption.
  - rewrite Forall_forall in *. intros op Hin. split; [now apply Hok|now apply Hfree].
Qed.

(* ======================================================================================== *)
(* 5. the frame the harness really builds: frame_of_rows (columns = attribute keys in order of
      first appearance, a missing cell is null).  The guards of the by-name frame theorems of
      Algo/C05More.v, stated there on the frame, are inherited from the RAW rows.               *)

Lemma frame_of_rows_cols rows r : In r (frame_of_rows rows) -> map fst (snd r) = columns_of rows.
Proof.
  unfold frame_of_rows. cbv zeta. intros H. apply in_map_iff in H as (r0 & <- & _). cbn [snd].
  rewrite map_map. cbn [fst]. apply map_id.
Qed.

Lemma dedup_str_in x : forall l seen, In x (dedup_str seen l) -> In x l.
Proof.
  induction l as [|y l IH]; intros seen H; cbn [dedup_str] in H; [exact H|].
  destruct (existsb (str_eqb y) seen).
  - right. eapply IH; eauto.
  - destruct H as [<-|H]; [now left|right; eapply IH; eauto].
Qed.

Lemma pcol_guard_frame pcol rows : pcol_guard pcol rows -> pcol_guard pcol (frame_of_rows rows).
Proof.
  intros [->|G]; [now left|right]. intros r Hr. rewrite (frame_of_rows_cols rows r Hr).
  unfold columns_of. intros Hin. apply dedup_str_in in Hin. apply in_flat_map in Hin as (r0 & Hr0 & Hk).
  exact (G r0 Hr0 Hk).
Qed.

Lemma dedup_str_nil l : dedup_str [] l = [] -> l = [].
Proof. destruct l as [|x l]; [reflexivity|]. cbn [dedup_str existsb]. discriminate. Qed.

Lemma forallb_nil_false (l : list row) :
  forallb (fun r => is_nil (snd r)) l = false -> exists r, In r l /\ snd r <> [].
Proof.
  induction l as [|[k a] l IH]; cbn [forallb snd]; [discriminate|]. intros E.
  apply andb_false_iff in E as [E|E].
  - exists (k, a). split; [now left|]. cbn [snd]. destruct a; [discriminate|discriminate].
  - destruct (IH E) as (r1 & H1 & H2). exists r1. split; [now right|exact H2].
Qed.

Lemma polars_modelled_frame rows : polars_modelled rows = true -> polars_modelled (frame_of_rows rows) = true.
Proof.
  unfold polars_modelled. destruct rows as [|r0 rows]; [reflexivity|]. cbn [is_nil negb]. rewrite !andb_true_r.
  intros H. apply negb_true_iff in H. apply negb_true_iff.
  assert (Hc : columns_of (r0 :: rows) <> []).
  { assert (Hex : exists r, In r (r0 :: rows) /\ snd r <> []).
    { destruct (forallb (fun r => is_nil (snd r)) (r0 :: rows)) eqn:E; [discriminate|].
      now apply forallb_nil_false. }
    destruct Hex as (r & Hr & Hn). intros Hcol. unfold columns_of in Hcol. apply dedup_str_nil in Hcol.
    destruct r as [k a]. cbn [snd] in Hn. destruct a as [|kv a]; [congruence|].
    assert (Hin : In (fst kv) (@nil str)).
    { rewrite <- Hcol. apply in_flat_map. exists (k, kv :: a). split; [exact Hr|]. now left. }
    destruct Hin. }
  unfold frame_of_rows. cbv zeta. cbn [map forallb snd].
  destruct (columns_of (r0 :: rows)) as [|c cs]; [congruence|]. reflexivity.
Qed.

Lemma eff_input_fields k i :
  i_sep (eff_input k i) = i_sep i /\ i_dup (eff_input k i) = i_dup i /\ i_tree (eff_input k i) = i_tree i
  /\ i_tsep (eff_input k i) = i_tsep i /\ i_start (eff_input k i) = i_start i /\ i_pcol (eff_input k i) = i_pcol i.
Proof. unfold eff_input, with_rows. destruct (is_dict_kind k), (is_frame_kind k); cbn; auto 7. Qed.

Theorem model_satisfies_name_frame_eff i sub :
  i_sep i <> [] -> attrs_wf (i_tree i) -> subtree_at (i_tree i) (i_start i) = Some sub ->
  pcol_guard (i_pcol i) (i_rows i) ->
  prop_C05 KNameFrame (eff_input KNameFrame i) (run KNameFrame (eff_input KNameFrame i)) = true.
Proof.
  intros Hsep Hwf Hsub G. apply (model_satisfies_name_frame (eff_input KNameFrame i) sub); try assumption.
  cbn. now apply pcol_guard_frame.
Qed.

Theorem model_satisfies_name_polars_eff i sub :
  i_sep i <> [] -> attrs_wf (i_tree i) -> subtree_at (i_tree i) (i_start i) = Some sub ->
  pcol_guard (i_pcol i) (i_rows i) -> polars_modelled (i_rows i) = true ->
  prop_C05 KNamePolars (eff_input KNamePolars i) (run KNamePolars (eff_input KNamePolars i)) = true.
Proof.
  intros Hsep Hwf Hsub G Hp. apply (model_satisfies_name_polars (eff_input KNamePolars i) sub); try assumption.
  - cbn. now apply pcol_guard_frame.
  - cbn. now apply polars_modelled_frame.
Qed.

(* all eleven entry points on the argument the harness really passes (dict(rows) / the frame) *)
Definition byname_hyps_raw (k : kind) (i : input) : Prop :=
  (exists sub, subtree_at (i_tree i) (i_start i) = Some sub)
  /\ (is_frame k = true -> pcol_guard (i_pcol i) (i_rows i))
  /\ (k = KNamePolars -> polars_modelled (i_rows i) = true).

Theorem model_satisfies_all_eff k i c :
  i_sep i = [c] -> attrs_wf (i_tree i) -> (i_dup i = true \/ exists c2, i_tsep i = [c2]) ->
  (is_byname k = true -> byname_hyps_raw k i) ->
  prop_C05 k (eff_input k i) (run k (eff_input k i)) = true.
Proof.
  intros Hsep Hwf Hts Hbn. destruct (eff_input_fields k i) as (E1 & E2 & E3 & E4 & E5 & E6).
  apply (model_satisfies_all k (eff_input k i) c).
  - now rewrite E1.
  - now rewrite E3.
  - now rewrite E2, E4.
  - intros Hk. destruct (Hbn Hk) as (Hsub & Hf & Hp). unfold byname_hyps. rewrite E3, E5, E6.
    split; [exact Hsub|]. split; [|split].
    + intros ->. cbn. apply dict_of_rows_keys.
    + intros Hfr. destruct k; try discriminate; cbn; apply pcol_guard_frame; now apply Hf.
    + intros ->. cbn. apply polars_modelled_frame. now apply Hp.
Qed.
