(* Proofs that the model of the iterators (Algo/Iter.v) meets the algorithm-independent
   specification Spec/PC04.v. *)
From BT Require Import Base.Prelude Base.Rose Spec.PC04 Algo.Iter.
From Coq Require Import Permutation.

(* ------------------------------------------------------------------------------------------ *)
(* lists *)

Lemma filter_flat_map {A B} (p : B -> bool) (g : A -> list B) l :
  filter p (flat_map g l) = flat_map (fun x => filter p (g x)) l.
Proof.
  induction l as [|x l IH]; [reflexivity|]. cbn [flat_map]. rewrite filter_app, IH. reflexivity.
Qed.

Lemma map_flat_map {A B C} (h : B -> C) (g : A -> list B) l :
  map h (flat_map g l) = flat_map (fun x => map h (g x)) l.
Proof.
  induction l as [|x l IH]; [reflexivity|]. cbn [flat_map]. rewrite map_app, IH. reflexivity.
Qed.

Lemma flat_map_flat_map {A B C} (h : B -> list C) (g : A -> list B) l :
  flat_map h (flat_map g l) = flat_map (fun x => flat_map h (g x)) l.
Proof.
  induction l as [|x l IH]; [reflexivity|]. cbn [flat_map]. rewrite flat_map_app, IH. reflexivity.
Qed.

Lemma flat_map_Forall_ext {A B} (f g : A -> list B) l :
  Forall (fun x => f x = g x) l -> flat_map f l = flat_map g l.
Proof.
  induction 1 as [|x l Hx Hl IH]; [reflexivity|]. cbn [flat_map]. rewrite Hx, IH. reflexivity.
Qed.

Lemma flat_map_all_nil {A B} (g : A -> list B) l :
  (forall x, In x l -> g x = []) -> flat_map g l = [].
Proof.
  induction l as [|x l IH]; intros H; [reflexivity|]. cbn [flat_map].
  rewrite (H x (or_introl eq_refl)), IH; [reflexivity|]. intros y Hy. apply H. right. exact Hy.
Qed.

Lemma filter_map_swap {A B} (p : B -> bool) (h : A -> B) l :
  filter p (map h l) = map h (filter (fun x => p (h x)) l).
Proof.
  induction l as [|x l IH]; [reflexivity|]. cbn [map filter]. rewrite IH. destruct (p (h x)); reflexivity.
Qed.

Lemma filter_guard {A} (g : bool) (q : A -> bool) l :
  filter (fun x => g && q x) l = if g then filter q l else [].
Proof.
  destruct g; cbn [andb].
  - apply filter_ext. reflexivity.
  - induction l as [|x l IH]; [reflexivity|exact IH].
Qed.

Lemma filter_false {A} (l : list A) : filter (fun _ => false) l = [].
Proof. induction l as [|x l IH]; [reflexivity|exact IH]. Qed.

Lemma filter_filter {A} (p q : A -> bool) l : filter p (filter q l) = filter (fun x => q x && p x) l.
Proof.
  induction l as [|x l IH]; [reflexivity|]. cbn [filter]. destruct (q x); cbn [filter andb]; rewrite IH; reflexivity.
Qed.

Lemma flat_map_seq_shift {A} (g : nat -> list A) len : forall n,
  flat_map g (seq (S n) len) = flat_map (fun k => g (S k)) (seq n len).
Proof.
  induction len as [|len IH]; intros n; [reflexivity|]. cbn [seq flat_map]. rewrite IH. reflexivity.
Qed.

Lemma flat_map_rev_rev {A B} (g : A -> list B) l :
  flat_map (fun x => rev (g x)) (rev l) = rev (flat_map g l).
Proof.
  induction l as [|x l IH]; [reflexivity|]. cbn [rev flat_map].
  rewrite flat_map_app, IH, rev_app_distr. cbn [flat_map]. rewrite app_nil_r. reflexivity.
Qed.

Lemma filter_rev' {A} (p : A -> bool) l : filter p (rev l) = rev (filter p l).
Proof.
  induction l as [|x l IH]; [reflexivity|]. cbn [rev filter]. rewrite filter_app, IH. cbn [filter].
  destruct (p x); cbn [rev]; [reflexivity|rewrite app_nil_r; reflexivity].
Qed.

Lemma orient_nil {A} rv : orient rv (@nil A) = []. Proof. destruct rv; reflexivity. Qed.
Lemma filter_orient {A} (p : A -> bool) rv l : filter p (orient rv l) = orient rv (filter p l).
Proof. destruct rv; [apply filter_rev'|reflexivity]. Qed.
Lemma orient_orient_neg {A} rv (l : list A) : rev (orient rv l) = orient (negb rv) l.
Proof. destruct rv; cbn [orient negb]; [apply rev_involutive|reflexivity]. Qed.

(* ------------------------------------------------------------------------------------------ *)
(* depth tests *)

Lemma within_depth_ok m d : within m d = depth_ok m d.
Proof. unfold within, depth_ok. rewrite <- Nat.leb_antisym. reflexivity. Qed.

Lemma depth_ok_mono m d d' : d <= d' -> depth_ok m d' = true -> depth_ok m d = true.
Proof.
  unfold depth_ok. intros Hle H. apply orb_true_iff in H as [H|H]; apply orb_true_iff; [left; exact H|right].
  apply negb_true_iff, Nat.ltb_ge in H. apply negb_true_iff, Nat.ltb_ge. lia.
Qed.

Lemma depth_ok_false_mono m d d' : d <= d' -> depth_ok m d = false -> depth_ok m d' = false.
Proof.
  intros Hle H. destruct (depth_ok m d') eqn:E; [|reflexivity].
  rewrite (depth_ok_mono m d d' Hle E) in H. discriminate.
Qed.

(* ------------------------------------------------------------------------------------------ *)
(* heights *)

Lemma height_kid g n a ks k : In k ks -> height k < height (T g n a ks).
Proof.
  intros Hin. cbn [height]. apply Nat.lt_succ_r.
  induction ks as [|x ks IH]; [contradiction|]. cbn [fold_right]. destruct Hin as [->|Hin]; [lia|].
  specialize (IH Hin). lia.
Qed.

Section RoseProofs.
  Variables (filt stop : tree -> bool) (m : nat).

  Notation gate := (gate stop m).
  Notation visible := (visible stop m).
  Notation wanted := (wanted filt stop m).

  (* ---------------------------------------------------------------------------------------- *)
  (* visibility along routes *)

  Lemma visible_root d t : visible d ([], t) = gate d t.
  Proof.
    unfold PC04.visible, Iter.gate, rlevel. cbn [fst snd forallb length].
    rewrite Nat.add_0_r, within_depth_ok. cbn [andb]. apply andb_comm.
  Qed.

  Lemma visible_under d t r : visible d (under t r) = gate d t && visible (S d) r.
  Proof.
    destruct r as [a n]. unfold PC04.visible, Iter.gate, under, rlevel. cbn [fst snd forallb length].
    rewrite !within_depth_ok, Nat.add_succ_r. cbn [Nat.add].
    destruct (depth_ok m (S (d + length a))) eqn:W.
    - rewrite (depth_ok_mono m d (S (d + length a))) by (lia || exact W).
      destruct (stop t), (forallb (fun x => negb (stop x)) a), (stop n); reflexivity.
    - rewrite !andb_false_r. reflexivity.
  Qed.

  Lemma wanted_under d t r : wanted d (under t r) = gate d t && wanted (S d) r.
  Proof. unfold PC04.wanted. rewrite visible_under. destruct r; cbn [under snd]. rewrite andb_assoc. reflexivity. Qed.

  Lemma sel_under (p q : route -> bool) (g : bool) t L :
    (forall r, p (under t r) = g && q r) ->
    map snd (filter p (map (under t) L)) = if g then map snd (filter q L) else [].
  Proof.
    intros H. rewrite filter_map_swap, map_map.
    rewrite (filter_ext _ (fun r => g && q r) H), filter_guard.
    destruct g; [|reflexivity]. apply map_ext. intros [a n]. reflexivity.
  Qed.

  (* ---------------------------------------------------------------------------------------- *)
  (* pre-order, post-order *)

  Lemma spec_pre_unfold d g n a ks :
    spec_pre filt stop m d (T g n a ks) =
    let t := T g n a ks in
    if gate d t then yield filt t ++ flat_map (spec_pre filt stop m (S d)) ks else [].
  Proof.
    cbv zeta. unfold spec_pre at 1. cbn [routes filter].
    unfold PC04.wanted at 1. rewrite visible_root. cbn [snd].
    change (fun r => PC04.visible stop m d r && filt (snd r)) with (wanted d).
    destruct (gate d (T g n a ks)) eqn:G; cbn [andb].
    - assert (E : map snd (filter (wanted d) (map (under (T g n a ks)) (flat_map routes ks)))
                  = flat_map (spec_pre filt stop m (S d)) ks).
      { rewrite (sel_under _ (wanted (S d)) true) by (intros r; rewrite wanted_under, G; reflexivity).
        rewrite filter_flat_map, map_flat_map. reflexivity. }
      unfold yield. destruct (filt (T g n a ks)); cbn [map app]; rewrite E; reflexivity.
    - rewrite (sel_under _ (wanted (S d)) false) by (intros r; rewrite wanted_under, G; reflexivity).
      reflexivity.
  Qed.

  Theorem preorder_spec t : forall d, preorder filt stop m d t = spec_pre filt stop m d t.
  Proof.
    induction t as [g n a ks IH] using tree_ind'. intros d.
    rewrite spec_pre_unfold. cbv zeta. cbn [preorder].
    destruct (gate d (T g n a ks)); [|reflexivity]. f_equal.
    apply flat_map_Forall_ext. eapply Forall_impl; [|exact IH]. intros k Hk. apply Hk.
  Qed.

  Lemma spec_post_unfold d g n a ks :
    spec_post filt stop m d (T g n a ks) =
    let t := T g n a ks in
    if gate d t then flat_map (spec_post filt stop m (S d)) ks ++ yield filt t else [].
  Proof.
    cbv zeta. unfold spec_post at 1. cbn [routes_post]. rewrite filter_app, map_app. cbn [filter].
    unfold PC04.wanted at 2. rewrite visible_root. cbn [snd].
    change (fun r => PC04.visible stop m d r && filt (snd r)) with (wanted d).
    destruct (gate d (T g n a ks)) eqn:G; cbn [andb].
    - rewrite (sel_under _ (wanted (S d)) true) by (intros r; rewrite wanted_under, G; reflexivity).
      rewrite filter_flat_map, map_flat_map. unfold yield.
      destruct (filt (T g n a ks)); reflexivity.
    - rewrite (sel_under _ (wanted (S d)) false) by (intros r; rewrite wanted_under, G; reflexivity).
      reflexivity.
  Qed.

  Theorem postorder_spec t : forall d, postorder filt stop m d t = spec_post filt stop m d t.
  Proof.
    induction t as [g n a ks IH] using tree_ind'. intros d.
    rewrite spec_post_unfold. cbv zeta. cbn [postorder].
    destruct (gate d (T g n a ks)); [|reflexivity]. f_equal.
    apply flat_map_Forall_ext. eapply Forall_impl; [|exact IH]. intros k Hk. apply Hk.
  Qed.


  (* ---------------------------------------------------------------------------------------- *)
  (* levels of the tree cut at closed nodes (auxiliary; tied to vis_level by vlevel_routes) *)

  Fixpoint vlevel (k d : nat) (t : tree) : list tree :=
    if gate d t
    then match k with 0 => [t] | S k' => flat_map (vlevel k' (S d)) (tkids t) end
    else [].
  Definition vlevels k d fr := flat_map (vlevel k d) fr.

  Lemma vis_level_unfold d k g n a ks :
    vis_level stop m d k (T g n a ks) =
    (if Nat.eqb 0 k && gate d (T g n a ks) then [T g n a ks] else []) ++
    map snd (filter (fun r => Nat.eqb (rlevel r) k && visible d r)
                    (map (under (T g n a ks)) (flat_map routes ks))).
  Proof.
    unfold vis_level.
    change (routes (T g n a ks)) with (([], T g n a ks) :: map (under (T g n a ks)) (flat_map routes ks)).
    cbn [filter]. change (rlevel ([], T g n a ks)) with 0. rewrite visible_root.
    destruct (Nat.eqb 0 k && gate d (T g n a ks)); reflexivity.
  Qed.

  Lemma vlevel_routes t : forall k d, vlevel k d t = vis_level stop m d k t.
  Proof.
    induction t as [g n a ks IH] using tree_ind'. intros k d.
    rewrite vis_level_unfold.
    destruct k as [|k'].
    - cbn [Nat.eqb andb vlevel].
      rewrite (sel_under _ (fun _ => true) false)
        by (intros [a' n']; unfold rlevel, under; cbn [fst length Nat.eqb]; reflexivity).
      destruct (gate d (T g n a ks)); reflexivity.
    - cbn [Nat.eqb andb vlevel tkids app].
      rewrite (sel_under _ (fun r => Nat.eqb (rlevel r) k' && visible (S d) r) (gate d (T g n a ks))).
      2:{ intros [a' n']. rewrite visible_under. unfold rlevel, under. cbn [fst length Nat.eqb].
          destruct (Nat.eqb (length a') k'), (gate d (T g n a ks)); reflexivity. }
      destruct (gate d (T g n a ks)); [|reflexivity].
      rewrite filter_flat_map, map_flat_map.
      apply flat_map_Forall_ext. eapply Forall_impl; [|exact IH]. intros x Hx. apply Hx.
  Qed.

  Lemma vlevels_S k d fr :
    vlevels (S k) d fr = vlevels k (S d) (flat_map tkids (filter (gate d) fr)).
  Proof.
    unfold vlevels. induction fr as [|t fr IH]; [reflexivity|].
    cbn [flat_map filter]. destruct (gate d t) eqn:G.
    - cbn [flat_map]. rewrite flat_map_app, <- IH. cbn [vlevel]. rewrite G. reflexivity.
    - rewrite <- IH. cbn [vlevel]. rewrite G. reflexivity.
  Qed.

  Lemma vlevels_0 d fr : vlevels 0 d fr = filter (gate d) fr.
  Proof.
    unfold vlevels. induction fr as [|t fr IH]; [reflexivity|].
    change (flat_map (vlevel 0 d) (t :: fr)) with (vlevel 0 d t ++ flat_map (vlevel 0 d) fr).
    rewrite IH. cbn [vlevel filter]. destruct (gate d t); reflexivity.
  Qed.

  Lemma vlevels_nil k d : vlevels k d [] = []. Proof. reflexivity. Qed.
  Lemma vlevels_single k d t : vlevels k d [t] = vlevel k d t.
  Proof. unfold vlevels. cbn [flat_map]. apply app_nil_r. Qed.

  Lemma height_pos t : 1 <= height t. Proof. destruct t; cbn [height]; lia. Qed.

  Lemma vlevel_height t : forall k d, height t <= k -> vlevel k d t = [].
  Proof.
    induction t as [g n a ks IH] using tree_ind'. intros k d Hk.
    destruct k as [|k']; [pose proof (height_pos (T g n a ks)); lia|].
    cbn [vlevel tkids]. destruct (gate d (T g n a ks)); [|reflexivity].
    apply flat_map_all_nil. intros x Hx. rewrite Forall_forall in IH. apply (IH x Hx).
    pose proof (height_kid g n a ks x Hx). lia.
  Qed.

  Lemma kids_vlevel_height t : forall j d, height t <= S j -> flat_map tkids (vlevel j d t) = [].
  Proof.
    induction t as [g n a ks IH] using tree_ind'. intros j d Hj.
    destruct j as [|j'].
    - cbn [vlevel]. destruct (gate d (T g n a ks)); [|reflexivity].
      destruct ks as [|x ks]; [reflexivity|].
      pose proof (height_kid g n a (x :: ks) x (or_introl eq_refl)). pose proof (height_pos x). lia.
    - cbn [vlevel tkids]. destruct (gate d (T g n a ks)); [|reflexivity].
      rewrite flat_map_flat_map. apply flat_map_all_nil. intros x Hx.
      rewrite Forall_forall in IH. apply (IH x Hx).
      pose proof (height_kid g n a ks x Hx). lia.
  Qed.

  (* ---------------------------------------------------------------------------------------- *)
  (* the shared loop *)

  Lemma scan_eq rv d fr :
    scan filt stop m rv d fr =
    (filter filt (filter (gate d) fr), flat_map (fun t => orient rv (tkids t)) (filter (gate d) fr)).
  Proof.
    induction fr as [|t fr IH]; [reflexivity|]. cbn [scan]. rewrite IH. cbn [filter].
    destruct (gate d t); [|reflexivity]. cbn [filter flat_map]. unfold yield.
    destruct (filt t); reflexivity.
  Qed.

  Definition kids_of (fr : list tree) : list tree := flat_map tkids fr.

  Lemma scan_next_orient rv d F :
    flat_map (fun t => orient rv (tkids t)) (filter (gate d) (orient rv F))
    = orient rv (kids_of (filter (gate d) F)).
  Proof.
    destruct rv; cbn [orient]; [|reflexivity].
    rewrite filter_rev'. apply flat_map_rev_rev.
  Qed.

  Lemma nilb_rev {A} (l : list A) : nilb (rev l) = nilb l.
  Proof. destruct l as [|x l]; [reflexivity|]. cbn [rev]. destruct (rev l); reflexivity. Qed.
  Lemma nilb_orient {A} rv (l : list A) : nilb (orient rv l) = nilb l.
  Proof. destruct rv; [apply nilb_rev|reflexivity]. Qed.
  Lemma nilb_true {A} (l : list A) : nilb l = true -> l = [].
  Proof. destruct l; [reflexivity|discriminate]. Qed.

  Lemma lo_S f d fr :
    lo filt stop m (S f) d fr =
    filter filt (filter (gate d) fr) ++
    (if nilb (kids_of (filter (gate d) fr)) then [] else lo filt stop m f (S d) (kids_of (filter (gate d) fr))).
  Proof.
    cbn [lo]. rewrite scan_eq. cbn [orient].
    change (flat_map (fun t : tree => tkids t) (filter (gate d) fr)) with (kids_of (filter (gate d) fr)).
    destruct (kids_of (filter (gate d) fr)); reflexivity.
  Qed.

  Lemma zz_S f d rv F :
    zz filt stop m (S f) d rv (orient rv F) =
    filter filt (orient rv (filter (gate d) F)) ++
    (if nilb (kids_of (filter (gate d) F)) then []
     else zz filt stop m f (S d) (negb rv) (orient (negb rv) (kids_of (filter (gate d) F)))).
  Proof.
    cbn [zz]. rewrite scan_eq, scan_next_orient, filter_orient.
    rewrite <- (nilb_orient rv (kids_of (filter (gate d) F))), <- orient_orient_neg.
    destruct (orient rv (kids_of (filter (gate d) F))); reflexivity.
  Qed.

  Lemma log_S f d fr :
    log filt stop m (S f) d fr =
    filter filt (filter (gate d) fr) ::
    (if negb (nilb (kids_of (filter (gate d) fr))) && depth_ok m (S d)
     then log filt stop m f (S d) (kids_of (filter (gate d) fr)) else []).
  Proof.
    cbn [log]. rewrite scan_eq. cbn [orient].
    change (flat_map (fun t : tree => tkids t) (filter (gate d) fr)) with (kids_of (filter (gate d) fr)).
    destruct (kids_of (filter (gate d) fr)); reflexivity.
  Qed.

  Lemma zzg_S f d rv F :
    zzg filt stop m (S f) d rv (orient rv F) =
    filter filt (orient rv (filter (gate d) F)) ::
    (if negb (nilb (kids_of (filter (gate d) F))) && depth_ok m (S d)
     then zzg filt stop m f (S d) (negb rv) (orient (negb rv) (kids_of (filter (gate d) F))) else []).
  Proof.
    cbn [zzg]. rewrite scan_eq, scan_next_orient, filter_orient.
    rewrite <- (nilb_orient rv (kids_of (filter (gate d) F))), <- orient_orient_neg.
    destruct (orient rv (kids_of (filter (gate d) F))); reflexivity.
  Qed.

  (* ---------------------------------------------------------------------------------------- *)
  (* level-order and zigzag, any fuel *)

  Lemma flat_map_nils {A} (g : nat -> list A) (l : list nat) :
    (forall k, g k = []) -> flat_map g l = [].
  Proof. intros H. apply flat_map_all_nil. intros x _. apply H. Qed.

  Theorem lo_spec fuel : forall d fr,
    lo filt stop m fuel d fr = filter filt (flat_map (fun k => vlevels k d fr) (seq 0 fuel)).
  Proof.
    induction fuel as [|f IH]; intros d fr; [reflexivity|].
    rewrite lo_S. cbn [seq flat_map]. rewrite filter_app, vlevels_0. f_equal.
    rewrite flat_map_seq_shift.
    rewrite (flat_map_ext _ _ (fun k => vlevels_S k d fr)). fold (kids_of (filter (gate d) fr)).
    destruct (nilb (kids_of (filter (gate d) fr))) eqn:E.
    - apply nilb_true in E. rewrite E. rewrite flat_map_nils by (intros k; apply vlevels_nil). reflexivity.
    - apply IH.
  Qed.

  Lemma xorb_odd_S rv k : xorb rv (Nat.odd (S k)) = xorb (negb rv) (Nat.odd k).
  Proof. rewrite Nat.odd_succ, <- Nat.negb_odd. destruct rv, (Nat.odd k); reflexivity. Qed.

  Theorem zz_spec fuel : forall d rv F,
    zz filt stop m fuel d rv (orient rv F) =
    filter filt (flat_map (fun k => orient (xorb rv (Nat.odd k)) (vlevels k d F)) (seq 0 fuel)).
  Proof.
    induction fuel as [|f IH]; intros d rv F; [reflexivity|].
    rewrite zz_S. cbn [seq flat_map]. rewrite filter_app, vlevels_0.
    change (Nat.odd 0) with false. rewrite xorb_false_r. f_equal.
    rewrite flat_map_seq_shift.
    rewrite (flat_map_ext _ (fun k => orient (xorb (negb rv) (Nat.odd k))
                                          (vlevels k (S d) (kids_of (filter (gate d) F)))))
      by (intros k; rewrite xorb_odd_S, vlevels_S; reflexivity).
    destruct (nilb (kids_of (filter (gate d) F))) eqn:E.
    - apply nilb_true in E. rewrite E.
      rewrite flat_map_nils by (intros k; rewrite vlevels_nil; apply orient_nil). reflexivity.
    - apply IH.
  Qed.

  (* ---------------------------------------------------------------------------------------- *)
  (* grouped variants, any fuel *)

  Definition reachF (d : nat) (F : list tree) (k : nat) : bool :=
    match k with
    | 0 => true
    | S j => depth_ok m (d + k) && negb (nilb (kids_of (vlevels j d F)))
    end.

  Lemma reach_shift d F f :
    filter (reachF d F) (seq 1 f) =
    if negb (nilb (kids_of (filter (gate d) F))) && depth_ok m (S d)
    then map S (filter (reachF (S d) (kids_of (filter (gate d) F))) (seq 0 f)) else [].
  Proof.
    rewrite <- seq_shift, filter_map_swap.
    destruct (negb (nilb (kids_of (filter (gate d) F))) && depth_ok m (S d)) eqn:E.
    - f_equal. apply filter_ext. intros k. apply andb_true_iff in E as [E1 E2].
      destruct k as [|i].
      + cbn [reachF]. rewrite vlevels_0, Nat.add_1_r, E1, E2. reflexivity.
      + cbn [reachF]. rewrite vlevels_S. rewrite Nat.add_succ_r. reflexivity.
    - rewrite (filter_ext _ (fun _ => false)); [rewrite filter_false; reflexivity|].
      intros k. cbn [reachF]. apply andb_false_iff in E as [E|E].
      + apply negb_false_iff, nilb_true in E. apply andb_false_iff. right. apply negb_false_iff.
        destruct k as [|i]; [rewrite vlevels_0; unfold kids_of in *; rewrite E; reflexivity|].
        rewrite vlevels_S. unfold kids_of in *. rewrite E. reflexivity.
      + apply andb_false_iff. left. apply (depth_ok_false_mono m (S d)); [lia|exact E].
  Qed.

  Theorem log_spec fuel : forall d F,
    log filt stop m fuel d F =
    map (fun k => filter filt (vlevels k d F)) (filter (reachF d F) (seq 0 fuel)).
  Proof.
    induction fuel as [|f IH]; intros d F; [reflexivity|].
    rewrite log_S. cbn [seq filter reachF map]. rewrite vlevels_0. f_equal.
    rewrite reach_shift.
    destruct (negb (nilb (kids_of (filter (gate d) F))) && depth_ok m (S d)); [|reflexivity].
    rewrite map_map, IH. apply map_ext. intros k. rewrite vlevels_S. reflexivity.
  Qed.

  Theorem zzg_spec fuel : forall d rv F,
    zzg filt stop m fuel d rv (orient rv F) =
    map (fun k => filter filt (orient (xorb rv (Nat.odd k)) (vlevels k d F)))
        (filter (reachF d F) (seq 0 fuel)).
  Proof.
    induction fuel as [|f IH]; intros d rv F; [reflexivity|].
    rewrite zzg_S. cbn [seq filter reachF map]. rewrite vlevels_0.
    change (Nat.odd 0) with false. rewrite xorb_false_r. f_equal.
    rewrite reach_shift.
    destruct (negb (nilb (kids_of (filter (gate d) F))) && depth_ok m (S d)); [|reflexivity].
    rewrite map_map, IH. apply map_ext. intros k. rewrite xorb_odd_S, vlevels_S. reflexivity.
  Qed.

  (* the grouped variants flatten to the ungrouped ones, any fuel, any frontier *)
  Lemma lo_closed fuel : forall d fr, depth_ok m d = false -> lo filt stop m fuel d fr = [].
  Proof.
    destruct fuel as [|f]; intros d fr H; [reflexivity|]. rewrite lo_S.
    assert (E : filter (gate d) fr = []).
    { rewrite (filter_ext _ (fun _ => false)); [apply filter_false|].
      intros t. unfold Iter.gate. rewrite H. reflexivity. }
    rewrite E. reflexivity.
  Qed.

  Lemma zz_closed fuel : forall d rv F, depth_ok m d = false -> zz filt stop m fuel d rv (orient rv F) = [].
  Proof.
    destruct fuel as [|f]; intros d rv F H; [reflexivity|]. rewrite zz_S.
    assert (E : filter (gate d) F = []).
    { rewrite (filter_ext _ (fun _ => false)); [apply filter_false|].
      intros t. unfold Iter.gate. rewrite H. reflexivity. }
    rewrite E, orient_nil. reflexivity.
  Qed.

  Theorem log_flatten fuel : forall d fr,
    concat (log filt stop m fuel d fr) = lo filt stop m fuel d fr.
  Proof.
    induction fuel as [|f IH]; intros d fr; [reflexivity|].
    rewrite log_S, lo_S. cbn [concat]. f_equal.
    destruct (nilb (kids_of (filter (gate d) fr))); cbn [negb andb]; [reflexivity|].
    destruct (depth_ok m (S d)) eqn:D; [apply IH|].
    rewrite lo_closed by exact D. reflexivity.
  Qed.

  Theorem zzg_flatten fuel : forall d rv F,
    concat (zzg filt stop m fuel d rv (orient rv F)) = zz filt stop m fuel d rv (orient rv F).
  Proof.
    induction fuel as [|f IH]; intros d rv F; [reflexivity|].
    rewrite zzg_S, zz_S. cbn [concat]. f_equal.
    destruct (nilb (kids_of (filter (gate d) F))); cbn [negb andb]; [reflexivity|].
    destruct (depth_ok m (S d)) eqn:D; [apply IH|].
    rewrite zz_closed by exact D. reflexivity.
  Qed.


  (* ---------------------------------------------------------------------------------------- *)
  (* entry points: the result does not depend on the fuel once it covers the height *)

  Lemma flat_map_seq_trunc {A} (g : nat -> list A) h fuel :
    (forall k, h <= k -> g k = []) -> h <= fuel ->
    flat_map g (seq 0 fuel) = flat_map g (seq 0 h).
  Proof.
    intros Hg Hle. replace fuel with (h + (fuel - h)) by lia.
    rewrite seq_app, flat_map_app. cbn [Nat.add].
    rewrite (flat_map_all_nil g (seq h (fuel - h))); [apply app_nil_r|].
    intros k Hk. apply in_seq in Hk. apply Hg. lia.
  Qed.

  Lemma filter_seq_trunc (p : nat -> bool) h fuel :
    (forall k, h <= k -> p k = false) -> h <= fuel ->
    filter p (seq 0 fuel) = filter p (seq 0 h).
  Proof.
    intros Hp Hle. replace fuel with (h + (fuel - h)) by lia.
    rewrite seq_app, filter_app. cbn [Nat.add].
    assert (E : filter p (seq h (fuel - h)) = []).
    { generalize (fuel - h) as len. intros len.
      assert (G : forall k, In k (seq h len) -> p k = false) by (intros k Hk; apply in_seq in Hk; apply Hp; lia).
      induction (seq h len) as [|x l IH]; [reflexivity|]. cbn [filter].
      rewrite (G x (or_introl eq_refl)). apply IH. intros k Hk. apply G. right. exact Hk. }
    rewrite E. apply app_nil_r.
  Qed.

  Theorem lo_fuel fuel d t : height t <= fuel ->
    lo filt stop m fuel d [t] = spec_levelorder filt stop m d t.
  Proof.
    intros Hle. rewrite lo_spec. unfold spec_levelorder. f_equal.
    rewrite (flat_map_seq_trunc _ (height t) fuel).
    - apply flat_map_ext. intros k. rewrite vlevels_single. apply vlevel_routes.
    - intros k Hk. rewrite vlevels_single. apply vlevel_height. exact Hk.
    - exact Hle.
  Qed.

  Theorem zz_fuel fuel d t : height t <= fuel ->
    zz filt stop m fuel d false [t] = spec_zigzag filt stop m d t.
  Proof.
    intros Hle. change [t] with (orient false [t]). rewrite zz_spec. unfold spec_zigzag. f_equal.
    rewrite (flat_map_seq_trunc _ (height t) fuel).
    - apply flat_map_ext. intros k. rewrite vlevels_single, vlevel_routes, xorb_false_l. reflexivity.
    - intros k Hk. rewrite vlevels_single, vlevel_height by exact Hk. apply orient_nil.
    - exact Hle.
  Qed.

  Lemma reachF_reached d t k : reachF d [t] k = reached stop m d t k.
  Proof.
    destruct k as [|j]; [reflexivity|]. cbn [reachF reached].
    rewrite within_depth_ok, vlevels_single, vlevel_routes. reflexivity.
  Qed.

  Lemma reachF_height d t k : height t <= k -> reachF d [t] k = false.
  Proof.
    intros Hk. destruct k as [|j]; [pose proof (height_pos t); lia|]. cbn [reachF].
    rewrite vlevels_single. unfold kids_of. rewrite kids_vlevel_height by exact Hk.
    apply andb_false_r.
  Qed.

  Theorem log_fuel fuel d t : height t <= fuel ->
    log filt stop m fuel d [t] = spec_levelordergroup filt stop m d t.
  Proof.
    intros Hle. rewrite log_spec. unfold spec_levelordergroup, group_levels.
    rewrite (filter_seq_trunc _ (height t) fuel (reachF_height d t) Hle).
    rewrite (filter_ext _ _ (reachF_reached d t)).
    apply map_ext. intros k. rewrite vlevels_single, vlevel_routes. reflexivity.
  Qed.

  Theorem zzg_fuel fuel d t : height t <= fuel ->
    zzg filt stop m fuel d false [t] = spec_zigzaggroup filt stop m d t.
  Proof.
    intros Hle. change [t] with (orient false [t]). rewrite zzg_spec.
    unfold spec_zigzaggroup, group_levels.
    rewrite (filter_seq_trunc _ (height t) fuel (reachF_height d t) Hle).
    rewrite (filter_ext _ _ (reachF_reached d t)).
    apply map_ext. intros k. rewrite vlevels_single, vlevel_routes, xorb_false_l. reflexivity.
  Qed.

  Theorem levelorder_spec d t : levelorder filt stop m d t = spec_levelorder filt stop m d t.
  Proof. apply lo_fuel. lia. Qed.
  Theorem zigzag_spec d t : zigzag filt stop m d t = spec_zigzag filt stop m d t.
  Proof. apply zz_fuel. lia. Qed.
  Theorem levelordergroup_spec d t : levelordergroup filt stop m d t = spec_levelordergroup filt stop m d t.
  Proof. apply log_fuel. lia. Qed.
  Theorem zigzaggroup_spec d t : zigzaggroup filt stop m d t = spec_zigzaggroup filt stop m d t.
  Proof. apply zzg_fuel. lia. Qed.

  Theorem levelordergroup_flatten d t :
    concat (levelordergroup filt stop m d t) = levelorder filt stop m d t.
  Proof. apply log_flatten. Qed.
  Theorem zigzaggroup_flatten d t :
    concat (zigzaggroup filt stop m d t) = zigzag filt stop m d t.
  Proof. apply (zzg_flatten (S (height t)) d false [t]). Qed.

  Theorem group_count d t :
    length (levelordergroup filt stop m d t) = length (group_levels stop m d t)
    /\ length (zigzaggroup filt stop m d t) = length (group_levels stop m d t).
  Proof.
    rewrite levelordergroup_spec, zigzaggroup_spec. unfold spec_levelordergroup, spec_zigzaggroup.
    rewrite !map_length. split; reflexivity.
  Qed.


  (* ---------------------------------------------------------------------------------------- *)
  (* the groups are the levels 0 .. G-1: `reached` is downward closed *)

  Lemma vlevels_S_kids j : forall d F,
    vlevels (S j) d F = filter (gate (d + S j)) (kids_of (vlevels j d F)).
  Proof.
    induction j as [|j IH]; intros d F.
    - rewrite vlevels_S, !vlevels_0, Nat.add_1_r. reflexivity.
    - rewrite vlevels_S, IH, <- vlevels_S. replace (S d + S j) with (d + S (S j)) by lia. reflexivity.
  Qed.

  Lemma reachF_down d F k : reachF d F (S k) = true -> reachF d F k = true.
  Proof.
    destruct k as [|j]; [reflexivity|]. cbn [reachF]. intros H.
    apply andb_true_iff in H as [H1 H2]. apply andb_true_iff. split.
    - apply (depth_ok_mono m _ (d + S (S j))); [lia|exact H1].
    - rewrite vlevels_S_kids in H2.
      destruct (kids_of (vlevels j d F)); [discriminate H2|reflexivity].
  Qed.

  Lemma filter_down_prefix (p : nat -> bool) :
    (forall k, p (S k) = true -> p k = true) ->
    forall h, filter p (seq 0 h) = seq 0 (length (filter p (seq 0 h))).
  Proof.
    intros Hd.
    assert (Hall : forall h, p h = true -> forall k, k <= h -> p k = true).
    { induction h as [|h IH]; intros Hp k Hk.
      - replace k with 0 by lia. exact Hp.
      - destruct (Nat.eq_dec k (S h)) as [->|Hne]; [exact Hp|]. apply IH; [apply Hd; exact Hp|lia]. }
    induction h as [|h IH]; [reflexivity|].
    rewrite seq_S, filter_app. cbn [Nat.add filter].
    destruct (p h) eqn:Ph.
    - assert (E : filter p (seq 0 h) = seq 0 h).
      { clear IH. assert (G : forall k, In k (seq 0 h) -> p k = true)
          by (intros k Hk; apply in_seq in Hk; apply (Hall h Ph); lia).
        induction (seq 0 h) as [|x l IHl]; [reflexivity|]. cbn [filter].
        rewrite (G x (or_introl eq_refl)). f_equal. apply IHl. intros k Hk. apply G. right. exact Hk. }
      rewrite E, app_length, seq_length. cbn [length]. rewrite Nat.add_1_r, seq_S. reflexivity.
    - rewrite app_nil_r. exact IH.
  Qed.

  Theorem group_levels_prefix d t :
    group_levels stop m d t = seq 0 (length (group_levels stop m d t)).
  Proof.
    unfold group_levels.
    rewrite <- (filter_ext _ _ (reachF_reached d t)).
    apply filter_down_prefix. intros k. apply reachF_down.
  Qed.

  (* ---------------------------------------------------------------------------------------- *)
  (* every visible node satisfying the filter exactly once *)

  Lemma routes_snd t : map snd (routes t) = pre t.
  Proof.
    induction t as [g n a ks IH] using tree_ind'. cbn [routes pre map snd]. f_equal.
    rewrite map_map. rewrite (map_ext (fun r => snd (under (T g n a ks) r)) snd) by (intros [x y]; reflexivity).
    rewrite map_flat_map. apply flat_map_Forall_ext. exact IH.
  Qed.

  Lemma Permutation_flat_map_Forall {A B} (f g : A -> list B) l :
    Forall (fun x => Permutation (f x) (g x)) l -> Permutation (flat_map f l) (flat_map g l).
  Proof.
    induction 1 as [|x l Hx Hl IH]; [constructor|]. cbn [flat_map]. apply Permutation_app; assumption.
  Qed.

  Lemma Permutation_filter' {A} (p : A -> bool) l l' :
    Permutation l l' -> Permutation (filter p l) (filter p l').
  Proof.
    induction 1 as [|x l l' H IH|x y l|l l' l'' H1 IH1 H2 IH2].
    - constructor.
    - cbn [filter]. destruct (p x); [constructor|]; exact IH.
    - cbn [filter]. destruct (p x), (p y); try apply Permutation_refl. constructor.
    - eapply Permutation_trans; eassumption.
  Qed.

  Lemma routes_post_perm t : Permutation (routes_post t) (routes t).
  Proof.
    induction t as [g n a ks IH] using tree_ind'. cbn [routes routes_post].
    eapply Permutation_trans; [apply Permutation_sym, Permutation_cons_append|].
    constructor. apply Permutation_map. apply Permutation_flat_map_Forall. exact IH.
  Qed.

  Lemma routes_level_lt t : forall r, In r (routes t) -> rlevel r < height t.
  Proof.
    induction t as [g n a ks IH] using tree_ind'. intros r Hr. cbn [routes] in Hr.
    destruct Hr as [<-|Hr]; [apply (height_pos (T g n a ks))|].
    apply in_map_iff in Hr as [r' [<- Hr']]. apply in_flat_map in Hr' as [k [Hk Hr']].
    rewrite Forall_forall in IH. specialize (IH k Hk r' Hr').
    pose proof (height_kid g n a ks k Hk). unfold rlevel, under in *. cbn [fst length]. lia.
  Qed.

  Lemma single_bucket {A} (x : A) c len : forall a, a <= c < a + len ->
    flat_map (fun k => if Nat.eqb c k then [x] else []) (seq a len) = [x].
  Proof.
    induction len as [|len IH]; intros a Ha; [lia|]. cbn [seq flat_map].
    destruct (Nat.eqb c a) eqn:E.
    - apply Nat.eqb_eq in E. subst a. cbn [app]. f_equal.
      apply flat_map_all_nil. intros k Hk. apply in_seq in Hk.
      destruct (Nat.eqb c k) eqn:E2; [apply Nat.eqb_eq in E2; lia|reflexivity].
    - apply Nat.eqb_neq in E. cbn [app]. apply IH. lia.
  Qed.

  Lemma Permutation_flat_map_app {A B} (f g : A -> list B) l :
    Permutation (flat_map (fun k => f k ++ g k) l) (flat_map f l ++ flat_map g l).
  Proof.
    induction l as [|x l IH]; [constructor|]. cbn [flat_map].
    eapply Permutation_trans; [apply Permutation_app_head, IH|].
    rewrite <- !app_assoc. apply Permutation_app_head.
    rewrite !app_assoc. apply Permutation_app_tail. apply Permutation_app_comm.
  Qed.

  Lemma bucket_perm {A} (key : A -> nat) h (L : list A) :
    (forall x, In x L -> key x < h) ->
    Permutation (flat_map (fun k => filter (fun x => Nat.eqb (key x) k) L) (seq 0 h)) L.
  Proof.
    induction L as [|x L IH]; intros Hk.
    - rewrite flat_map_nils by reflexivity. constructor.
    - rewrite (flat_map_ext _ (fun k => (if Nat.eqb (key x) k then [x] else []) ++
                                        filter (fun y => Nat.eqb (key y) k) L)).
      2:{ intros k. cbn [filter]. destruct (Nat.eqb (key x) k); reflexivity. }
      eapply Permutation_trans; [apply Permutation_flat_map_app|].
      rewrite single_bucket by (pose proof (Hk x (or_introl eq_refl)); lia).
      cbn [app]. constructor. apply IH. intros y Hy. apply Hk. right. exact Hy.
  Qed.

  Lemma vis_levels_perm d t :
    Permutation (flat_map (fun k => vis_level stop m d k t) (seq 0 (height t)))
                (map snd (filter (visible d) (routes t))).
  Proof.
    unfold vis_level.
    rewrite (flat_map_ext _ (fun k => map snd (filter (fun r => Nat.eqb (rlevel r) k) (filter (visible d) (routes t))))).
    2:{ intros k. f_equal. rewrite filter_filter. apply filter_ext. intros r. apply andb_comm. }
    rewrite <- map_flat_map. apply Permutation_map. apply bucket_perm.
    intros r Hr. apply filter_In in Hr as [Hr _]. apply routes_level_lt. exact Hr.
  Qed.

  Lemma spec_pre_alt d t :
    spec_pre filt stop m d t = filter filt (map snd (filter (visible d) (routes t))).
  Proof.
    unfold spec_pre. rewrite filter_map_swap, filter_filter. reflexivity.
  Qed.

  Theorem spec_post_perm d t : Permutation (spec_post filt stop m d t) (spec_pre filt stop m d t).
  Proof.
    unfold spec_post, spec_pre. apply Permutation_map, Permutation_filter', routes_post_perm.
  Qed.

  Theorem spec_levelorder_perm d t :
    Permutation (spec_levelorder filt stop m d t) (spec_pre filt stop m d t).
  Proof.
    rewrite spec_pre_alt. unfold spec_levelorder. apply Permutation_filter', vis_levels_perm.
  Qed.

  Lemma Permutation_flat_map_pointwise {A B} (f g : A -> list B) l :
    (forall x, Permutation (f x) (g x)) -> Permutation (flat_map f l) (flat_map g l).
  Proof. intros H. apply Permutation_flat_map_Forall. apply Forall_forall. intros x _. apply H. Qed.

  Theorem spec_zigzag_perm d t :
    Permutation (spec_zigzag filt stop m d t) (spec_pre filt stop m d t).
  Proof.
    eapply Permutation_trans; [|apply spec_levelorder_perm].
    unfold spec_zigzag, spec_levelorder. apply Permutation_filter'.
    apply Permutation_flat_map_pointwise. intros k. unfold zig.
    destruct (Nat.odd k); [apply Permutation_sym, Permutation_rev|apply Permutation_refl].
  Qed.

  Lemma NoDup_map_filter {A B} (h : A -> B) (p : A -> bool) l :
    NoDup (map h l) -> NoDup (map h (filter p l)).
  Proof.
    induction l as [|x l IH]; intros H; [constructor|]. cbn [map] in H. apply NoDup_cons_iff in H as [H1 H2].
    cbn [filter]. destruct (p x); [|apply IH; exact H2]. cbn [map]. constructor; [|apply IH; exact H2].
    intros Hin. apply H1. apply in_map_iff in Hin as [y [E Hy]]. apply filter_In in Hy as [Hy _].
    apply in_map_iff. exists y. split; assumption.
  Qed.

  Theorem spec_pre_nodup d t : NoDup (map ttag (pre t)) -> NoDup (map ttag (spec_pre filt stop m d t)).
  Proof.
    intros H. unfold spec_pre. rewrite map_map. apply NoDup_map_filter.
    rewrite <- map_map, routes_snd. exact H.
  Qed.

  (* what the set is: the nodes of the subtree reached by a visible route and satisfying the filter *)
  Lemma spec_pre_In d t x :
    In x (spec_pre filt stop m d t) <->
    exists r, In r (routes t) /\ snd r = x /\ visible d r = true /\ filt x = true.
  Proof.
    unfold spec_pre. rewrite in_map_iff. split.
    - intros [r [E Hr]]. apply filter_In in Hr as [Hr Hw]. unfold PC04.wanted in Hw.
      apply andb_true_iff in Hw as [Hv Hf]. exists r. subst x. repeat split; assumption.
    - intros [r [Hr [E [Hv Hf]]]]. exists r. split; [exact E|]. apply filter_In. split; [exact Hr|].
      unfold PC04.wanted. subst x. rewrite Hv, Hf. reflexivity.
  Qed.

  Theorem each_once d t : NoDup (map ttag (pre t)) ->
    let V := spec_pre filt stop m d t in
    (NoDup (map ttag (preorder filt stop m d t)) /\ Permutation (preorder filt stop m d t) V)
    /\ (NoDup (map ttag (postorder filt stop m d t)) /\ Permutation (postorder filt stop m d t) V)
    /\ (NoDup (map ttag (levelorder filt stop m d t)) /\ Permutation (levelorder filt stop m d t) V)
    /\ (NoDup (map ttag (zigzag filt stop m d t)) /\ Permutation (zigzag filt stop m d t) V).
  Proof.
    intros H V. pose proof (spec_pre_nodup d t H) as HV. fold V in HV.
    assert (G : forall l, Permutation l V -> NoDup (map ttag l) /\ Permutation l V).
    { intros l Hl. split; [|exact Hl].
      apply (Permutation_NoDup (l := map ttag V)); [apply Permutation_map, Permutation_sym, Hl|exact HV]. }
    repeat split; try apply G.
    - rewrite preorder_spec. apply Permutation_refl.
    - rewrite preorder_spec. apply Permutation_refl.
    - rewrite postorder_spec. apply spec_post_perm.
    - rewrite postorder_spec. apply spec_post_perm.
    - rewrite levelorder_spec. apply spec_levelorder_perm.
    - rewrite levelorder_spec. apply spec_levelorder_perm.
    - rewrite zigzag_spec. apply spec_zigzag_perm.
    - rewrite zigzag_spec. apply spec_zigzag_perm.
  Qed.

End RoseProofs.

(* ------------------------------------------------------------------------------------------ *)
(* steps of the zigzag pair on an arbitrary frontier (used for the binary correspondence) *)

Section RoseGeneral.
  Variables (filt stop : tree -> bool) (m : nat).
  Notation gate := (gate stop m).

  Definition znext (rv : bool) (d : nat) (fr : list tree) : list tree :=
    flat_map (fun t => orient rv (tkids t)) (filter (gate d) fr).

  Lemma zz_S' f d rv fr :
    zz filt stop m (S f) d rv fr =
    filter filt (filter (gate d) fr) ++
    (if nilb (znext rv d fr) then [] else zz filt stop m f (S d) (negb rv) (rev (znext rv d fr))).
  Proof.
    cbn [zz]. rewrite scan_eq. cbn beta iota. fold (znext rv d fr). destruct (znext rv d fr); reflexivity.
  Qed.

  Lemma zzg_S' f d rv fr :
    zzg filt stop m (S f) d rv fr =
    filter filt (filter (gate d) fr) ::
    (if negb (nilb (znext rv d fr)) && depth_ok m (S d)
     then zzg filt stop m f (S d) (negb rv) (rev (znext rv d fr)) else []).
  Proof.
    cbn [zzg]. rewrite scan_eq. cbn beta iota. fold (znext rv d fr). destruct (znext rv d fr); reflexivity.
  Qed.

  Lemma znext_false d fr : znext false d fr = kids_of (filter (gate d) fr).
  Proof. reflexivity. Qed.

  Lemma lo_nil fuel d : lo filt stop m fuel d [] = [].
  Proof. destruct fuel; [reflexivity|]. rewrite lo_S. reflexivity. Qed.

  Lemma zz_nil fuel d rv : zz filt stop m fuel d rv [] = [].
  Proof. destruct fuel; [reflexivity|]. rewrite zz_S'. reflexivity. Qed.
End RoseGeneral.

(* ------------------------------------------------------------------------------------------ *)
(* binary trees *)

Definition oP (P : btree -> Prop) (o : option btree) : Prop :=
  match o with Some x => P x | None => True end.

Section BInd.
  Variable P : btree -> Prop.
  Hypothesis H : forall g l r, oP P l -> oP P r -> P (B g l r).
  Fixpoint btree_ind' (b : btree) : P b :=
    match b with
    | B g l r =>
        H g l r (match l return oP P l with Some x => btree_ind' x | None => I end)
                (match r return oP P r with Some x => btree_ind' x | None => I end)
    end.
End BInd.

Lemma somes_app {X} (a b : list (option X)) : somes (a ++ b) = somes a ++ somes b.
Proof. induction a as [|[x|] a IH]; cbn [app somes]; rewrite ?IH; reflexivity. Qed.

Lemma somes_rev {X} (a : list (option X)) : somes (rev a) = rev (somes a).
Proof.
  induction a as [|[x|] a IH]; cbn [rev somes]; rewrite ?somes_app, ?IH; cbn [somes]; rewrite ?app_nil_r; reflexivity.
Qed.

Lemma somes_orient {X} rv (a : list (option X)) : somes (orient rv a) = orient rv (somes a).
Proof. destruct rv; [apply somes_rev|reflexivity]. Qed.

Lemma map_orient {X Y} (h : X -> Y) rv l : map h (orient rv l) = orient rv (map h l).
Proof. destruct rv; [apply map_rev|reflexivity]. Qed.

Lemma img_kids b : map img (somes (bkids b)) = tkids (img b).
Proof. destruct b as [g [l|] [r|]]; reflexivity. Qed.

Lemma bheight_img b : height (img b) = bheight b.
Proof.
  induction b as [g l r IHl IHr] using btree_ind'.
  destruct l as [x|], r as [y|]; cbn [oP] in *; cbn [img oslot app height fold_right bheight];
    rewrite ?IHl, ?IHr; lia.
Qed.

Section BinProofs.
  Variables (ft st : tree -> bool) (fb sb : btree -> bool) (m : nat).
  Hypothesis Hf : forall b, fb b = ft (img b).
  Hypothesis Hs : forall b, sb b = st (img b).

  Notation gate := (gate st m).
  Notation bgate := (bgate sb m).

  Lemma bgate_img d b : bgate d b = gate d (img b).
  Proof. unfold Iter.bgate, Iter.gate. rewrite Hs. reflexivity. Qed.

  Lemma byield_img b : map img (byield fb b) = yield ft (img b).
  Proof. unfold byield, yield. rewrite Hf. destruct (ft (img b)); reflexivity. Qed.

  Lemma map_img_gate d L : map img (filter (bgate d) L) = filter (gate d) (map img L).
  Proof.
    rewrite filter_map_swap. f_equal. apply filter_ext. intros b. apply bgate_img.
  Qed.

  Lemma map_img_filt L : map img (filter fb L) = filter ft (map img L).
  Proof.
    rewrite filter_map_swap. f_equal. apply filter_ext. intros b. apply Hf.
  Qed.

  (* pre-order, post-order *)

  Lemma preorder_img d g l r :
    preorder ft st m d (img (B g l r)) =
    if gate d (img (B g l r))
    then yield ft (img (B g l r)) ++ oslot (fun x => preorder ft st m (S d) (img x)) l
                                  ++ oslot (fun x => preorder ft st m (S d) (img x)) r
    else [].
  Proof.
    cbn [img preorder]. destruct (gate d _); [|reflexivity]. f_equal. rewrite flat_map_app.
    destruct l, r; cbn [oslot flat_map]; rewrite ?app_nil_r; reflexivity.
  Qed.

  Lemma postorder_img d g l r :
    postorder ft st m d (img (B g l r)) =
    if gate d (img (B g l r))
    then oslot (fun x => postorder ft st m (S d) (img x)) l
         ++ oslot (fun x => postorder ft st m (S d) (img x)) r ++ yield ft (img (B g l r))
    else [].
  Proof.
    cbn [img postorder]. destruct (gate d _); [|reflexivity]. rewrite flat_map_app, <- app_assoc.
    destruct l, r; cbn [oslot flat_map]; rewrite ?app_nil_r; reflexivity.
  Qed.

  Theorem bpreorder_agree b : forall d,
    map img (bpreorder fb sb m d b) = preorder ft st m d (img b).
  Proof.
    induction b as [g l r IHl IHr] using btree_ind'. intros d.
    rewrite preorder_img. cbn [bpreorder]. rewrite bgate_img.
    destruct (gate d (img (B g l r))); [|reflexivity].
    rewrite !map_app, byield_img. f_equal. f_equal.
    - destruct l; cbn [oslot oP] in *; [apply IHl|reflexivity].
    - destruct r; cbn [oslot oP] in *; [apply IHr|reflexivity].
  Qed.

  Theorem bpostorder_agree b : forall d,
    map img (bpostorder fb sb m d b) = postorder ft st m d (img b).
  Proof.
    induction b as [g l r IHl IHr] using btree_ind'. intros d.
    rewrite postorder_img. cbn [bpostorder]. rewrite bgate_img.
    destruct (gate d (img (B g l r))); [|reflexivity].
    rewrite !map_app, byield_img. f_equal; [|f_equal].
    - destruct l; cbn [oslot oP] in *; [apply IHl|reflexivity].
    - destruct r; cbn [oslot oP] in *; [apply IHr|reflexivity].
  Qed.

  (* level loops *)

  Lemma bscan_eq rv d bfr :
    bscan fb sb m rv d bfr =
    (filter fb (filter (bgate d) (somes bfr)),
     flat_map (fun t => orient rv (bkids t)) (filter (bgate d) (somes bfr))).
  Proof.
    induction bfr as [|[t|] bfr IH]; [reflexivity| |]; cbn [bscan somes]; rewrite IH; [|reflexivity].
    cbn [filter]. destruct (bgate d t); [|reflexivity]. cbn [filter flat_map]. unfold byield.
    destruct (fb t); reflexivity.
  Qed.

  Lemma bgscan_eq rv d fr :
    bgscan fb sb m rv d fr =
    (filter fb (filter (bgate d) fr),
     flat_map (fun t => orient rv (somes (bkids t))) (filter (bgate d) fr)).
  Proof.
    induction fr as [|t fr IH]; [reflexivity|]. cbn [bgscan]. rewrite IH.
    cbn [filter]. destruct (bgate d t); [|reflexivity]. cbn [filter flat_map]. unfold byield.
    destruct (fb t); reflexivity.
  Qed.

  Lemma next_img rv O :
    map img (somes (flat_map (fun t => orient rv (bkids t)) O))
    = flat_map (fun t => orient rv (tkids t)) (map img O).
  Proof.
    induction O as [|b O IH]; [reflexivity|]. cbn [flat_map map].
    rewrite somes_app, map_app, IH. f_equal.
    rewrite somes_orient, map_orient, img_kids. reflexivity.
  Qed.

  Lemma gnext_img rv O :
    map img (flat_map (fun t => orient rv (somes (bkids t))) O)
    = flat_map (fun t => orient rv (tkids t)) (map img O).
  Proof.
    induction O as [|b O IH]; [reflexivity|]. cbn [flat_map map].
    rewrite map_app, IH. f_equal. rewrite map_orient, img_kids. reflexivity.
  Qed.

  Lemma map_nil_iff {X Y} (h : X -> Y) l : nilb (map h l) = nilb l.
  Proof. destruct l; reflexivity. Qed.

  Theorem blo_agree fuel : forall d bfr,
    map img (blo fb sb m fuel d bfr) = lo ft st m fuel d (map img (somes bfr)).
  Proof.
    induction fuel as [|f IH]; intros d bfr; [reflexivity|].
    cbn [blo]. rewrite bscan_eq. cbn beta iota. rewrite lo_S, map_app, map_img_filt, map_img_gate.
    f_equal. rewrite <- map_img_gate.
    change (kids_of (map img (filter (bgate d) (somes bfr))))
      with (flat_map (fun t => orient false (tkids t)) (map img (filter (bgate d) (somes bfr)))).
    rewrite <- next_img.
    destruct (flat_map (fun t => orient false (bkids t)) (filter (bgate d) (somes bfr))) as [|o N] eqn:E;
      [reflexivity|].
    rewrite IH.
    destruct (nilb (map img (somes (o :: N)))) eqn:E2; [|reflexivity].
    apply nilb_true in E2. rewrite E2. apply lo_nil.
  Qed.

  Theorem bzz_agree fuel : forall d rv bfr,
    map img (bzz fb sb m fuel d rv bfr) = zz ft st m fuel d rv (map img (somes bfr)).
  Proof.
    induction fuel as [|f IH]; intros d rv bfr; [reflexivity|].
    cbn [bzz]. rewrite bscan_eq. cbn beta iota. rewrite zz_S', map_app, map_img_filt, map_img_gate.
    f_equal. unfold znext. rewrite <- map_img_gate, <- next_img.
    destruct (flat_map (fun t => orient rv (bkids t)) (filter (bgate d) (somes bfr))) as [|o N] eqn:E;
      [reflexivity|].
    rewrite IH, somes_rev, map_rev.
    destruct (nilb (map img (somes (o :: N)))) eqn:E2; [|reflexivity].
    apply nilb_true in E2. rewrite E2. apply zz_nil.
  Qed.

  Theorem blog_agree fuel : forall d fr,
    map (map img) (blog fb sb m fuel d fr) = log ft st m fuel d (map img fr).
  Proof.
    induction fuel as [|f IH]; intros d fr; [reflexivity|].
    cbn [blog]. rewrite bgscan_eq. cbn beta iota. rewrite log_S. cbn [map].
    rewrite map_img_filt, map_img_gate. f_equal. rewrite <- map_img_gate.
    change (kids_of (map img (filter (bgate d) fr)))
      with (flat_map (fun t => orient false (tkids t)) (map img (filter (bgate d) fr))).
    rewrite <- gnext_img, map_nil_iff.
    destruct (flat_map (fun t => orient false (somes (bkids t))) (filter (bgate d) fr)) as [|o N] eqn:E;
      [reflexivity|].
    cbn [nilb negb andb]. destruct (depth_ok m (S d)); [apply IH|reflexivity].
  Qed.

  Theorem bzzg_agree fuel : forall d rv fr,
    map (map img) (bzzg fb sb m fuel d rv fr) = zzg ft st m fuel d rv (map img fr).
  Proof.
    induction fuel as [|f IH]; intros d rv fr; [reflexivity|].
    cbn [bzzg]. rewrite bgscan_eq. cbn beta iota. rewrite zzg_S'. cbn [map].
    rewrite map_img_filt, map_img_gate. f_equal. unfold znext. rewrite <- map_img_gate.
    rewrite <- gnext_img, map_nil_iff.
    destruct (flat_map (fun t => orient rv (somes (bkids t))) (filter (bgate d) fr)) as [|o N] eqn:E;
      [reflexivity|].
    cbn [nilb negb andb]. destruct (depth_ok m (S d)); [|reflexivity].
    rewrite IH, map_rev. reflexivity.
  Qed.

  (* entry points *)

  Theorem blevelorder_agree d b :
    map img (blevelorder fb sb m d b) = levelorder ft st m d (img b).
  Proof.
    unfold blevelorder. rewrite blo_agree. cbn [somes map].
    rewrite lo_fuel by (rewrite bheight_img; lia). symmetry. apply levelorder_spec.
  Qed.

  Theorem bzigzag_agree d b :
    map img (bzigzag fb sb m d b) = zigzag ft st m d (img b).
  Proof.
    unfold bzigzag. rewrite bzz_agree. cbn [somes map].
    rewrite zz_fuel by (rewrite bheight_img; lia). symmetry. apply zigzag_spec.
  Qed.

  Theorem blevelordergroup_agree d b :
    map (map img) (blevelordergroup fb sb m d b) = levelordergroup ft st m d (img b).
  Proof.
    unfold blevelordergroup, levelordergroup. rewrite blog_agree, bheight_img. reflexivity.
  Qed.

  Theorem bzigzaggroup_agree d b :
    map (map img) (bzigzaggroup fb sb m d b) = zigzaggroup ft st m d (img b).
  Proof.
    unfold bzigzaggroup, zigzaggroup. rewrite bzzg_agree, bheight_img. reflexivity.
  Qed.

  (* in-order *)

  Lemma spec_inorder_unfold d g l r :
    spec_inorder fb m d (B g l r) =
    oslot (spec_inorder fb m (S d)) l
    ++ (if depth_ok m d then byield fb (B g l r) else [])
    ++ oslot (spec_inorder fb m (S d)) r.
  Proof.
    unfold spec_inorder. cbn [inord]. rewrite filter_app, map_app, filter_app.
    change ([(d, B g l r)] ++ oslot (inord (S d)) r) with ((d, B g l r) :: oslot (inord (S d)) r).
    cbn [filter fst]. rewrite within_depth_ok. unfold byield.
    destruct (depth_ok m d); cbn [map filter snd]; destruct (fb (B g l r)), l, r; reflexivity.
  Qed.

  Lemma spec_inorder_closed b : forall d, depth_ok m d = false -> spec_inorder fb m d b = [].
  Proof.
    induction b as [g l r IHl IHr] using btree_ind'. intros d Hd.
    assert (HS : depth_ok m (S d) = false) by (apply (depth_ok_false_mono m d); [lia|exact Hd]).
    rewrite spec_inorder_unfold, Hd.
    destruct l as [x|], r as [y|]; cbn [oslot oP app] in *; rewrite ?IHl, ?IHr by exact HS; reflexivity.
  Qed.

  Theorem binorder_spec b : forall d, binorder fb m d b = spec_inorder fb m d b.
  Proof.
    induction b as [g l r IHl IHr] using btree_ind'. intros d.
    cbn [binorder]. destruct (depth_ok m d) eqn:Hd.
    - rewrite spec_inorder_unfold, Hd. f_equal; [|f_equal].
      + destruct l as [x|]; cbn [oslot oP] in *; [apply IHl|reflexivity].
      + destruct r as [y|]; cbn [oslot oP] in *; [apply IHr|reflexivity].
    - symmetry. apply spec_inorder_closed. exact Hd.
  Qed.

End BinProofs.

(* ------------------------------------------------------------------------------------------ *)
(* boolean form: the model's outputs, observed as sequences of node numbers, satisfy prop_C04 *)

Definition num (g : option nat) : nat := match g with Some i => i | None => 0 end.
Definition nums (l : list tree) : list nat := map (fun t => num (ttag t)) l.
Definition bnums (l : list btree) : list nat := map (fun b => num (btag b)) l.

Definition observe_rose (filt stop : tree -> bool) (m d : nat) (t : tree) : iobs :=
  IO (nums (preorder filt stop m d t)) (nums (postorder filt stop m d t))
     (nums (levelorder filt stop m d t)) (nums (zigzag filt stop m d t))
     (map nums (levelordergroup filt stop m d t)) (map nums (zigzaggroup filt stop m d t)).

Definition observe_bin (filt stop : btree -> bool) (m d : nat) (b : btree) : iobs :=
  IO (bnums (bpreorder filt stop m d b)) (bnums (bpostorder filt stop m d b))
     (bnums (blevelorder filt stop m d b)) (bnums (bzigzag filt stop m d b))
     (map bnums (blevelordergroup filt stop m d b)) (map bnums (bzigzaggroup filt stop m d b)).

Definition tagged (t : tree) : bool := match ttag t with Some _ => true | None => false end.

Lemma same_seq_nums l : (forall x, In x l -> tagged x = true) -> same_seq l (nums l) = true.
Proof.
  induction l as [|x l IH]; intros H; [reflexivity|]. cbn [nums map same_seq all2].
  pose proof (H x (or_introl eq_refl)) as Hx. unfold tagged in Hx. destruct (ttag x) as [i|]; [|discriminate].
  cbn [tag_is num]. rewrite Nat.eqb_refl. apply IH. intros y Hy. apply H. right. exact Hy.
Qed.

Lemma same_groups_nums l :
  (forall g x, In g l -> In x g -> tagged x = true) -> same_groups l (map nums l) = true.
Proof.
  induction l as [|g l IH]; intros H; [reflexivity|]. cbn [map same_groups all2].
  rewrite same_seq_nums by (intros x Hx; apply (H g x (or_introl eq_refl) Hx)).
  apply IH. intros g' x Hg Hx. apply (H g' x (or_intror Hg) Hx).
Qed.

Lemma same_bseq_bnums l :
  (forall x, In x l -> btag x <> None) -> same_bseq l (bnums l) = true.
Proof.
  induction l as [|x l IH]; intros H; [reflexivity|]. cbn [bnums map same_bseq all2].
  pose proof (H x (or_introl eq_refl)) as Hx. destruct (btag x) as [i|]; [|congruence].
  cbn [tag_is num]. rewrite Nat.eqb_refl. apply IH. intros y Hy. apply H. right. exact Hy.
Qed.

Lemma tags_distinct_tagged t : tags_distinct t = true -> forall x, In x (pre t) -> tagged x = true.
Proof.
  unfold tags_distinct. intros H x Hx. apply andb_true_iff in H as [H _].
  rewrite forallb_forall in H. apply (H x Hx).
Qed.

Section Nodes.
  Variables (filt stop : tree -> bool) (m d : nat) (t : tree).

  Lemma spec_pre_sub x : In x (spec_pre filt stop m d t) -> In x (pre t).
  Proof.
    intros H. apply spec_pre_In in H as [r [Hr [E _]]]. rewrite <- routes_snd, <- E.
    apply in_map. exact Hr.
  Qed.

  Lemma vis_level_sub k x : In x (vis_level stop m d k t) -> In x (pre t).
  Proof.
    unfold vis_level. intros H. apply in_map_iff in H as [r [E Hr]]. apply filter_In in Hr as [Hr _].
    rewrite <- routes_snd, <- E. apply in_map. exact Hr.
  Qed.
End Nodes.

Theorem model_satisfies_prop_rose filt stop m d t :
  tags_distinct t = true ->
  prop_C04_rose filt stop m d t (observe_rose filt stop m d t) = true.
Proof.
  intros HT. pose proof (tags_distinct_tagged t HT) as Tg.
  unfold prop_C04_rose, observe_rose. cbn [o_pre o_post o_lo o_zz o_log o_zzg].
  rewrite preorder_spec, postorder_spec, levelorder_spec, zigzag_spec, levelordergroup_spec, zigzaggroup_spec.
  rewrite !same_seq_nums, !same_groups_nums; [reflexivity| | | | | |].
  - intros g x Hg Hx. unfold spec_zigzaggroup in Hg. apply in_map_iff in Hg as [k [<- _]].
    apply filter_In in Hx as [Hx _]. apply Tg. apply (vis_level_sub stop m d t k).
    unfold zig in Hx. destruct (Nat.odd k); [apply in_rev in Hx|]; exact Hx.
  - intros g x Hg Hx. unfold spec_levelordergroup in Hg. apply in_map_iff in Hg as [k [<- _]].
    apply filter_In in Hx as [Hx _]. apply Tg. apply (vis_level_sub stop m d t k). exact Hx.
  - intros x Hx. apply Tg, (spec_pre_sub filt stop m d t).
    apply (Permutation_in x (spec_zigzag_perm filt stop m d t) Hx).
  - intros x Hx. apply Tg, (spec_pre_sub filt stop m d t).
    apply (Permutation_in x (spec_levelorder_perm filt stop m d t) Hx).
  - intros x Hx. apply Tg, (spec_pre_sub filt stop m d t).
    apply (Permutation_in x (spec_post_perm filt stop m d t) Hx).
  - intros x Hx. apply Tg, (spec_pre_sub filt stop m d t). exact Hx.
Qed.

Lemma nums_img l : nums (map img l) = bnums l.
Proof.
  unfold nums, bnums. rewrite map_map. apply map_ext. intros [g l' r']. reflexivity.
Qed.

Lemma inord_img b : forall d p, In p (inord d b) -> In (img (snd p)) (pre (img b)).
Proof.
  induction b as [g l r IHl IHr] using btree_ind'. intros d p Hp.
  cbn [inord] in Hp. cbn [img pre].
  apply in_app_or in Hp as [Hp|Hp]; [|apply in_app_or in Hp as [Hp|Hp]].
  - right. destruct l as [x|]; cbn [oslot oP] in *; [|contradiction].
    apply in_flat_map. exists (img x). split; [apply in_or_app; left; left; reflexivity|].
    apply (IHl (S d) p Hp).
  - left. destruct Hp as [<-|[]]. reflexivity.
  - right. destruct r as [y|]; cbn [oslot oP] in *; [|contradiction].
    apply in_flat_map. exists (img y). split; [apply in_or_app; right; left; reflexivity|].
    apply (IHr (S d) p Hp).
Qed.

Theorem model_satisfies_prop_bin ft st fb sb m d b :
  (forall x, fb x = ft (img x)) -> (forall x, sb x = st (img x)) ->
  tags_distinct (img b) = true ->
  prop_C04_bin ft st fb m d b (observe_bin fb sb m d b) (bnums (binorder fb m d b)) = true.
Proof.
  intros Hf Hs HT. unfold prop_C04_bin. apply andb_true_iff. split.
  - replace (observe_bin fb sb m d b) with (observe_rose ft st m d (img b));
      [apply model_satisfies_prop_rose; exact HT|].
    unfold observe_rose, observe_bin.
    rewrite <- (bpreorder_agree ft st fb sb m Hf Hs), <- (bpostorder_agree ft st fb sb m Hf Hs),
            <- (blevelorder_agree ft st fb sb m Hf Hs), <- (bzigzag_agree ft st fb sb m Hf Hs),
            <- (blevelordergroup_agree ft st fb sb m Hf Hs), <- (bzigzaggroup_agree ft st fb sb m Hf Hs).
    rewrite !nums_img, !map_map.
    rewrite !(map_ext (fun x => nums (map img x)) bnums nums_img).
    reflexivity.
  - rewrite (binorder_spec fb m). apply same_bseq_bnums. intros x Hx.
    unfold spec_inorder in Hx. apply filter_In in Hx as [Hx _]. apply in_map_iff in Hx as [p [<- Hp]].
    apply filter_In in Hp as [Hp _]. apply inord_img in Hp.
    pose proof (tags_distinct_tagged _ HT _ Hp) as Tg. unfold tagged in Tg.
    destruct (snd p) as [g l r]. cbn [img ttag btag] in *. destruct g; [discriminate|discriminate Tg].
Qed.

(* ------------------------------------------------------------------------------------------ *)
(* a filter condition yields exactly the subsequence of nodes satisfying it *)

Lemma filter_true {A} (l : list A) : filter (fun _ => true) l = l.
Proof. induction l as [|x l IH]; [reflexivity|]. cbn [filter]. rewrite IH. reflexivity. Qed.

Definition all_nodes : tree -> bool := fun _ => true.
Definition no_stop : tree -> bool := fun _ => false.

Section FilterLaw.
  Variables (filt stop : tree -> bool) (m d : nat) (t : tree).

  Lemma spec_post_alt :
    spec_post filt stop m d t = filter filt (map snd (filter (visible stop m d) (routes_post t))).
  Proof. unfold spec_post. rewrite filter_map_swap, filter_filter. reflexivity. Qed.

  Theorem filter_subsequence :
    preorder filt stop m d t = filter filt (preorder all_nodes stop m d t)
    /\ postorder filt stop m d t = filter filt (postorder all_nodes stop m d t)
    /\ levelorder filt stop m d t = filter filt (levelorder all_nodes stop m d t)
    /\ zigzag filt stop m d t = filter filt (zigzag all_nodes stop m d t)
    /\ levelordergroup filt stop m d t = map (filter filt) (levelordergroup all_nodes stop m d t)
    /\ zigzaggroup filt stop m d t = map (filter filt) (zigzaggroup all_nodes stop m d t).
  Proof.
    rewrite !preorder_spec, !postorder_spec, !levelorder_spec, !zigzag_spec,
            !levelordergroup_spec, !zigzaggroup_spec.
    repeat split.
    - rewrite !spec_pre_alt. unfold all_nodes. rewrite filter_true. reflexivity.
    - rewrite spec_post_alt. unfold spec_post, wanted, all_nodes. f_equal. f_equal.
      apply filter_ext. intros r. rewrite andb_true_r. reflexivity.
    - unfold spec_levelorder, all_nodes. rewrite filter_true. reflexivity.
    - unfold spec_zigzag, all_nodes. rewrite filter_true. reflexivity.
    - unfold spec_levelordergroup, all_nodes. rewrite map_map. apply map_ext. intros k.
      rewrite filter_true. reflexivity.
    - unfold spec_zigzaggroup, all_nodes. rewrite map_map. apply map_ext. intros k.
      rewrite filter_true. reflexivity.
  Qed.
End FilterLaw.

(* ------------------------------------------------------------------------------------------ *)
(* without conditions the iterators are the textbook traversals of Base/Rose.v *)

Lemma routes_post_snd t : map snd (routes_post t) = post t.
Proof.
  induction t as [g n a ks IH] using tree_ind'. cbn [routes_post post]. rewrite map_app. cbn [map snd].
  f_equal. rewrite map_map.
  rewrite (map_ext (fun r => snd (under (T g n a ks) r)) snd) by (intros [x y]; reflexivity).
  rewrite map_flat_map. apply flat_map_Forall_ext. exact IH.
Qed.

Lemma visible_trivial d r : visible no_stop 0 d r = true.
Proof.
  unfold visible, no_stop, within. cbn [negb Nat.eqb orb andb].
  rewrite andb_true_r, andb_true_r. apply forallb_forall. reflexivity.
Qed.

Lemma wanted_trivial d l : filter (wanted all_nodes no_stop 0 d) l = l.
Proof.
  rewrite (filter_ext _ (fun _ => true)); [apply filter_true|].
  intros r. unfold wanted. rewrite visible_trivial. reflexivity.
Qed.

Lemma vlevel_trivial k : forall d t, vlevel no_stop 0 k d t = level k t.
Proof.
  induction k as [|k IH]; intros d t; [reflexivity|].
  cbn [vlevel level]. unfold Iter.gate, no_stop, depth_ok. cbn [Nat.eqb orb negb andb].
  apply flat_map_ext. intros x. apply IH.
Qed.

Theorem unconditioned d t :
  preorder all_nodes no_stop 0 d t = pre t
  /\ postorder all_nodes no_stop 0 d t = post t
  /\ levelorder all_nodes no_stop 0 d t = flat_map (fun k => level k t) (seq 0 (height t))
  /\ zigzag all_nodes no_stop 0 d t = flat_map (fun k => zig k (level k t)) (seq 0 (height t)).
Proof.
  rewrite preorder_spec, postorder_spec, levelorder_spec, zigzag_spec. repeat split.
  - unfold spec_pre. rewrite wanted_trivial. apply routes_snd.
  - unfold spec_post. rewrite wanted_trivial. apply routes_post_snd.
  - unfold spec_levelorder, all_nodes. rewrite filter_true. apply flat_map_ext. intros k.
    rewrite <- vlevel_routes. apply vlevel_trivial.
  - unfold spec_zigzag, all_nodes. rewrite filter_true. apply flat_map_ext. intros k.
    rewrite <- vlevel_routes, vlevel_trivial. reflexivity.
Qed.

(* ------------------------------------------------------------------------------------------ *)
(* order laws, stated on the yielded sequences *)

Definition before {A} (l : list A) (x y : A) : Prop := exists l1 l2 l3, l = l1 ++ x :: l2 ++ y :: l3.

Lemma before_cons {A} (z x y : A) l : before l x y -> before (z :: l) x y.
Proof. intros [l1 [l2 [l3 ->]]]. exists (z :: l1), l2, l3. reflexivity. Qed.

Lemma before_head {A} (x y : A) l : In y l -> before (x :: l) x y.
Proof. intros H. apply in_split in H as [l2 [l3 ->]]. exists [], l2, l3. reflexivity. Qed.

Lemma before_app_l {A} (x y : A) l l' : before l x y -> before (l ++ l') x y.
Proof.
  intros [l1 [l2 [l3 ->]]]. exists l1, l2, (l3 ++ l'). repeat (rewrite <- ?app_assoc; cbn [app]). reflexivity.
Qed.

Lemma before_app_r {A} (x y : A) l l' : before l' x y -> before (l ++ l') x y.
Proof. intros [l1 [l2 [l3 ->]]]. exists (l ++ l1), l2, l3. rewrite <- app_assoc. reflexivity. Qed.

Lemma before_app_lr {A} (x y : A) l l' : In x l -> In y l' -> before (l ++ l') x y.
Proof.
  intros Hx Hy. apply in_split in Hx as [a1 [a2 ->]]. apply in_split in Hy as [b1 [b2 ->]].
  exists a1, (a2 ++ b1), b2. repeat (rewrite <- ?app_assoc; cbn [app]). reflexivity.
Qed.

Lemma before_map {A B} (f : A -> B) (x y : A) l : before l x y -> before (map f l) (f x) (f y).
Proof.
  intros [l1 [l2 [l3 ->]]]. exists (map f l1), (map f l2), (map f l3).
  rewrite !map_app. cbn [map]. rewrite !map_app. reflexivity.
Qed.

Lemma before_filter {A} (p : A -> bool) (x y : A) l :
  before l x y -> p x = true -> p y = true -> before (filter p l) x y.
Proof.
  intros [l1 [l2 [l3 ->]]] Hx Hy. exists (filter p l1), (filter p l2), (filter p l3).
  rewrite filter_app. cbn [filter]. rewrite Hx, filter_app. cbn [filter]. rewrite Hy. reflexivity.
Qed.

Lemma before_flat_map {A B} (g : A -> list B) (x y : B) k ks :
  In k ks -> before (g k) x y -> before (flat_map g ks) x y.
Proof.
  intros Hk H. apply in_split in Hk as [k1 [k2 ->]]. rewrite flat_map_app. cbn [flat_map].
  apply before_app_r, before_app_l. exact H.
Qed.

Lemma routes_in_cases g n a ks r :
  In r (routes (T g n a ks)) ->
  r = ([], T g n a ks) \/ exists k r', In k ks /\ In r' (routes k) /\ r = under (T g n a ks) r'.
Proof.
  cbn [routes]. intros [<-|H]; [left; reflexivity|right].
  apply in_map_iff in H as [r' [<- H]]. apply in_flat_map in H as [k [Hk Hr]].
  exists k, r'. repeat split; assumption.
Qed.

Lemma routes_post_in_cases g n a ks r :
  In r (routes_post (T g n a ks)) ->
  r = ([], T g n a ks) \/ exists k r', In k ks /\ In r' (routes_post k) /\ r = under (T g n a ks) r'.
Proof.
  cbn [routes_post]. intros H. apply in_app_or in H as [H|[<-|[]]]; [right|left; reflexivity].
  apply in_map_iff in H as [r' [<- H]]. apply in_flat_map in H as [k [Hk Hr]].
  exists k, r'. repeat split; assumption.
Qed.

(* an ancestor's route comes before (pre-order) / after (post-order) the route of a descendant *)
Lemma routes_anc_before t : forall a1 p a2 n,
  In (a1 ++ p :: a2, n) (routes t) -> before (routes t) (a1, p) (a1 ++ p :: a2, n).
Proof.
  induction t as [g n0 a ks IH] using tree_ind'. intros a1 p a2 n H.
  pose proof H as H0. apply routes_in_cases in H as [E|[k [r' [Hk [Hr E]]]]].
  - destruct a1; discriminate E.
  - destruct r' as [a' n']. unfold under in E. cbn [fst snd] in E. inversion E as [[E1 E2]]. subst n'.
    destruct a1 as [|x a1].
    + cbn [app] in E1. injection E1 as Ep Ea. subst p a'. cbn [app routes]. apply before_head.
      apply in_map_iff. exists (a2, n). split; [reflexivity|]. apply in_flat_map. exists k. split; assumption.
    + cbn [app] in E1. injection E1 as Ex Ea. subst x a'. cbn [routes]. apply before_cons.
      change (T g n0 a ks :: a1, p) with (under (T g n0 a ks) (a1, p)).
      change ((T g n0 a ks :: a1) ++ p :: a2, n) with (under (T g n0 a ks) (a1 ++ p :: a2, n)).
      apply before_map. apply (before_flat_map routes _ _ k ks Hk).
      rewrite Forall_forall in IH. apply (IH k Hk). exact Hr.
Qed.

Lemma routes_post_anc_after t : forall a1 p a2 n,
  In (a1 ++ p :: a2, n) (routes_post t) -> before (routes_post t) (a1 ++ p :: a2, n) (a1, p).
Proof.
  induction t as [g n0 a ks IH] using tree_ind'. intros a1 p a2 n H.
  pose proof H as H0. apply routes_post_in_cases in H as [E|[k [r' [Hk [Hr E]]]]].
  - destruct a1; discriminate E.
  - destruct r' as [a' n']. unfold under in E. cbn [fst snd] in E. inversion E as [[E1 E2]]. subst n'.
    destruct a1 as [|x a1].
    + cbn [app] in E1. injection E1 as Ep Ea. subst p a'. cbn [app routes_post]. apply before_app_lr; [|left; reflexivity].
      apply in_map_iff. exists (a2, n). split; [reflexivity|]. apply in_flat_map. exists k. split; assumption.
    + cbn [app] in E1. injection E1 as Ex Ea. subst x a'. cbn [routes_post]. apply before_app_l.
      change (T g n0 a ks :: a1, p) with (under (T g n0 a ks) (a1, p)).
      change ((T g n0 a ks :: a1) ++ p :: a2, n) with (under (T g n0 a ks) (a1 ++ p :: a2, n)).
      apply before_map. apply (before_flat_map routes_post _ _ k ks Hk).
      rewrite Forall_forall in IH. apply (IH k Hk). exact Hr.
Qed.

(* subtrees of an earlier sibling come before subtrees of a later sibling, in both orders *)
Lemma routes_siblings t : forall a p l1 k1 l2 k2 l3 r1 r2,
  In (a, p) (routes t) -> tkids p = l1 ++ k1 :: l2 ++ k2 :: l3 ->
  In r1 (routes k1) -> In r2 (routes k2) ->
  before (routes t) (a ++ p :: fst r1, snd r1) (a ++ p :: fst r2, snd r2).
Proof.
  induction t as [g n0 a0 ks IH] using tree_ind'. intros a p l1 k1 l2 k2 l3 r1 r2 H Hk H1 H2.
  apply routes_in_cases in H as [E|[k [r' [Hin [Hr E]]]]].
  - inversion E; subst. cbn [tkids] in Hk. subst ks. cbn [app routes]. apply before_cons.
    change (T g n0 a0 (l1 ++ k1 :: l2 ++ k2 :: l3) :: fst r1, snd r1) with (under (T g n0 a0 (l1 ++ k1 :: l2 ++ k2 :: l3)) r1).
    change (T g n0 a0 (l1 ++ k1 :: l2 ++ k2 :: l3) :: fst r2, snd r2) with (under (T g n0 a0 (l1 ++ k1 :: l2 ++ k2 :: l3)) r2).
    destruct r1 as [b1 n1], r2 as [b2 n2]. cbn [fst snd].
    apply (before_map (under _) (b1, n1) (b2, n2)).
    rewrite flat_map_app. apply before_app_r. cbn [flat_map]. apply before_app_lr; [exact H1|].
    rewrite flat_map_app. apply in_or_app. right. cbn [flat_map]. apply in_or_app. left. exact H2.
  - destruct r' as [a' n']. unfold under in E. cbn [fst snd] in E. inversion E; subst.
    cbn [routes]. apply before_cons.
    change ((T g n0 a0 ks :: a') ++ n' :: fst r1, snd r1) with (under (T g n0 a0 ks) (a' ++ n' :: fst r1, snd r1)).
    change ((T g n0 a0 ks :: a') ++ n' :: fst r2, snd r2) with (under (T g n0 a0 ks) (a' ++ n' :: fst r2, snd r2)).
    apply before_map. apply (before_flat_map routes _ _ k ks Hin).
    rewrite Forall_forall in IH. apply (IH k Hin a' n' l1 k1 l2 k2 l3 r1 r2 Hr Hk H1 H2).
Qed.

Lemma routes_post_siblings t : forall a p l1 k1 l2 k2 l3 r1 r2,
  In (a, p) (routes_post t) -> tkids p = l1 ++ k1 :: l2 ++ k2 :: l3 ->
  In r1 (routes_post k1) -> In r2 (routes_post k2) ->
  before (routes_post t) (a ++ p :: fst r1, snd r1) (a ++ p :: fst r2, snd r2).
Proof.
  induction t as [g n0 a0 ks IH] using tree_ind'. intros a p l1 k1 l2 k2 l3 r1 r2 H Hk H1 H2.
  apply routes_post_in_cases in H as [E|[k [r' [Hin [Hr E]]]]].
  - inversion E; subst. cbn [tkids] in Hk. subst ks. cbn [app routes_post]. apply before_app_l.
    change (T g n0 a0 (l1 ++ k1 :: l2 ++ k2 :: l3) :: fst r1, snd r1) with (under (T g n0 a0 (l1 ++ k1 :: l2 ++ k2 :: l3)) r1).
    change (T g n0 a0 (l1 ++ k1 :: l2 ++ k2 :: l3) :: fst r2, snd r2) with (under (T g n0 a0 (l1 ++ k1 :: l2 ++ k2 :: l3)) r2).
    destruct r1 as [b1 n1], r2 as [b2 n2]. cbn [fst snd].
    apply (before_map (under _) (b1, n1) (b2, n2)).
    rewrite flat_map_app. apply before_app_r. cbn [flat_map]. apply before_app_lr; [exact H1|].
    rewrite flat_map_app. apply in_or_app. right. cbn [flat_map]. apply in_or_app. left. exact H2.
  - destruct r' as [a' n']. unfold under in E. cbn [fst snd] in E. inversion E; subst.
    cbn [routes_post]. apply before_app_l.
    change ((T g n0 a0 ks :: a') ++ n' :: fst r1, snd r1) with (under (T g n0 a0 ks) (a' ++ n' :: fst r1, snd r1)).
    change ((T g n0 a0 ks :: a') ++ n' :: fst r2, snd r2) with (under (T g n0 a0 ks) (a' ++ n' :: fst r2, snd r2)).
    apply before_map. apply (before_flat_map routes_post _ _ k ks Hin).
    rewrite Forall_forall in IH. apply (IH k Hin a' n' l1 k1 l2 k2 l3 r1 r2 Hr Hk H1 H2).
Qed.

Section OrderLaws.
  Variables (filt stop : tree -> bool) (m d : nat) (t : tree).

  Lemma wanted_prefix a1 p a2 n :
    wanted filt stop m d (a1 ++ p :: a2, n) = true -> filt p = true ->
    wanted filt stop m d (a1, p) = true.
  Proof.
    unfold wanted, visible, rlevel. cbn [fst snd]. intros H Hp.
    apply andb_true_iff in H as [H _]. apply andb_true_iff in H as [H Hw].
    apply andb_true_iff in H as [H _]. rewrite forallb_app in H. apply andb_true_iff in H as [Ha Hb].
    cbn [forallb] in Hb. apply andb_true_iff in Hb as [Hb _].
    rewrite Ha, Hb, Hp. cbn [andb]. rewrite andb_true_r.
    rewrite within_depth_ok in *. apply (depth_ok_mono m _ (d + length (a1 ++ p :: a2))); [|exact Hw].
    rewrite app_length. lia.
  Qed.

  (* pre-order: a yielded node comes before every yielded descendant *)
  Theorem parent_before_descendants a1 p a2 n :
    In (a1 ++ p :: a2, n) (routes t) ->
    wanted filt stop m d (a1 ++ p :: a2, n) = true -> filt p = true ->
    before (preorder filt stop m d t) p n.
  Proof.
    intros Hin Hw Hp. rewrite preorder_spec. unfold spec_pre.
    apply (before_map snd (a1, p) (a1 ++ p :: a2, n)).
    apply before_filter; [apply routes_anc_before; exact Hin|apply (wanted_prefix a1 p a2 n Hw Hp)|exact Hw].
  Qed.

  (* post-order: every yielded descendant comes before the yielded node *)
  Theorem descendants_before_parent a1 p a2 n :
    In (a1 ++ p :: a2, n) (routes_post t) ->
    wanted filt stop m d (a1 ++ p :: a2, n) = true -> filt p = true ->
    before (postorder filt stop m d t) n p.
  Proof.
    intros Hin Hw Hp. rewrite postorder_spec. unfold spec_post.
    apply (before_map snd (a1 ++ p :: a2, n) (a1, p)).
    apply before_filter; [apply routes_post_anc_after; exact Hin|exact Hw|apply (wanted_prefix a1 p a2 n Hw Hp)].
  Qed.

  (* pre-order and post-order: the yielded nodes under an earlier child of p come before the
     yielded nodes under a later child of p *)
  Theorem sibling_subtrees_left_to_right a p l1 k1 l2 k2 l3 r1 r2 :
    In (a, p) (routes t) -> tkids p = l1 ++ k1 :: l2 ++ k2 :: l3 ->
    In r1 (routes k1) -> In r2 (routes k2) ->
    wanted filt stop m d (a ++ p :: fst r1, snd r1) = true ->
    wanted filt stop m d (a ++ p :: fst r2, snd r2) = true ->
    before (preorder filt stop m d t) (snd r1) (snd r2).
  Proof.
    intros Hin Hk H1 H2 W1 W2. rewrite preorder_spec. unfold spec_pre.
    apply (before_map snd (a ++ p :: fst r1, snd r1) (a ++ p :: fst r2, snd r2)).
    apply before_filter; [|exact W1|exact W2].
    apply (routes_siblings t a p l1 k1 l2 k2 l3 r1 r2 Hin Hk H1 H2).
  Qed.

  Theorem sibling_subtrees_left_to_right_post a p l1 k1 l2 k2 l3 r1 r2 :
    In (a, p) (routes_post t) -> tkids p = l1 ++ k1 :: l2 ++ k2 :: l3 ->
    In r1 (routes_post k1) -> In r2 (routes_post k2) ->
    wanted filt stop m d (a ++ p :: fst r1, snd r1) = true ->
    wanted filt stop m d (a ++ p :: fst r2, snd r2) = true ->
    before (postorder filt stop m d t) (snd r1) (snd r2).
  Proof.
    intros Hin Hk H1 H2 W1 W2. rewrite postorder_spec. unfold spec_post.
    apply (before_map snd (a ++ p :: fst r1, snd r1) (a ++ p :: fst r2, snd r2)).
    apply before_filter; [|exact W1|exact W2].
    apply (routes_post_siblings t a p l1 k1 l2 k2 l3 r1 r2 Hin Hk H1 H2).
  Qed.
End OrderLaws.
