(* Bridge between the heap model of DAGNode (Heap/Dag.v, invariant DWF of Heap/DagProofs.v, property C10)
   and the pure graph model on which the DAG algorithms of C16 are stated (Algo/DagAlgo.v, vocabulary
   of Spec/PC16.v): the node table `dabs s` read off a heap state has the heap's parents / children
   lists, is well-formed (Wf) and acyclic, and -- as soon as there is at least one object -- carries a
   topological numbering bounded by the number of nodes (Ranked).  Hence the theorems of C16 (stated
   for Wf / Ranked graphs) apply to every state reachable through the structural API of DAGNode
   (C10_reachable).  On the way: the two `ancestors` functions (the guard of the setters in the heap
   model, the query in the pure model) return the same list.

   Both models define `dag`, `dsize`, `parents`, `children`: heap names are written `Dag.x`, pure names
   `DagAlgo.x` throughout. *)
From BT Require Import Base.Prelude Base.Str Base.Rose Heap.Dag Heap.DagProofs
     Algo.DagAlgo Spec.PC16 Algo.DagAlgoProofs.

Definition dabs (s : Dag.dag) : DagAlgo.dag :=
  map (fun i => DN (Dag.dname s i) [] (Dag.parents s i) (Dag.children s i)) (seq 0 (Dag.dsize s)).

(* ------------------------------------------------------------------------------------------- *)
(** * (a) projections *)

Lemma dabs_size : forall s, DagAlgo.dsize (dabs s) = Dag.dsize s.
Proof. intros s. unfold DagAlgo.dsize, dabs. rewrite map_length, seq_length. reflexivity. Qed.

Lemma dabs_node : forall s x, x < Dag.dsize s ->
  DagAlgo.node (dabs s) x = DN (Dag.dname s x) [] (Dag.parents s x) (Dag.children s x).
Proof.
  intros s x Hx. unfold DagAlgo.node, dabs.
  set (F := fun i => DN (Dag.dname s i) [] (Dag.parents s i) (Dag.children s i)).
  rewrite (nth_indep (map F (seq 0 (Dag.dsize s))) dn_default (F 0)).
  - rewrite (map_nth F (seq 0 (Dag.dsize s)) 0 x). rewrite seq_nth by exact Hx. reflexivity.
  - rewrite map_length, seq_length. exact Hx.
Qed.

Lemma dabs_parents : forall s x, x < Dag.dsize s -> DagAlgo.parents (dabs s) x = Dag.parents s x.
Proof. intros s x Hx. unfold DagAlgo.parents. rewrite dabs_node by exact Hx. reflexivity. Qed.

Lemma dabs_children : forall s x, x < Dag.dsize s -> DagAlgo.children (dabs s) x = Dag.children s x.
Proof. intros s x Hx. unfold DagAlgo.children. rewrite dabs_node by exact Hx. reflexivity. Qed.

Lemma dabs_name : forall s x, x < Dag.dsize s -> DagAlgo.name (dabs s) x = Dag.dname s x.
Proof. intros s x Hx. unfold DagAlgo.name. rewrite dabs_node by exact Hx. reflexivity. Qed.

Lemma dabs_parents_out : forall s x, Dag.dsize s <= x -> DagAlgo.parents (dabs s) x = [].
Proof. intros s x Hx. apply (out_of_range (dabs s) x). rewrite dabs_size. exact Hx. Qed.

Lemma dabs_children_out : forall s x, Dag.dsize s <= x -> DagAlgo.children (dabs s) x = [].
Proof. intros s x Hx. apply (out_of_range (dabs s) x). rewrite dabs_size. exact Hx. Qed.

(* outside the live ids the heap lists of a linked state are empty as well (l_bnd), so the two
   models have the same lists at every id *)
Lemma heap_parents_out : forall s x, Links s -> Dag.dsize s <= x -> Dag.parents s x = [].
Proof.
  intros s x L Hx. destruct (Dag.parents s x) as [|p l] eqn:E; [reflexivity|].
  assert (Hp : In p (Dag.parents s x)) by (rewrite E; left; reflexivity).
  apply (l_bnd s L) in Hp. lia.
Qed.

Lemma heap_children_out : forall s x, Links s -> Dag.dsize s <= x -> Dag.children s x = [].
Proof.
  intros s x L Hx. destruct (Dag.children s x) as [|c l] eqn:E; [reflexivity|].
  assert (Hc : In c (Dag.children s x)) by (rewrite E; left; reflexivity).
  apply (l_sym s L) in Hc. apply (l_bnd s L) in Hc. lia.
Qed.

Lemma dabs_parents_all : forall s x, Links s -> DagAlgo.parents (dabs s) x = Dag.parents s x.
Proof.
  intros s x L. destruct (Nat.lt_ge_cases x (Dag.dsize s)) as [Hx|Hx].
  - apply dabs_parents. exact Hx.
  - rewrite dabs_parents_out, heap_parents_out by assumption. reflexivity.
Qed.

Lemma dabs_children_all : forall s x, Links s -> DagAlgo.children (dabs s) x = Dag.children s x.
Proof.
  intros s x L. destruct (Nat.lt_ge_cases x (Dag.dsize s)) as [Hx|Hx].
  - apply dabs_children. exact Hx.
  - rewrite dabs_children_out, heap_children_out by assumption. reflexivity.
Qed.

(* the edge relation of the abstraction is the heap's link relation *)
Lemma dabs_Edge : forall s p c, Links s -> (Edge (dabs s) p c <-> In p (Dag.parents s c)).
Proof.
  intros s p c L. unfold Edge. rewrite dabs_children_all by exact L. symmetry. apply (l_sym s L).
Qed.

(* ------------------------------------------------------------------------------------------- *)
(** * (b) well-formedness *)

Lemma Links_Wf : forall s, Links s -> Wf (dabs s).
Proof.
  intros s L. constructor.
  - intros x p H. rewrite dabs_size. rewrite dabs_parents_all in H by exact L.
    apply (l_bnd s L) in H. lia.
  - intros x c H. rewrite dabs_size. rewrite dabs_children_all in H by exact L.
    apply (l_sym s L) in H. apply (l_bnd s L) in H. lia.
  - intros x p H. rewrite dabs_size. rewrite dabs_parents_all in H by exact L.
    apply (l_bnd s L) in H. lia.
  - intros x c H. rewrite dabs_size. rewrite dabs_children_all in H by exact L.
    apply (l_sym s L) in H. apply (l_bnd s L) in H. lia.
  - intros p c. rewrite dabs_children_all, dabs_parents_all by exact L. symmetry. apply (l_sym s L).
  - intros x. rewrite dabs_parents_all by exact L. apply (l_ndp s L).
  - intros x. rewrite dabs_children_all by exact L. apply (l_ndc s L).
Qed.

Theorem dabs_Wf : forall s, DWF s -> Wf (dabs s).
Proof. intros s [L _]. apply Links_Wf. exact L. Qed.

(* ------------------------------------------------------------------------------------------- *)
(** * Reachability: Reach of the abstraction = path of the heap model *)

Lemma dabs_Reach_path : forall s a b, Links s -> (Reach (dabs s) a b <-> path s a b).
Proof.
  intros s a b L. split.
  - induction 1 as [a b He|a c b He _ IH].
    + apply path1. apply (dabs_Edge s a b L). exact He.
    + eapply path_cons; [apply (dabs_Edge s a c L); exact He|exact IH].
  - induction 1 as [a b H|a p b _ IH H].
    + apply Reach1. apply (dabs_Edge s a b L). exact H.
    + eapply Reach_snoc; [exact IH|apply (dabs_Edge s p b L); exact H].
Qed.

(* the heap's ghost rank is a (not necessarily bounded) topological numbering of the abstraction *)
Lemma dabs_Reach_rank : forall s r a b, Links s -> ranked s r -> Reach (dabs s) a b -> r a < r b.
Proof.
  intros s r a b L R H. apply (dabs_Reach_path s a b L) in H. exact (path_rank s r a b R H).
Qed.

Theorem dabs_Acyclic : forall s, DWF s -> forall y, ~ Reach (dabs s) y y.
Proof.
  intros s [L [r R]] y H. pose proof (dabs_Reach_rank s r y y L R H). lia.
Qed.

(* ------------------------------------------------------------------------------------------- *)
(** * (c) a bounded rank
   `Ranked g r` demands r x < dsize g for EVERY x, so no graph without nodes is Ranked: the statement
   needs at least one object.  The rank is the one of acyclic_iff_ranked: the number of proper
   ancestors. *)

Lemma Ranked_nonempty : forall g r, Ranked g r -> 0 < DagAlgo.dsize g.
Proof. intros g r [_ Hb]. specialize (Hb 0). lia. Qed.

Theorem dabs_Ranked : forall s, DWF s -> 0 < Dag.dsize s -> exists r, Ranked (dabs s) r.
Proof.
  intros s W Hn. apply (acyclic_iff_ranked (dabs s)).
  - apply dabs_Wf. exact W.
  - rewrite dabs_size. exact Hn.
  - apply dabs_Acyclic. exact W.
Qed.

(* the hypothesis cannot be dropped *)
Lemma dabs_Ranked_needs_a_node : forall s r, Ranked (dabs s) r -> 0 < Dag.dsize s.
Proof. intros s r RK. rewrite <- dabs_size. exact (Ranked_nonempty (dabs s) r RK). Qed.

(* ------------------------------------------------------------------------------------------- *)
(** * The two `ancestors` functions agree (same list, same order) *)

Lemma dedup_acc_ext : forall l s1 s2, (forall y, memb y s1 = memb y s2) ->
  DagAlgo.dedup_acc s1 l = DagAlgo.dedup_acc s2 l.
Proof.
  induction l as [|x t IH]; intros s1 s2 H; cbn [DagAlgo.dedup_acc]; [reflexivity|].
  rewrite (H x). destruct (memb x s2).
  - apply IH. exact H.
  - f_equal. apply IH. intros y. cbn [memb existsb]. fold (memb y s1). fold (memb y s2).
    rewrite (H y). reflexivity.
Qed.

Lemma fold_addl_dedup_acc : forall l acc, fold_left addl l acc = acc ++ DagAlgo.dedup_acc acc l.
Proof.
  induction l as [|x t IH]; intros acc; cbn [fold_left DagAlgo.dedup_acc].
  - symmetry. apply app_nil_r.
  - rewrite IH. unfold addl. destruct (memb x acc) eqn:E; [reflexivity|].
    rewrite <- app_assoc. cbn [app]. f_equal. f_equal. apply dedup_acc_ext.
    intros y. rewrite DagProofs.memb_app. cbn [memb existsb]. fold (memb y acc).
    rewrite orb_false_r. apply orb_comm.
Qed.

Lemma dedup_agree : forall l, Dag.dedup l = DagAlgo.dedup l.
Proof. intros l. unfold Dag.dedup, DagAlgo.dedup. rewrite fold_addl_dedup_acc. reflexivity. Qed.

Lemma anc_raw_agree : forall s, Links s -> forall f x, DagAlgo.anc_raw f (dabs s) x = Dag.anc_raw s f x.
Proof.
  intros s L. induction f as [|f IH]; intros x; cbn [DagAlgo.anc_raw Dag.anc_raw]; [reflexivity|].
  rewrite dabs_parents_all by exact L. apply flat_map_ext. intros p. rewrite IH. reflexivity.
Qed.

Theorem dabs_ancestors : forall s x, Links s -> DagAlgo.ancestors (dabs s) x = Dag.dag_ancestors s x.
Proof.
  intros s x L. unfold DagAlgo.ancestors, Dag.dag_ancestors.
  rewrite dabs_size, anc_raw_agree by exact L. symmetry. apply dedup_agree.
Qed.

(* ------------------------------------------------------------------------------------------- *)
(** * The queries on a graph without nodes (the one case Ranked does not cover) *)

Lemma no_edge_in_empty : forall g, DagAlgo.dsize g = 0 -> forall a b, ~ Edge g a b.
Proof.
  intros g E a b H. unfold Edge in H.
  destruct (out_of_range g a) as [_ EC]; [lia|]. rewrite EC in H. exact H.
Qed.

Lemma no_reach_in_empty : forall g, DagAlgo.dsize g = 0 -> forall a b, ~ Reach g a b.
Proof.
  intros g E a b H. inversion H as [? ? He|? c ? He _]; subst; exact (no_edge_in_empty g E _ _ He).
Qed.

Lemma empty_graph_queries : forall g x, DagAlgo.dsize g = 0 ->
  ((forall a, In a (DagAlgo.ancestors g x) <-> Reach g a x) /\ NoDup (DagAlgo.ancestors g x))
  /\ ((forall d, In d (DagAlgo.descendants g x) <-> Reach g x d) /\ NoDup (DagAlgo.descendants g x)).
Proof.
  intros g x E. unfold DagAlgo.ancestors, DagAlgo.descendants. rewrite E.
  cbn [DagAlgo.anc_raw DagAlgo.pre_raw filter DagAlgo.dedup DagAlgo.dedup_acc].
  split; (split; [|constructor]).
  - intros a. split; [intros []|]. intros H. exact (no_reach_in_empty g E _ _ H).
  - intros d. split; [intros []|]. intros H. exact (no_reach_in_empty g E _ _ H).
Qed.

Lemma dabs_empty_queries : forall s x, Dag.dsize s = 0 ->
  ((forall a, In a (DagAlgo.ancestors (dabs s) x) <-> Reach (dabs s) a x) /\ NoDup (DagAlgo.ancestors (dabs s) x))
  /\ ((forall d, In d (DagAlgo.descendants (dabs s) x) <-> Reach (dabs s) x d)
      /\ NoDup (DagAlgo.descendants (dabs s) x)).
Proof. intros s x E. apply empty_graph_queries. rewrite dabs_size. exact E. Qed.

(* ------------------------------------------------------------------------------------------- *)
(** * The number of objects never decreases *)

Lemma del_item_size : forall s p nm, Dag.dsize (fst (del_item s p nm)) = Dag.dsize s.
Proof.
  intros s p nm. unfold del_item. destruct (filter _ _) as [|c [|c' t]]; reflexivity.
Qed.

Lemma construct_size : forall cfg s nm pa ca ftp ftc,
  Dag.dsize (fst (construct cfg s nm pa ca ftp ftc)) = S (Dag.dsize s).
Proof.
  intros cfg s nm pa ca ftp ftc. unfold construct.
  pose proof (set_parents_size cfg ftp (alloc s nm) (Dag.dsize s) (carg_cont pa) (carg_args pa)) as S2.
  destruct (set_parents cfg ftp (alloc s nm) (Dag.dsize s) (carg_cont pa) (carg_args pa)) as [s2 o2].
  cbn [fst] in S2. destruct o2 as [|e]; cbv beta iota.
  - rewrite set_children_size, S2. reflexivity.
  - cbn [fst]. rewrite S2. reflexivity.
Qed.

Lemma dstep_size_ge : forall cfg s o, Dag.dsize s <= Dag.dsize (fst (dstep cfg s o)).
Proof.
  intros cfg s o. unfold dstep. destruct (negb (dop_in_range s o)); [cbn [fst]; lia|].
  destruct o as [c cont args ft | p cont args ft | p | p nm | p c ft | c p ft | nm pa ca ftp ftc].
  - rewrite set_parents_size. lia.
  - rewrite set_children_size. lia.
  - cbn [fst]. rewrite del_children_size. lia.
  - rewrite del_item_size. lia.
  - rewrite set_parents_size. lia.
  - rewrite set_parents_size. lia.
  - rewrite construct_size. lia.
Qed.

Lemma drun_size_ge : forall cfg ops s, Dag.dsize s <= Dag.dsize (drun cfg s ops).
Proof.
  unfold drun. induction ops as [|o t IH]; intros s; cbn [fold_left]; [lia|].
  pose proof (dstep_size_ge cfg s o). pose proof (IH (fst (dstep cfg s o))). lia.
Qed.

(* ------------------------------------------------------------------------------------------- *)
(** * (d) every reachable state *)

Theorem reachable_dag_is_wf_ranked : forall cfg n names ops,
  let s := drun cfg (dinit n names) ops in
  Wf (dabs s)
  /\ (forall y, ~ Reach (dabs s) y y)
  /\ (0 < Dag.dsize s -> exists r, Ranked (dabs s) r).
Proof.
  intros cfg n names ops s.
  assert (W : DWF s) by (apply drun_DWF, DWF_init).
  split; [apply dabs_Wf; exact W|]. split; [apply dabs_Acyclic; exact W|].
  apply dabs_Ranked. exact W.
Qed.

(* in the form of the brief: starting from at least one object *)
Corollary reachable_nonempty_dag_is_wf_ranked : forall cfg n names ops, 0 < n ->
  let s := drun cfg (dinit n names) ops in
  Wf (dabs s) /\ exists r, Ranked (dabs s) r.
Proof.
  intros cfg n names ops Hn s.
  assert (W : DWF s) by (apply drun_DWF, DWF_init).
  split; [apply dabs_Wf; exact W|]. apply dabs_Ranked; [exact W|].
  pose proof (drun_size_ge cfg ops (dinit n names)) as H. cbn [Dag.dsize dinit] in H. unfold s. lia.
Qed.

(* C10's `ancestors` is C16's `ancestors` on every reachable state *)
Theorem reachable_ancestors_agree : forall cfg n names ops x,
  let s := drun cfg (dinit n names) ops in
  DagAlgo.ancestors (dabs s) x = Dag.dag_ancestors s x.
Proof.
  intros cfg n names ops x s. apply dabs_ancestors.
  assert (W : DWF s) by (apply drun_DWF, DWF_init). exact (proj1 W).
Qed.
