(* Every structural operation of BaseNode / Node preserves WF, has exactly its documented effect
   when accepted, and changes nothing when rejected or when a hook fails. *)
From BT Require Import Base.Prelude Base.Str Heap.Forest Heap.ForestWF.

Definition np_of (a : arg) : option id := match a with ANode p => Some p | _ => None end.

Lemma parent_loop_false s c np :
  parent_loop s c np = false ->
  forall p, np = Some p -> p <> c /\ ~ In c (ancestors s p).
Proof.
  unfold parent_loop. intros H p ->. apply orb_false_iff in H as [H1 H2].
  split; [apply Nat.eqb_neq; exact H1|apply memb_false; exact H2].
Qed.

(* ---------------- parent setter ---------------- *)
Theorem set_parent_cases cfg ft s c a :
  let r := set_parent cfg ft s c a in
  (snd r = Ok /\ fst r = attach s c (np_of a) /\ a <> AJunk /\ parent_loop s c (np_of a) = false /\ ft = NoFault)
  \/ (snd r <> Ok /\ fst r = s)
  \/ (snd r = Err TreeError /\ ft = PostFail /\ a <> AJunk /\ parent_loop s c (np_of a) = false
      /\ fst r = attach_rollback s (attach s c (np_of a)) c (np_of a)).
Proof.
  unfold set_parent. destruct a as [p| |].
  - cbn [np_of]. destruct (parent_loop s c (Some p)) eqn:L; [right; left; split; [discriminate|reflexivity]|].
    destruct ft; cbn [fault_eqb].
    + destruct (is_node cfg && dup_name_under s c p); [right; left; split; [discriminate|reflexivity]|].
      left. repeat split; discriminate.
    + right; left; split; [discriminate|reflexivity].
    + destruct (is_node cfg && dup_name_under s c p); [right; left; split; [discriminate|reflexivity]|].
      right; right. repeat split; discriminate.
  - cbn [np_of parent_loop]. destruct ft; cbn [fault_eqb]; rewrite ?andb_false_r.
    + left. repeat split; discriminate.
    + right; left; split; [discriminate|reflexivity].
    + right; right. repeat split; discriminate.
  - right; left. split; [discriminate|reflexivity].
Qed.

Theorem set_parent_WF cfg ft s c a :
  WF s -> c < size s -> (forall p, a = ANode p -> p < size s) ->
  WF (fst (set_parent cfg ft s c a)).
Proof.
  intros W Hc Ha.
  destruct (set_parent_cases cfg ft s c a) as [[_ [-> [_ [L _]]]]|[[_ ->]|[_ [_ [_ [L ->]]]]]].
  - apply attach_WF; [exact W|exact Hc|].
    intros p E. destruct (parent_loop_false _ _ _ L p E) as [H1 H2].
    split; [|split; assumption]. apply Ha. destruct a; cbn in E; congruence.
  - exact W.
  - apply (WF_same s); [|exact W]. apply same_sym, attach_rollback_same; [exact W|].
    intros p E. apply (parent_loop_false _ _ _ L p E).
Qed.

(* C02 for the parent setter: any rejection or hook failure leaves every link as it was *)
Theorem set_parent_atomic cfg ft s c a :
  WF s -> snd (set_parent cfg ft s c a) <> Ok -> same (fst (set_parent cfg ft s c a)) s.
Proof.
  intros W H.
  destruct (set_parent_cases cfg ft s c a) as [[E _]|[[_ ->]|[_ [_ [_ [L ->]]]]]].
  - contradiction.
  - apply same_refl.
  - apply attach_rollback_same; [exact W|]. intros p E. apply (parent_loop_false _ _ _ L p E).
Qed.

(* C01 effect of an accepted parent assignment: the node leaves its old sibling list (the others
   keep their order), becomes the LAST child of the new parent, nothing else changes *)
Theorem set_parent_effect cfg ft s c a s' :
  WF s -> set_parent cfg ft s c a = (s', Ok) ->
  (forall x, par s' x = if Nat.eqb x c then np_of a else par s x)
  /\ (forall q, kids s' q = remove1 c (kids s q) ++ (if is_parent (np_of a) q then [c] else []))
  /\ size s' = size s.
Proof.
  intros W E.
  destruct (set_parent_cases cfg ft s c a) as [[_ [H _]]|[[H _]|[H _]]];
    rewrite E in H; cbn [fst snd] in H; try congruence.
  subst s'. split; [intros; apply attach_par|]. split; [intros; apply attach_kids; exact W|apply attach_size].
Qed.

(* what the guards reject (checks on) *)
Theorem set_parent_rejects cfg ft s c a :
  assertions cfg = true ->
  (a = AJunk \/ a = ANode c \/ (exists p, a = ANode p /\ In c (ancestors s p))) ->
  exists e, set_parent cfg ft s c a = (s, Err e) /\ (e = TypeError \/ e = LoopError).
Proof.
  intros A [->|[->|[p [-> H]]]]; unfold set_parent; rewrite A.
  - eexists; split; [reflexivity|left; reflexivity].
  - cbn [parent_loop]. rewrite Nat.eqb_refl. cbn [orb]. eexists; split; [reflexivity|right; reflexivity].
  - cbn [parent_loop]. apply memb_In in H. rewrite H, orb_true_r. eexists; split; [reflexivity|right; reflexivity].
Qed.

(* ---------------- list facts for the children setter ---------------- *)
Definition notin (l : list id) (y : id) : bool := negb (memb y l).

Lemma filter_neq_notin c l : ~ In c l -> filter (fun y => negb (Nat.eqb y c)) l = l.
Proof.
  induction l as [|y t IH]; cbn [filter]; intros H; [reflexivity|].
  destruct (Nat.eqb_spec y c) as [->|Hne]; [exfalso; apply H; left; reflexivity|].
  cbn [negb]. f_equal. apply IH. intros Hin. apply H. right. exact Hin.
Qed.

Lemma remove1_filter c l : NoDup l -> remove1 c l = filter (fun y => negb (Nat.eqb y c)) l.
Proof.
  induction l as [|y t IH]; cbn [remove1 filter]; intros Hnd; [reflexivity|].
  inversion Hnd as [|? ? Hy Ht]; subst.
  destruct (Nat.eqb_spec c y) as [->|Hne].
  - rewrite Nat.eqb_refl. cbn [negb]. symmetry. apply filter_neq_notin. exact Hy.
  - destruct (Nat.eqb_spec y c); [congruence|]. cbn [negb]. f_equal. apply IH, Ht.
Qed.

Lemma notin_cons c l y : notin (c :: l) y = negb (Nat.eqb y c) && notin l y.
Proof. unfold notin. cbn [memb existsb]. rewrite negb_orb. reflexivity. Qed.

Lemma filter_filter {A} (f g : A -> bool) k :
  filter f (filter g k) = filter (fun y => g y && f y) k.
Proof.
  induction k as [|y t IH]; cbn [filter]; [reflexivity|].
  destruct (g y); cbn [andb filter]; [destruct (f y); [f_equal|]; exact IH|exact IH].
Qed.

Lemma filter_filter_notin c l (k : list id) :
  filter (notin l) (filter (fun y => negb (Nat.eqb y c)) k) = filter (notin (c :: l)) k.
Proof.
  rewrite filter_filter. apply filter_ext. intros y. symmetry. apply notin_cons.
Qed.

Lemma NoDup_filter (f : id -> bool) l : NoDup l -> NoDup (filter f l).
Proof.
  induction l as [|y t IH]; cbn [filter]; intros Hnd; [constructor|].
  inversion Hnd; subst. destruct (f y); [constructor; [rewrite filter_In; tauto|]|]; apply IH; assumption.
Qed.

Lemma fold_remove1_filter news : forall l, NoDup l ->
  fold_left (fun acc x => remove1 x acc) news l = filter (notin news) l.
Proof.
  induction news as [|x news IH]; intros l Hnd; cbn [fold_left].
  - symmetry. rewrite <- (filter_ext (fun _ => true)); [|reflexivity].
    induction l; cbn; [reflexivity|f_equal; apply IHl; inversion Hnd; assumption].
  - rewrite IH by (apply NoDup_remove1; exact Hnd). rewrite remove1_filter by exact Hnd.
    apply filter_filter_notin.
Qed.

(* ---------------- ancestors are insensitive to changes away from the chain ---------------- *)
Lemma anc_frame s t f : forall c,
  (forall y, y = c \/ In y (anc s f c) -> par t y = par s y) -> anc t f c = anc s f c.
Proof.
  induction f as [|f IH]; intros c H; [reflexivity|].
  cbn [anc] in *. rewrite (H c) by (left; reflexivity).
  destruct (par s c) as [p|] eqn:E; [|reflexivity]. f_equal. apply IH.
  intros y [->|Hy]; apply H; right; [left; reflexivity|right; exact Hy].
Qed.

Lemma ancestors_frame s t c :
  size t = size s -> (forall y, y = c \/ In y (ancestors s c) -> par t y = par s y) ->
  ancestors t c = ancestors s c.
Proof. intros Hs H. unfold ancestors. rewrite Hs. apply anc_frame. exact H. Qed.

Lemma child_not_above s c p : WF s -> par s c = Some p -> c <> p /\ ~ In c (ancestors s p).
Proof.
  intros [_ _ Hb [r Hr]] E. pose proof (Hr _ _ E) as Hlt. split.
  - intros ->. lia.
  - intros H. apply (anc_rank s r Hr) in H. lia.
Qed.

(* ---------------- children deleter ---------------- *)
Lemma orphan_attach s c : orphan s c = attach s c None.
Proof. reflexivity. Qed.

(* orphaning a list l of distinct children of p *)
Lemma orphans_spec p : forall l s,
  WF s -> NoDup l -> (forall x, In x l -> par s x = Some p) ->
  let s' := fold_left orphan l s in
  WF s'
  /\ size s' = size s
  /\ (forall x, par s' x = if memb x l then None else par s x)
  /\ (forall q, kids s' q = if Nat.eqb q p then filter (notin l) (kids s q) else kids s q)
  /\ (forall x, name s' x = name s x) /\ (forall x, sepf s' x = sepf s x).
Proof.
  induction l as [|c l IH]; intros s W Hnd Hp; cbn [fold_left].
  - split; [exact W|]. split; [reflexivity|]. split; [intros; reflexivity|].
    split; [|split; intros; reflexivity].
    intros q. destruct (Nat.eqb q p); [|reflexivity].
    symmetry. rewrite <- (filter_ext (fun _ => true)); [|reflexivity].
    induction (kids s q); cbn; [reflexivity|f_equal; assumption].
  - inversion Hnd as [|? ? Hc Hl]; subst.
    assert (Ec : par s c = Some p) by (apply Hp; left; reflexivity).
    assert (Hcs : c < size s) by (apply (wf_bound s W c p Ec)).
    assert (W1 : WF (orphan s c)).
    { rewrite orphan_attach. apply attach_WF; [exact W|exact Hcs|intros ? [=]]. }
    specialize (IH (orphan s c) W1 Hl).
    assert (Hp1 : forall x, In x l -> par (orphan s c) x = Some p).
    { intros x Hx. rewrite orphan_attach, attach_par.
      destruct (Nat.eqb_spec x c) as [->|]; [contradiction|]. apply Hp. right. exact Hx. }
    destruct (IH Hp1) as [Wf [Hsz [Hpar [Hkids [Hnm Hsp]]]]].
    split; [exact Wf|]. split; [rewrite Hsz, orphan_attach; apply attach_size|].
    split; [|split; [|split]].
    + intros x. rewrite Hpar, orphan_attach, attach_par. cbn [memb existsb].
      rewrite (Nat.eqb_sym x c). fold (memb x l).
      destruct (Nat.eqb_spec c x) as [->|Hx]; cbn [orb].
      * destruct (memb x l); reflexivity.
      * reflexivity.
    + intros q. rewrite Hkids, orphan_attach, attach_kids by exact W. cbn [is_parent]. rewrite app_nil_r.
      destruct (Nat.eqb_spec q p) as [->|Hq].
      * rewrite remove1_filter by apply W. rewrite (filter_filter_notin c l). reflexivity.
      * apply remove1_notin. intros Hin. apply (wf_link s W) in Hin. congruence.
    + intros x. rewrite Hnm, orphan_attach. apply attach_name.
    + intros x. rewrite Hsp, orphan_attach. apply attach_sepf.
Qed.

Lemma filter_notin_sub l0 : forall l, (forall z, In z l -> In z l0) -> filter (notin l0) l = [].
Proof.
  induction l as [|z l IHl]; intros H; [reflexivity|]. cbn [filter]. unfold notin at 1.
  assert (E : memb z l0 = true) by (apply memb_In, H; left; reflexivity).
  rewrite E. cbn [negb]. apply IHl. intros w Hw. apply H. right. exact Hw.
Qed.

Theorem del_children_spec s p :
  WF s ->
  let s' := del_children s p in
  WF s' /\ size s' = size s
  /\ (forall x, par s' x = if memb x (kids s p) then None else par s x)
  /\ kids s' p = []
  /\ (forall q, q <> p -> kids s' q = kids s q).
Proof.
  intros W. unfold del_children.
  destruct (orphans_spec p (kids s p) s W (wf_nodup s W p)) as [Wf [Hsz [Hpar [Hk _]]]].
  { intros x Hx. apply (wf_link s W). exact Hx. }
  split; [exact Wf|]. split; [exact Hsz|]. split; [exact Hpar|]. split.
  - rewrite Hk, Nat.eqb_refl. apply filter_notin_sub. intros z Hz. exact Hz.
  - intros q Hq. rewrite Hk. destruct (Nat.eqb_spec q p); [contradiction|reflexivity].
Qed.

(* ---------------- children setter: the stealing loop ---------------- *)
(* `u` is the state inside the loop (kids p already overwritten with the full new list L);
   `t` is the state obtained by moving the children one at a time with `attach`.  They agree
   everywhere except on kids p, and agree there too when the loop ends. *)
Lemma steal_loop p L : forall rest u t done,
  WF t -> NoDup (done ++ rest) -> ~ In p rest -> kids t p = done -> p < size t ->
  (forall x, In x rest -> x < size t /\ ~ In x (ancestors t p)) ->
  size u = size t -> (forall x, par u x = par t x) ->
  (forall q, q <> p -> kids u q = kids t q) -> kids u p = L ->
  let u' := fold_left (steal p) rest u in
  let t' := fold_left (fun st x => attach st x (Some p)) rest t in
  WF t' /\ size t' = size t /\ size u' = size t'
  /\ (forall x, par u' x = par t' x) /\ (forall q, q <> p -> kids u' q = kids t' q)
  /\ kids u' p = L /\ kids t' p = done ++ rest
  /\ (forall x, par t' x = if memb x rest then Some p else par t x)
  /\ (forall q, q <> p -> kids t' q = fold_left (fun acc x => remove1 x acc) rest (kids t q)).
Proof.
  induction rest as [|x rest IH]; intros u t done W Hnd Hp Hk Hps Hr Hsz Hpar Hkids HL; cbn [fold_left].
  - rewrite app_nil_r. repeat (split; [first [exact W|reflexivity|assumption]|]).
    intros q _. reflexivity.
  - assert (Hxd : ~ In x done).
    { apply NoDup_remove_2 in Hnd. intros H. apply Hnd. apply in_or_app. left. exact H. }
    assert (Hxp : x <> p) by (intros ->; apply Hp; left; reflexivity).
    destruct (Hr x (or_introl eq_refl)) as [Hxs Hxa].
    assert (Hnotp : par t x <> Some p).
    { intros E. apply (wf_link t W) in E. rewrite Hk in E. contradiction. }
    set (t1 := attach t x (Some p)).
    assert (W1 : WF t1).
    { apply attach_WF; [exact W|exact Hxs|]. intros p0 [= <-]. split; [exact Hps|]. split; [congruence|exact Hxa]. }
    assert (Hk1 : kids t1 p = done ++ [x]).
    { unfold t1. rewrite attach_kids by exact W. cbn [is_parent]. rewrite Nat.eqb_refl, Hk.
      rewrite remove1_notin by exact Hxd. reflexivity. }
    assert (Hs1 : size t1 = size t) by apply attach_size.
    assert (Ha1 : ancestors t1 p = ancestors t p).
    { apply ancestors_frame; [exact Hs1|]. intros y Hy. unfold t1. rewrite attach_par.
      destruct (Nat.eqb_spec y x) as [->|]; [|reflexivity].
      destruct Hy as [->|Hy]; [congruence|contradiction]. }
    set (u1 := steal p u x).
    assert (Hpar1 : forall y, par u1 y = par t1 y).
    { intros y. unfold u1, t1, steal. rewrite attach_par.
      destruct (par u x); cbn [par set_par set_kids]; unfold upd;
        destruct (Nat.eqb y x); [reflexivity|apply Hpar|reflexivity|apply Hpar]. }
    assert (Hkids1 : forall q, q <> p -> kids u1 q = kids t1 q).
    { intros q Hq. unfold u1, t1, steal. rewrite attach_kids by exact W. cbn [is_parent].
      destruct (Nat.eqb_spec p q) as [->|_]; [contradiction|]. rewrite app_nil_r.
      rewrite Hpar. destruct (par t x) as [q0|] eqn:E; cbn [kids set_par set_kids].
      - destruct (Nat.eq_dec q q0) as [->|Hq0].
        + rewrite upd_same. rewrite Hkids by exact Hq. reflexivity.
        + rewrite upd_other by exact Hq0. rewrite Hkids by exact Hq. symmetry. apply remove1_notin.
          intros Hin. apply (wf_link t W) in Hin. congruence.
      - rewrite Hkids by exact Hq. symmetry. apply remove1_notin.
        intros Hin. apply (wf_link t W) in Hin. congruence. }
    assert (HL1 : kids u1 p = L).
    { unfold u1, steal. rewrite Hpar. destruct (par t x) as [q0|] eqn:E; cbn [kids set_par set_kids]; [|exact HL].
      rewrite upd_other; [exact HL|]. intros ->. apply Hnotp. reflexivity. }
    assert (Hsz1 : size u1 = size t1).
    { unfold u1, steal. destruct (par u x); cbn [size set_par set_kids]; rewrite Hs1; exact Hsz. }
    assert (Hnd1 : NoDup ((done ++ [x]) ++ rest)) by (rewrite <- app_assoc; exact Hnd).
    assert (Hp1 : ~ In p rest) by (intros H; apply Hp; right; exact H).
    assert (Hr1 : forall y, In y rest -> y < size t1 /\ ~ In y (ancestors t1 p)).
    { intros y Hy. rewrite Hs1, Ha1. apply Hr. right. exact Hy. }
    destruct (IH u1 t1 (done ++ [x]) W1 Hnd1 Hp1 Hk1 ltac:(rewrite Hs1; exact Hps) Hr1 Hsz1 Hpar1 Hkids1 HL1)
      as [Wf [Hsf [Hsuf [Hpf [Hkf [HLf [Hkpf [Hparf Hkqf]]]]]]]].
    split; [exact Wf|]. split; [rewrite Hsf; exact Hs1|]. split; [exact Hsuf|].
    split; [exact Hpf|]. split; [exact Hkf|]. split; [exact HLf|].
    split; [rewrite Hkpf, <- app_assoc; reflexivity|]. split.
    + intros y. rewrite Hparf. unfold t1. rewrite attach_par. cbn [memb existsb].
      rewrite (Nat.eqb_sym y x). fold (memb y rest).
      destruct (Nat.eqb x y); cbn [orb]; destruct (memb y rest); reflexivity.
    + intros q Hq. rewrite Hkqf by exact Hq. unfold t1. rewrite attach_kids by exact W. cbn [is_parent].
      destruct (Nat.eqb_spec p q) as [->|_]; [contradiction|]. rewrite app_nil_r. reflexivity.
Qed.

(* valid argument of the children setter *)
Definition valid_children (s : forest) (p : id) (news : list id) : Prop :=
  NoDup news /\ ~ In p news /\ (forall x, In x news -> x < size s /\ ~ In x (ancestors s p)).

(* C01 effect of an accepted children assignment: the new list exactly as given; the previous
   children that are not re-listed become roots; each donor parent loses exactly the stolen
   children and keeps the order of the rest; nothing else changes *)
Theorem assign_children_spec s p news :
  WF s -> p < size s -> valid_children s p news ->
  let s' := assign_children s p news in
  WF s' /\ size s' = size s
  /\ (forall x, par s' x = if memb x news then Some p
                           else if memb x (kids s p) then None else par s x)
  /\ kids s' p = news
  /\ (forall q, q <> p -> kids s' q = filter (notin news) (kids s q)).
Proof.
  intros W Hp [Hnd [Hpn Hv]]. unfold assign_children.
  destruct (del_children_spec s p W) as [W1 [Hs1 [Hpar1 [Hk1 Hkq1]]]].
  set (s1 := del_children s p) in *.
  assert (Ha1 : ancestors s1 p = ancestors s p).
  { apply ancestors_frame; [exact Hs1|]. intros y Hy. rewrite Hpar1.
    destruct (memb y (kids s p)) eqn:E; [|reflexivity].
    apply memb_In in E. apply (wf_link s W) in E. destruct (child_not_above s y p W E) as [H1 H2].
    destruct Hy as [->|Hy]; [congruence|contradiction]. }
  destruct (steal_loop p news news (set_kids s1 p news) s1 [] W1) as
    [Wf [Hsf [Hsuf [Hpf [Hkf [HLf [Hkpf [Hparf Hkqf]]]]]]]]; try assumption; try reflexivity.
  - rewrite Hs1. exact Hp.
  - intros x Hx. rewrite Hs1, Ha1. apply Hv. exact Hx.
  - intros q Hq. cbn [kids set_kids]. apply upd_other. exact Hq.
  - cbn [kids set_kids]. apply upd_same.
  - set (u' := fold_left (steal p) news (set_kids s1 p news)) in *.
    set (t' := fold_left (fun st x => attach st x (Some p)) news s1) in *.
    assert (Hsame : same t' u').
    { split; [symmetry; exact Hsuf|]. intros x. split; [symmetry; apply Hpf|].
      destruct (Nat.eq_dec x p) as [->|Hx]; [transitivity news; [exact Hkpf|symmetry; exact HLf]|symmetry; apply Hkf; exact Hx]. }
    split; [apply (WF_same t' u' Hsame Wf)|]. split; [rewrite Hsuf, Hsf; exact Hs1|].
    split; [intros x; rewrite Hpf, Hparf, Hpar1; reflexivity|]. split; [exact HLf|].
    intros q Hq. rewrite Hkf, Hkqf by exact Hq. rewrite Hkq1 by exact Hq.
    apply fold_remove1_filter. apply (wf_nodup s W).
Qed.

Lemma check_children_ok s p : forall args seen,
  check_children s p args seen = None ->
  (forall a, In a args -> exists x, a = ANode x)
  /\ NoDup (ids_of args) /\ (forall x, In x (ids_of args) -> ~ In x seen)
  /\ ~ In p (ids_of args) /\ (forall x, In x (ids_of args) -> ~ In x (ancestors s p)).
Proof.
  induction args as [|a args IH]; intros seen H; cbn [check_children ids_of] in *.
  - split; [intros a []|]. split; [constructor|]. split; [intros x []|]. split; [intros []|intros x []].
  - destruct a as [x| |]; try discriminate.
    destruct (Nat.eqb_spec x p) as [->|Hxp]; [discriminate|].
    destruct (memb x (ancestors s p)) eqn:Ea; [discriminate|].
    destruct (memb x seen) eqn:Es; [discriminate|].
    destruct (IH _ H) as [H1 [H2 [H3 [H4 H5]]]].
    apply memb_false in Ea. apply memb_false in Es.
    split; [intros a [<-|Ha]; [eexists; reflexivity|apply H1; exact Ha]|].
    split; [constructor; [intros Hin; apply (H3 _ Hin); left; reflexivity|exact H2]|].
    split; [intros y [<-|Hy]; [exact Es|intros Hs; apply (H3 _ Hy); right; exact Hs]|].
    split; [intros [E|Hin]; [congruence|contradiction]|].
    intros y [<-|Hy]; [exact Ea|apply H5; exact Hy].
Qed.
