(* Node conservation: the tag-addressed surgery of Heap/AbsSurgery.v neither loses nor duplicates
   nodes.
     - cutting out the (unique) subtree tagged c splits the node list        (cut_splits)
     - grafting below the (unique) node tagged p adds exactly the grafted tree (graft_adds)
     - cut followed by graft of the cut-out subtree is a permutation of the nodes
                                                                              (surgery_conserves)
     - hence after an accepted `c.parent = p` the tree below every node r that contains both c
       (properly) and p (outside the c-subtree) has exactly the same nodes  (attach_conserves) *)
From Coq Require Import Sorting.Permutation.
From BT Require Import Base.Prelude Base.Str Base.Rose Heap.Forest Heap.ForestWF Heap.ForestOps
     Heap.ForestStep Heap.ForestNames Heap.Abs Heap.AbsSurgery Algo.ModifySurgery.

(* ---------------- small facts ---------------- *)
Lemma ftags_cons k f : ftags (k :: f) = tags k ++ ftags f.
Proof. reflexivity. Qed.

Lemma ftags_app f1 f2 : ftags (f1 ++ f2) = ftags f1 ++ ftags f2.
Proof. unfold ftags. apply flat_map_app. Qed.

Lemma pre_in_tags u t : In u (pre t) -> In (ttag u) (tags t).
Proof. intros H. unfold tags. apply in_map. exact H. Qed.

Lemma fpre_in_ftags u (f : list tree) : In u (flat_map pre f) -> In (ttag u) (ftags f).
Proof.
  intros H. apply in_flat_map in H as [k [Hk Hu]]. apply in_flat_map. exists k.
  split; [exact Hk|apply pre_in_tags; exact Hu].
Qed.

Lemma tag_is_false_ne c t : ttag t <> Some c -> tag_is c t = false.
Proof.
  intros H. unfold tag_is. destruct (ttag t) as [x|]; [|reflexivity].
  apply Nat.eqb_neq. intros ->. apply H. reflexivity.
Qed.

(* in a tree with distinct tags the only subtree carrying the root's tag is the tree itself *)
Lemma pre_root_unique t u : NoDup (tags t) -> In u (pre t) -> ttag u = ttag t -> u = t.
Proof.
  destruct t as [g n a ks]. rewrite tags_T. cbn [pre ttag]. intros H Hu Ht.
  destruct Hu as [<-|Hu]; [reflexivity|]. exfalso.
  inversion H as [|? ? Hg _]; subst. apply Hg. apply fpre_in_ftags in Hu. exact Hu.
Qed.

(* ---------------- (1) cut splits the nodes ---------------- *)
Definition cut_splits_at (c : id) (t : tree) : Prop :=
  forall u, NoDup (tags t) -> In u (pre t) -> ttag u = Some c -> ttag t <> Some c ->
  Permutation (tags t) (tags (cut c t) ++ tags u).

Lemma cutf_splits c : forall ks, Forall (cut_splits_at c) ks ->
  forall u, NoDup (ftags ks) -> In u (flat_map pre ks) -> ttag u = Some c ->
  Permutation (ftags ks) (ftags (cutf c ks) ++ tags u).
Proof.
  induction ks as [|k ks IHks]; intros IH u Hnd Hu Ht; [contradiction|].
  inversion IH as [|? ? Hk Hr]; subst.
  rewrite ftags_cons in Hnd. destruct (NoDup_app_inv _ _ Hnd) as [H1 [H2 Hd]].
  cbn [flat_map] in Hu. apply in_app_or in Hu. rewrite cutf_cons, ftags_cons.
  destruct Hu as [Hu|Hu].
  - (* u lives in the first tree: the rest of the forest does not mention c *)
    assert (Hck : In (Some c) (tags k)) by (rewrite <- Ht; apply pre_in_tags; exact Hu).
    assert (Hrest : cutf c ks = ks) by (apply cutf_absent; apply Hd; exact Hck).
    rewrite Hrest.
    destruct (tag_is c k) eqn:Etag.
    + (* k itself is the subtree tagged c *)
      assert (Ek : ttag k = Some c).
      { unfold tag_is in Etag. destruct (ttag k) as [x|]; [|discriminate].
        apply Nat.eqb_eq in Etag. subst x. reflexivity. }
      assert (Euk : u = k) by (apply pre_root_unique; [exact H1|exact Hu|congruence]).
      subst u. apply Permutation_app_comm.
    + assert (Ek : ttag k <> Some c).
      { intros E. rewrite (tag_is_true c k E) in Etag. discriminate. }
      rewrite ftags_cons.
      apply Permutation_trans with ((tags (cut c k) ++ tags u) ++ ftags ks).
      * apply Permutation_app_tail. apply (Hk u H1 Hu Ht Ek).
      * rewrite <- !app_assoc. apply Permutation_app_head. apply Permutation_app_comm.
  - (* u lives in the rest: the first tree does not mention c *)
    assert (Hcr : In (Some c) (ftags ks)) by (rewrite <- Ht; apply fpre_in_ftags; exact Hu).
    assert (Hnk : ~ In (Some c) (tags k)) by (intros Hin; exact (Hd _ Hin Hcr)).
    rewrite (tag_is_false c k Hnk), (cut_absent c k Hnk), ftags_cons, <- app_assoc.
    apply Permutation_app_head. apply (IHks Hr u H2 Hu Ht).
Qed.

Theorem cut_splits : forall c t u,
  NoDup (tags t) -> In u (pre t) -> ttag u = Some c -> ttag t <> Some c ->
  Permutation (tags t) (tags (cut c t) ++ tags u).
Proof.
  intros c t. change (cut_splits_at c t).
  induction t as [g n a ks IH] using tree_ind'. intros u Hnd Hu Ht Hroot.
  rewrite cut_T, !tags_T in *. cbn [pre ttag] in *.
  destruct Hu as [<-|Hu]; [cbn [ttag] in Ht; contradiction|].
  inversion Hnd as [|? ? _ Hks]; subst.
  cbn [app]. apply perm_skip. apply (cutf_splits c ks IH u Hks Hu Ht).
Qed.

(* ---------------- (2) graft adds the nodes of the grafted tree ---------------- *)
Definition graft_adds_at (p : id) (u : tree) (t : tree) : Prop :=
  NoDup (tags t) -> In (Some p) (tags t) -> Permutation (tags (graft p u t)) (tags t ++ tags u).

Lemma graftf_adds p u : forall ks, Forall (graft_adds_at p u) ks ->
  NoDup (ftags ks) -> In (Some p) (ftags ks) ->
  Permutation (ftags (graftf p u ks)) (ftags ks ++ tags u).
Proof.
  induction ks as [|k ks IHks]; intros IH Hnd Hp; [contradiction|].
  inversion IH as [|? ? Hk Hr]; subst.
  rewrite ftags_cons in Hnd, Hp. destruct (NoDup_app_inv _ _ Hnd) as [H1 [H2 Hd]].
  change (graftf p u (k :: ks)) with (graft p u k :: graftf p u ks). rewrite !ftags_cons.
  apply in_app_or in Hp. destruct Hp as [Hp|Hp].
  - rewrite (graftf_absent p u ks) by (apply Hd; exact Hp).
    apply Permutation_trans with ((tags k ++ tags u) ++ ftags ks).
    + apply Permutation_app_tail. apply (Hk H1 Hp).
    + rewrite <- !app_assoc. apply Permutation_app_head. apply Permutation_app_comm.
  - assert (Hnk : ~ In (Some p) (tags k)) by (intros Hin; exact (Hd _ Hin Hp)).
    rewrite (graft_absent p u k Hnk), <- app_assoc. apply Permutation_app_head.
    apply (IHks Hr H2 Hp).
Qed.

Theorem graft_adds : forall p u t,
  NoDup (tags t) -> In (Some p) (tags t) -> Permutation (tags (graft p u t)) (tags t ++ tags u).
Proof.
  intros p u t. change (graft_adds_at p u t).
  induction t as [g n a ks IH] using tree_ind'. intros Hnd Hp.
  rewrite graft_T, !tags_T in *. inversion Hnd as [|? ? Hg Hks]; subst.
  cbn [app]. apply perm_skip.
  destruct (tag_is p (T g n a ks)) eqn:Etag.
  - (* the root is the target: nothing below it is tagged p *)
    assert (Eg : g = Some p).
    { unfold tag_is in Etag. cbn [ttag] in Etag. destruct g as [x|]; [|discriminate].
      apply Nat.eqb_eq in Etag. subst x. reflexivity. }
    subst g. rewrite (graftf_absent p u ks Hg), ftags_app.
    apply Permutation_app_head. unfold ftags. cbn [flat_map]. rewrite app_nil_r. apply Permutation_refl.
  - assert (Hin : In (Some p) (ftags ks)).
    { destruct Hp as [->|Hp]; [|exact Hp]. exfalso.
      unfold tag_is in Etag. cbn [ttag] in Etag. rewrite Nat.eqb_refl in Etag. discriminate. }
    apply (graftf_adds p u ks IH Hks Hin).
Qed.

(* ---------------- (3) cut then graft conserves the nodes ---------------- *)
Theorem surgery_conserves : forall c p t u,
  NoDup (tags t) -> In u (pre t) -> ttag u = Some c -> ttag t <> Some c ->
  In (Some p) (tags (cut c t)) ->
  Permutation (tags (graft p u (cut c t))) (tags t).
Proof.
  intros c p t u Hnd Hu Ht Hroot Hp.
  apply Permutation_trans with (tags (cut c t) ++ tags u).
  - apply graft_adds; [apply cut_nodup; exact Hnd|exact Hp].
  - apply Permutation_sym. apply cut_splits; assumption.
Qed.

Corollary surgery_nodup : forall c p t u,
  NoDup (tags t) -> In u (pre t) -> ttag u = Some c -> ttag t <> Some c ->
  In (Some p) (tags (cut c t)) ->
  NoDup (tags (graft p u (cut c t))).
Proof.
  intros c p t u Hnd Hu Ht Hroot Hp.
  apply (Permutation_NoDup (l := tags t)); [|exact Hnd].
  apply Permutation_sym. apply (surgery_conserves c p t u); assumption.
Qed.

(* the tags of the cut tree are the tags of the tree minus the tags of the cut-out subtree *)
Lemma cut_keeps_outside : forall c t u o,
  NoDup (tags t) -> In u (pre t) -> ttag u = Some c -> ttag t <> Some c ->
  In o (tags t) -> ~ In o (tags u) -> In o (tags (cut c t)).
Proof.
  intros c t u o Hnd Hu Ht Hroot Ho Hno.
  pose proof (cut_splits c t u Hnd Hu Ht Hroot) as HP.
  apply (Permutation_in o HP) in Ho. apply in_app_or in Ho. destruct Ho as [Ho|Ho]; [exact Ho|contradiction].
Qed.

(* ---------------- (4) lifted to the heap ---------------- *)
(* every subtree occurring in the rose tree below a heap node is the rose tree below a heap node *)
Lemma pre_subtree_n s : WF s -> forall n x u, size s < depth s x + n ->
  In u (pre (subtree s x)) -> exists z, u = subtree s z.
Proof.
  intros W. induction n as [|n IH]; intros x u H Hu; rewrite (subtree_unfold s x W) in Hu; cbn [pre] in Hu.
  - destruct (Nat.lt_ge_cases x (size s)) as [Hx|Hx]; [pose proof (depth_le_size s x W Hx); lia|].
    rewrite (kids_nil_outside s x W Hx) in Hu. cbn [map flat_map] in Hu.
    destruct Hu as [<-|[]]. exists x. rewrite (subtree_unfold s x W), (kids_nil_outside s x W Hx). reflexivity.
  - destruct Hu as [<-|Hu]; [exists x; symmetry; apply (subtree_unfold s x W)|].
    apply in_flat_map in Hu as [k [Hk Hu]]. apply in_map_iff in Hk as [y [<- Hy]].
    apply (wf_link s W) in Hy.
    apply (IH y u); [rewrite (depth_child s y x W Hy); lia|exact Hu].
Qed.

Lemma pre_subtree s x u : WF s -> In u (pre (subtree s x)) -> exists z, u = subtree s z.
Proof. intros W. apply (pre_subtree_n s W (S (size s))). unfold depth. lia. Qed.

(* a node inside the tree below r hangs there with its whole subtree *)
Lemma subtree_occurs s r c : WF s ->
  In (Some c) (tags (subtree s r)) -> In (subtree s c) (pre (subtree s r)).
Proof.
  intros W Hc. unfold tags in Hc. apply in_map_iff in Hc as [u [Ht Hu]].
  destruct (pre_subtree s r u W Hu) as [z ->]. rewrite subtree_tag in Ht.
  injection Ht as ->. exact Hu.
Qed.

(* a proper ancestor is outside the subtree *)
Lemma above_is_outside s r c : WF s ->
  In (Some c) (tags (subtree s r)) -> r <> c -> ~ In (Some r) (tags (subtree s c)).
Proof.
  intros W Hc Hne Hr.
  apply (subtree_members s r c W) in Hc. apply (subtree_members s c r W) in Hr.
  destruct Hc as [->|Hc]; [apply Hne; reflexivity|].
  destruct Hr as [->|Hr]; [apply Hne; reflexivity|].
  pose proof W as [_ _ Hb [rk Hrk]].
  apply (anc_rank s rk Hrk) in Hc. apply (anc_rank s rk Hrk) in Hr. lia.
Qed.

Theorem attach_conserves : forall s c p r,
  WF s -> c < size s -> p < size s -> p <> c -> ~ In c (ancestors s p) ->
  In (Some c) (tags (subtree s r)) -> r <> c ->
  In (Some p) (tags (subtree s r)) -> ~ In (Some p) (tags (subtree s c)) ->
  Permutation (tags (subtree (attach s c (Some p)) r)) (tags (subtree s r)).
Proof.
  intros s c p r W Hc Hp Hpc Hanc Hcr Hne Hpr Hpout.
  assert (Hr : ~ In (Some r) (tags (subtree s c))) by (apply above_is_outside; assumption).
  assert (Hnp : forall p0, Some p = Some p0 -> p0 < size s /\ p0 <> c /\ ~ In c (ancestors s p0)).
  { intros p0 [= <-]. repeat split; assumption. }
  rewrite (attach_is_surgery s c (Some p) W Hc Hnp r Hr). cbn [graft_opt].
  assert (Hnd : NoDup (tags (subtree s r))) by (apply subtree_tags_nodup; exact W).
  assert (Hu : In (subtree s c) (pre (subtree s r))) by (apply subtree_occurs; assumption).
  assert (Hroot : ttag (subtree s r) <> Some c) by (rewrite subtree_tag; intros [= E]; exact (Hne E)).
  apply (surgery_conserves c p (subtree s r) (subtree s c) Hnd Hu (subtree_tag s c) Hroot).
  apply (cut_keeps_outside c (subtree s r) (subtree s c) (Some p) Hnd Hu (subtree_tag s c) Hroot Hpr Hpout).
Qed.

(* the conserved node list stays duplicate-free (also a consequence of attach_WF + subtree_tags_nodup;
   here directly from the surgery) *)
Corollary attach_conserves_nodup : forall s c p r,
  WF s -> c < size s -> p < size s -> p <> c -> ~ In c (ancestors s p) ->
  In (Some c) (tags (subtree s r)) -> r <> c ->
  In (Some p) (tags (subtree s r)) -> ~ In (Some p) (tags (subtree s c)) ->
  NoDup (tags (subtree (attach s c (Some p)) r)).
Proof.
  intros s c p r W Hc Hp Hpc Hanc Hcr Hne Hpr Hpout.
  apply (Permutation_NoDup (l := tags (subtree s r))); [|apply subtree_tags_nodup; exact W].
  apply Permutation_sym. apply attach_conserves; assumption.
Qed.
