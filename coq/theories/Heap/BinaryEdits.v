(* BinaryNode operations as binary-tree edits (the analogue of Heap/AbsSurgery.v for the two-slot
   heap of Heap/Binary.v).  Everything is stated on `bsubtree s x : btree` (Heap/BinaryAbs.v), the
   binary tree hanging below node x of a well-formed state.

     1. frame            : a `bsubtree` depends only on the two slots of its own nodes
     2. c.parent = p     : the subtree below c moves intact; for every node r outside it the tree
                           below r afterwards is the tree below r before with the c-subtree cut out
                           (its slot becomes None) and written into the FIRST EMPTY slot of the node
                           tagged p (`bgraft`); closed forms at the new and at the old parent; frame
     3. c.parent = None  : the same with no graft
     4. del p.children   : p becomes B (Some p) None None, every subtree without p is unchanged
     5. p.children = [a; b] (also p.left = a, p.right = b): every new child is cut out wherever it
        was and the two slots of p are overwritten (`bput`); sort; extend; the constructor;
        `bstep_is_btree_edit`: every accepted operation of `bstep` is such an edit. *)
From BT Require Import Base.Prelude Base.Rose Heap.Forest Heap.Binary Heap.BinaryProofs Heap.Abs
     Heap.BinaryAbs Spec.PC04.

(* ========================================================================================== *)
(* 0. binary trees: induction with hypotheses for both slots, tags of the image *)

Definition oall (P : btree -> Prop) (o : option btree) : Prop :=
  match o with Some b => P b | None => True end.

Section BInd.
  Variable P : btree -> Prop.
  Hypothesis H : forall g l r, oall P l -> oall P r -> P (B g l r).
  Fixpoint btree_ind2 (b : btree) : P b :=
    match b with
    | B g l r =>
        H g l r (match l return oall P l with Some x => btree_ind2 x | None => I end)
                (match r return oall P r with Some x => btree_ind2 x | None => I end)
    end.
End BInd.

(* the tags below a slot *)
Definition otags (o : option btree) : list (option nat) := oslot (fun b => tags (img b)) o.

Lemma tags_img_B g l r : tags (img (B g l r)) = g :: otags l ++ otags r.
Proof.
  unfold tags, otags. destruct l as [x|]; destruct r as [y|];
    cbn [img oslot app pre flat_map map ttag]; rewrite ?app_nil_r, ?map_app; reflexivity.
Qed.

Lemma tags_root_b b : In (btag b) (tags (img b)).
Proof. destruct b as [g l r]. rewrite tags_img_B. left. reflexivity. Qed.

Lemma otags_in_l g l r x y : l = Some x -> In y (tags (img x)) -> In y (tags (img (B g l r))).
Proof. intros -> H. rewrite tags_img_B. right. apply in_or_app. left. exact H. Qed.

Lemma otags_in_r g l r x y : r = Some x -> In y (tags (img x)) -> In y (tags (img (B g l r))).
Proof. intros -> H. rewrite tags_img_B. right. apply in_or_app. right. exact H. Qed.

Lemma btag_bsubtree s x : btag (bsubtree s x) = Some x.
Proof. reflexivity. Qed.

Lemma option_map_map {A B C} (f : A -> B) (g : B -> C) (o : option A) :
  option_map g (option_map f o) = option_map (fun x => g (f x)) o.
Proof. destruct o; reflexivity. Qed.

Lemma option_map_ext_in {A B} (f g : A -> B) (o : option A) :
  (forall x, o = Some x -> f x = g x) -> option_map f o = option_map g o.
Proof. destruct o as [x|]; intros H; [cbn [option_map]; f_equal; apply H; reflexivity|reflexivity]. Qed.

(* the subtree of a child is part of the subtree of its parent *)
Lemma tags_child_incl s q k y : BWF s -> bpar s k = Some q ->
  In y (tags (img (bsubtree s k))) -> In y (tags (img (bsubtree s q))).
Proof.
  intros W E H. rewrite (btags_unfold s q W). right. apply in_flat_map. exists k.
  split; [apply (bchildren_link s q k W); exact E|exact H].
Qed.

(* a node is not inside the subtree of one of its children *)
Lemma parent_not_in_child s q k : BWF s -> bpar s k = Some q -> ~ In (Some q) (tags (img (bsubtree s k))).
Proof.
  intros W E H. apply (bsubtree_members s k q W) in H. destruct (kid_not_anc s k q W E) as [H1 H2].
  destruct H as [->|H]; [apply H1; reflexivity|exact (H2 H)].
Qed.

(* well-founded induction along the slots of a well-formed state *)
Lemma bheap_ind s (Q : id -> Prop) : BWF s ->
  (forall r, (forall j k, slot (bkids s r) j = Some k -> Q k) -> Q r) -> forall r, Q r.
Proof.
  intros W H.
  assert (G : forall n r, bsize s < bdepth s r + n -> Q r).
  { induction n as [|n IH]; intros r Hd; apply H; intros j k Hk.
    - destruct (Nat.lt_ge_cases r (bsize s)) as [Hlt|Hge].
      + pose proof (bdepth_le_size s r W Hlt). lia.
      + rewrite (bslot_none_outside s r j W Hge) in Hk. discriminate.
    - apply IH. rewrite (bdepth_child s k r W (bslot_child s r j k W Hk)). lia. }
  intros r. apply (G (S (bsize s))). unfold bdepth. lia.
Qed.

(* ========================================================================================== *)
(* 1. frame: a subtree depends only on the two slots of its own nodes *)

Lemma btree_of_frame s s' : forall f x,
  (forall y, In (Some y) (tags (img (btree_of s f x))) ->
     slot (bkids s' y) 0 = slot (bkids s y) 0 /\ slot (bkids s' y) 1 = slot (bkids s y) 1) ->
  btree_of s' f x = btree_of s f x.
Proof.
  induction f as [|f IH]; intros x H; [reflexivity|].
  rewrite !btree_of_S. destruct (H x) as [H0 H1]; [rewrite btree_of_S, tags_img_B; left; reflexivity|].
  rewrite H0, H1. f_equal.
  - apply option_map_ext_in. intros k Hk. apply IH. intros y Hy. apply H. rewrite btree_of_S.
    apply (otags_in_l _ _ _ (btree_of s f k)); [rewrite Hk; reflexivity|exact Hy].
  - apply option_map_ext_in. intros k Hk. apply IH. intros y Hy. apply H. rewrite btree_of_S.
    apply (otags_in_r _ _ _ (btree_of s f k)); [rewrite Hk; reflexivity|exact Hy].
Qed.

Theorem bsubtree_frame_slots s s' x :
  bsize s' = bsize s ->
  (forall y, In (Some y) (tags (img (bsubtree s x))) ->
     slot (bkids s' y) 0 = slot (bkids s y) 0 /\ slot (bkids s' y) 1 = slot (bkids s y) 1) ->
  bsubtree s' x = bsubtree s x.
Proof. intros Hs H. unfold bsubtree. rewrite Hs. apply btree_of_frame. exact H. Qed.

Theorem bsubtree_frame s s' x :
  bsize s' = bsize s ->
  (forall y, In (Some y) (tags (img (bsubtree s x))) -> bkids s' y = bkids s y) ->
  bsubtree s' x = bsubtree s x.
Proof.
  intros Hs H. apply bsubtree_frame_slots; [exact Hs|]. intros y Hy. rewrite (H y Hy). split; reflexivity.
Qed.

(* pointwise equal states have the same subtrees *)
Lemma bsubtree_beq s t x : beq s t -> bsubtree s x = bsubtree t x.
Proof. intros [Hs [_ Hk]]. apply bsubtree_frame; [exact Hs|]. intros y _. apply Hk. Qed.

(* ========================================================================================== *)
(* 2. the edits on binary trees *)

Definition in_news (news : list (option id)) (g : option nat) : bool :=
  match g with Some x => slot_mem x news | None => false end.

Definition cutl_slot (news : list (option id)) (f : btree -> btree) (o : option btree) : option btree :=
  match o with
  | Some b => if in_news news (btag b) then None else Some (f b)
  | None => None
  end.

(* empty every slot whose occupant is tagged by a member of `news` (the root itself stays) *)
Fixpoint bcutl (news : list (option id)) (b : btree) : btree :=
  match b with
  | B g l r => B g (cutl_slot news (bcutl news) l) (cutl_slot news (bcutl news) r)
  end.

(* cut out the subtree tagged c *)
Definition bcut (c : id) (b : btree) : btree := bcutl [Some c] b.

(* write u into the first empty one of two slots (both taken: nothing to write into) *)
Definition bfill (u : btree) (l r : option btree) : option btree * option btree :=
  match l, r with
  | None, _ => (Some u, r)
  | Some _, None => (l, Some u)
  | Some _, Some _ => (l, r)
  end.

(* write u into the first empty slot of the node tagged p (tags are distinct: at most one) *)
Fixpoint bgraft (p : id) (u : btree) (b : btree) : btree :=
  match b with
  | B g l r =>
      let l' := option_map (bgraft p u) l in
      let r' := option_map (bgraft p u) r in
      if tag_is g p then B g (fst (bfill u l' r')) (snd (bfill u l' r')) else B g l' r'
  end.

Definition bgraft_opt (np : option id) (u : btree) (b : btree) : btree :=
  match np with Some p => bgraft p u b | None => b end.

(* overwrite both slots of the node tagged p *)
Fixpoint bput (p : id) (L R : option btree) (b : btree) : btree :=
  match b with
  | B g l r =>
      if tag_is g p then B g L R else B g (option_map (bput p L R) l) (option_map (bput p L R) r)
  end.

Definition is_np (np : option id) (g : option nat) : bool :=
  match np with Some p => tag_is g p | None => false end.

Lemma bgraft_opt_B np u g l r :
  bgraft_opt np u (B g l r) =
  if is_np np g
  then B g (fst (bfill u (option_map (bgraft_opt np u) l) (option_map (bgraft_opt np u) r)))
           (snd (bfill u (option_map (bgraft_opt np u) l) (option_map (bgraft_opt np u) r)))
  else B g (option_map (bgraft_opt np u) l) (option_map (bgraft_opt np u) r).
Proof.
  destruct np as [p|]; [reflexivity|]. cbn [bgraft_opt is_np].
  destruct l; destruct r; reflexivity.
Qed.

Lemma bcutl_B news g l r :
  bcutl news (B g l r) = B g (cutl_slot news (bcutl news) l) (cutl_slot news (bcutl news) r).
Proof. reflexivity. Qed.

Lemma bput_B p L R g l r :
  bput p L R (B g l r) =
  if tag_is g p then B g L R else B g (option_map (bput p L R) l) (option_map (bput p L R) r).
Proof. reflexivity. Qed.

Lemma bcutl_tag news b : btag (bcutl news b) = btag b.
Proof. destruct b; reflexivity. Qed.

Lemma rmset_one c o : rmset [Some c] o = rm c o.
Proof.
  destruct o as [y|]; [|reflexivity]. unfold rmset, rm. cbn [slot_mem existsb].
  rewrite Bool.orb_false_r, (Nat.eqb_sym y c). reflexivity.
Qed.

(* cutting below a heap slot *)
Lemma cutl_slot_sub s news (o : option id) :
  cutl_slot news (bcutl news) (option_map (bsubtree s) o)
  = option_map (fun k => bcutl news (bsubtree s k)) (rmset news o).
Proof.
  destruct o as [k|]; [|reflexivity]. cbn [option_map cutl_slot]. rewrite btag_bsubtree.
  cbn [in_news rmset]. destruct (slot_mem k news); reflexivity.
Qed.

(* ---- the edits do nothing where the tag does not occur ---- *)
Lemma otags_cutl_incl news o y :
  oall (fun b => In y (tags (img (bcutl news b))) -> In y (tags (img b))) o ->
  In y (otags (cutl_slot news (bcutl news) o)) -> In y (otags o).
Proof.
  destruct o as [b|]; cbn [oall cutl_slot otags oslot]; [|intros _ []].
  destruct (in_news news (btag b)); cbn [oslot]; [intros _ []|auto].
Qed.

Lemma tags_bcutl_incl news y : forall b, In y (tags (img (bcutl news b))) -> In y (tags (img b)).
Proof.
  induction b as [g l r IHl IHr] using btree_ind2. rewrite bcutl_B, !tags_img_B.
  intros [H|H]; [left; exact H|right]. apply in_app_or in H. apply in_or_app.
  destruct H as [H|H]; [left|right]; eapply (otags_cutl_incl news); eassumption.
Qed.

Theorem bcutl_absent news : forall b,
  (forall x, In (Some x) news -> ~ In (Some x) (tags (img b))) -> bcutl news b = b.
Proof.
  induction b as [g l r IHl IHr] using btree_ind2. intros H. rewrite bcutl_B.
  assert (G : forall o, oall (fun b => (forall x, In (Some x) news -> ~ In (Some x) (tags (img b))) ->
                                       bcutl news b = b) o ->
              (forall x y, In (Some x) news -> In y (otags o) -> y <> Some x) ->
              cutl_slot news (bcutl news) o = o).
  { intros [b|] Hb Ho; cbn [oall cutl_slot] in *; [|reflexivity].
    assert (E : in_news news (btag b) = false).
    { unfold in_news. destruct (btag b) as [x|] eqn:Ex; [|reflexivity]. apply slot_mem_false. intros Hin.
      apply (Ho x (Some x) Hin); [|reflexivity]. cbn [otags oslot]. rewrite <- Ex. apply tags_root_b. }
    rewrite E. f_equal. apply Hb. intros x Hx Hin. exact (Ho x (Some x) Hx Hin eq_refl). }
  f_equal.
  - apply G; [exact IHl|]. intros x y Hx Hy ->. apply (H x Hx). rewrite tags_img_B. right.
    apply in_or_app. left. exact Hy.
  - apply G; [exact IHr|]. intros x y Hx Hy ->. apply (H x Hx). rewrite tags_img_B. right.
    apply in_or_app. right. exact Hy.
Qed.

Theorem bcut_absent c b : ~ In (Some c) (tags (img b)) -> bcut c b = b.
Proof. intros H. apply bcutl_absent. intros x [[= <-]|[]]. exact H. Qed.

Lemma tag_is_root_false g l r p : ~ In (Some p) (tags (img (B g l r))) -> tag_is g p = false.
Proof.
  intros H. destruct g as [x|]; [|reflexivity]. cbn [tag_is]. apply Nat.eqb_neq. intros ->.
  apply H. rewrite tags_img_B. left. reflexivity.
Qed.

Lemma option_map_absent (f : btree -> btree) (o : option btree) (Q : btree -> Prop) :
  oall (fun b => Q b -> f b = b) o -> oall Q o -> option_map f o = o.
Proof. destruct o as [b|]; cbn [oall option_map]; [intros H1 H2; f_equal; auto|reflexivity]. Qed.

Theorem bgraft_absent p u : forall b, ~ In (Some p) (tags (img b)) -> bgraft p u b = b.
Proof.
  induction b as [g l r IHl IHr] using btree_ind2. intros H. cbn [bgraft].
  rewrite (tag_is_root_false g l r p H). f_equal.
  - apply (option_map_absent _ _ _ IHl). destruct l as [x|]; cbn [oall]; [|exact I].
    intros Hin. apply H. exact (otags_in_l g _ r x _ eq_refl Hin).
  - apply (option_map_absent _ _ _ IHr). destruct r as [x|]; cbn [oall]; [|exact I].
    intros Hin. apply H. exact (otags_in_r g l _ x _ eq_refl Hin).
Qed.

Theorem bput_absent p L R : forall b, ~ In (Some p) (tags (img b)) -> bput p L R b = b.
Proof.
  induction b as [g l r IHl IHr] using btree_ind2. intros H. rewrite bput_B.
  rewrite (tag_is_root_false g l r p H). f_equal.
  - apply (option_map_absent _ _ _ IHl). destruct l as [x|]; cbn [oall]; [|exact I].
    intros Hin. apply H. exact (otags_in_l g _ r x _ eq_refl Hin).
  - apply (option_map_absent _ _ _ IHr). destruct r as [x|]; cbn [oall]; [|exact I].
    intros Hin. apply H. exact (otags_in_r g l _ x _ eq_refl Hin).
Qed.

(* ========================================================================================== *)
(* 3. re-parenting: what an accepted `c.parent = np` does to the slots, and hence to the trees *)

(* the slot that receives c *)
Definition tgt (np : option id) (i : nat) (q : id) (j : nat) : bool :=
  match np with Some p => Nat.eqb q p && Nat.eqb j i | None => false end.

(* s' is s with c taken out of the slot it occupied and (np = Some p) written into slot i of p, the
   first slot of p that is empty once c has left *)
Record moved (s s' : bheap) (c : id) (np : option id) (i : nat) : Prop := {
  mv_W    : BWF s;
  mv_W'   : BWF s';
  mv_size : bsize s' = bsize s;
  mv_slot : forall q j, slot (bkids s' q) j = if tgt np i q j then Some c else rm c (slot (bkids s q) j);
  mv_np   : forall p, np = Some p ->
              p <> c /\ ~ In c (bancestors s p) /\ i < 2
              /\ rm c (slot (bkids s p) i) = None
              /\ (forall j, j < i -> rm c (slot (bkids s p) j) <> None)
}.

Lemma tgt_true np i q j : tgt np i q j = true -> np = Some q /\ j = i.
Proof.
  unfold tgt. destruct np as [p|]; [|discriminate]. intros H. apply andb_true_iff in H.
  destruct H as [H1 H2]. apply Nat.eqb_eq in H1. apply Nat.eqb_eq in H2. subst. split; reflexivity.
Qed.

Lemma tgt_other np i q j : is_np np (Some q) = false -> tgt np i q j = false.
Proof. unfold is_np, tgt. destruct np as [p|]; [|reflexivity]. cbn [tag_is]. intros ->. reflexivity. Qed.

Section Moved.
  Variables (s s' : bheap) (c : id) (np : option id) (i : nat).
  Hypothesis M : moved s s' c np i.

  Let W := mv_W _ _ _ _ _ M.
  Let W' := mv_W' _ _ _ _ _ M.

  (* inside the moved subtree no slot is touched *)
  Lemma inside_slots y j : In (Some y) (tags (img (bsubtree s c))) ->
    slot (bkids s' y) j = slot (bkids s y) j.
  Proof.
    intros Hy. apply (bsubtree_members s c y W) in Hy. rewrite (mv_slot _ _ _ _ _ M).
    destruct (tgt np i y j) eqn:Et.
    - exfalso. apply tgt_true in Et. destruct Et as [Enp _].
      destruct (mv_np _ _ _ _ _ M y Enp) as [H1 [H2 _]]. destruct Hy as [->|Hy]; [apply H1; reflexivity|exact (H2 Hy)].
    - apply rm_absent. intros H. apply (bw_down s W) in H. destruct (kid_not_anc s c y W H) as [H1 H2].
      destruct Hy as [->|Hy]; [apply H1; reflexivity|exact (H2 Hy)].
  Qed.

  (* (a) the moved subtree is intact *)
  Theorem moved_intact : bsubtree s' c = bsubtree s c.
  Proof.
    apply bsubtree_frame_slots; [exact (mv_size _ _ _ _ _ M)|]. intros y Hy. split; apply inside_slots; exact Hy.
  Qed.

  (* (b) a subtree containing neither the old nor the new parent is unchanged *)
  Theorem moved_frame x :
    (forall q, bpar s c = Some q -> ~ In (Some q) (tags (img (bsubtree s x)))) ->
    (forall p, np = Some p -> ~ In (Some p) (tags (img (bsubtree s x)))) ->
    bsubtree s' x = bsubtree s x.
  Proof.
    intros Hq Hp. apply bsubtree_frame_slots; [exact (mv_size _ _ _ _ _ M)|].
    assert (G : forall y j, In (Some y) (tags (img (bsubtree s x))) -> slot (bkids s' y) j = slot (bkids s y) j).
    { intros y j Hy. rewrite (mv_slot _ _ _ _ _ M). destruct (tgt np i y j) eqn:Et.
      - exfalso. apply tgt_true in Et. destruct Et as [Enp _]. exact (Hp y Enp Hy).
      - apply rm_absent. intros H. apply (bw_down s W) in H. exact (Hq y H Hy). }
    intros y Hy. split; apply G; exact Hy.
  Qed.

  (* a child, other than c, of a node outside the moved subtree is outside the moved subtree *)
  Lemma outside_child r j k :
    ~ In (Some r) (tags (img (bsubtree s c))) -> rm c (slot (bkids s r) j) = Some k ->
    ~ In (Some k) (tags (img (bsubtree s c))).
  Proof.
    intros Hr Hk Hin. apply rm_Some in Hk. destruct Hk as [Hk Hne]. apply (bw_down s W) in Hk.
    apply (bsubtree_members s c k W) in Hin. destruct Hin as [->|Hin]; [apply Hne; reflexivity|].
    rewrite (BWF_bancestors_unfold s k r W Hk) in Hin. apply Hr. apply (bsubtree_members s c r W).
    destruct Hin as [->|Hin]; [left; reflexivity|right; exact Hin].
  Qed.

  (* the whole edit: below every node outside the moved subtree, cut c out and write it into the
     first empty slot of the new parent *)
  Theorem moved_is_surgery r :
    ~ In (Some r) (tags (img (bsubtree s c))) ->
    bsubtree s' r = bgraft_opt np (bsubtree s c) (bcut c (bsubtree s r)).
  Proof.
    revert r. apply (bheap_ind s' (fun r => ~ In (Some r) (tags (img (bsubtree s c))) ->
                       bsubtree s' r = bgraft_opt np (bsubtree s c) (bcut c (bsubtree s r))) W').
    intros r IHk Hr.
    set (E := fun k => bgraft_opt np (bsubtree s c) (bcutl [Some c] (bsubtree s k))).
    assert (Hkid : forall j k, rm c (slot (bkids s r) j) = Some k -> bsubtree s' k = E k).
    { intros j k Hk. pose proof (mv_slot _ _ _ _ _ M r j) as Hs. destruct (tgt np i r j) eqn:Et.
      - exfalso. apply tgt_true in Et. destruct Et as [Enp ->].
        destruct (mv_np _ _ _ _ _ M r Enp) as [_ [_ [_ [Hn _]]]]. congruence.
      - apply (IHk j k); [rewrite Hs; exact Hk|exact (outside_child r j k Hr Hk)]. }
    assert (Hm : forall j, tgt np i r j = false ->
              option_map (bsubtree s') (slot (bkids s' r) j) = option_map E (rm c (slot (bkids s r) j))).
    { intros j Et. rewrite (mv_slot _ _ _ _ _ M), Et. apply option_map_ext_in. intros k Hk. exact (Hkid j k Hk). }
    rewrite (bsubtree_unfold s' r W'), (bsubtree_unfold s r W). unfold bcut. rewrite bcutl_B.
    rewrite !cutl_slot_sub, !rmset_one, bgraft_opt_B, !option_map_map. fold E.
    pose proof moved_intact as Hint.
    destruct (is_np np (Some r)) eqn:Enp.
    - destruct np as [p|]; [|discriminate]. cbn [is_np tag_is] in Enp. apply Nat.eqb_eq in Enp. subst r.
      destruct (mv_np _ _ _ _ _ M p eq_refl) as [_ [_ [Hi [Hnone Hmin]]]].
      assert (Hc : slot (bkids s' p) i = Some c).
      { rewrite (mv_slot _ _ _ _ _ M). cbn [tgt]. rewrite !Nat.eqb_refl. reflexivity. }
      destruct i as [|[|i']]; [| |lia].
      + rewrite Hc, Hnone. cbn [option_map bfill fst snd]. rewrite Hint. f_equal.
        apply Hm. cbn [tgt]. rewrite Nat.eqb_refl. reflexivity.
      + destruct (rm c (slot (bkids s p) 0)) as [k0|] eqn:E0; [|exfalso; apply (Hmin 0); [lia|exact E0]].
        rewrite Hc, Hnone. cbn [option_map bfill fst snd]. rewrite Hint. f_equal.
        rewrite Hm by (cbn [tgt]; rewrite Nat.eqb_refl; reflexivity). rewrite E0. reflexivity.
    - rewrite !Hm by (apply tgt_other; exact Enp). reflexivity.
  Qed.

  (* (d) / (3): the old parent when it is not the new one and the new parent is not below it: the slot of
     c is emptied, the other slot keeps its subtree *)
  Theorem moved_old_parent q :
    bpar s c = Some q -> np <> Some q ->
    (forall p, np = Some p -> ~ In (Some p) (tags (img (bsubtree s q)))) ->
    bsubtree s' q = B (Some q) (option_map (bsubtree s) (rm c (slot (bkids s q) 0)))
                               (option_map (bsubtree s) (rm c (slot (bkids s q) 1))).
  Proof.
    intros Eq Hne Hp. rewrite (bsubtree_unfold s' q W').
    assert (G : forall j, option_map (bsubtree s') (slot (bkids s' q) j)
                          = option_map (bsubtree s) (rm c (slot (bkids s q) j))).
    { intros j. rewrite (mv_slot _ _ _ _ _ M). destruct (tgt np i q j) eqn:Et.
      - exfalso. apply tgt_true in Et. destruct Et as [Enp _]. exact (Hne Enp).
      - apply option_map_ext_in. intros k Hk. apply rm_Some in Hk. destruct Hk as [Hk _].
        apply (bw_down s W) in Hk. apply moved_frame.
        + intros q0 E0. rewrite Eq in E0. injection E0 as <-. exact (parent_not_in_child s q k W Hk).
        + intros p Ep Hin. apply (Hp p Ep). exact (tags_child_incl s q k _ W Hk Hin). }
    rewrite !G. reflexivity.
  Qed.
End Moved.

(* (c) the new parent: its two slots are the old ones without c, each old occupant with c cut out of
   it, and the subtree of c written into the first empty one; one of the two was empty *)
Theorem moved_new_parent s s' c p i : moved s s' c (Some p) i ->
  let X := fun k => bcut c (bsubtree s k) in
  let L := option_map X (rm c (slot (bkids s p) 0)) in
  let R := option_map X (rm c (slot (bkids s p) 1)) in
  bsubtree s' p = B (Some p) (fst (bfill (bsubtree s c) L R)) (snd (bfill (bsubtree s c) L R))
  /\ (L = None \/ R = None).
Proof.
  intros M X L R. pose proof (mv_W _ _ _ _ _ M) as W.
  destruct (mv_np _ _ _ _ _ M p eq_refl) as [Hpc [Hanc [Hi [Hnone Hmin]]]]. split.
  - assert (Hout : ~ In (Some p) (tags (img (bsubtree s c)))).
    { intros H. apply (bsubtree_members s c p W) in H. destruct H as [->|H]; [apply Hpc; reflexivity|exact (Hanc H)]. }
    rewrite (moved_is_surgery s s' c (Some p) i M p Hout). cbn [bgraft_opt].
    rewrite (bsubtree_unfold s p W). unfold bcut at 1. rewrite bcutl_B, !cutl_slot_sub, !rmset_one.
    cbn [bgraft tag_is]. rewrite Nat.eqb_refl, !option_map_map.
    assert (G : forall j, option_map (fun k => bgraft p (bsubtree s c) (bcutl [Some c] (bsubtree s k)))
                            (rm c (slot (bkids s p) j))
                          = option_map X (rm c (slot (bkids s p) j))).
    { intros j. apply option_map_ext_in. intros k Hk. apply rm_Some in Hk. destruct Hk as [Hk _].
      apply (bw_down s W) in Hk. apply bgraft_absent. intros Hin. apply tags_bcutl_incl in Hin.
      exact (parent_not_in_child s p k W Hk Hin). }
    rewrite !G. reflexivity.
  - unfold L, R. destruct i as [|[|i']]; [left|right|lia]; rewrite Hnone; reflexivity.
Qed.

(* ========================================================================================== *)
(* 4. the parent setter *)

(* what the setter has done when it answers Ok (no well-formedness needed) *)
Lemma set_parent_ok cfg ft s c a s' : bset_parent cfg ft s c a = (s', Ok) ->
  a <> AJunk /\ bparent_loop s c (slot_of_arg a) = false
  /\ bfull (bdetach s c) (slot_of_arg a) = false
  /\ s' = battach (bdetach s c) c (slot_of_arg a).
Proof.
  unfold bset_parent. destruct a as [p| |]; cbv zeta; cbn [slot_of_arg]; [| |discriminate].
  - destruct (bparent_loop s c (Some p)); [discriminate|]. destruct (fault_eqb ft PreFail); [discriminate|].
    destruct (bcorrupted s c); [discriminate|]. destruct (bfull (bdetach s c) (Some p)); [discriminate|].
    destruct (fault_eqb ft PostFail); [discriminate|]. intros [= <-].
    split; [discriminate|]. repeat split.
  - cbn [bparent_loop bfull]. destruct (fault_eqb ft PreFail); [discriminate|].
    destruct (bcorrupted s c); [discriminate|]. destruct (fault_eqb ft PostFail); [discriminate|]. intros [= <-].
    split; [discriminate|]. repeat split.
Qed.

Lemma attach_moved s (c p : id) : BWF s -> c < bsize s -> p < bsize s -> p <> c ->
  ~ In c (bancestors s p) -> bfull (bdetach s c) (Some p) = false ->
  exists i, first_empty (bkids (bdetach s c) p) = Some i
            /\ moved s (battach (bdetach s c) c (Some p)) c (Some p) i.
Proof.
  intros W Hc Hp Hpc Hanc Hfull. destruct (attach_relinked s c p W Hc Hp Hpc Hanc Hfull) as [R V].
  destruct (bfull_false _ _ Hfull) as [i E]. exists i. split; [exact E|].
  destruct (first_empty_some _ _ E) as [Hi [Hnone Hmin]].
  destruct (detach_kids s c p W) as [Hlen Hs].
  constructor.
  - exact W.
  - exact (relink_BWF _ _ _ _ W V R).
  - exact (rl_size _ _ _ _ R).
  - intros q j. rewrite (attach_state s c p i E). cbn [bkids bset_kids bset_par tgt]. unfold upd.
    destruct (Nat.eqb_spec q p) as [->|Hq]; cbn [andb].
    + rewrite (sp_news_slot s c p i W E). reflexivity.
    + destruct (detach_kids s c q W) as [_ Hsq]. apply Hsq.
  - intros p0 [= <-]. split; [exact Hpc|]. split; [exact Hanc|].
    split; [rewrite Hlen, (bw_len s W) in Hi; exact Hi|].
    split; [rewrite <- Hs; exact Hnone|]. intros j Hj. rewrite <- Hs. apply Hmin. exact Hj.
Qed.

Lemma orphan_moved s c i : BWF s -> moved s (bset_par (bdetach s c) c None) c None i.
Proof.
  intros W. constructor; [exact W|apply orphan_BWF; exact W|apply detach_size| |discriminate].
  intros q j. cbn [bkids bset_par tgt]. destruct (detach_kids s c q W) as [_ Hs]. apply Hs.
Qed.

(* an accepted parent assignment moves c out of its slot into the first empty slot of the new parent *)
Theorem set_parent_moved cfg ft s c a s' : BWF s -> c < bsize s -> barg_in_range s a = true ->
  bset_parent cfg ft s c a = (s', Ok) -> exists i, moved s s' c (slot_of_arg a) i.
Proof.
  intros W Hc Ha E. destruct (set_parent_ok cfg ft s c a s' E) as [Hj [HL [HF ->]]].
  destruct a as [p| |]; cbn [slot_of_arg] in *; [| |congruence].
  - destruct (loop_false s c p HL) as [Hpc Hanc]. unfold bin_range in Ha. apply Nat.ltb_lt in Ha.
    destruct (attach_moved s c p W Hc Ha Hpc Hanc HF) as [i [_ Mv]]. exists i. exact Mv.
  - exists 0. unfold battach. apply orphan_moved. exact W.
Qed.

(* the tree edit of `c.parent = np`: the c-subtree is intact and, below every node outside it, it is
   cut out and written into the first empty slot of np *)
Definition bsurgery (s s' : bheap) (c : id) (np : option id) : Prop :=
  bsubtree s' c = bsubtree s c
  /\ forall r, ~ In (Some r) (tags (img (bsubtree s c))) ->
       bsubtree s' r = bgraft_opt np (bsubtree s c) (bcut c (bsubtree s r)).

Lemma moved_bsurgery s s' c np i : moved s s' c np i -> bsurgery s s' c np.
Proof. intros M. split; [exact (moved_intact _ _ _ _ _ M)|]. intros r. exact (moved_is_surgery _ _ _ _ _ M r). Qed.

Theorem set_parent_is_bsurgery cfg ft s c a s' :
  BWF s -> c < bsize s -> barg_in_range s a = true ->
  bset_parent cfg ft s c a = (s', Ok) -> bsurgery s s' c (slot_of_arg a).
Proof.
  intros W Hc Ha E. destruct (set_parent_moved cfg ft s c a s' W Hc Ha E) as [i M].
  exact (moved_bsurgery _ _ _ _ _ M).
Qed.

(* (2a) *)
Theorem set_parent_subtree_intact cfg ft s c a s' :
  BWF s -> c < bsize s -> barg_in_range s a = true ->
  bset_parent cfg ft s c a = (s', Ok) -> bsubtree s' c = bsubtree s c.
Proof. intros W Hc Ha E. exact (proj1 (set_parent_is_bsurgery cfg ft s c a s' W Hc Ha E)). Qed.

(* (2b) *)
Theorem set_parent_frame cfg ft s c a s' :
  BWF s -> c < bsize s -> barg_in_range s a = true ->
  bset_parent cfg ft s c a = (s', Ok) ->
  forall x, (forall q, bpar s c = Some q -> ~ In (Some q) (tags (img (bsubtree s x)))) ->
            (forall p, slot_of_arg a = Some p -> ~ In (Some p) (tags (img (bsubtree s x)))) ->
            bsubtree s' x = bsubtree s x.
Proof.
  intros W Hc Ha E x. destruct (set_parent_moved cfg ft s c a s' W Hc Ha E) as [i M].
  exact (moved_frame _ _ _ _ _ M x).
Qed.

(* (2c) *)
Theorem set_parent_new_parent cfg ft s c (p : id) s' :
  BWF s -> c < bsize s -> p < bsize s ->
  bset_parent cfg ft s c (ANode p) = (s', Ok) ->
  let X := fun k => bcut c (bsubtree s k) in
  let L := option_map X (rm c (slot (bkids s p) 0)) in
  let R := option_map X (rm c (slot (bkids s p) 1)) in
  bsubtree s' p = B (Some p) (fst (bfill (bsubtree s c) L R)) (snd (bfill (bsubtree s c) L R))
  /\ (L = None \/ R = None).
Proof.
  intros W Hc Hp E. apply Nat.ltb_lt in Hp.
  destruct (set_parent_moved cfg ft s c (ANode p) s' W Hc Hp E) as [i M].
  exact (moved_new_parent s s' c p i M).
Qed.

Lemma rm_self c : rm c (Some c) = None.
Proof. unfold rm. rewrite Nat.eqb_refl. reflexivity. Qed.

Lemma bleft_bsubtree s x : BWF s -> bleft (bsubtree s x) = option_map (bsubtree s) (slot (bkids s x) 0).
Proof. intros W. rewrite (bsubtree_unfold s x W) at 1. reflexivity. Qed.
Lemma bright_bsubtree s x : BWF s -> bright (bsubtree s x) = option_map (bsubtree s) (slot (bkids s x) 1).
Proof. intros W. rewrite (bsubtree_unfold s x W) at 1. reflexivity. Qed.

(* (2d) the old parent q, when q is not the new parent p and p is not below q *)
Theorem set_parent_old_parent cfg ft s c (p q : id) s' :
  BWF s -> c < bsize s -> p < bsize s ->
  bset_parent cfg ft s c (ANode p) = (s', Ok) ->
  bpar s c = Some q -> q <> p -> ~ In (Some p) (tags (img (bsubtree s q))) ->
  bsubtree s' q = B (Some q) (option_map (bsubtree s) (rm c (slot (bkids s q) 0)))
                             (option_map (bsubtree s) (rm c (slot (bkids s q) 1)))
  /\ (slot (bkids s q) 0 = Some c -> bsubtree s' q = B (Some q) None (bright (bsubtree s q)))
  /\ (slot (bkids s q) 1 = Some c -> bsubtree s' q = B (Some q) (bleft (bsubtree s q)) None).
Proof.
  intros W Hc Hp E Eq Hqp Hout. apply Nat.ltb_lt in Hp.
  destruct (set_parent_moved cfg ft s c (ANode p) s' W Hc Hp E) as [i M]. cbn [slot_of_arg] in M.
  assert (H : bsubtree s' q = B (Some q) (option_map (bsubtree s) (rm c (slot (bkids s q) 0)))
                                         (option_map (bsubtree s) (rm c (slot (bkids s q) 1)))).
  { apply (moved_old_parent _ _ _ _ _ M q Eq); [congruence|]. intros p0 [= <-]. exact Hout. }
  split; [exact H|]. split; intros Hs; rewrite H, Hs, rm_self; cbn [option_map].
  - rewrite (bright_bsubtree s q W). f_equal. f_equal. apply rm_absent. intros H1.
    pose proof (bw_once s W q 0 1 c Hs H1). discriminate.
  - rewrite (bleft_bsubtree s q W). f_equal. f_equal. apply rm_absent. intros H0.
    pose proof (bw_once s W q 0 1 c H0 Hs). discriminate.
Qed.

(* (3) c.parent = None *)
Theorem set_parent_none_edit cfg ft s c s' :
  BWF s -> c < bsize s ->
  bset_parent cfg ft s c ANone = (s', Ok) ->
  bsubtree s' c = bsubtree s c
  /\ (forall q, bpar s c = Some q ->
        bsubtree s' q = B (Some q) (option_map (bsubtree s) (rm c (slot (bkids s q) 0)))
                                   (option_map (bsubtree s) (rm c (slot (bkids s q) 1))))
  /\ (forall x, (forall q, bpar s c = Some q -> ~ In (Some q) (tags (img (bsubtree s x)))) ->
                bsubtree s' x = bsubtree s x)
  /\ (forall r, ~ In (Some r) (tags (img (bsubtree s c))) -> bsubtree s' r = bcut c (bsubtree s r)).
Proof.
  intros W Hc E. destruct (set_parent_moved cfg ft s c ANone s' W Hc eq_refl E) as [i M]. cbn [slot_of_arg] in M.
  split; [exact (moved_intact _ _ _ _ _ M)|].
  split; [intros q Eq; apply (moved_old_parent _ _ _ _ _ M q Eq); discriminate|].
  split; [intros x Hx; apply (moved_frame _ _ _ _ _ M x Hx); discriminate|].
  intros r Hr. exact (moved_is_surgery _ _ _ _ _ M r Hr).
Qed.

(* ========================================================================================== *)
(* 5. del p.children *)

Theorem del_children_is_edit s (p : id) : BWF s ->
  let s' := bdel_children s p in
  bsubtree s' p = B (Some p) None None
  /\ (forall x, ~ In (Some p) (tags (img (bsubtree s x))) -> bsubtree s' x = bsubtree s x)
  /\ (forall j k, slot (bkids s p) j = Some k -> bsubtree s' k = bsubtree s k).
Proof.
  intros W. cbv zeta. destruct (len2 _ (bw_len s W p)) as [l [r E]].
  destruct (del_state s p l r W E) as [S [_ K]].
  assert (Hfr : forall x, ~ In (Some p) (tags (img (bsubtree s x))) ->
                          bsubtree (bdel_children s p) x = bsubtree s x).
  { intros x Hx. apply bsubtree_frame; [exact S|]. intros y Hy. rewrite K.
    destruct (Nat.eqb_spec y p) as [->|_]; [contradiction|reflexivity]. }
  split; [|split; [exact Hfr|]].
  - unfold bsubtree. rewrite btree_of_S, K, Nat.eqb_refl. reflexivity.
  - intros j k Hk. apply Hfr. apply (bw_down s W) in Hk. exact (parent_not_in_child s p k W Hk).
Qed.

(* ========================================================================================== *)
(* 6. relinking (p gets the slot list `news`, BinaryProofs.v) as a tree edit: below EVERY node r the
      members of `news` are cut out wherever they were and both slots of p are overwritten with the
      subtrees of the new occupants (themselves with the members of `news` cut out) *)

Definition relink_edit (s s' : bheap) (p : id) (news : list (option id)) : Prop :=
  forall r, bsubtree s' r =
    bput p (option_map (fun k => bcutl news (bsubtree s k)) (slot news 0))
           (option_map (fun k => bcutl news (bsubtree s k)) (slot news 1))
           (bcutl news (bsubtree s r)).

Theorem relink_is_edit s s' p news :
  BWF s -> valid_news s p news -> relinked s s' p news -> relink_edit s s' p news.
Proof.
  intros W V R. pose proof (relink_BWF _ _ _ _ W V R) as W'.
  set (X := fun k => bcutl news (bsubtree s k)).
  set (L := option_map X (slot news 0)). set (Rr := option_map X (slot news 1)).
  unfold relink_edit. fold X. fold L. fold Rr.
  apply (bheap_ind s' (fun r => bsubtree s' r = bput p L Rr (bcutl news (bsubtree s r))) W').
  intros r IHk.
  rewrite (bsubtree_unfold s' r W'), (bsubtree_unfold s r W), bcutl_B, bput_B. cbn [tag_is].
  destruct (Nat.eqb_spec r p) as [->|Hne].
  - assert (G : forall j, option_map (bsubtree s') (slot (bkids s' p) j) = option_map X (slot news j)).
    { intros j. rewrite (rl_kids_p _ _ _ _ R). apply option_map_ext_in. intros k Hk.
      rewrite (IHk j k) by (rewrite (rl_kids_p _ _ _ _ R); exact Hk).
      apply bput_absent. intros Hin. apply tags_bcutl_incl in Hin. apply (bsubtree_members s k p W) in Hin.
      destruct (vn_in _ _ _ V k (slot_In _ _ _ Hk)) as [_ [H1 H2]].
      destruct Hin as [Hin|Hin]; [apply H1; symmetry; exact Hin|exact (H2 Hin)]. }
    rewrite !G. reflexivity.
  - rewrite !cutl_slot_sub, !option_map_map.
    assert (G : forall j, option_map (bsubtree s') (slot (bkids s' r) j)
                          = option_map (fun k => bput p L Rr (bcutl news (bsubtree s k)))
                                       (rmset news (slot (bkids s r) j))).
    { intros j. rewrite <- (rl_kids _ _ _ _ R r j Hne). apply option_map_ext_in. intros k Hk. exact (IHk j k Hk). }
    rewrite !G. reflexivity.
Qed.

(* the two closed forms: at p, and wherever p does not occur *)
Theorem relink_edit_at s s' p news : BWF s -> relink_edit s s' p news ->
  bsubtree s' p = B (Some p) (option_map (fun k => bcutl news (bsubtree s k)) (slot news 0))
                             (option_map (fun k => bcutl news (bsubtree s k)) (slot news 1)).
Proof.
  intros W H. rewrite (H p), (bsubtree_unfold s p W), bcutl_B, bput_B. cbn [tag_is].
  rewrite Nat.eqb_refl. reflexivity.
Qed.

Theorem relink_edit_frame s s' p news r : relink_edit s s' p news ->
  ~ In (Some p) (tags (img (bsubtree s r))) -> bsubtree s' r = bcutl news (bsubtree s r).
Proof.
  intros H Hr. rewrite (H r). apply bput_absent. intros Hin. apply tags_bcutl_incl in Hin. exact (Hr Hin).
Qed.

(* ---- p.children = [a1; a2] ---- *)
Theorem set_children_is_edit cfg ft s (p : id) cont args s' :
  BWF s -> p < bsize s -> forallb (barg_in_range s) args = true ->
  bset_children cfg ft s p cont args = (s', Ok) ->
  exists a1 a2, norm_args args = [a1; a2] /\ relink_edit s s' p [slot_of_arg a1; slot_of_arg a2].
Proof.
  intros W Hp Hr E.
  destruct (children_accepted cfg ft s p cont args W Hp Hr) as [a1 [a2 [EN [_ [_ [R V]]]]]];
    [rewrite E; reflexivity|].
  rewrite E in R. cbn [fst] in R. exists a1, a2. split; [exact EN|]. exact (relink_is_edit _ _ _ _ W V R).
Qed.

Lemma slot_of_arg_of_slot o : slot_of_arg (arg_of_slot o) = o.
Proof. destruct o; reflexivity. Qed.

(* ---- p.left = a / p.right = a: the children setter with the other slot as it is ---- *)
Theorem set_left_is_edit cfg ft s (p : id) a s' :
  BWF s -> p < bsize s -> barg_in_range s a = true ->
  bset_left cfg ft s p a = (s', Ok) -> relink_edit s s' p [slot_of_arg a; slot (bkids s p) 1].
Proof.
  intros W Hp Ha E. unfold bset_left, right_of in E.
  destruct (nth_error (bkids s p) 1) as [r|] eqn:En; [|discriminate].
  assert (Hr : forallb (barg_in_range s) [a; arg_of_slot r] = true).
  { cbn [forallb]. rewrite Ha, (arg_of_slot_range s p 1 r W En). reflexivity. }
  destruct (set_children_is_edit cfg ft s p CList _ s' W Hp Hr E) as [a1 [a2 [EN H]]].
  cbn [norm_args] in EN. injection EN as <- <-. rewrite slot_of_arg_of_slot in H.
  rewrite (nth_error_slot _ _ _ En). exact H.
Qed.

Theorem set_right_is_edit cfg ft s (p : id) a s' :
  BWF s -> p < bsize s -> barg_in_range s a = true ->
  bset_right cfg ft s p a = (s', Ok) -> relink_edit s s' p [slot (bkids s p) 0; slot_of_arg a].
Proof.
  intros W Hp Ha E. unfold bset_right, left_of in E.
  destruct (nth_error (bkids s p) 0) as [l|] eqn:En; [|discriminate].
  assert (Hr : forallb (barg_in_range s) [arg_of_slot l; a] = true).
  { cbn [forallb]. rewrite Ha, (arg_of_slot_range s p 0 l W En). reflexivity. }
  destruct (set_children_is_edit cfg ft s p CList _ s' W Hp Hr E) as [a1 [a2 [EN H]]].
  cbn [norm_args] in EN. injection EN as <- <-. rewrite slot_of_arg_of_slot in H.
  rewrite (nth_error_slot _ _ _ En). exact H.
Qed.

(* ---- sort ---- *)
Lemma sort_kids s (p : id) key rev : BWF s ->
  (forall q, q <> p -> bkids (bsort s p key rev) q = bkids s q)
  /\ (bkids (bsort s p key rev) p = bkids s p
      \/ bkids (bsort s p key rev) p = [slot (bkids s p) 1; slot (bkids s p) 0]).
Proof.
  intros W. unfold bsort. destruct (len2 _ (bw_len s W p)) as [l [r E]]. rewrite E.
  destruct l as [c|]; destruct r as [d|]; cbn [somes length Nat.eqb];
    try (split; [reflexivity|left; exact E]).
  destruct (py_sort_two key rev c d) as [-> | ->]; cbn [map bkids bset_kids];
    (split; [intros q Hq; apply upd_other; exact Hq|]); rewrite upd_same; [left|right]; reflexivity.
Qed.

(* the two slots of p are kept or swapped (with their subtrees); nothing else changes *)
Theorem sort_is_edit s (p : id) key rev : BWF s -> p < bsize s ->
  let s' := bsort s p key rev in
  (forall x, ~ In (Some p) (tags (img (bsubtree s x))) -> bsubtree s' x = bsubtree s x)
  /\ (bsubtree s' p = bsubtree s p
      \/ bsubtree s' p = B (Some p) (bright (bsubtree s p)) (bleft (bsubtree s p))).
Proof.
  intros W Hp. cbv zeta. destruct (sort_kids s p key rev W) as [Hq Hk].
  pose proof (sort_BWF s p key rev W Hp) as W'.
  assert (Hfr : forall x, ~ In (Some p) (tags (img (bsubtree s x))) ->
                          bsubtree (bsort s p key rev) x = bsubtree s x).
  { intros x Hx. apply bsubtree_frame; [apply sort_size|]. intros y Hy. apply Hq. intros ->. exact (Hx Hy). }
  split; [exact Hfr|].
  assert (G : forall j, option_map (bsubtree (bsort s p key rev)) (slot (bkids s p) j)
                        = option_map (bsubtree s) (slot (bkids s p) j)).
  { intros j. apply option_map_ext_in. intros k Hk'. apply Hfr. apply (bw_down s W) in Hk'.
    exact (parent_not_in_child s p k W Hk'). }
  rewrite (bsubtree_unfold _ p W'). destruct Hk as [-> | ->].
  - left. rewrite !G. symmetry. apply bsubtree_unfold. exact W.
  - right. rewrite !slot2, !G, (bleft_bsubtree s p W), (bright_bsubtree s p W). reflexivity.
Qed.

(* ---- extend: one accepted parent assignment after the other ---- *)
Fixpoint bappend_chain (s : bheap) (p : id) (cs : list id) (s' : bheap) : Prop :=
  match cs with
  | [] => s' = s
  | c :: t => exists s1, BWF s1 /\ bsurgery s s1 c (Some p) /\ bappend_chain s1 p t s'
  end.

Theorem extend_is_surgeries cfg (p : id) : forall cs fts s s',
  BWF s -> p < bsize s -> forallb (bin_range s) cs = true ->
  bextend_loop cfg s p cs fts = (s', Ok) -> bappend_chain s p cs s'.
Proof.
  induction cs as [|c t IH]; intros fts s s' W Hp Hr E; cbn [bextend_loop bappend_chain] in *.
  - injection E as <-. reflexivity.
  - cbn [forallb] in Hr. apply andb_true_iff in Hr. destruct Hr as [Hc Ht]. apply Nat.ltb_lt in Hc.
    assert (Ha : barg_in_range s (ANode p) = true) by (apply Nat.ltb_lt; exact Hp).
    destruct (set_parent_sound cfg (hd NoFault fts) s c (ANode p) W Hc Ha) as [_ W1].
    pose proof (set_parent_size cfg (hd NoFault fts) s c (ANode p) W Hc Ha) as S1.
    destruct (bset_parent cfg (hd NoFault fts) s c (ANode p)) as [s1 o] eqn:E1. cbn [fst] in *.
    destruct o; [|discriminate]. exists s1. split; [exact W1|].
    split; [exact (set_parent_is_bsurgery cfg _ s c (ANode p) s1 W Hc Ha E1)|].
    apply (IH (tl fts) s1 s' W1); [rewrite S1; exact Hp| |exact E].
    unfold bin_range in *. rewrite S1. exact Ht.
Qed.

(* ---- the constructor: a fresh childless root, then the parent setter, then the children setter ---- *)
Lemma balloc_bsubtree s x : BWF s -> bsubtree (balloc s) x = bsubtree s x.
Proof.
  intros W. unfold bsubtree at 1. cbn [balloc bsize].
  rewrite <- (btree_of_any_fuel s x (S (bsize s)) W) by lia.
  apply btree_of_frame. intros y _.
  assert (G : forall j, slot (bkids (balloc s) y) j = slot (bkids s y) j).
  { intros j. cbn [balloc bkids]. unfold upd. destruct (Nat.eqb_spec y (bsize s)) as [->|_]; [|reflexivity].
    rewrite (bslot_none_outside s (bsize s) j W (le_n _)), slot2. destruct j as [|[|j]]; reflexivity. }
  split; apply G.
Qed.

Definition bnew_edit (s s' : bheap) (par : arg) : Prop :=
  exists s1 a1 a2,
    bsurgery (balloc s) s1 (bsize s) (slot_of_arg par)
    /\ relink_edit s1 s' (bsize s) [slot_of_arg a1; slot_of_arg a2].

Theorem new_is_edit cfg s l r par ch fp fc s' : BWF s ->
  barg_in_range s l = true -> barg_in_range s r = true -> barg_in_range s par = true ->
  forallb (barg_in_range s) ch = true ->
  bnew cfg s l r par ch fp fc = (s', Ok) ->
  (forall x, bsubtree (balloc s) x = bsubtree s x) /\ bnew_edit s s' par.
Proof.
  intros W Rl Rr Rp Rch E. split; [intros x; apply balloc_bsubtree; exact W|].
  unfold bnew in E. cbv zeta in E.
  pose proof (alloc_BWF s W) as W0.
  assert (Hx : bsize s < bsize (balloc s)) by (cbn [balloc bsize]; lia).
  match type of E with context [if ?b then _ else _] => destruct b end; [discriminate|].
  assert (Rp0 : barg_in_range (balloc s) par = true) by (eapply arg_range_mono; [|exact Rp]; lia).
  destruct (set_parent_sound cfg fp (balloc s) (bsize s) par W0 Hx Rp0) as [_ W1].
  pose proof (set_parent_size cfg fp (balloc s) (bsize s) par W0 Hx Rp0) as S1.
  destruct (bset_parent cfg fp (balloc s) (bsize s) par) as [s1 o] eqn:E1. cbn [fst] in *.
  destruct o; [|discriminate].
  assert (Hm : forall a, barg_in_range s a = true -> barg_in_range s1 a = true).
  { intros a. apply arg_range_mono. rewrite S1. lia. }
  assert (Rc : forallb (barg_in_range s1) match ch with [] => [l; r] | _ :: _ => ch end = true).
  { destruct ch as [|c0 t0].
    - cbn [forallb]. rewrite (Hm _ Rl), (Hm _ Rr). reflexivity.
    - apply forallb_forall. intros a Ha. apply Hm. rewrite forallb_forall in Rch. apply Rch. exact Ha. }
  destruct (set_children_is_edit cfg fc s1 (bsize s) CList _ s' W1 ltac:(rewrite S1; exact Hx) Rc E)
    as [a1 [a2 [_ H]]].
  exists s1, a1, a2. split; [|exact H].
  exact (set_parent_is_bsurgery cfg fp (balloc s) (bsize s) par s1 W0 Hx Rp0 E1).
Qed.

(* ========================================================================================== *)
(* 7. every accepted operation of the BinaryNode API is a binary-tree edit *)

Definition bedit_of (s s' : bheap) (o : bop) : Prop :=
  match o with
  | BSetParent c a _ => bsurgery s s' c (slot_of_arg a)
  | BSetChildren p _ args _ =>
      exists a1 a2, norm_args args = [a1; a2] /\ relink_edit s s' p [slot_of_arg a1; slot_of_arg a2]
  | BSetLeft p a _ => relink_edit s s' p [slot_of_arg a; slot (bkids s p) 1]
  | BSetRight p a _ => relink_edit s s' p [slot (bkids s p) 0; slot_of_arg a]
  | BDelChildren p =>
      bsubtree s' p = B (Some p) None None
      /\ forall x, ~ In (Some p) (tags (img (bsubtree s x))) -> bsubtree s' x = bsubtree s x
  | BSort p _ _ =>
      (forall x, ~ In (Some p) (tags (img (bsubtree s x))) -> bsubtree s' x = bsubtree s x)
      /\ (bsubtree s' p = bsubtree s p
          \/ bsubtree s' p = B (Some p) (bright (bsubtree s p)) (bleft (bsubtree s p)))
  | BExtend p cs _ => bappend_chain s p cs s'
  | BNew _ _ par _ _ _ => (forall x, bsubtree (balloc s) x = bsubtree s x) /\ bnew_edit s s' par
  end.

Theorem bstep_is_btree_edit cfg s o s' :
  BWF s -> bstep cfg s o = (s', Ok) -> bedit_of s s' o.
Proof.
  intros W E. unfold bstep in E. destruct (bop_in_range s o) eqn:Er; cbn [negb] in E; [|discriminate].
  destruct o; cbn [bop_in_range bedit_of] in *;
    repeat (apply andb_true_iff in Er; destruct Er as [Er ?]);
    unfold bin_range in *; try (apply Nat.ltb_lt in Er).
  - exact (set_parent_is_bsurgery cfg ft s c a s' W Er H E).
  - exact (set_children_is_edit cfg ft s p cont args s' W Er H E).
  - exact (set_left_is_edit cfg ft s p a s' W Er H E).
  - exact (set_right_is_edit cfg ft s p a s' W Er H E).
  - injection E as <-. destruct (del_children_is_edit s p W) as [H1 [H2 _]]. split; assumption.
  - injection E as <-. exact (sort_is_edit s p _ reverse W Er).
  - exact (extend_is_surgeries cfg p cs fts s s' W Er H E).
  - exact (new_is_edit cfg s l r par ch fp fc s' W Er H1 H0 H E).
Qed.
