(* BinaryNode operations as binary-tree edits (the analogue of Heap/AbsSurgery.v for the two-slot
   heap of Heap/Binary.v).  Everything is stated on `bsubtree s x : btree` (Heap/BinaryAbs.v), the
   binary tree hanging below node x of a well-formed state.

     1. frame            : a `bsubtree` depends only on the two slots of its own nodes
     2. c.parent = p     : the subtree below c moves intact; for every node r outside it the tree
                           below r afterwards is the tree below r before with the c-subtree cut out
                           (its slot becomes None) and written into the FIRST EMPTY slot of the node
                           tagged p (`bgraft`); closed forms at the new and at the old parent; frame
     3. c.parent = None  : the same with no graft
     4. del p.children   : p becomes B (Some p) None None, every subtree without p is unchanged
     5. p.children = [a; b] (also p.left = a, p.right = b): every new child is cut out wherever it
        was and the two slots of p are overwritten (`bput`); sort; extend; the constructor;
        `bstep_is_btree_edit`: every accepted operation of `bstep` is such an edit. *)
From BT Require Import Base.Prelude Base.Rose Heap.Forest Heap.Binary Heap.BinaryProofs Heap.Abs
     Heap.BinaryAbs Spec.PC04.

(* ========================================================================================== *)
(* 0. binary trees: induction with hypotheses for both slots, tags of the image *)

Definition oall (P : btree -> Prop) (o : option btree) : Prop :=
  match o with Some b => P b | None => True end.

Section BInd.
  Variable P : btree -> Prop.
  Hypothesis H : forall g l r, oall P l -> oall P r -> P (B g l r).
  Fixpoint btree_ind2 (b : btree) : P b :=
    match b with
    | B g l r =>
        H g l r (match l return oall P l with Some x => btree_ind2 x | None => I end)
                (match r return oall P r with Some x => btree_ind2 x | None => I end)
    end.
End BInd.

(* the tags below a slot *)
Definition otags (o : option btree) : list (option nat) := oslot (fun b => tags (img b)) o.

Lemma tags_img_B g l r : tags (img (B g l r)) = g :: otags l ++ otags r.
Proof.
  unfold tags, otags. destruct l as [x|]; destruct r as [y|];
    cbn [img oslot app pre flat_map map ttag]; rewrite ?app_nil_r, ?map_app; reflexivity.
Qed.

Lemma tags_root_b b : In (btag b) (tags (img b)).
Proof. destruct b as [g l r]. rewrite tags_img_B. left. reflexivity. Qed.

Lemma otags_in_l g l r x y : l = Some x -> In y (tags (img x)) -> In y (tags (img (B g l r))).
Proof. intros -> H. rewrite tags_img_B. right. apply in_or_app. left. exact H. Qed.

Lemma otags_in_r g l r x y : r = Some x -> In y (tags (img x)) -> In y (tags (img (B g l r))).
Proof. intros -> H. rewrite tags_img_B. right. apply in_or_app. right. exact H. Qed.

Lemma btag_bsubtree s x : btag (bsubtree s x) = Some x.
Proof. reflexivity. Qed.

Lemma option_map_map {A B C} (f : A -> B) (g : B -> C) (o : option A) :
  option_map g (option_map f o) = option_map (fun x => g (f x)) o.
Proof. destruct o; reflexivity. Qed.

Lemma option_map_ext_in {A B} (f g : A -> B) (o : option A) :
  (forall x, o = Some x -> f x = g x) -> option_map f o = option_map g o.
Proof. destruct o as [x|]; intros H; [cbn [option_map]; f_equal; apply H; reflexivity|reflexivity]. Qed.

(* the subtree of a child is part of the subtree of its parent *)
Lemma tags_child_incl s q k y : BWF s -> bpar s k = Some q ->
  In y (tags (img (bsubtree s k))) -> In y (tags (img (bsubtree s q))).
Proof.
  intros W E H. rewrite (btags_unfold s q W). right. apply in_flat_map. exists k.
  split; [apply (bchildren_link s q k W); exact E|exact H].
Qed.

(* a node is not inside the subtree of one of its children *)
Lemma parent_not_in_child s q k : BWF s -> bpar s k = Some q -> ~ In (Some q) (tags (img (bsubtree s k))).
Proof.
  intros W E H. apply (bsubtree_members s k q W) in H. destruct (kid_not_anc s k q W E) as [H1 H2].
  destruct H as [->|H]; [apply H1; reflexivity|exact (H2 H)].
Qed.

(* well-founded induction along the slots of a well-formed state *)
Lemma bheap_ind s (Q : id -> Prop) : BWF s ->
  (forall r, (forall j k, slot (bkids s r) j = Some k -> Q k) -> Q r) -> forall r, Q r.
Proof.
  intros W H.
  assert (G : forall n r, bsize s < bdepth s r + n -> Q r).
  { induction n as [|n IH]; intros r Hd; apply H; intros j k Hk.
    - destruct (Nat.lt_ge_cases r (bsize s)) as [Hlt|Hge].
      + pose proof (bdepth_le_size s r W Hlt). lia.
      + rewrite (bslot_none_outside s r j W Hge) in Hk. discriminate.
    - apply IH. rewrite (bdepth_child s k r W (bslot_child s r j k W Hk)). lia. }
  intros r. apply (G (S (bsize s))). unfold bdepth. lia.
Qed.

(* ========================================================================================== *)
(* 1. frame: a subtree depends only on the two slots of its own nodes *)

Lemma btree_of_frame s s' : forall f x,
  (forall y, In (Some y) (tags (img (btree_of s f x))) ->
     slot (bkids s' y) 0 = slot (bkids s y) 0 /\ slot (bkids s' y) 1 = slot (bkids s y) 1) ->
  btree_of s' f x = btree_of s f x.
Proof.
  induction f as [|f IH]; intros x H; [reflexivity|].
  rewrite !btree_of_S. destruct (H x) as [H0 H1]; [rewrite btree_of_S, tags_img_B; left; reflexivity|].
  rewrite H0, H1. f_equal.
  - apply option_map_ext_in. intros k Hk. apply IH. intros y Hy. apply H. rewrite btree_of_S.
    apply (otags_in_l _ _ _ (btree_of s f k)); [rewrite Hk; reflexivity|exact Hy].
  - apply option_map_ext_in. intros k Hk. apply IH. intros y Hy. apply H. rewrite btree_of_S.
    apply (otags_in_r _ _ _ (btree_of s f k)); [rewrite Hk; reflexivity|exact Hy].
Qed.

Theorem bsubtree_frame_slots s s' x :
  bsize s' = bsize s ->
  (forall y, In (Some y) (tags (img (bsubtree s x))) ->
     slot (bkids s' y) 0 = slot (bkids s y) 0 /\ slot (bkids s' y) 1 = slot (bkids s y) 1) ->
  bsubtree s' x = bsubtree s x.
Proof. intros Hs H. unfold bsubtree. rewrite Hs. apply btree_of_frame. exact H. Qed.

Theorem bsubtree_frame s s' x :
  bsize s' = bsize s ->
  (forall y, In (Some y) (tags (img (bsubtree s x))) -> bkids s' y = bkids s y) ->
  bsubtree s' x = bsubtree s x.
Proof.
  intros Hs H. apply bsubtree_frame_slots; [exact Hs|]. intros y Hy. rewrite (H y Hy). split; reflexivity.
Qed.

(* pointwise equal states have the same subtrees *)
Lemma bsubtree_beq s t x : beq s t -> bsubtree s x = bsubtree t x.
Proof. intros [Hs [_ Hk]]. apply bsubtree_frame; [exact Hs|]. intros y _. apply Hk. Qed.

(* ========================================================================================== *)
(* 2. the edits on binary trees *)

Definition in_news (news : list (option id)) (g : option nat) : bool :=
  match g with Some x => slot_mem x news | None => false end.

Definition cutl_slot (news : list (option id)) (f : btree -> btree) (o : option btree) : option btree :=
  match o with
  | Some b => if in_news news (btag b) then None else Some (f b)
  | None => None
  end.

(* empty every slot whose occupant is tagged by a member of `news` (the root itself stays) *)
Fixpoint bcutl (news : list (option id)) (b : btree) : btree :=
  match b with
  | B g l r => B g (cutl_slot news (bcutl news) l) (cutl_slot news (bcutl news) r)
  end.

(* cut out the subtree tagged c *)
Definition bcut (c : id) (b : btree) : btree := bcutl [Some c] b.

(* write u into the first empty one of two slots (both taken: nothing to write into) *)
Definition bfill (u : btree) (l r : option btree) : option btree * option btree :=
  match l, r with
  | None, _ => (Some u, r)
  | Some _, None => (l, Some u)
  | Some _, Some _ => (l, r)
  end.

(* write u into the first empty slot of the node tagged p (tags are distinct: at most one) *)
Fixpoint bgraft (p : id) (u : btree) (b : btree) : btree :=
  match b with
  | B g l r =>
      let l' := option_map (bgraft p u) l in
      let r' := option_map (bgraft p u) r in
      if tag_is g p then B g (fst (bfill u l' r')) (snd (bfill u l' r')) else B g l' r'
  end.

Definition bgraft_opt (np : option id) (u : btree) (b : btree) : btree :=
  match np with Some p => bgraft p u b | None => b end.

(* overwrite both slots of the node tagged p *)
Fixpoint bput (p : id) (L R : option btree) (b : btree) : btree :=
  match b with
  | B g l r =>
      if tag_is g p then B g L R else B g (option_map (bput p L R) l) (option_map (bput p L R) r)
  end.

Definition is_np (np : option id) (g : option nat) : bool :=
  match np with Some p => tag_is g p | None => false end.

Lemma bgraft_opt_B np u g l r :
  bgraft_opt np u (B g l r) =
  if is_np np g
  then B g (fst (bfill u (option_map (bgraft_opt np u) l) (option_map (bgraft_opt np u) r)))
           (snd (bfill u (option_map (bgraft_opt np u) l) (option_map (bgraft_opt np u) r)))
  else B g (option_map (bgraft_opt np u) l) (option_map (bgraft_opt np u) r).
Proof.
  destruct np as [p|]; [reflexivity|]. cbn [bgraft_opt is_np].
  destruct l; destruct r; reflexivity.
Qed.

Lemma bcutl_B news g l r :
  bcutl news (B g l r) = B g (cutl_slot news (bcutl news) l) (cutl_slot news (bcutl news) r).
Proof. reflexivity. Qed.

Lemma bput_B p L R g l r :
  bput p L R (B g l r) =
  if tag_is g p then B g L R else B g (option_map (bput p L R) l) (option_map (bput p L R) r).
Proof. reflexivity. Qed.

Lemma bcutl_tag news b : btag (bcutl news b) = btag b.
Proof. destruct b; reflexivity. Qed.

Lemma rmset_one c o : rmset [Some c] o = rm c o.
Proof.
  destruct o as [y|]; [|reflexivity]. unfold rmset, rm. cbn [slot_mem existsb].
  rewrite Bool.orb_false_r, (Nat.eqb_sym y c). reflexivity.
Qed.

(* cutting below a heap slot *)
Lemma cutl_slot_sub s news (o : option id) :
  cutl_slot news (bcutl news) (option_map (bsubtree s) o)
  = option_map (fun k => bcutl news (bsubtree s k)) (rmset news o).
Proof.
  destruct o as [k|]; [|reflexivity]. cbn [option_map cutl_slot]. rewrite btag_bsubtree.
  cbn [in_news rmset]. destruct (slot_mem k news); reflexivity.
Qed.

(* ---- the edits do nothing where the tag does not occur ---- *)
Lemma otags_cutl_incl news (P : btree -> Prop) o y :
  oall (fun b => In y (tags (img (bcutl news b))) -> In y (tags (img b))) o ->
  In y (otags (cutl_slot news (bcutl news) o)) -> In y (otags o).
Proof.
  destruct o as [b|]; cbn [oall cutl_slot otags oslot]; [|intros _ []].
  destruct (in_news news (btag b)); cbn [oslot]; [intros _ []|auto].
Qed.

Lemma tags_bcutl_incl news y : forall b, In y (tags (img (bcutl news b))) -> In y (tags (img b)).
Proof.
  induction b as [g l r IHl IHr] using btree_ind2. rewrite bcutl_B, !tags_img_B.
  intros [H|H]; [left; exact H|right]. apply in_app_or in H. apply in_or_app.
  destruct H as [H|H]; [left|right]; eapply (otags_cutl_incl news (fun _ => True)); eassumption.
Qed.

Theorem bcutl_absent news : forall b,
  (forall x, In (Some x) news -> ~ In (Some x) (tags (img b))) -> bcutl news b = b.
Proof.
  induction b as [g l r IHl IHr] using btree_ind2. intros H. rewrite bcutl_B.
  assert (G : forall o, oall (fun b => (forall x, In (Some x) news -> ~ In (Some x) (tags (img b))) ->
                                       bcutl news b = b) o ->
              (forall x y, In (Some x) news -> In y (otags o) -> y <> Some x) ->
              cutl_slot news (bcutl news) o = o).
  { intros [b|] Hb Ho; cbn [oall cutl_slot] in *; [|reflexivity].
    assert (E : in_news news (btag b) = false).
    { unfold in_news. destruct (btag b) as [x|] eqn:Ex; [|reflexivity]. apply slot_mem_false. intros Hin.
      apply (Ho x (Some x) Hin); [|reflexivity]. cbn [otags oslot]. rewrite <- Ex. apply tags_root_b. }
    rewrite E. f_equal. apply Hb. intros x Hx Hin. exact (Ho x (Some x) Hx Hin eq_refl). }
  f_equal.
  - apply G; [exact IHl|]. intros x y Hx Hy ->. apply (H x Hx). rewrite tags_img_B. right.
    apply in_or_app. left. exact Hy.
  - apply G; [exact IHr|]. intros x y Hx Hy ->. apply (H x Hx). rewrite tags_img_B. right.
    apply in_or_app. right. exact Hy.
Qed.

Theorem bcut_absent c b : ~ In (Some c) (tags (img b)) -> bcut c b = b.
Proof. intros H. apply bcutl_absent. intros x [[= <-]|[]]. exact H. Qed.

Lemma tag_is_root_false g l r p : ~ In (Some p) (tags (img (B g l r))) -> tag_is g p = false.
Proof.
  intros H. destruct g as [x|]; [|reflexivity]. cbn [tag_is]. apply Nat.eqb_neq. intros ->.
  apply H. rewrite tags_img_B. left. reflexivity.
Qed.

Lemma option_map_absent (f : btree -> btree) (o : option btree) (Q : btree -> Prop) :
  oall (fun b => Q b -> f b = b) o -> oall Q o -> option_map f o = o.
Proof. destruct o as [b|]; cbn [oall option_map]; [intros H1 H2; f_equal; auto|reflexivity]. Qed.

Theorem bgraft_absent p u : forall b, ~ In (Some p) (tags (img b)) -> bgraft p u b = b.
Proof.
  induction b as [g l r IHl IHr] using btree_ind2. intros H. cbn [bgraft].
  rewrite (tag_is_root_false g l r p H). f_equal.
  - apply (option_map_absent _ _ _ IHl). destruct l as [x|]; cbn [oall]; [|exact I].
    intros Hin. apply H. exact (otags_in_l g _ r x _ eq_refl Hin).
  - apply (option_map_absent _ _ _ IHr). destruct r as [x|]; cbn [oall]; [|exact I].
    intros Hin. apply H. exact (otags_in_r g l _ x _ eq_refl Hin).
Qed.

Theorem bput_absent p L R : forall b, ~ In (Some p) (tags (img b)) -> bput p L R b = b.
Proof.
  induction b as [g l r IHl IHr] using btree_ind2. intros H. rewrite bput_B.
  rewrite (tag_is_root_false g l r p H). f_equal.
  - apply (option_map_absent _ _ _ IHl). destruct l as [x|]; cbn [oall]; [|exact I].
    intros Hin. apply H. exact (otags_in_l g _ r x _ eq_refl Hin).
  - apply (option_map_absent _ _ _ IHr). destruct r as [x|]; cbn [oall]; [|exact I].
    intros Hin. apply H. exact (otags_in_r g l _ x _ eq_refl Hin).
Qed.
