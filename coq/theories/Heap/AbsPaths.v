(* Path names: heap versus exported path column.
   The heap model (Heap/Forest.v) computes `path_name s n` by walking parent pointers (node.py:113-121);
   the exporters of C06 (Algo/Export.v, Spec/PC06.v) compute the "path" of a node from the list of names
   accumulated while walking DOWN the rose tree (`nodes_under anc t`, `c_path sep c`), and search.py's
   model (Algo/Search.v) from the list of located ancestors (`ln_path_name`).  This file proves that on
   the rose tree `subtree s x` hanging below a node of a well-formed heap state (Heap/Abs.v) these are
   the same strings, node by node in pre-order, and transports the heap-level distinctness theorem of
   C03 (Heap/ForestLookup.v) to the exported path column. *)
From BT Require Import Base.Prelude Base.Str Base.StrSep Base.Rose Algo.Export Spec.PC06 Algo.ExportProofs
     Algo.Search.
From BT Require Import Heap.Forest Heap.ForestWF Heap.ForestOps Heap.ForestStep Heap.ForestPath
     Heap.ForestNames Heap.ForestLookup Heap.Abs.

(* ---------------------------------------------------------------------------------------------- *)
(* lists *)

Lemma flat_map_flat_map {A B C} (f : A -> list B) (g : B -> list C) l :
  flat_map g (flat_map f l) = flat_map (fun x => flat_map g (f x)) l.
Proof.
  induction l as [|x l IH]; [reflexivity|]. cbn [flat_map]. rewrite flat_map_app, IH. reflexivity.
Qed.

Lemma flat_map_of_map {A B C} (g : A -> B) (f : B -> list C) l :
  flat_map f (map g l) = flat_map (fun x => f (g x)) l.
Proof. induction l as [|x l IH]; [reflexivity|]. cbn [map flat_map]. rewrite IH. reflexivity. Qed.

Lemma flat_map_ext_in' {A B} (f g : A -> list B) l :
  (forall x, In x l -> f x = g x) -> flat_map f l = flat_map g l.
Proof.
  induction l as [|x l IH]; intros H; [reflexivity|]. cbn [flat_map].
  rewrite (H x) by (left; reflexivity). rewrite IH; [reflexivity|]. intros y Hy. apply H. right. exact Hy.
Qed.

Lemma NoDup_map_inj_in {A B} (f : A -> B) l :
  NoDup l -> (forall a b, In a l -> In b l -> f a = f b -> a = b) -> NoDup (map f l).
Proof.
  induction l as [|x l IH]; intros Hnd Hinj; cbn [map]; [constructor|].
  inversion Hnd as [|? ? Hx Hl]; subst. constructor.
  - intros Hin. apply in_map_iff in Hin as [y [E Hy]]. apply Hx.
    rewrite (Hinj x y); [exact Hy|left; reflexivity|right; exact Hy|symmetry; exact E].
  - apply IH; [exact Hl|]. intros a b Ha Hb. apply Hinj; right; assumption.
Qed.

Lemma map_fst_combine {A B} (a : list A) : forall (b : list B), length a = length b -> map fst (combine a b) = a.
Proof.
  induction a as [|x a IH]; intros [|y b] H; try discriminate; [reflexivity|].
  cbn [combine map fst]. f_equal. apply IH. injection H as H. exact H.
Qed.

(* ---------------------------------------------------------------------------------------------- *)
(* the ids tagging the nodes of a rose tree, in pre-order *)

Definition tag_list (k : tree) : list id := match ttag k with Some y => [y] | None => [] end.
Definition tag_ids (t : tree) : list id := flat_map tag_list (pre t).

Lemma tag_ids_unfold g n a ks : tag_ids (T g n a ks) = tag_list (T g n a ks) ++ flat_map tag_ids ks.
Proof. unfold tag_ids. cbn [pre flat_map]. rewrite flat_map_flat_map. reflexivity. Qed.

Lemma in_tag_ids t y : In y (tag_ids t) <-> In (Some y) (tags t).
Proof.
  unfold tag_ids, tags. rewrite in_flat_map, in_map_iff. split.
  - intros [k [Hk Hy]]. exists k. split; [|exact Hk]. unfold tag_list in Hy.
    destruct (ttag k) as [z|]; [|contradiction]. destruct Hy as [->|[]]. reflexivity.
  - intros [k [E Hk]]. exists k. split; [exact Hk|]. unfold tag_list. rewrite E. left. reflexivity.
Qed.

Lemma tag_ids_nodup t : NoDup (tags t) -> NoDup (tag_ids t).
Proof.
  unfold tag_ids, tags. induction (pre t) as [|k l IH]; cbn [map flat_map]; intros H; [constructor|].
  inversion H as [|? ? Hk Hl]; subst. unfold tag_list at 1. destruct (ttag k) as [y|] eqn:E; cbn [app].
  - constructor; [|apply IH; exact Hl]. intros Hin. apply Hk.
    apply in_flat_map in Hin as [k' [Hk' Hy]]. apply in_map_iff. exists k'. split; [|exact Hk'].
    unfold tag_list in Hy. destruct (ttag k') as [z|]; [|contradiction]. destruct Hy as [->|[]]. reflexivity.
  - apply IH. exact Hl.
Qed.

(* ---------------------------------------------------------------------------------------------- *)
(* induction over the heap below a node: a property holds of x when it holds of all children of x *)

Lemma heap_below_ind s (P : id -> Prop) : WF s ->
  (forall x, (forall c, In c (kids s x) -> P c) -> P x) -> forall x, P x.
Proof.
  intros W H.
  assert (G : forall n x, size s < depth s x + n -> P x).
  { induction n as [|n IH]; intros x Hx.
    - destruct (Nat.lt_ge_cases x (size s)) as [Hlt|Hge]; [pose proof (depth_le_size s x W Hlt); lia|].
      apply H. intros c Hc. rewrite (kids_nil_outside s x W Hge) in Hc. contradiction.
    - apply H. intros c Hc. apply IH. apply (wf_link s W) in Hc. rewrite (depth_child s c x W Hc). lia. }
  intros x. apply (G (S (size s))). unfold depth. lia.
Qed.

Lemma tname_subtree s x : tname (subtree s x) = name s x.
Proof. reflexivity. Qed.

Lemma ttag_subtree s x : ttag (subtree s x) = Some x.
Proof. reflexivity. Qed.

Lemma tkids_subtree s x : WF s -> tkids (subtree s x) = map (subtree s) (kids s x).
Proof. intros W. rewrite (subtree_unfold s x W). reflexivity. Qed.

Lemma tag_ids_subtree s x : WF s ->
  tag_ids (subtree s x) = x :: flat_map (fun c => tag_ids (subtree s c)) (kids s x).
Proof.
  intros W. rewrite (subtree_unfold s x W) at 1. rewrite tag_ids_unfold. unfold tag_list. cbn [ttag app].
  rewrite flat_map_of_map. reflexivity.
Qed.

(* every tag of the subtree is a heap id: the tag list is the id list *)
Theorem tag_ids_tags s : WF s -> forall x, map Some (tag_ids (subtree s x)) = tags (subtree s x).
Proof.
  intros W. apply (heap_below_ind s _ W). intros x IH.
  rewrite (tag_ids_subtree s x W), (tags_unfold s x W). cbn [map]. f_equal.
  rewrite map_flat_map. apply flat_map_ext_in'. exact IH.
Qed.

Theorem tag_ids_subtree_nodup s x : WF s -> NoDup (tag_ids (subtree s x)).
Proof. intros W. apply tag_ids_nodup, subtree_tags_nodup. exact W. Qed.

Theorem tag_ids_members s x y : WF s -> In y (tag_ids (subtree s x)) <-> y = x \/ In x (ancestors s y).
Proof. intros W. rewrite in_tag_ids. apply subtree_members. exact W. Qed.

(* ---------------------------------------------------------------------------------------------- *)
(* names of the ancestors, root first, read from the heap *)

Definition heap_anc_names (s : forest) (x : id) : list str := map (name s) (rev (ancestors s x)).

Lemma heap_anc_names_root s r : par s r = None -> heap_anc_names s r = [].
Proof.
  intros E. unfold heap_anc_names, ancestors. destruct (size s); cbn [anc]; rewrite ?E; reflexivity.
Qed.

Lemma heap_anc_names_child s c p : WF s -> par s c = Some p ->
  heap_anc_names s c = heap_anc_names s p ++ [name s p].
Proof.
  intros W E. unfold heap_anc_names. rewrite (WF_ancestors_unfold s c p W E). cbn [rev].
  rewrite map_app. reflexivity.
Qed.

Lemma route_names s x : map (name s) (route s x) = heap_anc_names s x ++ [name s x].
Proof. unfold route, heap_anc_names. cbn [rev]. rewrite map_app. reflexivity. Qed.

(* the name list the exporter has accumulated when it reaches the node tagged y is the list of heap
   names on the route from the root to y *)
Theorem exported_name_lists s : WF s -> forall x,
  map fst (nodes_under (heap_anc_names s x) (subtree s x))
  = map (fun y => map (name s) (route s y)) (tag_ids (subtree s x)).
Proof.
  intros W. apply (heap_below_ind s _ W). intros x IH.
  rewrite (tag_ids_subtree s x W). rewrite (subtree_unfold s x W) at 1.
  rewrite nodes_under_unfold. cbn [map]. f_equal.
  - unfold ctx_of. cbn [fst tname]. rewrite route_names. reflexivity.
  - rewrite flat_map_of_map, !map_flat_map. apply flat_map_ext_in'. intros c Hc.
    apply (wf_link s W) in Hc. rewrite <- (heap_anc_names_child s c x W Hc). apply IH.
    apply (wf_link s W). exact Hc.
Qed.

Lemma member_same_root s x y : WF s -> In y (tag_ids (subtree s x)) -> root s y = root s x.
Proof.
  intros W Hy. apply (tag_ids_members s x y W) in Hy. destruct Hy as [->|Hy]; [reflexivity|].
  symmetry. apply (route_same_root s W (ancestors s y) y x eq_refl).
  unfold route. rewrite <- in_rev. right. exact Hy.
Qed.

Lemma member_same_sep s x y : WF s -> In y (tag_ids (subtree s x)) -> sep s y = sep s x.
Proof. intros W Hy. rewrite (sep_spec s y W), (sep_spec s x W), (member_same_root s x y W Hy). reflexivity. Qed.

Lemma c_path_map sp (ns : list cnode) : map (c_path sp) ns = map (fun l => sp ++ join sp l) (map fst ns).
Proof. rewrite map_map. reflexivity. Qed.

Lemma c_depth_map (ns : list cnode) : map c_depth ns = map (@length str) (map fst ns).
Proof. rewrite map_map. reflexivity. Qed.

(* (3), general form: export started at ANY node x, with the ancestor names of x read from the heap:
   the path column is the heap's path_name, node by node in pre-order *)
Theorem exported_paths_from s x : WF s ->
  map (c_path (sep s x)) (nodes_under (heap_anc_names s x) (subtree s x))
  = map (Forest.path_name s) (tag_ids (subtree s x)).
Proof.
  intros W. rewrite c_path_map.
  rewrite (exported_name_lists s W x), map_map. apply map_ext_in. intros y Hy.
  rewrite (path_name_spec s y W), (member_same_sep s x y W Hy). reflexivity.
Qed.

Theorem exported_depths_from s x : WF s ->
  map c_depth (nodes_under (heap_anc_names s x) (subtree s x)) = map (depth s) (tag_ids (subtree s x)).
Proof.
  intros W. rewrite c_depth_map.
  rewrite (exported_name_lists s W x), map_map. apply map_ext. intros y.
  rewrite map_length. symmetry. apply depth_spec.
Qed.

(* the exported contexts carry the right nodes: the second components are the subtrees, in pre-order *)
Lemma nodes_under_snd anc t : map snd (nodes_under anc t) = pre t.
Proof.
  unfold nodes_under. generalize (paths_from_length t anc). generalize (paths_from anc t) as a.
  induction (pre t) as [|k l IH]; intros [|p a] H; try discriminate; [reflexivity|].
  cbn [combine map snd]. f_equal. apply IH. injection H as H. exact H.
Qed.

(* (1): export of a whole tree (start node = root r) *)
Theorem exported_paths_root s r : WF s -> par s r = None ->
  map (c_path (sep s r)) (nodes_under [] (subtree s r)) = map (Forest.path_name s) (tag_ids (subtree s r)).
Proof. intros W E. rewrite <- (heap_anc_names_root s r E). apply exported_paths_from. exact W. Qed.

(* (2) *)
Theorem exported_depths_root s r : WF s -> par s r = None ->
  map c_depth (nodes_under [] (subtree s r)) = map (depth s) (tag_ids (subtree s r)).
Proof. intros W E. rewrite <- (heap_anc_names_root s r E). apply exported_depths_from. exact W. Qed.

(* pointwise reading of (1) and (2): the context exported for the node tagged y *)
Lemma maps_pointwise {A B C D E} (f1 : A -> C) (g1 : B -> C) (f2 : A -> D) (g2 : B -> D)
      (f3 : A -> E) (g3 : B -> E) : forall l1 l2,
  map f1 l1 = map g1 l2 -> map f2 l1 = map g2 l2 -> map f3 l1 = map g3 l2 ->
  forall a, In a l1 -> exists b, In b l2 /\ f1 a = g1 b /\ f2 a = g2 b /\ f3 a = g3 b.
Proof.
  induction l1 as [|x l1 IH]; intros [|y l2] H1 H2 H3 a Ha; try discriminate; [contradiction|].
  cbn [map] in H1, H2, H3. injection H1 as E1 H1. injection H2 as E2 H2. injection H3 as E3 H3.
  destruct Ha as [<-|Ha].
  - exists y. split; [left; reflexivity|]. repeat split; assumption.
  - destruct (IH l2 H1 H2 H3 a Ha) as [b [Hb Hrest]]. exists b. split; [right; exact Hb|exact Hrest].
Qed.

Theorem exported_context_pointwise s r c : WF s -> par s r = None ->
  In c (nodes_under [] (subtree s r)) ->
  exists y, In y (tag_ids (subtree s r)) /\ ttag (snd c) = Some y
            /\ c_path (sep s r) c = Forest.path_name s y /\ c_depth c = depth s y.
Proof.
  intros W E Hc.
  apply (maps_pointwise (fun c => ttag (snd c)) Some (c_path (sep s r)) (Forest.path_name s) c_depth (depth s)
           (nodes_under [] (subtree s r)) (tag_ids (subtree s r))); [| | |exact Hc].
  - rewrite <- (map_map snd ttag), nodes_under_snd. symmetry. apply (tag_ids_tags s W r).
  - apply exported_paths_root; assumption.
  - apply exported_depths_root; assumption.
Qed.

(* ---------------------------------------------------------------------------------------------- *)
(* (3): start node addressed by a position of the exported tree, ancestor names by Spec/PC06.anc_names *)

(* the heap node at child-index position p below x *)
Fixpoint node_at (s : forest) (x : id) (p : pos) : option id :=
  match p with
  | [] => Some x
  | i :: p' => match nth_error (kids s x) i with
               | Some k => node_at s k p'
               | None => None
               end
  end.

Lemma subtree_at_heap s : WF s -> forall p x,
  subtree_at (subtree s x) p = option_map (subtree s) (node_at s x p).
Proof.
  intros W. induction p as [|i p IH]; intros x; [reflexivity|].
  cbn [subtree_at node_at]. rewrite (tkids_subtree s x W), nth_error_map.
  destruct (nth_error (kids s x) i) as [k|]; cbn [option_map]; [apply IH|reflexivity].
Qed.

Lemma node_at_root s : WF s -> forall p x y, node_at s x p = Some y -> root s y = root s x.
Proof.
  intros W. induction p as [|i p IH]; intros x y H; cbn [node_at] in H.
  - injection H as <-. reflexivity.
  - destruct (nth_error (kids s x) i) as [k|] eqn:E; [|discriminate].
    apply nth_error_In, (wf_link s W) in E. rewrite (IH k y H). apply (root_parent s k x W E).
Qed.

(* the exporter's `anc_names` of the start position are the heap names of the ancestors *)
Theorem anc_names_heap s : WF s -> forall p x y, node_at s x p = Some y ->
  heap_anc_names s y = heap_anc_names s x ++ anc_names (subtree s x) p.
Proof.
  intros W. induction p as [|i p IH]; intros x y H; cbn [node_at] in H.
  - injection H as <-. change (anc_names (subtree s x) []) with (@nil str). rewrite app_nil_r. reflexivity.
  - rewrite anc_names_cons, (tkids_subtree s x W), nth_error_map, tname_subtree.
    destruct (nth_error (kids s x) i) as [k|] eqn:E; [|discriminate]. cbn [option_map].
    apply nth_error_In, (wf_link s W) in E.
    rewrite (IH k y H), (heap_anc_names_child s k x W E), <- app_assoc. reflexivity.
Qed.

Theorem exported_paths_inner s r p x : WF s -> par s r = None -> node_at s r p = Some x ->
  nodes_from (subtree s r) p = Some (nodes_under (heap_anc_names s x) (subtree s x))
  /\ anc_names (subtree s r) p = heap_anc_names s x
  /\ map (c_path (sep s r)) (nodes_under (anc_names (subtree s r) p) (subtree s x))
     = map (Forest.path_name s) (tag_ids (subtree s x))
  /\ map c_depth (nodes_under (anc_names (subtree s r) p) (subtree s x))
     = map (depth s) (tag_ids (subtree s x)).
Proof.
  intros W E H.
  assert (Ea : anc_names (subtree s r) p = heap_anc_names s x).
  { rewrite (anc_names_heap s W p r x H), (heap_anc_names_root s r E). reflexivity. }
  assert (Es : sep s r = sep s x).
  { rewrite (sep_spec s r W), (sep_spec s x W), (node_at_root s W p r x H). reflexivity. }
  split; [|split; [exact Ea|split]].
  - unfold nodes_from. rewrite (subtree_at_heap s W p r), H. cbn [option_map]. rewrite Ea. reflexivity.
  - rewrite Ea, Es. apply exported_paths_from. exact W.
  - rewrite Ea. apply exported_depths_from. exact W.
Qed.

(* ---------------------------------------------------------------------------------------------- *)
(* (4): the exported path column has no duplicates, transported from the heap-level C03 theorem *)

Theorem exported_paths_nodup_multi s r : WF s -> SU s -> par s r = None -> sep_safe_multi s r ->
  NoDup (map (c_path (sep s r)) (nodes_under [] (subtree s r))).
Proof.
  intros W U E Hs. rewrite (exported_paths_root s r W E).
  apply NoDup_map_inj_in; [apply tag_ids_subtree_nodup; exact W|].
  intros a b Ha Hb Hp.
  pose proof (member_same_root s r a W Ha) as Ra. pose proof (member_same_root s r b W Hb) as Rb.
  rewrite (root_root s r E) in Ra, Rb.
  apply (paths_distinct_multi s a b W U); [congruence|rewrite Rb; exact Hs|exact Hp].
Qed.

Theorem exported_paths_nodup s r c : WF s -> SU s -> par s r = None -> ForestLookup.sep_safe s r c ->
  NoDup (map (c_path (sep s r)) (nodes_under [] (subtree s r))).
Proof.
  intros W U E Hs. apply exported_paths_nodup_multi; [exact W|exact U|exact E|].
  apply (sep_safe_is_multi s r c). exact Hs.
Qed.

(* in every state reachable through the structural API of Node *)
Theorem reachable_exported_paths_nodup cfg n names seps ops r c :
  is_node cfg = true ->
  let s := Forest.run cfg (init n names seps) ops in
  par s r = None -> ForestLookup.sep_safe s r c ->
  NoDup (map (c_path (sep s r)) (nodes_under [] (subtree s r))).
Proof.
  intros Hn s E Hs. destruct (run_WF_SU cfg ops Hn (init n names seps) (WF_init _ _ _) (SU_init _ _ _)) as [W U].
  apply (exported_paths_nodup s r c W U E Hs).
Qed.

(* consequence for tree_to_dict itself: the keys of the full export of a whole reachable tree are the
   heap's path names in pre-order (no key is lost to a collision) *)
Theorem tree_to_dict_keys_are_path_names s r : WF s -> SU s -> par s r = None -> sep_safe_multi s r ->
  exists d, tree_to_dict (subtree s r) (sep s r) [] full_opts = Ret d
            /\ map fst d = map (Forest.path_name s) (tag_ids (subtree s r)).
Proof.
  intros W U E Hs.
  pose proof (exported_paths_nodup_multi s r W U E Hs) as Hnd.
  eexists. split.
  - apply (tree_to_dict_map (subtree s r) (sep s r) [] full_opts (nodes_under [] (subtree s r))); [reflexivity|].
    rewrite filter_true by apply selected_full. exact Hnd.
  - rewrite filter_true by apply selected_full. rewrite map_map. cbn [fst].
    apply (exported_paths_root s r W E).
Qed.

(* ---------------------------------------------------------------------------------------------- *)
(* (5): search.py's path of a located node (Algo/Search.v) is the same string *)

Lemma preorder_all_names t : forall up,
  map ln_names (preorder_iter (fun _ => true) 0 up t) = paths_from (rev (map tname up)) t.
Proof.
  induction t as [g n a ks IH] using tree_ind'. intros up.
  cbn [preorder_iter paths_from Nat.eqb orb app map]. f_equal.
  rewrite map_flat_map. apply flat_map_ext_Forall. eapply Forall_impl; [|exact IH].
  intros k Hk. rewrite Hk. reflexivity.
Qed.

Lemma nodes_under_fst anc t : map fst (nodes_under anc t) = paths_from anc t.
Proof. unfold nodes_under. apply map_fst_combine, paths_from_length. Qed.

(* the path strings search.py's find_path(s) tests, node by node in pre-order, are the exported ones *)
Theorem search_paths_are_exported sp t :
  map (ln_path_name sp) (preorder_iter (fun _ => true) 0 [] t) = map (c_path sp) (nodes_under [] t).
Proof.
  transitivity (map (fun l => sp ++ join sp l) (map ln_names (preorder_iter (fun _ => true) 0 [] t))).
  { rewrite map_map. reflexivity. }
  rewrite preorder_all_names, c_path_map, nodes_under_fst. reflexivity.
Qed.

Theorem search_paths_are_path_names s r : WF s -> par s r = None ->
  map (ln_path_name (sep s r)) (preorder_iter (fun _ => true) 0 [] (subtree s r))
  = map (Forest.path_name s) (tag_ids (subtree s r)).
Proof. intros W E. rewrite search_paths_are_exported. apply exported_paths_root; assumption. Qed.
