(* C07, third round: the copy_nodes option variant delete_children (modify.py:1204-1224 with copy=True,
   merge_children = merge_leaves = False, delete_children any) as rose-tree surgery, and the consequence
   "nothing of the source is cut, a tree that does not contain the destination is exactly as before".

   1. attach_fresh_graft: the generic step - attaching a node c whose subtree lies entirely above a watermark n
      below a node to_ leaves every tree rooted below the watermark either unchanged (refused) or with
      subtree c grafted as the last child of to_;
   2. copy_nodes_dc_is_graft: sk_copy_nodes cfg h from_ to_ false false dc, for BOTH values of dc;
   3. copy_nodes_dc_source_kept: whatever the outcome, every old tree not containing to_ is unchanged (in
      particular the tree below from_ when to_ is not below from_), and so is it after any later history on
      the fresh nodes. *)
From BT Require Import Base.Prelude Base.Str Heap.Forest Heap.Effects Heap.EffectsProofs Heap.C07More2.
From BT Require Base.Rose Heap.ForestWF Heap.ForestOps Heap.ForestStep Heap.Abs Heap.AbsSurgery.

Lemma attach_fresh_graft cfg s n c to_ :
  ForestWF.WF s -> c < size s -> to_ < size s ->
  (forall y, In (Some y) (Abs.tags (Abs.subtree s c)) -> n <= y) ->
  (forall r y, r < n -> In (Some y) (Abs.tags (Abs.subtree s r)) -> y < n) ->
  let s' := fst (step cfg s (SetParent c (ANode to_) NoFault)) in
  (forall r, r < n -> Abs.subtree s' r = Abs.subtree s r)
  \/ ((forall r, r < n -> Abs.subtree s' r = AbsSurgery.graft to_ (Abs.subtree s c) (Abs.subtree s r))
      /\ Abs.subtree s' c = Abs.subtree s c).
Proof.
  intros W Lc Lt Hi Lo. cbn zeta.
  unfold step. cbn [op_in_range arg_in_range]. unfold in_range.
  apply Nat.ltb_lt in Lc, Lt. rewrite Lc, Lt. cbn [andb negb]. apply Nat.ltb_lt in Lc, Lt.
  destruct (set_parent cfg NoFault s c (ANode to_)) as [s' o] eqn:E. cbn [fst].
  destruct o as [|e].
  - right.
    destruct (AbsSurgery.set_parent_is_surgery cfg NoFault s c (ANode to_) s' W Lc) as (H1 & H2 & _);
      [intros p [= <-]; exact Lt | exact E |].
    split; [|exact H1].
    intros r Lr. rewrite H2.
    + cbn [ForestOps.np_of AbsSurgery.graft_opt]. rewrite AbsSurgery.cut_absent; [reflexivity|].
      intros Hin. apply (Lo r c Lr) in Hin.
      assert (n <= c) by (apply Hi; apply (Abs.subtree_members s c c W); now left). lia.
    + intros Hin. apply Hi in Hin. lia.
  - left. intros r Lr.
    destruct (ForestOps.set_parent_cases cfg NoFault s c (ANode to_)) as [(O & _)|[(_ & F)|(_ & F & _)]].
    + rewrite E in O. discriminate.
    + rewrite E in F. cbn [fst] in F. now subst s'.
    + discriminate.
Qed.

(* what copy_nodes hangs below to_: the fresh copy, or (delete_children) the bare copy of from_ *)
Definition copied (s : forest) (from_ : id) (dc : bool) : Rose.tree :=
  if dc then Rose.T (Some (phi s from_ from_)) (name s from_) [] []
  else relabel (phi s from_) (Abs.subtree s from_).

Lemma relabel_root g t : Rose.ttag (relabel g t) = option_map g (Rose.ttag t) /\ Rose.tname (relabel g t) = Rose.tname t.
Proof. destruct t; split; reflexivity. Qed.

Theorem copy_nodes_dc_is_graft cfg h from_ to_ dc :
  ForestWF.WF (fr h) -> from_ < size (fr h) -> to_ < size (fr h) ->
  let s := fr h in
  let h' := fst (sk_copy_nodes cfg h from_ to_ false false dc) in
  let c := snd (sk_copy_nodes cfg h from_ to_ false false dc) in
  c = phi s from_ from_
  /\ ((forall r, r < size s -> Abs.subtree (fr h') r = Abs.subtree s r)
      \/ ((forall r, r < size s ->
             Abs.subtree (fr h') r = AbsSurgery.graft to_ (copied s from_ dc) (Abs.subtree s r))
          /\ Abs.subtree (fr h') c = copied s from_ dc)).
Proof.
  intros W Lf Lt. cbn zeta. split; [reflexivity|].
  unfold sk_copy_nodes, sk_copy_then, copy_ops, attach_to. cbn [fst snd with_fr fr].
  set (s1 := deep_copy_f (fr h) from_). set (c := phi (fr h) from_ from_).
  change (fr (deep_copy h from_)) with s1.
  assert (W1 : ForestWF.WF s1) by (apply copy_WF; exact W).
  assert (Hfc : In from_ (comp (fr h) from_)) by (now apply comp_self).
  assert (Lc : c < size s1) by (now apply phi_lt).
  assert (Gc : size (fr h) <= c) by apply phi_ge.
  assert (Lt1 : to_ < size s1) by (unfold s1; rewrite dc_size; lia).
  assert (Ec : Abs.subtree s1 c = relabel (phi (fr h) from_) (Abs.subtree (fr h) from_)).
  { pose proof (copy_refines (fun _ => []) h from_ from_ W Hfc) as E.
    rewrite !esubtree_nil_is_subtree in E. exact E. }
  assert (Low : forall r, r < size (fr h) -> Abs.subtree s1 r = Abs.subtree (fr h) r)
    by (intros r Lr; now apply copy_keeps_low_subtrees).
  assert (Hi1 : forall y, In (Some y) (Abs.tags (Abs.subtree s1 c)) -> size (fr h) <= y).
  { intros y Hin. apply ge_true.
    apply (tags_closed (ge (size (fr h))) s1 (dc_closed_first (fr h) from_) (S (size s1)) c y); [|exact Hin].
    now apply ge_true. }
  assert (Lo1 : forall r y, r < size (fr h) -> In (Some y) (Abs.tags (Abs.subtree s1 r)) -> y < size (fr h)).
  { intros r y Lr Hin. rewrite (Low r Lr) in Hin. apply lt_r_true.
    apply (tags_closed (lt_r (size (fr h))) (fr h) (WF_closed_lt (fr h) W) (S (size (fr h))) r y); [now apply lt_r_true | exact Hin]. }
  destruct dc; cbn [app copied].
  - (* delete_children: del c.children, then c.parent = to_ *)
    unfold run; cbn [fold_left].
    assert (Ed : fst (step cfg s1 (DelChildren c)) = del_children s1 c).
    { unfold step. cbn [op_in_range]. unfold in_range. apply Nat.ltb_lt in Lc. rewrite Lc. reflexivity. }
    rewrite Ed. set (s2 := del_children s1 c).
    destruct (ForestOps.del_children_spec s1 c W1) as (W2 & Sz & _). fold s2 in W2, Sz.
    destruct (AbsSurgery.del_children_is_tree_cut s1 c W1) as (Hc2 & Fr2). fold s2 in Hc2, Fr2.
    assert (Nm : name s1 c = name (fr h) from_).
    { pose proof (f_equal Rose.tname Ec) as N. rewrite (proj2 (relabel_root _ _)) in N.
      rewrite (Abs.subtree_unfold s1 c W1), (Abs.subtree_unfold (fr h) from_ W) in N. exact N. }
    rewrite Nm in Hc2.
    assert (Low2 : forall r, r < size (fr h) -> Abs.subtree s2 r = Abs.subtree s1 r).
    { intros r Lr. apply Fr2. intros Hin. apply (Lo1 r c Lr) in Hin. lia. }
    destruct (attach_fresh_graft cfg s2 (size (fr h)) c to_ W2) as [H|[H1 H2]].
    + lia.
    + lia.
    + intros y Hin. rewrite Hc2 in Hin. cbn in Hin. destruct Hin as [[= <-]|[]]. exact Gc.
    + intros r y Lr Hin. rewrite (Low2 r Lr) in Hin. now apply (Lo1 r y Lr).
    + left. intros r Lr. now rewrite (H r Lr), (Low2 r Lr), (Low r Lr).
    + right. split.
      * intros r Lr. now rewrite (H1 r Lr), Hc2, (Low2 r Lr), (Low r Lr).
      * now rewrite H2, Hc2.
  - unfold run; cbn [fold_left].
    destruct (attach_fresh_graft cfg s1 (size (fr h)) c to_ W1 Lc Lt1 Hi1 Lo1) as [H|[H1 H2]].
    + left. intros r Lr. now rewrite (H r Lr), (Low r Lr).
    + right. split.
      * intros r Lr. now rewrite (H1 r Lr), Ec, (Low r Lr).
      * now rewrite H2, Ec.
Qed.

(* nothing of the source is cut: an old tree that does not contain the destination is exactly as before,
   whether or not the assignment was accepted and whatever delete_children says *)
Theorem copy_nodes_dc_source_kept cfg h from_ to_ dc r :
  ForestWF.WF (fr h) -> from_ < size (fr h) -> to_ < size (fr h) -> r < size (fr h) ->
  ~ In (Some to_) (Abs.tags (Abs.subtree (fr h) r)) ->
  Abs.subtree (fr (fst (sk_copy_nodes cfg h from_ to_ false false dc))) r = Abs.subtree (fr h) r.
Proof.
  intros W Lf Lt Lr Hn.
  destruct (copy_nodes_dc_is_graft cfg h from_ to_ dc W Lf Lt) as (_ & [H|[H _]]).
  - now apply H.
  - rewrite (H r Lr). now apply AbsSurgery.graft_absent.
Qed.

(* the tree below from_ itself, when the destination is not a node of it (copy_nodes towards an ancestor, a
   sibling branch or another tree) *)
Theorem copy_nodes_dc_from_kept cfg h from_ to_ dc :
  ForestWF.WF (fr h) -> from_ < size (fr h) -> to_ < size (fr h) ->
  to_ <> from_ -> ~ In from_ (ancestors (fr h) to_) ->
  Abs.subtree (fr (fst (sk_copy_nodes cfg h from_ to_ false false dc))) from_ = Abs.subtree (fr h) from_.
Proof.
  intros W Lf Lt Ne Na. apply copy_nodes_dc_source_kept; try assumption.
  intros Hin. apply (Abs.subtree_members (fr h) from_ to_ W) in Hin. destruct Hin as [E|A]; [now apply Ne | now apply Na].
Qed.
