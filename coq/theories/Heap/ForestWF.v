(* Well-formedness of the forest heap model and its preservation by the primitive `attach`
   (the try-block of the parent setter), to which every structural operation is reduced. *)
From BT Require Import Base.Prelude Base.Str Heap.Forest.

(* ---------- small list facts ---------- *)
Lemma upd_same {A} (f : id -> A) k v : upd f k v k = v.
Proof. unfold upd. rewrite Nat.eqb_refl. reflexivity. Qed.
Lemma upd_other {A} (f : id -> A) k v x : x <> k -> upd f k v x = f x.
Proof. unfold upd. intros H. destruct (Nat.eqb_spec x k); [contradiction|reflexivity]. Qed.

Lemma memb_In x l : memb x l = true <-> In x l.
Proof.
  unfold memb. rewrite existsb_exists. split.
  - intros [y [Hy E]]. apply Nat.eqb_eq in E. subst. exact Hy.
  - intros H. exists x. split; [exact H|apply Nat.eqb_refl].
Qed.
Lemma memb_false x l : memb x l = false <-> ~ In x l.
Proof.
  split.
  - intros H Hin. apply memb_In in Hin. congruence.
  - intros H. destruct (memb x l) eqn:E; [apply memb_In in E; contradiction|reflexivity].
Qed.

Lemma In_remove1 c l x : NoDup l -> (In x (remove1 c l) <-> In x l /\ x <> c).
Proof.
  induction l as [|y t IH]; cbn [remove1]; intros Hnd; [cbn; tauto|].
  inversion Hnd as [|? ? Hy Ht]; subst.
  destruct (Nat.eqb_spec c y) as [->|Hne].
  - cbn [In]. split; [intros H; split; [tauto|intros ->; contradiction]|intros [[->|H] Hx]; [congruence|exact H]].
  - cbn [In]. rewrite (IH Ht). split; [intros [->|[H1 H2]]; [split; [tauto|congruence]|tauto]|intros [[->|H] Hx]; tauto].
Qed.

Lemma NoDup_remove1 c l : NoDup l -> NoDup (remove1 c l).
Proof.
  induction l as [|y t IH]; cbn [remove1]; intros Hnd; [constructor|].
  inversion Hnd as [|? ? Hy Ht]; subst.
  destruct (Nat.eqb_spec c y); [exact Ht|].
  constructor; [|apply IH, Ht]. intros H. apply (In_remove1 c t y Ht) in H. tauto.
Qed.

Lemma remove1_notin c l : ~ In c l -> remove1 c l = l.
Proof.
  induction l as [|y t IH]; cbn [remove1]; intros H; [reflexivity|].
  destruct (Nat.eqb_spec c y) as [->|Hne]; [exfalso; apply H; left; reflexivity|].
  f_equal. apply IH. intros Hin. apply H. right. exact Hin.
Qed.

Lemma remove1_app_last c l : ~ In c l -> remove1 c (l ++ [c]) = l.
Proof.
  induction l as [|y t IH]; cbn [remove1 app]; intros H.
  - rewrite Nat.eqb_refl. reflexivity.
  - destruct (Nat.eqb_spec c y) as [->|Hne]; [exfalso; apply H; left; reflexivity|].
    f_equal. apply IH. intros Hin. apply H. right. exact Hin.
Qed.

Lemma insert_remove1 c l : In c l -> insert_at (index_of c l) c (remove1 c l) = l.
Proof.
  induction l as [|y t IH]; cbn [remove1 index_of]; intros H; [contradiction|].
  destruct (Nat.eqb_spec c y) as [->|Hne]; [reflexivity|].
  cbn [insert_at]. f_equal. apply IH. destruct H as [->|H]; [congruence|exact H].
Qed.

Lemma NoDup_app_last (l : list id) c : NoDup l -> ~ In c l -> NoDup (l ++ [c]).
Proof.
  induction l as [|y t IH]; cbn; intros Hnd Hc; [constructor; [tauto|constructor]|].
  inversion Hnd; subst. constructor.
  - rewrite in_app_iff. cbn. intros [H|[H|[]]]; [contradiction|subst; tauto].
  - apply IH; tauto.
Qed.

Lemma last_nonempty_default {A} (y d d' : A) l : last (y :: l) d = last (y :: l) d'.
Proof.
  revert y. induction l as [|z l IHl]; intros y; [reflexivity|].
  change (last (z :: l) d = last (z :: l) d'). apply IHl.
Qed.

Lemma last_cons_default {A} (p d : A) l : last (p :: l) d = last l p.
Proof.
  destruct l as [|y l]; [reflexivity|].
  change (last (y :: l) d = last (y :: l) p). apply last_nonempty_default.
Qed.

(* ---------- the invariant ---------- *)
Definition acyclic (s : forest) : Prop :=
  exists r : id -> nat, forall c p, par s c = Some p -> r p < r c.

Record WF (s : forest) : Prop := {
  wf_link  : forall p c, In c (kids s p) <-> par s c = Some p;
  wf_nodup : forall p, NoDup (kids s p);
  wf_bound : forall c p, par s c = Some p -> c < size s /\ p < size s;
  wf_acyc  : acyclic s }.

(* pointwise equality of link structure (no functional extensionality needed) *)
Definition same (s t : forest) : Prop :=
  size s = size t /\ forall x, par s x = par t x /\ kids s x = kids t x.

Lemma same_refl s : same s s.
Proof. split; [reflexivity|intros; split; reflexivity]. Qed.
Lemma same_sym s t : same s t -> same t s.
Proof. intros [H1 H2]. split; [congruence|]. intros x. destruct (H2 x). split; congruence. Qed.
Lemma same_trans s t u : same s t -> same t u -> same s u.
Proof.
  intros [H1 H2] [H3 H4]. split; [congruence|]. intros x. destruct (H2 x), (H4 x). split; congruence.
Qed.

Lemma WF_same s t : same s t -> WF s -> WF t.
Proof.
  intros [Hs He] [Hl Hn Hb [r Hr]]. constructor.
  - intros p c. destruct (He p) as [_ <-]. destruct (He c) as [<- _]. apply Hl.
  - intros p. destruct (He p) as [_ <-]. apply Hn.
  - intros c p. destruct (He c) as [<- _]. rewrite <- Hs. apply Hb.
  - exists r. intros c p. destruct (He c) as [<- _]. apply Hr.
Qed.

Lemma WF_init n names seps : WF (init n names seps).
Proof.
  constructor; cbn.
  - intros p c. split; [contradiction|discriminate].
  - intros p. constructor.
  - intros c p H. discriminate.
  - exists (fun _ => 0). intros c p H. discriminate.
Qed.

(* ---------- ancestors on well-formed states ---------- *)
Section Anc.
Variable s : forest.
Variable r : id -> nat.
Hypothesis Hr : forall c p, par s c = Some p -> r p < r c.
Hypothesis Hb : forall c p, par s c = Some p -> c < size s /\ p < size s.

Lemma anc_rank f : forall c x, In x (anc s f c) -> r x < r c.
Proof.
  induction f as [|f IH]; cbn [anc]; intros c x Hx; [contradiction|].
  destruct (par s c) as [p|] eqn:E; [|contradiction].
  destruct Hx as [->|Hx]; [eauto|]. specialize (IH _ _ Hx). specialize (Hr _ _ E). lia.
Qed.

Lemma anc_nodup f : forall c, NoDup (anc s f c).
Proof.
  induction f as [|f IH]; cbn [anc]; intros c; [constructor|].
  destruct (par s c) as [p|] eqn:E; [|constructor].
  constructor; [|apply IH]. intros H. apply anc_rank in H. lia.
Qed.

Lemma anc_bound f : forall c x, In x (anc s f c) -> x < size s.
Proof.
  induction f as [|f IH]; cbn [anc]; intros c x Hx; [contradiction|].
  destruct (par s c) as [p|] eqn:E; [|contradiction].
  destruct Hx as [->|Hx]; [apply (Hb _ _ E)|eauto].
Qed.

Lemma anc_len_lt f c : size s <= f -> par s c <> None -> length (anc s f c) < f.
Proof.
  intros Hf Hc.
  assert (Hnd : NoDup (c :: anc s f c)).
  { constructor; [|apply anc_nodup]. intros H. apply anc_rank in H. lia. }
  assert (Hin : incl (c :: anc s f c) (seq 0 (size s))).
  { intros x [<-|Hx]; apply in_seq.
    - destruct (par s c) as [p|] eqn:E; [|congruence]. destruct (Hb _ _ E). lia.
    - apply anc_bound in Hx. lia. }
  pose proof (NoDup_incl_length Hnd Hin) as H. rewrite seq_length in H. cbn [length] in H. lia.
Qed.

Lemma anc_short_stable f : forall c, length (anc s f c) < f -> anc s (S f) c = anc s f c.
Proof.
  induction f as [|f IH]; intros c H; [cbn in H; lia|].
  cbn [anc] in *. destruct (par s c) as [p|]; [|reflexivity].
  cbn [length] in H. f_equal. apply IH. lia.
Qed.

Lemma anc_fix f c : size s <= f -> anc s (S f) c = anc s f c.
Proof.
  intros Hf. case_eq (par s c); [intros p E|intros E].
  - apply anc_short_stable, anc_len_lt; [assumption|congruence].
  - cbn [anc]. rewrite E. destruct f; cbn [anc]; rewrite ?E; reflexivity.
Qed.

Lemma ancestors_unfold c p : par s c = Some p -> ancestors s c = p :: ancestors s p.
Proof.
  intros E. unfold ancestors. rewrite <- (anc_fix (size s) c) by lia.
  cbn [anc]. rewrite E. reflexivity.
Qed.

Lemma ancestors_root c : par s c = None -> ancestors s c = [].
Proof. intros E. unfold ancestors. destruct (size s); cbn [anc]; rewrite ?E; reflexivity. Qed.

(* the parent walk terminates within the fuel: the last element of the chain is a root *)
Lemma ancestors_reach_root c : par s (last (ancestors s c) c) = None.
Proof.
  unfold ancestors.
  assert (G : forall f c, length (anc s f c) < f \/ par s c = None -> par s (last (anc s f c) c) = None).
  { induction f as [|f IH]; intros c0 H.
    - destruct H as [H|H]; [cbn in H; lia|exact H].
    - cbn [anc] in *. destruct (par s c0) as [p|] eqn:E; [|exact E].
      destruct H as [H|H]; [|discriminate]. cbn [length] in H.
      rewrite last_cons_default. apply IH.
      left. lia. }
  apply G. destruct (par s c) eqn:E; [left; apply anc_len_lt; [lia|congruence]|right; reflexivity].
Qed.
End Anc.

Lemma WF_ancestors_unfold s c p : WF s -> par s c = Some p -> ancestors s c = p :: ancestors s p.
Proof. intros [_ _ Hb [r Hr]] E. exact (ancestors_unfold s r Hr Hb c p E). Qed.

Lemma WF_not_own_ancestor s c : WF s -> ~ In c (ancestors s c).
Proof. intros [_ _ Hb [r Hr]] H. apply (anc_rank s r Hr) in H. lia. Qed.

(* ---------- closed form of `attach` (the documented effect of a parent assignment) ---------- *)
Definition is_parent (np : option id) (q : id) : bool :=
  match np with Some p => Nat.eqb p q | None => false end.

Lemma attach_size s c np : size (attach s c np) = size s.
Proof. unfold attach. destruct (par s c), np; reflexivity. Qed.

Lemma attach_par s c np x : par (attach s c np) x = if Nat.eqb x c then np else par s x.
Proof.
  unfold attach. destruct (par s c) as [q|], np as [p|]; cbn [par set_kids set_par]; unfold upd; reflexivity.
Qed.

Lemma attach_kids s c np q : WF s ->
  kids (attach s c np) q = remove1 c (kids s q) ++ (if is_parent np q then [c] else []).
Proof.
  intros W. pose proof W as [Hl Hn _ _].
  assert (Hnot : forall q', par s c <> Some q' -> remove1 c (kids s q') = kids s q').
  { intros q' H. apply remove1_notin. intros Hin. apply Hl in Hin. contradiction. }
  unfold attach, is_parent.
  destruct (par s c) as [cp|] eqn:Ecp; destruct np as [p|]; cbn [kids par set_kids set_par].
  - destruct (Nat.eqb_spec p q) as [->|Hpq].
    + rewrite upd_same. destruct (Nat.eq_dec q cp) as [->|Hq].
      * rewrite upd_same. reflexivity.
      * rewrite upd_other by exact Hq. rewrite Hnot by congruence. reflexivity.
    + rewrite upd_other by (intros E; apply Hpq; symmetry; exact E). rewrite app_nil_r.
      destruct (Nat.eq_dec q cp) as [->|Hq].
      * rewrite upd_same. reflexivity.
      * rewrite upd_other by exact Hq. rewrite Hnot by congruence. reflexivity.
  - rewrite app_nil_r. destruct (Nat.eq_dec q cp) as [->|Hq].
    + rewrite upd_same. reflexivity.
    + rewrite upd_other by exact Hq. rewrite Hnot by congruence. reflexivity.
  - rewrite Hnot by congruence. destruct (Nat.eqb_spec p q) as [->|Hpq].
    + rewrite upd_same. reflexivity.
    + rewrite upd_other by (intros E; apply Hpq; symmetry; exact E). rewrite app_nil_r. reflexivity.
  - rewrite Hnot by congruence. rewrite app_nil_r. reflexivity.
Qed.

Lemma attach_name s c np x : name (attach s c np) x = name s x.
Proof. unfold attach. destruct (par s c), np; reflexivity. Qed.
Lemma attach_sepf s c np x : sepf (attach s c np) x = sepf s x.
Proof. unfold attach. destruct (par s c), np; reflexivity. Qed.

(* membership form *)
Lemma attach_In s c np q x : WF s ->
  In x (kids (attach s c np) q) <-> (x <> c /\ In x (kids s q)) \/ (x = c /\ np = Some q).
Proof.
  intros W. rewrite attach_kids by exact W. rewrite in_app_iff.
  rewrite In_remove1 by apply W. unfold is_parent. destruct np as [p|].
  - destruct (Nat.eqb_spec p q) as [->|Hpq]; cbn [In].
    + split; [intros [[H1 H2]|[<-|[]]]; [left; tauto|right; tauto]|intros [[H1 H2]|[-> _]]; [left; tauto|right; left; reflexivity]].
    + split; [intros [[H1 H2]|[]]; left; tauto|intros [[H1 H2]|[_ E]]; [left; tauto|congruence]].
  - cbn [In]. split; [intros [[H1 H2]|[]]; left; tauto|intros [[H1 H2]|[_ E]]; [left; tauto|discriminate]].
Qed.

(* an accepted parent assignment preserves the invariant *)
Theorem attach_WF s c np :
  WF s -> c < size s ->
  (forall p, np = Some p -> p < size s /\ p <> c /\ ~ In c (ancestors s p)) ->
  WF (attach s c np).
Proof.
  intros W Hc Hnp. pose proof W as [Hl Hn Hb [r Hr]].
  constructor.
  - intros q x. rewrite attach_In by exact W. rewrite attach_par.
    destruct (Nat.eqb_spec x c) as [->|Hx].
    + split; [intros [[H _]|[_ H]]; [congruence|exact H]|intros H; right; tauto].
    + rewrite <- Hl. split; [intros [[_ H]|[H _]]; [exact H|contradiction]|intros H; left; tauto].
  - intros q. rewrite attach_kids by exact W.
    destruct (is_parent np q); [|rewrite app_nil_r; apply NoDup_remove1, Hn].
    apply NoDup_app_last; [apply NoDup_remove1, Hn|].
    rewrite In_remove1 by apply Hn. tauto.
  - intros x y. rewrite attach_par, attach_size.
    destruct (Nat.eqb_spec x c) as [->|Hx]; [|apply Hb].
    intros E. destruct (Hnp _ E) as [H1 _]. tauto.
  - destruct np as [p|].
    + destruct (Hnp p eq_refl) as [Hp [Hpc Hanc]].
      set (D := fun x => Nat.eqb x c || memb c (ancestors s x)).
      exists (fun x => if D x then r x + r p + 1 else r x).
      intros x y. rewrite attach_par.
      destruct (Nat.eqb_spec x c) as [->|Hx].
      * intros [= <-].
        assert (D p = false) as ->.
        { unfold D. apply orb_false_iff. split; [apply Nat.eqb_neq; exact Hpc|].
          apply memb_false. exact Hanc. }
        assert (D c = true) as -> by (unfold D; rewrite Nat.eqb_refl; reflexivity). lia.
      * intros E.
        assert (HD : D x = D y).
        { unfold D. rewrite (ancestors_unfold s r Hr Hb x y E).
          apply Nat.eqb_neq in Hx. rewrite Hx. cbn [orb memb existsb].
          fold (memb c (ancestors s y)). rewrite (Nat.eqb_sym c y). reflexivity. }
        rewrite HD. specialize (Hr _ _ E). destruct (D y); lia.
    + exists r. intros x y. rewrite attach_par.
      destruct (Nat.eqb_spec x c) as [->|Hx]; [discriminate|apply Hr].
Qed.

(* the except-branch undoes the try-branch exactly *)
Theorem attach_rollback_same s c np :
  WF s -> (forall p, np = Some p -> p <> c) ->
  same (attach_rollback s (attach s c np) c np) s.
Proof.
  intros W Hnp. pose proof W as [Hl Hn Hb _].
  split.
  { unfold attach_rollback. destruct np, (par s c); cbn [size set_kids set_par]; apply attach_size. }
  intros x.
  assert (Hk : forall q, kids (attach s c np) q = remove1 c (kids s q) ++ (if is_parent np q then [c] else []))
    by (intros; apply attach_kids; exact W).
  assert (Hp : forall y, par (attach s c np) y = if Nat.eqb y c then np else par s y)
    by (intros; apply attach_par).
  unfold attach_rollback.
  set (s' := attach s c np) in *.
  set (s3 := match np with Some p => set_kids s' p (remove1 c (kids s' p)) | None => s' end).
  assert (Hk3 : forall q, kids s3 q = remove1 c (kids s q)).
  { intros q. unfold s3. destruct np as [p|].
    - cbn [kids set_kids]. destruct (Nat.eq_dec q p) as [->|Hq].
      + rewrite upd_same, Hk. unfold is_parent. rewrite Nat.eqb_refl.
        apply remove1_app_last. rewrite In_remove1 by apply Hn. tauto.
      + rewrite upd_other by exact Hq. rewrite Hk. unfold is_parent.
        destruct (Nat.eqb_spec p q); [congruence|]. apply app_nil_r.
    - rewrite Hk. cbn. apply app_nil_r. }
  assert (Hp3 : forall y, par s3 y = par s' y) by (intros y; unfold s3; destruct np; reflexivity).
  destruct (par s c) as [cp|] eqn:Ecp.
  - cbn [par kids set_kids set_par]. split.
    + unfold upd at 1. destruct (Nat.eqb_spec x c) as [->|Hx]; [symmetry; exact Ecp|].
      rewrite Hp3, Hp. apply Nat.eqb_neq in Hx. rewrite Hx. reflexivity.
    + destruct (Nat.eq_dec x cp) as [->|Hx].
      * rewrite upd_same. cbn [kids set_par]. rewrite Hk3. apply insert_remove1. apply Hl. exact Ecp.
      * rewrite upd_other by exact Hx. cbn [kids set_par]. rewrite Hk3.
        apply remove1_notin. intros Hin. apply Hl in Hin. congruence.
  - cbn [par kids set_par]. split.
    + unfold upd. destruct (Nat.eqb_spec x c) as [->|Hx]; [symmetry; exact Ecp|].
      rewrite Hp3, Hp. apply Nat.eqb_neq in Hx. rewrite Hx. reflexivity.
    + rewrite Hk3. apply remove1_notin. intros Hin. apply Hl in Hin. congruence.
Qed.
