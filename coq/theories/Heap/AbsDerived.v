(* Derived queries: the heap's own notions (parent walk `ancestors`, `depth`, `root`, the child lists
   `kids`) against the rose-level notions of Base/Rose.v and Algo/Derived.v on `subtree s r`
   (Heap/Abs.v), for every well-formed state:
     1  levels      level k (subtree s r) = the nodes whose k-th chain element is r; depth adds up
     2  members     pre-order / size / leaves
     3  siblings    rose siblings (by position, Algo/Derived.v) = the heap's sibling list, same order;
                    left / right sibling = the neighbours in the parent's child list
     4  root        root s y = the member-of-chain without parent; one tree per node
     5  height      height (subtree s r) = 1 + the largest depth difference of a member
   Positions (Algo/Derived.v addresses nodes by the child indices from the root) are read on the heap
   by `node_at`.  Heap names clash with Algo names nowhere here, but `kids`/`name`/`root`/`depth`/
   `ancestors` are always the heap's (Heap/Forest.v). *)
From Coq Require Import Sorting.Permutation.
From BT Require Import Base.Prelude Base.Str Base.Rose Heap.Forest Heap.ForestWF Heap.ForestOps
     Heap.ForestStep Heap.ForestNames Heap.Abs Algo.Derived Spec.PC12 Algo.DerivedProofs.

(* ============================================================================================== *)
(* 0. induction along the child lists of a well-formed state                                        *)

Lemma kids_ind s : WF s -> forall P : id -> Prop,
  (forall x, (forall c, In c (kids s x) -> P c) -> P x) -> forall x, P x.
Proof.
  intros W P H.
  assert (G : forall n x, size s < depth s x + n -> P x).
  { induction n as [|n IH]; intros x Hx.
    - destruct (Nat.lt_ge_cases x (size s)) as [Hlt|Hge]; [pose proof (depth_le_size s x W Hlt); lia|].
      apply H. intros c Hc. rewrite (kids_nil_outside s x W Hge) in Hc. contradiction.
    - apply H. intros c Hc. apply IH. apply (wf_link s W) in Hc.
      rewrite (depth_child s c x W Hc). lia. }
  intros x. apply (G (S (size s))). unfold depth. lia.
Qed.

Lemma ttag_subtree s y : ttag (subtree s y) = Some y.
Proof. reflexivity. Qed.

Lemma tkids_subtree s x : WF s -> tkids (subtree s x) = map (subtree s) (kids s x).
Proof. intros W. rewrite (subtree_unfold s x W). reflexivity. Qed.

Lemma map_ttag_subtrees s l : map ttag (map (subtree s) l) = map Some l.
Proof. rewrite map_map. apply map_ext. intros y. apply ttag_subtree. Qed.

Lemma Some_inj_in (y : id) l : In (Some y) (map Some l) <-> In y l.
Proof.
  rewrite in_map_iff. split; [intros [z [[= ->] H]]; exact H|intros H; exists y; split; [reflexivity|exact H]].
Qed.

(* the chain of a node: itself, then its ancestors, nearest first *)
Definition chain (s : forest) (y : id) : list id := y :: ancestors s y.

Lemma chain_unfold s y : WF s ->
  chain s y = y :: match par s y with Some p => chain s p | None => [] end.
Proof.
  intros W. unfold chain. destruct (par s y) as [p|] eqn:E.
  - rewrite (WF_ancestors_unfold s y p W E). reflexivity.
  - pose proof W as [_ _ Hb [r Hr]]. rewrite (ancestors_root s Hb y E). reflexivity.
Qed.

(* one step further along the chain is the parent of the current element *)
Lemma chain_nth_S s : WF s -> forall k y,
  nth_error (chain s y) (S k) = match nth_error (chain s y) k with Some c => par s c | None => None end.
Proof.
  intros W. induction k as [|k IH]; intros y; rewrite (chain_unfold s y W).
  - cbn [nth_error]. destruct (par s y) as [p|]; [|reflexivity].
    rewrite (chain_unfold s p W). reflexivity.
  - cbn [nth_error]. destruct (par s y) as [p|].
    + change (nth_error (chain s p) (S k) = match nth_error (chain s p) k with Some c => par s c | None => None end).
      apply IH.
    + destruct k; reflexivity.
Qed.

Lemma chain_nth_depth s : WF s -> forall k y r,
  nth_error (chain s y) k = Some r -> depth s y = depth s r + k.
Proof.
  intros W. induction k as [|k IH]; intros y r H; rewrite (chain_unfold s y W) in H.
  - cbn [nth_error] in H. injection H as ->. lia.
  - cbn [nth_error] in H. destruct (par s y) as [p|] eqn:E; [|destruct k; discriminate].
    rewrite (depth_child s y p W E), (IH p r H). lia.
Qed.

(* membership in the chain = being at some distance *)
Lemma chain_In_nth s y r : (y = r \/ In r (ancestors s y)) <-> exists k, nth_error (chain s y) k = Some r.
Proof.
  split.
  - intros H. apply In_nth_error. unfold chain. destruct H as [->|H]; [left; reflexivity|right; exact H].
  - intros [k H]. apply nth_error_In in H. unfold chain in H. destruct H as [->|H]; [left; reflexivity|right; exact H].
Qed.

(* ============================================================================================== *)
(* 1. levels                                                                                        *)

(* the heap's own level lists: the nodes k child-steps below r, left to right *)
Fixpoint hlevel (s : forest) (k : nat) (r : id) : list id :=
  match k with 0 => [r] | S k' => flat_map (hlevel s k') (kids s r) end.

Lemma level_subtree s : WF s -> forall k r, level k (subtree s r) = map (subtree s) (hlevel s k r).
Proof.
  intros W. induction k as [|k IH]; intros r; [reflexivity|].
  cbn [level hlevel]. rewrite (tkids_subtree s r W).
  induction (kids s r) as [|c l IHl]; [reflexivity|].
  cbn [map flat_map]. rewrite map_app, IH, IHl. reflexivity.
Qed.

Lemma level_tags s k r : WF s -> map ttag (level k (subtree s r)) = map Some (hlevel s k r).
Proof. intros W. rewrite (level_subtree s W). apply map_ttag_subtrees. Qed.

Lemma hlevel_chain s : WF s -> forall k r y,
  In y (hlevel s k r) <-> nth_error (chain s y) k = Some r.
Proof.
  intros W. induction k as [|k IH]; intros r y.
  - cbn [hlevel In nth_error chain]. split; [intros [->|[]]; reflexivity|intros [= ->]; left; reflexivity].
  - cbn [hlevel]. rewrite in_flat_map, (chain_nth_S s W). split.
    + intros [c [Hc Hy]]. apply IH in Hy. rewrite Hy. apply (wf_link s W). exact Hc.
    + destruct (nth_error (chain s y) k) as [c|] eqn:E; [|discriminate].
      intros Hp. exists c. split; [apply (wf_link s W); exact Hp|apply IH; exact E].
Qed.

(* (1) the nodes of level k of the tree below r are the nodes whose chain reaches r after k steps *)
Theorem level_is_ancestor_distance s k r y : WF s ->
  In (Some y) (map ttag (level k (subtree s r))) <-> nth_error (y :: ancestors s y) k = Some r.
Proof.
  intros W. rewrite (level_tags s k r W), Some_inj_in. apply (hlevel_chain s W).
Qed.

Theorem level_depth s k r y : WF s ->
  In (Some y) (map ttag (level k (subtree s r))) -> depth s y = depth s r + k.
Proof.
  intros W H. apply (level_is_ancestor_distance s k r y W) in H. apply (chain_nth_depth s W k y r H).
Qed.

(* every level is duplicate free, and the levels partition the members *)
Lemma hlevel_in_members s k r y : WF s -> In y (hlevel s k r) -> y = r \/ In r (ancestors s y).
Proof. intros W H. apply chain_In_nth. exists k. apply (hlevel_chain s W). exact H. Qed.

Lemma hlevel_disjoint s k1 k2 r y : WF s -> In y (hlevel s k1 r) -> In y (hlevel s k2 r) -> k1 = k2.
Proof.
  intros W H1 H2. apply (hlevel_chain s W) in H1, H2.
  pose proof (chain_nth_depth s W k1 y r H1). pose proof (chain_nth_depth s W k2 y r H2). lia.
Qed.

(* ============================================================================================== *)
(* 2. members in pre-order, size, leaves                                                            *)

Definition root_id (t : tree) : id := match ttag t with Some y => y | None => 0 end.

(* the heap's pre-order below r; on a well-formed state it is THE solution of the recursion equation
   hpre_unfold (the function that the Python generator `preorder_iter` computes on the objects) *)
Definition hpre (s : forest) (r : id) : list id := map root_id (pre (subtree s r)).

Lemma pre_subtree_unfold s r : WF s ->
  pre (subtree s r) = subtree s r :: flat_map pre (map (subtree s) (kids s r)).
Proof.
  intros W. rewrite (subtree_unfold s r W) at 1. cbn [pre]. rewrite <- (subtree_unfold s r W). reflexivity.
Qed.

Lemma hpre_unfold s r : WF s -> hpre s r = r :: flat_map (hpre s) (kids s r).
Proof.
  intros W. unfold hpre at 1. rewrite (pre_subtree_unfold s r W). cbn [map]. f_equal.
  induction (kids s r) as [|c l IH]; [reflexivity|].
  cbn [map flat_map]. rewrite map_app, IH. reflexivity.
Qed.

Lemma pre_subtree s : WF s -> forall r, pre (subtree s r) = map (subtree s) (hpre s r).
Proof.
  intros W. apply (kids_ind s W). intros r IH.
  rewrite (pre_subtree_unfold s r W), (hpre_unfold s r W). cbn [map]. f_equal.
  induction (kids s r) as [|c l IHl]; [reflexivity|].
  cbn [map flat_map]. rewrite map_app, (IH c) by (left; reflexivity).
  rewrite IHl by (intros c' Hc'; apply IH; right; exact Hc'). reflexivity.
Qed.

Lemma tags_hpre s r : WF s -> tags (subtree s r) = map Some (hpre s r).
Proof. intros W. unfold tags. rewrite (pre_subtree s W r). apply map_ttag_subtrees. Qed.

Theorem hpre_members s r y : WF s -> In y (hpre s r) <-> y = r \/ In r (ancestors s y).
Proof. intros W. rewrite <- Some_inj_in, <- (tags_hpre s r W). apply subtree_members. exact W. Qed.

Theorem hpre_nodup s r : WF s -> NoDup (hpre s r).
Proof.
  intros W. apply (NoDup_map_inv Some). rewrite <- (tags_hpre s r W). apply subtree_tags_nodup. exact W.
Qed.

Lemma hpre_bound s r y : WF s -> r < size s -> In y (hpre s r) -> y < size s.
Proof.
  intros W Hr H. apply (hpre_members s r y W) in H. destruct H as [->|H]; [exact Hr|].
  destruct (par s y) as [p|] eqn:E; [apply (wf_bound s W y p E)|].
  pose proof W as [_ _ Hb _]. rewrite (ancestors_root s Hb y E) in H. contradiction.
Qed.

(* the decidable form of membership *)
Definition below (s : forest) (r y : id) : bool := Nat.eqb y r || memb r (ancestors s y).

Lemma below_spec s r y : below s r y = true <-> y = r \/ In r (ancestors s y).
Proof. unfold below. rewrite orb_true_iff, Nat.eqb_eq, memb_In. reflexivity. Qed.

(* (2) size: the tree below r has as many nodes as there are live ids that are r or have r among
   their ancestors; the pre-order is a duplicate-free enumeration of exactly those *)
Theorem subtree_members_permutation s r : WF s -> r < size s ->
  Permutation (hpre s r) (filter (below s r) (seq 0 (size s))).
Proof.
  intros W Hr. apply NoDup_Permutation.
  - apply hpre_nodup. exact W.
  - apply List.NoDup_filter, seq_NoDup.
  - intros y. rewrite filter_In, in_seq, below_spec, <- (hpre_members s r y W). split.
    + intros H. split; [pose proof (hpre_bound s r y W Hr H); lia|exact H].
    + intros [_ H]. exact H.
Qed.

Theorem subtree_size s r : WF s -> r < size s ->
  length (pre (subtree s r)) = length (filter (below s r) (seq 0 (size s)))
  /\ tsize (subtree s r) = length (filter (below s r) (seq 0 (size s))).
Proof.
  intros W Hr.
  assert (E : length (pre (subtree s r)) = length (filter (below s r) (seq 0 (size s)))).
  { rewrite (pre_subtree s W r), map_length. apply Permutation_length, subtree_members_permutation; assumption. }
  split; [exact E|]. rewrite <- pre_length. exact E.
Qed.

(* leaves *)
Definition hleaf (s : forest) (y : id) : bool := match kids s y with [] => true | _ :: _ => false end.

Theorem is_leaf_subtree s y : WF s -> is_leaf (subtree s y) = hleaf s y.
Proof.
  intros W. unfold is_leaf, hleaf. rewrite (tkids_subtree s y W). destruct (kids s y); reflexivity.
Qed.

Theorem is_leaf_iff s y : WF s -> is_leaf (subtree s y) = true <-> kids s y = [].
Proof.
  intros W. rewrite (is_leaf_subtree s y W). unfold hleaf. destruct (kids s y); split; congruence.
Qed.

Lemma filter_map_swap {A B} (f : B -> bool) (g : A -> B) l :
  filter f (map g l) = map g (filter (fun x => f (g x)) l).
Proof.
  induction l as [|x l IH]; [reflexivity|]. cbn [map filter]. destruct (f (g x)); cbn [map]; rewrite IH; reflexivity.
Qed.

Theorem leaves_subtree s r : WF s ->
  leaves (subtree s r) = map (subtree s) (filter (hleaf s) (hpre s r)).
Proof.
  intros W. unfold leaves. rewrite (pre_subtree s W r), filter_map_swap. f_equal.
  apply filter_ext. intros y. apply is_leaf_subtree. exact W.
Qed.

(* the leaves of the tree below r are the members without children, in pre-order *)
Theorem leaves_tags s r : WF s ->
  map ttag (leaves (subtree s r)) = map Some (filter (hleaf s) (hpre s r)).
Proof. intros W. rewrite (leaves_subtree s r W). apply map_ttag_subtrees. Qed.

Theorem leaves_members s r y : WF s ->
  In (Some y) (map ttag (leaves (subtree s r))) <-> (y = r \/ In r (ancestors s y)) /\ kids s y = [].
Proof.
  intros W. rewrite (leaves_tags s r W), Some_inj_in, filter_In, (hpre_members s r y W).
  unfold hleaf. destruct (kids s y); split; intros [H1 H2]; (split; [exact H1|congruence]).
Qed.
