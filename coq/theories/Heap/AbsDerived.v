(* Derived queries: the heap's own notions (parent walk `ancestors`, `depth`, `root`, the child lists
   `kids`) against the rose-level notions of Base/Rose.v and Algo/Derived.v on `subtree s r`
   (Heap/Abs.v), for every well-formed state:
     1  levels      level k (subtree s r) = the nodes whose k-th chain element is r; depth adds up
     2  members     pre-order / size / leaves
     3  siblings    rose siblings (by position, Algo/Derived.v) = the heap's sibling list, same order;
                    left / right sibling = the neighbours in the parent's child list
     4  root        root s y = the member-of-chain without parent; one tree per node
     5  height      height (subtree s r) = 1 + the largest depth difference of a member
   Positions (Algo/Derived.v addresses nodes by the child indices from the root) are read on the heap
   by `node_at`.  Heap names clash with Algo names nowhere here, but `kids`/`name`/`root`/`depth`/
   `ancestors` are always the heap's (Heap/Forest.v). *)
From Coq Require Import Sorting.Permutation.
From BT Require Import Base.Prelude Base.Str Base.Rose Heap.Forest Heap.ForestWF Heap.ForestOps
     Heap.ForestStep Heap.ForestNames Heap.Abs Algo.Derived Spec.PC12 Algo.DerivedProofs.

(* ============================================================================================== *)
(* 0. induction along the child lists of a well-formed state                                        *)

Lemma kids_ind s : WF s -> forall P : id -> Prop,
  (forall x, (forall c, In c (kids s x) -> P c) -> P x) -> forall x, P x.
Proof.
  intros W P H.
  assert (G : forall n x, size s < depth s x + n -> P x).
  { induction n as [|n IH]; intros x Hx.
    - destruct (Nat.lt_ge_cases x (size s)) as [Hlt|Hge]; [pose proof (depth_le_size s x W Hlt); lia|].
      apply H. intros c Hc. rewrite (kids_nil_outside s x W Hge) in Hc. contradiction.
    - apply H. intros c Hc. apply IH. apply (wf_link s W) in Hc.
      rewrite (depth_child s c x W Hc). lia. }
  intros x. apply (G (S (size s))). unfold depth. lia.
Qed.

Lemma ttag_subtree s y : ttag (subtree s y) = Some y.
Proof. reflexivity. Qed.

Lemma tkids_subtree s x : WF s -> tkids (subtree s x) = map (subtree s) (kids s x).
Proof. intros W. rewrite (subtree_unfold s x W). reflexivity. Qed.

Lemma map_ttag_subtrees s l : map ttag (map (subtree s) l) = map Some l.
Proof. rewrite map_map. apply map_ext. intros y. apply ttag_subtree. Qed.

Lemma Some_inj_in (y : id) l : In (Some y) (map Some l) <-> In y l.
Proof.
  rewrite in_map_iff. split; [intros [z [[= ->] H]]; exact H|intros H; exists y; split; [reflexivity|exact H]].
Qed.

(* the chain of a node: itself, then its ancestors, nearest first *)
Definition chain (s : forest) (y : id) : list id := y :: ancestors s y.

Lemma chain_unfold s y : WF s ->
  chain s y = y :: match par s y with Some p => chain s p | None => [] end.
Proof.
  intros W. unfold chain. destruct (par s y) as [p|] eqn:E.
  - rewrite (WF_ancestors_unfold s y p W E). reflexivity.
  - pose proof W as [_ _ Hb [r Hr]]. rewrite (ancestors_root s Hb y E). reflexivity.
Qed.

(* one step further along the chain is the parent of the current element *)
Lemma chain_nth_S s : WF s -> forall k y,
  nth_error (chain s y) (S k) = match nth_error (chain s y) k with Some c => par s c | None => None end.
Proof.
  intros W. induction k as [|k IH]; intros y; rewrite (chain_unfold s y W).
  - cbn [nth_error]. destruct (par s y) as [p|]; [|reflexivity].
    rewrite (chain_unfold s p W). reflexivity.
  - cbn [nth_error]. destruct (par s y) as [p|].
    + change (nth_error (chain s p) (S k) = match nth_error (chain s p) k with Some c => par s c | None => None end).
      apply IH.
    + destruct k; reflexivity.
Qed.

Lemma chain_nth_depth s : WF s -> forall k y r,
  nth_error (chain s y) k = Some r -> depth s y = depth s r + k.
Proof.
  intros W. induction k as [|k IH]; intros y r H; rewrite (chain_unfold s y W) in H.
  - cbn [nth_error] in H. injection H as ->. lia.
  - cbn [nth_error] in H. destruct (par s y) as [p|] eqn:E; [|destruct k; discriminate].
    rewrite (depth_child s y p W E), (IH p r H). lia.
Qed.

(* membership in the chain = being at some distance *)
Lemma chain_In_nth s y r : (y = r \/ In r (ancestors s y)) <-> exists k, nth_error (chain s y) k = Some r.
Proof.
  split.
  - intros H. apply In_nth_error. unfold chain. destruct H as [->|H]; [left; reflexivity|right; exact H].
  - intros [k H]. apply nth_error_In in H. unfold chain in H. destruct H as [->|H]; [left; reflexivity|right; exact H].
Qed.

(* ============================================================================================== *)
(* 1. levels                                                                                        *)

(* the heap's own level lists: the nodes k child-steps below r, left to right *)
Fixpoint hlevel (s : forest) (k : nat) (r : id) : list id :=
  match k with 0 => [r] | S k' => flat_map (hlevel s k') (kids s r) end.

Lemma level_subtree s : WF s -> forall k r, level k (subtree s r) = map (subtree s) (hlevel s k r).
Proof.
  intros W. induction k as [|k IH]; intros r; [reflexivity|].
  cbn [level hlevel]. rewrite (tkids_subtree s r W).
  induction (kids s r) as [|c l IHl]; [reflexivity|].
  cbn [map flat_map]. rewrite map_app, IH, IHl. reflexivity.
Qed.

Lemma level_tags s k r : WF s -> map ttag (level k (subtree s r)) = map Some (hlevel s k r).
Proof. intros W. rewrite (level_subtree s W). apply map_ttag_subtrees. Qed.

Lemma hlevel_chain s : WF s -> forall k r y,
  In y (hlevel s k r) <-> nth_error (chain s y) k = Some r.
Proof.
  intros W. induction k as [|k IH]; intros r y.
  - cbn [hlevel In nth_error chain]. split; [intros [->|[]]; reflexivity|intros [= ->]; left; reflexivity].
  - cbn [hlevel]. rewrite in_flat_map, (chain_nth_S s W). split.
    + intros [c [Hc Hy]]. apply IH in Hy. rewrite Hy. apply (wf_link s W). exact Hc.
    + destruct (nth_error (chain s y) k) as [c|] eqn:E; [|discriminate].
      intros Hp. exists c. split; [apply (wf_link s W); exact Hp|apply IH; exact E].
Qed.

(* (1) the nodes of level k of the tree below r are the nodes whose chain reaches r after k steps *)
Theorem level_is_ancestor_distance s k r y : WF s ->
  In (Some y) (map ttag (level k (subtree s r))) <-> nth_error (y :: ancestors s y) k = Some r.
Proof.
  intros W. rewrite (level_tags s k r W), Some_inj_in. apply (hlevel_chain s W).
Qed.

Theorem level_depth s k r y : WF s ->
  In (Some y) (map ttag (level k (subtree s r))) -> depth s y = depth s r + k.
Proof.
  intros W H. apply (level_is_ancestor_distance s k r y W) in H. apply (chain_nth_depth s W k y r H).
Qed.

(* every level is duplicate free, and the levels partition the members *)
Lemma hlevel_in_members s k r y : WF s -> In y (hlevel s k r) -> y = r \/ In r (ancestors s y).
Proof. intros W H. apply chain_In_nth. exists k. apply (hlevel_chain s W). exact H. Qed.

Lemma hlevel_disjoint s k1 k2 r y : WF s -> In y (hlevel s k1 r) -> In y (hlevel s k2 r) -> k1 = k2.
Proof.
  intros W H1 H2. apply (hlevel_chain s W) in H1, H2.
  pose proof (chain_nth_depth s W k1 y r H1). pose proof (chain_nth_depth s W k2 y r H2). lia.
Qed.

(* ============================================================================================== *)
(* 2. members in pre-order, size, leaves                                                            *)

Definition root_id (t : tree) : id := match ttag t with Some y => y | None => 0 end.

(* the heap's pre-order below r; on a well-formed state it is THE solution of the recursion equation
   hpre_unfold (the function that the Python generator `preorder_iter` computes on the objects) *)
Definition hpre (s : forest) (r : id) : list id := map root_id (pre (subtree s r)).

Lemma pre_subtree_unfold s r : WF s ->
  pre (subtree s r) = subtree s r :: flat_map pre (map (subtree s) (kids s r)).
Proof.
  intros W. rewrite (subtree_unfold s r W) at 1. cbn [pre]. rewrite <- (subtree_unfold s r W). reflexivity.
Qed.

Lemma hpre_unfold s r : WF s -> hpre s r = r :: flat_map (hpre s) (kids s r).
Proof.
  intros W. unfold hpre at 1. rewrite (pre_subtree_unfold s r W). cbn [map]. f_equal.
  induction (kids s r) as [|c l IH]; [reflexivity|].
  cbn [map flat_map]. rewrite map_app, IH. reflexivity.
Qed.

Lemma pre_subtree s : WF s -> forall r, pre (subtree s r) = map (subtree s) (hpre s r).
Proof.
  intros W. apply (kids_ind s W). intros r IH.
  rewrite (pre_subtree_unfold s r W), (hpre_unfold s r W). cbn [map]. f_equal.
  induction (kids s r) as [|c l IHl]; [reflexivity|].
  cbn [map flat_map]. rewrite map_app, (IH c) by (left; reflexivity).
  rewrite IHl by (intros c' Hc'; apply IH; right; exact Hc'). reflexivity.
Qed.

Lemma tags_hpre s r : WF s -> tags (subtree s r) = map Some (hpre s r).
Proof. intros W. unfold tags. rewrite (pre_subtree s W r). apply map_ttag_subtrees. Qed.

Theorem hpre_members s r y : WF s -> In y (hpre s r) <-> y = r \/ In r (ancestors s y).
Proof. intros W. rewrite <- Some_inj_in, <- (tags_hpre s r W). apply subtree_members. exact W. Qed.

Theorem hpre_nodup s r : WF s -> NoDup (hpre s r).
Proof.
  intros W. apply (NoDup_map_inv Some). rewrite <- (tags_hpre s r W). apply subtree_tags_nodup. exact W.
Qed.

Lemma hpre_bound s r y : WF s -> r < size s -> In y (hpre s r) -> y < size s.
Proof.
  intros W Hr H. apply (hpre_members s r y W) in H. destruct H as [->|H]; [exact Hr|].
  destruct (par s y) as [p|] eqn:E; [apply (wf_bound s W y p E)|].
  pose proof W as [_ _ Hb _]. rewrite (ancestors_root s Hb y E) in H. contradiction.
Qed.

(* the decidable form of membership *)
Definition below (s : forest) (r y : id) : bool := Nat.eqb y r || memb r (ancestors s y).

Lemma below_spec s r y : below s r y = true <-> y = r \/ In r (ancestors s y).
Proof. unfold below. rewrite orb_true_iff, Nat.eqb_eq, memb_In. reflexivity. Qed.

(* (2) size: the tree below r has as many nodes as there are live ids that are r or have r among
   their ancestors; the pre-order is a duplicate-free enumeration of exactly those *)
Theorem subtree_members_permutation s r : WF s -> r < size s ->
  Permutation (hpre s r) (filter (below s r) (seq 0 (size s))).
Proof.
  intros W Hr. apply NoDup_Permutation.
  - apply hpre_nodup. exact W.
  - apply List.NoDup_filter, seq_NoDup.
  - intros y. rewrite filter_In, in_seq, below_spec, <- (hpre_members s r y W). split.
    + intros H. split; [pose proof (hpre_bound s r y W Hr H); lia|exact H].
    + intros [_ H]. exact H.
Qed.

Theorem subtree_size s r : WF s -> r < size s ->
  length (pre (subtree s r)) = length (filter (below s r) (seq 0 (size s)))
  /\ tsize (subtree s r) = length (filter (below s r) (seq 0 (size s))).
Proof.
  intros W Hr.
  assert (E : length (pre (subtree s r)) = length (filter (below s r) (seq 0 (size s)))).
  { rewrite (pre_subtree s W r), map_length. apply Permutation_length, subtree_members_permutation; assumption. }
  split; [exact E|]. rewrite <- pre_length. exact E.
Qed.

(* leaves *)
Definition hleaf (s : forest) (y : id) : bool := match kids s y with [] => true | _ :: _ => false end.

Theorem is_leaf_subtree s y : WF s -> is_leaf (subtree s y) = hleaf s y.
Proof.
  intros W. unfold is_leaf, hleaf. rewrite (tkids_subtree s y W). destruct (kids s y); reflexivity.
Qed.

Theorem is_leaf_iff s y : WF s -> is_leaf (subtree s y) = true <-> kids s y = [].
Proof.
  intros W. rewrite (is_leaf_subtree s y W). unfold hleaf. destruct (kids s y); split; congruence.
Qed.

Lemma filter_map_swap {A B} (f : B -> bool) (g : A -> B) l :
  filter f (map g l) = map g (filter (fun x => f (g x)) l).
Proof.
  induction l as [|x l IH]; [reflexivity|]. cbn [map filter]. destruct (f (g x)); cbn [map]; rewrite IH; reflexivity.
Qed.

Theorem leaves_subtree s r : WF s ->
  leaves (subtree s r) = map (subtree s) (filter (hleaf s) (hpre s r)).
Proof.
  intros W. unfold leaves. rewrite (pre_subtree s W r), filter_map_swap. f_equal.
  apply filter_ext. intros y. apply is_leaf_subtree. exact W.
Qed.

(* the leaves of the tree below r are the members without children, in pre-order *)
Theorem leaves_tags s r : WF s ->
  map ttag (leaves (subtree s r)) = map Some (filter (hleaf s) (hpre s r)).
Proof. intros W. rewrite (leaves_subtree s r W). apply map_ttag_subtrees. Qed.

Theorem leaves_members s r y : WF s ->
  In (Some y) (map ttag (leaves (subtree s r))) <-> (y = r \/ In r (ancestors s y)) /\ kids s y = [].
Proof.
  intros W. rewrite (leaves_tags s r W), Some_inj_in, filter_In, (hpre_members s r y W).
  unfold hleaf. destruct (kids s y); split; intros [H1 H2]; (split; [exact H1|congruence]).
Qed.

(* ============================================================================================== *)
(* 3. positions on the heap; ancestors, descendants, leaves, siblings by position                   *)

(* the node reached from x by following the child indices p *)
Fixpoint node_at (s : forest) (x : id) (p : pos) : option id :=
  match p with
  | [] => Some x
  | i :: p' => match nth_error (kids s x) i with Some c => node_at s c p' | None => None end
  end.

Definition onode_at (s : forest) (x : id) (o : option pos) : option id :=
  match o with Some p => node_at s x p | None => None end.

Theorem subtree_at_heap s : WF s -> forall p r,
  subtree_at (subtree s r) p = option_map (subtree s) (node_at s r p).
Proof.
  intros W. induction p as [|i p IH]; intros r; [reflexivity|].
  cbn [subtree_at node_at]. rewrite (tkids_subtree s r W), nth_error_map.
  destruct (nth_error (kids s r) i) as [c|]; cbn [option_map]; [apply IH|reflexivity].
Qed.

Lemma valid_heap s r p : WF s -> valid (subtree s r) p = true <-> exists y, node_at s r p = Some y.
Proof.
  intros W. unfold valid. rewrite (subtree_at_heap s W p r).
  destruct (node_at s r p) as [y|]; cbn [option_map]; split.
  - intros _. exists y. reflexivity.
  - reflexivity.
  - discriminate.
  - intros [y H]. discriminate.
Qed.

Lemma node_at_app s : forall p r q,
  node_at s r (p ++ q) = match node_at s r p with Some y => node_at s y q | None => None end.
Proof.
  induction p as [|i p IH]; intros r q; [reflexivity|].
  cbn [app node_at]. destruct (nth_error (kids s r) i) as [c|]; [apply IH|reflexivity].
Qed.

Lemma node_at_single s z j : node_at s z [j] = nth_error (kids s z) j.
Proof. cbn [node_at]. destruct (nth_error (kids s z) j); reflexivity. Qed.

Lemma node_at_snoc s r q i z : node_at s r q = Some z -> node_at s r (q ++ [i]) = nth_error (kids s z) i.
Proof. intros H. rewrite node_at_app, H. apply node_at_single. Qed.

Lemma node_at_snoc_inv s r q i y : node_at s r (q ++ [i]) = Some y ->
  exists z, node_at s r q = Some z /\ nth_error (kids s z) i = Some y.
Proof.
  rewrite node_at_app. destruct (node_at s r q) as [z|]; [|discriminate].
  rewrite node_at_single. intros H. exists z. split; [reflexivity|exact H].
Qed.

(* the position of a node records its distance from the root of the tree: levels again *)
Theorem node_at_chain s : WF s -> forall p r y,
  node_at s r p = Some y -> nth_error (y :: ancestors s y) (length p) = Some r.
Proof.
  intros W. induction p as [|i p IH]; intros r y H.
  - cbn in H. injection H as ->. reflexivity.
  - cbn [node_at] in H. destruct (nth_error (kids s r) i) as [c|] eqn:E; [|discriminate].
    cbn [length]. fold (chain s y). rewrite (chain_nth_S s W). unfold chain. rewrite (IH c y H).
    apply (wf_link s W). apply nth_error_In in E. exact E.
Qed.

Theorem node_at_depth s p r y : WF s -> node_at s r p = Some y -> depth s y = depth s r + length p.
Proof. intros W H. apply (chain_nth_depth s W). apply (node_at_chain s W p r y H). Qed.

Lemma depth_of_root s r : WF s -> par s r = None -> depth s r = 1.
Proof. intros [_ _ Hb _] E. unfold depth. rewrite (ancestors_root s Hb r E). reflexivity. Qed.

(* Algo/Derived.v: depth of the node at position p of a whole tree *)
Theorem node_depth_heap s p r y : WF s -> par s r = None -> node_at s r p = Some y ->
  node_depth p = depth s y.
Proof.
  intros W Hr H. rewrite node_depth_eq, (node_at_depth s p r y W H), (depth_of_root s r W Hr). lia.
Qed.

Lemma node_ancestors_snoc q i : node_ancestors (q ++ [i]) = q :: node_ancestors q.
Proof.
  unfold node_ancestors. rewrite app_length. cbn [length]. replace (length q + 1) with (S (length q)) by lia.
  change (ancestors_f (S (S (length q))) (q ++ [i]))
    with (match node_parent (q ++ [i]) with None => [] | Some q' => q' :: ancestors_f (S (length q)) q' end).
  rewrite node_parent_app. reflexivity.
Qed.

(* Algo/Derived.v: the ancestors of the node at position p are the heap's parent walk *)
Theorem node_ancestors_heap s r : WF s -> par s r = None -> forall p y, node_at s r p = Some y ->
  map (node_at s r) (node_ancestors p) = map Some (ancestors s y).
Proof.
  intros W Hr. pose proof W as [_ _ Hb _].
  induction p as [|i q IH] using rev_ind; intros y H.
  - cbn in H. injection H as <-. rewrite (ancestors_root s Hb r Hr). reflexivity.
  - destruct (node_at_snoc_inv s r q i y H) as [z [Hq Hi]].
    assert (Ep : par s y = Some z) by (apply (wf_link s W); apply nth_error_In in Hi; exact Hi).
    rewrite node_ancestors_snoc, (WF_ancestors_unfold s y z W Ep). cbn [map].
    rewrite Hq, (IH z Hq). reflexivity.
Qed.

(* all positions, in pre-order, are the members in pre-order *)
Theorem positions_heap s : WF s -> forall r,
  map (node_at s r) (positions (subtree s r)) = map Some (hpre s r).
Proof.
  intros W. apply (kids_ind s W). intros r IH.
  rewrite (hpre_unfold s r W). rewrite (subtree_unfold s r W) at 1. rewrite positions_eq.
  cbn [map node_at]. f_equal.
  assert (G : forall l o, (forall j c, nth_error l j = Some c -> nth_error (kids s r) (o + j) = Some c) ->
              map (node_at s r) (pos_go o (map (subtree s) l)) = map Some (flat_map (hpre s) l)).
  { induction l as [|c l IHl]; intros o Hn; [reflexivity|].
    cbn [map pos_go flat_map]. rewrite !map_app. f_equal.
    - assert (Ec : nth_error (kids s r) o = Some c) by (rewrite <- (Nat.add_0_r o); apply Hn; reflexivity).
      rewrite map_map. rewrite <- (IH c) by (apply nth_error_In in Ec; exact Ec).
      apply map_ext. intros q. cbn [node_at]. rewrite Ec. reflexivity.
    - apply IHl. intros j c' Hj. replace (S o + j) with (o + S j) by lia. apply Hn. exact Hj. }
  apply G. intros j c Hj. exact Hj.
Qed.

Lemma map_filter_through {A B} (f : A -> option B) (F : A -> bool) (G : B -> bool) :
  forall L M, map f L = map Some M -> (forall q z, In q L -> f q = Some z -> F q = G z) ->
  map f (filter F L) = map Some (filter G M).
Proof.
  induction L as [|q L IH]; intros [|z M] E HF; try discriminate; [reflexivity|].
  cbn [map] in E. injection E as Eq EL. cbn [filter].
  rewrite (HF q z (or_introl eq_refl) Eq).
  assert (R : map f (filter F L) = map Some (filter G M)).
  { apply IH; [exact EL|]. intros q' z' Hq'. apply HF. right. exact Hq'. }
  destruct (G z); cbn [map]; rewrite R, ?Eq; reflexivity.
Qed.

Lemma map_tl {A B} (f : A -> B) l : map f (tl l) = tl (map f l).
Proof. destruct l; reflexivity. Qed.

Lemma map_node_at_app s r p y L : node_at s r p = Some y ->
  map (node_at s r) (map (app p) L) = map (node_at s y) L.
Proof. intros H. rewrite map_map. apply map_ext. intros q. rewrite node_at_app, H. reflexivity. Qed.

(* Algo/Derived.v: descendants / leaves of the node at position p = the heap's, in the same order *)
Theorem node_descendants_heap s r p y : WF s -> node_at s r p = Some y ->
  map (node_at s r) (node_descendants (subtree s r) p) = map Some (tl (hpre s y)).
Proof.
  intros W H.
  assert (Hs : subtree_at (subtree s r) p = Some (subtree s y)) by (rewrite (subtree_at_heap s W p r), H; reflexivity).
  rewrite (node_descendants_eq _ p _ Hs), (map_node_at_app s r p y _ H), !map_tl.
  rewrite (positions_heap s W y). reflexivity.
Qed.

Theorem node_leaves_heap s r p y : WF s -> node_at s r p = Some y ->
  map (node_at s r) (node_leaves (subtree s r) p) = map Some (filter (hleaf s) (hpre s y)).
Proof.
  intros W H.
  assert (Hs : subtree_at (subtree s r) p = Some (subtree s y)) by (rewrite (subtree_at_heap s W p r), H; reflexivity).
  rewrite (node_leaves_eq _ p _ Hs), (map_node_at_app s r p y _ H).
  apply map_filter_through; [apply positions_heap; exact W|].
  intros q z _ Hq. unfold sub_or. rewrite (subtree_at_heap s W q y), Hq. cbn [option_map].
  unfold sub_is_leaf, hleaf. rewrite (tkids_subtree s z W). destruct (kids s z); reflexivity.
Qed.

Theorem node_is_leaf_heap s r p y : WF s -> node_at s r p = Some y ->
  node_is_leaf (subtree s r) p = hleaf s y.
Proof.
  intros W H.
  assert (Hs : subtree_at (subtree s r) p = Some (subtree s y)) by (rewrite (subtree_at_heap s W p r), H; reflexivity).
  rewrite (node_is_leaf_eq _ p _ Hs). unfold sub_is_leaf, hleaf. rewrite (tkids_subtree s y W).
  destruct (kids s y); reflexivity.
Qed.

(* ---- siblings ---- *)

(* basenode.py `siblings`, `left_sibling`, `right_sibling` read on the heap *)
Definition hsiblings (s : forest) (y : id) : list id :=
  match par s y with
  | None => []
  | Some q => filter (fun c => negb (Nat.eqb c y)) (kids s q)
  end.

Definition hleft (s : forest) (y : id) : option id :=
  match par s y with
  | None => None
  | Some q => let i := index_of y (kids s q) in
              if Nat.eqb i 0 then None else nth_error (kids s q) (i - 1)
  end.

Definition hright (s : forest) (y : id) : option id :=
  match par s y with
  | None => None
  | Some q => let i := index_of y (kids s q) in
              if Nat.ltb (i + 1) (length (kids s q)) then nth_error (kids s q) (i + 1) else None
  end.

Lemma hsiblings_remove1 s y q : WF s -> par s y = Some q -> hsiblings s y = remove1 y (kids s q).
Proof.
  intros W E. unfold hsiblings. rewrite E. symmetry. apply remove1_filter. apply (wf_nodup s W).
Qed.

Lemma index_of_nth : forall l i y, NoDup l -> nth_error l i = Some y -> index_of y l = i.
Proof.
  induction l as [|x l IH]; intros i y Hnd H; [destruct i; discriminate|].
  inversion Hnd as [|? ? Hx Hl]; subst. destruct i as [|i]; cbn [nth_error index_of] in *.
  - injection H as ->. rewrite Nat.eqb_refl. reflexivity.
  - destruct (Nat.eqb_spec y x) as [->|Hne]; [exfalso; apply Hx; apply nth_error_In in H; exact H|].
    f_equal. apply IH; assumption.
Qed.

Lemma map_nth_filter {A} (g : A -> bool) : forall (l : list A) (f : nat -> bool),
  (forall j c, nth_error l j = Some c -> f j = g c) ->
  map (nth_error l) (filter f (seq 0 (length l))) = map Some (filter g l).
Proof.
  induction l as [|x l IH]; intros f Hf; [reflexivity|].
  cbn [length seq filter]. rewrite (Hf 0 x eq_refl).
  assert (R : map (nth_error (x :: l)) (filter f (seq 1 (length l))) = map Some (filter g l)).
  { rewrite <- seq_shift, filter_map_swap, map_map. cbn [nth_error].
    apply (IH (fun j => f (S j))). intros j c Hj. apply (Hf (S j) c). exact Hj. }
  destruct (g x); cbn [map nth_error]; rewrite R; reflexivity.
Qed.

Lemma node_arity_heap s r q z : WF s -> node_at s r q = Some z ->
  node_arity (subtree s r) q = length (kids s z).
Proof.
  intros W H. unfold node_arity. rewrite (subtree_at_heap s W q r), H. cbn [option_map].
  rewrite (tkids_subtree s z W). apply map_length.
Qed.

(* (3) the siblings of the i-th child y of the node z at position q *)
Theorem node_siblings_child s r q i z y : WF s ->
  node_at s r q = Some z -> nth_error (kids s z) i = Some y ->
  par s y = Some z
  /\ map (node_at s r) (node_siblings (subtree s r) (q ++ [i])) = map Some (hsiblings s y)
  /\ hsiblings s y = remove1 y (kids s z)
  /\ onode_at s r (node_left_sibling (subtree s r) (q ++ [i])) = hleft s y
  /\ onode_at s r (node_right_sibling (subtree s r) (q ++ [i])) = hright s y
  /\ hleft s y = match i with 0 => None | S j => nth_error (kids s z) j end
  /\ hright s y = nth_error (kids s z) (S i).
Proof.
  intros W Hq Hi.
  assert (Ep : par s y = Some z) by (apply (wf_link s W); apply nth_error_In in Hi; exact Hi).
  assert (Hnd : NoDup (kids s z)) by apply (wf_nodup s W).
  assert (Hix : index_of y (kids s z) = i) by (apply index_of_nth; assumption).
  assert (Hlt : i < length (kids s z)) by (apply nth_error_Some; congruence).
  assert (Hv : valid (subtree s r) (q ++ [i]) = true).
  { apply (valid_heap s r (q ++ [i]) W). exists y. rewrite (node_at_snoc s r q i z Hq). exact Hi. }
  assert (HL : hleft s y = match i with 0 => None | S j => nth_error (kids s z) j end).
  { unfold hleft. rewrite Ep. cbn zeta. rewrite Hix. destruct i as [|j]; [reflexivity|].
    cbn [Nat.eqb]. replace (S j - 1) with j by lia. reflexivity. }
  assert (HR : hright s y = nth_error (kids s z) (S i)).
  { unfold hright. rewrite Ep. cbn zeta. rewrite Hix. replace (i + 1) with (S i) by lia.
    destruct (Nat.ltb (S i) (length (kids s z))) eqn:E; [reflexivity|].
    apply Nat.ltb_ge in E. symmetry. apply nth_error_None. exact E. }
  split; [exact Ep|]. split; [|split; [apply hsiblings_remove1; assumption|split; [|split; [|split; [exact HL|exact HR]]]]].
  - rewrite node_siblings_eq, (node_arity_heap s r q z W Hq). unfold child_of. rewrite map_map.
    rewrite (map_ext (fun j => node_at s r (q ++ [j])) (nth_error (kids s z)))
      by (intros j; apply node_at_snoc; exact Hq).
    unfold hsiblings. rewrite Ep. apply map_nth_filter.
    intros j c Hj. f_equal. destruct (Nat.eqb_spec j i) as [->|Hne].
    + rewrite Hi in Hj. injection Hj as ->. symmetry. apply Nat.eqb_refl.
    + symmetry. apply Nat.eqb_neq. intros ->. apply Hne.
      apply (proj1 (NoDup_nth_error (kids s z)) Hnd); [apply nth_error_Some; congruence|congruence].
  - rewrite (node_left_sibling_eq _ q i Hv), HL. destruct i as [|j]; [reflexivity|].
    cbn [onode_at]. apply node_at_snoc. exact Hq.
  - rewrite (node_right_sibling_eq _ q i Hv), HR.
    destruct (valid (subtree s r) (q ++ [S i])) eqn:V; cbn [onode_at].
    + apply node_at_snoc. exact Hq.
    + destruct (nth_error (kids s z) (S i)) as [c|] eqn:E; [|reflexivity].
      assert (V' : valid (subtree s r) (q ++ [S i]) = true)
        by (apply (valid_heap s r _ W); exists c; rewrite (node_at_snoc s r q (S i) z Hq); exact E).
      congruence.
Qed.

(* the same for any node of a whole tree (r without parent), addressed by its position *)
Theorem node_siblings_heap s r p y : WF s -> par s r = None -> node_at s r p = Some y ->
  map (node_at s r) (node_siblings (subtree s r) p) = map Some (hsiblings s y)
  /\ onode_at s r (node_left_sibling (subtree s r) p) = hleft s y
  /\ onode_at s r (node_right_sibling (subtree s r) p) = hright s y.
Proof.
  intros W Hr H. induction p as [|i0 p0 _] using rev_ind.
  - cbn in H. injection H as <-. unfold hsiblings, hleft, hright. rewrite Hr. repeat split.
  - destruct (node_at_snoc_inv s r p0 i0 y H) as [z [Hq Hi]].
    destruct (node_siblings_child s r p0 i0 z y W Hq Hi) as [_ [H1 [_ [H2 [H3 _]]]]].
    split; [exact H1|]. split; [exact H2|exact H3].
Qed.

(* ============================================================================================== *)
(* 4. root                                                                                          *)

Lemma chain_same_root s : WF s -> forall k y r, nth_error (chain s y) k = Some r -> root s r = root s y.
Proof.
  intros W. induction k as [|k IH]; intros y r H; rewrite (chain_unfold s y W) in H.
  - cbn [nth_error] in H. injection H as ->. reflexivity.
  - cbn [nth_error] in H. destruct (par s y) as [p|] eqn:E; [|destruct k; discriminate].
    rewrite (IH p r H). symmetry. apply root_parent; assumption.
Qed.

Lemma last_self_or_in {A} (d : A) : forall l, last l d = d \/ In (last l d) l.
Proof.
  induction l as [|x l IH]; [left; reflexivity|]. right.
  destruct l as [|z l]; [left; reflexivity|].
  change (last (x :: z :: l) d) with (last (z :: l) d).
  destruct IH as [E|Hin]; [|right; exact Hin].
  right. rewrite (last_nonempty_default z d z l). 
  clear E. revert z. induction l as [|w l IHl]; intros z; [left; reflexivity|].
  change (last (z :: w :: l) z) with (last (w :: l) z). right.
  rewrite (last_nonempty_default w z w l). apply IHl.
Qed.

(* (4) the root of y is the element of y's chain that has no parent *)
Theorem root_iff s y r : WF s ->
  r = root s y <-> (y = r \/ In r (ancestors s y)) /\ par s r = None.
Proof.
  intros W. split.
  - intros ->. destruct (root_spec s y W) as [E Hp]. split; [|exact Hp]. rewrite E.
    destruct (last_self_or_in y (ancestors s y)) as [H|H]; [left; symmetry; exact H|right; exact H].
  - intros [Hm Hp]. apply chain_In_nth in Hm. destruct Hm as [k Hk].
    rewrite <- (chain_same_root s W k y r Hk). symmetry. apply root_root. exact Hp.
Qed.

(* every node lies in the tree below exactly one parentless node: its root *)
Theorem one_tree_per_node s y r : WF s ->
  (par s r = None /\ In (Some y) (tags (subtree s r))) <-> r = root s y.
Proof.
  intros W. rewrite (subtree_members s r y W), (root_iff s y r W). tauto.
Qed.

Theorem root_tree_exists_unique s y : WF s ->
  exists! r, par s r = None /\ In (Some y) (tags (subtree s r)).
Proof.
  intros W. exists (root s y). split.
  - apply (one_tree_per_node s y (root s y) W). reflexivity.
  - intros r H. symmetry. apply (one_tree_per_node s y r W). exact H.
Qed.

(* Algo/Derived.v: root / is_root of the node at position p of a whole tree *)
Theorem node_root_heap s r p y : WF s -> par s r = None -> node_at s r p = Some y ->
  node_at s r (node_root p) = Some (root s y)
  /\ (node_is_root p = true <-> par s y = None).
Proof.
  intros W Hr H. split.
  - rewrite node_root_eq. cbn [node_at]. f_equal. apply (root_iff s y r W). split; [|exact Hr].
    apply chain_In_nth. exists (length p). apply (node_at_chain s W p r y H).
  - rewrite node_is_root_iff. split.
    + intros ->. cbn in H. injection H as <-. exact Hr.
    + intros Hy. induction p as [|i q _] using rev_ind; [reflexivity|]. exfalso.
      destruct (node_at_snoc_inv s r q i y H) as [z [_ Hi]].
      apply nth_error_In in Hi. apply (wf_link s W) in Hi. congruence.
Qed.

(* ============================================================================================== *)
(* 5. height                                                                                        *)

Lemma level_nil_height : forall k t, level k t = [] <-> height t <= k.
Proof.
  induction k as [|k IH]; intros [g n a ks].
  - rewrite height_unfold. cbn [level]. split; [discriminate|lia].
  - rewrite height_unfold. cbn [level tkids].
    induction ks as [|c ks IHks]; [cbn; split; [lia|reflexivity]|].
    cbn [flat_map fmax fold_right]. fold (fmax height ks).
    split.
    + intros H. apply app_eq_nil in H. destruct H as [H1 H2]. apply IH in H1. apply IHks in H2. lia.
    + intros H. assert (H1 : height c <= k) by lia. assert (H2 : S (fmax height ks) <= S k) by lia.
      apply IH in H1. apply IHks in H2. rewrite H1, H2. reflexivity.
Qed.

Lemma height_pos t : 1 <= height t.
Proof. destruct t. rewrite height_unfold. lia. Qed.

Theorem height_bounds_members s r y : WF s -> In y (hpre s r) ->
  depth s r <= depth s y /\ depth s y < depth s r + height (subtree s r).
Proof.
  intros W H. apply (hpre_members s r y W) in H. apply chain_In_nth in H. destruct H as [k Hk].
  pose proof (chain_nth_depth s W k y r Hk) as Hd.
  assert (Hl : In y (hlevel s k r)) by (apply (hlevel_chain s W); exact Hk).
  assert (Hh : ~ height (subtree s r) <= k).
  { intros Hle. apply level_nil_height in Hle. rewrite (level_subtree s W) in Hle.
    apply map_eq_nil in Hle. rewrite Hle in Hl. contradiction. }
  lia.
Qed.

Theorem height_attained_by_member s r : WF s ->
  exists y, In y (hpre s r) /\ depth s y + 1 = depth s r + height (subtree s r).
Proof.
  intros W. pose proof (height_pos (subtree s r)) as Hp.
  assert (Hh : ~ height (subtree s r) <= height (subtree s r) - 1) by lia.
  rewrite <- level_nil_height, (level_subtree s W) in Hh.
  destruct (hlevel s (height (subtree s r) - 1) r) as [|y l] eqn:E; [exfalso; apply Hh; reflexivity|].
  assert (Hl : In y (hlevel s (height (subtree s r) - 1) r)) by (rewrite E; left; reflexivity).
  exists y. split.
  - apply (hpre_members s r y W). apply (hlevel_in_members s _ r y W Hl).
  - apply (hlevel_chain s W) in Hl. pose proof (chain_nth_depth s W _ y r Hl). lia.
Qed.

(* (5) height = 1 + the largest depth difference between a member and r *)
Theorem height_heap s r : WF s ->
  height (subtree s r) = S (list_max (map (fun y => depth s y - depth s r) (hpre s r))).
Proof.
  intros W. set (l := map (fun y => depth s y - depth s r) (hpre s r)).
  assert (Hle : list_max l <= height (subtree s r) - 1).
  { apply list_max_le. apply Forall_forall. intros d Hd. unfold l in Hd. apply in_map_iff in Hd.
    destruct Hd as [y [<- Hy]]. pose proof (height_bounds_members s r y W Hy). lia. }
  assert (Hge : height (subtree s r) - 1 <= list_max l).
  { destruct (height_attained_by_member s r W) as [y [Hy Hd]].
    assert (Hin : In (depth s y - depth s r) l) by (unfold l; apply (in_map (fun y0 => depth s y0 - depth s r)); exact Hy).
    pose proof (proj1 (list_max_le l (list_max l)) (le_n _)) as HF.
    rewrite Forall_forall in HF. specialize (HF _ Hin). lia. }
  pose proof (height_pos (subtree s r)). lia.
Qed.

Theorem level_empty_iff s r k : WF s -> hlevel s k r = [] <-> height (subtree s r) <= k.
Proof.
  intros W. rewrite <- level_nil_height, (level_subtree s W). split.
  - intros ->. reflexivity.
  - apply map_eq_nil.
Qed.

Lemma map_through {A B C} (f : A -> option B) (F : A -> C) (G : B -> C) :
  forall L M, map f L = map Some M -> (forall q z, In q L -> f q = Some z -> F q = G z) ->
  map F L = map G M.
Proof.
  induction L as [|q L IH]; intros [|z M] E HF; try discriminate; [reflexivity|].
  cbn [map] in E. injection E as Eq EL. cbn [map]. f_equal.
  - apply HF; [left; reflexivity|exact Eq].
  - apply IH; [exact EL|]. intros q' z' Hq'. apply HF. right. exact Hq'.
Qed.

(* Algo/Derived.v: max_depth, asked of any node of a whole tree, is the largest depth of a member
   of the tree, and equals the height of the tree *)
Theorem node_max_depth_heap s r p : WF s -> par s r = None ->
  node_max_depth (subtree s r) p = list_max (map (depth s) (hpre s r))
  /\ node_max_depth (subtree s r) p = height (subtree s r).
Proof.
  intros W Hr. rewrite node_max_depth_eq. unfold spec_max_depth. split.
  - f_equal. apply (map_through (node_at s r)); [apply positions_heap; exact W|].
    intros q z _ Hq. rewrite (node_at_depth s q r z W Hq), (depth_of_root s r W Hr). reflexivity.
  - set (t := subtree s r). apply Nat.le_antisymm.
    + apply list_max_le. apply Forall_forall. intros d Hd. apply in_map_iff in Hd.
      destruct Hd as [q [<- Hq]]. apply height_upper. exact Hq.
    + destruct (height_attained t) as [q [Hq <-]].
      pose proof (proj1 (list_max_le (map (fun a => S (length a)) (positions t)) _) (le_n _)) as HF.
      rewrite Forall_forall in HF. apply HF. apply in_map_iff. exists q. split; [reflexivity|exact Hq].
Qed.

(* ============================================================================================== *)
(* 6. reachable states                                                                              *)

Lemma reachable_WF cfg n names seps ops : WF (run cfg (init n names seps) ops).
Proof. apply run_WF, WF_init. Qed.
