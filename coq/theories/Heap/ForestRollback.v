(* The except-branch of the children setter restores the state exactly (C02 for `children`).
   Mathematical core (fix F1): re-inserting the removed elements of a list at their original
   indices IN ASCENDING INDEX ORDER gives back the list. *)
From Coq Require Import Sorting.Sorted Sorting.Permutation.
From BT Require Import Base.Prelude Base.Str Heap.Forest Heap.ForestWF Heap.ForestOps.

(* ---------- restore lemma ---------- *)
Lemma index_of_app_r x l1 l2 : ~ In x l1 -> index_of x (l1 ++ l2) = length l1 + index_of x l2.
Proof.
  induction l1 as [|y l1 IH]; cbn [app index_of length]; intros H; [reflexivity|].
  destruct (Nat.eqb_spec x y) as [->|Hne]; [exfalso; apply H; left; reflexivity|].
  cbn. f_equal. apply IH. intros Hin. apply H. right. exact Hin.
Qed.

Lemma index_of_head x l : index_of x (x :: l) = 0.
Proof. cbn. rewrite Nat.eqb_refl. reflexivity. Qed.

Lemma insert_at_length {A} (l1 l2 : list A) x : insert_at (length l1) x (l1 ++ l2) = l1 ++ x :: l2.
Proof. induction l1 as [|y l1 IH]; cbn; [destruct l2; reflexivity|f_equal; exact IH]. Qed.

Definition reinsert (l : list id) (acc : list id) (x : id) : list id :=
  insert_at (index_of x l) x acc.

Lemma restore_sorted (S : id -> bool) (l : list id) : NoDup l ->
  fold_left (reinsert l) (filter S l) (filter (fun y => negb (S y)) l) = l.
Proof.
  intros Hnd.
  assert (G : forall l2 l1, l = l1 ++ l2 ->
            fold_left (reinsert l) (filter S l2) (l1 ++ filter (fun y => negb (S y)) l2) = l1 ++ l2).
  { induction l2 as [|y l2 IH]; intros l1 E; cbn [filter fold_left]; [reflexivity|].
    assert (Hy : ~ In y l1).
    { rewrite E in Hnd. apply NoDup_remove_2 in Hnd. intros H. apply Hnd. apply in_or_app. left. exact H. }
    assert (E' : l = (l1 ++ [y]) ++ l2) by (rewrite <- app_assoc; exact E).
    destruct (S y); cbn [negb fold_left].
    - assert (Hidx : index_of y l = length l1).
      { rewrite E, index_of_app_r by exact Hy. rewrite index_of_head. lia. }
      unfold reinsert at 2. rewrite Hidx, insert_at_length.
      change (l1 ++ y :: filter (fun y0 => negb (S y0)) l2) with (l1 ++ [y] ++ filter (fun y0 => negb (S y0)) l2).
      rewrite app_assoc. rewrite (IH (l1 ++ [y]) E'). rewrite <- app_assoc. reflexivity.
    - change (l1 ++ y :: filter (fun y0 => negb (S y0)) l2) with (l1 ++ [y] ++ filter (fun y0 => negb (S y0)) l2).
      rewrite app_assoc. rewrite (IH (l1 ++ [y]) E'). rewrite <- app_assoc. reflexivity. }
  apply (G l []). reflexivity.
Qed.

(* ---------- insertion sort by old index ---------- *)
Definition entry := (id * (nat * id))%type.
Definition ekey (e : entry) : nat := fst (snd e).

Lemma ins_by_idx_In e l x : In x (ins_by_idx e l) <-> e = x \/ In x l.
Proof.
  induction l as [|h t IH]; cbn [ins_by_idx In]; [tauto|].
  destruct (Nat.leb (fst (snd e)) (fst (snd h))); cbn [In]; [tauto|]. rewrite IH. tauto.
Qed.

Lemma sort_by_idx_In l x : In x (sort_by_idx l) <-> In x l.
Proof.
  induction l as [|h t IH]; cbn [sort_by_idx fold_right In]; [tauto|].
  fold (sort_by_idx t). rewrite ins_by_idx_In, IH. split; intros [H|H]; auto.
Qed.

Definition sorted_le (l : list entry) : Prop := StronglySorted (fun a b => ekey a <= ekey b) l.

Lemma ins_by_idx_sorted e l : sorted_le l -> sorted_le (ins_by_idx e l).
Proof.
  unfold sorted_le. induction l as [|h t IH]; cbn [ins_by_idx]; intros Hs.
  - constructor; constructor.
  - inversion Hs as [|? ? Ht Hall]; subst.
    destruct (Nat.leb_spec (fst (snd e)) (fst (snd h))) as [Hle|Hgt].
    + constructor; [exact Hs|]. constructor; [exact Hle|].
      rewrite Forall_forall in *. intros x Hx. specialize (Hall x Hx). unfold ekey in *. lia.
    + constructor; [apply IH; exact Ht|].
      rewrite Forall_forall in *. intros x Hx. apply ins_by_idx_In in Hx as [<-|Hx]; [unfold ekey; lia|apply Hall; exact Hx].
Qed.

Lemma sort_by_idx_sorted l : sorted_le (sort_by_idx l).
Proof.
  induction l as [|h t IH]; cbn [sort_by_idx fold_right]; [constructor|].
  apply ins_by_idx_sorted. exact IH.
Qed.

Lemma sorted_filter (f : entry -> bool) l : sorted_le l -> sorted_le (filter f l).
Proof.
  unfold sorted_le. induction l as [|h t IH]; cbn [filter]; intros Hs; [constructor|].
  inversion Hs as [|? ? Ht Hall]; subst.
  destruct (f h); [|apply IH; exact Ht]. constructor; [apply IH; exact Ht|].
  rewrite Forall_forall in *. intros x Hx. apply filter_In in Hx as [Hx _]. apply Hall. exact Hx.
Qed.

Lemma ins_by_idx_nodup e l : NoDup l -> ~ In e l -> NoDup (ins_by_idx e l).
Proof.
  induction l as [|h t IH]; cbn [ins_by_idx]; intros Hnd He.
  - constructor; [tauto|constructor].
  - destruct (Nat.leb (fst (snd e)) (fst (snd h))); [constructor; assumption|].
    inversion Hnd; subst. constructor.
    + rewrite ins_by_idx_In. intros [<-|H]; [apply He; left; reflexivity|contradiction].
    + apply IH; [assumption|]. intros H. apply He. right. exact H.
Qed.

Lemma sort_by_idx_nodup l : NoDup l -> NoDup (sort_by_idx l).
Proof.
  induction l as [|h t IH]; cbn [sort_by_idx fold_right]; intros Hnd; [constructor|].
  inversion Hnd; subst. apply ins_by_idx_nodup; [apply IH; assumption|].
  fold (sort_by_idx t). rewrite sort_by_idx_In. assumption.
Qed.

Lemma NoDup_filter_entries (f : entry -> bool) l : NoDup l -> NoDup (filter f l).
Proof.
  induction l as [|y t IH]; cbn [filter]; intros Hnd; [constructor|].
  inversion Hnd; subst. destruct (f y); [constructor; [rewrite filter_In; tauto|]|]; apply IH; assumption.
Qed.

(* two duplicate-free lists, sorted by a key that is injective on their elements, with the same
   elements, are equal *)
Lemma sorted_unique (A B : list entry) :
  sorted_le A -> sorted_le B -> NoDup A -> NoDup B ->
  (forall e, In e A <-> In e B) ->
  (forall a b, In a A -> In b A -> ekey a = ekey b -> a = b) ->
  A = B.
Proof.
  unfold sorted_le. revert B. induction A as [|a A IH]; intros B HA HB NA NB Hiff Hinj.
  - destruct B as [|b B]; [reflexivity|]. exfalso. apply (Hiff b). left. reflexivity.
  - destruct B as [|b B]; [exfalso; apply (Hiff a); left; reflexivity|].
    inversion HA as [|? ? HA' HallA]; subst. inversion HB as [|? ? HB' HallB]; subst.
    inversion NA as [|? ? HaA NA']; subst. inversion NB as [|? ? HbB NB']; subst.
    rewrite Forall_forall in HallA, HallB.
    assert (Eab : a = b).
    { assert (Hb : In b (a :: A)) by (apply Hiff; left; reflexivity).
      assert (Ha : In a (b :: B)) by (apply Hiff; left; reflexivity).
      destruct Hb as [Hb|Hb]; [exact Hb|]. destruct Ha as [Ha|Ha]; [symmetry; exact Ha|].
      apply Hinj; [left; reflexivity|right; exact Hb|].
      specialize (HallA b Hb). specialize (HallB a Ha). lia. }
    subst b. f_equal. apply IH; try assumption.
    + intros e. split; intros He.
      * assert (H : In e (a :: B)) by (apply Hiff; right; exact He).
        destruct H as [<-|H]; [contradiction|exact H].
      * assert (H : In e (a :: A)) by (apply Hiff; right; exact He).
        destruct H as [<-|H]; [contradiction|exact H].
    + intros x y Hx Hy. apply Hinj; right; assumption.
Qed.

(* ---------- the give-back fold ---------- *)
Definition eq_q (q : id) (e : entry) : bool := Nat.eqb (snd (snd e)) q.

Lemma give_back_size E : forall s, size (fold_left give_back E s) = size s.
Proof. induction E as [|[x [i q]] E IH]; intros s; cbn [fold_left]; [reflexivity|]. rewrite IH. reflexivity. Qed.

Lemma give_back_par_other E y : forall s,
  (forall e, In e E -> fst e <> y) -> par (fold_left give_back E s) y = par s y.
Proof.
  induction E as [|[x [i q]] E IH]; intros s H; cbn [fold_left]; [reflexivity|].
  rewrite IH by (intros e He; apply H; right; exact He).
  cbn [give_back par set_kids set_par]. apply upd_other.
  intros ->. apply (H (x, (i, q))); [left; reflexivity|reflexivity].
Qed.

Lemma give_back_par_hit E y i q : forall s,
  NoDup (map fst E) -> In (y, (i, q)) E -> par (fold_left give_back E s) y = Some q.
Proof.
  induction E as [|[x [i' q']] E IH]; intros s Hnd Hin; cbn [fold_left]; [contradiction|].
  cbn [map fst] in Hnd. inversion Hnd as [|? ? Hx Hnd']; subst.
  destruct Hin as [[= -> -> ->]|Hin].
  - rewrite give_back_par_other.
    + cbn [give_back par set_kids set_par]. apply upd_same.
    + intros e He <-. apply Hx. apply in_map. exact He.
  - apply IH; assumption.
Qed.

Lemma give_back_kids E q : forall s,
  kids (fold_left give_back E s) q
  = fold_left (fun l e => insert_at (ekey e) (fst e) l) (filter (eq_q q) E) (kids s q).
Proof.
  induction E as [|[x [i q']] E IH]; intros s; cbn [fold_left filter]; [reflexivity|].
  rewrite IH. unfold eq_q at 2. cbn [snd fst].
  destruct (Nat.eqb_spec q' q) as [->|Hne]; cbn [fold_left give_back kids set_kids set_par ekey fst snd].
  - rewrite upd_same. reflexivity.
  - rewrite upd_other by (intros E'; apply Hne; symmetry; exact E'). reflexivity.
Qed.

(* ---------- canonical list of the entries of one donor ---------- *)
Definition canon (news l : list id) (q : id) : list entry :=
  map (fun x => (x, (index_of x l, q))) (filter (fun x => memb x news) l).

Lemma index_of_inj l a b : In a l -> In b l -> index_of a l = index_of b l -> a = b.
Proof.
  induction l as [|y l IH]; cbn [index_of]; intros Ha Hb E; [contradiction|].
  destruct (Nat.eqb_spec a y) as [->|Hay]; destruct (Nat.eqb_spec b y) as [->|Hby]; try reflexivity; try discriminate.
  apply IH; [destruct Ha; [congruence|assumption]|destruct Hb; [congruence|assumption]|congruence].
Qed.

Lemma canon_sorted news q (f := fun x => memb x news) : forall l2 l1, NoDup (l1 ++ l2) ->
  sorted_le (map (fun x => (x, (index_of x (l1 ++ l2), q))) (filter f l2)).
Proof.
  unfold sorted_le. induction l2 as [|y l2 IH]; intros l1 Hnd; cbn [filter map]; [constructor|].
  assert (E' : l1 ++ y :: l2 = (l1 ++ [y]) ++ l2) by (rewrite <- app_assoc; reflexivity).
  assert (IH' := IH (l1 ++ [y])). rewrite <- E' in IH'. specialize (IH' Hnd).
  destruct (f y); [|exact IH']. cbn [map]. constructor; [exact IH'|].
  rewrite Forall_forall. intros e He. apply in_map_iff in He as [x [<- Hx]].
  apply filter_In in Hx as [Hx _]. unfold ekey; cbn [fst snd].
  assert (Hy1 : ~ In y l1).
  { apply NoDup_remove_2 in Hnd. intros H. apply Hnd. apply in_or_app. left. exact H. }
  assert (Hx1 : ~ In x l1).
  { intros H. revert Hnd H Hx. clear. induction l1 as [|z l1 IH]; cbn; intros Hnd H Hx; [contradiction|].
    inversion Hnd as [|? ? Hz Hnd']; subst. destruct H as [->|H]; [|apply IH; assumption].
    apply Hz. apply in_or_app. right. right. exact Hx. }
  rewrite (index_of_app_r y l1 (y :: l2) Hy1), (index_of_app_r x l1 (y :: l2) Hx1), index_of_head. lia.
Qed.

Lemma donors_In s news e :
  In e (donors s news) <->
  exists x q, In x news /\ par s x = Some q /\ e = (x, (index_of x (kids s q), q)).
Proof.
  unfold donors. rewrite in_flat_map. split.
  - intros [x [Hx He]]. destruct (par s x) as [q|] eqn:E; [|contradiction].
    destruct He as [<-|[]]. exists x, q. auto.
  - intros [x [q [Hx [E ->]]]]. exists x. split; [exact Hx|]. rewrite E. left. reflexivity.
Qed.

Lemma donors_fst_sub s news x : In x (map fst (donors s news)) -> In x news.
Proof.
  intros H. apply in_map_iff in H as [e [<- He]]. apply donors_In in He as [y [q [Hy [_ ->]]]]. exact Hy.
Qed.

Lemma donors_fst_nodup s news : NoDup news -> NoDup (map fst (donors s news)).
Proof.
  induction news as [|x news IH]; intros Hnd; [constructor|].
  inversion Hnd as [|? ? Hx Hnd']; subst.
  change (donors s (x :: news)) with
    ((match par s x with Some q => [(x, (index_of x (kids s q), q))] | None => [] end) ++ donors s news).
  rewrite map_app. destruct (par s x) as [q|]; cbn [map app fst]; [|apply IH; exact Hnd'].
  constructor; [|apply IH; exact Hnd']. intros H. apply Hx. apply (donors_fst_sub s news x H).
Qed.

Lemma fold_left_map_entries (l : list id) (g : id -> entry) (f : list id -> entry -> list id) : forall acc,
  fold_left f (map g l) acc = fold_left (fun a x => f a (g x)) l acc.
Proof. induction l as [|y l IH]; intros acc; cbn [map fold_left]; [reflexivity|apply IH]. Qed.

Lemma donor_entries_canon s news q :
  WF s -> NoDup news ->
  filter (eq_q q) (sort_by_idx (donors s news)) = canon news (kids s q) q.
Proof.
  intros W Hnd. pose proof (wf_nodup s W q) as Hl. pose proof (wf_link s W) as Hlink.
  assert (Hmem : forall e, In e (filter (eq_q q) (sort_by_idx (donors s news))) <-> In e (canon news (kids s q) q)).
  { intros e. rewrite filter_In, sort_by_idx_In, donors_In. unfold canon. rewrite in_map_iff. split.
    - intros [[x [q' [Hx [E ->]]]] Hq]. unfold eq_q in Hq. cbn [snd] in Hq. apply Nat.eqb_eq in Hq. subst q'.
      exists x. split; [reflexivity|]. apply filter_In. split; [apply Hlink; exact E|apply memb_In; exact Hx].
    - intros [x [<- Hx]]. apply filter_In in Hx as [Hx1 Hx2]. split.
      + exists x, q. split; [apply memb_In; exact Hx2|]. split; [apply Hlink; exact Hx1|reflexivity].
      + unfold eq_q. cbn [snd]. apply Nat.eqb_refl. }
  apply sorted_unique.
  - apply sorted_filter, sort_by_idx_sorted.
  - apply (canon_sorted news q (kids s q) []). exact Hl.
  - apply NoDup_filter_entries. apply sort_by_idx_nodup. apply (NoDup_map_inv fst). apply donors_fst_nodup. exact Hnd.
  - unfold canon. apply (NoDup_map_inv fst). rewrite map_map. cbn [fst]. rewrite map_id.
    apply NoDup_filter. exact Hl.
  - exact Hmem.
  - intros a b Ha Hb Hk. apply Hmem in Ha. apply Hmem in Hb. unfold canon in Ha, Hb.
    apply in_map_iff in Ha as [x [<- Hx]]. apply in_map_iff in Hb as [y [<- Hy]].
    apply filter_In in Hx as [Hx _]. apply filter_In in Hy as [Hy _].
    unfold ekey in Hk. cbn [fst snd] in Hk. rewrite (index_of_inj _ _ _ Hx Hy Hk). reflexivity.
Qed.

Lemma donor_restored s news q :
  WF s -> NoDup news ->
  fold_left (fun l e => insert_at (ekey e) (fst e) l)
            (filter (eq_q q) (sort_by_idx (donors s news)))
            (filter (notin news) (kids s q))
  = kids s q.
Proof.
  intros W Hnd. rewrite donor_entries_canon by assumption. unfold canon.
  rewrite fold_left_map_entries. cbn [ekey fst snd].
  exact (restore_sorted (fun x => memb x news) (kids s q) (wf_nodup s W q)).
Qed.

(* ---------- the remaining folds of the except-branch ---------- *)
Definition is_none {A} (o : option A) : bool := match o with None => true | Some _ => false end.

Lemma fold_unorphan s0 l : forall st,
  let f := fun st x => match par s0 x with None => set_par st x None | Some _ => st end in
  size (fold_left f l st) = size st
  /\ (forall q, kids (fold_left f l st) q = kids st q)
  /\ (forall y, par (fold_left f l st) y = if memb y l && is_none (par s0 y) then None else par st y).
Proof.
  induction l as [|x l IH]; intros st f; cbn [fold_left].
  - split; [reflexivity|]. split; intros; reflexivity.
  - destruct (IH (f st x)) as [H1 [H2 H3]]. fold f in H1, H2, H3.
    split; [rewrite H1; unfold f; destruct (par s0 x); reflexivity|].
    split; [intros q; rewrite H2; unfold f; destruct (par s0 x); reflexivity|].
    intros y. rewrite H3. cbn [memb existsb]. fold (memb y l). rewrite (Nat.eqb_sym y x).
    unfold f. destruct (Nat.eqb_spec x y) as [->|Hxy]; cbn [orb].
    + destruct (par s0 y) eqn:E; cbn [is_none]; rewrite ?andb_false_r, ?andb_true_r.
      * reflexivity.
      * destruct (memb y l); [reflexivity|]. cbn [par set_par]. apply upd_same.
    + destruct (memb y l && is_none (par s0 y)); [reflexivity|].
      destruct (par s0 x); [reflexivity|]. cbn [par set_par]. apply upd_other. congruence.
Qed.

Lemma fold_readopt p l : forall st,
  let f := fun st x => set_par st x (Some p) in
  size (fold_left f l st) = size st
  /\ (forall q, kids (fold_left f l st) q = kids st q)
  /\ (forall y, par (fold_left f l st) y = if memb y l then Some p else par st y).
Proof.
  induction l as [|x l IH]; intros st f; cbn [fold_left].
  - split; [reflexivity|]. split; intros; reflexivity.
  - destruct (IH (f st x)) as [H1 [H2 H3]]. fold f in H1, H2, H3.
    split; [rewrite H1; reflexivity|]. split; [intros q; rewrite H2; reflexivity|].
    intros y. rewrite H3. cbn [memb existsb]. fold (memb y l). rewrite (Nat.eqb_sym y x).
    destruct (memb y l); [rewrite orb_true_r; reflexivity|]. rewrite orb_false_r.
    unfold f. cbn [par set_par]. unfold upd. rewrite (Nat.eqb_sym y x). reflexivity.
Qed.

(* ---------- C02 for the children setter ---------- *)
Theorem children_rollback_same s p news :
  WF s -> p < size s -> valid_children s p news ->
  same (children_rollback s (assign_children s p news) p news) s.
Proof.
  intros W Hp Hv. pose proof Hv as [Hnd [Hpn Hva]].
  destruct (assign_children_spec s p news W Hp Hv) as [W' [Hs' [Hpar' [Hkp' Hkq']]]].
  set (s' := assign_children s p news) in *.
  unfold children_rollback.
  set (E := sort_by_idx (donors s news)).
  set (s1 := fold_left give_back E s').
  destruct (fold_unorphan s news s1) as [Hs2 [Hk2 Hp2]].
  set (s2 := fold_left (fun st x => match par s x with None => set_par st x None | Some _ => st end) news s1) in *.
  set (s3 := set_kids s2 p (kids s p)).
  destruct (fold_readopt p (kids s p) s3) as [Hs4 [Hk4 Hp4]].
  set (s4 := fold_left (fun st x => set_par st x (Some p)) (kids s p) s3) in *.
  assert (HE : forall e, In e E <-> exists x q, In x news /\ par s x = Some q /\ e = (x, (index_of x (kids s q), q))).
  { intros e. unfold E. rewrite sort_by_idx_In. apply donors_In. }
  assert (HEnd : NoDup (map fst E)).
  { unfold E. apply (Permutation_NoDup (l := map fst (donors s news))).
    - apply Permutation_map. clear. induction (donors s news) as [|h t IH]; [constructor|].
      cbn [sort_by_idx fold_right]. fold (sort_by_idx t).
      transitivity (h :: sort_by_idx t); [constructor; exact IH|].
      generalize (sort_by_idx t) as l. clear. induction l as [|a l IHl]; cbn [ins_by_idx]; [reflexivity|].
      destruct (Nat.leb (fst (snd h)) (fst (snd a))); [reflexivity|].
      transitivity (a :: h :: l); [constructor|constructor; exact IHl].
    - apply donors_fst_nodup. exact Hnd. }
  split.
  { rewrite Hs4. cbn [size s3 set_kids]. rewrite Hs2. unfold s1. rewrite give_back_size. exact Hs'. }
  intros y. split.
  - (* parent pointers *)
    rewrite Hp4. cbn [par s3 set_kids]. rewrite Hp2.
    destruct (memb y (kids s p)) eqn:Eyk.
    { apply memb_In in Eyk. apply (wf_link s W) in Eyk. symmetry. exact Eyk. }
    destruct (memb y news) eqn:Eyn; cbn [andb].
    + destruct (par s y) as [q|] eqn:Ey; cbn [is_none]; [|reflexivity].
      unfold s1. apply (give_back_par_hit E y (index_of y (kids s q)) q); [exact HEnd|].
      apply HE. exists y, q. split; [apply memb_In; exact Eyn|]. split; [exact Ey|reflexivity].
    + unfold s1. rewrite give_back_par_other.
      * rewrite Hpar', Eyn, Eyk. reflexivity.
      * intros e He <-. apply HE in He as [x [q [Hx [_ ->]]]]. cbn [fst] in Eyn.
        apply memb_In in Hx. congruence.
  - (* child lists *)
    rewrite Hk4. cbn [kids s3 set_kids].
    destruct (Nat.eq_dec y p) as [->|Hyp]; [apply upd_same|].
    rewrite upd_other by exact Hyp. rewrite Hk2. unfold s1. rewrite give_back_kids.
    rewrite Hkq' by exact Hyp. apply donor_restored; assumption.
Qed.
