(* Proofs about the DAG heap model (Heap/Dag.v): the invariant DWF, its preservation by every
   operation, atomicity of rejected / failing assignments, irrelevance of the assertion switch on
   accepted operations, effect and rejection lemmas, and the link to the boolean predicates of
   Spec/PC10.v.  No axioms; state equality is always pointwise. *)
From BT Require Import Base.Prelude Heap.Dag Spec.PC10.

(* ------------------------------------------------------------------------------------------ *)
(** * List facts *)

Lemma memb_In : forall x l, memb x l = true <-> In x l.
Proof.
  intros x l. unfold memb. rewrite existsb_exists. split.
  - intros [y [Hy He]]. apply Nat.eqb_eq in He. subst. exact Hy.
  - intros H. exists x. split; [exact H | apply Nat.eqb_refl].
Qed.

Lemma memb_false : forall x l, memb x l = false <-> ~ In x l.
Proof.
  intros x l. rewrite <- memb_In. destruct (memb x l).
  - split; [discriminate | intro H; exfalso; apply H; reflexivity].
  - split; [intros _ H; discriminate | reflexivity].
Qed.

Lemma memb_app : forall x a b, memb x (a ++ b) = memb x a || memb x b.
Proof. intros. unfold memb. apply existsb_app. Qed.

Lemma nodupb_NoDup : forall l, nodupb l = true <-> NoDup l.
Proof.
  induction l as [|x t IH]; cbn [nodupb].
  - split; [constructor | reflexivity].
  - rewrite andb_true_iff, negb_true_iff, memb_false, IH. split.
    + intros [H1 H2]. constructor; assumption.
    + intros H. inversion H; subst. split; assumption.
Qed.

Lemma remove1_notin : forall x l, ~ In x l -> remove1 x l = l.
Proof.
  induction l as [|y t IH]; intros H; cbn [remove1]; [reflexivity|].
  destruct (Nat.eqb x y) eqn:E.
  - apply Nat.eqb_eq in E. subst. exfalso. apply H. left. reflexivity.
  - f_equal. apply IH. intro H'. apply H. right. exact H'.
Qed.

Lemma remove1_app_notin : forall x l t, ~ In x l -> remove1 x (l ++ x :: t) = l ++ t.
Proof.
  induction l as [|y l IH]; intros t H; cbn [remove1 app].
  - rewrite Nat.eqb_refl. reflexivity.
  - destruct (Nat.eqb x y) eqn:E.
    + apply Nat.eqb_eq in E. subst. exfalso. apply H. left. reflexivity.
    + f_equal. apply IH. intro H'. apply H. right. exact H'.
Qed.

Lemma remove1_snoc : forall x l, ~ In x l -> remove1 x (l ++ [x]) = l.
Proof. intros x l H. rewrite remove1_app_notin by exact H. apply app_nil_r. Qed.

Lemma In_remove1 : forall x y l, In y (remove1 x l) -> In y l.
Proof.
  induction l as [|z t IH]; cbn [remove1]; intros H; [exact H|].
  destruct (Nat.eqb x z).
  - right. exact H.
  - destruct H as [H|H]; [left; exact H | right; apply IH; exact H].
Qed.

Lemma In_remove1_nodup : forall x y l, NoDup l -> (In y (remove1 x l) <-> In y l /\ y <> x).
Proof.
  induction l as [|z t IH]; intros Hnd; cbn [remove1].
  - split; [intros [] | intros [[] _]].
  - inversion Hnd as [|? ? Hz Ht]; subst. destruct (Nat.eqb x z) eqn:E.
    + apply Nat.eqb_eq in E. subst z. split.
      * intros H. split; [right; exact H|]. intro; subst. contradiction.
      * intros [[H|H] Hne]; [subst; contradiction | exact H].
    + apply Nat.eqb_neq in E. split.
      * intros [H|H].
        -- subst. split; [left; reflexivity | intro; subst; apply E; reflexivity].
        -- apply IH in H; [|exact Ht]. destruct H as [H1 H2]. split; [right; exact H1 | exact H2].
      * intros [[H|H] Hne]; [left; exact H | right; apply IH; [exact Ht | split; assumption]].
Qed.

Lemma NoDup_remove1 : forall x l, NoDup l -> NoDup (remove1 x l).
Proof.
  induction l as [|z t IH]; intros Hnd; cbn [remove1]; [constructor|].
  inversion Hnd as [|? ? Hz Ht]; subst. destruct (Nat.eqb x z); [exact Ht|].
  constructor; [|apply IH; exact Ht]. intro H. apply Hz. eapply In_remove1. exact H.
Qed.

Lemma NoDup_snoc : forall (x : id) l, NoDup l -> ~ In x l -> NoDup (l ++ [x]).
Proof.
  induction l as [|y t IH]; intros Hnd Hx; cbn [app].
  - constructor; [intros [] | constructor].
  - inversion Hnd; subst. constructor.
    + rewrite in_app_iff. intros [H|[H|[]]]; [contradiction | subst; apply Hx; left; reflexivity].
    + apply IH; [assumption | intro H; apply Hx; right; exact H].
Qed.

Lemma upd_same : forall {A} (f : id -> A) k v, upd f k v k = v.
Proof. intros. unfold upd. rewrite Nat.eqb_refl. reflexivity. Qed.

Lemma upd_other : forall {A} (f : id -> A) k v x, x <> k -> upd f k v x = f x.
Proof. intros A f k v x H. unfold upd. apply Nat.eqb_neq in H. rewrite H. reflexivity. Qed.

Lemma In_addl : forall l x y, In y (addl l x) <-> In y l \/ y = x.
Proof.
  intros l x y. unfold addl. destruct (memb x l) eqn:E.
  - apply memb_In in E. split; [intro H; left; exact H | intros [H|H]; [exact H | subst; exact E]].
  - rewrite in_app_iff. cbn [In]. split; intros [H|H]; auto.
    + destruct H as [H|[]]. right. symmetry. exact H.
Qed.

Lemma In_fold_addl : forall l acc y, In y (fold_left addl l acc) <-> In y acc \/ In y l.
Proof.
  induction l as [|x t IH]; intros acc y; cbn [fold_left].
  - split; [intro H; left; exact H | intros [H|[]]; exact H].
  - rewrite IH, In_addl. cbn [In]. split.
    + intros [[H|H]|H]; auto.
    + intros [H|[H|H]]; auto.
Qed.

Lemma In_dedup : forall l y, In y (dedup l) <-> In y l.
Proof. intros l y. unfold dedup. rewrite In_fold_addl. cbn [In]. tauto. Qed.

(* appending the non-members of a duplicate-free list *)
Lemma fold_addl_filter : forall news L, NoDup news ->
  fold_left addl news L = L ++ filter (fun p => negb (memb p L)) news.
Proof.
  induction news as [|p t IH]; intros L Hnd; cbn [fold_left filter].
  - symmetry. apply app_nil_r.
  - inversion Hnd as [|? ? Hp Ht]; subst. rewrite IH by exact Ht. unfold addl.
    destruct (memb p L) eqn:E; cbn [negb].
    + reflexivity.
    + rewrite <- app_assoc. cbn [app]. f_equal. f_equal.
      apply filter_ext_in. intros a Ha. rewrite memb_app. cbn [memb existsb].
      destruct (Nat.eqb a p) eqn:Eap.
      * apply Nat.eqb_eq in Eap. subst. contradiction.
      * rewrite orb_false_r. reflexivity.
Qed.

(* the undo loop on one list: remove (first occurrence) every element that was not there before *)
Definition undo_l (L0 : list id) (news : list id) (l : list id) : list id :=
  fold_left (fun l p => if memb p L0 then l else remove1 p l) news l.

Lemma undo_filter : forall news L0, NoDup news ->
  undo_l L0 news (L0 ++ filter (fun p => negb (memb p L0)) news) = L0.
Proof.
  unfold undo_l. induction news as [|p t IH]; intros L0 Hnd; cbn [fold_left filter].
  - apply app_nil_r.
  - inversion Hnd as [|? ? Hp Ht]; subst. destruct (memb p L0) eqn:E; cbn [negb].
    + apply IH. exact Ht.
    + rewrite remove1_app_notin by (apply memb_false; exact E). apply IH. exact Ht.
Qed.

Lemma undo_addl : forall news L0, NoDup news -> undo_l L0 news (fold_left addl news L0) = L0.
Proof. intros. rewrite fold_addl_filter by assumption. apply undo_filter. assumption. Qed.

Lemma filter_len_le : forall {A} (f : A -> bool) l, length (filter f l) <= length l.
Proof. induction l as [|x t IH]; cbn [filter length]; [lia|]. destruct (f x); cbn [length]; lia. Qed.

Lemma filter_length_lt : forall {A} (f : A -> bool) l m,
  In m l -> f m = false -> length (filter f l) < length l.
Proof.
  induction l as [|x t IH]; intros m Hin Hf; [destruct Hin|].
  cbn [filter length]. destruct Hin as [H|H].
  - subst. rewrite Hf. pose proof (filter_len_le f t). lia.
  - specialize (IH m H Hf). destruct (f x); cbn [length]; lia.
Qed.

Lemma exists_min : forall (r : id -> nat) l, l <> [] -> exists m, In m l /\ forall x, In x l -> r m <= r x.
Proof.
  induction l as [|a t IH]; intros Hne; [contradiction|].
  destruct t as [|b t'].
  - exists a. split; [left; reflexivity|]. intros x [H|[]]. subst. lia.
  - destruct IH as [m [Hm Hmin]]; [discriminate|].
    destruct (le_lt_dec (r a) (r m)) as [Hle|Hlt].
    + exists a. split; [left; reflexivity|]. intros x [H|H]; [subst; lia|]. specialize (Hmin x H). lia.
    + exists m. split; [right; exact Hm|]. intros x [H|H]; [subst; lia | apply Hmin; exact H].
Qed.

(* ------------------------------------------------------------------------------------------ *)
(** * The invariant *)

Record Links (s : dag) : Prop := {
  l_sym : forall p c, In p (parents s c) <-> In c (children s p);
  l_ndp : forall x, NoDup (parents s x);
  l_ndc : forall x, NoDup (children s x);
  l_bnd : forall p c, In p (parents s c) -> p < dsize s /\ c < dsize s }.

(* ghost rank: every edge goes from a lower to a higher rank *)
Definition ranked (s : dag) (r : id -> nat) : Prop := forall p c, In p (parents s c) -> r p < r c.

Definition DWF (s : dag) : Prop := Links s /\ exists r, ranked s r.

(* pointwise equality of the link structure *)
Definition same_state (s t : dag) : Prop :=
  dsize s = dsize t /\ forall x, parents s x = parents t x /\ children s x = children t x.

Lemma same_state_refl : forall s, same_state s s.
Proof. intros s. split; [reflexivity | intros x; split; reflexivity]. Qed.

Lemma DWF_init : forall n names, DWF (dinit n names).
Proof.
  intros n names. split.
  - constructor; cbn; intros; try constructor; try tauto; contradiction.
  - exists (fun _ => 0). intros p c H. destruct H.
Qed.

(* ------------------------------------------------------------------------------------------ *)
(** * add_edge *)

Lemma add_edge_size : forall s p c, dsize (add_edge s p c) = dsize s.
Proof. intros. unfold add_edge. destruct (memb p (parents s c)); reflexivity. Qed.

Lemma add_edge_name : forall s p c, dname (add_edge s p c) = dname s.
Proof. intros. unfold add_edge. destruct (memb p (parents s c)); reflexivity. Qed.

Lemma add_edge_parents_In : forall s p c q x,
  In q (parents (add_edge s p c) x) <-> In q (parents s x) \/ (q = p /\ x = c).
Proof.
  intros s p c q x. unfold add_edge. destruct (memb p (parents s c)) eqn:E.
  - apply memb_In in E. split; [auto | intros [H|[H1 H2]]; [exact H | subst; exact E]].
  - cbn [parents]. destruct (Nat.eq_dec x c) as [->|Hne].
    + rewrite upd_same, in_app_iff. cbn [In]. split.
      * intros [H|[H|[]]]; auto.
      * intros [H|[H _]]; auto.
    + rewrite upd_other by exact Hne. split; [auto | intros [H|[_ H]]; [exact H | contradiction]].
Qed.

Lemma add_edge_children_In : forall s p c y x,
  (In p (parents s c) -> In c (children s p)) ->
  (In y (children (add_edge s p c) x) <-> In y (children s x) \/ (x = p /\ y = c)).
Proof.
  intros s p c y x Hsym. unfold add_edge. destruct (memb p (parents s c)) eqn:E.
  - apply memb_In in E. split; [auto | intros [H|[H1 H2]]; [exact H | subst; apply Hsym; exact E]].
  - cbn [children]. destruct (Nat.eq_dec x p) as [->|Hne].
    + rewrite upd_same, in_app_iff. cbn [In]. split.
      * intros [H|[H|[]]]; auto.
      * intros [H|[_ H]]; auto.
    + rewrite upd_other by exact Hne. split; [auto | intros [H|[H _]]; [exact H | contradiction]].
Qed.

Lemma add_edge_Links : forall s p c, Links s -> p < dsize s -> c < dsize s -> Links (add_edge s p c).
Proof.
  intros s p c L Hp Hc.
  assert (Hs : In p (parents s c) -> In c (children s p)) by (apply (l_sym s L)).
  constructor.
  - intros q x. rewrite add_edge_parents_In, add_edge_children_In by exact Hs.
    rewrite (l_sym s L). tauto.
  - intros x. unfold add_edge. destruct (memb p (parents s c)) eqn:E; [apply (l_ndp s L)|].
    cbn [parents]. destruct (Nat.eq_dec x c) as [->|Hne].
    + rewrite upd_same. apply NoDup_snoc; [apply (l_ndp s L) | apply memb_false; exact E].
    + rewrite upd_other by exact Hne. apply (l_ndp s L).
  - intros x. unfold add_edge. destruct (memb p (parents s c)) eqn:E; [apply (l_ndc s L)|].
    cbn [children]. destruct (Nat.eq_dec x p) as [->|Hne].
    + rewrite upd_same. apply NoDup_snoc; [apply (l_ndc s L)|].
      rewrite <- (l_sym s L). apply memb_false. exact E.
    + rewrite upd_other by exact Hne. apply (l_ndc s L).
  - intros q x. rewrite add_edge_parents_In, add_edge_size. intros [H|[-> ->]].
    + apply (l_bnd s L). exact H.
    + split; assumption.
Qed.

Lemma add_edge_ranked : forall s p c r, ranked s r -> r p < r c -> ranked (add_edge s p c) r.
Proof.
  intros s p c r R Hpc q x. rewrite add_edge_parents_In. intros [H|[-> ->]]; [apply R; exact H | exact Hpc].
Qed.

(* ------------------------------------------------------------------------------------------ *)
(** * del_edge *)

Lemma del_edge_parents_In : forall s p c q x, Links s ->
  (In q (parents (del_edge s p c) x) <-> In q (parents s x) /\ ~ (q = p /\ x = c)).
Proof.
  intros s p c q x L. unfold del_edge. cbn [parents]. destruct (Nat.eq_dec x c) as [->|Hne].
  - rewrite upd_same, In_remove1_nodup by (apply (l_ndp s L)). split.
    + intros [H1 H2]. split; [exact H1 | intros [H3 _]; contradiction].
    + intros [H1 H2]. split; [exact H1 | intro; apply H2; split; [assumption | reflexivity]].
  - rewrite upd_other by exact Hne. split; [intro H; split; [exact H | intros [_ H2]; contradiction] | intros [H _]; exact H].
Qed.

Lemma del_edge_children_In : forall s p c y x, Links s ->
  (In y (children (del_edge s p c) x) <-> In y (children s x) /\ ~ (x = p /\ y = c)).
Proof.
  intros s p c y x L. unfold del_edge. cbn [children]. destruct (Nat.eq_dec x p) as [->|Hne].
  - rewrite upd_same, In_remove1_nodup by (apply (l_ndc s L)). split.
    + intros [H1 H2]. split; [exact H1 | intros [_ H3]; contradiction].
    + intros [H1 H2]. split; [exact H1 | intro; apply H2; split; [reflexivity | assumption]].
  - rewrite upd_other by exact Hne. split; [intro H; split; [exact H | intros [H2 _]; contradiction] | intros [H _]; exact H].
Qed.

Lemma del_edge_Links : forall s p c, Links s -> Links (del_edge s p c).
Proof.
  intros s p c L. constructor.
  - intros q x. rewrite del_edge_parents_In, del_edge_children_In by exact L. rewrite (l_sym s L). tauto.
  - intros x. unfold del_edge. cbn [parents]. destruct (Nat.eq_dec x c) as [->|Hne].
    + rewrite upd_same. apply NoDup_remove1. apply (l_ndp s L).
    + rewrite upd_other by exact Hne. apply (l_ndp s L).
  - intros x. unfold del_edge. cbn [children]. destruct (Nat.eq_dec x p) as [->|Hne].
    + rewrite upd_same. apply NoDup_remove1. apply (l_ndc s L).
    + rewrite upd_other by exact Hne. apply (l_ndc s L).
  - intros q x. rewrite del_edge_parents_In by exact L. intros [H _]. apply (l_bnd s L). exact H.
Qed.

Lemma del_edge_ranked : forall s p c r, Links s -> ranked s r -> ranked (del_edge s p c) r.
Proof. intros s p c r L R q x. rewrite del_edge_parents_In by exact L. intros [H _]. apply R. exact H. Qed.

Lemma del_edge_DWF : forall s p c, DWF s -> DWF (del_edge s p c).
Proof.
  intros s p c [L [r R]]. split; [apply del_edge_Links; exact L | exists r; apply del_edge_ranked; assumption].
Qed.

(* ------------------------------------------------------------------------------------------ *)
(** * Paths and the fuelled `ancestors` *)

(* a is a proper ancestor of b *)
Inductive path (s : dag) : id -> id -> Prop :=
| path1 : forall a b, In a (parents s b) -> path s a b
| pathS : forall a p b, path s a p -> In p (parents s b) -> path s a b.

(* the same with the number of edges *)
Inductive pathn (s : dag) : nat -> id -> id -> Prop :=
| pathn1 : forall a b, In a (parents s b) -> pathn s 1 a b
| pathnS : forall k a p b, pathn s k a p -> In p (parents s b) -> pathn s (S k) a b.

Lemma path_pathn : forall s a b, path s a b <-> exists k, pathn s k a b.
Proof.
  intros s a b. split.
  - induction 1 as [a b H | a p b _ [k IH] H].
    + exists 1. constructor. exact H.
    + exists (S k). econstructor; eassumption.
  - intros [k H]. induction H as [a b H | k a p b _ IH H].
    + constructor. exact H.
    + eapply pathS; eassumption.
Qed.

Lemma path_cons : forall s a m b, In a (parents s m) -> path s m b -> path s a b.
Proof.
  intros s a m b Ha H. induction H as [m b H | m p b _ IH H].
  - eapply pathS; [apply path1; exact Ha | exact H].
  - eapply pathS; [apply IH; exact Ha | exact H].
Qed.

Lemma path_trans : forall s a m b, path s a m -> path s m b -> path s a b.
Proof.
  intros s a m b H1 H2. induction H2 as [m b H | m p b _ IH H].
  - eapply pathS; eassumption.
  - eapply pathS; [apply IH; exact H1 | exact H].
Qed.

Lemma path_rank : forall s r a b, ranked s r -> path s a b -> r a < r b.
Proof.
  intros s r a b R H. induction H as [a b H | a p b _ IH H].
  - apply R. exact H.
  - specialize (R _ _ H). lia.
Qed.

Lemma anc_raw_sound : forall s f a b, In a (anc_raw s f b) -> path s a b.
Proof.
  induction f as [|f IH]; intros a b H; cbn [anc_raw] in H; [destruct H|].
  apply in_flat_map in H. destruct H as [p [Hp H]]. apply in_app_iff in H. destruct H as [H|[H|[]]].
  - eapply pathS; [apply IH; exact H | exact Hp].
  - subst. apply path1. exact Hp.
Qed.

Lemma anc_raw_complete : forall s k a b, pathn s k a b -> forall f, k <= f -> In a (anc_raw s f b).
Proof.
  induction 1 as [a b H | k a p b _ IH H]; intros f Hf.
  - destruct f as [|f]; [lia|]. cbn [anc_raw]. apply in_flat_map. exists a. split; [exact H|].
    apply in_app_iff. right. left. reflexivity.
  - destruct f as [|f]; [lia|]. cbn [anc_raw]. apply in_flat_map. exists p. split; [exact H|].
    apply in_app_iff. left. apply IH. lia.
Qed.

(* a path visits pairwise different live objects: it has fewer edges than there are objects *)
Lemma pathn_bound : forall s r k a b, Links s -> ranked s r -> pathn s k a b -> k < dsize s.
Proof.
  intros s r k a b L R H.
  assert (Hl : exists l, length l = S k /\ NoDup l /\ forall x, In x l -> x < dsize s /\ r x <= r b).
  { induction H as [a b H | k a p b _ IH H].
    - exists [b; a]. split; [reflexivity|]. pose proof (R _ _ H) as Hr. pose proof (l_bnd s L _ _ H) as [Ha Hb].
      split.
      + constructor; [intros [E|[]]; subst; lia | constructor; [intros [] | constructor]].
      + intros x [E|[E|[]]]; subst; split; try assumption; lia.
    - destruct IH as [l [Hlen [Hnd Hall]]]. exists (b :: l).
      pose proof (R _ _ H) as Hr. pose proof (l_bnd s L _ _ H) as [Hp Hb].
      split; [cbn [length]; rewrite Hlen; reflexivity|]. split.
      + constructor; [|exact Hnd]. intro Hin. apply Hall in Hin. lia.
      + intros x [E|Hin]; [subst; split; [assumption | lia]|]. apply Hall in Hin. split; [tauto | lia]. }
  destruct Hl as [l [Hlen [Hnd Hall]]].
  assert (Hincl : incl l (seq 0 (dsize s))).
  { intros x Hx. apply in_seq. apply Hall in Hx. lia. }
  pose proof (NoDup_incl_length Hnd Hincl) as Hle. rewrite seq_length in Hle. lia.
Qed.

(* the fuel `dsize s` is never exhausted on a well-formed state *)
Theorem ancestors_spec : forall s a b, DWF s -> (In a (dag_ancestors s b) <-> path s a b).
Proof.
  intros s a b [L [r R]]. unfold dag_ancestors. rewrite In_dedup. split.
  - apply anc_raw_sound.
  - intros H. apply path_pathn in H. destruct H as [k H].
    eapply anc_raw_complete; [exact H|]. pose proof (pathn_bound s r k a b L R H). lia.
Qed.

Lemma ancestors_memb : forall s a b, DWF s -> (memb a (dag_ancestors s b) = true <-> path s a b).
Proof. intros. rewrite memb_In. apply ancestors_spec. assumption. Qed.

Lemma ancestors_memb_false : forall s a b, DWF s -> (memb a (dag_ancestors s b) = false <-> ~ path s a b).
Proof. intros s a b W. rewrite memb_false, ancestors_spec by exact W. tauto. Qed.

Theorem no_self_ancestor : forall s x, DWF s -> ~ In x (dag_ancestors s x).
Proof.
  intros s x W H. apply ancestors_spec in H; [|exact W]. destruct W as [_ [r R]].
  pose proof (path_rank s r x x R H). lia.
Qed.

(* ------------------------------------------------------------------------------------------ *)
(** * Re-ranking: lift a set that is closed under "child of" *)

Lemma rerank : forall s r (inD : id -> bool) M,
  ranked s r ->
  (forall u v, inD u = true -> In u (parents s v) -> inD v = true) ->
  ranked s (fun x => if inD x then r x + M else r x).
Proof.
  intros s r inD M R Hcl u v H. pose proof (R _ _ H) as Hr. cbv beta.
  destruct (inD u) eqn:Eu.
  - rewrite (Hcl _ _ Eu H). lia.
  - destruct (inD v); lia.
Qed.

(* descendant-or-self of one of xs *)
Definition below (s : dag) (xs : list id) (y : id) : bool :=
  existsb (fun x => Nat.eqb y x || memb x (dag_ancestors s y)) xs.

Lemma below_closed : forall s xs u v, DWF s -> below s xs u = true -> In u (parents s v) -> below s xs v = true.
Proof.
  intros s xs u v W Hu Huv. unfold below in *. rewrite existsb_exists in *.
  destruct Hu as [x [Hx Hu]]. exists x. split; [exact Hx|]. apply orb_true_iff. right.
  apply ancestors_memb; [exact W|]. apply orb_true_iff in Hu. destruct Hu as [Hu|Hu].
  - apply Nat.eqb_eq in Hu. subst. apply path1. exact Huv.
  - apply ancestors_memb in Hu; [|exact W]. eapply pathS; eassumption.
Qed.

Lemma below_self : forall s xs x, In x xs -> below s xs x = true.
Proof.
  intros s xs x H. unfold below. rewrite existsb_exists. exists x. split; [exact H|].
  rewrite Nat.eqb_refl. reflexivity.
Qed.

Fixpoint maxl (l : list nat) : nat := match l with [] => 0 | x :: t => Nat.max x (maxl t) end.
Lemma maxl_ge : forall l x, In x l -> x <= maxl l.
Proof.
  induction l as [|y t IH]; intros x H; [destruct H|]. cbn [maxl]. destruct H as [H|H].
  - subst. lia.
  - specialize (IH x H). lia.
Qed.

(* ------------------------------------------------------------------------------------------ *)
(** * What the guards establish *)

Lemma check_parent_loop_ok : forall s c args seen, check_parent_loop s c args seen = None ->
  has_junk args = false /\ NoDup (ids_of args) /\
  forall p, In p (ids_of args) -> p <> c /\ memb c (dag_ancestors s p) = false /\ ~ In p seen.
Proof.
  induction args as [|a t IH]; intros seen H; cbn [check_parent_loop] in H.
  - cbn. split; [reflexivity|]. split; [constructor | intros p []].
  - destruct a as [p| |]; try discriminate.
    destruct (Nat.eqb p c) eqn:E1; [discriminate|].
    destruct (memb c (dag_ancestors s p)) eqn:E2; [discriminate|].
    destruct (memb p seen) eqn:E3; [discriminate|].
    apply IH in H. destruct H as [Hj [Hnd Hall]]. cbn [has_junk ids_of]. split; [exact Hj|]. split.
    + constructor; [|exact Hnd]. intro Hin. apply Hall in Hin. destruct Hin as [_ [_ Hs]]. apply Hs. left. reflexivity.
    + intros q [Hq|Hq].
      * subst q. split; [apply Nat.eqb_neq; exact E1|]. split; [exact E2 | apply memb_false; exact E3].
      * apply Hall in Hq. destruct Hq as [H1 [H2 H3]]. split; [exact H1|]. split; [exact H2|].
        intro Hs. apply H3. right. exact Hs.
Qed.

Lemma check_children_loop_ok : forall s p args seen, check_children_loop s p args seen = None ->
  has_junk args = false /\ NoDup (ids_of args) /\
  forall x, In x (ids_of args) -> x <> p /\ memb x (dag_ancestors s p) = false /\ ~ In x seen.
Proof.
  induction args as [|a t IH]; intros seen H; cbn [check_children_loop] in H.
  - cbn. split; [reflexivity|]. split; [constructor | intros x []].
  - destruct a as [x| |]; try discriminate.
    destruct (Nat.eqb x p) eqn:E1; [discriminate|].
    destruct (memb x (dag_ancestors s p)) eqn:E2; [discriminate|].
    destruct (memb x seen) eqn:E3; [discriminate|].
    apply IH in H. destruct H as [Hj [Hnd Hall]]. cbn [has_junk ids_of]. split; [exact Hj|]. split.
    + constructor; [|exact Hnd]. intro Hin. apply Hall in Hin. destruct Hin as [_ [_ Hs]]. apply Hs. left. reflexivity.
    + intros q [Hq|Hq].
      * subst q. split; [apply Nat.eqb_neq; exact E1|]. split; [exact E2 | apply memb_false; exact E3].
      * apply Hall in Hq. destruct Hq as [H1 [H2 H3]]. split; [exact H1|]. split; [exact H2|].
        intro Hs. apply H3. right. exact Hs.
Qed.

Lemma ids_in_range : forall s args, forallb (darg_in_range s) args = true ->
  forall x, In x (ids_of args) -> x < dsize s.
Proof.
  induction args as [|a t IH]; intros H x Hx; [destruct Hx|].
  cbn [forallb] in H. apply andb_true_iff in H. destruct H as [Ha Ht].
  destruct a as [i| |]; cbn [ids_of] in Hx; try (apply IH; assumption).
  destruct Hx as [Hx|Hx]; [subst; apply Nat.ltb_lt; exact Ha | apply IH; assumption].
Qed.

(* ------------------------------------------------------------------------------------------ *)
(** * The assignment loops preserve the invariant *)

Lemma assign_parents_size : forall news s c, dsize (assign_parents s c news) = dsize s.
Proof.
  unfold assign_parents. induction news as [|p t IH]; intros s c; cbn [fold_left]; [reflexivity|].
  rewrite IH. apply add_edge_size.
Qed.

Lemma assign_children_size : forall news s p, dsize (assign_children s p news) = dsize s.
Proof.
  unfold assign_children. induction news as [|x t IH]; intros s p; cbn [fold_left]; [reflexivity|].
  rewrite IH. apply add_edge_size.
Qed.

Lemma assign_parents_inv : forall news s c r, Links s -> ranked s r -> c < dsize s ->
  (forall p, In p news -> p < dsize s /\ r p < r c) ->
  Links (assign_parents s c news) /\ ranked (assign_parents s c news) r.
Proof.
  unfold assign_parents. induction news as [|p t IH]; intros s c r L R Hc Hall; cbn [fold_left]; [split; assumption|].
  destruct (Hall p (or_introl eq_refl)) as [Hp Hr].
  apply IH.
  - apply add_edge_Links; assumption.
  - apply add_edge_ranked; assumption.
  - rewrite add_edge_size. exact Hc.
  - intros q Hq. rewrite add_edge_size. apply Hall. right. exact Hq.
Qed.

Lemma assign_children_inv : forall news s p r, Links s -> ranked s r -> p < dsize s ->
  (forall x, In x news -> x < dsize s /\ r p < r x) ->
  Links (assign_children s p news) /\ ranked (assign_children s p news) r.
Proof.
  unfold assign_children. induction news as [|x t IH]; intros s p r L R Hp Hall; cbn [fold_left]; [split; assumption|].
  destruct (Hall x (or_introl eq_refl)) as [Hx Hr].
  apply IH.
  - apply add_edge_Links; assumption.
  - apply add_edge_ranked; assumption.
  - rewrite add_edge_size. exact Hp.
  - intros q Hq. rewrite add_edge_size. apply Hall. right. exact Hq.
Qed.

Lemma assign_parents_DWF : forall s c cont args, DWF s -> c < dsize s ->
  forallb (darg_in_range s) args = true -> check_parents s c cont args = None ->
  DWF (assign_parents s c (ids_of args)).
Proof.
  intros s c cont args W Hc Hrange Hchk. pose proof W as [L [r R]].
  unfold check_parents in Hchk. destruct cont; try discriminate.
  apply check_parent_loop_ok in Hchk. destruct Hchk as [_ [_ Hall]].
  set (M := S (maxl (map r (ids_of args)))).
  set (r' := fun x => if below s [c] x then r x + M else r x).
  assert (R' : ranked s r').
  { apply rerank; [exact R|]. intros u v. apply below_closed. exact W. }
  destruct (assign_parents_inv (ids_of args) s c r' L R' Hc) as [L2 R2].
  - intros p Hp. split; [eapply ids_in_range; eassumption|].
    destruct (Hall p Hp) as [Hne [Hanc _]]. unfold r'.
    rewrite (below_self s [c] c) by (left; reflexivity).
    assert (Hb : below s [c] p = false).
    { unfold below. cbn [existsb]. rewrite Hanc, orb_false_r, orb_false_r. apply Nat.eqb_neq. exact Hne. }
    rewrite Hb. assert (r p <= maxl (map r (ids_of args))) by (apply maxl_ge; apply in_map; exact Hp).
    unfold M. lia.
  - split; [exact L2 | exists r'; exact R2].
Qed.

Lemma assign_children_DWF : forall s p args, DWF s -> p < dsize s ->
  forallb (darg_in_range s) args = true -> check_children_loop s p args [] = None ->
  DWF (assign_children s p (ids_of args)).
Proof.
  intros s p args W Hp Hrange Hchk'. pose proof W as [L [r R]].
  apply check_children_loop_ok in Hchk'. destruct Hchk' as [_ [_ Hall]].
  set (M := S (r p)).
  set (r' := fun x => if below s (ids_of args) x then r x + M else r x).
  assert (R' : ranked s r').
  { apply rerank; [exact R|]. intros u v. apply below_closed. exact W. }
  destruct (assign_children_inv (ids_of args) s p r' L R' Hp) as [L2 R2].
  - intros x Hx. split; [eapply ids_in_range; eassumption|]. unfold r'.
    rewrite (below_self s (ids_of args) x Hx).
    assert (Hb : below s (ids_of args) p = false).
    { unfold below. apply not_true_is_false. intro Hex. apply existsb_exists in Hex.
      destruct Hex as [y [Hy Hex]]. destruct (Hall y Hy) as [Hne [Hanc _]].
      rewrite Hanc, orb_false_r in Hex. apply Nat.eqb_eq in Hex. apply Hne. symmetry. exact Hex. }
    rewrite Hb. unfold M. lia.
  - split; [exact L2 | exists r'; exact R2].
Qed.

(* the undo loops only delete edges *)
Lemma parents_rollback_DWF : forall news s0 s c, DWF s -> DWF (parents_rollback s0 s c news).
Proof.
  unfold parents_rollback. induction news as [|p t IH]; intros s0 s c W; cbn [fold_left]; [exact W|].
  apply IH. destruct (memb p (parents s0 c)); [exact W | apply del_edge_DWF; exact W].
Qed.

Lemma children_rollback_DWF : forall news s0 s p, DWF s -> DWF (children_rollback s0 s p news).
Proof.
  unfold children_rollback. induction news as [|x t IH]; intros s0 s p W; cbn [fold_left]; [exact W|].
  apply IH. destruct (memb x (children s0 p)); [exact W | apply del_edge_DWF; exact W].
Qed.

Lemma set_parents_DWF : forall cfg ft s c cont args, DWF s -> c < dsize s ->
  forallb (darg_in_range s) args = true -> DWF (fst (set_parents cfg ft s c cont args)).
Proof.
  intros cfg ft s c cont args W Hc Hr. unfold set_parents.
  destruct (check_parents s c cont args) eqn:Hchk; [exact W|].
  destruct (dfault_eqb ft DPreFail); [exact W|].
  pose proof (assign_parents_DWF s c cont args W Hc Hr Hchk) as W2.
  destruct (dfault_eqb ft DPostFail); cbn [fst]; [apply parents_rollback_DWF; exact W2 | exact W2].
Qed.

Lemma set_children_DWF : forall cfg ft s p cont args, DWF s -> p < dsize s ->
  forallb (darg_in_range s) args = true -> DWF (fst (set_children cfg ft s p cont args)).
Proof.
  intros cfg ft s p cont args W Hp Hr. unfold set_children.
  destruct (materialise cont); [exact W|].
  destruct (check_children_loop s p args []) eqn:Hchk; [exact W|].
  destruct (dfault_eqb ft DPreFail); [exact W|].
  pose proof (assign_children_DWF s p args W Hp Hr Hchk) as W2.
  destruct (dfault_eqb ft DPostFail); cbn [fst]; [apply children_rollback_DWF; exact W2 | exact W2].
Qed.

Lemma set_parents_size : forall cfg ft s c cont args, dsize (fst (set_parents cfg ft s c cont args)) = dsize s.
Proof.
  intros. unfold set_parents. destruct (check_parents s c cont args); [reflexivity|].
  destruct (dfault_eqb ft DPreFail); [reflexivity|].
  assert (Hrb : forall news s0 st, dsize (parents_rollback s0 st c news) = dsize st).
  { unfold parents_rollback. induction news as [|p t IH]; intros s0 st; cbn [fold_left]; [reflexivity|].
    rewrite IH. destruct (memb p (parents s0 c)); reflexivity. }
  destruct (dfault_eqb ft DPostFail); cbn [fst]; [rewrite Hrb|]; apply assign_parents_size.
Qed.

Lemma set_children_size : forall cfg ft s p cont args, dsize (fst (set_children cfg ft s p cont args)) = dsize s.
Proof.
  intros. unfold set_children. destruct (materialise cont); [reflexivity|].
  destruct (check_children_loop s p args []); [reflexivity|].
  destruct (dfault_eqb ft DPreFail); [reflexivity|].
  assert (Hrb : forall news s0 st, dsize (children_rollback s0 st p news) = dsize st).
  { unfold children_rollback. induction news as [|x t IH]; intros s0 st; cbn [fold_left]; [reflexivity|].
    rewrite IH. destruct (memb x (children s0 p)); reflexivity. }
  destruct (dfault_eqb ft DPostFail); cbn [fst]; [rewrite Hrb|]; apply assign_children_size.
Qed.

(* deletions *)
Lemma del_children_DWF : forall s p, DWF s -> DWF (del_children s p).
Proof.
  intros s p. unfold del_children. generalize (children s p) as l. intros l. revert s.
  induction l as [|c t IH]; intros s W; cbn [fold_left]; [exact W|]. apply IH. apply del_edge_DWF. exact W.
Qed.

Lemma del_item_DWF : forall s p nm, DWF s -> DWF (fst (del_item s p nm)).
Proof.
  intros s p nm W. unfold del_item. destruct (filter _ _) as [|c [|c' t]]; cbn [fst]; try exact W.
  apply del_edge_DWF. exact W.
Qed.

(* constructor *)
Lemma alloc_DWF : forall s nm, DWF s -> DWF (alloc s nm).
Proof.
  intros s nm [L [r R]]. set (x := dsize s).
  assert (Hnop : forall q, ~ In q (parents s x)).
  { intros q H. apply (l_bnd s L) in H. unfold x in H. lia. }
  assert (Hnoc : forall q, ~ In x (parents s q)).
  { intros q H. apply (l_bnd s L) in H. unfold x in H. lia. }
  assert (HP : forall q y, In q (parents (alloc s nm) y) <-> In q (parents s y)).
  { intros q y. unfold alloc. cbn [parents]. fold x. destruct (Nat.eq_dec y x) as [->|Hne].
    - rewrite upd_same. split; [intros [] | intro H; exfalso; eapply Hnop; exact H].
    - rewrite upd_other by exact Hne. tauto. }
  assert (HC : forall q y, In q (children (alloc s nm) y) <-> In q (children s y)).
  { intros q y. unfold alloc. cbn [children]. fold x. destruct (Nat.eq_dec y x) as [->|Hne].
    - rewrite upd_same. split; [intros [] | intro H; exfalso; apply (l_sym s L) in H; eapply Hnoc; exact H].
    - rewrite upd_other by exact Hne. tauto. }
  split.
  - constructor.
    + intros p c. rewrite HP, HC. apply (l_sym s L).
    + intros y. unfold alloc. cbn [parents]. fold x. destruct (Nat.eq_dec y x) as [->|Hne].
      * rewrite upd_same. constructor.
      * rewrite upd_other by exact Hne. apply (l_ndp s L).
    + intros y. unfold alloc. cbn [children]. fold x. destruct (Nat.eq_dec y x) as [->|Hne].
      * rewrite upd_same. constructor.
      * rewrite upd_other by exact Hne. apply (l_ndc s L).
    + intros p c. rewrite HP. intro H. apply (l_bnd s L) in H. unfold alloc. cbn [dsize]. lia.
  - exists r. intros p c. rewrite HP. apply R.
Qed.

Lemma range_mono : forall s s' args, dsize s <= dsize s' ->
  forallb (darg_in_range s) args = true -> forallb (darg_in_range s') args = true.
Proof.
  intros s s' args Hle H. rewrite forallb_forall in *. intros a Ha. specialize (H a Ha).
  destruct a as [i| |]; cbn [darg_in_range] in *; try reflexivity.
  unfold d_in_range in *. apply Nat.ltb_lt in H. apply Nat.ltb_lt. lia.
Qed.

Lemma construct_DWF : forall cfg s nm pa ca ftp ftc, DWF s ->
  forallb (darg_in_range s) (carg_args pa) = true -> forallb (darg_in_range s) (carg_args ca) = true ->
  DWF (fst (construct cfg s nm pa ca ftp ftc)).
Proof.
  intros cfg s nm pa ca ftp ftc W Hp Hc. unfold construct.
  pose proof (alloc_DWF s nm W) as W1.
  assert (Hsz : dsize (alloc s nm) = S (dsize s)) by reflexivity.
  pose proof (set_parents_DWF cfg ftp (alloc s nm) (dsize s) (carg_cont pa) (carg_args pa) W1) as W2.
  pose proof (set_parents_size cfg ftp (alloc s nm) (dsize s) (carg_cont pa) (carg_args pa)) as S2.
  destruct (set_parents cfg ftp (alloc s nm) (dsize s) (carg_cont pa) (carg_args pa)) as [s2 o2].
  cbn [fst] in *.
  assert (W2' : DWF s2).
  { apply W2; [lia|]. eapply range_mono; [|exact Hp]. lia. }
  destruct o2; [|exact W2'].
  apply set_children_DWF; [exact W2' | lia |]. eapply range_mono; [|exact Hc]. lia.
Qed.

(** * Every operation preserves the invariant *)
Theorem dstep_DWF : forall cfg s o, DWF s -> DWF (fst (dstep cfg s o)).
Proof.
  intros cfg s o W. unfold dstep. destruct (dop_in_range s o) eqn:Hr; cbn [negb]; [|exact W].
  destruct o as [c cont args ft | p cont args ft | p | p nm | p c ft | c p ft | nm pa ca ftp ftc];
    cbn [dop_in_range] in Hr.
  - apply andb_true_iff in Hr. destruct Hr as [H1 H2]. apply set_parents_DWF; [exact W | apply Nat.ltb_lt; exact H1 | exact H2].
  - apply andb_true_iff in Hr. destruct Hr as [H1 H2]. apply set_children_DWF; [exact W | apply Nat.ltb_lt; exact H1 | exact H2].
  - cbn [fst]. apply del_children_DWF. exact W.
  - apply del_item_DWF. exact W.
  - apply andb_true_iff in Hr. destruct Hr as [H1 H2]. apply set_parents_DWF; [exact W | apply Nat.ltb_lt; exact H2 |].
    cbn [forallb darg_in_range]. rewrite H1. reflexivity.
  - apply andb_true_iff in Hr. destruct Hr as [H1 H2]. apply set_parents_DWF; [exact W | apply Nat.ltb_lt; exact H2 |].
    cbn [forallb darg_in_range]. rewrite H1. reflexivity.
  - apply andb_true_iff in Hr. destruct Hr as [H1 H2]. apply construct_DWF; assumption.
Qed.

Theorem drun_DWF : forall cfg ops s, DWF s -> DWF (drun cfg s ops).
Proof.
  unfold drun. induction ops as [|o t IH]; intros s W; cbn [fold_left]; [exact W|].
  apply IH. apply dstep_DWF. exact W.
Qed.

(* ------------------------------------------------------------------------------------------ *)
(** * Atomicity: the except-branches restore every list exactly (order included) *)

Lemma memb_iff : forall a l b m, (In a l <-> In b m) -> memb a l = memb b m.
Proof.
  intros a l b m H. destruct (memb a l) eqn:E1, (memb b m) eqn:E2; try reflexivity.
  - apply memb_In in E1. apply H in E1. apply memb_In in E1. congruence.
  - apply memb_In in E2. apply H in E2. apply memb_In in E2. congruence.
Qed.

Lemma memb_cons : forall x y t, memb x (y :: t) = Nat.eqb x y || memb x t.
Proof. reflexivity. Qed.

(* parents setter: the try-block in closed form *)
Lemma ap_parents_c : forall news s c, parents (assign_parents s c news) c = fold_left addl news (parents s c).
Proof.
  unfold assign_parents. induction news as [|p t IH]; intros s c; cbn [fold_left]; [reflexivity|].
  rewrite IH. f_equal. unfold add_edge, addl. destruct (memb p (parents s c)); [reflexivity|].
  cbn [parents]. apply upd_same.
Qed.

Lemma ap_parents_other : forall news s c x, x <> c -> parents (assign_parents s c news) x = parents s x.
Proof.
  unfold assign_parents. induction news as [|p t IH]; intros s c x Hne; cbn [fold_left]; [reflexivity|].
  rewrite IH by exact Hne. unfold add_edge. destruct (memb p (parents s c)); [reflexivity|].
  cbn [parents]. apply upd_other. exact Hne.
Qed.

Lemma ap_children : forall news s c x, NoDup news ->
  children (assign_parents s c news) x =
  if memb x news && negb (memb x (parents s c)) then children s x ++ [c] else children s x.
Proof.
  unfold assign_parents. induction news as [|p t IH]; intros s c x Hnd; cbn [fold_left]; [reflexivity|].
  inversion Hnd as [|? ? Hp Ht]; subst. rewrite IH by exact Ht. rewrite memb_cons.
  unfold add_edge. destruct (memb p (parents s c)) eqn:E.
  - destruct (Nat.eqb x p) eqn:Exp; cbn [orb]; [|reflexivity].
    apply Nat.eqb_eq in Exp. subst x. rewrite E. apply memb_false in Hp. rewrite Hp. reflexivity.
  - cbn [parents children]. rewrite upd_same. destruct (Nat.eqb x p) eqn:Exp; cbn [orb].
    + apply Nat.eqb_eq in Exp. subst x. apply memb_false in Hp. rewrite Hp, E, upd_same. reflexivity.
    + apply Nat.eqb_neq in Exp. rewrite upd_other by exact Exp. rewrite memb_app. cbn [memb existsb].
      apply Nat.eqb_neq in Exp. rewrite Exp. rewrite !orb_false_r. reflexivity.
Qed.

(* parents setter: the except-block in closed form *)
Lemma prb_parents_c : forall news s0 st c,
  parents (parents_rollback s0 st c news) c = undo_l (parents s0 c) news (parents st c).
Proof.
  unfold parents_rollback, undo_l. induction news as [|p t IH]; intros s0 st c; cbn [fold_left]; [reflexivity|].
  rewrite IH. f_equal. destruct (memb p (parents s0 c)); [reflexivity|]. unfold del_edge. cbn [parents]. apply upd_same.
Qed.

Lemma prb_parents_other : forall news s0 st c x, x <> c -> parents (parents_rollback s0 st c news) x = parents st x.
Proof.
  unfold parents_rollback. induction news as [|p t IH]; intros s0 st c x Hne; cbn [fold_left]; [reflexivity|].
  rewrite IH by exact Hne. destruct (memb p (parents s0 c)); [reflexivity|]. unfold del_edge. cbn [parents].
  apply upd_other. exact Hne.
Qed.

Lemma prb_children : forall news s0 st c x, NoDup news ->
  children (parents_rollback s0 st c news) x =
  if memb x news && negb (memb x (parents s0 c)) then remove1 c (children st x) else children st x.
Proof.
  unfold parents_rollback. induction news as [|p t IH]; intros s0 st c x Hnd; cbn [fold_left]; [reflexivity|].
  inversion Hnd as [|? ? Hp Ht]; subst. rewrite IH by exact Ht. rewrite memb_cons.
  destruct (memb p (parents s0 c)) eqn:E.
  - destruct (Nat.eqb x p) eqn:Exp; cbn [orb]; [|reflexivity].
    apply Nat.eqb_eq in Exp. subst x. rewrite E. apply memb_false in Hp. rewrite Hp. reflexivity.
  - unfold del_edge. cbn [children]. destruct (Nat.eqb x p) eqn:Exp; cbn [orb].
    + apply Nat.eqb_eq in Exp. subst x. apply memb_false in Hp. rewrite Hp, E, upd_same. reflexivity.
    + apply Nat.eqb_neq in Exp. rewrite upd_other by exact Exp. reflexivity.
Qed.

Lemma set_parents_atomic : forall cfg ft s c cont args, DWF s ->
  snd (set_parents cfg ft s c cont args) <> Ok -> same_state (fst (set_parents cfg ft s c cont args)) s.
Proof.
  intros cfg ft s c cont args [L _] Herr. unfold set_parents in *.
  destruct (check_parents s c cont args) eqn:Hchk; [apply same_state_refl|].
  destruct (dfault_eqb ft DPreFail); [apply same_state_refl|].
  destruct (dfault_eqb ft DPostFail); cbn [fst snd] in *; [|contradiction].
  assert (Hnd : NoDup (ids_of args)).
  { unfold check_parents in Hchk. destruct cont; try discriminate.
    apply check_parent_loop_ok in Hchk. tauto. }
  set (news := ids_of args) in *. split.
  - assert (Hrb : forall news0 s0 st, dsize (parents_rollback s0 st c news0) = dsize st).
    { unfold parents_rollback. induction news0 as [|p t IH]; intros s0 st; cbn [fold_left]; [reflexivity|].
      rewrite IH. destruct (memb p (parents s0 c)); reflexivity. }
    rewrite Hrb. apply assign_parents_size.
  - intros x. split.
    + destruct (Nat.eq_dec x c) as [->|Hne].
      * rewrite prb_parents_c, ap_parents_c. apply undo_addl. exact Hnd.
      * rewrite prb_parents_other, ap_parents_other by exact Hne. reflexivity.
    + rewrite prb_children, ap_children by exact Hnd.
      destruct (memb x news && negb (memb x (parents s c))) eqn:E; [|reflexivity].
      apply andb_true_iff in E. destruct E as [_ E]. apply negb_true_iff, memb_false in E.
      apply remove1_snoc. rewrite <- (l_sym s L). exact E.
Qed.

(* children setter: the try-block in closed form *)
Lemma ac_children_p : forall news s p, NoDup news ->
  children (assign_children s p news) p =
  children s p ++ filter (fun x => negb (memb p (parents s x))) news.
Proof.
  unfold assign_children. induction news as [|x t IH]; intros s p Hnd; cbn [fold_left filter].
  - symmetry. apply app_nil_r.
  - inversion Hnd as [|? ? Hx Ht]; subst. rewrite IH by exact Ht.
    assert (Hext : filter (fun y => negb (memb p (parents (add_edge s p x) y))) t
                   = filter (fun y => negb (memb p (parents s y))) t).
    { apply filter_ext_in. intros y Hy. unfold add_edge. destruct (memb p (parents s x)); [reflexivity|].
      cbn [parents]. rewrite upd_other; [reflexivity|]. intro; subst. contradiction. }
    rewrite Hext. unfold add_edge. destruct (memb p (parents s x)) eqn:E; cbn [negb]; [reflexivity|].
    cbn [children]. rewrite upd_same, <- app_assoc. reflexivity.
Qed.

Lemma ac_children_other : forall news s p q, q <> p -> children (assign_children s p news) q = children s q.
Proof.
  unfold assign_children. induction news as [|x t IH]; intros s p q Hne; cbn [fold_left]; [reflexivity|].
  rewrite IH by exact Hne. unfold add_edge. destruct (memb p (parents s x)); [reflexivity|].
  cbn [children]. apply upd_other. exact Hne.
Qed.

Lemma ac_parents : forall news s p x, NoDup news ->
  parents (assign_children s p news) x =
  if memb x news && negb (memb p (parents s x)) then parents s x ++ [p] else parents s x.
Proof.
  unfold assign_children. induction news as [|x0 t IH]; intros s p x Hnd; cbn [fold_left]; [reflexivity|].
  inversion Hnd as [|? ? Hx Ht]; subst. rewrite IH by exact Ht. rewrite memb_cons.
  unfold add_edge. destruct (memb p (parents s x0)) eqn:E.
  - destruct (Nat.eqb x x0) eqn:Exx; cbn [orb]; [|reflexivity].
    apply Nat.eqb_eq in Exx. subst x. rewrite E. apply memb_false in Hx. rewrite Hx. reflexivity.
  - cbn [parents]. destruct (Nat.eqb x x0) eqn:Exx; cbn [orb].
    + apply Nat.eqb_eq in Exx. subst x. apply memb_false in Hx. rewrite Hx, E, upd_same. reflexivity.
    + apply Nat.eqb_neq in Exx. rewrite upd_other by exact Exx. reflexivity.
Qed.

(* children setter: the except-block in closed form *)
Lemma crb_children_p : forall news s0 st p,
  children (children_rollback s0 st p news) p = undo_l (children s0 p) news (children st p).
Proof.
  unfold children_rollback, undo_l. induction news as [|x t IH]; intros s0 st p; cbn [fold_left]; [reflexivity|].
  rewrite IH. f_equal. destruct (memb x (children s0 p)); [reflexivity|]. unfold del_edge. cbn [children]. apply upd_same.
Qed.

Lemma crb_children_other : forall news s0 st p q, q <> p -> children (children_rollback s0 st p news) q = children st q.
Proof.
  unfold children_rollback. induction news as [|x t IH]; intros s0 st p q Hne; cbn [fold_left]; [reflexivity|].
  rewrite IH by exact Hne. destruct (memb x (children s0 p)); [reflexivity|]. unfold del_edge. cbn [children].
  apply upd_other. exact Hne.
Qed.

Lemma crb_parents : forall news s0 st p x, NoDup news ->
  parents (children_rollback s0 st p news) x =
  if memb x news && negb (memb x (children s0 p)) then remove1 p (parents st x) else parents st x.
Proof.
  unfold children_rollback. induction news as [|x0 t IH]; intros s0 st p x Hnd; cbn [fold_left]; [reflexivity|].
  inversion Hnd as [|? ? Hx Ht]; subst. rewrite IH by exact Ht. rewrite memb_cons.
  destruct (memb x0 (children s0 p)) eqn:E.
  - destruct (Nat.eqb x x0) eqn:Exx; cbn [orb]; [|reflexivity].
    apply Nat.eqb_eq in Exx. subst x. rewrite E. apply memb_false in Hx. rewrite Hx. reflexivity.
  - unfold del_edge. cbn [parents]. destruct (Nat.eqb x x0) eqn:Exx; cbn [orb].
    + apply Nat.eqb_eq in Exx. subst x. apply memb_false in Hx. rewrite Hx, E, upd_same. reflexivity.
    + apply Nat.eqb_neq in Exx. rewrite upd_other by exact Exx. reflexivity.
Qed.

Lemma set_children_atomic : forall cfg ft s p cont args, DWF s ->
  snd (set_children cfg ft s p cont args) <> Ok -> same_state (fst (set_children cfg ft s p cont args)) s.
Proof.
  intros cfg ft s p cont args [L _] Herr. unfold set_children in *.
  destruct (materialise cont); [apply same_state_refl|].
  destruct (check_children_loop s p args []) eqn:Hchk; [apply same_state_refl|].
  destruct (dfault_eqb ft DPreFail); [apply same_state_refl|].
  destruct (dfault_eqb ft DPostFail); cbn [fst snd] in *; [|contradiction].
  assert (Hnd : NoDup (ids_of args)).
  { apply check_children_loop_ok in Hchk. tauto. }
  set (news := ids_of args) in *.
  assert (Hsym : forall x, memb p (parents s x) = memb x (children s p)).
  { intros x. apply memb_iff. apply (l_sym s L). }
  split.
  - assert (Hrb : forall news0 s0 st, dsize (children_rollback s0 st p news0) = dsize st).
    { unfold children_rollback. induction news0 as [|x t IH]; intros s0 st; cbn [fold_left]; [reflexivity|].
      rewrite IH. destruct (memb x (children s0 p)); reflexivity. }
    rewrite Hrb. apply assign_children_size.
  - intros x. split.
    + rewrite crb_parents, ac_parents by exact Hnd. rewrite Hsym.
      destruct (memb x news && negb (memb x (children s p))) eqn:E; [|reflexivity].
      apply andb_true_iff in E. destruct E as [_ E]. apply negb_true_iff, memb_false in E.
      apply remove1_snoc. rewrite (l_sym s L). exact E.
    + destruct (Nat.eq_dec x p) as [->|Hne].
      * rewrite crb_children_p, ac_children_p by exact Hnd.
        rewrite (filter_ext _ (fun x => negb (memb x (children s p)))) by (intros a; rewrite Hsym; reflexivity).
        apply undo_filter. exact Hnd.
      * rewrite crb_children_other, ac_children_other by exact Hne. reflexivity.
Qed.

Definition is_new (o : dop) : bool := match o with DNew _ _ _ _ _ => true | _ => false end.

(** C02, DAGNode share: an assignment / deletion that raises for any reason (guard, failing pre- or
    post-assign hook, ambiguous name) leaves every parents and children list exactly as it was. *)
Theorem dag_atomic : forall cfg s o, DWF s -> is_new o = false ->
  snd (dstep cfg s o) <> Ok -> same_state (fst (dstep cfg s o)) s.
Proof.
  intros cfg s o W Hnew Herr. unfold dstep in *.
  destruct (negb (dop_in_range s o)); [apply same_state_refl|].
  destruct o as [c cont args ft | p cont args ft | p | p nm | p c ft | c p ft | nm pa ca ftp ftc]; try discriminate.
  - apply set_parents_atomic; assumption.
  - apply set_children_atomic; assumption.
  - cbn [snd] in Herr. contradiction.
  - unfold del_item in *. destruct (filter _ _) as [|k [|k' t]]; cbn [fst snd] in *; try contradiction; apply same_state_refl.
  - apply set_parents_atomic; assumption.
  - apply set_parents_atomic; assumption.
Qed.

(** A constructor call is two assignments.  When it raises, either nothing is linked (the state is
    the one right after allocation), or exactly the accepted parents assignment is in place. *)
Theorem dag_new_atomic : forall cfg s nm pa ca ftp ftc, DWF s ->
  dop_in_range s (DNew nm pa ca ftp ftc) = true ->
  snd (dstep cfg s (DNew nm pa ca ftp ftc)) <> Ok ->
  same_state (fst (dstep cfg s (DNew nm pa ca ftp ftc))) (alloc s nm)
  \/ exists s2, set_parents cfg ftp (alloc s nm) (dsize s) (carg_cont pa) (carg_args pa) = (s2, Ok)
                /\ same_state (fst (dstep cfg s (DNew nm pa ca ftp ftc))) s2.
Proof.
  intros cfg s nm pa ca ftp ftc W Hr Herr. unfold dstep in *. rewrite Hr in *. cbn [negb] in *.
  unfold construct in *. cbn [dop_in_range] in Hr. apply andb_true_iff in Hr. destruct Hr as [Hp Hc].
  pose proof (alloc_DWF s nm W) as W1.
  pose proof (set_parents_atomic cfg ftp (alloc s nm) (dsize s) (carg_cont pa) (carg_args pa) W1) as A1.
  pose proof (set_parents_DWF cfg ftp (alloc s nm) (dsize s) (carg_cont pa) (carg_args pa) W1) as W2.
  destruct (set_parents cfg ftp (alloc s nm) (dsize s) (carg_cont pa) (carg_args pa)) as [s2 o2].
  cbn [fst snd] in *. destruct o2 as [|e].
  - right. exists s2. split; [reflexivity|]. apply set_children_atomic; [|exact Herr].
    apply W2; [cbn; lia|]. eapply range_mono; [|exact Hp]. cbn. lia.
  - left. apply A1. discriminate.
Qed.

(* ------------------------------------------------------------------------------------------ *)
(** * The assertion switch is irrelevant for accepted operations *)

Lemma set_parents_cfg : forall cfg1 cfg2 ft s c cont args,
  snd (set_parents cfg1 ft s c cont args) = Ok ->
  set_parents cfg2 ft s c cont args = set_parents cfg1 ft s c cont args.
Proof.
  intros cfg1 cfg2 ft s c cont args H. unfold set_parents in *.
  destruct (check_parents s c cont args); [discriminate | reflexivity].
Qed.

Lemma set_children_cfg : forall cfg1 cfg2 ft s p cont args,
  snd (set_children cfg1 ft s p cont args) = Ok ->
  set_children cfg2 ft s p cont args = set_children cfg1 ft s p cont args.
Proof.
  intros cfg1 cfg2 ft s p cont args H. unfold set_children in *.
  destruct (materialise cont); [reflexivity|].
  destruct (check_children_loop s p args []); [discriminate | reflexivity].
Qed.

Theorem dag_assert_irrelevant_any : forall cfg1 cfg2 s o s',
  dstep cfg1 s o = (s', Ok) -> dstep cfg2 s o = (s', Ok).
Proof.
  intros cfg1 cfg2 s o s' H. unfold dstep in *. destruct (negb (dop_in_range s o)); [exact H|].
  destruct o as [c cont args ft | p cont args ft | p | p nm | p c ft | c p ft | nm pa ca ftp ftc]; try exact H.
  - rewrite (set_parents_cfg cfg1 cfg2); [exact H | rewrite H; reflexivity].
  - rewrite (set_children_cfg cfg1 cfg2); [exact H | rewrite H; reflexivity].
  - rewrite (set_parents_cfg cfg1 cfg2); [exact H | rewrite H; reflexivity].
  - rewrite (set_parents_cfg cfg1 cfg2); [exact H | rewrite H; reflexivity].
  - unfold construct in *.
    destruct (set_parents cfg1 ftp (alloc s nm) (dsize s) (carg_cont pa) (carg_args pa)) as [s2 o2] eqn:E1.
    destruct o2 as [|e]; [|discriminate].
    rewrite (set_parents_cfg cfg1 cfg2), E1 by (rewrite E1; reflexivity).
    rewrite (set_children_cfg cfg1 cfg2); [exact H | rewrite H; reflexivity].
Qed.

(** C20, DAGNode share: an operation accepted with the checks on is accepted with the checks off
    and produces the same state (the checks are pure guards). *)
Theorem dag_assert_irrelevant : forall s o s', DWF s ->
  dstep {| dassertions := true |} s o = (s', Ok) -> dstep {| dassertions := false |} s o = (s', Ok).
Proof. intros s o s' _. apply dag_assert_irrelevant_any. Qed.

(* lifted to histories: if every operation is accepted with the checks on, the two traces coincide *)
Theorem dag_assert_irrelevant_run : forall ops s,
  forallb (fun r => is_ok (snd r)) (dtrace {| dassertions := true |} s ops) = true ->
  dtrace {| dassertions := false |} s ops = dtrace {| dassertions := true |} s ops.
Proof.
  induction ops as [|o t IH]; intros s H; cbn [dtrace] in *; [reflexivity|].
  apply andb_true_iff in H. destruct H as [H1 H2].
  destruct (dstep {| dassertions := true |} s o) as [s1 o1] eqn:E. cbn [fst snd] in *.
  destruct o1; [|discriminate].
  rewrite (dag_assert_irrelevant_any _ {| dassertions := false |} _ _ _ E). cbn [fst].
  f_equal. apply IH. exact H2.
Qed.

(* ------------------------------------------------------------------------------------------ *)
(** * The invariant implies the boolean predicate of Spec/PC10.v *)

Lemma Links_dlinks_ok_b : forall s, Links s -> dlinks_ok_b s = true.
Proof.
  intros s L. unfold dlinks_ok_b. apply forallb_forall. intros x Hx.
  rewrite !andb_true_iff. repeat split.
  - apply nodupb_NoDup. apply (l_ndp s L).
  - apply nodupb_NoDup. apply (l_ndc s L).
  - apply forallb_forall. intros p Hp. apply andb_true_iff. split.
    + apply Nat.ltb_lt. apply (l_bnd s L) in Hp. tauto.
    + apply memb_In. apply (l_sym s L). exact Hp.
  - apply forallb_forall. intros c Hc. apply (l_sym s L) in Hc. apply andb_true_iff. split.
    + apply Nat.ltb_lt. apply (l_bnd s L) in Hc. tauto.
    + apply memb_In. exact Hc.
Qed.

Lemma peel_shrinks : forall s r live, ranked s r -> live <> [] -> length (peel s live) < length live.
Proof.
  intros s r live R Hne. destruct (exists_min r live Hne) as [m [Hm Hmin]].
  unfold peel. apply filter_length_lt with (m := m); [exact Hm|].
  apply not_true_is_false. intro H. apply existsb_exists in H. destruct H as [p [Hp Hl]].
  apply memb_In in Hl. specialize (Hmin p Hl). specialize (R _ _ Hp). lia.
Qed.

Lemma peel_n_nil : forall s k, peel_n s k [] = [].
Proof. induction k as [|k IH]; cbn [peel_n]; [reflexivity|]. exact IH. Qed.

Lemma peel_n_len : forall s r k live, ranked s r -> length (peel_n s k live) <= length live - k.
Proof.
  intros s r k. induction k as [|k IH]; intros live R; cbn [peel_n]; [lia|].
  destruct live as [|a t].
  - cbn [peel filter]. rewrite peel_n_nil. cbn. lia.
  - pose proof (peel_shrinks s r (a :: t) R) as Hs. specialize (Hs ltac:(discriminate)).
    specialize (IH (peel s (a :: t)) R). lia.
Qed.

Lemma ranked_acyclic_b : forall s r, ranked s r -> acyclic_b s = true.
Proof.
  intros s r R. unfold acyclic_b. pose proof (peel_n_len s r (dsize s) (dids (dsize s)) R) as H.
  unfold dids in *. rewrite seq_length in H. destruct (peel_n s (dsize s) (seq 0 (dsize s))); [reflexivity|].
  cbn [length] in H. lia.
Qed.

Theorem DWF_dwf_b : forall s, DWF s -> dwf_b s = true.
Proof.
  intros s [L [r R]]. unfold dwf_b. rewrite Links_dlinks_ok_b by exact L.
  rewrite (ranked_acyclic_b s r R). reflexivity.
Qed.

(* ------------------------------------------------------------------------------------------ *)
(** * Effects of accepted operations *)

Lemma same_state_parents : forall s t q x, same_state s t -> (In q (parents s x) <-> In q (parents t x)).
Proof. intros s t q x [_ H]. destruct (H x) as [-> _]. tauto. Qed.

Lemma same_state_children : forall s t q x, same_state s t -> (In q (children s x) <-> In q (children t x)).
Proof. intros s t q x [_ H]. destruct (H x) as [_ ->]. tauto. Qed.

Lemma ap_parents_In : forall news s c q x,
  In q (parents (assign_parents s c news) x) <-> In q (parents s x) \/ (x = c /\ In q news).
Proof.
  unfold assign_parents. induction news as [|p t IH]; intros s c q x; cbn [fold_left In].
  - tauto.
  - rewrite IH, add_edge_parents_In. split.
    + intros [[H|[H1 H2]]|[H1 H2]]; auto.
    + intros [H|[H1 [H2|H2]]]; auto.
Qed.

Lemma ac_parents_In : forall news s p q x,
  In q (parents (assign_children s p news) x) <-> In q (parents s x) \/ (q = p /\ In x news).
Proof.
  unfold assign_children. induction news as [|y t IH]; intros s p q x; cbn [fold_left In].
  - tauto.
  - rewrite IH, add_edge_parents_In. split.
    + intros [[H|[H1 H2]]|[H1 H2]]; auto.
    + intros [H|[H1 [H2|H2]]]; auto.
Qed.

(* an accepted parents assignment adds exactly the edges new parent -> c *)
Lemma set_parents_effect : forall cfg ft s s' c cont args,
  set_parents cfg ft s c cont args = (s', Ok) ->
  forall q x, In q (parents s' x) <-> In q (parents s x) \/ (x = c /\ In q (ids_of args)).
Proof.
  intros cfg ft s s' c cont args H q x. unfold set_parents in H.
  destruct (check_parents s c cont args); [discriminate|].
  destruct (dfault_eqb ft DPreFail); [discriminate|].
  destruct (dfault_eqb ft DPostFail); [discriminate|].
  injection H as <-. apply ap_parents_In.
Qed.

(* an accepted children assignment adds exactly the edges p -> new child *)
Lemma set_children_effect : forall cfg ft s s' p cont args,
  set_children cfg ft s p cont args = (s', Ok) ->
  forall q x, In q (parents s' x) <-> In q (parents s x) \/ (q = p /\ In x (ids_of args)).
Proof.
  intros cfg ft s s' p cont args H q x. unfold set_children in H.
  destruct (materialise cont); [discriminate|].
  destruct (check_children_loop s p args []); [discriminate|].
  destruct (dfault_eqb ft DPreFail); [discriminate|].
  destruct (dfault_eqb ft DPostFail); [discriminate|].
  injection H as <-. apply ac_parents_In.
Qed.

Lemma alloc_parents_In : forall s nm q y, DWF s -> (In q (parents (alloc s nm) y) <-> In q (parents s y)).
Proof.
  intros s nm q y [L _]. unfold alloc. cbn [parents]. destruct (Nat.eq_dec y (dsize s)) as [->|Hne].
  - rewrite upd_same. split; [intros [] | intro H; apply (l_bnd s L) in H; lia].
  - rewrite upd_other by exact Hne. tauto.
Qed.

(* the edges an operation asks for, as a relation (cf. Spec.PC10.requested) *)
Definition asks (s : dag) (o : dop) (q x : id) : Prop :=
  match o with
  | SetParents c _ args _ => x = c /\ In q (ids_of args)
  | SetKids p _ args _ => q = p /\ In x (ids_of args)
  | DRShift p c _ | DLShift c p _ => x = c /\ q = p
  | DNew _ pa ca _ _ => (x = dsize s /\ In q (ids_of (carg_args pa))) \/ (q = dsize s /\ In x (ids_of (carg_args ca)))
  | _ => False
  end.

(** accepted assignment: the edge set afterwards is the old one plus exactly the requested edges *)
Theorem assignment_effect : forall cfg s o s', DWF s -> is_assignment o = true ->
  dstep cfg s o = (s', Ok) ->
  forall q x, In q (parents s' x) <-> In q (parents s x) \/ asks s o q x.
Proof.
  intros cfg s o s' W Ha H q x. unfold dstep in H. destruct (negb (dop_in_range s o)); [discriminate|].
  destruct o as [c cont args ft | p cont args ft | p | p nm | p c ft | c p ft | nm pa ca ftp ftc];
    try discriminate; cbn [asks].
  - eapply set_parents_effect. exact H.
  - eapply set_children_effect. exact H.
  - rewrite (set_parents_effect _ _ _ _ _ _ _ H). cbn [ids_of In]. intuition.
  - rewrite (set_parents_effect _ _ _ _ _ _ _ H). cbn [ids_of In]. intuition.
  - unfold construct in H.
    destruct (set_parents cfg ftp (alloc s nm) (dsize s) (carg_cont pa) (carg_args pa)) as [s2 o2] eqn:E1.
    destruct o2; [|discriminate].
    rewrite (set_children_effect _ _ _ _ _ _ _ H), (set_parents_effect _ _ _ _ _ _ _ E1), alloc_parents_In by exact W.
    tauto.
Qed.

(** "assignments only add edges": whatever the outcome (accepted, rejected, failing hook) *)
Theorem only_adds_parents : forall cfg s o, DWF s -> is_assignment o = true ->
  forall q x, In q (parents s x) -> In q (parents (fst (dstep cfg s o)) x).
Proof.
  intros cfg s o W Ha q x Hin.
  destruct (dstep cfg s o) as [s' out] eqn:E. cbn [fst]. destruct out as [|e].
  - rewrite (assignment_effect cfg s o s' W Ha E). left. exact Hin.
  - destruct (is_new o) eqn:En.
    + destruct o as [ | | | | | | nm pa ca ftp ftc]; try discriminate.
      destruct (dop_in_range s (DNew nm pa ca ftp ftc)) eqn:Hr.
      * destruct (dag_new_atomic cfg s nm pa ca ftp ftc W Hr) as [A|[s2 [E2 A]]].
        -- rewrite E. discriminate.
        -- rewrite E in A. cbn [fst] in A. rewrite (same_state_parents _ _ q x A). apply alloc_parents_In; assumption.
        -- rewrite E in A. cbn [fst] in A. rewrite (same_state_parents _ _ q x A).
           rewrite (set_parents_effect _ _ _ _ _ _ _ E2). left. apply alloc_parents_In; assumption.
      * unfold dstep in E. rewrite Hr in E. cbn [negb] in E. injection E as <- _. exact Hin.
    + pose proof (dag_atomic cfg s o W En) as A. rewrite E in A. cbn [fst snd] in A.
      rewrite (same_state_parents _ _ q x (A ltac:(discriminate))). exact Hin.
Qed.

Theorem only_adds_children : forall cfg s o, DWF s -> is_assignment o = true ->
  forall q x, In q (children s x) -> In q (children (fst (dstep cfg s o)) x).
Proof.
  intros cfg s o W Ha q x Hin. pose proof (dstep_DWF cfg s o W) as [L' _]. destruct W as [L R].
  apply (l_sym _ L'). apply only_adds_parents; [split; assumption | exact Ha |]. apply (l_sym s L). exact Hin.
Qed.

(* deletions *)
Lemma del_fold_parents_In : forall p l s q x, Links s ->
  (In q (parents (fold_left (fun st c => del_edge st p c) l s) x) <-> In q (parents s x) /\ ~ (q = p /\ In x l)).
Proof.
  intros p l. induction l as [|c t IH]; intros s q x L; cbn [fold_left In].
  - tauto.
  - rewrite IH by (apply del_edge_Links; exact L). rewrite del_edge_parents_In by exact L.
    split.
    + intros [[H1 H2] H3]. split; [exact H1|]. intros [Hq [Hx|Hx]]; [apply H2; split; [exact Hq | symmetry; exact Hx] | apply H3; split; assumption].
    + intros [H1 H2]. split; [split; [exact H1|] |].
      * intros [Hq Hx]. apply H2. split; [exact Hq | left; symmetry; exact Hx].
      * intros [Hq Hx]. apply H2. split; [exact Hq | right; exact Hx].
Qed.

(** `del p.children` removes exactly the edges that start in p *)
Theorem del_children_effect : forall s p q x, DWF s ->
  (In q (parents (del_children s p) x) <-> In q (parents s x) /\ q <> p).
Proof.
  intros s p q x [L _]. unfold del_children. rewrite del_fold_parents_In by exact L. split.
  - intros [H1 H2]. split; [exact H1|]. intro Hq. apply H2. split; [exact Hq|]. subst q. apply (l_sym s L). exact H1.
  - intros [H1 H2]. split; [exact H1|]. intros [Hq _]. contradiction.
Qed.

(** `del p[nm]`: when exactly one child of p carries the name, exactly that edge is removed; when
    none does, nothing changes; when several do, the call is refused and nothing changes *)
Theorem del_item_effect : forall s p nm, DWF s ->
  match filter (fun k => str_eqb (dname s k) nm) (children s p) with
  | [] => del_item s p nm = (s, Ok)
  | [k] => In k (children s p) /\ snd (del_item s p nm) = Ok /\
           forall q x, In q (parents (fst (del_item s p nm)) x) <-> In q (parents s x) /\ ~ (q = p /\ x = k)
  | _ => del_item s p nm = (s, Err SearchError)
  end.
Proof.
  intros s p nm [L _]. unfold del_item.
  destruct (filter (fun k => str_eqb (dname s k) nm) (children s p)) as [|k [|k' t]] eqn:E; try reflexivity.
  split; [|split; [reflexivity|]].
  - assert (Hk : In k (filter (fun k => str_eqb (dname s k) nm) (children s p))) by (rewrite E; left; reflexivity).
    apply filter_In in Hk. tauto.
  - intros q x. cbn [fst]. apply del_edge_parents_In. exact L.
Qed.

(* ------------------------------------------------------------------------------------------ *)
(** * Exactly which assignments are refused *)

Lemma check_parent_loop_complete : forall s c args seen, has_junk args = false -> NoDup (ids_of args) ->
  (forall p, In p (ids_of args) -> p <> c /\ memb c (dag_ancestors s p) = false /\ ~ In p seen) ->
  check_parent_loop s c args seen = None.
Proof.
  induction args as [|a t IH]; intros seen Hj Hnd Hall; cbn [check_parent_loop]; [reflexivity|].
  destruct a as [p| |]; cbn [has_junk] in Hj; try discriminate. cbn [ids_of] in *.
  inversion Hnd as [|? ? Hp Ht]; subst.
  destruct (Hall p (or_introl eq_refl)) as [H1 [H2 H3]].
  apply Nat.eqb_neq in H1. rewrite H1, H2. apply memb_false in H3. rewrite H3.
  apply IH; [exact Hj | exact Ht |]. intros q Hq. destruct (Hall q (or_intror Hq)) as [G1 [G2 G3]].
  split; [exact G1|]. split; [exact G2|]. intros [E|E]; [subst; contradiction | contradiction].
Qed.

Lemma check_children_loop_complete : forall s p args seen, has_junk args = false -> NoDup (ids_of args) ->
  (forall x, In x (ids_of args) -> x <> p /\ memb x (dag_ancestors s p) = false /\ ~ In x seen) ->
  check_children_loop s p args seen = None.
Proof.
  induction args as [|a t IH]; intros seen Hj Hnd Hall; cbn [check_children_loop]; [reflexivity|].
  destruct a as [x| |]; cbn [has_junk] in Hj; try discriminate. cbn [ids_of] in *.
  inversion Hnd as [|? ? Hx Ht]; subst.
  destruct (Hall x (or_introl eq_refl)) as [H1 [H2 H3]].
  apply Nat.eqb_neq in H1. rewrite H1, H2. apply memb_false in H3. rewrite H3.
  apply IH; [exact Hj | exact Ht |]. intros q Hq. destruct (Hall q (or_intror Hq)) as [G1 [G2 G3]].
  split; [exact G1|]. split; [exact G2|]. intros [E|E]; [subst; contradiction | contradiction].
Qed.

(** c.parents = args (no failing hook) is accepted iff args is a list of pairwise different
    DAGNodes none of which is c itself or a descendant of c *)
Theorem set_parents_accepts_iff : forall cfg s c cont args, DWF s ->
  (snd (set_parents cfg DNoFault s c cont args) = Ok <->
   cont = DList /\ has_junk args = false /\ NoDup (ids_of args) /\
   forall p, In p (ids_of args) -> p <> c /\ ~ path s c p).
Proof.
  intros cfg s c cont args W. unfold set_parents. split.
  - destruct (check_parents s c cont args) eqn:Hchk; [discriminate|]. intros _.
    unfold check_parents in Hchk. destruct cont; try discriminate. split; [reflexivity|].
    apply check_parent_loop_ok in Hchk. destruct Hchk as [Hj [Hnd Hall]]. split; [exact Hj|]. split; [exact Hnd|].
    intros p Hp. destruct (Hall p Hp) as [H1 [H2 _]]. split; [exact H1|]. apply ancestors_memb_false; assumption.
  - intros [-> [Hj [Hnd Hall]]]. unfold check_parents. rewrite check_parent_loop_complete; [reflexivity | exact Hj | exact Hnd |].
    intros p Hp. destruct (Hall p Hp) as [H1 H2]. split; [exact H1|]. split; [apply ancestors_memb_false; assumption | intros []].
Qed.

(** p.children = args (no failing hook) is accepted iff args is an iterable of pairwise different
    DAGNodes none of which is p itself or an ancestor of p *)
Theorem set_children_accepts_iff : forall cfg s p cont args, DWF s ->
  (snd (set_children cfg DNoFault s p cont args) = Ok <->
   cont <> DNonIter /\ has_junk args = false /\ NoDup (ids_of args) /\
   forall x, In x (ids_of args) -> x <> p /\ ~ path s x p).
Proof.
  intros cfg s p cont args W. unfold set_children. split.
  - destruct (materialise cont) eqn:Hm; [discriminate|].
    destruct (check_children_loop s p args []) eqn:Hchk'; [discriminate|]. intros _.
    split; [intro; subst; discriminate|].
    apply check_children_loop_ok in Hchk'. destruct Hchk' as [Hj [Hnd Hall]]. split; [exact Hj|]. split; [exact Hnd|].
    intros x Hx. destruct (Hall x Hx) as [H1 [H2 _]]. split; [exact H1|]. apply ancestors_memb_false; assumption.
  - intros [Hc [Hj [Hnd Hall]]].
    assert (Hm : materialise cont = None) by (destruct cont; try reflexivity; contradiction).
    assert (Hl : check_children_loop s p args [] = None).
    { apply check_children_loop_complete; [exact Hj | exact Hnd |].
      intros x Hx. destruct (Hall x Hx) as [H1 H2]. split; [exact H1|]. split; [apply ancestors_memb_false; assumption | intros []]. }
    rewrite Hm, Hl. reflexivity.
Qed.

(* ------------------------------------------------------------------------------------------ *)
(** * The model satisfies the per-step predicate of Spec/PC10.v *)

Lemma reach_sound : forall s f a b, Links s -> reach_b s f a b = true -> path s a b.
Proof.
  intros s f. induction f as [|f IH]; intros a b L H; cbn [reach_b] in H; [discriminate|].
  apply existsb_exists in H. destruct H as [k [Hk H]]. apply (l_sym s L) in Hk.
  apply orb_true_iff in H. destruct H as [H|H].
  - apply Nat.eqb_eq in H. subst. apply path1. exact Hk.
  - eapply path_cons; [exact Hk | apply IH; assumption].
Qed.

Lemma pathn_uncons : forall s k a b, pathn s k a b ->
  (k = 1 /\ In a (parents s b)) \/ (exists k' m, k = S k' /\ In a (parents s m) /\ pathn s k' m b).
Proof.
  induction 1 as [a b H | k a p b Hp IH H].
  - left. split; [reflexivity | exact H].
  - right. destruct IH as [[-> Ha] | [k' [m [-> [Ha Hm]]]]].
    + exists 1, p. split; [reflexivity|]. split; [exact Ha | apply pathn1; exact H].
    + exists (S k'), m. split; [reflexivity|]. split; [exact Ha | eapply pathnS; eassumption].
Qed.

Lemma reach_complete : forall s f k a b, Links s -> pathn s k a b -> k <= f -> reach_b s f a b = true.
Proof.
  intros s f. induction f as [|f IH]; intros k a b L H Hk.
  - inversion H; subst; lia.
  - cbn [reach_b]. apply existsb_exists. apply pathn_uncons in H.
    destruct H as [[-> Ha] | [k' [m [-> [Ha Hm]]]]].
    + exists b. split; [apply (l_sym s L); exact Ha | rewrite Nat.eqb_refl; reflexivity].
    + exists m. split; [apply (l_sym s L); exact Ha|]. apply orb_true_iff. right. eapply IH; [exact L | exact Hm | lia].
Qed.

Theorem reach_spec : forall s a b, DWF s -> (reach_b s (dsize s) a b = true <-> path s a b).
Proof.
  intros s a b [L [r R]]. split.
  - apply reach_sound. exact L.
  - intros H. apply path_pathn in H. destruct H as [k H].
    eapply reach_complete; [exact L | exact H |]. pose proof (pathn_bound s r k a b L R H). lia.
Qed.

Lemma closes_loop_false : forall s p c, DWF s -> p <> c -> ~ path s c p -> closes_loop_b s p c = false.
Proof.
  intros s p c W Hne Hp. unfold closes_loop_b. apply orb_false_iff. split; [apply Nat.eqb_neq; exact Hne|].
  apply not_true_is_false. intro H. apply Hp. apply reach_spec; assumption.
Qed.

Lemma all_pairs_true : forall n f, (forall p c, p < n -> c < n -> f p c = true) -> all_pairs n f = true.
Proof.
  intros n f H. unfold all_pairs, dids. apply forallb_forall. intros p Hp. apply forallb_forall. intros c Hc.
  apply in_seq in Hp. apply in_seq in Hc. apply H; lia.
Qed.

Lemma edge_b_iff : forall s p c, Links s -> (edge_b s p c = true <-> In p (parents s c)).
Proof. intros s p c L. unfold edge_b. rewrite memb_In. symmetry. apply (l_sym s L). Qed.

Lemma pair_mem_In : forall p c l, pair_mem p c l = true <-> In (p, c) l.
Proof.
  intros p c l. unfold pair_mem. rewrite existsb_exists. split.
  - intros [[a b] [Hin H]]. cbn [fst snd] in H. apply andb_true_iff in H. destruct H as [H1 H2].
    apply Nat.eqb_eq in H1. apply Nat.eqb_eq in H2. subst. exact Hin.
  - intros H. exists (p, c). split; [exact H|]. cbn [fst snd]. rewrite !Nat.eqb_refl. reflexivity.
Qed.

Lemma requested_asks : forall s o q x, is_assignment o = true -> (In (q, x) (requested s o) <-> asks s o q x).
Proof.
  intros s o q x Ha. destruct o as [c cont args ft | p cont args ft | p | p nm | p c ft | c p ft | nm pa ca ftp ftc];
    try discriminate; cbn [requested asks].
  - rewrite in_map_iff. split.
    + intros [y [E Hy]]. injection E as <- <-. split; [reflexivity | exact Hy].
    + intros [-> Hq]. exists q. split; [reflexivity | exact Hq].
  - rewrite in_map_iff. split.
    + intros [y [E Hy]]. injection E as <- <-. split; [reflexivity | exact Hy].
    + intros [-> Hx]. exists x. split; [reflexivity | exact Hx].
  - cbn [In]. split.
    + intros [E|[]]. injection E as <- <-. split; reflexivity.
    + intros [-> ->]. left. reflexivity.
  - cbn [In]. split.
    + intros [E|[]]. injection E as <- <-. split; reflexivity.
    + intros [-> ->]. left. reflexivity.
  - rewrite in_app_iff, !in_map_iff. split.
    + intros [[y [E Hy]]|[y [E Hy]]]; injection E as <- <-; [left | right]; (split; [reflexivity | exact Hy]).
    + intros [[-> Hq]|[-> Hx]]; [left; exists q | right; exists x]; (split; [reflexivity | assumption]).
Qed.

Lemma eqb_of_iff : forall b1 b2 : bool, (b1 = true <-> b2 = true) -> Bool.eqb b1 b2 = true.
Proof.
  intros [] [] [H1 H2]; try reflexivity; cbn.
  - apply H1. reflexivity.
  - apply H2. reflexivity.
Qed.

Lemma set_parents_ok_check : forall cfg ft s c cont args s',
  set_parents cfg ft s c cont args = (s', Ok) -> check_parents s c cont args = None.
Proof.
  intros cfg ft s c cont args s' H. unfold set_parents in H.
  destruct (check_parents s c cont args); [discriminate | reflexivity].
Qed.

Lemma set_children_ok_check : forall cfg ft s p cont args s',
  set_children cfg ft s p cont args = (s', Ok) -> check_children_loop s p args [] = None.
Proof.
  intros cfg ft s p cont args s' H. unfold set_children in H.
  destruct (materialise cont); [discriminate|].
  destruct (check_children_loop s p args []); [discriminate | reflexivity].
Qed.

Lemma parents_ok_no_reject : forall s c cont args, DWF s -> check_parents s c cont args = None ->
  has_junk args = false /\ nodupb (ids_of args) = true /\
  forall p, In p (ids_of args) -> closes_loop_b s p c = false.
Proof.
  intros s c cont args W H. unfold check_parents in H. destruct cont; try discriminate.
  apply check_parent_loop_ok in H. destruct H as [Hj [Hnd Hall]]. split; [exact Hj|]. split; [apply nodupb_NoDup; exact Hnd|].
  intros p Hp. destruct (Hall p Hp) as [H1 [H2 _]]. apply closes_loop_false; [exact W | exact H1 |].
  apply ancestors_memb_false; assumption.
Qed.

Lemma children_ok_no_reject : forall s p args, DWF s -> check_children_loop s p args [] = None ->
  has_junk args = false /\ nodupb (ids_of args) = true /\
  forall x, In x (ids_of args) -> closes_loop_b s p x = false.
Proof.
  intros s p args W H'.
  apply check_children_loop_ok in H'. destruct H' as [Hj [Hnd Hall]]. split; [exact Hj|]. split; [apply nodupb_NoDup; exact Hnd|].
  intros x Hx. destruct (Hall x Hx) as [H1 [H2 _]]. apply closes_loop_false; [exact W | intro; subst; apply H1; reflexivity |].
  apply ancestors_memb_false; assumption.
Qed.

Lemma existsb_false_all : forall {A} (f : A -> bool) l, (forall x, In x l -> f x = false) -> existsb f l = false.
Proof.
  intros A f l H. apply not_true_is_false. intro E. apply existsb_exists in E. destruct E as [x [Hx Hf]].
  rewrite (H x Hx) in Hf. discriminate.
Qed.

Lemma path_mono : forall s t a b, (forall q x, In q (parents s x) -> In q (parents t x)) -> path s a b -> path t a b.
Proof.
  intros s t a b Hm H. induction H as [a b H | a p b _ IH H].
  - apply path1. apply Hm. exact H.
  - eapply pathS; [exact IH | apply Hm; exact H].
Qed.

(** an accepted operation is never one that the property says has to be refused *)
Theorem accepted_not_must_reject : forall cfg s o s', DWF s ->
  dstep cfg s o = (s', Ok) -> must_reject_b s o = false.
Proof.
  intros cfg s o s' W H. unfold dstep in H. destruct (dop_in_range s o) eqn:Hr; cbn [negb] in H; [|discriminate].
  destruct o as [c cont args ft | p cont args ft | p | p nm | p c ft | c p ft | nm pa ca ftp ftc];
    cbn [must_reject_b]; try reflexivity.
  - apply set_parents_ok_check in H. apply parents_ok_no_reject in H; [|exact W].
    destruct H as [-> [-> Hall]]. cbn [negb orb]. apply existsb_false_all. exact Hall.
  - apply set_children_ok_check in H. apply children_ok_no_reject in H; [|exact W].
    destruct H as [-> [-> Hall]]. cbn [negb orb]. apply existsb_false_all. exact Hall.
  - apply set_parents_ok_check in H. apply parents_ok_no_reject in H; [|exact W].
    destruct H as [_ [_ Hall]]. apply Hall. left. reflexivity.
  - apply set_parents_ok_check in H. apply parents_ok_no_reject in H; [|exact W].
    destruct H as [_ [_ Hall]]. apply Hall. left. reflexivity.
  - unfold construct in H. cbn [dop_in_range] in Hr. apply andb_true_iff in Hr. destruct Hr as [Hrp Hrc].
    pose proof (alloc_DWF s nm W) as W1.
    pose proof (set_parents_DWF cfg ftp (alloc s nm) (dsize s) (carg_cont pa) (carg_args pa) W1) as W2.
    destruct (set_parents cfg ftp (alloc s nm) (dsize s) (carg_cont pa) (carg_args pa)) as [s2 o2] eqn:E1.
    destruct o2; [|discriminate]. cbn [fst] in W2.
    assert (W2' : DWF s2).
    { apply W2; [cbn; lia|]. eapply range_mono; [|exact Hrp]. cbn. lia. }
    pose proof (set_parents_effect _ _ _ _ _ _ _ E1) as Eff.
    pose proof (set_parents_ok_check _ _ _ _ _ _ _ E1) as C1.
    pose proof (set_children_ok_check _ _ _ _ _ _ _ H) as C2.
    assert (J1 : has_junk (carg_args pa) = false /\ nodupb (ids_of (carg_args pa)) = true).
    { unfold check_parents in C1. destruct (carg_cont pa); try discriminate.
      apply check_parent_loop_ok in C1. destruct C1 as [Hj [Hnd _]]. split; [exact Hj | apply nodupb_NoDup; exact Hnd]. }
    pose proof C2 as C2'.
    apply check_children_loop_ok in C2'. destruct C2' as [Hj2 [Hnd2 Hall2]].
    destruct J1 as [-> ->]. rewrite Hj2. apply nodupb_NoDup in Hnd2. rewrite Hnd2. cbn [negb orb].
    apply existsb_false_all. intros c Hc. apply existsb_false_all. intros p Hp.
    destruct (Hall2 c Hc) as [Hne [Hanc _]]. apply ancestors_memb_false in Hanc; [|exact W2'].
    assert (Hpx : path s2 p (dsize s)).
    { apply path1. apply Eff. right. split; [reflexivity | exact Hp]. }
    assert (Hmono : forall q x, In q (parents s x) -> In q (parents s2 x)).
    { intros q x Hq. apply Eff. left. apply alloc_parents_In; assumption. }
    unfold closes_loop_b. apply orb_false_iff. split.
    + apply Nat.eqb_neq. intro; subst. apply Hanc. exact Hpx.
    + apply not_true_is_false. intro Hre. apply reach_spec in Hre; [|exact W].
      apply Hanc. eapply path_trans; [eapply path_mono; [exact Hmono | exact Hre] | exact Hpx].
Qed.

Lemma del_children_size : forall s p, dsize (del_children s p) = dsize s.
Proof.
  intros s p. unfold del_children. generalize (children s p) as l. intros l. revert s.
  induction l as [|c t IH]; intros s; cbn [fold_left]; [reflexivity|]. rewrite IH. reflexivity.
Qed.

(** Every step of the model satisfies the C10 step predicate -- the same boolean that the
    correspondence check evaluates on the implementation's own before/after states. *)
Theorem dstep_prop_C10 : forall cfg s o, DWF s ->
  prop_C10_step cfg s o (fst (dstep cfg s o)) (is_ok (snd (dstep cfg s o))) = true.
Proof.
  intros cfg s o W. unfold prop_C10_step.
  pose proof (dstep_DWF cfg s o W) as W'. rewrite (DWF_dwf_b _ W'). cbn [andb].
  destruct (dstep cfg s o) as [s' out] eqn:E. cbn [fst snd] in *. destruct out as [|e]; cbn [is_ok]; [|reflexivity].
  rewrite (accepted_not_must_reject cfg s o s' W E), andb_false_r. cbn [negb]. rewrite andb_true_r.
  pose proof W as [L _]. pose proof W' as [L' _].
  destruct (is_assignment o) eqn:Ha.
  - apply andb_true_iff. split.
    + unfold only_adds_b. apply all_pairs_true. intros p c _ _.
      destruct (edge_b s p c) eqn:Eb; [|reflexivity]. cbn [implb].
      apply edge_b_iff; [exact L'|]. rewrite (assignment_effect cfg s o s' W Ha E). left. apply edge_b_iff; assumption.
    + unfold adds_exactly_b. apply all_pairs_true. intros p c _ _. apply eqb_of_iff.
      rewrite orb_true_iff, (edge_b_iff s' p c L'), (edge_b_iff s p c L), pair_mem_In, (requested_asks s o p c Ha).
      apply (assignment_effect cfg s o s' W Ha E).
  - unfold dstep in E. destruct (negb (dop_in_range s o)); [discriminate|].
    destruct o as [c cont args ft | p cont args ft | p | p nm | p c ft | c p ft | nm pa ca ftp ftc]; try discriminate.
    + injection E as <-. rewrite del_children_size, Nat.eqb_refl. cbn [andb delete_exact_b].
      apply all_pairs_true. intros q c _ _. apply eqb_of_iff.
      rewrite andb_true_iff, negb_true_iff, Nat.eqb_neq, (edge_b_iff _ q c L'), (edge_b_iff s q c L).
      apply del_children_effect. exact W.
    + pose proof (del_item_effect s p nm W) as D. cbn [delete_exact_b].
      destruct (filter (fun k => str_eqb (dname s k) nm) (children s p)) as [|k [|k' t]].
      * rewrite D in E. injection E as <-. rewrite Nat.eqb_refl. cbn [andb].
        apply all_pairs_true. intros q c _ _. apply eqb_of_iff. tauto.
      * destruct D as [_ [_ D]]. rewrite E in D. cbn [fst] in D.
        assert (Hsz : dsize s' = dsize s).
        { unfold del_item in E. destruct (filter _ _) as [|k0 [|k1 t0]]; injection E as <-; reflexivity. }
        rewrite Hsz, Nat.eqb_refl. cbn [andb].
        apply all_pairs_true. intros q c _ _. apply eqb_of_iff.
        rewrite andb_true_iff, negb_true_iff, (edge_b_iff _ q c L'), (edge_b_iff s q c L), D.
        rewrite andb_false_iff, !Nat.eqb_neq. split.
        -- intros [H1 H2]. split; [exact H1|]. destruct (Nat.eq_dec q p) as [->|Hq]; [right | left; exact Hq].
           intro; subst. apply H2. split; reflexivity.
        -- intros [H1 H2]. split; [exact H1|]. intros [-> ->]. destruct H2 as [H2|H2]; apply H2; reflexivity.
      * rewrite D in E. discriminate.
Qed.

(* ------------------------------------------------------------------------------------------ *)
(** * The model satisfies the C02 step predicate (DAGNode share) *)

Lemma idl_eqb_refl : forall l, idl_eqb l l = true.
Proof. induction l as [|x t IH]; cbn; [reflexivity|]. rewrite Nat.eqb_refl. exact IH. Qed.

Lemma same_state_dlinks : forall s t, same_state s t -> same_dlinks t s = true.
Proof.
  intros s t [Hs H]. unfold same_dlinks. rewrite Hs, Nat.eqb_refl. cbn [andb].
  apply forallb_forall. intros x _. destruct (H x) as [-> ->]. rewrite !idl_eqb_refl. reflexivity.
Qed.

Lemma firstn_len_app : forall {A} (l t : list A), firstn (length l) (l ++ t) = l.
Proof. induction l as [|x l IH]; intros t; cbn; [reflexivity|]. rewrite IH. reflexivity. Qed.

Lemma alloc_children_old : forall s nm y, y <> dsize s -> children (alloc s nm) y = children s y.
Proof. intros s nm y H. unfold alloc. cbn [children]. apply upd_other. exact H. Qed.

Lemma alloc_parents_old : forall s nm y, y <> dsize s -> parents (alloc s nm) y = parents s y.
Proof. intros s nm y H. unfold alloc. cbn [parents]. apply upd_other. exact H. Qed.

Theorem dstep_prop_C02 : forall cfg s o, DWF s -> dop_in_range s o = true ->
  prop_C02_dag_step s o (fst (dstep cfg s o)) (is_ok (snd (dstep cfg s o))) = true.
Proof.
  intros cfg s o W Hr. unfold prop_C02_dag_step.
  destruct (is_ok (snd (dstep cfg s o))) eqn:Eok; [reflexivity|].
  assert (Herr : snd (dstep cfg s o) <> Ok) by (intro E; rewrite E in Eok; discriminate).
  destruct (is_new o) eqn:En.
  - destruct o as [ | | | | | | nm pa ca ftp ftc]; try discriminate.
    pose proof (dstep_DWF cfg s (DNew nm pa ca ftp ftc) W) as W'. pose proof W' as [L' _]. pose proof W as [L _].
    set (x := dsize s).
    assert (Hfin : forall s2, same_state (fst (dstep cfg s (DNew nm pa ca ftp ftc))) s2 ->
              dsize s2 = S x ->
              (forall y, y <> x -> parents s2 y = parents s y) ->
              (forall y, y <> x -> children s2 y = children s y \/ children s2 y = children s y ++ [x]) ->
              forall req, (forall q c, In q (parents s2 c) <-> In q (parents s c) \/ In (q, c) req) ->
              Nat.eqb (dsize (fst (dstep cfg s (DNew nm pa ca ftp ftc)))) (S x) = true
              /\ adds_exactly_b s req (fst (dstep cfg s (DNew nm pa ca ftp ftc))) = true
              /\ forallb (fun y => idl_eqb (children s y)
                                     (firstn (length (children s y)) (children (fst (dstep cfg s (DNew nm pa ca ftp ftc))) y))
                                   && idl_eqb (parents s y) (parents (fst (dstep cfg s (DNew nm pa ca ftp ftc))) y)) (dids x) = true).
    { intros s2 A Hsz HP HC req Hreq. destruct A as [As Al]. split; [rewrite As, Hsz; apply Nat.eqb_refl|]. split.
      - unfold adds_exactly_b. apply all_pairs_true. intros p c _ _. apply eqb_of_iff.
        rewrite orb_true_iff, (edge_b_iff _ p c L'), (edge_b_iff s p c L), pair_mem_In.
        destruct (Al c) as [-> _]. apply Hreq.
      - apply forallb_forall. intros y Hy. unfold dids in Hy. apply in_seq in Hy.
        assert (Hyx : y <> x) by lia. destruct (Al y) as [-> ->]. rewrite (HP y Hyx), idl_eqb_refl, andb_true_r.
        destruct (HC y Hyx) as [-> | ->]; [rewrite firstn_all | rewrite firstn_len_app]; apply idl_eqb_refl. }
    rewrite (Links_dlinks_ok_b _ L').
    destruct (dag_new_atomic cfg s nm pa ca ftp ftc W Hr Herr) as [A | [s2 [E2 A]]].
    + destruct (Hfin (alloc s nm) A eq_refl) with (req := @nil (id * id)) as [H1 [H2 H3]].
      * intros y Hy. apply alloc_parents_old. exact Hy.
      * intros y Hy. left. apply alloc_children_old. exact Hy.
      * intros q c. rewrite alloc_parents_In by exact W. cbn [In]. tauto.
      * fold x. rewrite H1, H2, H3. reflexivity.
    + pose proof (set_parents_effect _ _ _ _ _ _ _ E2) as Eff.
      pose proof (set_parents_ok_check _ _ _ _ _ _ _ E2) as Chk.
      assert (Hnd : NoDup (ids_of (carg_args pa))).
      { unfold check_parents in Chk. destruct (carg_cont pa); try discriminate.
        apply check_parent_loop_ok in Chk. tauto. }
      assert (Es2 : s2 = assign_parents (alloc s nm) x (ids_of (carg_args pa))).
      { unfold set_parents in E2. rewrite Chk in E2.
        destruct (dfault_eqb ftp DPreFail); [discriminate|]. destruct (dfault_eqb ftp DPostFail); [discriminate|].
        injection E2 as <-. reflexivity. }
      destruct (Hfin s2 A) with (req := map (fun p => (p, x)) (ids_of (carg_args pa))) as [H1 [H2 H3]].
      * rewrite Es2, assign_parents_size. reflexivity.
      * intros y Hy. rewrite Es2, ap_parents_other by exact Hy. apply alloc_parents_old. exact Hy.
      * intros y Hy. rewrite Es2, ap_children by exact Hnd. rewrite alloc_children_old by exact Hy.
        destruct (memb y (ids_of (carg_args pa)) && negb (memb y (parents (alloc s nm) x))); [right | left]; reflexivity.
      * intros q c. rewrite Eff, alloc_parents_In by exact W. rewrite in_map_iff. split.
        -- intros [H|[-> H]]; [left; exact H | right; exists q; split; [reflexivity | exact H]].
        -- intros [H|[p [E H]]]; [left; exact H | right; injection E as <- <-; split; [reflexivity | exact H]].
      * fold x. rewrite H1, H2, H3, orb_true_r. reflexivity.
  - pose proof (dag_atomic cfg s o W En Herr) as A. apply same_state_dlinks in A.
    destruct o; try discriminate; exact A.
Qed.

(* ------------------------------------------------------------------------------------------ *)
(** * Soundness of the boolean well-formedness test (what a `true` on the implementation's state means) *)

(* number of peeling rounds x survives *)
Fixpoint surv (s : dag) (k : nat) (live : list id) (x : id) : nat :=
  match k with
  | 0 => 0
  | S k' => if memb x live then S (surv s k' (peel s live) x) else 0
  end.

Lemma surv_rank : forall s k live p c, peel_n s k live = [] -> In c live -> In p (parents s c) ->
  surv s k live p < surv s k live c.
Proof.
  intros s k. induction k as [|k IH]; intros live p c Hnil Hc Hp; cbn [peel_n] in Hnil.
  - subst. destruct Hc.
  - cbn [surv]. assert (Ec : memb c live = true) by (apply memb_In; exact Hc). rewrite Ec.
    destruct (memb p live) eqn:Ep; [|lia].
    apply -> Nat.succ_lt_mono. apply IH; [exact Hnil | | exact Hp].
    unfold peel. apply filter_In. split; [exact Hc|]. apply existsb_exists. exists p. split; assumption.
Qed.

Theorem dwf_b_sound : forall s, dwf_b s = true ->
  (forall x, x < dsize s ->
     NoDup (parents s x) /\ NoDup (children s x)
     /\ (forall p, In p (parents s x) -> p < dsize s /\ In x (children s p))
     /\ (forall c, In c (children s x) -> c < dsize s /\ In x (parents s c)))
  /\ exists r, forall p c, c < dsize s -> In p (parents s c) -> r p < r c.
Proof.
  intros s H. unfold dwf_b in H. apply andb_true_iff in H. destruct H as [Hl Ha]. split.
  - intros x Hx. unfold dlinks_ok_b in Hl. rewrite forallb_forall in Hl.
    specialize (Hl x ltac:(unfold dids; apply in_seq; lia)).
    rewrite !andb_true_iff in Hl. destruct Hl as [[[H1 H2] H3] H4].
    split; [apply nodupb_NoDup; exact H1|]. split; [apply nodupb_NoDup; exact H2|]. split.
    + intros p Hp. rewrite forallb_forall in H3. specialize (H3 p Hp). apply andb_true_iff in H3.
      destruct H3 as [G1 G2]. split; [apply Nat.ltb_lt; exact G1 | apply memb_In; exact G2].
    + intros c Hc. rewrite forallb_forall in H4. specialize (H4 c Hc). apply andb_true_iff in H4.
      destruct H4 as [G1 G2]. split; [apply Nat.ltb_lt; exact G1 | apply memb_In; exact G2].
  - exists (surv s (dsize s) (dids (dsize s))). intros p c Hc Hp. apply surv_rank; [| unfold dids; apply in_seq; lia | exact Hp].
    unfold acyclic_b in Ha. destruct (peel_n s (dsize s) (dids (dsize s))); [reflexivity | discriminate].
Qed.

(* ------------------------------------------------------------------------------------------ *)
(** * Exactly which constructor calls are refused *)

Lemma existsb_false_inv : forall {A} (f : A -> bool) l, existsb f l = false -> forall x, In x l -> f x = false.
Proof.
  intros A f l H x Hx. apply not_true_is_false. intro Hf.
  assert (E : existsb f l = true) by (apply existsb_exists; exists x; split; assumption).
  rewrite H in E. discriminate.
Qed.

Lemma path_first_edge : forall s a b, path s a b -> exists m, In a (parents s m).
Proof. induction 1 as [a b H | a p b _ IH _]; [exists b; exact H | exact IH]. Qed.

(** DAGNode(nm, parents=pa, children=ca) with hooks that do not fail is accepted iff pa is a list,
    ca is iterable, and the property's `must_reject_b` is false (no non-node or repeated member, no
    child that is one of the parents or an ancestor of one of them) *)
Theorem construct_accepts_iff : forall cfg s nm pa ca, DWF s ->
  dop_in_range s (DNew nm pa ca DNoFault DNoFault) = true ->
  (snd (dstep cfg s (DNew nm pa ca DNoFault DNoFault)) = Ok <->
   carg_cont pa = DList /\ carg_cont ca <> DNonIter
   /\ must_reject_b s (DNew nm pa ca DNoFault DNoFault) = false).
Proof.
  intros cfg s nm pa ca W Hr. pose proof W as [L _]. split.
  - intros Hok. destruct (dstep cfg s (DNew nm pa ca DNoFault DNoFault)) as [s' out] eqn:E.
    cbn [snd] in Hok. subst out. split; [|split; [|eapply accepted_not_must_reject; eassumption]].
    + unfold dstep in E. rewrite Hr in E. cbn [negb] in E. unfold construct in E.
      destruct (set_parents cfg DNoFault (alloc s nm) (dsize s) (carg_cont pa) (carg_args pa)) as [s2 o2] eqn:E1.
      destruct o2; [|discriminate]. apply set_parents_ok_check in E1. unfold check_parents in E1.
      destruct (carg_cont pa); try discriminate. reflexivity.
    + unfold dstep in E. rewrite Hr in E. cbn [negb] in E. unfold construct in E.
      destruct (set_parents cfg DNoFault (alloc s nm) (dsize s) (carg_cont pa) (carg_args pa)) as [s2 o2].
      destruct o2; [|discriminate]. unfold set_children in E. intro Hc. rewrite Hc in E. discriminate.
  - intros [Hpl [Hci Hmr]]. unfold dstep. rewrite Hr. cbn [negb]. unfold construct.
    cbn [dop_in_range] in Hr. apply andb_true_iff in Hr. destruct Hr as [Hrp Hrc].
    cbn [must_reject_b] in Hmr. rewrite !orb_false_iff in Hmr.
    destruct Hmr as [[[[Hjp Hjc] Hndp] Hndc] Hloop].
    apply negb_false_iff, nodupb_NoDup in Hndp. apply negb_false_iff, nodupb_NoDup in Hndc.
    set (x := dsize s).
    pose proof (alloc_DWF s nm W) as W1.
    assert (Hnox : forall m, ~ In x (parents s m)).
    { intros m Hm. apply (l_bnd s L) in Hm. unfold x in Hm. lia. }
    (* the parents assignment on the fresh object is accepted *)
    assert (A1 : snd (set_parents cfg DNoFault (alloc s nm) x (carg_cont pa) (carg_args pa)) = Ok).
    { apply set_parents_accepts_iff; [exact W1|]. split; [exact Hpl|]. split; [exact Hjp|]. split; [exact Hndp|].
      intros p Hp. pose proof (ids_in_range s _ Hrp p Hp) as Hlt. split; [unfold x; lia|].
      intro Hpath. apply path_first_edge in Hpath. destruct Hpath as [m Hm].
      apply alloc_parents_In in Hm; [|exact W]. exact (Hnox m Hm). }
    pose proof (set_parents_DWF cfg DNoFault (alloc s nm) x (carg_cont pa) (carg_args pa) W1) as W2.
    destruct (set_parents cfg DNoFault (alloc s nm) x (carg_cont pa) (carg_args pa)) as [s2 o2] eqn:E1.
    cbn [fst snd] in *. subst o2.
    assert (W2' : DWF s2).
    { apply W2; [cbn; unfold x; lia|]. eapply range_mono; [|exact Hrp]. cbn. lia. }
    pose proof (set_parents_effect _ _ _ _ _ _ _ E1) as Eff.
    assert (Hpx : forall q, In q (parents s2 x) <-> In q (ids_of (carg_args pa))).
    { intros q. rewrite Eff, alloc_parents_In by exact W. split.
      - intros [H|[_ H]]; [exfalso; apply (l_bnd s L) in H; unfold x in H; lia | exact H].
      - intros H. right. split; [reflexivity | exact H]. }
    assert (Hold : forall q m, m <> x -> (In q (parents s2 m) <-> In q (parents s m))).
    { intros q m Hm. rewrite Eff, alloc_parents_In by exact W. split; [intros [H|[H _]]; [exact H | contradiction] | auto]. }
    assert (Hback : forall a b, path s2 a b -> b <> x -> path s a b).
    { intros a b Hp. induction Hp as [a b H | a p b _ IH H]; intros Hb.
      - apply path1. apply Hold; assumption.
      - apply Hold in H; [|exact Hb]. eapply pathS; [apply IH | exact H].
        apply (l_bnd s L) in H. unfold x. lia. }
    apply set_children_accepts_iff; [exact W2'|]. split; [exact Hci|]. split; [exact Hjc|]. split; [exact Hndc|].
    intros c Hc. pose proof (ids_in_range s _ Hrc c Hc) as Hlt. split; [unfold x; lia|].
    intro Hpath.
    assert (Hcl : forall p, In p (ids_of (carg_args pa)) -> closes_loop_b s p c = false).
    { intros p Hp. pose proof (existsb_false_inv _ _ Hloop c Hc) as H1. cbv beta in H1.
      exact (existsb_false_inv _ _ H1 p Hp). }
    inversion Hpath as [a b H | a p b Hp H]; subst.
    + apply Hpx in H. specialize (Hcl c H). unfold closes_loop_b in Hcl. rewrite Nat.eqb_refl in Hcl. discriminate.
    + apply Hpx in H. specialize (Hcl p H). unfold closes_loop_b in Hcl. apply orb_false_iff in Hcl. destruct Hcl as [_ Hre].
      assert (Hpne : p <> x) by (pose proof (ids_in_range s _ Hrp p H); unfold x; lia).
      apply Hback in Hp; [|exact Hpne]. apply reach_spec in Hp; [|exact W]. rewrite Hp in Hre. discriminate.
Qed.

(* ------------------------------------------------------------------------------------------ *)
(** * C20 with failing user hooks: the switch only matters for what the checks refuse *)

Lemma set_parents_strip : forall cfg1 cfg2 ft s c cont args,
  snd (set_parents cfg1 DNoFault s c cont args) = Ok ->
  set_parents cfg2 ft s c cont args = set_parents cfg1 ft s c cont args.
Proof.
  intros cfg1 cfg2 ft s c cont args H. unfold set_parents in *.
  destruct (check_parents s c cont args); [discriminate | reflexivity].
Qed.

Lemma set_children_strip : forall cfg1 cfg2 ft s p cont args,
  snd (set_children cfg1 DNoFault s p cont args) = Ok ->
  set_children cfg2 ft s p cont args = set_children cfg1 ft s p cont args.
Proof.
  intros cfg1 cfg2 ft s p cont args H. unfold set_children in *.
  destruct (materialise cont); [reflexivity|].
  destruct (check_children_loop s p args []); [discriminate | reflexivity].
Qed.

(** If the checks do not refuse the operation (the call with non-failing hooks is accepted), the
    operation -- whatever its hooks do: pass, fail before, fail after -- gives the same state and the
    same outcome under both settings of the switch; in particular the rollback is the same. *)
Theorem dag_hook_failure_irrelevant : forall cfg1 cfg2 s o,
  snd (dstep cfg1 s (strip_faults o)) = Ok -> dstep cfg2 s o = dstep cfg1 s o.
Proof.
  intros cfg1 cfg2 s o H. unfold dstep in *.
  assert (Hr : dop_in_range s (strip_faults o) = dop_in_range s o) by (destruct o; reflexivity).
  rewrite Hr in H. destruct (negb (dop_in_range s o)); [reflexivity|].
  destruct o as [c cont args ft | p cont args ft | p | p nm | p c ft | c p ft | nm pa ca ftp ftc];
    cbn [strip_faults] in H; try reflexivity.
  - apply set_parents_strip. exact H.
  - apply set_children_strip. exact H.
  - apply set_parents_strip. exact H.
  - apply set_parents_strip. exact H.
  - unfold construct in *.
    destruct (set_parents cfg1 DNoFault (alloc s nm) (dsize s) (carg_cont pa) (carg_args pa)) as [s2 o2] eqn:E1.
    destruct o2; [|discriminate].
    rewrite (set_parents_strip cfg1 cfg2 ftp) by (rewrite E1; reflexivity).
    assert (E2 : forall st, set_parents cfg1 ftp (alloc s nm) (dsize s) (carg_cont pa) (carg_args pa) = (st, Ok) -> st = s2).
    { intros st Hst. unfold set_parents in Hst, E1.
      destruct (check_parents (alloc s nm) (dsize s) (carg_cont pa) (carg_args pa)); [discriminate|].
      cbn [dfault_eqb] in E1. injection E1 as <-.
      destruct (dfault_eqb ftp DPreFail); [discriminate|]. destruct (dfault_eqb ftp DPostFail); [discriminate|].
      injection Hst as <-. reflexivity. }
    destruct (set_parents cfg1 ftp (alloc s nm) (dsize s) (carg_cont pa) (carg_args pa)) as [st ot].
    destruct ot; [|reflexivity]. rewrite (E2 st eq_refl). apply set_children_strip. exact H.
Qed.
