(* Bridge between the two kinds of model: the subtree hanging below a node of a well-formed heap
   state is a tagged rose tree (Base/Rose.v) whose tags are pairwise distinct and whose child lists
   are the heap's child lists.  Hence the theorems about the rose-tree algorithms (iterators, search,
   derived queries, exporters), which are stated for trees with distinct tags, apply to every state
   reachable through the structural API (C01_reachable). *)
From BT Require Import Base.Prelude Base.Str Base.Rose Heap.Forest Heap.ForestWF Heap.ForestOps
     Heap.ForestStep Heap.ForestNames.

Fixpoint tree_of (s : forest) (fuel : nat) (x : id) : tree :=
  match fuel with
  | 0 => T (Some x) (name s x) [] []
  | S f => T (Some x) (name s x) [] (map (tree_of s f) (kids s x))
  end.

(* the tree below x; fuel = size s + 1 is always enough on a well-formed state (tree_of_fuel) *)
Definition subtree (s : forest) (x : id) : tree := tree_of s (S (size s)) x.

Definition tags (t : tree) : list (option nat) := map ttag (pre t).

Lemma depth_child s c p : WF s -> par s c = Some p -> depth s c = S (depth s p).
Proof. intros W E. unfold depth. rewrite (WF_ancestors_unfold s c p W E). reflexivity. Qed.

Lemma depth_le_size s x : WF s -> x < size s -> depth s x <= size s.
Proof.
  intros W Hx. pose proof W as [_ _ Hb [r Hr]]. unfold depth.
  destruct (par s x) as [p|] eqn:E.
  - assert (H : length (anc s (size s) x) < size s) by (apply (anc_len_lt s r Hr Hb); [lia|congruence]).
    unfold ancestors. lia.
  - unfold ancestors. destruct (size s); [lia|]. cbn [anc]. rewrite E. cbn. lia.
Qed.

Lemma kids_nil_outside s x : WF s -> size s <= x -> kids s x = [].
Proof.
  intros W Hx. destruct (kids s x) as [|c l] eqn:E; [reflexivity|].
  assert (Hc : In c (kids s x)) by (rewrite E; left; reflexivity).
  apply (wf_link s W) in Hc. apply (wf_bound s W) in Hc. lia.
Qed.

(* surplus fuel does not change the tree *)
Lemma tree_of_stable s : WF s -> forall f x, size s < depth s x + f -> tree_of s (S f) x = tree_of s f x.
Proof.
  intros W. induction f as [|f IH]; intros x H.
  - cbn [tree_of]. destruct (Nat.lt_ge_cases x (size s)) as [Hx|Hx].
    + pose proof (depth_le_size s x W Hx). lia.
    + rewrite (kids_nil_outside s x W Hx). reflexivity.
  - change (tree_of s (S (S f)) x) with (T (Some x) (name s x) [] (map (tree_of s (S f)) (kids s x))).
    change (tree_of s (S f) x) with (T (Some x) (name s x) [] (map (tree_of s f) (kids s x))).
    f_equal. apply map_ext_in. intros c Hc. apply IH.
    apply (wf_link s W) in Hc. rewrite (depth_child s c x W Hc). lia.
Qed.

Theorem tree_of_fuel s x f : WF s -> size s <= f -> tree_of s (S f) x = tree_of s f x.
Proof.
  intros W Hf. apply tree_of_stable; [exact W|]. unfold depth. lia.
Qed.

Lemma tree_of_any_fuel s x f : WF s -> size s <= f -> tree_of s (S f) x = subtree s x.
Proof.
  intros W. unfold subtree. induction f as [|f IH]; intros Hf.
  - assert (size s = 0) by lia. rewrite H. reflexivity.
  - destruct (Nat.eq_dec (size s) (S f)) as [E|E]; [rewrite E; reflexivity|].
    rewrite tree_of_fuel by (try exact W; lia). apply IH. lia.
Qed.

(* the children of the root of `subtree s x` are the subtrees of the heap's children, in order *)
Theorem subtree_unfold s x : WF s ->
  subtree s x = T (Some x) (name s x) [] (map (subtree s) (kids s x)).
Proof.
  intros W. unfold subtree at 1. cbn [tree_of]. f_equal.
  apply map_ext. intros c. destruct (size s) as [|n] eqn:E.
  - unfold subtree. rewrite E. symmetry. apply tree_of_fuel; [exact W|lia].
  - rewrite <- E. change (tree_of s (size s) c) with (tree_of s (size s) c).
    unfold subtree. symmetry. apply tree_of_fuel; [exact W|lia].
Qed.

(* ---- membership: the tags of the subtree are x and the nodes having x among their ancestors ---- *)
Lemma tags_unfold s x : WF s ->
  tags (subtree s x) = Some x :: flat_map (fun c => tags (subtree s c)) (kids s x).
Proof.
  intros W. unfold tags. rewrite (subtree_unfold s x W). cbn [pre map ttag]. f_equal.
  induction (kids s x) as [|c l IH]; [reflexivity|].
  cbn [map flat_map]. rewrite map_app, IH. reflexivity.
Qed.

(* descendants by induction on the height: we use the rank-free measure `size - depth` *)
Lemma tags_members s : WF s -> forall n x y, size s < depth s x + n ->
  (In (Some y) (tags (subtree s x)) <-> y = x \/ In x (ancestors s y)).
Proof.
  intros W. induction n as [|n IH]; intros x y H.
  - (* x is outside the live ids or at maximal depth: no children *)
    destruct (Nat.lt_ge_cases x (size s)) as [Hx|Hx]; [pose proof (depth_le_size s x W Hx); lia|].
    rewrite (tags_unfold s x W), (kids_nil_outside s x W Hx). cbn [flat_map In]. split.
    + intros [[= ->]|[]]. left. reflexivity.
    + intros [->|Hin]; [left; reflexivity|]. exfalso.
      pose proof W as [_ _ Hb [r Hr]]. apply (anc_bound s Hb) in Hin. lia.
  - rewrite (tags_unfold s x W). cbn [In]. rewrite in_flat_map. split.
    + intros [[= ->]|[c [Hc Hy]]]; [left; reflexivity|]. right.
      apply (wf_link s W) in Hc.
      apply IH in Hy; [|rewrite (depth_child s c x W Hc); lia].
      destruct Hy as [->|Hy].
      * rewrite (WF_ancestors_unfold s c x W Hc). left. reflexivity.
      * (* x is the parent of an ancestor c of y *)
        clear - W Hc Hy. revert Hy. remember (ancestors s y) as l eqn:El. revert y El.
        induction l as [|p l IHl]; intros y El Hy; [contradiction|].
        assert (Ep : par s y = Some p).
        { destruct (par s y) as [q|] eqn:E.
          - rewrite (WF_ancestors_unfold s y q W E) in El. congruence.
          - unfold ancestors in El. destruct (size s); cbn [anc] in El; rewrite ?E in El; discriminate. }
        assert (El' : l = ancestors s p) by (rewrite (WF_ancestors_unfold s y p W Ep) in El; congruence).
        destruct Hy as [->|Hy].
        -- right. rewrite El'. rewrite (WF_ancestors_unfold s c x W Hc). left. reflexivity.
        -- right. apply (IHl p El' Hy).
    + intros [->|Hin]; [left; reflexivity|]. right.
      (* the last-but-x element of the chain from y is a child c of x with y in its subtree *)
      remember (ancestors s y) as l eqn:El. revert y El Hin.
      induction l as [|p l IHl]; intros y El Hin; [contradiction|].
      assert (Ep : par s y = Some p).
      { destruct (par s y) as [q|] eqn:E.
        - rewrite (WF_ancestors_unfold s y q W E) in El. congruence.
        - unfold ancestors in El. destruct (size s); cbn [anc] in El; rewrite ?E in El; discriminate. }
      assert (El' : l = ancestors s p) by (rewrite (WF_ancestors_unfold s y p W Ep) in El; congruence).
      destruct Hin as [->|Hin].
      * exists y. split; [apply (wf_link s W); exact Ep|].
        apply IH; [rewrite (depth_child s y x W Ep); lia|left; reflexivity].
      * destruct (IHl p El' Hin) as [c [Hc Hp]]. exists c. split; [exact Hc|].
        apply (wf_link s W) in Hc.
        apply IH; [rewrite (depth_child s c x W Hc); lia|].
        apply IH in Hp; [|rewrite (depth_child s c x W Hc); lia].
        right. rewrite (WF_ancestors_unfold s y p W Ep). destruct Hp as [->|Hp]; [left; reflexivity|right; exact Hp].
Qed.

Theorem subtree_members s x y : WF s ->
  In (Some y) (tags (subtree s x)) <-> y = x \/ In x (ancestors s y).
Proof. intros W. apply (tags_members s W (S (size s))). unfold depth. lia. Qed.

(* ---- the tags are pairwise distinct ---- *)
Lemma chain_comparable s : WF s -> forall l y a b,
  ancestors s y = l -> In a (y :: l) -> In b (y :: l) ->
  a = b \/ In a (ancestors s b) \/ In b (ancestors s a).
Proof.
  intros W. induction l as [|p l IH]; intros y a b El Ha Hb.
  - destruct Ha as [<-|[]]. destruct Hb as [<-|[]]. left. reflexivity.
  - assert (Ep : par s y = Some p).
    { destruct (par s y) as [q|] eqn:E.
      - rewrite (WF_ancestors_unfold s y q W E) in El. congruence.
      - unfold ancestors in El. destruct (size s); cbn [anc] in El; rewrite ?E in El; discriminate. }
    assert (El' : ancestors s p = l) by (rewrite (WF_ancestors_unfold s y p W Ep) in El; congruence).
    destruct Ha as [<-|Ha]; destruct Hb as [<-|Hb].
    + left. reflexivity.
    + right. right. rewrite El. exact Hb.
    + right. left. rewrite El. exact Ha.
    + apply (IH p a b El' Ha Hb).
Qed.

Lemma same_parent_in_chain s x y c1 c2 : WF s ->
  par s c1 = Some x -> par s c2 = Some x ->
  (c1 = y \/ In c1 (ancestors s y)) -> (c2 = y \/ In c2 (ancestors s y)) -> c1 = c2.
Proof.
  intros W E1 E2 H1 H2. pose proof W as [_ _ Hb [r Hr]].
  assert (Ha : In c1 (y :: ancestors s y)) by (destruct H1 as [->|H1]; [left; reflexivity|right; exact H1]).
  assert (Hb' : In c2 (y :: ancestors s y)) by (destruct H2 as [->|H2]; [left; reflexivity|right; exact H2]).
  destruct (chain_comparable s W (ancestors s y) y c1 c2 eq_refl Ha Hb') as [E|[H|H]]; [exact E| |]; exfalso.
  - rewrite (WF_ancestors_unfold s c2 x W E2) in H. destruct H as [<-|H].
    + pose proof (Hr _ _ E1). lia.
    + apply (anc_rank s r Hr) in H. pose proof (Hr _ _ E1). lia.
  - rewrite (WF_ancestors_unfold s c1 x W E1) in H. destruct H as [<-|H].
    + pose proof (Hr _ _ E2). lia.
    + apply (anc_rank s r Hr) in H. pose proof (Hr _ _ E2). lia.
Qed.

Lemma NoDup_app_intro {B} (a b : list B) :
  NoDup a -> NoDup b -> (forall y, In y a -> ~ In y b) -> NoDup (a ++ b).
Proof.
  induction a as [|y a IH]; intros Ha Hb Hd; cbn [app]; [exact Hb|].
  inversion Ha as [|? ? Hy Ha']; subst. constructor.
  - rewrite in_app_iff. intros [H|H]; [contradiction|]. apply (Hd y); [left; reflexivity|exact H].
  - apply IH; [exact Ha'|exact Hb|intros z Hz; apply Hd; right; exact Hz].
Qed.

Lemma NoDup_flat_map {A B} (f : A -> list B) (l : list A) :
  NoDup l -> (forall c, In c l -> NoDup (f c)) ->
  (forall c1 c2 y, In c1 l -> In c2 l -> In y (f c1) -> In y (f c2) -> c1 = c2) ->
  NoDup (flat_map f l).
Proof.
  induction l as [|c l IH]; intros Hnd Hf Hdis; cbn [flat_map]; [constructor|].
  inversion Hnd as [|? ? Hc Hl]; subst.
  apply NoDup_app_intro.
  - apply Hf. left. reflexivity.
  - apply IH; [exact Hl|intros; apply Hf; right; assumption|].
    intros c1 c2 y H1 H2. apply Hdis; right; assumption.
  - intros y Hy H. apply in_flat_map in H as [c2 [Hc2 Hy2]].
    assert (c = c2) by (apply (Hdis c c2 y); [left; reflexivity|right; exact Hc2|exact Hy|exact Hy2]).
    subst c2. contradiction.
Qed.

Lemma tags_all_some s : WF s -> forall n x g, size s < depth s x + n ->
  In g (tags (subtree s x)) -> exists y, g = Some y.
Proof.
  intros W. induction n as [|n IH]; intros x g H Hin; rewrite (tags_unfold s x W) in Hin.
  - destruct (Nat.lt_ge_cases x (size s)) as [Hx|Hx]; [pose proof (depth_le_size s x W Hx); lia|].
    rewrite (kids_nil_outside s x W Hx) in Hin. destruct Hin as [<-|[]]. eexists; reflexivity.
  - destruct Hin as [<-|Hin]; [eexists; reflexivity|].
    apply in_flat_map in Hin as [c [Hc Hg]]. apply (wf_link s W) in Hc.
    apply (IH c g); [rewrite (depth_child s c x W Hc); lia|exact Hg].
Qed.

Lemma tags_nodup_n s : WF s -> forall n x, size s < depth s x + n -> NoDup (tags (subtree s x)).
Proof.
  intros W. pose proof W as [_ _ Hb [r Hr]].
  induction n as [|n IH]; intros x H; rewrite (tags_unfold s x W).
  - destruct (Nat.lt_ge_cases x (size s)) as [Hx|Hx]; [pose proof (depth_le_size s x W Hx); lia|].
    rewrite (kids_nil_outside s x W Hx). cbn. constructor; [tauto|constructor].
  - assert (Hd : forall c, In c (kids s x) -> size s < depth s c + n).
    { intros c Hc. apply (wf_link s W) in Hc. rewrite (depth_child s c x W Hc). lia. }
    constructor.
    + intros Hin. apply in_flat_map in Hin as [c [Hc Hx]].
      pose proof Hc as Hc'. apply (wf_link s W) in Hc'.
      apply (subtree_members s c x W) in Hx. destruct Hx as [->|Hx].
      * pose proof (Hr _ _ Hc'). lia.
      * apply (anc_rank s r Hr) in Hx. pose proof (Hr _ _ Hc'). lia.
    + apply NoDup_flat_map; [apply (wf_nodup s W)|intros c Hc; apply IH, Hd, Hc|].
      intros c1 c2 g H1 H2 Hg1 Hg2.
      destruct (tags_all_some s W n c1 g (Hd c1 H1) Hg1) as [y ->].
      apply (subtree_members s c1 y W) in Hg1. apply (subtree_members s c2 y W) in Hg2.
      apply (wf_link s W) in H1, H2.
      apply (same_parent_in_chain s x y c1 c2 W H1 H2);
        [destruct Hg1 as [->|Hg1]; [left; reflexivity|right; exact Hg1]
        |destruct Hg2 as [->|Hg2]; [left; reflexivity|right; exact Hg2]].
Qed.

(* the tags of the tree below any node of a well-formed state are pairwise distinct *)
Theorem subtree_tags_nodup s x : WF s -> NoDup (tags (subtree s x)).
Proof. intros W. apply (tags_nodup_n s W (S (size s))). unfold depth. lia. Qed.

(* in every state reachable through the structural API, below every node *)
Theorem reachable_subtree_is_rose_tree cfg n names seps ops x :
  let s := run cfg (init n names seps) ops in
  NoDup (tags (subtree s x))
  /\ subtree s x = T (Some x) (name s x) [] (map (subtree s) (kids s x))
  /\ (forall y, In (Some y) (tags (subtree s x)) <-> y = x \/ In x (ancestors s y)).
Proof.
  intros s. assert (W : WF s) by (apply run_WF, WF_init).
  split; [apply subtree_tags_nodup; exact W|]. split; [apply subtree_unfold; exact W|].
  intros y. apply subtree_members. exact W.
Qed.
