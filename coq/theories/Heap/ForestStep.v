(* Step-level and history-level theorems for the forest model (C01, C02, C20 forest part). *)
From Coq Require Import Sorting.Permutation.
From BT Require Import Base.Prelude Base.Str Heap.Forest Heap.ForestWF Heap.ForestOps Heap.ForestRollback.

(* ---------------- children setter ---------------- *)
Definition children_checked (s : forest) (p : id) (cont : container) (args : list arg) : option exn :=
  match cont with COther => Some TypeError | _ => check_children s p args [] end.

Theorem set_children_cases cfg ft s p cont args :
  let r := set_children cfg ft s p cont args in
  (snd r = Ok /\ fst r = assign_children s p (ids_of args) /\ children_checked s p cont args = None /\ ft = NoFault)
  \/ (snd r <> Ok /\ fst r = s)
  \/ (snd r = Err TreeError /\ ft = PostFail /\ children_checked s p cont args = None
      /\ fst r = children_rollback s (assign_children s p (ids_of args)) p (ids_of args)).
Proof.
  unfold set_children. fold (children_checked s p cont args).
  destruct (children_checked s p cont args) as [e|]; [right; left; split; [discriminate|reflexivity]|].
  destruct ft; cbn [fault_eqb].
  - destruct (is_node cfg && dup_names s (ids_of args)); [right; left; split; [discriminate|reflexivity]|].
    left. repeat split; reflexivity.
  - right; left. split; [discriminate|reflexivity].
  - destruct (is_node cfg && dup_names s (ids_of args)); [right; left; split; [discriminate|reflexivity]|].
    right; right. repeat split; reflexivity.
Qed.

Lemma ids_of_in_range s args x :
  forallb (arg_in_range s) args = true -> In x (ids_of args) -> x < size s.
Proof.
  induction args as [|a args IH]; cbn [forallb ids_of]; intros H Hx; [contradiction|].
  apply andb_true_iff in H as [H1 H2]. destruct a as [y| |]; cbn [ids_of] in Hx.
  - destruct Hx as [<-|Hx]; [apply Nat.ltb_lt; exact H1|apply IH; assumption].
  - apply IH; assumption.
  - apply IH; assumption.
Qed.

Lemma checked_valid s p cont args :
  children_checked s p cont args = None -> forallb (arg_in_range s) args = true ->
  valid_children s p (ids_of args).
Proof.
  intros H Hr. unfold children_checked in H.
  assert (Hc : check_children s p args [] = None) by (destruct cont; congruence).
  destruct (check_children_ok s p args [] Hc) as [_ [H2 [_ [H4 H5]]]].
  split; [exact H2|]. split; [exact H4|]. intros x Hx. split; [apply (ids_of_in_range s args); assumption|apply H5; exact Hx].
Qed.

Theorem set_children_WF cfg ft s p cont args :
  WF s -> p < size s -> forallb (arg_in_range s) args = true ->
  WF (fst (set_children cfg ft s p cont args)).
Proof.
  intros W Hp Hr.
  destruct (set_children_cases cfg ft s p cont args) as [[_ [-> [Hc _]]]|[[_ ->]|[_ [_ [Hc ->]]]]].
  - apply assign_children_spec; [exact W|exact Hp|apply (checked_valid s p cont args); assumption].
  - exact W.
  - apply (WF_same s); [|exact W]. apply same_sym, children_rollback_same;
      [exact W|exact Hp|apply (checked_valid s p cont args); assumption].
Qed.

Theorem set_children_atomic cfg ft s p cont args :
  WF s -> p < size s -> forallb (arg_in_range s) args = true ->
  snd (set_children cfg ft s p cont args) <> Ok -> same (fst (set_children cfg ft s p cont args)) s.
Proof.
  intros W Hp Hr H.
  destruct (set_children_cases cfg ft s p cont args) as [[E _]|[[_ ->]|[_ [_ [Hc ->]]]]].
  - contradiction.
  - apply same_refl.
  - apply children_rollback_same; [exact W|exact Hp|apply (checked_valid s p cont args); assumption].
Qed.

(* what the children guards reject (checks on): a non-node member, the node itself, one of its
   ancestors, a repeated child, a container that is no list/tuple/set *)
Theorem set_children_rejects cfg ft s p cont args :
  assertions cfg = true ->
  (cont = COther \/ In AJunk args \/ In ANone args \/ In (ANode p) args
   \/ (exists x, In (ANode x) args /\ In x (ancestors s p)) \/ ~ NoDup (ids_of args)) ->
  exists e, set_children cfg ft s p cont args = (s, Err e).
Proof.
  intros A H. unfold set_children. fold (children_checked s p cont args). rewrite A.
  destruct (children_checked s p cont args) as [e|] eqn:Hc; [eexists; reflexivity|exfalso].
  unfold children_checked in Hc.
  destruct H as [->|H]; [discriminate|].
  assert (Hc' : check_children s p args [] = None) by (destruct cont; congruence).
  destruct (check_children_ok s p args [] Hc') as [H1 [H2 [_ [H4 H5]]]].
  assert (Hids : forall x, In (ANode x) args -> In x (ids_of args)).
  { clear. induction args as [|a args IH]; intros x Hx; [contradiction|].
    destruct Hx as [->|Hx]; [left; reflexivity|]. destruct a; cbn [ids_of]; [right|idtac|idtac]; apply IH; exact Hx. }
  destruct H as [H|[H|[H|[[x [Hx Ha]]|H]]]].
  - destruct (H1 _ H) as [x Hx]. discriminate.
  - destruct (H1 _ H) as [x Hx]. discriminate.
  - apply H4, Hids, H.
  - apply (H5 x); [apply Hids; exact Hx|exact Ha].
  - contradiction.
Qed.

(* ---------------- sort ---------------- *)
Lemma ins_key_perm key x l : Permutation (ins_key key x l) (x :: l).
Proof.
  induction l as [|h t IH]; cbn [ins_key]; [reflexivity|].
  destruct (Nat.leb (key x) (key h)); [reflexivity|].
  transitivity (h :: x :: t); [constructor; exact IH|constructor].
Qed.

Lemma stable_sort_perm key l : Permutation (stable_sort key l) l.
Proof.
  induction l as [|h t IH]; cbn [stable_sort fold_right]; [constructor|].
  fold (stable_sort key t). transitivity (h :: stable_sort key t); [apply ins_key_perm|constructor; exact IH].
Qed.

(* sort only permutes the child list: same members *)
Theorem py_sort_perm key rv l : Permutation (py_sort key rv l) l.
Proof.
  unfold py_sort. destruct rv; [|apply stable_sort_perm].
  transitivity (stable_sort key (rev l)); [symmetry; apply Permutation_rev|].
  transitivity (rev l); [apply stable_sort_perm|symmetry; apply Permutation_rev].
Qed.

Lemma set_kids_perm_WF s p l : WF s -> Permutation l (kids s p) -> WF (set_kids s p l).
Proof.
  intros [Hl Hn Hb Ha] Hperm. constructor; cbn [par kids set_kids size].
  - intros q c. destruct (Nat.eq_dec q p) as [->|Hq].
    + rewrite upd_same. rewrite <- Hl. split; intros H.
      * apply (Permutation_in _ Hperm). exact H.
      * apply (Permutation_in _ (Permutation_sym Hperm)). exact H.
    + rewrite upd_other by exact Hq. apply Hl.
  - intros q. destruct (Nat.eq_dec q p) as [->|Hq].
    + rewrite upd_same. apply (Permutation_NoDup (Permutation_sym Hperm)). apply Hn.
    + rewrite upd_other by exact Hq. apply Hn.
  - exact Hb.
  - exact Ha.
Qed.

(* ---------------- extend ---------------- *)
Lemma extend_loop_WF cfg p : forall cs fts s,
  WF s -> p < size s -> forallb (in_range s) cs = true -> WF (fst (extend_loop cfg s p cs fts)).
Proof.
  induction cs as [|c cs IH]; intros fts s W Hp Hr; cbn [extend_loop]; [exact W|].
  cbn [forallb] in Hr. apply andb_true_iff in Hr as [Hc Hr]. apply Nat.ltb_lt in Hc.
  pose proof (set_parent_WF cfg (hd NoFault fts) s c (ANode p) W Hc) as W1.
  destruct (set_parent cfg (hd NoFault fts) s c (ANode p)) as [s1 o1] eqn:E. cbn [fst] in W1.
  assert (Hsz : size s1 = size s).
  { destruct (set_parent_cases cfg (hd NoFault fts) s c (ANode p)) as [[_ [H _]]|[[_ H]|[_ [_ [_ [_ H]]]]]];
      rewrite E in H; cbn [fst] in H; subst s1; [apply attach_size|reflexivity|].
    unfold attach_rollback. destruct (np_of (ANode p)), (par s c); cbn [size set_kids set_par]; apply attach_size. }
  assert (W1' : WF s1) by (apply W1; intros q [= <-]; exact Hp).
  destruct o1; [|exact W1'].
  apply IH; [exact W1'|rewrite Hsz; exact Hp|].
  rewrite <- Hr. clear - Hsz. induction cs as [|x cs IHcs]; cbn [forallb]; [reflexivity|].
  rewrite IHcs. unfold in_range. rewrite Hsz. reflexivity.
Qed.

(* ---------------- every operation preserves the invariant ---------------- *)
Theorem step_WF cfg s o : WF s -> WF (fst (step cfg s o)).
Proof.
  intros W. unfold step. destruct (op_in_range s o) eqn:R; cbn [negb]; [|exact W].
  destruct o; cbn [op_in_range] in R.
  - apply andb_true_iff in R as [R1 R2]. apply Nat.ltb_lt in R1.
    apply set_parent_WF; [exact W|exact R1|]. intros p ->. apply Nat.ltb_lt. exact R2.
  - apply andb_true_iff in R as [R1 R2]. apply Nat.ltb_lt in R1. apply set_children_WF; assumption.
  - apply del_children_spec. exact W.
  - apply andb_true_iff in R as [R1 R2]. apply Nat.ltb_lt in R1, R2.
    apply set_parent_WF; [exact W|exact R2|]. intros q [= <-]. exact R1.
  - apply andb_true_iff in R as [R1 R2]. apply Nat.ltb_lt in R1. apply extend_loop_WF; assumption.
  - apply andb_true_iff in R as [R1 R2]. apply Nat.ltb_lt in R1, R2.
    apply set_parent_WF; [exact W|exact R2|]. intros q [= <-]. exact R1.
  - apply andb_true_iff in R as [R1 R2]. apply Nat.ltb_lt in R1, R2.
    apply set_parent_WF; [exact W|exact R2|]. intros q [= <-]. exact R1.
  - destruct (is_node cfg); cbn [negb]; [|exact W].
    destruct (filter (fun k => str_eqb (name s k) nm) (kids s p)) as [|c [|c' l]] eqn:F; [exact W| |exact W].
    assert (Hc : In c (kids s p)).
    { assert (H : In c (filter (fun k => str_eqb (name s k) nm) (kids s p))) by (rewrite F; left; reflexivity).
      apply filter_In in H. tauto. }
    apply (wf_link s W) in Hc. apply set_parent_WF; [exact W|apply (wf_bound s W c p Hc)|intros q [=]].
  - destruct (sort_raises keys (kids s p)); cbn [fst]; [exact W|].
    apply set_kids_perm_WF; [exact W|apply py_sort_perm].
  - destruct (is_node cfg); cbn [negb fst]; [|exact W].
    destruct W as [Hl Hn Hb Ha]. constructor; assumption.
Qed.

Theorem run_WF cfg ops : forall s, WF s -> WF (run cfg s ops).
Proof.
  unfold run. induction ops as [|o ops IH]; intros s W; cbn [fold_left]; [exact W|].
  apply IH. apply step_WF. exact W.
Qed.

(* ---------------- C02: a single assignment that is rejected or fails changes nothing ---------------- *)
Definition single_assignment (o : op) : bool :=
  match o with Extend _ _ _ => false | _ => true end.

Theorem step_atomic cfg s o :
  WF s -> single_assignment o = true -> snd (step cfg s o) <> Ok -> same (fst (step cfg s o)) s.
Proof.
  intros W Hs H. unfold step in *. destruct (op_in_range s o) eqn:R; cbn [negb] in *; [|apply same_refl].
  destruct o; cbn [op_in_range] in R; try discriminate Hs.
  - apply set_parent_atomic; assumption.
  - apply andb_true_iff in R as [R1 R2]. apply Nat.ltb_lt in R1. apply set_children_atomic; assumption.
  - cbn [snd] in H. contradiction.
  - apply set_parent_atomic; assumption.
  - apply set_parent_atomic; assumption.
  - apply set_parent_atomic; assumption.
  - destruct (is_node cfg); cbn [negb] in *; [|apply same_refl].
    destruct (filter (fun k => str_eqb (name s k) nm) (kids s p)) as [|c [|c' l]]; [apply same_refl| |apply same_refl].
    apply set_parent_atomic; assumption.
  - destruct (sort_raises keys (kids s p)); cbn [fst snd] in *; [apply same_refl|contradiction].
  - destruct (is_node cfg); cbn [negb snd] in *; [contradiction|apply same_refl].
Qed.

(* ---------------- C20: the assertion switch is a pure guard ---------------- *)
Definition with_assert (cfg : config) (b : bool) : config := {| assertions := b; is_node := is_node cfg |}.

Lemma set_parent_switch cfg ft s c a :
  snd (set_parent (with_assert cfg true) ft s c a) = Ok ->
  set_parent (with_assert cfg false) ft s c a = set_parent (with_assert cfg true) ft s c a.
Proof.
  unfold set_parent. cbn [assertions is_node with_assert]. destruct a; [| |discriminate].
  - destruct (parent_loop s c (Some i)); [discriminate|reflexivity].
  - reflexivity.
Qed.

Lemma set_children_switch cfg ft s p cont args :
  snd (set_children (with_assert cfg true) ft s p cont args) = Ok ->
  set_children (with_assert cfg false) ft s p cont args = set_children (with_assert cfg true) ft s p cont args.
Proof.
  unfold set_children. cbn [assertions is_node with_assert].
  destruct (match cont with COther => Some TypeError | _ => check_children s p args [] end); [discriminate|reflexivity].
Qed.

Lemma extend_switch cfg p : forall cs fts s,
  snd (extend_loop (with_assert cfg true) s p cs fts) = Ok ->
  extend_loop (with_assert cfg false) s p cs fts = extend_loop (with_assert cfg true) s p cs fts.
Proof.
  induction cs as [|c cs IH]; intros fts s H; cbn [extend_loop] in *; [reflexivity|].
  destruct (set_parent (with_assert cfg true) (hd NoFault fts) s c (ANode p)) as [s1 o1] eqn:E.
  destruct o1; [|discriminate].
  rewrite set_parent_switch by (rewrite E; reflexivity). rewrite E. apply IH. exact H.
Qed.

Theorem step_switch cfg s o :
  snd (step (with_assert cfg true) s o) = Ok ->
  step (with_assert cfg false) s o = step (with_assert cfg true) s o.
Proof.
  unfold step. destruct (op_in_range s o); cbn [negb]; [|discriminate].
  destruct o; cbn [is_node with_assert]; intros H;
    first [ apply set_parent_switch; exact H
          | apply set_children_switch; exact H
          | apply extend_switch; exact H
          | reflexivity
          | (destruct (is_node cfg); cbn [negb] in *; [|discriminate];
             destruct (filter (fun k => str_eqb (name s k) nm) (kids s p)) as [|c [|c' l]]; try reflexivity;
             apply set_parent_switch; exact H) ].
Qed.

(* C01 effect of an accepted children assignment, stated on the setter itself *)
Theorem set_children_effect cfg ft s p cont args s' :
  WF s -> p < size s -> forallb (arg_in_range s) args = true ->
  set_children cfg ft s p cont args = (s', Ok) ->
  let news := ids_of args in
  size s' = size s
  /\ (forall x, par s' x = if memb x news then Some p
                           else if memb x (kids s p) then None else par s x)
  /\ kids s' p = news
  /\ (forall q, q <> p -> kids s' q = filter (notin news) (kids s q)).
Proof.
  intros W Hp Hr E news.
  destruct (set_children_cases cfg ft s p cont args) as [[_ [H [Hc _]]]|[[H _]|[H _]]];
    rewrite E in H; cbn [fst snd] in H; try congruence.
  subst s'. destruct (assign_children_spec s p news W Hp (checked_valid s p cont args Hc Hr)) as [_ [H1 [H2 [H3 H4]]]].
  auto.
Qed.

Theorem sort_effect s p keys rv :
  let s' := set_kids s p (py_sort (key_of keys) rv (kids s p)) in
  Permutation (kids s' p) (kids s p)
  /\ (forall q, q <> p -> kids s' q = kids s q) /\ (forall x, par s' x = par s x).
Proof.
  cbn [kids par set_kids]. split; [rewrite upd_same; apply py_sort_perm|].
  split; [intros q Hq; apply upd_other; exact Hq|reflexivity].
Qed.

(* the whole sort operation: a comparison that raises leaves everything as it was (BaseNode.sort sorts a copy) *)
Theorem sort_step_effect cfg s p keys rv : in_range s p = true ->
  let r := step cfg s (Sort p keys rv) in
  (sort_raises keys (kids s p) = true -> r = (s, Err TypeError))
  /\ (sort_raises keys (kids s p) = false ->
      snd r = Ok /\ kids (fst r) p = py_sort (key_of keys) rv (kids s p)
      /\ Permutation (kids (fst r) p) (kids s p)
      /\ (forall q, q <> p -> kids (fst r) q = kids s q) /\ (forall x, par (fst r) x = par s x)).
Proof.
  intros R r. unfold r, step. cbn [op_in_range]. rewrite R. cbn [negb].
  split; intros E; rewrite E; [reflexivity|]. cbn [fst snd].
  split; [reflexivity|]. split; [cbn [kids set_kids]; apply upd_same|].
  apply (sort_effect s p keys rv).
Qed.

(* The checks are pure guards, stated the other way round: wherever the run with the checks OFF does
   not leave the modelled domain (i.e. no type/loop check would have fired), the run with the checks
   ON computes exactly the same state and outcome - hook failures and their rollbacks included. *)
Lemma set_parent_guards_pure cfg ft s c a :
  snd (set_parent (with_assert cfg false) ft s c a) <> Err Unmodelled ->
  set_parent (with_assert cfg true) ft s c a = set_parent (with_assert cfg false) ft s c a.
Proof.
  unfold set_parent. cbn [assertions is_node with_assert]. destruct a; cbn [snd].
  - destruct (parent_loop s c (Some i)); cbn [snd]; [intros H; exfalso; apply H; reflexivity|reflexivity].
  - reflexivity.
  - intros H. exfalso. apply H. reflexivity.
Qed.

Lemma set_children_guards_pure cfg ft s p cont args :
  snd (set_children (with_assert cfg false) ft s p cont args) <> Err Unmodelled ->
  set_children (with_assert cfg true) ft s p cont args = set_children (with_assert cfg false) ft s p cont args.
Proof.
  unfold set_children. cbn [assertions is_node with_assert].
  destruct (match cont with COther => Some TypeError | _ => check_children s p args [] end); cbn [snd];
    [intros H; exfalso; apply H; reflexivity|reflexivity].
Qed.

Lemma extend_guards_pure cfg p : forall cs fts s,
  snd (extend_loop (with_assert cfg false) s p cs fts) <> Err Unmodelled ->
  extend_loop (with_assert cfg true) s p cs fts = extend_loop (with_assert cfg false) s p cs fts.
Proof.
  induction cs as [|c cs IH]; intros fts s H; cbn [extend_loop] in *; [reflexivity|].
  destruct (set_parent (with_assert cfg false) (hd NoFault fts) s c (ANode p)) as [s1 o1] eqn:E.
  assert (Ho : o1 <> Err Unmodelled).
  { destruct o1 as [|e]; [discriminate|]. cbn [snd] in H. exact H. }
  rewrite set_parent_guards_pure by (rewrite E; exact Ho). rewrite E.
  destruct o1; [apply IH; exact H|reflexivity].
Qed.

Theorem step_guards_pure cfg s o :
  snd (step (with_assert cfg false) s o) <> Err Unmodelled ->
  step (with_assert cfg true) s o = step (with_assert cfg false) s o.
Proof.
  unfold step. destruct (op_in_range s o); cbn [negb]; [|reflexivity].
  destruct o; cbn [is_node with_assert]; intros H;
    first [ apply set_parent_guards_pure; exact H
          | apply set_children_guards_pure; exact H
          | apply extend_guards_pure; exact H
          | reflexivity
          | (destruct (is_node cfg); cbn [negb] in *; [|reflexivity];
             destruct (filter (fun k => str_eqb (name s k) nm) (kids s p)) as [|c [|c' l]]; try reflexivity;
             apply set_parent_guards_pure; exact H) ].
Qed.
