(* Bridge between the heap model of BinaryNode (Heap/Binary.v) and the binary trees `btree` of
   Spec/PC04.v: the subtree hanging below a node of a well-formed two-slot heap state (BWF,
   Heap/BinaryProofs.v) is a `btree` whose slots are the heap's slots and whose image `img` (the
   ordered tree without the empty slots) has pairwise distinct tags.  Hence the traversal theorems
   of C04 for binary trees, stated under `tags_distinct (img b) = true`, apply to every state
   reachable through the BinaryNode API.  Same construction as Heap/Abs.v for the Node heap. *)
From BT Require Import Base.Prelude Base.Rose Heap.Forest Heap.Binary Heap.BinaryProofs Heap.Abs Spec.PC04.

Fixpoint btree_of (s : bheap) (fuel : nat) (x : id) : btree :=
  match fuel with
  | 0 => B (Some x) None None
  | S f => B (Some x) (option_map (btree_of s f) (slot (bkids s x) 0))
                      (option_map (btree_of s f) (slot (bkids s x) 1))
  end.

(* the binary tree below x; fuel = bsize s + 1 is always enough on a well-formed state *)
Definition bsubtree (s : bheap) (x : id) : btree := btree_of s (S (bsize s)) x.

Definition bdepth (s : bheap) (x : id) : nat := S (length (bancestors s x)).

(* ---- the parent chain under BWF ---- *)
Lemma BWF_bancestors_unfold s c p : BWF s -> bpar s c = Some p -> bancestors s c = p :: bancestors s p.
Proof. intros [_ _ _ _ Hb [r Hr]]. apply (bancestors_unfold s r Hr Hb). Qed.

Lemma bancestors_cons_inv s y p l : BWF s -> bancestors s y = p :: l ->
  bpar s y = Some p /\ l = bancestors s p.
Proof.
  intros W El. destruct (bpar s y) as [q|] eqn:E.
  - rewrite (BWF_bancestors_unfold s y q W E) in El. injection El as -> <-. split; reflexivity.
  - unfold bancestors in El. destruct (bsize s); cbn [banc] in El; rewrite ?E in El; discriminate.
Qed.

Lemma bdepth_child s c p : BWF s -> bpar s c = Some p -> bdepth s c = S (bdepth s p).
Proof. intros W E. unfold bdepth. rewrite (BWF_bancestors_unfold s c p W E). reflexivity. Qed.

Lemma bdepth_le_size s x : BWF s -> x < bsize s -> bdepth s x <= bsize s.
Proof.
  intros W Hx. pose proof W as [_ _ _ _ Hb [r Hr]]. unfold bdepth.
  destruct (bpar s x) as [p|] eqn:E.
  - assert (H : length (banc s (bsize s) x) < bsize s)
      by (apply (banc_len_lt s r Hr Hb); [lia|congruence]).
    unfold bancestors. lia.
  - unfold bancestors. destruct (bsize s); [lia|]. cbn [banc]. rewrite E. cbn. lia.
Qed.

Lemma bslot_child s x i c : BWF s -> slot (bkids s x) i = Some c -> bpar s c = Some x.
Proof. intros W. apply (bw_down s W). Qed.

Lemma bslot_none_outside s x i : BWF s -> bsize s <= x -> slot (bkids s x) i = None.
Proof.
  intros W Hx. destruct (slot (bkids s x) i) as [c|] eqn:E; [|reflexivity].
  apply (bw_down s W) in E. apply (bw_bound s W) in E. lia.
Qed.

(* ---- fuel ---- *)
Lemma btree_of_S s f x :
  btree_of s (S f) x = B (Some x) (option_map (btree_of s f) (slot (bkids s x) 0))
                                  (option_map (btree_of s f) (slot (bkids s x) 1)).
Proof. reflexivity. Qed.

Lemma option_map_ext_slot s x i (g h : id -> btree) :
  (forall c, slot (bkids s x) i = Some c -> g c = h c) ->
  option_map g (slot (bkids s x) i) = option_map h (slot (bkids s x) i).
Proof.
  intros H. destruct (slot (bkids s x) i) as [c|]; [|reflexivity].
  cbn [option_map]. f_equal. apply H. reflexivity.
Qed.

(* surplus fuel does not change the tree *)
Lemma btree_of_stable s : BWF s -> forall f x, bsize s < bdepth s x + f -> btree_of s (S f) x = btree_of s f x.
Proof.
  intros W. induction f as [|f IH]; intros x H.
  - destruct (Nat.lt_ge_cases x (bsize s)) as [Hx|Hx].
    + pose proof (bdepth_le_size s x W Hx). lia.
    + rewrite btree_of_S. rewrite !(bslot_none_outside s x _ W Hx). reflexivity.
  - rewrite (btree_of_S s (S f) x), (btree_of_S s f x). f_equal.
    + apply option_map_ext_slot. intros c Hc. apply IH.
      rewrite (bdepth_child s c x W (bslot_child s x 0 c W Hc)). lia.
    + apply option_map_ext_slot. intros c Hc. apply IH.
      rewrite (bdepth_child s c x W (bslot_child s x 1 c W Hc)). lia.
Qed.

Theorem btree_of_fuel s x f : BWF s -> bsize s <= f -> btree_of s (S f) x = btree_of s f x.
Proof. intros W Hf. apply btree_of_stable; [exact W|]. unfold bdepth. lia. Qed.

(* (a) *)
Theorem btree_of_any_fuel s x f : BWF s -> bsize s <= f -> btree_of s (S f) x = bsubtree s x.
Proof.
  intros W. unfold bsubtree. induction f as [|f IH]; intros Hf.
  - assert (E : bsize s = 0) by lia. rewrite E. reflexivity.
  - destruct (Nat.eq_dec (bsize s) (S f)) as [E|E]; [rewrite E; reflexivity|].
    rewrite btree_of_fuel by (try exact W; lia). apply IH. lia.
Qed.

(* (b) the slots of the root of `bsubtree s x` are the subtrees of the heap's slots *)
Theorem bsubtree_unfold s x : BWF s ->
  bsubtree s x = B (Some x) (option_map (bsubtree s) (slot (bkids s x) 0))
                            (option_map (bsubtree s) (slot (bkids s x) 1)).
Proof.
  intros W. unfold bsubtree at 1. rewrite btree_of_S. f_equal.
  - apply option_map_ext_slot. intros c _. unfold bsubtree. symmetry. apply btree_of_fuel; [exact W|lia].
  - apply option_map_ext_slot. intros c _. unfold bsubtree. symmetry. apply btree_of_fuel; [exact W|lia].
Qed.

(* ---- the (non-empty) children of a node ---- *)
Definition bchildren (s : bheap) (x : id) : list id := somes (bkids s x).

Lemma bchildren_link s x c : BWF s -> In c (bchildren s x) <-> bpar s c = Some x.
Proof.
  intros W. unfold bchildren. rewrite somes_In. split.
  - intros H. apply In_slot in H. destruct H as [i Hi]. exact (bw_down s W _ _ _ Hi).
  - intros H. destruct (bw_up s W _ _ H) as [i Hi]. exact (slot_In _ _ _ Hi).
Qed.

Lemma bchildren_nodup s x : BWF s -> NoDup (bchildren s x).
Proof.
  intros W. unfold bchildren. pose proof (bw_once s W x) as Ho.
  destruct (len2 _ (bw_len s W x)) as [a [b E]]. rewrite E in *.
  destruct a as [c1|]; destruct b as [c2|]; cbn [somes].
  - constructor; [|constructor; [intros []|constructor]].
    intros [->|[]]. specialize (Ho 0 1 c1 eq_refl eq_refl). discriminate.
  - constructor; [intros []|constructor].
  - constructor; [intros []|constructor].
  - constructor.
Qed.

Lemma bchildren_nil_outside s x : BWF s -> bsize s <= x -> bchildren s x = [].
Proof.
  intros W Hx. destruct (bchildren s x) as [|c l] eqn:E; [reflexivity|].
  assert (Hc : In c (bchildren s x)) by (rewrite E; left; reflexivity).
  apply (bchildren_link s x c W) in Hc. apply (bw_bound s W) in Hc. lia.
Qed.

(* ---- membership: the tags of the subtree are x and the nodes having x among their ancestors ---- *)
Lemma btags_unfold s x : BWF s ->
  tags (img (bsubtree s x)) = Some x :: flat_map (fun c => tags (img (bsubtree s c))) (bchildren s x).
Proof.
  intros W. unfold tags, bchildren. rewrite (bsubtree_unfold s x W).
  destruct (len2 _ (bw_len s W x)) as [a [b E]]. rewrite E. rewrite !slot2.
  destruct a as [c1|]; destruct b as [c2|];
    cbn [option_map img oslot app pre flat_map map ttag somes]; rewrite ?app_nil_r, ?map_app; reflexivity.
Qed.

Lemma btags_members s : BWF s -> forall n x y, bsize s < bdepth s x + n ->
  (In (Some y) (tags (img (bsubtree s x))) <-> y = x \/ In x (bancestors s y)).
Proof.
  intros W. induction n as [|n IH]; intros x y H.
  - destruct (Nat.lt_ge_cases x (bsize s)) as [Hx|Hx]; [pose proof (bdepth_le_size s x W Hx); lia|].
    rewrite (btags_unfold s x W), (bchildren_nil_outside s x W Hx). cbn [flat_map In]. split.
    + intros [[= ->]|[]]. left. reflexivity.
    + intros [->|Hin]; [left; reflexivity|]. exfalso.
      pose proof W as [_ _ _ _ Hb _]. apply (banc_bound s Hb) in Hin. lia.
  - rewrite (btags_unfold s x W). cbn [In]. rewrite in_flat_map. split.
    + intros [[= ->]|[c [Hc Hy]]]; [left; reflexivity|]. right.
      apply (bchildren_link s x c W) in Hc.
      apply IH in Hy; [|rewrite (bdepth_child s c x W Hc); lia].
      destruct Hy as [->|Hy].
      * rewrite (BWF_bancestors_unfold s c x W Hc). left. reflexivity.
      * clear - W Hc Hy. revert Hy. remember (bancestors s y) as l eqn:El. revert y El.
        induction l as [|p l IHl]; intros y El Hy; [contradiction|].
        destruct (bancestors_cons_inv s y p l W (eq_sym El)) as [Ep El'].
        destruct Hy as [->|Hy].
        -- right. rewrite El'. rewrite (BWF_bancestors_unfold s c x W Hc). left. reflexivity.
        -- right. apply (IHl p El' Hy).
    + intros [->|Hin]; [left; reflexivity|]. right.
      remember (bancestors s y) as l eqn:El. revert y El Hin.
      induction l as [|p l IHl]; intros y El Hin; [contradiction|].
      destruct (bancestors_cons_inv s y p l W (eq_sym El)) as [Ep El'].
      destruct Hin as [->|Hin].
      * exists y. split; [apply (bchildren_link s x y W); exact Ep|].
        apply IH; [rewrite (bdepth_child s y x W Ep); lia|left; reflexivity].
      * destruct (IHl p El' Hin) as [c [Hc Hp]]. exists c. split; [exact Hc|].
        apply (bchildren_link s x c W) in Hc.
        apply IH; [rewrite (bdepth_child s c x W Hc); lia|].
        apply IH in Hp; [|rewrite (bdepth_child s c x W Hc); lia].
        right. rewrite (BWF_bancestors_unfold s y p W Ep).
        destruct Hp as [->|Hp]; [left; reflexivity|right; exact Hp].
Qed.

(* (c) *)
Theorem bsubtree_members s x y : BWF s ->
  In (Some y) (tags (img (bsubtree s x))) <-> y = x \/ In x (bancestors s y).
Proof. intros W. apply (btags_members s W (S (bsize s))). unfold bdepth. lia. Qed.

(* ---- the tags are pairwise distinct ---- *)
Lemma bchain_comparable s : BWF s -> forall l y a b,
  bancestors s y = l -> In a (y :: l) -> In b (y :: l) ->
  a = b \/ In a (bancestors s b) \/ In b (bancestors s a).
Proof.
  intros W. induction l as [|p l IH]; intros y a b El Ha Hb.
  - destruct Ha as [<-|[]]. destruct Hb as [<-|[]]. left. reflexivity.
  - destruct (bancestors_cons_inv s y p l W El) as [Ep El'].
    destruct Ha as [<-|Ha]; destruct Hb as [<-|Hb].
    + left. reflexivity.
    + right. right. rewrite El. exact Hb.
    + right. left. rewrite El. exact Ha.
    + apply (IH p a b (eq_sym El') Ha Hb).
Qed.

Lemma bsame_parent_in_chain s x y c1 c2 : BWF s ->
  bpar s c1 = Some x -> bpar s c2 = Some x ->
  (c1 = y \/ In c1 (bancestors s y)) -> (c2 = y \/ In c2 (bancestors s y)) -> c1 = c2.
Proof.
  intros W E1 E2 H1 H2. pose proof W as [_ _ _ _ Hb [r Hr]].
  assert (Ha : In c1 (y :: bancestors s y)) by (destruct H1 as [->|H1]; [left; reflexivity|right; exact H1]).
  assert (Hb' : In c2 (y :: bancestors s y)) by (destruct H2 as [->|H2]; [left; reflexivity|right; exact H2]).
  destruct (bchain_comparable s W (bancestors s y) y c1 c2 eq_refl Ha Hb') as [E|[H|H]]; [exact E| |]; exfalso.
  - rewrite (BWF_bancestors_unfold s c2 x W E2) in H. destruct H as [<-|H].
    + pose proof (Hr _ _ E1). lia.
    + apply (banc_rank s r Hr) in H. pose proof (Hr _ _ E1). lia.
  - rewrite (BWF_bancestors_unfold s c1 x W E1) in H. destruct H as [<-|H].
    + pose proof (Hr _ _ E2). lia.
    + apply (banc_rank s r Hr) in H. pose proof (Hr _ _ E2). lia.
Qed.

Lemma btags_all_some_n s : BWF s -> forall n x g, bsize s < bdepth s x + n ->
  In g (tags (img (bsubtree s x))) -> exists y, g = Some y.
Proof.
  intros W. induction n as [|n IH]; intros x g H Hin; rewrite (btags_unfold s x W) in Hin.
  - destruct (Nat.lt_ge_cases x (bsize s)) as [Hx|Hx]; [pose proof (bdepth_le_size s x W Hx); lia|].
    rewrite (bchildren_nil_outside s x W Hx) in Hin. destruct Hin as [<-|[]]. eexists; reflexivity.
  - destruct Hin as [<-|Hin]; [eexists; reflexivity|].
    apply in_flat_map in Hin as [c [Hc Hg]]. apply (bchildren_link s x c W) in Hc.
    apply (IH c g); [rewrite (bdepth_child s c x W Hc); lia|exact Hg].
Qed.

Lemma bsubtree_tags_all_some s x g : BWF s -> In g (tags (img (bsubtree s x))) -> exists y, g = Some y.
Proof. intros W. apply (btags_all_some_n s W (S (bsize s))). unfold bdepth. lia. Qed.

Lemma btags_nodup_n s : BWF s -> forall n x, bsize s < bdepth s x + n -> NoDup (tags (img (bsubtree s x))).
Proof.
  intros W. pose proof W as [_ _ _ _ Hb [r Hr]].
  induction n as [|n IH]; intros x H; rewrite (btags_unfold s x W).
  - destruct (Nat.lt_ge_cases x (bsize s)) as [Hx|Hx]; [pose proof (bdepth_le_size s x W Hx); lia|].
    rewrite (bchildren_nil_outside s x W Hx). cbn. constructor; [tauto|constructor].
  - assert (Hd : forall c, In c (bchildren s x) -> bsize s < bdepth s c + n).
    { intros c Hc. apply (bchildren_link s x c W) in Hc. rewrite (bdepth_child s c x W Hc). lia. }
    constructor.
    + intros Hin. apply in_flat_map in Hin as [c [Hc Hx]].
      pose proof Hc as Hc'. apply (bchildren_link s x c W) in Hc'.
      apply (bsubtree_members s c x W) in Hx. destruct Hx as [->|Hx].
      * pose proof (Hr _ _ Hc'). lia.
      * apply (banc_rank s r Hr) in Hx. pose proof (Hr _ _ Hc'). lia.
    + apply NoDup_flat_map; [apply (bchildren_nodup s x W)|intros c Hc; apply IH, Hd, Hc|].
      intros c1 c2 g H1 H2 Hg1 Hg2.
      destruct (bsubtree_tags_all_some s c1 g W Hg1) as [y ->].
      apply (bsubtree_members s c1 y W) in Hg1. apply (bsubtree_members s c2 y W) in Hg2.
      apply (bchildren_link s x c1 W) in H1. apply (bchildren_link s x c2 W) in H2.
      apply (bsame_parent_in_chain s x y c1 c2 W H1 H2);
        [destruct Hg1 as [->|Hg1]; [left; reflexivity|right; exact Hg1]
        |destruct Hg2 as [->|Hg2]; [left; reflexivity|right; exact Hg2]].
Qed.

(* (d) the tags of the binary tree below any node of a well-formed state are pairwise distinct *)
Theorem bsubtree_tags_nodup s x : BWF s -> NoDup (tags (img (bsubtree s x))).
Proof. intros W. apply (btags_nodup_n s W (S (bsize s))). unfold bdepth. lia. Qed.

(* ---- link with the boolean `tags_distinct` of Spec/PC04.v ---- *)
Definition some_tag (x : tree) : bool := match ttag x with Some _ => true | None => false end.
Definition tag_list (x : tree) : list id := match ttag x with Some i => [i] | None => [] end.

Lemma tags_distinct_list (l : list tree) :
  (forall g, In g (map ttag l) -> exists y, g = Some y) -> NoDup (map ttag l) ->
  forallb some_tag l = true /\ nodupb (flat_map tag_list l) = true.
Proof.
  induction l as [|t l IH]; intros Hs Hn; [split; reflexivity|].
  cbn [map] in Hs, Hn. inversion Hn as [|? ? Hnot Hn']; subst.
  destruct IH as [IH1 IH2]; [intros g Hg; apply Hs; right; exact Hg|exact Hn'|].
  destruct (Hs (ttag t) (or_introl eq_refl)) as [y Ey].
  cbn [forallb flat_map]. unfold some_tag at 1, tag_list at 1. rewrite Ey. cbn [andb app nodupb].
  split; [exact IH1|]. rewrite IH2, Bool.andb_true_r. apply Bool.negb_true_iff.
  destruct (memb y (flat_map tag_list l)) eqn:Em; [|reflexivity]. exfalso. apply Hnot.
  apply memb_In, in_flat_map in Em. destruct Em as [u [Hu Hy]]. rewrite Ey.
  unfold tag_list in Hy. destruct (ttag u) as [j|] eqn:Eu; [|contradiction].
  destruct Hy as [->|[]]. rewrite <- Eu. apply in_map. exact Hu.
Qed.

Lemma tags_distinct_intro t :
  (forall g, In g (tags t) -> exists y, g = Some y) -> NoDup (tags t) -> tags_distinct t = true.
Proof.
  intros Hs Hn. destruct (tags_distinct_list (pre t) Hs Hn) as [H1 H2].
  unfold tags_distinct. apply andb_true_iff. split; [exact H1|exact H2].
Qed.

(* (d), boolean form: the hypothesis of the C04 theorems about binary trees *)
Theorem bsubtree_tags_distinct s x : BWF s -> tags_distinct (img (bsubtree s x)) = true.
Proof.
  intros W. apply tags_distinct_intro.
  - intros g. apply bsubtree_tags_all_some. exact W.
  - apply bsubtree_tags_nodup. exact W.
Qed.

(* (e) in every state reachable through the BinaryNode API, below every node *)
Theorem reachable_bsubtree_is_btree cfg n ops x :
  let s := brun cfg (binit n) ops in
  NoDup (tags (img (bsubtree s x)))
  /\ tags_distinct (img (bsubtree s x)) = true
  /\ bsubtree s x = B (Some x) (option_map (bsubtree s) (slot (bkids s x) 0))
                               (option_map (bsubtree s) (slot (bkids s x) 1))
  /\ (forall y, In (Some y) (tags (img (bsubtree s x))) <-> y = x \/ In x (bancestors s y)).
Proof.
  intros s. assert (W : BWF s) by (apply brun_BWF, BWF_init).
  split; [apply bsubtree_tags_nodup; exact W|]. split; [apply bsubtree_tags_distinct; exact W|].
  split; [apply bsubtree_unfold; exact W|]. intros y. apply bsubtree_members. exact W.
Qed.
